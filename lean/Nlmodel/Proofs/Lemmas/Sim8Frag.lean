/- Stage 8: the fragment of stage 7 PLUS named function literals wherever an expression may stand.

   A named literal `functie f(ps) { .. }` declares `f` in the ENCLOSING scope (the resolver defines the name before the
   body, the code stores the function value in that slot and leaves it on the stack too), so the expression judgments
   get scope OUTPUTS: `Z8E Δ nl fn Γ Λ ab e Γ' Λ'` — the scopes `Γ Λ` before and `Γ' Λ'` after the expression, threaded
   through the sub-expressions in the order of the resolver (`resolveE`): left to right, arguments before the callee.
   `Δ` is the persistent global scope as in stage 7: the body of every literal is a function body over `Δ` (unspecified
   behaviour U1 stays excluded). -/
import Nlmodel.Proofs.Lemmas.Sim7Check
namespace Nl
namespace Sim8
open Spec Sim Sim6 Sim7
open SimH (LitF)
open SimF (paramScope paramScopeFrom)

mutual
/-- expressions: `Γ Λ` the scopes before, the last two indices the scopes after -/
inductive Z8E (Δ : Gam) : Nat → Bool → Gam → Gam → Bool → RExpr → Gam → Gam → Prop where
  | int {nl fn} (Γ Λ ab) (v : Int) : Z8E Δ nl fn Γ Λ ab (.int v) Γ Λ
  | bool {nl fn} (Γ Λ ab) (b : Bool) : Z8E Δ nl fn Γ Λ ab (.bool b) Γ Λ
  | float {nl fn} (Γ Λ ab) (x : UInt64) : LitF x → Z8E Δ nl fn Γ Λ ab (.float x) Γ Λ
  | str {nl fn} (Γ Λ ab) (s : Text) : Z8E Δ nl fn Γ Λ ab (.str s) Γ Λ
  | not {nl fn} (Γ Λ ab) (e : RExpr) (Γ1 Λ1 : Gam) : Z8E Δ nl fn Γ Λ ab e Γ1 Λ1 → Z8E Δ nl fn Γ Λ ab (.not e) Γ1 Λ1
  | neg {nl fn} (Γ Λ ab) (e : RExpr) (Γ1 Λ1 : Gam) : Z8E Δ nl fn Γ Λ ab e Γ1 Λ1 → Z8E Δ nl fn Γ Λ ab (.neg e) Γ1 Λ1
  | bin {nl fn} (Γ Λ ab) (l : RExpr) (op : BinOp) (r : RExpr) (Γ1 Λ1 Γ2 Λ2 : Gam) : fusedCandidate l op r = none →
      Z8E Δ nl fn Γ Λ ab l Γ1 Λ1 → Z8E Δ nl fn Γ1 Λ1 false r Γ2 Λ2 → Z8E Δ nl fn Γ Λ ab (.infix l op r) Γ2 Λ2
  | fusedL {nl fn} (Γ Λ ab) (b k : Nat) (op : BinOp) (v : Int) : (b, k) ∈ Λ → k < nl →
      fusedCandidate (.var ⟨b, .loc k⟩) op (.int v) = some (op, k, v) → Z8E Δ nl fn Γ Λ ab (.infix (.var ⟨b, .loc k⟩) op (.int v)) Γ Λ
  | fusedR {nl fn} (Γ Λ ab) (b k : Nat) (op op' : BinOp) (v : Int) : (b, k) ∈ Λ → k < nl → mirrorOp op = some op' →
      Z8E Δ nl fn Γ Λ ab (.infix (.int v) op (.var ⟨b, .loc k⟩)) Γ Λ
  | varG {nl fn} (Γ Λ ab) (b k : Nat) : (b, k) ∈ Γ → Z8E Δ nl fn Γ Λ ab (.var ⟨b, .global k⟩) Γ Λ
  | varL {nl fn} (Γ Λ ab) (b k : Nat) : (b, k) ∈ Λ → k < nl → Z8E Δ nl fn Γ Λ ab (.var ⟨b, .loc k⟩) Γ Λ
  | assignG {nl fn} (Γ Λ ab) (b k : Nat) (e : RExpr) (Γ1 Λ1 : Gam) : (b, k) ∈ Γ → Z8E Δ nl fn Γ Λ ab e Γ1 Λ1 →
      Z8E Δ nl fn Γ Λ ab (.assignVar ⟨b, .global k⟩ e) Γ1 Λ1
  | assignL {nl fn} (Γ Λ ab) (b k : Nat) (e : RExpr) (Γ1 Λ1 : Gam) : (b, k) ∈ Λ → k < nl → Z8E Δ nl fn Γ Λ ab e Γ1 Λ1 →
      Z8E Δ nl fn Γ Λ ab (.assignVar ⟨b, .loc k⟩ e) Γ1 Λ1
  | arr {nl fn} (Γ Λ ab) (vs : RExprs) (Γ1 Λ1 : Gam) : Z8Es Δ nl fn Γ Λ vs Γ1 Λ1 → Z8E Δ nl fn Γ Λ ab (.arr vs) Γ1 Λ1
  | index {nl fn} (Γ Λ ab) (l i : RExpr) (Γ1 Λ1 Γ2 Λ2 : Gam) : Z8E Δ nl fn Γ Λ ab l Γ1 Λ1 → Z8E Δ nl fn Γ1 Λ1 false i Γ2 Λ2 →
      Z8E Δ nl fn Γ Λ ab (.index l i) Γ2 Λ2
  | assignIndex {nl fn} (Γ Λ ab) (l i v : RExpr) (Γ1 Λ1 Γ2 Λ2 Γ3 Λ3 : Gam) : Z8E Δ nl fn Γ Λ ab l Γ1 Λ1 → Z8E Δ nl fn Γ1 Λ1 false i Γ2 Λ2 →
      Z8E Δ nl fn Γ2 Λ2 false v Γ3 Λ3 → Z8E Δ nl fn Γ Λ ab (.assignIndex l i v) Γ3 Λ3
  | builtin {nl fn} (Γ Λ ab) (b : Builtin) (as : RExprs) (Γ1 Λ1 : Gam) : Z8Es Δ nl fn Γ Λ as Γ1 Λ1 → Z8E Δ nl fn Γ Λ ab (.callBuiltin b as) Γ1 Λ1
  /-- `als`: the names the condition declares stay; the branches are blocks (their scopes close) -/
  | ifE {nl fn} (Γ Λ ab) (c : RExpr) (t : RBlock) (e : ROptBlock) (Γ1 Λ1 Γt Λt : Gam) : Z8E Δ nl fn Γ Λ ab c Γ1 Λ1 →
      Z8B Δ nl fn Γ1 Λ1 ab t Γt Λt → Z8O Δ nl fn Γ1 Λ1 ab e → Z8E Δ nl fn Γ Λ ab (.ifE c t e) Γ1 Λ1
  | whileE {nl fn} (Γ Λ ab) (c : RExpr) (b : RBlock) (Γ1 Λ1 Γt Λt : Gam) : Z8E Δ nl fn Γ Λ false c Γ1 Λ1 →
      Z8B Δ nl fn Γ1 Λ1 true b Γt Λt → Z8E Δ nl fn Γ Λ ab (.whileE c b) Γ1 Λ1
  /-- a call: the arguments first, then the callee (the order of the resolver and of the code) -/
  | call {nl fn} (Γ Λ ab) (f : RExpr) (as : RExprs) (Γ1 Λ1 Γ2 Λ2 : Gam) : Z8Es Δ nl fn Γ Λ as Γ1 Λ1 → Z8E Δ nl fn Γ1 Λ1 false f Γ2 Λ2 →
      Z8E Δ nl fn Γ Λ ab (.call f as) Γ2 Λ2
  /-- an ANONYMOUS function literal -/
  | func {nl fn} (Γ Λ ab) (fid : Nat) (ps : List Nat) (nlf : Nat) (body : RBlock) (Γb Λb : Gam) :
      Z8B Δ nlf true Δ (paramScope ps) false body Γb Λb → GamOK (paramScope ps) → (∀ p ∈ paramScope ps, p.2 < nlf) →
      Z8E Δ nl fn Γ Λ ab (.func fid none ps nlf body) Γ Λ
  /-- a NAMED function literal, anywhere outside a function: its name is a fresh global of the enclosing scope -/
  | funcG {nl fn} (Γ Λ ab) (fid b k : Nat) (ps : List Nat) (nlf : Nat) (body : RBlock) (Γb Λb : Gam) :
      fn = false → (∀ p ∈ Γ, p.1 ≠ b ∧ p.2 ≠ k) →
      Z8B Δ nlf true Δ (paramScope ps) false body Γb Λb → GamOK (paramScope ps) → (∀ p ∈ paramScope ps, p.2 < nlf) →
      Z8E Δ nl fn Γ Λ ab (.func fid (some ⟨b, .global k⟩) ps nlf body) ((b, k) :: Γ) Λ
  /-- a NAMED function literal, anywhere inside a function body: its name is a fresh local of the enclosing function -/
  | funcL {nl fn} (Γ Λ ab) (fid b k : Nat) (ps : List Nat) (nlf : Nat) (body : RBlock) (Γb Λb : Gam) :
      fn = true → (∀ p ∈ Λ, p.1 ≠ b ∧ p.2 ≠ k) → k < nl →
      Z8B Δ nlf true Δ (paramScope ps) false body Γb Λb → GamOK (paramScope ps) → (∀ p ∈ paramScope ps, p.2 < nlf) →
      Z8E Δ nl fn Γ Λ ab (.func fid (some ⟨b, .loc k⟩) ps nlf body) Γ ((b, k) :: Λ)
inductive Z8Es (Δ : Gam) : Nat → Bool → Gam → Gam → RExprs → Gam → Gam → Prop where
  | nil {nl fn} (Γ Λ) : Z8Es Δ nl fn Γ Λ .nil Γ Λ
  | cons {nl fn} (Γ Λ) (e : RExpr) (es : RExprs) (Γ1 Λ1 Γ2 Λ2 : Gam) : Z8E Δ nl fn Γ Λ false e Γ1 Λ1 → Z8Es Δ nl fn Γ1 Λ1 es Γ2 Λ2 →
      Z8Es Δ nl fn Γ Λ (.cons e es) Γ2 Λ2
inductive Z8O (Δ : Gam) : Nat → Bool → Gam → Gam → Bool → ROptBlock → Prop where
  | none {nl fn} (Γ Λ ab) : Z8O Δ nl fn Γ Λ ab .none
  | some {nl fn} (Γ Λ ab) (b : RBlock) (Γ1 Λ1 : Gam) : Z8B Δ nl fn Γ Λ ab b Γ1 Λ1 → Z8O Δ nl fn Γ Λ ab (.some b)
inductive Z8S (Δ : Gam) : Nat → Bool → Gam → Gam → Bool → RStmt → Gam → Gam → Prop where
  | expr {nl fn} (Γ Λ ab) (e : RExpr) (Γ1 Λ1 : Gam) : Z8E Δ nl fn Γ Λ ab e Γ1 Λ1 → Z8S Δ nl fn Γ Λ ab (.expr e) Γ1 Λ1
  | letG {nl fn} (Γ Λ ab) (b k : Nat) (e : RExpr) (Γ1 Λ1 : Gam) : fn = false → (∀ p ∈ Γ, p.1 ≠ b ∧ p.2 ≠ k) →
      Z8E Δ nl fn ((b, k) :: Γ) Λ ab e Γ1 Λ1 → Z8S Δ nl fn Γ Λ ab (.letS ⟨b, .global k⟩ e) Γ1 Λ1
  | letL {nl fn} (Γ Λ ab) (b k : Nat) (e : RExpr) (Γ1 Λ1 : Gam) : fn = true → (∀ p ∈ Λ, p.1 ≠ b ∧ p.2 ≠ k) → k < nl →
      Z8E Δ nl fn Γ ((b, k) :: Λ) ab e Γ1 Λ1 → Z8S Δ nl fn Γ Λ ab (.letS ⟨b, .loc k⟩ e) Γ1 Λ1
  | block {nl fn} (Γ Λ ab) (b : RBlock) (Γ1 Λ1 : Gam) : Z8B Δ nl fn Γ Λ ab b Γ1 Λ1 → Z8S Δ nl fn Γ Λ ab (.block b) Γ Λ
  | brk {nl fn} (Γ Λ) : Z8S Δ nl fn Γ Λ true .brk Γ Λ
  | cont {nl fn} (Γ Λ) : Z8S Δ nl fn Γ Λ true .cont Γ Λ
  | ret {nl fn} (Γ Λ ab) (e : RExpr) (Γ1 Λ1 : Gam) : fn = true → Z8E Δ nl fn Γ Λ ab e Γ1 Λ1 → Z8S Δ nl fn Γ Λ ab (.ret e) Γ1 Λ1
inductive Z8B (Δ : Gam) : Nat → Bool → Gam → Gam → Bool → RBlock → Gam → Gam → Prop where
  | nil {nl fn} (Γ Λ ab) : Z8B Δ nl fn Γ Λ ab .nil Γ Λ
  | cons {nl fn} (Γ Λ ab) (Γ1 Λ1 Γ2 Λ2 : Gam) (s : RStmt) (b : RBlock) : Z8S Δ nl fn Γ Λ ab s Γ1 Λ1 → Z8B Δ nl fn Γ1 Λ1 ab b Γ2 Λ2 →
      Z8B Δ nl fn Γ Λ ab (.cons s b) Γ2 Λ2
end

/-! ## how a node extends the scopes -/

/-- `Γ1 Λ1` extend `Γ Λ` by fresh names: globals only outside a function, locals only inside -/
structure ScExt (fn : Bool) (Γ Λ Γ1 Λ1 : Gam) : Prop where
  g : ∃ d, Γ1 = d ++ Γ ∧ (fn = true → d = [])
  l : ∃ d, Λ1 = d ++ Λ ∧ (fn = false → d = [])
  okg : GamOK Γ → GamOK Γ1
  okl : GamOK Λ → GamOK Λ1

theorem ScExt.refl (fn : Bool) (Γ Λ : Gam) : ScExt fn Γ Λ Γ Λ := ⟨⟨[], rfl, fun _ => rfl⟩, ⟨[], rfl, fun _ => rfl⟩, id, id⟩

theorem ScExt.trans {fn : Bool} {Γ Λ Γ1 Λ1 Γ2 Λ2 : Gam} (a : ScExt fn Γ Λ Γ1 Λ1) (b : ScExt fn Γ1 Λ1 Γ2 Λ2) : ScExt fn Γ Λ Γ2 Λ2 := by
  obtain ⟨⟨d1, e1, f1⟩, ⟨c1, g1, h1⟩, k1, l1⟩ := a
  obtain ⟨⟨d2, e2, f2⟩, ⟨c2, g2, h2⟩, k2, l2⟩ := b
  exact ⟨⟨d2 ++ d1, by rw [e2, e1, List.append_assoc], fun h => by rw [f1 h, f2 h]; rfl⟩,
    ⟨c2 ++ c1, by rw [g2, g1, List.append_assoc], fun h => by rw [h1 h, h2 h]; rfl⟩, fun h => k2 (k1 h), fun h => l2 (l1 h)⟩

theorem ScExt.consG {Γ Λ : Gam} (b k : Nat) (hf : ∀ p ∈ Γ, p.1 ≠ b ∧ p.2 ≠ k) : ScExt false Γ Λ ((b, k) :: Γ) Λ :=
  ⟨⟨[(b, k)], rfl, fun h => by cases h⟩, ⟨[], rfl, fun _ => rfl⟩, fun h => gamOK_cons h b k hf, id⟩

theorem ScExt.consL {Γ Λ : Gam} (b k : Nat) (hf : ∀ p ∈ Λ, p.1 ≠ b ∧ p.2 ≠ k) : ScExt true Γ Λ Γ ((b, k) :: Λ) :=
  ⟨⟨[], rfl, fun _ => rfl⟩, ⟨[(b, k)], rfl, fun h => by cases h⟩, id, fun h => gamOK_cons h b k hf⟩

mutual
theorem z8e_ext {Δ : Gam} : (e : RExpr) → ∀ {nl : Nat} {fn : Bool} {Γ Λ : Gam} {ab : Bool} {Γ1 Λ1 : Gam}, Z8E Δ nl fn Γ Λ ab e Γ1 Λ1 → ScExt fn Γ Λ Γ1 Λ1
  | .int _, _, _, _, _, _, _, _, h => by cases h; exact .refl _ _ _
  | .float _, _, _, _, _, _, _, _, h => by cases h; exact .refl _ _ _
  | .str _, _, _, _, _, _, _, _, h => by cases h; exact .refl _ _ _
  | .bool _, _, _, _, _, _, _, _, h => by cases h; exact .refl _ _ _
  | .var _, _, _, _, _, _, _, _, h => by cases h <;> exact .refl _ _ _
  | .not r, _, _, _, _, _, _, _, h => by cases h with | not _ _ _ _ _ _ h1 => exact z8e_ext r h1
  | .neg r, _, _, _, _, _, _, _, h => by cases h with | neg _ _ _ _ _ _ h1 => exact z8e_ext r h1
  | .assignVar _ e, _, _, _, _, _, _, _, h => by
    cases h with
    | assignG _ _ _ _ _ _ _ _ _ h1 => exact z8e_ext e h1
    | assignL _ _ _ _ _ _ _ _ _ _ h1 => exact z8e_ext e h1
  | .infix l op r, _, _, _, _, _, _, _, h => by
    cases h with
    | bin _ _ _ _ _ _ _ _ _ _ _ hl hr => exact (z8e_ext l hl).trans (z8e_ext r hr)
    | fusedL => exact .refl _ _ _
    | fusedR => exact .refl _ _ _
  | .ifE c _ _, _, _, _, _, _, _, _, h => by cases h with | ifE _ _ _ _ _ _ _ _ _ _ hc _ _ => exact z8e_ext c hc
  | .whileE c _, _, _, _, _, _, _, _, h => by cases h with | whileE _ _ _ _ _ _ _ _ _ hc _ => exact z8e_ext c hc
  | .arr vs, _, _, _, _, _, _, _, h => by cases h with | arr _ _ _ _ _ _ hvs => exact z8es_ext vs hvs
  | .callBuiltin _ as, _, _, _, _, _, _, _, h => by cases h with | builtin _ _ _ _ _ _ _ has => exact z8es_ext as has
  | .index l i, _, _, _, _, _, _, _, h => by
    cases h with | index _ _ _ _ _ _ _ _ _ hl hi => exact (z8e_ext l hl).trans (z8e_ext i hi)
  | .assignIndex l i v, _, _, _, _, _, _, _, h => by
    cases h with
    | assignIndex _ _ _ _ _ _ _ _ _ _ _ _ hl hi hv => exact ((z8e_ext l hl).trans (z8e_ext i hi)).trans (z8e_ext v hv)
  | .call f as, _, _, _, _, _, _, _, h => by
    cases h with | call _ _ _ _ _ _ _ _ _ has hf => exact (z8es_ext as has).trans (z8e_ext f hf)
  | .func _ _ _ _ _, _, _, _, _, _, _, _, h => by
    cases h with
    | func => exact .refl _ _ _
    | funcG _ _ _ _ b k _ _ _ _ _ hfn hf _ _ _ => subst hfn; exact .consG b k hf
    | funcL _ _ _ _ b k _ _ _ _ _ hfn hf _ _ _ _ => subst hfn; exact .consL b k hf
theorem z8es_ext {Δ : Gam} : (es : RExprs) → ∀ {nl : Nat} {fn : Bool} {Γ Λ : Gam} {Γ1 Λ1 : Gam}, Z8Es Δ nl fn Γ Λ es Γ1 Λ1 → ScExt fn Γ Λ Γ1 Λ1
  | .nil, _, _, _, _, _, _, h => by cases h; exact .refl _ _ _
  | .cons e es, _, _, _, _, _, _, h => by
    cases h with | cons _ _ _ _ _ _ _ _ he hes => exact (z8e_ext e he).trans (z8es_ext es hes)
end

theorem z8s_ext {Δ nl fn} {Γ Λ Γ1 Λ1 : Gam} {ab : Bool} {s : RStmt} (h : Z8S Δ nl fn Γ Λ ab s Γ1 Λ1) : ScExt fn Γ Λ Γ1 Λ1 := by
  cases h with
  | expr _ _ _ e _ _ he => exact z8e_ext e he
  | letG _ _ _ b k e _ _ hfn hf he => subst hfn; exact (ScExt.consG b k hf).trans (z8e_ext e he)
  | letL _ _ _ b k e _ _ hfn hf _ he => subst hfn; exact (ScExt.consL b k hf).trans (z8e_ext e he)
  | block => exact .refl _ _ _
  | brk => exact .refl _ _ _
  | cont => exact .refl _ _ _
  | ret _ _ _ e _ _ _ he => exact z8e_ext e he

theorem z8b_ext {Δ nl fn} : ∀ (b : RBlock) {Γ Λ Γ1 Λ1 : Gam} {ab : Bool}, Z8B Δ nl fn Γ Λ ab b Γ1 Λ1 → ScExt fn Γ Λ Γ1 Λ1
  | .nil, _, _, _, _, _, h => by cases h; exact .refl _ _ _
  | .cons s rest, _, _, _, _, _, h => by
    cases h with
    | cons _ _ _ _ _ _ _ _ _ hs hb => exact (z8s_ext hs).trans (z8b_ext rest hb)

end Sim8
end Nl
