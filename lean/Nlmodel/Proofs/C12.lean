/-
  C12 — calls bind arguments, isolate activations and resume the caller intact.
  Machine level: the two instructions that build and dismantle an activation on the flat stack,
  with the base-pointer arithmetic of vm.rs.  Definitional level: a call runs the body in a fresh
  activation and puts the caller's activation back.
-/
import Nlmodel.Model.Pipeline
import Nlmodel.Proofs.Lemmas.SimFnAll
import Nlmodel.Proofs.Lemmas.Sim6Body
namespace Nl
namespace C12
open Spec

theorem pop1_push (st : Array Value) (v : Value) : pop1 (st.push v) = some (v, st) := by
  simp [pop1]

/-- `Call`: with the arguments `a₁..aₙ` (left to right) and then the callee on the stack, the new
    activation's base pointer is the position of `a₁`, so parameter i IS argument i; the remaining
    local slots are null; the caller's frame (return address, base pointer) is saved; nothing
    below the arguments, no global and no heap object is touched -/
theorem C12_call_enters (s : VM) (st : Array Value) (fip nl argc ip' : Nat)
    (hs : s.stack = st.push (.fn fip nl)) (h1 : argc ≤ nl) (h2 : st.size + nl ≤ STACK_LIMIT)
    (h3 : s.depth + 1 < STACK_LIMIT) (h4 : argc ≤ st.size) :
    exec (.call argc) ip' s = .next { s with
      stack := st ++ Array.replicate (nl - argc) .null,
      frames := { ip := ip', bp := s.bp } :: s.frames, depth := s.depth + 1,
      ip := fip, bp := st.size - argc } := by
  simp only [exec, hs, pop1_push]
  have a1 : ¬ argc > nl := by omega
  have a2 : ¬ (st.size + nl > STACK_LIMIT ∨ s.depth + 1 ≥ STACK_LIMIT) := by omega
  have a3 : ¬ st.size < argc := by omega
  simp [a1, a2, a3]

/-- the i-th parameter slot of the new activation holds the i-th argument -/
theorem C12_params_by_position (st : Array Value) (nl argc i : Nat) (h4 : argc ≤ st.size) (hi : i < argc) :
    (st ++ Array.replicate (nl - argc) Value.null)[(st.size - argc) + i]? = st[(st.size - argc) + i]? := by
  rw [Array.getElem?_append_left (by omega)]

/-- every other local slot of a fresh activation is null: it does not inherit anything from any
    other activation of the same (or any) function -/
theorem C12_locals_fresh (st : Array Value) (nl argc j : Nat) (h1 : argc ≤ nl) (h4 : argc ≤ st.size)
    (hj1 : argc ≤ j) (hj2 : j < nl) :
    (st ++ Array.replicate (nl - argc) Value.null)[(st.size - argc) + j]? = some .null := by
  rw [Array.getElem?_append_right (by omega)]
  rw [Array.getElem?_replicate]
  have : st.size - argc + j - st.size < nl - argc := by omega
  simp [this]

/-- too many arguments (more than the function has slots) and the stack limit are errors, raised
    before anything is pushed -/
theorem C12_call_limits (s : VM) (st : Array Value) (fip nl argc ip' : Nat)
    (hs : s.stack = st.push (.fn fip nl)) :
    (argc > nl → ∃ s', exec (.call argc) ip' s = .error .argument s' ∧ s'.stack = st) ∧
    (argc ≤ nl → st.size + nl > STACK_LIMIT → ∃ s', exec (.call argc) ip' s = .error .index s' ∧ s'.stack = st) := by
  constructor
  · intro h; simp [exec, hs, pop1_push, h]
  · intro h1 h2
    have a1 : ¬ argc > nl := by omega
    simp [exec, hs, pop1_push, a1, h2]

/-- calling something that is not a function is a type error -/
theorem C12_call_non_function (s : VM) (st : Array Value) (i : Int) (argc ip' : Nat)
    (hs : s.stack = st.push (.int i)) : ∃ s', exec (.call argc) ip' s = .error .type s' := by
  simp [exec, hs, pop1_push]

/-- `Return`/`ReturnValue`: the callee's part of the stack (everything from its base pointer up) is
    discarded, the result is pushed on the caller's part, which is exactly what it was when the call
    was made, and the caller's frame is resumed; globals, output and `last` are untouched (the
    collection that runs here only releases unreachable heap objects, C03) -/
theorem C12_return_restores (s : VM) (fr : Frame) (rest : List Frame) (v : Value) (extra : List Value)
    (hf : s.frames = fr :: rest) (hb : s.bp ≤ s.stack.size) :
    ∃ m, doReturn s v extra = .next { s with
      stack := (s.stack.extract 0 s.bp).push v, frames := rest, depth := s.depth - 1, ip := fr.ip, bp := fr.bp, mem := m } := by
  unfold doReturn
  rw [hf]
  have : ¬ s.stack.size < s.bp := by omega
  simp only [this, ↓reduceIte]
  exact ⟨_, rfl⟩

/-- the cached depth IS the number of suspended callers: true at the start of a run and kept by every
    instruction (only `Call` and the two returns touch either), so the O(1) frame-limit test of the
    model is the `frames.len()` test of vm.rs -/
theorem C12_depth_is_frames (c : Code) (s s' : VM) (h : s.depth = s.frames.length) (hs : step c s = .next s') :
    s'.depth = s'.frames.length := by
  unfold step at hs
  cases hd : decodeAt c s.ip with
  | none => simp [hd] at hs
  | some i =>
    simp only [hd] at hs
    have hret : ∀ (t : VM) (v : Value) (ex : List Value), t.depth = t.frames.length → doReturn t v ex = .next s' → s'.depth = s'.frames.length := by
      intro t v ex ht hdr
      unfold doReturn at hdr
      cases hf : t.frames with
      | nil => simp [hf] at hdr
      | cons fr rest =>
        simp only [hf] at hdr
        split at hdr
        · cases hdr
        · injection hdr with hdr; subst hdr; simp [ht, hf]
    cases i <;> simp only [exec] at hs
    all_goals try (injection hs with hs; subst hs; exact h)
    all_goals try (repeat' split at hs) <;> (first | (injection hs with hs; subst hs; simp [h]) | cases hs | skip)
    all_goals try (exact hret _ _ _ h hs)
    all_goals try (rename_i hp; exact hret _ _ _ (by simpa using h) hs)

theorem C12_depth_at_start (prev : VM) (bc : Bytecode) : (prev.start bc).depth = (prev.start bc).frames.length := rfl

/-- what the caller had on the stack below the callee's base pointer is still there, unchanged,
    after the return -/
theorem C12_caller_stack_intact (st : Array Value) (bp : Nat) (v : Value) (i : Nat) (hi : i < bp) (hb : bp ≤ st.size) :
    ((st.extract 0 bp).push v)[i]? = st[i]? := by
  rw [Array.getElem?_push_lt (by simp; omega)]
  simp [Array.getElem?_extract]
  try omega

/-! ### definitional level -/

/-- arguments are bound to the parameters by position; missing ones are null -/
theorem C12_bind_by_position (ps : List Nat) (xs : List SVal) :
    (bindParams ps xs).map (·.1) = ps
    ∧ ∀ i, i < ps.length → ((bindParams ps xs)[i]?).map (·.2) = some (xs.getD i .null) := by
  induction ps generalizing xs with
  | nil => simp [bindParams]
  | cons p ps ih =>
    cases xs with
    | nil =>
      obtain ⟨h1, h2⟩ := ih []
      constructor
      · simp [bindParams, h1]
      · intro i hi
        cases i with
        | zero => simp [bindParams]
        | succ i =>
          have := h2 i (by simpa using hi)
          simpa [bindParams] using this
    | cons a as =>
      obtain ⟨h1, h2⟩ := ih as
      constructor
      · simp [bindParams, h1]
      · intro i hi
        cases i with
        | zero => simp [bindParams]
        | succ i =>
          have := h2 i (by simpa using hi)
          simpa [bindParams] using this

/-- a call evaluates the body in an activation that contains the parameters only — no binding of
    the caller or of any other activation — and afterwards the caller's activation is put back
    exactly; the callee can affect the caller only through globals, the store and the output -/
theorem C12_fresh_activation (f : Nat) (fe : RExpr) (as : RExprs) (st st1 st2 st3 : SState)
    (xs : List SVal) (fid nl : Nat) (ps : List Nat) (body : RBlock) (v : SVal)
    (ha : evalEs f as st = .val xs st1) (hf : evalE f fe st1 = .val (.fn fid ps nl body) st2)
    (hn : xs.length ≤ nl) (hb : evalBV f body { st2 with lenv := bindParams ps xs } = .val v st3) :
    evalE (f + 1) (.call fe as) st = .val v { st3 with lenv := st2.lenv } := by
  have : ¬ xs.length > nl := by omega
  simp [evalE, ha, hf, this, hb]

/-- `antwoord v` anywhere in the body ends the call with `v` -/
theorem C12_early_return (f : Nat) (fe : RExpr) (as : RExprs) (st st1 st2 st3 : SState)
    (xs : List SVal) (fid nl : Nat) (ps : List Nat) (body : RBlock) (v : SVal)
    (ha : evalEs f as st = .val xs st1) (hf : evalE f fe st1 = .val (.fn fid ps nl body) st2)
    (hn : xs.length ≤ nl) (hb : evalBV f body { st2 with lenv := bindParams ps xs } = .ret v st3) :
    evalE (f + 1) (.call fe as) st = .val v { st3 with lenv := st2.lenv } := by
  have : ¬ xs.length > nl := by omega
  simp [evalE, ha, hf, this, hb]

/-! ### whole calls on the machine (stage 4 of the simulation, `Proofs/Lemmas/SimFn*`) -/

/-- A CALL EXPRESSION, END TO END ON THE MACHINE: in any frame `below ++ locs ++ ops` with any suspended
    callers `fr`, for a call `f(a₁..aₙ)` of the stage-4 fragment: if the definitional semantics
    (arguments left to right, then the callee, parameters bound by position, fresh activation, the
    caller's activation put back) gives the value `v`, the machine reaches the instruction after
    the `Call` in the SAME frame — `below` untouched, the caller's locals holding what the semantics'
    restored activation holds, `ops` with exactly `v` pushed, the same suspended callers — whatever
    the callee did in between (recursion, nested calls, early `antwoord`, loops); errors are matched
    by errors, and the only other possibility is the machine's stack/frame limit.  Instance of
    `SimF.pall` for expressions. -/
theorem C12_call_simulation (W : SimF.World) (hW : SimF.WOK W) (f : Nat) (nl : Nat) (fn : Bool) (Γ Γx Λ : Sim.Gam) (ab : Bool)
    (fe : RExpr) (as : RExprs) (hx : SimF.YE nl fn Γ Λ ab (.call fe as))
    (st : SState) (pos : Nat) (lp : LoopCtx) (cs : List Const) (below : Array Value) (fr : List Frame) (locs ops g : Array Value) (l : Value)
    (hsc : SimF.Sc W fn Γ Γx Λ) (hinv : SimF.Inv W (SimF.bigScope fn Γ Γx) Λ nl st locs g l)
    (hcode : Sim.CodeAt W.C pos (emitE (.call fe as) pos lp cs).1) (hpool : Sim.PoolOK W.s0.cvals (emitE (.call fe as) pos lp cs).2) :
    SimF.GoalV W (SimF.bigScope fn Γ Γx) Λ nl below fr fn ab lp pos locs ops g l (pos + sizeE (.call fe as)) ops st
      (evalE f (.call fe as) st) :=
  (SimF.pall hW f).e nl fn Γ Γx Λ ab (.call fe as) hx st pos lp cs below fr locs ops g l hsc hinv hcode hpool

/-- A CALL EXPRESSION WITH HEAP VALUES, END TO END ON THE MACHINE (stage 6, collections included): in any frame
    `below ++ locs ++ ops` with any suspended callers `fr`, for a call `f(a₁..aₙ)` whose arguments, callee and body may
    build, pass, mutate and return floats, strings and arrays: if the definitional semantics gives the value `v`, the machine
    reaches the instruction after the `Call` in the SAME frame — `below` literally untouched, the caller's locals related to
    what the semantics' restored activation holds, `ops` with a value related to `v` pushed, the same suspended callers —
    through every collection the returns in between have run; and EVERY value the caller still holds in `below` or `ops`
    (a half-evaluated expression, an alias of an array the callee changed) is related afterwards to what it was related to
    before (`Sim6.Keep`): the caller resumes intact.  Errors are matched by errors after the same output; the only other
    possibility is the machine's stack/frame limit.  Instance of `Sim6.pall6` for expressions. -/
theorem C12_call_simulation_with_heap_values (W : Sim6.World) (hW : Sim6.WOK6 W) (f : Nat) (nl : Nat) (fn : Bool) (Γ Γx Λ : Sim.Gam) (ab : Bool)
    (fe : RExpr) (as : RExprs) (hx : Sim6.ZE nl fn Γ Λ ab (.call fe as))
    (c : Sim6.Cfg) (lp : LoopCtx) (cs : List Const) (below : Array Value) (fr : List Frame)
    (hsc : Sim6.Sc6 W fn Γ Γx Λ) (hinv : Sim6.Inv6 W (SimF.bigScope fn Γ Γx) Λ nl c) (hwt : TI.WT (c.vm W below fr))
    (hcode : Sim.CodeAt W.C c.ip (emitE (.call fe as) c.ip lp cs).1) (hpool : Sim.Ext (emitE (.call fe as) c.ip lp cs).2 W.CS) :
    Sim6.GoalV6 W (SimF.bigScope fn Γ Γx) Λ nl below fr fn ab lp c (c.ip + sizeE (.call fe as)) c.ops (evalE f (.call fe as) c.st) :=
  (Sim6.pall6 hW f).e nl fn Γ Γx Λ ab (.call fe as) hx c lp cs below fr hsc hinv hwt hcode hpool

end C12
end Nl
