/- C08 (rejection half, sharpened): when the token list contains the illegal token the parser answers a
   SYNTAX error — unless it has met a type error strictly before the illegal token, i.e. a type error
   that the tokens before the illegal one cause on their own, whatever follows them.
   Two runs of every parser function are compared: on `q ++ illegal :: rest` and on `q ++ rest'`. -/
import Nlmodel.Proofs.Lemmas.LexCoverParse
import Nlmodel.Proofs.Lemmas.ParseStable
namespace Nl
namespace LC
namespace TY

/-- two runs of a parser function: on `q ++ illegal :: rest` (answer `r`) and on `q ++ rest'` (answer `r'`).
    * If the first run succeeds it has stopped before the illegal token (`q'` remains of `q`), and if
      `q'` is not empty the second run has done exactly the same.
    * If the first run answers a TYPE error, `q` is not empty and the second run answers it too.
    * On an empty `q` (the run starts at the illegal token) the first run consumes nothing. -/
def Sim {α : Type} (rest rest' : List Token) (q : List Token) (r r' : Except Err (α × List Token)) : Prop :=
  match r with
  | .ok (x, ts') => ∃ q', ts' = q' ++ Token.illegal :: rest ∧ (q = [] → q' = []) ∧ (q' ≠ [] → r' = .ok (x, q' ++ rest'))
  | .error e => e = .type → (q ≠ [] ∧ r' = .error .type)

variable {rest rest' : List Token}

theorem Sim.weaken {α : Type} {q q2 : List Token} {r r' : Except Err (α × List Token)} (h : Sim rest rest' q r r') (h2 : q2 ≠ []) :
    Sim rest rest' q2 r r' := by
  cases r with
  | error e => exact fun he => ⟨h2, (h he).2⟩
  | ok p =>
    obtain ⟨x, ts'⟩ := p
    obtain ⟨q', e1, _, e3⟩ := h
    exact ⟨q', e1, fun e => absurd e h2, e3⟩

/-- a run that starts at the illegal token is related to everything -/
theorem Sim.of_nil {α : Type} {q : List Token} {r r' r'' : Except Err (α × List Token)} (h : Sim rest rest' [] r r') :
    Sim rest rest' q r r'' := by
  cases r with
  | error e => exact fun he => absurd rfl (h he).1
  | ok p =>
    obtain ⟨x, ts'⟩ := p
    obtain ⟨q', e1, e2, _⟩ := h
    have := e2 rfl
    subst this
    exact ⟨[], e1, fun _ => rfl, fun h => absurd rfl h⟩

theorem Sim.mono {α : Type} {q q2 : List Token} {r r' : Except Err (α × List Token)} (h : Sim rest rest' q2 r r')
    (hq : q = [] → q2 = []) : Sim rest rest' q r r' := by
  cases q2 with
  | nil => exact h.of_nil
  | cons a q3 =>
    refine h.weaken ?_
    intro e; have := hq e; cases this

theorem sim_err {α : Type} {q : List Token} {e : Err} {r' : Except Err (α × List Token)} (he : e ≠ .type) :
    Sim rest rest' q (.error e) r' := fun h => absurd h he

theorem sim_err_same {α : Type} {q : List Token} (e : Err) (hq : q ≠ []) :
    Sim (α := α) rest rest' q (.error e) (.error e) := by
  intro h; subst h; exact ⟨hq, rfl⟩

theorem sim_ok {α : Type} {q : List Token} (x : α) (q' : List Token) (h : q = [] → q' = []) :
    Sim rest rest' q (.ok (x, q' ++ Token.illegal :: rest)) (.ok (x, q' ++ rest')) :=
  ⟨q', rfl, h, fun _ => rfl⟩

theorem sim_ok_nil {α : Type} {q : List Token} (x : α) {r' : Except Err (α × List Token)} :
    Sim rest rest' q (.ok (x, Token.illegal :: rest)) r' :=
  ⟨[], rfl, fun _ => rfl, fun h => absurd rfl h⟩

/-- the parser's own `match r with | .ok (x, ts') => K x ts' | .error e => .error e` -/
def bnd {α β : Type} (r : Except Err (α × List Token)) (K : α → List Token → Except Err (β × List Token)) :
    Except Err (β × List Token) :=
  match r with | .ok (x, ts') => K x ts' | .error e => .error e

/-- the parser's own `match skipTok t ts with | .ok ts' => K ts' | .error e => .error e` -/
def bndS {β : Type} (r : Except Err (List Token)) (K : List Token → Except Err (β × List Token)) :
    Except Err (β × List Token) :=
  match r with | .ok ts' => K ts' | .error e => .error e

/-- sequencing -/
theorem sim_bind {α β : Type} {q : List Token} {r r' : Except Err (α × List Token)}
    {K : α → List Token → Except Err (β × List Token)}
    (h : Sim rest rest' q r r')
    (hk : ∀ x q', r = .ok (x, q' ++ Token.illegal :: rest) → (q = [] → q' = []) →
      Sim rest rest' q' (K x (q' ++ Token.illegal :: rest)) (K x (q' ++ rest'))) :
    Sim rest rest' q (bnd r K) (bnd r' K) := by
  cases r with
  | error e =>
    intro he
    obtain ⟨h1, h2⟩ := h he
    subst h2
    exact ⟨h1, rfl⟩
  | ok p =>
    obtain ⟨x, ts'⟩ := p
    obtain ⟨q', e1, e2, e3⟩ := h
    subst e1
    have hk' := hk x q' rfl e2
    cases q' with
    | nil => exact hk'.of_nil
    | cons t q1 =>
      have hr' := e3 (by simp)
      subst hr'
      exact hk'.mono e2

theorem absurd_cons {α : Type} {P : Prop} {a : α} {q : List α} (h : a :: q = []) : P := by cases h

theorem cur_cons (a : Token) (q : List Token) : cur (a :: q) = a := rfl
theorem adv_cons (a : Token) (q : List Token) : adv (a :: q) = q := rfl
theorem skipTok_cons (t a : Token) (q : List Token) : skipTok t (a :: q) = if a = t then .ok q else .error .syntax := rfl
theorem skipOpt_cons (t a : Token) (q : List Token) : skipOpt t (a :: q) = if a = t then q else a :: q := rfl

/-- a required token -/
theorem sim_skip {β : Type} {q : List Token} (t : Token) (ht : t ≠ .illegal)
    {K : List Token → Except Err (β × List Token)}
    (hk : ∀ q', (q = [] → q' = []) → Sim rest rest' q' (K (q' ++ Token.illegal :: rest)) (K (q' ++ rest'))) :
    Sim rest rest' q (bndS (skipTok t (q ++ Token.illegal :: rest)) K) (bndS (skipTok t (q ++ rest')) K) := by
  cases q with
  | nil =>
    have : skipTok t ([] ++ Token.illegal :: rest) = .error .syntax := by
      rw [List.nil_append, skipTok_cons, if_neg (fun e => ht (Eq.symm e))]
    rw [this]
    exact sim_err (by decide)
  | cons a q1 =>
    rw [List.cons_append, List.cons_append, skipTok_cons, skipTok_cons]
    by_cases ha : a = t
    · rw [if_pos ha, if_pos ha]
      exact (hk q1 (fun h => absurd_cons h)).mono (fun h => absurd_cons h)
    · rw [if_neg ha, if_neg ha]
      exact sim_err (by decide)

/-- `skipOpt` on both sides -/
theorem skipOpt_sim (t : Token) (ht : t ≠ .illegal) (q : List Token) :
    ∃ q2, skipOpt t (q ++ Token.illegal :: rest) = q2 ++ Token.illegal :: rest ∧ (q = [] → q2 = []) ∧
      (q ≠ [] → skipOpt t (q ++ rest') = q2 ++ rest') := by
  cases q with
  | nil =>
    refine ⟨[], ?_, fun _ => rfl, fun h => absurd rfl h⟩
    rw [List.nil_append, skipOpt_cons, if_neg (fun e => ht (Eq.symm e))]
  | cons a q1 =>
    rw [List.cons_append, List.cons_append, skipOpt_cons, skipOpt_cons]
    by_cases ha : a = t
    · rw [if_pos ha, if_pos ha]
      exact ⟨q1, rfl, fun h => absurd_cons h, fun _ => rfl⟩
    · rw [if_neg ha, if_neg ha]
      exact ⟨a :: q1, rfl, fun h => absurd_cons h, fun _ => rfl⟩

theorem sim_ok_skipOpt {α : Type} {q : List Token} (t : Token) (ht : t ≠ .illegal) (x : α) (q' : List Token) (h : q = [] → q' = []) :
    Sim rest rest' q (.ok (x, skipOpt t (q' ++ Token.illegal :: rest))) (.ok (x, skipOpt t (q' ++ rest'))) := by
  obtain ⟨q2, e1, e2, e3⟩ := skipOpt_sim (rest := rest) (rest' := rest') t ht q'
  rw [e1]
  refine ⟨q2, rfl, fun hq => e2 (h hq), fun hq2 => ?_⟩
  have : q' ≠ [] := fun e => hq2 (e2 e)
  rw [e3 this]

/-- a function applied after `skipOpt` -/
theorem sim_after_skipOpt {α : Type} (t : Token) (ht : t ≠ .illegal) (P : List Token → Except Err (α × List Token))
    (hP : ∀ q, Sim rest rest' q (P (q ++ Token.illegal :: rest)) (P (q ++ rest'))) (q : List Token) :
    Sim rest rest' q (P (skipOpt t (q ++ Token.illegal :: rest))) (P (skipOpt t (q ++ rest'))) := by
  obtain ⟨q2, e1, e2, e3⟩ := skipOpt_sim (rest := rest) (rest' := rest') t ht q
  rw [e1]
  cases q with
  | nil =>
    have := e2 rfl
    subst this
    exact (hP []).of_nil
  | cons a q1 =>
    rw [e3 (by simp)]
    exact (hP q2).mono (fun h => absurd_cons h)

/-! ### at the illegal token every function stops without a type error -/

theorem stuck_pre (f : Nat) : ∃ e, parsePrefix f (Token.illegal :: rest) = .error e ∧ e ≠ .type := by
  cases f with
  | zero => exact ⟨.fuel, by simp [parsePrefix], by decide⟩
  | succ f => exact ⟨.syntax, by rw [parsePrefix]; simp only [cur], by decide⟩

theorem stuck_expr (f p : Nat) : ∃ e, parseExpr f p (Token.illegal :: rest) = .error e ∧ e ≠ .type := by
  cases f with
  | zero => exact ⟨.fuel, by simp [parseExpr], by decide⟩
  | succ f =>
    obtain ⟨e, h1, h2⟩ := stuck_pre (rest := rest) f
    exact ⟨e, by rw [parseExpr, h1], h2⟩

theorem stuck_block (f : Nat) : ∃ e, parseBlock f (Token.illegal :: rest) = .error e ∧ e ≠ .type := by
  cases f with
  | zero => exact ⟨.fuel, by simp [parseBlock], by decide⟩
  | succ f => exact ⟨.syntax, by rw [parseBlock]; simp [skipTok, cur], by decide⟩

theorem stuck_stmt (f : Nat) : ∃ e, parseStatement f (Token.illegal :: rest) = .error e ∧ e ≠ .type := by
  cases f with
  | zero => exact ⟨.fuel, by simp [parseStatement], by decide⟩
  | succ f =>
    obtain ⟨e, h1, h2⟩ := stuck_expr (rest := rest) f 0
    exact ⟨e, by rw [parseStatement]; simp only [cur, h1], h2⟩

theorem stuck_stmts (f : Nat) (b : Bool) : ∃ e, parseStmts f b (Token.illegal :: rest) = .error e ∧ e ≠ .type := by
  cases f with
  | zero => exact ⟨.fuel, by simp [parseStmts], by decide⟩
  | succ f =>
    obtain ⟨e, h1, h2⟩ := stuck_stmt (rest := rest) f
    exact ⟨e, by rw [parseStmts]; simp [cur, h1], h2⟩

theorem stuck_elems (f : Nat) (close : Token) (hc : close ≠ .illegal) :
    ∃ e, parseElems f close (Token.illegal :: rest) = .error e ∧ e ≠ .type := by
  cases f with
  | zero => exact ⟨.fuel, by simp [parseElems], by decide⟩
  | succ f =>
    obtain ⟨e, h1, h2⟩ := stuck_expr (rest := rest) f 0
    refine ⟨e, ?_, h2⟩
    rw [parseElems, cur_cons, if_neg (fun e => hc (Eq.symm e)), h1]

theorem stuck_loop (f p : Nat) (l : Expr) :
    parseLoop f p l (Token.illegal :: rest) = .error .fuel ∨ parseLoop f p l (Token.illegal :: rest) = .ok (l, Token.illegal :: rest) := by
  cases f with
  | zero => exact .inl (by simp [parseLoop])
  | succ f =>
    right
    rw [parseLoop]
    simp [cur, Token.prec]

theorem sim_stuck_err {α : Type} {q : List Token} {r r' : Except Err (α × List Token)} (h : ∃ e, r = .error e ∧ e ≠ .type) :
    Sim rest rest' q r r' := by
  obtain ⟨e, h1, h2⟩ := h
  rw [h1]; exact sim_err h2

/-! ### the parameter list (its fuel is irrelevant) -/

theorem params_stable_le {f g : Nat} (hfg : f ≤ g) (ts : List Token) (r : Except Err (List Text × List Token))
    (h : parseParams f ts = r) (hr : r ≠ .error .fuel) : parseParams g ts = r := by
  induction hfg with
  | refl => exact h
  | step _ ih => exact PSt.params_mono _ _ _ ih hr

theorem params_fuel (g g' : Nat) (ts : List Token) (hg : ts.length < g) (hg' : ts.length < g') :
    parseParams g ts = parseParams g' ts := by
  have h1 : parseParams g ts ≠ .error .fuel := by
    have := PF.params_good g ts hg
    intro e; rw [e] at this; exact this rfl
  have h2 : parseParams g' ts ≠ .error .fuel := by
    have := PF.params_good g' ts hg'
    intro e; rw [e] at this; exact this rfl
  rcases Nat.le_total g g' with h | h
  · exact (params_stable_le h ts _ rfl h1).symm
  · exact params_stable_le h ts _ rfl h2

theorem params_sim : ∀ (f : Nat) (q : List Token),
    Sim rest rest' q (parseParams f (q ++ Token.illegal :: rest)) (parseParams f (q ++ rest')) := by
  intro f
  induction f with
  | zero => intro q; simp only [parseParams]; exact sim_err (by decide)
  | succ f ih =>
    intro q
    cases q with
    | nil =>
      simp only [parseParams, List.nil_append, cur]
      exact sim_err (by decide)
    | cons a q1 =>
      simp only [List.cons_append]
      rw [parseParams, parseParams]
      simp only [cur, adv]
      cases a with
      | rparen => exact sim_ok (q := Token.rparen :: q1) [] (Token.rparen :: q1) (fun h => absurd_cons h)
      | ident n =>
        simp only
        set_option smartUnfolding false in
        show Sim rest rest' (Token.ident n :: q1)
          (bnd (parseParams f (skipOpt .comma (q1 ++ Token.illegal :: rest))) (fun ps ts' => .ok (n :: ps, ts')))
          (bnd (parseParams f (skipOpt .comma (q1 ++ rest'))) (fun ps ts' => .ok (n :: ps, ts')))
        exact (sim_bind (sim_after_skipOpt .comma (by decide) (parseParams f) ih q1)
          (fun ps q' _ _ => sim_ok (n :: ps) q' (fun h => h))).mono (fun h => absurd_cons h)
      | _ => exact sim_err (by decide)

/-! ### the parser functions, branch by branch, in `bnd` form -/

def infixTail (f p : Nat) (l : Expr) (a : Token) (op : Op) (q : List Token) : Except Err (Expr × List Token) :=
  if isFunc l then .error .type
  else if cur q = .assign && isIdent l then
    bnd (parseExpr f 0 (adv q)) (fun r ts2 => parseLoop f p (.assign l (.infix l op r)) ts2)
  else bnd (parseExpr f a.prec q) (fun r ts2 => parseLoop f p (.infix l op r) ts2)

def assignTail (f p : Nat) (l : Expr) (q : List Token) : Except Err (Expr × List Token) :=
  if !assignable l then .error .type
  else bnd (parseExpr f 1 q) (fun r ts2 => parseLoop f p (.assign l r) ts2)

def callTail (f p : Nat) (l : Expr) (q : List Token) : Except Err (Expr × List Token) :=
  if !callable l then .error .type
  else bnd (parseElems f .rparen q) (fun as ts1 => parseLoop f p (.call l as) (adv ts1))

def indexTail (f p : Nat) (l : Expr) (q : List Token) : Except Err (Expr × List Token) :=
  if !indexable l then .error .type
  else bnd (parseExpr f 0 q) (fun i ts1 => bndS (skipTok .rbracket ts1) (fun ts2 => parseLoop f p (.index l i) ts2))

theorem parseLoop_eq (f p : Nat) (l : Expr) (a : Token) (q : List Token) :
    parseLoop (f + 1) p l (a :: q) =
      if a = .semi then .ok (l, a :: q)
      else if !(p < a.prec) then .ok (l, a :: q)
      else match a.binop with
        | some op => infixTail f p l a op q
        | none =>
          match a with
          | .assign => assignTail f p l q
          | .lparen => callTail f p l q
          | .lbracket => indexTail f p l q
          | _ => .ok (l, a :: q) := by
  rw [parseLoop]
  set_option smartUnfolding false in rfl

theorem parseExpr_eq (f p : Nat) (ts : List Token) :
    parseExpr (f + 1) p ts = bnd (parsePrefix f ts) (fun l ts' => parseLoop f p l ts') := by
  rw [parseExpr]
  set_option smartUnfolding false in rfl

theorem parseElems_eq (f : Nat) (close : Token) (ts : List Token) :
    parseElems (f + 1) close ts =
      if cur ts = close then .ok (.nil, ts)
      else bnd (parseExpr f 0 ts) (fun e ts1 =>
        bnd (parseElems f close (skipOpt .comma ts1)) (fun es ts2 => .ok (.cons e es, ts2))) := by
  rw [parseElems]
  set_option smartUnfolding false in rfl

theorem parseBlock_eq (f : Nat) (ts : List Token) :
    parseBlock (f + 1) ts =
      bndS (skipTok .lbrace ts) (fun ts1 => bnd (parseStmts f true ts1) (fun b ts2 =>
        bndS (skipTok .rbrace ts2) (fun ts3 => .ok (b, ts3)))) := by
  rw [parseBlock]
  set_option smartUnfolding false in rfl

theorem parseStmts_eq (f : Nat) (b : Bool) (ts : List Token) :
    parseStmts (f + 1) b ts =
      if cur ts = .eof || (b && cur ts = .rbrace) then .ok (.nil, ts)
      else bnd (parseStatement f ts) (fun s ts1 => bnd (parseStmts f b ts1) (fun bl ts2 => .ok (.cons s bl, ts2))) := by
  rw [parseStmts]
  set_option smartUnfolding false in rfl

def elseTail (f : Nat) (c : Expr) (t : Block) (ts2 : List Token) : Except Err (Expr × List Token) :=
  if cur ts2 = .kwElse then
    if cur (adv ts2) = .kwIf then
      bnd (parseStatement f (adv ts2)) (fun s ts4 => .ok (.ifE c t (.some (.cons s .nil)), ts4))
    else bnd (parseBlock f (adv ts2)) (fun e ts4 => .ok (.ifE c t (.some e), ts4))
  else .ok (.ifE c t .none, ts2)

def funcTail (f : Nat) (name : Text) (ts2 : List Token) : Except Err (Expr × List Token) :=
  bndS (skipTok .lparen ts2) (fun ts3 => bnd (parseParams (ts3.length + 1) ts3) (fun ps ts4 =>
    bndS (skipTok .rparen ts4) (fun ts5 => bnd (parseBlock f ts5) (fun b ts6 => .ok (.func name ps b, ts6)))))

theorem parsePrefix_lparen (f : Nat) (q : List Token) :
    parsePrefix (f + 1) (.lparen :: q) =
      bnd (parseExpr f 0 q) (fun e ts' => bndS (skipTok .rparen ts') (fun ts'' => .ok (e, ts''))) := by
  rw [parsePrefix]
  set_option smartUnfolding false in rfl

theorem parsePrefix_if (f : Nat) (q : List Token) :
    parsePrefix (f + 1) (.kwIf :: q) =
      bnd (parseExpr f 0 q) (fun c ts1 => bnd (parseBlock f ts1) (fun t ts2 => elseTail f c t ts2)) := by
  rw [parsePrefix]
  set_option smartUnfolding false in rfl

theorem parsePrefix_bang (f : Nat) (q : List Token) :
    parsePrefix (f + 1) (.bang :: q) = bnd (parseExpr f (Token.prec .bang) q) (fun r ts' => .ok (.pre .not r, ts')) := by
  rw [parsePrefix]
  set_option smartUnfolding false in rfl

theorem parsePrefix_minus (f : Nat) (q : List Token) :
    parsePrefix (f + 1) (.minus :: q) = bnd (parseExpr f (Token.prec .minus) q) (fun r ts' => .ok (.pre .sub r, ts')) := by
  rw [parsePrefix]
  set_option smartUnfolding false in rfl

theorem parsePrefix_while (f : Nat) (q : List Token) :
    parsePrefix (f + 1) (.kwWhile :: q) =
      bnd (parseExpr f 0 q) (fun c ts1 => bnd (parseBlock f ts1) (fun b ts2 => .ok (.whileE c b, ts2))) := by
  rw [parsePrefix]
  set_option smartUnfolding false in rfl

theorem parsePrefix_lbracket (f : Nat) (q : List Token) :
    parsePrefix (f + 1) (.lbracket :: q) =
      bnd (parseElems f .rbracket q) (fun vs ts1 => bndS (skipTok .rbracket ts1) (fun ts2 => .ok (.arr vs, ts2))) := by
  rw [parsePrefix]
  set_option smartUnfolding false in rfl

theorem parsePrefix_func_ident (f : Nat) (n : Text) (q : List Token) :
    parsePrefix (f + 1) (.kwFunc :: .ident n :: q) = funcTail f n q := by
  rw [parsePrefix]
  set_option smartUnfolding false in rfl

theorem parsePrefix_func_nil (f : Nat) : parsePrefix (f + 1) [.kwFunc] = funcTail f [] [] := by
  rw [parsePrefix]
  set_option smartUnfolding false in rfl

theorem parsePrefix_func_other (f : Nat) (b : Token) (q : List Token) (hb : ∀ n, b ≠ .ident n) :
    parsePrefix (f + 1) (.kwFunc :: b :: q) = funcTail f [] (b :: q) := by
  rw [parsePrefix]
  cases b with
  | ident n => exact absurd rfl (hb n)
  | _ => set_option smartUnfolding false in rfl

theorem parseStatement_declare (f : Nat) (n : Text) (q : List Token) :
    parseStatement (f + 1) (.kwDeclare :: .ident n :: q) =
      bndS (skipTok .assign q) (fun ts2 => bnd (parseExpr f 0 ts2) (fun e ts3 => .ok (.letS n e, skipOpt .semi ts3))) := by
  rw [parseStatement]
  set_option smartUnfolding false in rfl

theorem parseStatement_declare_other (f : Nat) (b : Token) (q : List Token) (hb : ∀ n, b ≠ .ident n) :
    parseStatement (f + 1) (.kwDeclare :: b :: q) = .error .syntax := by
  rw [parseStatement]
  cases b with
  | ident n => exact absurd rfl (hb n)
  | _ => rfl

theorem parseStatement_lbrace (f : Nat) (q : List Token) :
    parseStatement (f + 1) (.lbrace :: q) =
      bnd (parseBlock f (.lbrace :: q)) (fun b ts1 => .ok (.block b, skipOpt .semi ts1)) := by
  rw [parseStatement]
  set_option smartUnfolding false in rfl

theorem parseStatement_return (f : Nat) (q : List Token) :
    parseStatement (f + 1) (.kwReturn :: q) = bnd (parseExpr f 0 q) (fun e ts1 => .ok (.ret e, skipOpt .semi ts1)) := by
  rw [parseStatement]
  set_option smartUnfolding false in rfl

theorem parseStatement_other (f : Nat) (a : Token) (q : List Token)
    (ha : a ≠ .kwDeclare ∧ a ≠ .lbrace ∧ a ≠ .kwReturn ∧ a ≠ .kwContinue ∧ a ≠ .kwBreak) :
    parseStatement (f + 1) (a :: q) = bnd (parseExpr f 0 (a :: q)) (fun e ts1 => .ok (.expr e, skipOpt .semi ts1)) := by
  rw [parseStatement]
  obtain ⟨h1, h2, h3, h4, h5⟩ := ha
  cases a with
  | kwDeclare => exact absurd rfl h1
  | lbrace => exact absurd rfl h2
  | kwReturn => exact absurd rfl h3
  | kwContinue => exact absurd rfl h4
  | kwBreak => exact absurd rfl h5
  | _ => set_option smartUnfolding false in rfl

theorem parsePrefix_int (f : Nat) (sx : Text) (q : List Token) :
    parsePrefix (f + 1) (.int sx :: q) = match parseIntLit sx with | .ok e => .ok (e, q) | .error e => .error e := by
  rw [parsePrefix]
  set_option smartUnfolding false in rfl

theorem parsePrefix_float (f : Nat) (sx : Text) (q : List Token) :
    parsePrefix (f + 1) (.float sx :: q) = .ok (parseFloatLit sx, q) := by
  rw [parsePrefix]; rfl

theorem parsePrefix_true (f : Nat) (q : List Token) : parsePrefix (f + 1) (.kwTrue :: q) = .ok (.bool true, q) := by
  rw [parsePrefix]; rfl

theorem parsePrefix_false (f : Nat) (q : List Token) : parsePrefix (f + 1) (.kwFalse :: q) = .ok (.bool false, q) := by
  rw [parsePrefix]; rfl

theorem parsePrefix_str (f : Nat) (sx : Text) (q : List Token) :
    parsePrefix (f + 1) (.str sx :: q) = .ok (.str (unescape sx), q) := by
  rw [parsePrefix]; rfl

theorem parsePrefix_ident (f : Nat) (n : Text) (q : List Token) :
    parsePrefix (f + 1) (.ident n :: q) = .ok (.ident n, q) := by
  rw [parsePrefix]; rfl

/-! ### the simulation -/

structure All (rest rest' : List Token) (f : Nat) : Prop where
  pre : ∀ q, Sim rest rest' q (parsePrefix f (q ++ Token.illegal :: rest)) (parsePrefix f (q ++ rest'))
  expr : ∀ p q, Sim rest rest' q (parseExpr f p (q ++ Token.illegal :: rest)) (parseExpr f p (q ++ rest'))
  loop : ∀ p l q, Sim rest rest' q (parseLoop f p l (q ++ Token.illegal :: rest)) (parseLoop f p l (q ++ rest'))
  elems : ∀ close q, close ≠ .illegal →
    Sim rest rest' q (parseElems f close (q ++ Token.illegal :: rest)) (parseElems f close (q ++ rest'))
  stmt : ∀ q, Sim rest rest' q (parseStatement f (q ++ Token.illegal :: rest)) (parseStatement f (q ++ rest'))
  block : ∀ q, Sim rest rest' q (parseBlock f (q ++ Token.illegal :: rest)) (parseBlock f (q ++ rest'))
  stmts : ∀ b q, Sim rest rest' q (parseStmts f b (q ++ Token.illegal :: rest)) (parseStmts f b (q ++ rest'))

section step
variable {f : Nat} (ih : All rest rest' f)
include ih

theorem expr_succ (p : Nat) (q : List Token) :
    Sim rest rest' q (parseExpr (f + 1) p (q ++ Token.illegal :: rest)) (parseExpr (f + 1) p (q ++ rest')) := by
  rw [parseExpr_eq, parseExpr_eq]
  exact sim_bind (ih.pre q) (fun l q' _ _ => ih.loop p l q')

theorem elems_succ (close : Token) (q : List Token) (hc : close ≠ .illegal) :
    Sim rest rest' q (parseElems (f + 1) close (q ++ Token.illegal :: rest)) (parseElems (f + 1) close (q ++ rest')) := by
  cases q with
  | nil => exact sim_stuck_err (stuck_elems _ close hc)
  | cons a q1 =>
    rw [parseElems_eq, parseElems_eq, List.cons_append, List.cons_append, cur_cons, cur_cons]
    by_cases ha : a = close
    · rw [if_pos ha, if_pos ha]
      exact sim_ok (q := a :: q1) Exprs.nil (a :: q1) (fun h => h)
    · rw [if_neg ha, if_neg ha]
      exact sim_bind (ih.expr 0 (a :: q1)) (fun e q' _ _ =>
        sim_bind (sim_after_skipOpt .comma (by decide) (parseElems f close) (fun q => ih.elems close q hc) q')
          (fun es q'' _ _ => sim_ok (Exprs.cons e es) q'' (fun h => h)))

theorem block_succ (q : List Token) :
    Sim rest rest' q (parseBlock (f + 1) (q ++ Token.illegal :: rest)) (parseBlock (f + 1) (q ++ rest')) := by
  rw [parseBlock_eq, parseBlock_eq]
  exact sim_skip .lbrace (by decide) (fun q1 _ =>
    sim_bind (ih.stmts true q1) (fun b q2 _ _ => sim_skip .rbrace (by decide) (fun q3 _ => sim_ok b q3 (fun h => h))))

theorem stmts_succ (b : Bool) (q : List Token) :
    Sim rest rest' q (parseStmts (f + 1) b (q ++ Token.illegal :: rest)) (parseStmts (f + 1) b (q ++ rest')) := by
  cases q with
  | nil => exact sim_stuck_err (stuck_stmts _ b)
  | cons a q1 =>
    rw [parseStmts_eq, parseStmts_eq, List.cons_append, List.cons_append, cur_cons, cur_cons]
    by_cases ha : (a = .eof || (b && a = .rbrace)) = true
    · rw [if_pos ha, if_pos ha]
      exact sim_ok (q := a :: q1) Block.nil (a :: q1) (fun h => h)
    · rw [if_neg ha, if_neg ha]
      exact sim_bind (ih.stmt (a :: q1)) (fun st q' _ _ =>
        sim_bind (ih.stmts b q') (fun bl q'' _ _ => sim_ok (Block.cons st bl) q'' (fun h => h)))

theorem stmt_succ (q : List Token) :
    Sim rest rest' q (parseStatement (f + 1) (q ++ Token.illegal :: rest)) (parseStatement (f + 1) (q ++ rest')) := by
  cases q with
  | nil => exact sim_stuck_err (stuck_stmt _)
  | cons a q1 =>
    rw [List.cons_append, List.cons_append]
    by_cases h1 : a = .kwDeclare
    · subst h1
      cases q1 with
      | nil =>
        rw [List.nil_append, parseStatement_declare_other f _ _ (by intro n h; cases h)]
        exact sim_err (by decide)
      | cons b q2 =>
        rw [List.cons_append, List.cons_append]
        by_cases hb : ∃ n, b = .ident n
        · obtain ⟨n, rfl⟩ := hb
          rw [parseStatement_declare, parseStatement_declare]
          exact (sim_skip .assign (by decide) (fun q3 _ =>
            sim_bind (ih.expr 0 q3) (fun e q4 _ _ => sim_ok_skipOpt .semi (by decide) (Stmt.letS n e) q4 (fun h => h)))).mono
              (q2 := q2) (fun h => absurd_cons h)
        · rw [parseStatement_declare_other f b _ (fun n e => hb ⟨n, e⟩)]
          exact sim_err (by decide)
    by_cases h2 : a = .lbrace
    · subst h2
      rw [parseStatement_lbrace, parseStatement_lbrace]
      exact sim_bind (ih.block (Token.lbrace :: q1)) (fun b q' _ _ => sim_ok_skipOpt .semi (by decide) (Stmt.block b) q' (fun h => h))
    by_cases h3 : a = .kwReturn
    · subst h3
      rw [parseStatement_return, parseStatement_return]
      exact (sim_bind (ih.expr 0 q1) (fun e q' _ _ => sim_ok_skipOpt .semi (by decide) (Stmt.ret e) q' (fun h => h))).mono
        (fun h => absurd_cons h)
    by_cases h4 : a = .kwContinue
    · subst h4
      rw [parseStatement, parseStatement]
      exact sim_ok_skipOpt .semi (by decide) Stmt.cont q1 (fun h => absurd_cons h)
    by_cases h5 : a = .kwBreak
    · subst h5
      rw [parseStatement, parseStatement]
      exact sim_ok_skipOpt .semi (by decide) Stmt.brk q1 (fun h => absurd_cons h)
    rw [parseStatement_other f a _ ⟨h1, h2, h3, h4, h5⟩, parseStatement_other f a _ ⟨h1, h2, h3, h4, h5⟩]
    exact sim_bind (ih.expr 0 (a :: q1)) (fun e q' _ _ => sim_ok_skipOpt .semi (by decide) (Stmt.expr e) q' (fun h => h))

theorem infix_sim (p : Nat) (l : Expr) (a : Token) (op : Op) (q1 : List Token) :
    Sim rest rest' (a :: q1) (infixTail f p l a op (q1 ++ Token.illegal :: rest)) (infixTail f p l a op (q1 ++ rest')) := by
  unfold infixTail
  by_cases hf : isFunc l = true
  · rw [if_pos hf, if_pos hf]; exact sim_err_same .type (fun h => absurd_cons h)
  rw [if_neg hf, if_neg hf]
  cases q1 with
  | nil =>
    rw [List.nil_append, cur_cons]
    have hc : ¬ ((Token.illegal = Token.assign && isIdent l) = true) := by simp
    rw [if_neg hc]
    obtain ⟨e, h1, h2⟩ := stuck_expr (rest := rest) f a.prec
    rw [h1]
    exact sim_err h2
  | cons b q2 =>
    rw [List.cons_append, List.cons_append, cur_cons, cur_cons, adv_cons, adv_cons]
    by_cases hc : (b = Token.assign && isIdent l) = true
    · rw [if_pos hc, if_pos hc]
      exact (sim_bind (ih.expr 0 q2) (fun r q' _ _ => ih.loop p _ q')).mono (fun h => absurd_cons h)
    · rw [if_neg hc, if_neg hc]
      exact (sim_bind (ih.expr a.prec (b :: q2)) (fun r q' _ _ => ih.loop p _ q')).mono (fun h => absurd_cons h)

theorem assign_sim (p : Nat) (l : Expr) (a : Token) (q1 : List Token) :
    Sim rest rest' (a :: q1) (assignTail f p l (q1 ++ Token.illegal :: rest)) (assignTail f p l (q1 ++ rest')) := by
  unfold assignTail
  by_cases hf : (!assignable l) = true
  · rw [if_pos hf, if_pos hf]; exact sim_err_same .type (fun h => absurd_cons h)
  rw [if_neg hf, if_neg hf]
  exact (sim_bind (ih.expr 1 q1) (fun r q' _ _ => ih.loop p _ q')).mono (fun h => absurd_cons h)

theorem call_sim (p : Nat) (l : Expr) (a : Token) (q1 : List Token) :
    Sim rest rest' (a :: q1) (callTail f p l (q1 ++ Token.illegal :: rest)) (callTail f p l (q1 ++ rest')) := by
  unfold callTail
  by_cases hf : (!callable l) = true
  · rw [if_pos hf, if_pos hf]; exact sim_err_same .type (fun h => absurd_cons h)
  rw [if_neg hf, if_neg hf]
  refine (sim_bind (ih.elems .rparen q1 (by decide)) (fun as q' hr _ => ?_)).mono (fun h => absurd_cons h)
  have hcl := elems_close f .rparen _ as _ hr
  cases q' with
  | nil => rw [List.nil_append, cur_cons] at hcl; cases hcl
  | cons b q2 =>
    rw [List.cons_append, List.cons_append, adv_cons, adv_cons]
    exact (ih.loop p _ q2).mono (fun h => absurd_cons h)

theorem index_sim (p : Nat) (l : Expr) (a : Token) (q1 : List Token) :
    Sim rest rest' (a :: q1) (indexTail f p l (q1 ++ Token.illegal :: rest)) (indexTail f p l (q1 ++ rest')) := by
  unfold indexTail
  by_cases hf : (!indexable l) = true
  · rw [if_pos hf, if_pos hf]; exact sim_err_same .type (fun h => absurd_cons h)
  rw [if_neg hf, if_neg hf]
  exact (sim_bind (ih.expr 0 q1) (fun i q' _ _ =>
    sim_skip .rbracket (by decide) (fun q'' _ => ih.loop p _ q''))).mono (fun h => absurd_cons h)

theorem loop_succ (p : Nat) (l : Expr) (q : List Token) :
    Sim rest rest' q (parseLoop (f + 1) p l (q ++ Token.illegal :: rest)) (parseLoop (f + 1) p l (q ++ rest')) := by
  cases q with
  | nil =>
    rcases stuck_loop (rest := rest) (f + 1) p l with h | h
    · rw [List.nil_append, h]; exact sim_err (by decide)
    · rw [List.nil_append, h]; exact sim_ok_nil l
  | cons a q1 =>
    rw [List.cons_append, List.cons_append, parseLoop_eq, parseLoop_eq]
    have hok : Sim rest rest' (a :: q1) (Except.ok (l, a :: (q1 ++ Token.illegal :: rest))) (Except.ok (l, a :: (q1 ++ rest'))) :=
      sim_ok (q := a :: q1) l (a :: q1) (fun h => h)
    by_cases h1 : a = .semi
    · rw [if_pos h1, if_pos h1]; exact hok
    rw [if_neg h1, if_neg h1]
    by_cases h2 : (!decide (p < a.prec)) = true
    · rw [if_pos h2, if_pos h2]; exact hok
    rw [if_neg h2, if_neg h2]
    cases hb : a.binop with
    | some op => exact infix_sim ih p l a op q1
    | none =>
      cases a with
      | assign => exact assign_sim ih p l _ q1
      | lparen => exact call_sim ih p l _ q1
      | lbracket => exact index_sim ih p l _ q1
      | _ => first | exact hok | cases hb

theorem else_sim (c : Expr) (t : Block) (q : List Token) :
    Sim rest rest' q (elseTail f c t (q ++ Token.illegal :: rest)) (elseTail f c t (q ++ rest')) := by
  unfold elseTail
  cases q with
  | nil =>
    rw [List.nil_append, cur_cons, if_neg (by decide)]
    exact sim_ok_nil _
  | cons b q3 =>
    rw [List.cons_append, List.cons_append, cur_cons, cur_cons, adv_cons, adv_cons]
    by_cases hb : b = .kwElse
    · rw [if_pos hb, if_pos hb]
      cases q3 with
      | nil =>
        rw [List.nil_append, cur_cons, if_neg (by decide)]
        obtain ⟨e, h1, h2⟩ := stuck_block (rest := rest) f
        rw [h1]
        exact sim_err h2
      | cons d q4 =>
        rw [List.cons_append, List.cons_append, cur_cons, cur_cons]
        by_cases hd : d = .kwIf
        · rw [if_pos hd, if_pos hd]
          exact (sim_bind (ih.stmt (d :: q4)) (fun st q' _ _ => sim_ok _ q' (fun h => h))).mono (fun h => absurd_cons h)
        · rw [if_neg hd, if_neg hd]
          exact (sim_bind (ih.block (d :: q4)) (fun eb q' _ _ => sim_ok _ q' (fun h => h))).mono (fun h => absurd_cons h)
    · rw [if_neg hb, if_neg hb]
      exact sim_ok (q := b :: q3) _ (b :: q3) (fun h => h)

theorem func_sim (name : Text) (q : List Token) :
    Sim rest rest' q (funcTail f name (q ++ Token.illegal :: rest)) (funcTail f name (q ++ rest')) := by
  unfold funcTail
  refine sim_skip .lparen (by decide) (fun q3 _ => ?_)
  show Sim rest rest' q3 (bnd (parseParams _ _) _) (bnd (parseParams _ _) _)
  rw [params_fuel ((q3 ++ Token.illegal :: rest).length + 1) ((q3 ++ Token.illegal :: rest).length + (q3 ++ rest').length + 1) _
        (by omega) (by omega),
      params_fuel ((q3 ++ rest').length + 1) ((q3 ++ Token.illegal :: rest).length + (q3 ++ rest').length + 1) _
        (by omega) (by omega)]
  exact sim_bind (params_sim _ q3) (fun ps q4 _ _ =>
    sim_skip .rparen (by decide) (fun q5 _ => sim_bind (ih.block q5) (fun b q6 _ _ => sim_ok _ q6 (fun h => h))))

theorem pre_succ (q : List Token) :
    Sim rest rest' q (parsePrefix (f + 1) (q ++ Token.illegal :: rest)) (parsePrefix (f + 1) (q ++ rest')) := by
  cases q with
  | nil => exact sim_stuck_err (stuck_pre _)
  | cons a q1 =>
    rw [List.cons_append, List.cons_append]
    have hne : ∀ {P : Prop}, a :: q1 = [] → P := fun h => absurd_cons h
    cases a with
    | int sx =>
      rw [parsePrefix_int, parsePrefix_int]
      cases parseIntLit sx with
      | ok e => exact sim_ok e q1 hne
      | error e => exact sim_err_same e (fun h => absurd_cons h)
    | float sx => rw [parsePrefix_float, parsePrefix_float]; exact sim_ok _ q1 hne
    | kwTrue => rw [parsePrefix_true, parsePrefix_true]; exact sim_ok _ q1 hne
    | kwFalse => rw [parsePrefix_false, parsePrefix_false]; exact sim_ok _ q1 hne
    | str sx => rw [parsePrefix_str, parsePrefix_str]; exact sim_ok _ q1 hne
    | ident n => rw [parsePrefix_ident, parsePrefix_ident]; exact sim_ok _ q1 hne
    | lparen =>
      rw [parsePrefix_lparen, parsePrefix_lparen]
      exact (sim_bind (ih.expr 0 q1) (fun e q' _ _ =>
        sim_skip .rparen (by decide) (fun q'' _ => sim_ok e q'' (fun h => h)))).mono hne
    | kwIf =>
      rw [parsePrefix_if, parsePrefix_if]
      exact (sim_bind (ih.expr 0 q1) (fun c q' _ _ =>
        sim_bind (ih.block q') (fun t q'' _ _ => else_sim ih c t q''))).mono hne
    | bang =>
      rw [parsePrefix_bang, parsePrefix_bang]
      exact (sim_bind (ih.expr _ q1) (fun r q' _ _ => sim_ok _ q' (fun h => h))).mono hne
    | minus =>
      rw [parsePrefix_minus, parsePrefix_minus]
      exact (sim_bind (ih.expr _ q1) (fun r q' _ _ => sim_ok _ q' (fun h => h))).mono hne
    | kwFunc =>
      cases q1 with
      | nil =>
        rw [List.nil_append, parsePrefix_func_other f _ _ (by intro n h; cases h)]
        exact (func_sim ih [] []).of_nil
      | cons b q2 =>
        rw [List.cons_append, List.cons_append]
        by_cases hb : ∃ n, b = .ident n
        · obtain ⟨n, rfl⟩ := hb
          rw [parsePrefix_func_ident, parsePrefix_func_ident]
          exact (func_sim ih n q2).mono (fun h => absurd_cons h)
        · rw [parsePrefix_func_other f b _ (fun n e => hb ⟨n, e⟩), parsePrefix_func_other f b _ (fun n e => hb ⟨n, e⟩)]
          exact (func_sim ih [] (b :: q2)).mono (fun h => absurd_cons h)
    | kwWhile =>
      rw [parsePrefix_while, parsePrefix_while]
      exact (sim_bind (ih.expr 0 q1) (fun c q' _ _ =>
        sim_bind (ih.block q') (fun b q'' _ _ => sim_ok _ q'' (fun h => h)))).mono hne
    | lbracket =>
      rw [parsePrefix_lbracket, parsePrefix_lbracket]
      exact (sim_bind (ih.elems .rbracket q1 (by decide)) (fun vs q' _ _ =>
        sim_skip .rbracket (by decide) (fun q'' _ => sim_ok _ q'' (fun h => h)))).mono hne
    | _ =>
      rw [parsePrefix, parsePrefix]
      exact sim_err (e := .syntax) (by decide)

end step

/-- every parser function, with any fuel, runs alike on `q ++ illegal :: rest` and on `q ++ rest'` up to the illegal token -/
theorem all (rest rest' : List Token) : ∀ f, All rest rest' f := by
  intro f
  induction f with
  | zero =>
    refine ⟨fun _ => ?_, fun _ _ => ?_, fun _ _ _ => ?_, fun _ _ _ => ?_, fun _ => ?_, fun _ => ?_, fun _ _ => ?_⟩
    · rw [parsePrefix]; exact sim_err (by decide)
    · rw [parseExpr]; exact sim_err (by decide)
    · rw [parseLoop]; exact sim_err (by decide)
    · rw [parseElems]; exact sim_err (by decide)
    · rw [parseStatement]; exact sim_err (by decide)
    · rw [parseBlock]; exact sim_err (by decide)
    · rw [parseStmts]; exact sim_err (by decide)
  | succ f ih =>
    exact ⟨pre_succ ih, expr_succ ih, loop_succ ih, fun c q hc => elems_succ ih c q hc, stmt_succ ih, block_succ ih, stmts_succ ih⟩

end TY

/-- A TYPE ERROR IN FRONT OF AN ILLEGAL TOKEN IS CAUSED BY THE TOKENS BEFORE IT ALONE: if the parser
    answers a type error on `pre ++ illegal :: rest`, it answers that type error on `pre ++ rest'`
    for EVERY continuation `rest'` (in particular on `pre` itself): the error was found strictly
    before the illegal token, which the parser has not reached. -/
theorem parseTokens_type_before (pre rest : List Token) (h : parseTokens (pre ++ .illegal :: rest) = .error .type)
    (rest' : List Token) : parseTokens (pre ++ rest') = .error .type := by
  unfold parseTokens at h
  have hs := (TY.all rest rest' (parseFuel (pre ++ Token.illegal :: rest))).stmts false pre
  cases hr : parseStmts (parseFuel (pre ++ Token.illegal :: rest)) false (pre ++ Token.illegal :: rest) with
  | ok p => rw [hr] at h; cases h
  | error e =>
    rw [hr] at h hs
    simp only [Except.error.injEq] at h
    subst h
    obtain ⟨_, hR⟩ := hs rfl
    have key : parseStmts (parseFuel (pre ++ rest')) false (pre ++ rest') = .error .type := by
      rcases Nat.le_total (parseFuel (pre ++ Token.illegal :: rest)) (parseFuel (pre ++ rest')) with hle | hle
      · exact PSt.stmts_stable_le hle false _ _ hR (by simp)
      · have hnf : parseStmts (parseFuel (pre ++ rest')) false (pre ++ rest') ≠ .error .fuel := by
          have := (PF.all (parseFuel (pre ++ rest'))).stmts false (pre ++ rest') (by unfold parseFuel; omega)
          intro e; rw [e] at this; exact this rfl
        have := PSt.stmts_stable_le hle false _ _ rfl hnf
        rw [← this]; exact hR
    unfold parseTokens
    rw [key]

/-- WHAT CANNOT BE READ IS REJECTED, sharp form: on a token list with an illegal token (no end marker
    before it) the parser answers a SYNTAX error, unless the tokens before the illegal token are a
    type error on their own (whatever follows them) — then it answers that type error. -/
theorem parseTokens_illegal_sharp (pre rest : List Token) (he : Token.eof ∉ pre) :
    parseTokens (pre ++ .illegal :: rest) = .error .syntax ∨
    (parseTokens (pre ++ .illegal :: rest) = .error .type ∧ ∀ rest', parseTokens (pre ++ rest') = .error .type) := by
  rcases parseTokens_illegal pre rest he with h | h
  · exact .inl h
  · exact .inr ⟨h, parseTokens_type_before pre rest h⟩

end LC
end Nl
