/- Stage 5: how the invariant moves along allocations and mutations. -/
import Nlmodel.Proofs.Lemmas.SimHStep
namespace Nl
namespace SimH
open Spec Sim

/-! ### how the invariant moves along allocations and mutations -/

theorem heap_str_lt (h : Heap) (a : Nat) (s : Text) (hx : h.get a = .str s) : a < h.cells.size := by
  unfold Heap.get at hx
  by_cases hlt : a < h.cells.size
  · exact hlt
  · have : h.cells[a]? = none := by simp; omega
    simp [Array.getD_eq_getD_getElem?, this] at hx

theorem pool_machine_alloc {cvals : Array Value} {cs : List Const} {h : Heap} {μ : AMap} (hp : PoolH cvals cs h μ) (c : Cell) :
    PoolH cvals cs (h.alloc c).1 μ :=
  ⟨hp.ints, fun k x hk => by
      obtain ⟨a0, h1, h2⟩ := hp.floats k x hk
      exact ⟨a0, h1, by rw [heap_push_get_old h c a0 (heap_get_live_lt h a0 x h2)]; exact h2⟩,
    fun k s hk => by
      obtain ⟨a0, h1, h2, h3⟩ := hp.strs k s hk
      exact ⟨a0, h1, by rw [heap_push_get_old h c a0 (heap_str_lt h a0 s h2)]; exact h2, h3⟩, hp.lits⟩

theorem pool_both_alloc {cvals : Array Value} {cs : List Const} {h : Heap} {μ : AMap} (hp : PoolH cvals cs h μ) (c : Cell) (a : Nat) :
    PoolH cvals cs (h.alloc c).1 (μ.ext a h.cells.size) := by
  have := pool_machine_alloc hp c
  refine ⟨this.ints, this.floats, fun k s hk => ?_, hp.lits⟩
  obtain ⟨a0, h1, h2, h3⟩ := hp.strs k s hk
  obtain ⟨a1, h1', h2', _⟩ := this.strs k s hk
  rw [h1] at h1'; injection h1' with e; injection e with e; subst e
  refine ⟨a0, h1, h2', fun x => ?_⟩
  simp only [AMap.ext]
  split
  · intro e; injection e with e
    have := heap_str_lt h a0 s h2; omega
  · exact h3 x

theorem pool_set {cvals : Array Value} {cs : List Const} {h : Heap} {μ : AMap} (hp : PoolH cvals cs h μ) (a a' : Nat) (hm : μ a = some a')
    (c : Cell) (hnf : ∀ x, h.get a' ≠ .float x) : PoolH cvals cs (h.set a' c) μ :=
  ⟨hp.ints, fun k x hk => by
      obtain ⟨a0, h1, h2⟩ := hp.floats k x hk
      have : a0 ≠ a' := by intro e; subst e; exact hnf x h2
      exact ⟨a0, h1, by rw [heap_set_get_other h a' a0 c this]; exact h2⟩,
    fun k s hk => by
      obtain ⟨a0, h1, h2, h3⟩ := hp.strs k s hk
      have : a0 ≠ a' := by intro e; subst e; exact h3 a hm
      exact ⟨a0, h1, by rw [heap_set_get_other h a' a0 c this]; exact h2, h3⟩, hp.lits⟩

section inv
variable {s0 : VM} {CS : List Const} {Γ : Gam} {μ : AMap} {st : SState} {g : Array Value} {l : Value} {m : Mem} {out : List Text}

/-- the invariant after a step that grew the state, given the new heap relation and pool facts -/
theorem Inv5.move {μ' : AMap} {st' : SState} {m' : Mem} (hinv : Inv5 s0 CS Γ μ st g l m out) (hg : Grow μ st m.heap μ' st' m'.heap)
    (hgenv : st'.genv = st.genv) (hlast : st'.last = st.last) (hout : st'.out = st.out)
    (hr : HR μ' st' m'.heap) (hp : PoolH s0.cvals CS m'.heap μ') : Inv5 s0 CS Γ μ' st' g l m' out :=
  ⟨fun b k hm v hv => by
      rw [hgenv] at hv
      obtain ⟨mv, h1, h2⟩ := hinv.relG b k hm v hv
      exact ⟨mv, h1.grow hg, h2⟩,
   by rw [hlast]; exact hinv.last.grow hg, hr, by rw [hout]; exact hinv.out, hp⟩

/-- a float result is boxed on the machine only -/
theorem inv_alloc_float (hinv : Inv5 s0 CS Γ μ st g l m out) (x : UInt64) :
    Inv5 s0 CS Γ μ st g l (m.allocFloat x).1 out ∧ Grow μ st m.heap μ st (m.allocFloat x).1.heap ∧
    VRh μ st (m.allocFloat x).1.heap (.float x) (m.allocFloat x).2 := by
  have hg := grow_machine_alloc μ st m.heap (.float x)
  refine ⟨hinv.move hg rfl rfl rfl (hr_machine_alloc hinv.hr _) (pool_machine_alloc hinv.pool _), hg, ?_⟩
  simp only [Mem.allocFloat, VRh]
  exact heap_push_get_new m.heap (.float x)

/-- a new string on both sides -/
theorem inv_alloc_str (hinv : Inv5 s0 CS Γ μ st g l m out) (s : Text) :
    Inv5 s0 CS Γ (μ.ext st.store.size m.heap.cells.size) (st.alloc (.str s)).1 g l (m.allocStr s).1 out ∧
    Grow μ st m.heap (μ.ext st.store.size m.heap.cells.size) (st.alloc (.str s)).1 (m.allocStr s).1.heap ∧
    VRh (μ.ext st.store.size m.heap.cells.size) (st.alloc (.str s)).1 (m.allocStr s).1.heap (.str (st.alloc (.str s)).2) (m.allocStr s).2 := by
  have hg := grow_both_alloc hinv.hr (.str s) (.str s)
  have hr' := hr_both_alloc hinv.hr (.str s) (.str s) ⟨fun s' e => (by injection e with e; rw [e]), fun vs e => (by cases e)⟩
  refine ⟨hinv.move hg rfl rfl rfl hr' (pool_both_alloc hinv.pool _ _), hg, ?_⟩
  simp [Mem.allocStr, SState.alloc, Heap.alloc, VRh, AMap.ext, isStrCell]

/-- a new array on both sides -/
theorem inv_alloc_arr (hinv : Inv5 s0 CS Γ μ st g l m out) (vs : List SVal) (ms : List Value) (hl : VRL μ st m.heap vs ms) :
    Inv5 s0 CS Γ (μ.ext st.store.size m.heap.cells.size) (st.alloc (.arr vs)).1 g l (m.allocArr ms).1 out ∧
    Grow μ st m.heap (μ.ext st.store.size m.heap.cells.size) (st.alloc (.arr vs)).1 (m.allocArr ms).1.heap ∧
    VRh (μ.ext st.store.size m.heap.cells.size) (st.alloc (.arr vs)).1 (m.allocArr ms).1.heap (.arr (st.alloc (.arr vs)).2) (m.allocArr ms).2 := by
  have hg := grow_both_alloc hinv.hr (.arr vs) (.arr ms)
  have hr' := hr_both_alloc hinv.hr (.arr vs) (.arr ms) ⟨fun s' e => (by cases e), fun vs' e => (by injection e with e; subst e; exact ⟨ms, rfl, hl⟩)⟩
  refine ⟨hinv.move hg rfl rfl rfl hr' (pool_both_alloc hinv.pool _ _), hg, ?_⟩
  simp [Mem.allocArr, SState.alloc, Heap.alloc, VRh, AMap.ext, isArrCell]
/-- a cell replaced on both sides (index assignment) -/
theorem inv_set (hinv : Inv5 s0 CS Γ μ st g l m out) (a a' : Nat) (hm : μ a = some a') (sc0 sc : SCell) (c : Cell)
    (h0 : st.store[a]? = some sc0) (hk : sameKind sc0 sc) (hnf : ∀ x, m.heap.get a' ≠ .float x)
    (hnew : (∀ s, sc = .str s → c = .str s) ∧ (∀ vs, sc = .arr vs → ∃ mvs, c = .arr mvs ∧ VRL μ st m.heap vs mvs)) :
    Inv5 s0 CS Γ μ { st with store := st.store.setIfInBounds a sc } g l { m with heap := m.heap.set a' c } out ∧
    Grow μ st m.heap μ { st with store := st.store.setIfInBounds a sc } (m.heap.set a' c) := by
  have hg := grow_set hinv.hr a a' hm sc0 sc c h0 hk hnf
  exact ⟨hinv.move (m' := { m with heap := m.heap.set a' c }) hg rfl rfl rfl (hr_set hinv.hr a a' hm sc0 sc c h0 hk hnf hnew)
    (pool_set hinv.pool a a' hm c hnf), hg⟩
end inv

end SimH
end Nl
