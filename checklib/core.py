"""Shared machinery of the checks: building, the line protocol with crash isolation, evidence,
known findings, verdicts.  See DESIGN.md sections 2 and 9."""
import hashlib
import json
import os
import re
import resource
import subprocess
import sys
import time

VERIF = os.path.dirname(os.path.dirname(os.path.abspath(__file__)))
REPO = os.environ.get("NL_REPO", "/repo")
MODEL_WORKERS = int(os.environ.get("NL_MODEL_WORKERS", "12"))
BUILD = os.path.join(VERIF, "build")
LEAN = os.path.join(VERIF, "lean")
HARNESS_SRC = os.path.join(VERIF, "harness")
TARGET = os.path.join(BUILD, "harness-target")
DRIVER = os.path.join(LEAN, ".lake", "build", "bin", "nldriver")
UNICODE = os.path.join(BUILD, "unicode.txt")

ALLOWED_AXIOMS = {"propext", "Classical.choice", "Quot.sound"}


def hx(s):
    return "x" + s.encode("utf-8").hex()


def unhx(h):
    return bytes.fromhex(h[1:]).decode("utf-8")


class Rng:
    """One PRNG state (xorshift64*); every random choice of a run derives from VERIF_SEED."""

    def __init__(self, seed):
        self.s = (seed * 0x9E3779B97F4A7C15 + 0x1234567) & 0xFFFFFFFFFFFFFFFF or 1

    def next(self):
        x = self.s
        x ^= (x >> 12)
        x ^= (x << 25) & 0xFFFFFFFFFFFFFFFF
        x ^= (x >> 27)
        self.s = x
        return (x * 0x2545F4914F6CDD1D) & 0xFFFFFFFFFFFFFFFF

    def below(self, n):
        return self.next() % n

    def chance(self, num, den):
        return self.below(den) < num

    def pick(self, xs):
        return xs[self.below(len(xs))]

    def range(self, lo, hi):
        return lo + self.below(hi - lo + 1)

    def fork(self):
        return Rng(self.next())


def sh(cmd, cwd=None, env=None, timeout=None):
    e = dict(os.environ)
    e.update({"CARGO_NET_OFFLINE": "true", "CARGO_TARGET_DIR": TARGET})
    if env:
        e.update(env)
    return subprocess.run(cmd, cwd=cwd, env=e, stdout=subprocess.PIPE, stderr=subprocess.STDOUT,
                          text=True, timeout=timeout)


_built = {}


def build_harness(profile="release"):
    """(re)build the harness against /repo's current working tree with the hooks on"""
    if profile in _built:
        return _built[profile]
    if os.environ.get("NL_HARNESS_EXE"):
        # measurement mode (tools/coverage.sh): a pre-built, coverage-instrumented harness; never used by a registered command
        _built[profile] = os.environ.get("NL_HARNESS_EXE_DEBUG", os.environ["NL_HARNESS_EXE"]) if profile == "debug" else os.environ["NL_HARNESS_EXE"]
        return _built[profile]
    os.makedirs(BUILD, exist_ok=True)
    args = ["cargo", "build", "--offline", "--quiet"]
    if profile == "release":
        args.append("--release")
    r = sh(args, cwd=HARNESS_SRC, timeout=1200)
    if r.returncode != 0:
        raise BuildError("harness build failed (" + profile + "):\n" + r.stdout[-4000:])
    exe = os.path.join(TARGET, "release" if profile == "release" else "debug", "nlharness")
    _built[profile] = exe
    return exe


def build_lean(targets=("Nlmodel", "nldriver")):
    r = sh(["lake", "build"] + list(targets), cwd=LEAN, timeout=3600)
    if r.returncode != 0:
        raise BuildError("lake build failed:\n" + r.stdout[-6000:])
    return DRIVER


def unicode_table():
    exe = build_harness()
    if not os.path.exists(UNICODE) or os.path.getmtime(UNICODE) < os.path.getmtime(exe):
        r = subprocess.run([exe, "--unicode", UNICODE])
        if r.returncode != 0:
            raise BuildError("cannot dump unicode tables")
    return UNICODE


class BuildError(Exception):
    pass


def _limits():
    """the implementation runs with the stack it has in normal use (8 MB main thread): finding K6 is about exactly that"""
    resource.setrlimit(resource.RLIMIT_AS, (12 << 30, 12 << 30))
    resource.setrlimit(resource.RLIMIT_CORE, (0, 0))
    try:
        resource.setrlimit(resource.RLIMIT_STACK, (8 << 20, 8 << 20))
    except (ValueError, OSError):
        pass


def _limits_model():
    resource.setrlimit(resource.RLIMIT_AS, (12 << 30, 12 << 30))
    resource.setrlimit(resource.RLIMIT_CORE, (0, 0))
    try:
        # deep (but legitimate) recursion in the model's evaluators needs more than the default 8 MB
        resource.setrlimit(resource.RLIMIT_STACK, (2 << 30, 2 << 30))
    except (ValueError, OSError):
        pass


def run_server(cmd, requests, per_request_timeout=90.0, total_timeout=None, limits=None):
    """Feed `requests` (list of lines) to a protocol server, one answer per request.  If the
    server dies or stalls on a request, that request is answered `CRASH <why>` / `TIMEOUT` and
    the rest are retried in a new process."""
    # limits=False: the command carries its own limits (prlimit wrapper): no Python code between fork and exec
    pre = None if limits is False else (limits or _limits)
    answers = [None] * len(requests)
    start = 0
    while start < len(requests):
        batch = requests[start:]
        inp = "\n".join(batch) + "\n"
        t0 = time.time()
        budget = total_timeout or max(600.0, per_request_timeout + 0.05 * len(batch))
        try:
            p = subprocess.run(cmd, input=inp, stdout=subprocess.PIPE, stderr=subprocess.PIPE,
                               text=True, timeout=budget, preexec_fn=pre)
            out = p.stdout.split("\n")
            if out and out[-1] == "":
                out.pop()
            rc = p.returncode
            timed_out = False
        except subprocess.TimeoutExpired as e:
            raw = e.stdout or b""
            if isinstance(raw, bytes):
                raw = raw.decode("utf-8", "replace")
            out = raw.split("\n")
            # the last element is a partial line or empty
            out = out[:-1]
            rc = None
            timed_out = True
        n = min(len(out), len(batch))
        for i in range(n):
            answers[start + i] = out[i]
        if n == len(batch):
            break
        # request start+n killed or stalled the server
        if timed_out:
            # distinguish a single slow request from an overall slow batch: retry it alone
            alone = _run_alone(cmd, batch[n], per_request_timeout, limits)
            answers[start + n] = alone
        else:
            answers[start + n] = "CRASH rc=%s" % rc
        start = start + n + 1
    return answers


def _run_alone(cmd, request, timeout, limits=None):
    try:
        p = subprocess.run(cmd, input=request + "\n", stdout=subprocess.PIPE, stderr=subprocess.PIPE,
                           text=True, timeout=timeout, preexec_fn=(None if limits is False else (limits or _limits)))
        out = p.stdout.split("\n")
        if out and out[0] != "":
            return out[0]
        return "CRASH rc=%s" % p.returncode
    except subprocess.TimeoutExpired:
        return "TIMEOUT"


def impl(requests, profile="release", **kw):
    return run_server([build_harness(profile)], requests, **kw)


def model(requests, **kw):
    """the Lean driver answers every request on its own (no state between lines), so large batches are split over
    several driver processes; the answers come back in request order"""
    build_lean()
    cmd = [DRIVER, unicode_table()]
    n = len(requests)
    workers = min(MODEL_WORKERS, n // 150)
    if workers < 2:
        return run_server(cmd, requests, limits=_limits_model, **kw)
    # contiguous chunks of roughly equal total request length (long programs cost more)
    total = sum(len(r) for r in requests) + n
    target = total / workers
    chunks, cur, acc = [], [], 0
    for r in requests:
        cur.append(r)
        acc += len(r) + 1
        if acc >= target and len(chunks) < workers - 1:
            chunks.append(cur)
            cur, acc = [], 0
    if cur:
        chunks.append(cur)
    from concurrent.futures import ThreadPoolExecutor
    # worker threads start their servers through `prlimit` (same limits as `_limits_model`) instead of a preexec_fn
    pcmd = ["prlimit", "--as=%d" % (12 << 30), "--core=0", "--stack=%d" % (2 << 30)] + cmd
    with ThreadPoolExecutor(max_workers=len(chunks)) as ex:
        parts = list(ex.map(lambda c: run_server(pcmd, c, limits=False, **kw), chunks))
    out = []
    for p_ in parts:
        out.extend(p_)
    return out


# ---------------------------------------------------------------- Lean obligations

def lean_obligations(module_file):
    """theorem names declared in a property file"""
    path = os.path.join(LEAN, module_file)
    names = []
    ns = []
    for line in open(path, encoding="utf-8"):
        m = re.match(r"^namespace\s+(\S+)", line)
        if m:
            ns.append(m.group(1))
        m = re.match(r"^end\s+(\S+)", line)
        if m and ns and ns[-1] == m.group(1):
            ns.pop()
        m = re.match(r"^(?:@\[[^\]]*\]\s*)?theorem\s+(\S+)", line)
        if m:
            names.append(".".join(ns + [m.group(1)]))
    return names


FORBIDDEN = re.compile(r"\bsorry\b|\badmit\b|^axiom\s|native_decide|implemented_by|\bunsafe\s|maxHeartbeats 0")


def scan_forbidden(files):
    hits = []
    for f in files:
        in_comment = 0
        for n, line in enumerate(open(os.path.join(LEAN, f), encoding="utf-8"), 1):
            code = line
            # strip line comments and track block comments (good enough for our files)
            if in_comment:
                if "-/" in code:
                    in_comment = 0
                    code = code.split("-/", 1)[1]
                else:
                    continue
            if "/-" in code:
                before, after = code.split("/-", 1)
                if "-/" in after:
                    code = before + after.split("-/", 1)[1]
                else:
                    in_comment = 1
                    code = before
            code = code.split("--", 1)[0]
            if FORBIDDEN.search(code):
                hits.append("%s:%d: %s" % (f, n, line.strip()))
    return hits


def audit_axioms(module, names):
    """`#print axioms` for every theorem; returns {name: [axioms]} or raises"""
    os.makedirs(BUILD, exist_ok=True)
    tag = hashlib.sha1((module + ",".join(names)).encode()).hexdigest()[:10]
    path = os.path.join(BUILD, "Audit_%s.lean" % tag)
    with open(path, "w") as f:
        f.write("import %s\n" % module)
        for n in names:
            f.write("#print axioms %s\n" % n)
    r = sh(["lake", "env", "lean", path], cwd=LEAN, timeout=1800)
    if r.returncode != 0:
        raise BuildError("axiom audit failed:\n" + r.stdout[-3000:])
    res = {}
    for m in re.finditer(r"'([^']+)' depends on axioms: \[([^\]]*)\]", r.stdout.replace("\n", " ")):
        res[m.group(1)] = [a.strip() for a in m.group(2).split(",") if a.strip()]
    for m in re.finditer(r"'([^']+)' does not depend on any axioms", r.stdout):
        res[m.group(1)] = []
    return res


def import_closure(module_file):
    """all files of the Nlmodel library the given file imports, directly or not (the file itself included)"""
    seen, todo = [], [module_file]
    while todo:
        f = todo.pop()
        if f in seen or not os.path.exists(os.path.join(LEAN, f)):
            continue
        seen.append(f)
        for line in open(os.path.join(LEAN, f), encoding="utf-8"):
            m = re.match(r"^import\s+(Nlmodel\.\S+)", line)
            if m:
                todo.append(m.group(1).replace(".", "/") + ".lean")
    return seen


def check_proofs(prop_module, files):
    """build the property's proof module, audit axioms and scan for forbidden constructs.
    Returns dict(obligations, discharged, axioms, problems)."""
    module_file = prop_module.replace(".", "/") + ".lean"
    problems = []
    try:
        build_lean(targets=(prop_module,))
    except BuildError as e:
        return dict(obligations=len(lean_obligations(module_file)), discharged=0, axioms={},
                    problems=["proof module does not build: " + str(e)[-1500:]], names=[])
    names = lean_obligations(module_file)
    ax = audit_axioms(prop_module, names)
    discharged = 0
    for n in names:
        if n not in ax:
            problems.append("no axiom report for " + n)
            continue
        # `bv_decide` certificates (and the compiler trust they rest on) are accepted for the word-level lemmas of C15 only
        bv_ok = prop_module.endswith(".C15")
        extra = [a for a in ax[n] if a not in ALLOWED_AXIOMS and not (bv_ok and ("bv_decide" in a or a in ("Lean.ofReduceBool", "Lean.trustCompiler")))]
        if extra or "sorryAx" in ax[n]:
            problems.append("%s depends on %s" % (n, ax[n]))
        else:
            discharged += 1
    hits = scan_forbidden(sorted(set(files) | set(import_closure(module_file))))
    for h in hits:
        problems.append("forbidden construct: " + h)
    return dict(obligations=len(names), discharged=discharged, axioms=ax, problems=problems, names=names)


# ---------------------------------------------------------------- findings, evidence, verdicts

def known_findings():
    p = os.path.join(VERIF, "known_findings.json")
    if not os.path.exists(p):
        return []
    return json.load(open(p))["findings"]


class Result:
    def __init__(self, pid, tier, seed):
        self.pid = pid
        self.tier = tier
        self.seed = seed
        self.t0 = time.time()
        self.violations = []      # (replay path, suffix)
        self.known = []           # lines
        self.coverage = {}
        self.assumptions = []
        self.nontrivial = set()
        self.evaluations = 0
        self.samples = []

    def count(self, key, n=1):
        d = self.coverage.setdefault("distribution", {})
        d[key] = d.get(key, 0) + n

    def seen(self, case, nontrivial=True):
        self.evaluations += 1
        if nontrivial:
            self.nontrivial.add(hashlib.sha1(case.encode("utf-8", "replace")).digest()[:8])
        if len(self.samples) < 6 and (self.evaluations % 37 == 1):
            self.samples.append(case[:300])

    def violation(self, what, replay, no_input=False):
        """record a violation; `replay` is a dict written to replays/<pid>/<n>.json"""
        for kf in known_findings():
            if kf.get("property") == self.pid and kf.get("status") == "open" and finding_matches(kf, replay):
                line = "KNOWN-FINDING: property=%s %s" % (self.pid, kf["what"])
                if line not in self.known:
                    self.known.append(line)
                return
        d = os.path.join(VERIF, "replays", self.pid)
        os.makedirs(d, exist_ok=True)
        n = len(self.violations)
        path = os.path.join(d, "%s-%d-%d.json" % (self.tier, self.seed, n))
        replay = dict(replay)
        replay.update(property=self.pid, seed=self.seed, tier=self.tier, what=what,
                      rerun="./check %s --replay %s" % (self.pid, os.path.relpath(path, VERIF)))
        with open(path, "w") as f:
            json.dump(replay, f, indent=1, ensure_ascii=False)
        self.violations.append((os.path.relpath(path, VERIF), " no-failing-input-found" if no_input else ""))

    def finish(self, proofs=None, rule="", exhaustive=None, extra=None):
        cov = dict(self.coverage)
        cov["evaluations"] = self.evaluations
        cov["distinct_nontrivial"] = len(self.nontrivial)
        cov["rule"] = rule
        cov["samples"] = self.samples or ["(none)"]
        if exhaustive is not None:
            cov["exhaustive"] = exhaustive
        if proofs is not None:
            cov["obligations"] = proofs["obligations"]
            cov["discharged"] = proofs["discharged"]
            cov["checker_cmd"] = "cd lean && lake build %s && lake env lean <generated #print axioms audit>" % proofs.get("module", "")
            axs = sorted({a for v in proofs["axioms"].values() for a in v})
            cov["trusted_base"] = ["Lean 4.33.0 kernel", "axioms used: " + (", ".join(axs) or "none"),
                                   "correspondence harness (/verif/harness) and driver I/O",
                                   "hand-written model tied to the code by the correspondence only"]
            cov["theorems"] = proofs.get("names", [])
        if extra:
            cov.update(extra)
        ev = dict(property_id=self.pid, tier=self.tier, seed=self.seed, level="proof", coverage=cov,
                  assumptions=self.assumptions, wall_s=round(time.time() - self.t0, 2),
                  violations=len(self.violations))
        os.makedirs(os.path.join(VERIF, "evidence"), exist_ok=True)
        with open(os.path.join(VERIF, "evidence", self.pid + ".json"), "w") as f:
            json.dump(ev, f, indent=1, ensure_ascii=False)
        for line in self.known:
            print(line)
        for path, suffix in self.violations[:20]:
            print("VIOLATION property=%s replay=%s%s" % (self.pid, path, suffix))
        sys.stdout.flush()
        return 1 if self.violations else 0


def finding_matches(kf, replay):
    m = kf.get("match", {})
    if "input_regex" in m:
        text = replay.get("input", "")
        if isinstance(text, list):
            text = "\n".join(text)
        if not re.search(m["input_regex"], text, re.S):
            return False
    if "kind" in m and replay.get("kind") != m["kind"]:
        return False
    return True
