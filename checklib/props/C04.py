"""C04 — garbage is reclaimed and a finished run leaves nothing behind."""
from .. import core, diff
from ..core import hx
from . import C03

PROOF_MODULE = "Nlmodel.Proofs.C04"
PROOF_FILES = ["Nlmodel/Proofs/C04.lean", "Nlmodel/Proofs/Lemmas/GCMark.lean", "Nlmodel/Proofs/Lemmas/GCReach.lean", "Nlmodel/Model/GC.lean", "Nlmodel/Model/VM.lean"]
THEOREM_FILE = PROOF_FILES[0]
LEVEL_TEXT = ("Lean theorems about the collector model: after a collection the collector manages EXACTLY the managed objects reachable from its roots (mark soundness: only reachable objects are marked, plus completeness from C03); every unreachable managed object has been released; dropping the collector - which is what ends every run, normally or through an error at any step - releases everything it still manages and touches nothing else, so on the error path nothing the run allocated remains, and on the normal path exactly the result graph handed over with `untrace` remains. Tied to the code by an allocation ledger in object.rs (hook): for every generated allocating program the run is cut short after k instructions for EVERY k up to its length (the budget hook leaves through the same `?` path as a runtime error) and the ledger is audited after each: nothing live, nothing released twice; on normal completion the harness releases the result graph (each distinct object once) and audits again; the model's ledger after its own finish must agree. RUN LEVEL, ALL PROGRAMS: in every state any run reaches the managed list names no address twice and only allocated ones (generic MemClosed invariant); every collection of every run is precise (C04_every_collection_of_every_run_is_precise, no heap hypotheses, by type soundness); the normal end of any run frees exactly what a collection with the result as only root frees and empties the collector (C04_handover_is_collection: untrace removes exactly what mark would mark); C04_result_outlives_the_interpreter: on a fresh machine the result's deep view is unchanged by the hand-over and the drop of the collector, and everything the result does not reach is released - no hypothesis on program or heap. SESSION 7: THE COMPILE PHASE (Model/CompileMem.lean, Lemmas/CompileMem*): the real compiler allocates a box per float/string literal OCCURRENCE with its own collector, re-uses equal pool entries (the fresh box becomes a duplicate that stays with the compiler), untraces the pool on success and destroys everything on failure; C04_compile_occurrences_faithful (the occurrence list is faithful to the code generator, whole language), C04_compile_phase_success (every box is a pool box - live, unmanaged, one per entry, later released exactly once by the run's collector - or a duplicate freed exactly once by the drop of the compiler; nothing else is live), C04_compile_phase_failure (for every failure point k: nothing live, every box freed exactly once), C04_compile_phase_session (retained compiler over any sequence of succeeding/failing compilations).")
LEVEL_NOTE = ("Whole-run ledger theorems for ANY bytecode on a fresh machine (Lemmas/Ledger.lean): a run that fails at any step or is abandoned after any number of instructions leaves NO live cell (C04_failed_run_leaves_nothing, C04_abandoned_run_leaves_nothing); a normal end leaves live EXACTLY the cells the result reaches, unchanged (C04_normal_run_leaves_only_the_result); the caller can release those one by one, each live at its turn, after which nothing is live (C04_caller_releases_result); a released cell is never live or managed again (C04_released_exactly_once); C04_run_ledger states the three exits of VM.run at once. Trusted: Lean kernel; the ledger hook (every allocate/destroy of object.rs goes through it); compile-time constant boxes of the compiler are owned by the compiler's collector until handed to the run (modelled as allocated at run start).")
TECHNIQUE = "Lean 4 proof (collection precise, drop releases all) + exhaustive abort-point ledger audit on the real interpreter"
RULE = ("allocating programs (C03's generator) of up to ~600 steps; for each, abort after k instructions for every k = 1..steps (complete per "
        "program) and audit the heap ledger; non-trivial = distinct (program, k) pair audited")
EXHAUSTIVE = True


def run(res, tier, rng, table_diffs=()):
    progs = []
    for _ in range(40 if tier == "quick" else 600):
        progs.append(C03.heap_program(rng.fork()))
    progs += ['functie f() { "abc" } f()', "[1.5, \"s\", [2.5]]", "stel a = [1]; a[0] = a; a", "stel a = [[1.5]]; stel b = [a, a]; b",
              "1.5 + 2.5", "\"a\" < \"b\"", "stel s = \"xyz\"; s[0] = \"q\"; 1 / 0", "functie f(x) { [x, x] } f(f(1.5))[0][1]",
              "print([1.5, \"x\"]); lengte(1)", "stel a = [1.5]; functie g() { a[0] = [a]; 0 } g(); a", "zz + 1.5", "\"unterminated", "[1.5, 2.5"]
    # every root group x every kind of return (the value a run hands back must be released exactly once, by its receiver)
    progs += [src for _, src in C03.root_matrix()]
    from .. import gen2
    progs += gen2.alias_multiplicity_programs()
    full = core.impl(["evalx 1000000 " + hx(p) for p in progs])
    mfull = core.model(["evalx 1000000 " + hx(p) for p in progs])
    reqs, meta = [], []
    reported = 0
    for p, a, m in zip(progs, full, mfull):
        st = diff.stats(a)
        res.seen(p)
        res.count("program")
        if not audit_ok(a):
            if reported < 3:
                reported += 1
                res.violation("objects remained allocated or were released twice after a complete run", dict(kind="ledger", input=p, k=None, impl=a, model=m))
            continue
        if diff.obs(a) != diff.obs(m) or st.get("gc") != diff.stats(m).get("gc"):
            if reported < 3:
                reported += 1
                res.violation("machine model differs from vm.rs/gc.rs on an allocating program", dict(kind="model", input=p, impl=a, model=m, unchecked="correspondence of the collecting machine model (Proofs/C04)"), no_input=True)
            continue
        steps = int(st.get("steps", "0"))
        if steps > (600 if tier == "quick" else 1500):
            ks = sorted(set(rng.range(1, steps) for _ in range(300)))
        else:
            ks = range(1, steps + 1)
        for k in ks:
            reqs.append("evalx %d %s" % (k, hx(p)))
            meta.append((p, k))
    ia = core.impl(reqs)
    ma = core.model(reqs)
    for (p, k), a, m in zip(meta, ia, ma):
        res.seen("%s#%d" % (p, k))
        res.count("abort-point")
        if not audit_ok(a) and reported < 5:
            reported += 1
            res.violation("an error exit after k instructions left objects allocated or released one twice",
                          dict(kind="ledger", input=p, k=k, impl=a, model=m))
        elif a.split(" # ")[0] != m.split(" # ")[0] and reported < 5:
            reported += 1
            res.violation("machine model and vm.rs disagree at an abort point", dict(kind="model", input=p, k=k, impl=a, model=m, unchecked="step correspondence"), no_input=True)


def audit_ok(ans):
    if ans.startswith(("PANIC", "CRASH", "TIMEOUT", "FAULT")):
        return False
    st = diff.stats(ans)
    return bool(st) and st.get("live") == "0" and st.get("dfree") == "0" and st.get("uaf") == "0"


def replay(res, rp):
    k = rp.get("k") or 1000000
    a = core.impl(["evalx %d %s" % (k, hx(rp["input"]))])[0]
    m = core.model(["evalx %d %s" % (k, hx(rp["input"]))])[0]
    print("impl :", a[:300])
    print("model:", m[:300])
    if not audit_ok(a) or a.split(" # ")[0] != m.split(" # ")[0]:
        print("VIOLATION property=C04 replay=replay")
        return 1
    return 0
