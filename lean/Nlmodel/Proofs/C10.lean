/-
  C10 — how the compiler chooses to implement an expression is unobservable.
-/
import Nlmodel.Model.Pipeline
namespace Nl
namespace C10

/-- `add_constant` never disturbs existing entries and returns an index holding an equal constant -/
theorem C10_constant_pool (cs : List Const) (c : Const) :
    let r := addConst cs c
    (∀ j, j < cs.length → r.1[j]? = cs[j]?) ∧ cs.length ≤ r.1.length ∧
    (∃ d, r.1[r.2]? = some d ∧ (Const.same d c = true ∨ d = c)) := by
  unfold addConst
  cases h : cs.findIdx? (Const.same · c) with
  | none =>
    simp only
    refine ⟨?_, by simp, ?_⟩
    · intro j hj; simp [List.getElem?_append_left hj]
    · exact ⟨c, by simp, Or.inr rfl⟩
  | some i =>
    simp only
    refine ⟨fun _ _ => trivial, Nat.le_refl _, ?_⟩
    rw [List.findIdx?_eq_some_iff_getElem] at h
    obtain ⟨hi, hs, _⟩ := h
    exact ⟨cs[i], by simp [hi], Or.inl hs⟩

/-- mirrored operators: `c op x` and `x op' c` denote the same for an integer constant `c` and ANY
    operand `x` -/
theorem C10_mirror (op op' : BinOp) (c : Int) (x : View) (h : mirrorOp op = some op') :
    binopCore op (.int c) x = binopCore op' x (.int c) := by
  cases op <;> simp [mirrorOp] at h <;> subst h <;> cases x <;>
    simp [binopCore, View.ty, BinOp.isArith, BinOp.isOrder, intArith, cmpBy, Int.add_comm, Int.mul_comm]
  all_goals
    rename_i i
    have hb : ∀ a b : Int, (a == b) = decide (a = b) := fun _ _ => rfl
    simp only [hb]
    rcases Int.lt_trichotomy c i with h | h | h
    · have h1 : ¬ i < c := by omega
      have h2 : ¬ c = i := by omega
      have h3 : ¬ i = c := by omega
      simp [h, h1, h2, h3]
    · subst h; simp
    · have h1 : ¬ c < i := by omega
      have h2 : ¬ c = i := by omega
      have h3 : ¬ i = c := by omega
      simp [h, h1, h2, h3]

theorem pop1_push (st : Array Value) (v : Value) : pop1 (st.push v) = some (v, st) := by
  simp [pop1]

/-- a fused `<Op>LocalConst` instruction is the generic sequence `GetLocal; Const; <Op>` with the
    operands in the same order -/
theorem C10_fused_equiv (op : BinOp) (loc k ip1 ip2 ip3 : Nat) (s : VM) (l : Value) (i : Int)
    (hl : s.stack[s.bp + loc]? = some l) (hk : s.cvals[k]? = some (.int i)) :
    exec (.fused op loc k) ip3 s =
      (match exec (.getLocal loc) ip1 s with
       | .next s1 =>
         match exec (.const k) ip2 s1 with
         | .next s2 => exec (.bin op) ip3 s2
         | o => o
       | o => o) := by
  simp only [exec, hl, hk, pop1_push]

/-- the compiler fuses `l op r` only in these two shapes, and then with the operands in source
    order or with the mirrored operator (so that the two theorems above apply) -/
theorem C10_fused_only_when_sound (l : RExpr) (op op' : BinOp) (r : RExpr) (k : Nat) (v : Int)
    (h : fusedCandidate l op r = some (op', k, v)) :
    (∃ b, l = .var ⟨b, .loc k⟩ ∧ r = .int v ∧ op' = op) ∨
    (∃ b, l = .int v ∧ r = .var ⟨b, .loc k⟩ ∧ mirrorOp op = some op') := by
  unfold fusedCandidate at h
  split at h
  · rename_i b k' v'
    split at h
    · simp only [Option.some.injEq, Prod.mk.injEq] at h
      obtain ⟨h1, h2, h3⟩ := h
      subst h1; subst h2; subst h3
      exact Or.inl ⟨b, rfl, rfl, rfl⟩
    · simp at h
  · rename_i v' b k'
    split at h
    · rename_i op'' hm
      simp only [Option.some.injEq, Prod.mk.injEq] at h
      obtain ⟨h1, h2, h3⟩ := h
      subst h1; subst h2; subst h3
      exact Or.inr ⟨b, rfl, rfl, hm⟩
    · simp at h
  · simp at h

end C10
end Nl
