/-
  C13 — arrays and strings: shared by reference, indexed exactly, measured in characters.
  Statements about index normalisation and about the store operations of the definitional
  semantics (`Spec.sIndexGet/sIndexSet`) and of the machine model (`indexGet/indexSet`).
-/
import Nlmodel.Model.Pipeline
import Nlmodel.Proofs.Lemmas.SimHOps
import Nlmodel.Proofs.Lemmas.Utf8All
namespace Nl
namespace C13
open Spec

theorem norm_aux (len : Nat) (j : Int) (k : Nat) :
    (if (0 ≤ j && decide (j < (len:Int))) = true then some j.toNat else none) = some k ↔ (0 ≤ j ∧ j < len ∧ (k : Int) = j) := by
  by_cases h : (0 ≤ j && decide (j < (len:Int))) = true
  · rw [if_pos h]
    simp only [Bool.and_eq_true, decide_eq_true_eq] at h
    have ht := Int.toNat_of_nonneg h.1
    constructor
    · intro e
      injection e with e
      refine ⟨h.1, h.2, ?_⟩
      rw [← e, ht]
    · intro e
      have : ((j).toNat : Int) = (k : Int) := by rw [ht]; omega
      have : j.toNat = k := by exact_mod_cast this
      rw [this]
  · rw [if_neg h]
    simp only [Bool.and_eq_true, decide_eq_true_eq, not_and] at h
    constructor
    · intro e; cases e
    · intro e; exfalso; exact absurd e.2.1 (h e.1)

/-- element access counts from the front for indices >= 0 and from the back for negative ones;
    everything else is out of range -/
theorem C13_norm_index (len : Nat) (i : Int) (k : Nat) :
    normIndex len i = some k ↔
      ((0 ≤ i ∧ i < len ∧ (k : Int) = i) ∨ (i < 0 ∧ -(len : Int) ≤ i ∧ (k : Int) = len + i)) := by
  unfold normIndex
  by_cases hi : i < 0
  · have e1 : (if i < 0 then i + ↑len else i) = i + len := if_pos hi
    simp only [e1]
    rw [norm_aux]
    constructor
    · intro h; right; omega
    · intro h; omega
  · have e1 : (if i < 0 then i + ↑len else i) = i := if_neg hi
    simp only [e1]
    rw [norm_aux]
    constructor
    · intro h; left; omega
    · intro h; omega

/-- an index is in range exactly when it lies in `[-len, len)` -/
theorem C13_in_range_iff (len : Nat) (i : Int) :
    (normIndex len i).isSome ↔ (-(len : Int) ≤ i ∧ i < len) := by
  constructor
  · intro h
    obtain ⟨k, hk⟩ := Option.isSome_iff_exists.mp h
    rcases (C13_norm_index len i k).mp hk with h | h <;> omega
  · intro h
    by_cases hi : i < 0
    · exact Option.isSome_iff_exists.mpr ⟨(len + i).toNat, (C13_norm_index len i _).mpr (Or.inr ⟨hi, h.1, by omega⟩)⟩
    · exact Option.isSome_iff_exists.mpr ⟨i.toNat, (C13_norm_index len i _).mpr (Or.inl ⟨by omega, h.2, by omega⟩)⟩

/-- the normalised position is always inside the sequence -/
theorem C13_norm_lt (len : Nat) (i : Int) (k : Nat) (h : normIndex len i = some k) : k < len := by
  rcases (C13_norm_index len i k).mp h with h | h <;> omega

/-- an index that is not an integer is a type error; an integer out of range is an index error;
    in both cases the store is not touched (the result carries no new state) -/
theorem C13_get_errors (l i : SVal) (st : SState) :
    (∀ k, i ≠ .int k) → sIndexGet l i st = .error .type := by
  intro h
  cases i <;> first | rfl | (exact absurd rfl (h _))

theorem C13_set_errors (l i v : SVal) (st : SState) :
    (∀ k, i ≠ .int k) → sIndexSet l i v st = .error .type := by
  intro h
  cases i <;> first | rfl | (exact absurd rfl (h _))

theorem C13_set_out_of_range (a : Nat) (k : Int) (v : SVal) (st : SState)
    (h : normIndex (st.arrAt a).length k = none) : sIndexSet (.arr a) (.int k) v st = .error .index := by
  simp [sIndexSet, h]

/-- a write through address `a` is seen through EVERY alias of `a` (the array is a store cell, not
    a value), changes exactly position `j`, and leaves every other address untouched -/
theorem C13_alias (a : Nat) (k : Int) (v : SVal) (st st' : SState) (r : SVal) (j : Nat)
    (ha : a < st.store.size) (hj : normIndex (st.arrAt a).length k = some j)
    (h : sIndexSet (.arr a) (.int k) v st = .ok (r, st')) :
    r = v ∧ st'.arrAt a = (st.arrAt a).set j v ∧ (∀ b, b ≠ a → st'.store[b]? = st.store[b]?)
    ∧ st'.genv = st.genv ∧ st'.lenv = st.lenv := by
  simp only [sIndexSet, hj] at h
  injection h with h
  injection h with h1 h2
  subst h2
  refine ⟨h1.symm, ?_, ?_, rfl, rfl⟩
  · simp [SState.arrAt, Array.getElem?_setIfInBounds, ha]
  · intro b hb
    simp [Array.getElem?_setIfInBounds, Ne.symm hb]

/-- strings are measured, indexed and modified by character: replacing position `j` keeps every
    other character where it was (when the replacement is one character) -/
theorem C13_string_replace (s r : Text) (j : Nat) (hj : j < s.length) :
    (s.take j ++ r ++ s.drop (j + 1)).length = s.length - 1 + r.length
    ∧ (∀ p, p < j → (s.take j ++ r ++ s.drop (j + 1))[p]? = s[p]?) := by
  constructor
  · simp [List.length_append, List.length_take, List.length_drop]; omega
  · intro p hp
    have : p < (s.take j).length := by simp [List.length_take]; omega
    rw [List.append_assoc, List.getElem?_append_left this, List.getElem?_take_of_lt hp]

/-- `lengte` of a string is its number of code points -/
theorem C13_length_chars (s : Text) : builtinCore .length (.str s) = .ok (.int s.length) := rfl

example : normIndex 3 (-1) = some 2 ∧ normIndex 3 3 = none ∧ normIndex 0 (-1) = none := by decide

/-! ### the machine and the semantics agree on every read and write (stage 5 of the simulation) -/

/-- READING AN ELEMENT: whenever the store of the semantics and the machine heap are related (`SimH.Inv5`:
    an injective address map, cell-wise equal contents) and the operands are related, `a[i]` has the
    same outcome on both sides — the related element of an array (negative indices from the end), a
    fresh one-character string, or the same error kind -/
theorem C13_index_read_agrees {s0 : VM} {CS : List Const} {Γ : Sim.Gam} {μ : SimH.AMap} {st : SState} {g : Array Value} {l : Value} {m : Mem} {out : List Text}
    (hinv : SimH.Inv5 s0 CS Γ μ st g l m out) (a b : SVal) (ma mb : Value)
    (ha : SimH.VRh μ st m.heap a ma) (hb : SimH.VRh μ st m.heap b mb) :
    match sIndexGet a b st with
    | .ok (r, st') => ∃ μ' mr m', indexGet ma mb m = .ok (mr, m') ∧ SimH.Inv5 s0 CS Γ μ' st' g l m' out ∧
        SimH.Grow μ st m.heap μ' st' m'.heap ∧ SimH.VRh μ' st' m'.heap r mr
    | .error e => indexGet ma mb m = .error e :=
  SimH.indexGet_rel hinv a b ma mb ha hb

/-- WRITING AN ELEMENT: `a[i] = v` changes exactly one cell on each side — the cell both names of an
    aliased array denote (the address map is injective) — and the relation between the two heaps
    holds again afterwards, for every other array, string and variable as before; errors agree -/
theorem C13_index_write_agrees {s0 : VM} {CS : List Const} {Γ : Sim.Gam} {μ : SimH.AMap} {st : SState} {g : Array Value} {l : Value} {m : Mem} {out : List Text}
    (hinv : SimH.Inv5 s0 CS Γ μ st g l m out) (a b c : SVal) (ma mb mc : Value)
    (ha : SimH.VRh μ st m.heap a ma) (hb : SimH.VRh μ st m.heap b mb) (hc : SimH.VRh μ st m.heap c mc) :
    match sIndexSet a b c st with
    | .ok (r, st') => ∃ mr m', indexSet ma mb mc m = .ok (mr, m') ∧ SimH.Inv5 s0 CS Γ μ st' g l m' out ∧
        SimH.Grow μ st m.heap μ st' m'.heap ∧ SimH.VRh μ st' m'.heap r mr
    | .error e => indexSet ma mb mc m = .error e :=
  SimH.indexSet_rel hinv a b c ma mb mc ha hb hc

/-! ### by character, not byte: the UTF-8 byte-level operations of `vm.rs` refine the model's character lists

The model keeps a text as a list of code points; `vm.rs` works on UTF-8 bytes with `chars().count()`,
`chars().nth(i)`, `char_indices().nth(i)` + `len_utf8()` and `replace_range`.  `Model/Utf8.lean` mirrors those
byte-level functions; the theorems below say that on the encoding of ANY text they compute exactly the
character-level result the rest of the model (and of the proofs) uses — for every text, every index, every
replacement (empty, one or many characters of any width). -/

/-- measuring: the number of non-continuation bytes (`chars().count()`) is the number of characters -/
theorem C13_bytes_count_characters (cs : Text) : Utf8.countChars (Utf8.encode cs) = cs.length := Utf8.U1 cs

/-- locating: scanning lead bytes (`char_indices().nth(i)`, `len_utf8`) finds exactly the byte span of the
    i-th CHARACTER — offset = the bytes of the i characters before it, width = its own encoding — and
    nothing when there is no i-th character -/
theorem C13_bytes_locate_character (cs : Text) (i off w : Nat) :
    Utf8.nthSpan (Utf8.encode cs) i = some (off, w) ↔
      ∃ h : i < cs.length, off = (Utf8.encode (cs.take i)).length ∧ w = (Utf8.encodeChar cs[i]).length := Utf8.U2 cs i off w

/-- reading: `index_get_string` on the bytes is the model's character-level read: the one-character text at the
    normalised index (negative from the back), or the index error -/
theorem C13_bytes_read_is_character_read (cs : Text) (idx : Int) :
    Utf8.byteIndexGet (Utf8.encode cs) idx =
      match normIndex cs.length idx with
      | some k => .ok (Utf8.encode [cs.getD k ' '])
      | none => .error .index := Utf8.U4_get cs idx

/-- writing: `index_set_string` on the bytes (`replace_range` over the located span) is the model's
    character-level replacement `take k ++ replacement ++ drop (k+1)`; an index outside the text is the index error
    and (`C13_bytes_write_error_order`) leaves no trace -/
theorem C13_bytes_write_is_character_write (cs rs : Text) (idx : Int) :
    Utf8.byteIndexSet (Utf8.encode cs) idx (Utf8.encode rs) =
      match normIndex cs.length idx with
      | some k => .ok (Utf8.encode (cs.take k ++ rs ++ cs.drop (k + 1)))
      | none => .error .index := Utf8.U4_set cs rs idx

/-- the MACHINE MODEL's string read, as the proofs of C01/C13 use it, IS the byte-level function applied to the
    bytes of the stored text (the result decoded into the new string box) -/
theorem C13_machine_read_is_byte_read (a : Nat) (i : Int) (m : Mem) :
    indexGet (.str a) (.int i) m =
      match Utf8.byteIndexGet (Utf8.encode (m.heap.strAt a)) i with
      | .ok bs =>
        match Utf8.decode bs with
        | some t => let (m', v) := m.allocStr t; .ok (v, m')
        | none => .error .fuel
      | .error e => .error e := Utf8.indexGet_str_bytes a i m

/-- the MACHINE MODEL's string write IS the byte-level `index_set_string` (bounds first, then the type of the
    value, then `replace_range`) on the bytes of the stored text -/
theorem C13_machine_write_is_byte_write (a : Nat) (i : Int) (value : Value) (m : Mem) :
    indexSet (.str a) (.int i) value m =
      match Utf8.byteIndexSetV (Utf8.encode (m.heap.strAt a)) i (Utf8.valueBytes m.heap value) with
      | .ok bs =>
        match Utf8.decode bs with
        | some t => .ok (value, { m with heap := m.heap.set a (.str t) })
        | none => .error .fuel
      | .error e => .error e := Utf8.indexSet_str_bytes a i value m

/-- non-vacuity / TEST (a sample, not the claim): a text with 1-, 2-, 3- and 4-byte characters -/
example : (match Utf8.byteIndexSet (Utf8.encode ['a', 'é', '€', '😀', 'b']) (-2) (Utf8.encode ['x', 'é']) with
    | .ok bs => bs == Utf8.encode ['a', 'é', '€', 'x', 'é', 'b'] | .error _ => false) = true := by decide

end C13
end Nl
