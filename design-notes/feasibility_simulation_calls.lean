-- DESIGN NOTE, NOT PART OF THE MACHINERY.
-- Third feasibility prototype for C01/C12 (DESIGN.md section 2.4): forward simulation for first-class functions,
-- calls, local slots and `antwoord` on a FLAT operand stack with base-pointer arithmetic as in vm.rs
-- (base = len - 1 - argc, locals padded with null, ReturnValue truncates to the base and pushes the result).
-- What carries over to the real proof:
--  * `cfg pc below vloc ops frames`: the flat stack is `below ++ vloc ++ ops`; one step lemma per instruction in
--    this form (step_call does the base-pointer arithmetic once and for all);
--  * `VRel`: a function value of the specification (locals count, body) is related to a machine value (ip, nl)
--    when the compiled body sits at `ip` in the code; `LRel` lifts it to locals/arguments;
--  * results are `val v | ret v`; `retTo` states that a return hands the value to the caller whatever operands
--    were pending (so `antwoord` under a pending operand is inside the fragment, unlike stop/volgende);
--  * the conclusion for `val` keeps `below` and the caller-visible `ops` unchanged: this is C12 "resumes the
--    caller intact".
-- Lean 4.33.0 core only; axioms of Call.sim: [propext, Quot.sound].

namespace Call

mutual
inductive Expr where
  | int (n : Int)
  | add (a b : Expr)
  | getl (k : Nat)
  | fnlit (nl : Nat) (body : Block)
  | call (f : Expr) (args : Exprs)
inductive Exprs where
  | nil
  | cons (e : Expr) (es : Exprs)
inductive Stmt where
  | expr (e : Expr)
  | setl (k : Nat) (e : Expr)
  | ret (e : Expr)
inductive Block where
  | nil
  | cons (s : Stmt) (b : Block)
end

inductive Instr where
  | const (n : Int) | add | pop | null | getl (k : Nat) | setl (k : Nat)
  | jump (t : Nat) | constfn (ip nl : Nat) | call (argc : Nat) | retv | ret
  deriving Repr, DecidableEq

def Instr.size : Instr → Nat
  | .const _ | .getl _ | .setl _ | .jump _ | .constfn _ _ => 3
  | .call _ => 2
  | _ => 1

def csize : List Instr → Nat
  | [] => 0
  | i :: is => i.size + csize is

theorem csize_append (a b : List Instr) : csize (a ++ b) = csize a + csize b := by
  induction a with
  | nil => simp [csize]
  | cons i is ih => simp [csize, ih]; omega

mutual
def sizeE : Expr → Nat
  | .int _ => 3
  | .add a b => sizeE a + sizeE b + 1
  | .getl _ => 3
  | .fnlit _ body => 3 + sizeBody body + 3
  | .call f args => sizeArgs args + sizeE f + 2
def sizeArgs : Exprs → Nat
  | .nil => 0
  | .cons e es => sizeE e + sizeArgs es
def sizeS : Stmt → Nat
  | .expr e => sizeE e + 1
  | .setl _ e => sizeE e + 3
  | .ret e => sizeE e + 1
def sizeBody : Block → Nat
  | .nil => 1
  | .cons (.expr e) .nil => sizeE e + 1
  | .cons (.ret e) .nil => sizeE e + 1
  | .cons s .nil => sizeS s + 1
  | .cons s b => sizeS s + sizeBody b
end

def Exprs.len : Exprs → Nat
  | .nil => 0
  | .cons _ es => es.len + 1

mutual
def compE (pos : Nat) : Expr → List Instr
  | .int n => [.const n]
  | .add a b => compE pos a ++ compE (pos + sizeE a) b ++ [.add]
  | .getl k => [.getl k]
  | .fnlit nl body =>
    [.jump (pos + 3 + sizeBody body)] ++ compBody (pos + 3) body ++ [.constfn (pos + 3) nl]
  | .call f args => compArgs pos args ++ compE (pos + sizeArgs args) f ++ [.call args.len]
def compArgs (pos : Nat) : Exprs → List Instr
  | .nil => []
  | .cons e es => compE pos e ++ compArgs (pos + sizeE e) es
def compS (pos : Nat) : Stmt → List Instr
  | .expr e => compE pos e ++ [.pop]
  | .setl k e => compE pos e ++ [.setl k]
  | .ret e => compE pos e ++ [.retv]
-- function body: trailing Pop becomes ReturnValue; a trailing `antwoord` needs nothing; otherwise Return
def compBody (pos : Nat) : Block → List Instr
  | .nil => [.ret]
  | .cons (.expr e) .nil => compE pos e ++ [.retv]
  | .cons (.ret e) .nil => compE pos e ++ [.retv]
  | .cons s .nil => compS pos s ++ [.ret]
  | .cons s b => compS pos s ++ compBody (pos + sizeS s) b
end

inductive Val where | int (n : Int) | null | fn (ip nl : Nat)
  deriving Repr, DecidableEq

/-- flat machine state, as in vm.rs: one operand stack (bottom first) holding locals and operands of every
activation, the base pointer of the current one, and the saved (return address, base pointer) pairs -/
structure St where
  pc : Nat
  stk : List Val
  bp : Nat
  frames : List (Nat × Nat)

def instrAt : List Instr → Nat → Option Instr
  | [], _ => none
  | i :: is, pc => if pc = 0 then some i else if pc < i.size then none else instrAt is (pc - i.size)

def pop1 (stk : List Val) : Option (Val × List Val) :=
  match stk.getLast? with
  | some v => some (v, stk.dropLast)
  | none => none

@[simp] theorem pop1_snoc (xs : List Val) (v : Val) : pop1 (xs ++ [v]) = some (v, xs) := by
  simp [pop1]

def step (C : List Instr) (s : St) : Option St :=
  match instrAt C s.pc with
  | none => none
  | some i =>
    match i with
    | .const n => some { s with pc := s.pc + 3, stk := s.stk ++ [.int n] }
    | .null => some { s with pc := s.pc + 1, stk := s.stk ++ [.null] }
    | .constfn ip nl => some { s with pc := s.pc + 3, stk := s.stk ++ [.fn ip nl] }
    | .add =>
      match pop1 s.stk with
      | some (.int b, st1) =>
        match pop1 st1 with
        | some (.int a, st2) => some { s with pc := s.pc + 1, stk := st2 ++ [.int (a + b)] }
        | _ => none
      | _ => none
    | .pop =>
      match pop1 s.stk with
      | some (_, st1) => some { s with pc := s.pc + 1, stk := st1 }
      | none => none
    | .getl k =>
      match s.stk[s.bp + k]? with
      | some v => some { s with pc := s.pc + 3, stk := s.stk ++ [v] }
      | none => none
    | .setl k =>
      match pop1 s.stk with
      | some (v, st1) => if s.bp + k < st1.length then some { s with pc := s.pc + 3, stk := st1.set (s.bp + k) v } else none
      | none => none
    | .jump t => some { s with pc := t }
    | .call argc =>
      -- vm.rs: base_pointer = len - 1 - num_args; pop callee; pad locals; push frame
      match pop1 s.stk with
      | some (.fn ip nl, st1) =>
        if argc ≤ nl ∧ argc ≤ st1.length then
          some { pc := ip, stk := st1 ++ List.replicate (nl - argc) .null,
                 bp := s.stk.length - 1 - argc, frames := (s.pc + 2, s.bp) :: s.frames }
        else none
      | _ => none
    | .retv =>
      match pop1 s.stk, s.frames with
      | some (v, _), (rpc, rbp) :: fs => some { pc := rpc, stk := s.stk.take s.bp ++ [v], bp := rbp, frames := fs }
      | _, _ => none
    | .ret =>
      match s.frames with
      | (rpc, rbp) :: fs => some { pc := rpc, stk := s.stk.take s.bp ++ [.null], bp := rbp, frames := fs }
      | [] => none

inductive Steps (C : List Instr) : St → St → Prop where
  | refl (s) : Steps C s s
  | cons {s s' s''} : step C s = some s' → Steps C s' s'' → Steps C s s''

theorem Steps.trans {C s1 s2 s3} (h1 : Steps C s1 s2) (h2 : Steps C s2 s3) : Steps C s1 s3 := by
  induction h1 with
  | refl => exact h2
  | cons h _ ih => exact .cons h (ih h2)

theorem Steps.one {C s s'} (h : step C s = some s') : Steps C s s' := .cons h (.refl _)

def codeAt (C : List Instr) (pos : Nat) (is : List Instr) : Prop :=
  ∃ pre post, C = pre ++ is ++ post ∧ csize pre = pos

theorem instrAt_app (pre : List Instr) (i : Instr) (post : List Instr) :
    instrAt (pre ++ i :: post) (csize pre) = some i := by
  induction pre with
  | nil => simp [instrAt, csize]
  | cons j js ih =>
    have : 0 < j.size := by cases j <;> simp [Instr.size]
    simp only [List.cons_append, instrAt, csize]
    rw [if_neg (by omega), if_neg (by omega)]
    have : j.size + csize js - j.size = csize js := by omega
    rw [this]; exact ih

theorem codeAt_head {C pos i is} (h : codeAt C pos (i :: is)) : instrAt C pos = some i := by
  obtain ⟨pre, post, rfl, rfl⟩ := h
  simp only [List.append_assoc, List.cons_append]
  exact instrAt_app _ _ _

theorem codeAt_tail {C pos i is} (h : codeAt C pos (i :: is)) : codeAt C (pos + i.size) is := by
  obtain ⟨pre, post, rfl, rfl⟩ := h
  exact ⟨pre ++ [i], post, by simp, by simp [csize_append, csize]⟩

theorem codeAt_app_left {C pos a b} (h : codeAt C pos (a ++ b)) : codeAt C pos a := by
  obtain ⟨pre, post, rfl, rfl⟩ := h
  exact ⟨pre, b ++ post, by simp, rfl⟩

theorem codeAt_app_right {C pos a b} (h : codeAt C pos (a ++ b)) : codeAt C (pos + csize a) b := by
  obtain ⟨pre, post, rfl, rfl⟩ := h
  exact ⟨pre ++ a, post, by simp, by simp [csize_append]⟩

mutual
theorem sizeE_ok : ∀ e pos, csize (compE pos e) = sizeE e
  | .int _, _ => by simp [compE, sizeE, csize, Instr.size]
  | .getl _, _ => by simp [compE, sizeE, csize, Instr.size]
  | .add a b, pos => by
    simp [compE, sizeE, csize_append, csize, Instr.size, sizeE_ok a, sizeE_ok b]; omega
  | .fnlit nl body, pos => by
    simp [compE, sizeE, csize_append, csize, Instr.size, sizeBody_ok body]; omega
  | .call f args, pos => by
    simp [compE, sizeE, csize_append, csize, Instr.size, sizeE_ok f, sizeArgs_ok args]; omega
theorem sizeArgs_ok : ∀ es pos, csize (compArgs pos es) = sizeArgs es
  | .nil, _ => by simp [compArgs, sizeArgs, csize]
  | .cons e es, pos => by simp [compArgs, sizeArgs, csize_append, sizeE_ok e, sizeArgs_ok es]
theorem sizeS_ok : ∀ s pos, csize (compS pos s) = sizeS s
  | .expr e, _ => by simp [compS, sizeS, csize_append, csize, Instr.size, sizeE_ok e]
  | .setl _ e, _ => by simp [compS, sizeS, csize_append, csize, Instr.size, sizeE_ok e]
  | .ret e, _ => by simp [compS, sizeS, csize_append, csize, Instr.size, sizeE_ok e]
theorem sizeBody_ok : ∀ b pos, csize (compBody pos b) = sizeBody b
  | .nil, _ => by simp [compBody, sizeBody, csize, Instr.size]
  | .cons s .nil, pos => by
    cases s with
    | expr e => simp [compBody, sizeBody, csize_append, csize, Instr.size, sizeE_ok e]
    | ret e => simp [compBody, sizeBody, csize_append, csize, Instr.size, sizeE_ok e]
    | setl k e => simp [compBody, sizeBody, csize_append, csize, Instr.size, sizeS_ok (.setl k e)]
  | .cons s (.cons s2 b2), pos => by
    simp [compBody, sizeBody, csize_append, sizeS_ok s, sizeBody_ok (.cons s2 b2)]
end


-- ===================== specification side =====================

inductive SVal where | int (n : Int) | null | fn (nl : Nat) (body : Block)
inductive Res where | val (v : SVal) | ret (v : SVal)
inductive SRes where | normal | ret (v : SVal)
inductive ARes where | vals (vs : List SVal) | ret (v : SVal)

mutual
def evalE : Nat → Expr → List SVal → Option (Res × List SVal)
  | 0, _, _ => none
  | _+1, .int k, loc => some (.val (.int k), loc)
  | _+1, .getl k, loc =>
    match loc[k]? with
    | some v => some (.val v, loc)
    | none => none
  | _+1, .fnlit nl body, loc => some (.val (.fn nl body), loc)
  | n+1, .add a b, loc =>
    match evalE n a loc with
    | some (.val (.int x), loc1) =>
      match evalE n b loc1 with
      | some (.val (.int y), loc2) => some (.val (.int (x + y)), loc2)
      | some (.ret v, loc2) => some (.ret v, loc2)   -- `antwoord` under a pending operand is fine
      | _ => none
    | some (.ret v, loc1) => some (.ret v, loc1)
    | _ => none
  | n+1, .call f args, loc =>
    match evalArgs n args loc with
    | some (.vals vs, loc1) =>
      match evalE n f loc1 with
      | some (.val (.fn nl body), loc2) =>
        if vs.length ≤ nl then
          match evalBody n body (vs ++ List.replicate (nl - vs.length) .null) with
          | some v => some (.val v, loc2)
          | none => none
        else none
      | some (.ret v, loc2) => some (.ret v, loc2)
      | _ => none
    | some (.ret v, loc1) => some (.ret v, loc1)
    | none => none
def evalArgs : Nat → Exprs → List SVal → Option (ARes × List SVal)
  | 0, _, _ => none
  | _+1, .nil, loc => some (.vals [], loc)
  | n+1, .cons e es, loc =>
    match evalE n e loc with
    | some (.val v, loc1) =>
      match evalArgs n es loc1 with
      | some (.vals vs, loc2) => some (.vals (v :: vs), loc2)
      | some (.ret w, loc2) => some (.ret w, loc2)
      | none => none
    | some (.ret w, loc1) => some (.ret w, loc1)
    | none => none
def evalS : Nat → Stmt → List SVal → Option (SRes × List SVal)
  | 0, _, _ => none
  | n+1, .expr e, loc =>
    match evalE n e loc with
    | some (.val _, loc1) => some (.normal, loc1)
    | some (.ret w, loc1) => some (.ret w, loc1)
    | none => none
  | n+1, .setl k e, loc =>
    match evalE n e loc with
    | some (.val v, loc1) => if k < loc1.length then some (.normal, loc1.set k v) else none
    | some (.ret w, loc1) => some (.ret w, loc1)
    | none => none
  | n+1, .ret e, loc =>
    match evalE n e loc with
    | some (.val v, loc1) => some (.ret v, loc1)
    | some (.ret w, loc1) => some (.ret w, loc1)
    | none => none
-- result of a function body
def evalBody : Nat → Block → List SVal → Option SVal
  | 0, _, _ => none
  | _+1, .nil, _ => some .null
  | n+1, .cons (.expr e) .nil, loc =>
    match evalE n e loc with
    | some (.val v, _) => some v
    | some (.ret w, _) => some w
    | none => none
  | n+1, .cons s .nil, loc =>
    match evalS n s loc with
    | some (.normal, _) => some .null
    | some (.ret w, _) => some w
    | none => none
  | n+1, .cons s b, loc =>
    match evalS n s loc with
    | some (.normal, loc1) => evalBody n b loc1
    | some (.ret w, _) => some w
    | none => none
end

-- ===================== relation between the two sides =====================

inductive VRel (C : List Instr) : SVal → Val → Prop where
  | int (n) : VRel C (.int n) (.int n)
  | null : VRel C .null .null
  | fn {nl body ip} : codeAt C ip (compBody ip body) → VRel C (.fn nl body) (.fn ip nl)

inductive LRel (C : List Instr) : List SVal → List Val → Prop where
  | nil : LRel C [] []
  | cons {v v' vs vs'} : VRel C v v' → LRel C vs vs' → LRel C (v :: vs) (v' :: vs')

theorem LRel.length {C a b} (h : LRel C a b) : a.length = b.length := by
  induction h with
  | nil => rfl
  | cons _ _ ih => simp [ih]

theorem LRel.get {C a b} (h : LRel C a b) : ∀ (k : Nat) (v : SVal), a[k]? = some v → ∃ v', b[k]? = some v' ∧ VRel C v v' := by
  induction h with
  | nil => intro k v hk; simp at hk
  | cons hv _ ih =>
    intro k v hk
    cases k with
    | zero => simp at hk; subst hk; exact ⟨_, by simp, hv⟩
    | succ k => simp at hk; simpa using ih k v hk

theorem LRel.set {C a b} (h : LRel C a b) {v v'} (hv : VRel C v v') : ∀ (k : Nat), LRel C (a.set k v) (b.set k v') := by
  induction h with
  | nil => intro k; simp; exact .nil
  | cons hw _ ih =>
    intro k
    cases k with
    | zero => simp; exact .cons hv ‹_›
    | succ k => simp; exact .cons hw (ih k)

theorem LRel.append {C a b c d} (h1 : LRel C a b) (h2 : LRel C c d) : LRel C (a ++ c) (b ++ d) := by
  induction h1 with
  | nil => simpa using h2
  | cons hv _ ih => simpa using .cons hv ih

theorem LRel.replicate_null (C : List Instr) (k : Nat) : LRel C (List.replicate k .null) (List.replicate k .null) := by
  induction k with
  | zero => exact .nil
  | succ k ih => simpa [List.replicate_succ] using LRel.cons .null ih

theorem LRel.snoc {C a b v v'} (h1 : LRel C a b) (hv : VRel C v v') : LRel C (a ++ [v]) (b ++ [v']) :=
  h1.append (.cons hv .nil)

-- list facts about the flat stack `below ++ locals ++ operands`
theorem frame_get (below vloc ops : List Val) (k : Nat) (v : Val) (h : vloc[k]? = some v) :
    (below ++ vloc ++ ops)[below.length + k]? = some v := by
  have hk : k < vloc.length := by
    by_cases hk : k < vloc.length
    · exact hk
    · simp [List.getElem?_eq_none (by omega : vloc.length ≤ k)] at h
  rw [List.append_assoc, List.getElem?_append_right (by omega)]
  simp only [Nat.add_sub_cancel_left]
  rw [List.getElem?_append_left hk]; exact h

theorem frame_set (below vloc ops : List Val) (k : Nat) (v : Val) (hk : k < vloc.length) :
    (below ++ vloc ++ ops).set (below.length + k) v = below ++ vloc.set k v ++ ops := by
  rw [List.append_assoc, List.set_append_right _ _ (by omega)]
  simp only [Nat.add_sub_cancel_left]
  rw [List.set_append_left _ _ hk, List.append_assoc]

theorem frame_take (below rest : List Val) : (below ++ rest).take below.length = below := by
  simp


-- ===================== machine steps in frame form =====================

/-- the machine inside an activation: `below` is everything under the frame (callers' locals and pending
operands), `vloc` the activation's local slots, `ops` its operand stack -/
def cfg (pc : Nat) (below vloc ops : List Val) (fr : List (Nat × Nat)) : St :=
  ⟨pc, below ++ vloc ++ ops, below.length, fr⟩

theorem step_const {C pc n} (h : instrAt C pc = some (.const n)) (below vloc ops fr) :
    step C (cfg pc below vloc ops fr) = some (cfg (pc + 3) below vloc (ops ++ [.int n]) fr) := by
  simp [step, cfg, h, List.append_assoc]
theorem step_null {C pc} (h : instrAt C pc = some .null) (below vloc ops fr) :
    step C (cfg pc below vloc ops fr) = some (cfg (pc + 1) below vloc (ops ++ [.null]) fr) := by
  simp [step, cfg, h, List.append_assoc]
theorem step_constfn {C pc ip nl} (h : instrAt C pc = some (.constfn ip nl)) (below vloc ops fr) :
    step C (cfg pc below vloc ops fr) = some (cfg (pc + 3) below vloc (ops ++ [.fn ip nl]) fr) := by
  simp [step, cfg, h, List.append_assoc]
theorem step_jump {C pc t} (h : instrAt C pc = some (.jump t)) (below vloc ops fr) :
    step C (cfg pc below vloc ops fr) = some (cfg t below vloc ops fr) := by
  simp [step, cfg, h]
theorem step_add {C pc} (h : instrAt C pc = some .add) (below vloc ops fr) (a b : Int) :
    step C (cfg pc below vloc (ops ++ [.int a] ++ [.int b]) fr) =
      some (cfg (pc + 1) below vloc (ops ++ [.int (a + b)]) fr) := by
  have e1 : below ++ vloc ++ (ops ++ [Val.int a] ++ [Val.int b]) = (below ++ vloc ++ ops ++ [Val.int a]) ++ [Val.int b] := by
    simp [List.append_assoc]
  simp only [step, cfg, h, e1, pop1_snoc]
  simp [List.append_assoc]
theorem step_pop {C pc} (h : instrAt C pc = some .pop) (below vloc ops fr) (v : Val) :
    step C (cfg pc below vloc (ops ++ [v]) fr) = some (cfg (pc + 1) below vloc ops fr) := by
  have e1 : below ++ vloc ++ (ops ++ [v]) = (below ++ vloc ++ ops) ++ [v] := by simp [List.append_assoc]
  simp only [step, cfg, h, e1, pop1_snoc]
theorem step_getl {C pc k} (h : instrAt C pc = some (.getl k)) (below vloc ops fr) (v : Val)
    (hv : vloc[k]? = some v) :
    step C (cfg pc below vloc ops fr) = some (cfg (pc + 3) below vloc (ops ++ [v]) fr) := by
  simp only [step, cfg, h, frame_get below vloc ops k v hv]
  simp [List.append_assoc]
theorem step_setl {C pc k} (h : instrAt C pc = some (.setl k)) (below vloc ops fr) (v : Val)
    (hk : k < vloc.length) :
    step C (cfg pc below vloc (ops ++ [v]) fr) = some (cfg (pc + 3) below (vloc.set k v) ops fr) := by
  have e1 : below ++ vloc ++ (ops ++ [v]) = (below ++ vloc ++ ops) ++ [v] := by simp [List.append_assoc]
  have hlt : below.length + k < (below ++ vloc ++ ops).length := by simp; omega
  simp only [step, cfg, h, e1, pop1_snoc, hlt, if_true, frame_set below vloc ops k v hk]
theorem step_call {C pc argc} (h : instrAt C pc = some (.call argc)) (below vloc ops fr) (vs : List Val)
    (ip nl : Nat) (hargc : vs.length = argc) (hle : argc ≤ nl) :
    step C (cfg pc below vloc (ops ++ vs ++ [.fn ip nl]) fr) =
      some (cfg ip (below ++ vloc ++ ops) (vs ++ List.replicate (nl - argc) .null) []
        ((pc + 2, below.length) :: fr)) := by
  have e1 : below ++ vloc ++ (ops ++ vs ++ [Val.fn ip nl]) = (below ++ vloc ++ ops ++ vs) ++ [Val.fn ip nl] := by
    simp [List.append_assoc]
  have hlen : argc ≤ (below ++ vloc ++ ops ++ vs).length := by simp; omega
  simp only [step, cfg, h, e1, pop1_snoc, hle, hlen, and_self, if_true]
  simp [List.append_assoc]; omega
theorem step_retv {C pc} (h : instrAt C pc = some .retv) (below vloc ops fs) (v : Val) (rpc rbp : Nat) :
    step C (cfg pc below vloc (ops ++ [v]) ((rpc, rbp) :: fs)) = some ⟨rpc, below ++ [v], rbp, fs⟩ := by
  have e1 : below ++ vloc ++ (ops ++ [v]) = (below ++ vloc ++ ops) ++ [v] := by simp [List.append_assoc]
  simp only [step, cfg, h, e1, pop1_snoc]
  simp [List.append_assoc]
theorem step_ret {C pc} (h : instrAt C pc = some .ret) (below vloc ops fs) (rpc rbp : Nat) :
    step C (cfg pc below vloc ops ((rpc, rbp) :: fs)) = some ⟨rpc, below ++ [.null], rbp, fs⟩ := by
  simp [step, cfg, h, List.append_assoc]

/-- the state a callee hands back is the caller's frame with the result pushed -/
theorem returned_eq (rpc : Nat) (below vloc ops : List Val) (v : Val) (fr) :
    (⟨rpc, (below ++ vloc ++ ops) ++ [v], below.length, fr⟩ : St) = cfg rpc below vloc (ops ++ [v]) fr := by
  simp [cfg, List.append_assoc]


theorem evalS_ret_not_normal (n : Nat) (e : Expr) (loc loc1 : List SVal) :
    evalS n (.ret e) loc ≠ some (.normal, loc1) := by
  cases n with
  | zero => simp [evalS]
  | succ m =>
    simp only [evalS]
    cases evalE m e loc with
    | none => simp
    | some re => obtain ⟨r1, l1⟩ := re; cases r1 <;> simp

-- ===================== simulation =====================

/-- `antwoord v` (or falling off the end of the body) hands `v` to the caller, whatever was pending -/
def retTo (C : List Instr) (pos : Nat) (below vloc ops : List Val) (fr : List (Nat × Nat)) (v : SVal) : Prop :=
  ∀ rpc rbp fs, fr = (rpc, rbp) :: fs →
    ∃ v', VRel C v v' ∧ Steps C (cfg pos below vloc ops fr) ⟨rpc, below ++ [v'], rbp, fs⟩

def PE (n : Nat) : Prop := ∀ e loc r loc' C pos below vloc ops fr,
  evalE n e loc = some (r, loc') → codeAt C pos (compE pos e) → LRel C loc vloc →
  match r with
  | .val v => ∃ v' vloc', VRel C v v' ∧ LRel C loc' vloc' ∧
      Steps C (cfg pos below vloc ops fr) (cfg (pos + sizeE e) below vloc' (ops ++ [v']) fr)
  | .ret v => retTo C pos below vloc ops fr v

def PA (n : Nat) : Prop := ∀ es loc r loc' C pos below vloc ops fr,
  evalArgs n es loc = some (r, loc') → codeAt C pos (compArgs pos es) → LRel C loc vloc →
  match r with
  | .vals vs => ∃ vs' vloc', LRel C vs vs' ∧ vs.length = es.len ∧ LRel C loc' vloc' ∧
      Steps C (cfg pos below vloc ops fr) (cfg (pos + sizeArgs es) below vloc' (ops ++ vs') fr)
  | .ret v => retTo C pos below vloc ops fr v

def PS (n : Nat) : Prop := ∀ s loc r loc' C pos below vloc ops fr,
  evalS n s loc = some (r, loc') → codeAt C pos (compS pos s) → LRel C loc vloc →
  match r with
  | .normal => ∃ vloc', LRel C loc' vloc' ∧
      Steps C (cfg pos below vloc ops fr) (cfg (pos + sizeS s) below vloc' ops fr)
  | .ret v => retTo C pos below vloc ops fr v

def PB (n : Nat) : Prop := ∀ b loc v C pos below vloc ops fr,
  evalBody n b loc = some v → codeAt C pos (compBody pos b) → LRel C loc vloc →
  retTo C pos below vloc ops fr v

theorem sim : ∀ n, PE n ∧ PA n ∧ PS n ∧ PB n := by
  intro n
  induction n with
  | zero =>
    refine ⟨?_, ?_, ?_, ?_⟩
    · intro e loc r loc' C pos below vloc ops fr h; simp [evalE] at h
    · intro es loc r loc' C pos below vloc ops fr h; simp [evalArgs] at h
    · intro s loc r loc' C pos below vloc ops fr h; simp [evalS] at h
    · intro b loc v C pos below vloc ops fr h; simp [evalBody] at h
  | succ n ih =>
    obtain ⟨ihE, ihA, ihS, ihB⟩ := ih
    refine ⟨?_, ?_, ?_, ?_⟩
    -- expressions
    · intro e loc r loc' C pos below vloc ops fr h hc hl
      cases e with
      | int k =>
        simp only [evalE, Option.some.injEq, Prod.mk.injEq] at h; obtain ⟨rfl, rfl⟩ := h
        simp only [compE] at hc
        exact ⟨.int k, vloc, .int k, hl, Steps.one (by simpa [sizeE] using step_const (codeAt_head hc) below vloc ops fr)⟩
      | getl k =>
        simp only [evalE] at h
        cases hk : loc[k]? with
        | none => simp [hk] at h
        | some v =>
          simp only [hk, Option.some.injEq, Prod.mk.injEq] at h; obtain ⟨rfl, rfl⟩ := h
          obtain ⟨v', hv', hr⟩ := hl.get k v hk
          simp only [compE] at hc
          exact ⟨v', vloc, hr, hl, Steps.one (by simpa [sizeE] using step_getl (codeAt_head hc) below vloc ops fr v' hv')⟩
      | fnlit nl body =>
        simp only [evalE, Option.some.injEq, Prod.mk.injEq] at h; obtain ⟨rfl, rfl⟩ := h
        simp only [compE, List.append_assoc, List.singleton_append] at hc
        have hbody := codeAt_app_left (codeAt_tail hc)
        have hfn := codeAt_app_right (codeAt_tail hc)
        simp only [Instr.size, sizeBody_ok] at hbody hfn
        refine ⟨.fn (pos + 3) nl, vloc, .fn hbody, hl, ?_⟩
        refine Steps.cons (step_jump (codeAt_head hc) below vloc ops fr) (Steps.one ?_)
        simpa [sizeE, Nat.add_assoc] using step_constfn (codeAt_head hfn) below vloc ops fr
      | add a b =>
        simp only [evalE] at h
        simp only [compE] at hc
        have hca := codeAt_app_left (codeAt_app_left hc)
        have hcb := codeAt_app_right (codeAt_app_left hc)
        have hcadd := codeAt_app_right hc
        simp only [csize_append, sizeE_ok, ← Nat.add_assoc] at hcb hcadd
        cases ha : evalE n a loc with
        | none => simp [ha] at h
        | some ra =>
          obtain ⟨r1, loc1⟩ := ra
          have sa := ihE a loc r1 loc1 C pos below vloc ops fr ha hca hl
          cases r1 with
          | ret w =>
            simp only [ha, Option.some.injEq, Prod.mk.injEq] at h; obtain ⟨rfl, rfl⟩ := h
            exact sa
          | val va =>
            cases va with
            | null => simp [ha] at h
            | fn _ _ => simp [ha] at h
            | int x =>
              simp only [ha] at h
              obtain ⟨va', vloc1, hva, hl1, s1⟩ := sa
              cases hva
              cases hb : evalE n b loc1 with
              | none => simp [hb] at h
              | some rb =>
                obtain ⟨r2, loc2⟩ := rb
                have sb := ihE b loc1 r2 loc2 C _ below vloc1 (ops ++ [.int x]) fr hb hcb hl1
                cases r2 with
                | ret w =>
                  simp only [hb, Option.some.injEq, Prod.mk.injEq] at h; obtain ⟨rfl, rfl⟩ := h
                  intro rpc rbp fs hfr
                  obtain ⟨w', hw, s2⟩ := sb rpc rbp fs hfr
                  exact ⟨w', hw, s1.trans s2⟩
                | val vb =>
                  cases vb with
                  | null => simp [hb] at h
                  | fn _ _ => simp [hb] at h
                  | int y =>
                    simp only [hb, Option.some.injEq, Prod.mk.injEq] at h; obtain ⟨rfl, rfl⟩ := h
                    obtain ⟨vb', vloc2, hvb, hl2, s2⟩ := sb
                    cases hvb
                    refine ⟨.int (x + y), vloc2, .int _, hl2, (s1.trans s2).trans (Steps.one ?_)⟩
                    simpa [sizeE, Nat.add_assoc] using step_add (codeAt_head hcadd) below vloc2 ops fr x y
      | call f args =>
        simp only [evalE] at h
        simp only [compE] at hc
        have hcargs := codeAt_app_left (codeAt_app_left hc)
        have hcf := codeAt_app_right (codeAt_app_left hc)
        have hccall := codeAt_app_right hc
        simp only [csize_append, sizeE_ok, sizeArgs_ok, ← Nat.add_assoc] at hcf hccall
        cases hargs : evalArgs n args loc with
        | none => simp [hargs] at h
        | some ra =>
          obtain ⟨r1, loc1⟩ := ra
          have sa := ihA args loc r1 loc1 C pos below vloc ops fr hargs hcargs hl
          simp only [hargs] at h
          cases r1 with
          | ret w =>
            simp only [Option.some.injEq, Prod.mk.injEq] at h; obtain ⟨rfl, rfl⟩ := h
            exact sa
          | vals vs =>
            obtain ⟨vs', vloc1, hvs, hlen, hl1, s1⟩ := sa
            cases hf : evalE n f loc1 with
            | none => simp [hf] at h
            | some rf =>
              obtain ⟨r2, loc2⟩ := rf
              have sf := ihE f loc1 r2 loc2 C _ below vloc1 (ops ++ vs') fr hf hcf hl1
              simp only [hf] at h
              cases r2 with
              | ret w =>
                simp only [Option.some.injEq, Prod.mk.injEq] at h; obtain ⟨rfl, rfl⟩ := h
                intro rpc rbp fs hfr
                obtain ⟨w', hw, s2⟩ := sf rpc rbp fs hfr
                exact ⟨w', hw, s1.trans s2⟩
              | val vf =>
                cases vf with
                | int _ => simp at h
                | null => simp at h
                | fn nl body =>
                  obtain ⟨vf', vloc2, hvf, hl2, s2⟩ := sf
                  cases hvf with
                  | fn hbodycode =>
                    rename_i ip
                    by_cases hle : vs.length ≤ nl
                    · simp only [hle, if_true] at h
                      cases hb : evalBody n body (vs ++ List.replicate (nl - vs.length) .null) with
                      | none => simp [hb] at h
                      | some v =>
                        simp only [hb, Option.some.injEq, Prod.mk.injEq] at h; obtain ⟨rfl, rfl⟩ := h
                        have hlen' : vs'.length = args.len := by rw [← hvs.length]; exact hlen
                        have hle' : args.len ≤ nl := by rw [← hlen]; exact hle
                        -- the Call instruction builds the callee's frame
                        have scall := step_call (codeAt_head hccall) below vloc2 ops fr vs' ip nl hlen' hle'
                        -- the body runs in that frame and returns to us
                        have hlnew : LRel C (vs ++ List.replicate (nl - vs.length) .null)
                            (vs' ++ List.replicate (nl - args.len) .null) := by
                          rw [hlen]; exact hvs.append (LRel.replicate_null C _)
                        obtain ⟨v', hv, sbody⟩ := ihB body _ v C ip (below ++ vloc2 ++ ops) _ []
                          ((pos + sizeArgs args + sizeE f + 2, below.length) :: fr) hb hbodycode hlnew
                          _ _ _ rfl
                        refine ⟨v', vloc2, hv, hl2, ?_⟩
                        rw [returned_eq] at sbody
                        have : pos + sizeE (.call f args) = pos + sizeArgs args + sizeE f + 2 := by
                          simp [sizeE]; omega
                        rw [this]
                        exact ((s1.trans s2).trans (Steps.one scall)).trans sbody
                    · simp [hle] at h
    -- argument lists
    · intro es loc r loc' C pos below vloc ops fr h hc hl
      cases es with
      | nil =>
        simp only [evalArgs, Option.some.injEq, Prod.mk.injEq] at h; obtain ⟨rfl, rfl⟩ := h
        exact ⟨[], vloc, .nil, rfl, hl, by simpa [sizeArgs] using Steps.refl _⟩
      | cons e es =>
        simp only [evalArgs] at h
        simp only [compArgs] at hc
        have hce := codeAt_app_left hc
        have hces := codeAt_app_right hc
        simp only [sizeE_ok] at hces
        cases he : evalE n e loc with
        | none => simp [he] at h
        | some re =>
          obtain ⟨r1, loc1⟩ := re
          have se := ihE e loc r1 loc1 C pos below vloc ops fr he hce hl
          simp only [he] at h
          cases r1 with
          | ret w =>
            simp only [Option.some.injEq, Prod.mk.injEq] at h; obtain ⟨rfl, rfl⟩ := h
            exact se
          | val v =>
            obtain ⟨v', vloc1, hv, hl1, s1⟩ := se
            cases hes : evalArgs n es loc1 with
            | none => simp [hes] at h
            | some rs =>
              obtain ⟨r2, loc2⟩ := rs
              have ss := ihA es loc1 r2 loc2 C _ below vloc1 (ops ++ [v']) fr hes hces hl1
              simp only [hes] at h
              cases r2 with
              | ret w =>
                simp only [Option.some.injEq, Prod.mk.injEq] at h; obtain ⟨rfl, rfl⟩ := h
                intro rpc rbp fs hfr
                obtain ⟨w', hw, s2⟩ := ss rpc rbp fs hfr
                exact ⟨w', hw, s1.trans s2⟩
              | vals vs =>
                simp only [Option.some.injEq, Prod.mk.injEq] at h; obtain ⟨rfl, rfl⟩ := h
                obtain ⟨vs', vloc2, hvs, hlen, hl2, s2⟩ := ss
                refine ⟨v' :: vs', vloc2, .cons hv hvs, by simp [Exprs.len, hlen], hl2, ?_⟩
                have := s1.trans s2
                simpa [sizeArgs, Nat.add_assoc, List.append_assoc] using this
    -- statements
    · intro s loc r loc' C pos below vloc ops fr h hc hl
      cases s with
      | expr e =>
        simp only [evalS] at h
        simp only [compS] at hc
        have hce := codeAt_app_left hc
        have hcp := codeAt_app_right hc
        simp only [sizeE_ok] at hcp
        cases he : evalE n e loc with
        | none => simp [he] at h
        | some re =>
          obtain ⟨r1, loc1⟩ := re
          have se := ihE e loc r1 loc1 C pos below vloc ops fr he hce hl
          simp only [he] at h
          cases r1 with
          | ret w =>
            simp only [Option.some.injEq, Prod.mk.injEq] at h; obtain ⟨rfl, rfl⟩ := h
            exact se
          | val v =>
            simp only [Option.some.injEq, Prod.mk.injEq] at h; obtain ⟨rfl, rfl⟩ := h
            obtain ⟨v', vloc1, _, hl1, s1⟩ := se
            refine ⟨vloc1, hl1, s1.trans (Steps.one ?_)⟩
            simpa [sizeS, Nat.add_assoc] using step_pop (codeAt_head hcp) below vloc1 ops fr v'
      | setl k e =>
        simp only [evalS] at h
        simp only [compS] at hc
        have hce := codeAt_app_left hc
        have hcp := codeAt_app_right hc
        simp only [sizeE_ok] at hcp
        cases he : evalE n e loc with
        | none => simp [he] at h
        | some re =>
          obtain ⟨r1, loc1⟩ := re
          have se := ihE e loc r1 loc1 C pos below vloc ops fr he hce hl
          simp only [he] at h
          cases r1 with
          | ret w =>
            simp only [Option.some.injEq, Prod.mk.injEq] at h; obtain ⟨rfl, rfl⟩ := h
            exact se
          | val v =>
            obtain ⟨v', vloc1, hv, hl1, s1⟩ := se
            by_cases hk : k < loc1.length
            · simp only [hk, if_true, Option.some.injEq, Prod.mk.injEq] at h; obtain ⟨rfl, rfl⟩ := h
              have hk' : k < vloc1.length := by rw [← hl1.length]; exact hk
              refine ⟨vloc1.set k v', hl1.set hv k, s1.trans (Steps.one ?_)⟩
              simpa [sizeS, Nat.add_assoc] using step_setl (codeAt_head hcp) below vloc1 ops fr v' hk'
            · simp [hk] at h
      | ret e =>
        simp only [evalS] at h
        simp only [compS] at hc
        have hce := codeAt_app_left hc
        have hcp := codeAt_app_right hc
        simp only [sizeE_ok] at hcp
        cases he : evalE n e loc with
        | none => simp [he] at h
        | some re =>
          obtain ⟨r1, loc1⟩ := re
          have se := ihE e loc r1 loc1 C pos below vloc ops fr he hce hl
          simp only [he] at h
          cases r1 with
          | ret w =>
            simp only [Option.some.injEq, Prod.mk.injEq] at h; obtain ⟨rfl, rfl⟩ := h
            exact se
          | val v =>
            simp only [Option.some.injEq, Prod.mk.injEq] at h; obtain ⟨rfl, rfl⟩ := h
            obtain ⟨v', vloc1, hv, _, s1⟩ := se
            intro rpc rbp fs hfr
            subst hfr
            exact ⟨v', hv, s1.trans (Steps.one (step_retv (codeAt_head hcp) below vloc1 ops fs v' rpc rbp))⟩
    -- function bodies
    · intro b loc v C pos below vloc ops fr h hc hl
      cases b with
      | nil =>
        simp only [evalBody, Option.some.injEq] at h; subst h
        simp only [compBody] at hc
        intro rpc rbp fs hfr; subst hfr
        exact ⟨.null, .null, Steps.one (step_ret (codeAt_head hc) below vloc ops fs rpc rbp)⟩
      | cons s b =>
        cases b with
        | nil =>
          -- last statement of the body
          have viaE : ∀ e, evalBody (n+1) (.cons s .nil) loc =
                (match evalE n e loc with
                 | some (.val v, _) => some v
                 | some (.ret w, _) => some w
                 | none => none) →
              codeAt C pos (compE pos e ++ [.retv]) → retTo C pos below vloc ops fr v := by
            intro e hev hce
            rw [hev] at h
            have hcp := codeAt_app_right hce
            simp only [sizeE_ok] at hcp
            cases he : evalE n e loc with
            | none => simp [he] at h
            | some re =>
              obtain ⟨r1, loc1⟩ := re
              have se := ihE e loc r1 loc1 C pos below vloc ops fr he (codeAt_app_left hce) hl
              simp only [he] at h
              cases r1 with
              | ret w => simp only [Option.some.injEq] at h; subst h; exact se
              | val w =>
                simp only [Option.some.injEq] at h; subst h
                obtain ⟨v', vloc1, hv, _, s1⟩ := se
                intro rpc rbp fs hfr; subst hfr
                exact ⟨v', hv, s1.trans (Steps.one (step_retv (codeAt_head hcp) below vloc1 ops fs v' rpc rbp))⟩
          cases s with
          | expr e => exact viaE e (by simp only [evalBody]) (by simpa only [compBody] using hc)
          | ret e =>
            -- `antwoord e` as the last statement: the body's code is just the statement's code
            simp only [evalBody] at h
            have hcs : codeAt C pos (compS pos (.ret e)) := by simpa only [compBody, compS] using hc
            cases hs : evalS n (.ret e) loc with
            | none => simp [hs] at h
            | some rs =>
              obtain ⟨r1, loc1⟩ := rs
              have ss := ihS (.ret e) loc r1 loc1 C pos below vloc ops fr hs hcs hl
              simp only [hs] at h
              cases r1 with
              | ret w => simp only [Option.some.injEq] at h; subst h; exact ss
              | normal => exact absurd hs (evalS_ret_not_normal n e loc loc1)
          | setl k e =>
            simp only [evalBody] at h
            simp only [compBody] at hc
            have hcs := codeAt_app_left hc
            have hcr := codeAt_app_right hc
            simp only [sizeS_ok] at hcr
            cases hs : evalS n (.setl k e) loc with
            | none => simp [hs] at h
            | some rs =>
              obtain ⟨r1, loc1⟩ := rs
              have ss := ihS (.setl k e) loc r1 loc1 C pos below vloc ops fr hs hcs hl
              simp only [hs] at h
              cases r1 with
              | ret w => simp only [Option.some.injEq] at h; subst h; exact ss
              | normal =>
                simp only [Option.some.injEq] at h; subst h
                obtain ⟨vloc1, _, s1⟩ := ss
                intro rpc rbp fs hfr; subst hfr
                exact ⟨.null, .null, s1.trans (Steps.one (step_ret (codeAt_head hcr) below vloc1 ops fs rpc rbp))⟩
        | cons s2 b2 =>
          have hev : evalBody (n+1) (.cons s (.cons s2 b2)) loc =
              (match evalS n s loc with
               | some (.normal, loc1) => evalBody n (.cons s2 b2) loc1
               | some (.ret w, _) => some w
               | none => none) := by
            cases s <;> simp only [evalBody]
          have hcs : codeAt C pos (compS pos s ++ compBody (pos + sizeS s) (.cons s2 b2)) := by
            cases s <;> simpa only [compBody] using hc
          rw [hev] at h
          have hcr := codeAt_app_right hcs
          simp only [sizeS_ok] at hcr
          cases hs : evalS n s loc with
          | none => simp [hs] at h
          | some rs =>
            obtain ⟨r1, loc1⟩ := rs
            have ss := ihS s loc r1 loc1 C pos below vloc ops fr hs (codeAt_app_left hcs) hl
            simp only [hs] at h
            cases r1 with
            | ret w => simp only [Option.some.injEq] at h; subst h; exact ss
            | normal =>
              obtain ⟨vloc1, hl1, s1⟩ := ss
              intro rpc rbp fs hfr
              obtain ⟨v', hv, s2⟩ := ihB (.cons s2 b2) loc1 v C _ below vloc1 ops fr h hcr hl1 rpc rbp fs hfr
              exact ⟨v', hv, s1.trans s2⟩

#print axioms sim
end Call
