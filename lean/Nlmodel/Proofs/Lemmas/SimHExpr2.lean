/- Stage 5: assignment, unary and binary operators with boxing of results. -/
import Nlmodel.Proofs.Lemmas.SimHExpr
namespace Nl
namespace SimH
open Spec Sim

section expr
variable {s0 : VM} {CS : List Const} {C : Code} {Γ : Gam} {ab : Bool} {μ : AMap} {st : SState} {pos : Nat} {lp : LoopCtx} {cs : List Const}
  {stk g : Array Value} {l : Value} {m : Mem} {out : List Text}

/-- boxing a primitive result: the same thing happens on both sides (floats are boxed on the machine only) -/
theorem box_rel (hinv : Inv5 s0 CS Γ μ st g l m out) (a : SVal) (ma : Value) (hv : VRh μ st m.heap a ma) (p : PRes) :
    ∃ μ', Inv5 s0 CS Γ μ' (st.box a p).2 g l (m.box ma p).2 out ∧ Grow μ st m.heap μ' (st.box a p).2 (m.box ma p).2.heap ∧
      VRh μ' (st.box a p).2 (m.box ma p).2.heap (st.box a p).1 (m.box ma p).1 := by
  cases p with
  | null => exact ⟨μ, hinv, Grow.refl _ _ _, trivial⟩
  | bool b => exact ⟨μ, hinv, Grow.refl _ _ _, rfl⟩
  | int i => exact ⟨μ, hinv, Grow.refl _ _ _, rfl⟩
  | float x =>
    obtain ⟨h1, h2, h3⟩ := inv_alloc_float hinv x
    exact ⟨μ, h1, h2, h3⟩
  | str s =>
    obtain ⟨h1, h2, h3⟩ := inv_alloc_str hinv s
    exact ⟨_, h1, h2, h3⟩
  | same => exact ⟨μ, hinv, Grow.refl _ _ _, hv⟩

theorem grow_store_eq {μ : AMap} {st st' : SState} {h : Heap} (he : st'.store = st.store) : Grow μ st h μ st' h :=
  ⟨fun _ _ x => x, by rw [he]; exact Nat.le_refl _, fun a _ => by rw [he]; exact ⟨rfl, rfl⟩, Nat.le_refl _, fun _ _ x => x⟩

theorem HR.store_eq {μ : AMap} {st st' : SState} {h : Heap} (he : st'.store = st.store) (hr : HR μ st h) : HR μ st' h :=
  ⟨hr.inj, fun a a' hm => by rw [he]; exact hr.dom a a' hm, fun a a' s hm hc => hr.str a a' s hm (by rw [← he]; exact hc),
   fun a a' vs hm hc => by
     obtain ⟨mvs, h1, h2⟩ := hr.arr a a' vs hm (by rw [← he]; exact hc)
     exact ⟨mvs, h1, h2.grow (grow_store_eq he)⟩⟩

/-- a step of the semantics that leaves the store alone (binding a variable, setting `last`) -/
theorem Inv5.restate {st' : SState} (hinv : Inv5 s0 CS Γ μ st g l m out) (he : st'.store = st.store) (hgenv : st'.genv = st.genv)
    (hlast : st'.last = st.last) (hout : st'.out = st.out) : Inv5 s0 CS Γ μ st' g l m out :=
  hinv.move (grow_store_eq he) hgenv hlast hout (hinv.hr.store_eq he) hinv.pool hinv.mok

theorem relG_bind5 (hok : GamOK Γ) (hinv : Inv5 s0 CS Γ μ st g l m out) (b k : Nat) (hm : (b, k) ∈ Γ) (v : SVal) (mv : Value)
    (hv : VRh μ st m.heap v mv) :
    Inv5 s0 CS Γ μ (st.bind ⟨b, .global k⟩ v) (setGlobalArr g k mv) l m out := by
  have hst : (st.bind ⟨b, .global k⟩ v).store = st.store := by simp [SState.bind, isGlobalSlot]
  have hgr : Grow μ st m.heap μ (st.bind ⟨b, .global k⟩ v) m.heap := grow_store_eq hst
  refine ⟨?_, ?_, hinv.hr.store_eq hst, by simpa [SState.bind, isGlobalSlot] using hinv.out, hinv.pool, hinv.mok⟩
  · intro b' k' hm' w hw
    simp only [SState.bind, isGlobalSlot, ↓reduceIte] at hw
    obtain ⟨u1, u2⟩ := gam_unique hok hm hm'
    by_cases hb : b = b'
    · have hk := u1 hb
      subst hb; subst hk
      rw [envGet_envSet_same] at hw
      injection hw with hw; subst hw
      exact ⟨mv, hv.grow hgr, setGlobalArr_same g k mv⟩
    · have hk : k' ≠ k := fun e => hb (u2 e.symm)
      rw [envGet_envSet_other _ _ _ _ (fun e => hb e.symm)] at hw
      obtain ⟨mw, h1, h2⟩ := hinv.relG b' k' hm' w hw
      exact ⟨mw, h1.grow hgr, by rw [setGlobalArr_other g k k' mv hk]; exact h2⟩
  · have : (st.bind ⟨b, .global k⟩ v).last = st.last := by simp [SState.bind, isGlobalSlot]
    rw [this]; exact hinv.last.grow hgr

theorem pe5_assign (f : Nat) (ih : PE5 s0 CS C f) (b k : Nat) (hm : (b, k) ∈ Γ) (e1 : RExpr) (h1 : HE Γ ab e1) (hok : GamOK Γ)
    (hinv : Inv5 s0 CS Γ μ st g l m out)
    (hcode : CodeAt C pos (emitE (.assignVar ⟨b, .global k⟩ e1) pos lp cs).1) (hext : Ext (emitE (.assignVar ⟨b, .global k⟩ e1) pos lp cs).2 CS) :
    GoalV5 s0 CS C Γ ab lp μ pos stk g l m out (pos + sizeE (.assignVar ⟨b, .global k⟩ e1)) stk st (evalE (f + 1) (.assignVar ⟨b, .global k⟩ e1) st) := by
  simp only [emitE, getVar, setVar] at hcode hext
  obtain ⟨hc1, hc2⟩ := hcode.append
  rw [emitE_size] at hc2
  have h := ih Γ ab e1 h1 hok μ st pos lp cs stk g l m out hinv hc1 hext
  simp only [evalE, sizeE]
  cases hr : evalE f e1 st with
  | val v st1 =>
    rw [hr] at h
    obtain ⟨mv, μ1, m1, hmv, g1, l1, out1, n, hn, hinv1, hg1⟩ := h
    have hinv2 := relG_bind5 hok hinv1 b k hm v mv hmv
    have hst : (st1.bind ⟨b, .global k⟩ v).store = st1.store := by simp [SState.bind, isGlobalSlot]
    refine ⟨mv, μ1, m1, hmv.grow (grow_store_eq hst), setGlobalArr g1 k mv, l1, out1, n + 2, ?_, hinv2, hg1.trans (grow_store_eq hst)⟩
    have h2 := execN_step C n _ _ _ hn (step_setGlobal hc2)
    have h3 := execN_step C (n + 1) _ _ _ h2 (step_getGlobal (by simpa [Instr.size] using hc2.tail))
    rw [setGlobalArr_same] at h3
    rw [h3]; congr 2
  | err er st1 => rw [hr] at h; exact h
  | fuel => trivial
  | unspec _ => trivial
  | brk _ => rw [hr] at h; exact h
  | cont _ => rw [hr] at h; exact h
  | ret _ _ => rw [hr] at h; exact h

theorem pe5_not (f : Nat) (ih : PE5 s0 CS C f) (e1 : RExpr) (h1 : HE Γ ab e1) (hok : GamOK Γ)
    (hinv : Inv5 s0 CS Γ μ st g l m out)
    (hcode : CodeAt C pos (emitE (.not e1) pos lp cs).1) (hext : Ext (emitE (.not e1) pos lp cs).2 CS) :
    GoalV5 s0 CS C Γ ab lp μ pos stk g l m out (pos + sizeE (.not e1)) stk st (evalE (f + 1) (.not e1) st) := by
  simp only [emitE] at hcode hext
  obtain ⟨hc1, hc2⟩ := hcode.append
  rw [emitE_size] at hc2
  have h := ih Γ ab e1 h1 hok μ st pos lp cs stk g l m out hinv hc1 hext
  simp only [evalE, sizeE]
  cases hr : evalE f e1 st with
  | val v st1 =>
    rw [hr] at h
    obtain ⟨mv, μ1, m1, hmv, g1, l1, out1, n, hn, hinv1, hg1⟩ := h
    have hstep := step_exec (s0 := s0) (stk := stk.push mv) (g := g1) (l := l1) (m := m1) (out := out1) hc2
    have herr : (∀ b, mv ≠ .bool b) → Fails5 C (setH s0 pos stk g l m out) .type st1.out := by
      intro hnb
      have : ∃ s2, step C (setH s0 (pos + sizeE e1) (stk.push mv) g1 l1 m1 out1) = .error .type s2 ∧ s2.out = out1 := by
        rw [hstep]
        cases mv <;> simp only [exec, setH_stack, pop1_push] <;> first | exact ⟨_, rfl, rfl⟩ | exact absurd rfl (hnb _)
      obtain ⟨s2, hs2, ho2⟩ := this
      exact ⟨n, _, s2, hn, hs2, by rw [ho2, hinv1.out]⟩
    cases v <;> cases mv <;> simp only [VRh] at hmv <;> try exact absurd hmv id
    · exact herr (by simp)
    · subst hmv
      rename_i bb
      refine ⟨.bool (!bb), μ1, m1, rfl, g1, l1, out1, n + 1, ?_, hinv1, hg1⟩
      apply execN_step C n _ _ _ hn
      rw [hstep]; simp [exec, pop1_push, setH, Instr.size]; omega
    · exact herr (by simp)
    · exact herr (by simp)
    · exact herr (by simp)
    · exact herr (by simp)
  | err er st1 => rw [hr] at h; exact h
  | fuel => trivial
  | unspec _ => trivial
  | brk _ => rw [hr] at h; exact h
  | cont _ => rw [hr] at h; exact h
  | ret _ _ => rw [hr] at h; exact h

theorem pe5_neg (f : Nat) (ih : PE5 s0 CS C f) (e1 : RExpr) (h1 : HE Γ ab e1) (hok : GamOK Γ)
    (hinv : Inv5 s0 CS Γ μ st g l m out)
    (hcode : CodeAt C pos (emitE (.neg e1) pos lp cs).1) (hext : Ext (emitE (.neg e1) pos lp cs).2 CS) :
    GoalV5 s0 CS C Γ ab lp μ pos stk g l m out (pos + sizeE (.neg e1)) stk st (evalE (f + 1) (.neg e1) st) := by
  simp only [emitE] at hcode hext
  obtain ⟨hc1, hc2⟩ := hcode.append
  rw [emitE_size] at hc2
  have h := ih Γ ab e1 h1 hok μ st pos lp cs stk g l m out hinv hc1 hext
  simp only [evalE, sizeE]
  cases hr : evalE f e1 st with
  | val v st1 =>
    rw [hr] at h
    obtain ⟨mv, μ1, m1, hmv, g1, l1, out1, n, hn, hinv1, hg1⟩ := h
    have hstep := step_exec (s0 := s0) (stk := stk.push mv) (g := g1) (l := l1) (m := m1) (out := out1) hc2
    have herr : (∀ i, mv ≠ .int i) → (∀ a, mv ≠ .float a) → Fails5 C (setH s0 pos stk g l m out) .type st1.out := by
      intro hni hnf
      have : ∃ s2, step C (setH s0 (pos + sizeE e1) (stk.push mv) g1 l1 m1 out1) = .error .type s2 ∧ s2.out = out1 := by
        rw [hstep]
        cases mv <;> simp only [exec, setH_stack, pop1_push] <;> first | exact ⟨_, rfl, rfl⟩ | exact absurd rfl (hni _) | exact absurd rfl (hnf _)
      obtain ⟨s2, hs2, ho2⟩ := this
      exact ⟨n, _, s2, hn, hs2, by rw [ho2, hinv1.out]⟩
    cases v <;> cases mv <;> simp only [VRh] at hmv <;> try exact absurd hmv id
    · exact herr (by simp) (by simp)
    · exact herr (by simp) (by simp)
    · subst hmv
      rename_i i
      by_cases hin : inRange (-i) = true
      · simp only [hin, ↓reduceIte]
        refine ⟨.int (-i), μ1, m1, rfl, g1, l1, out1, n + 1, ?_, hinv1, hg1⟩
        apply execN_step C n _ _ _ hn
        rw [hstep]; simp [exec, pop1_push, setH, Instr.size, hin]; omega
      · simp only [hin, Bool.false_eq_true, ↓reduceIte]
        have : ∃ s2, step C (setH s0 (pos + sizeE e1) (stk.push (.int i)) g1 l1 m1 out1) = .error .type s2 ∧ s2.out = out1 := by
          rw [hstep]; simp only [exec, setH_stack, pop1_push, hin, Bool.false_eq_true, ↓reduceIte]; exact ⟨_, rfl, rfl⟩
        obtain ⟨s2, hs2, ho2⟩ := this
        exact ⟨n, _, s2, hn, hs2, by rw [ho2, hinv1.out]⟩
    · rename_i x a'
      obtain ⟨hinv2, hg2, hv2⟩ := inv_alloc_float hinv1 (F64.neg x)
      refine ⟨_, μ1, _, hv2, g1, l1, out1, n + 1, ?_, hinv2, hg1.trans hg2⟩
      apply execN_step C n _ _ _ hn
      rw [hstep]
      have : m1.heap.floatAt a' = x := by simp [Heap.floatAt, hmv]
      simp [exec, pop1_push, setH, Instr.size, this]; omega
    · exact herr (by simp) (by simp)
    · exact herr (by simp) (by simp)
  | err er st1 => rw [hr] at h; exact h
  | fuel => trivial
  | unspec _ => trivial
  | brk _ => rw [hr] at h; exact h
  | cont _ => rw [hr] at h; exact h
  | ret _ _ => rw [hr] at h; exact h

theorem pe5_bin (f : Nat) (ih : PE5 s0 CS C f) (el : RExpr) (op : BinOp) (er : RExpr) (hl : HE Γ ab el) (hr : HE Γ false er) (hok : GamOK Γ)
    (hinv : Inv5 s0 CS Γ μ st g l m out)
    (hcode : CodeAt C pos (emitE (.infix el op er) pos lp cs).1) (hext : Ext (emitE (.infix el op er) pos lp cs).2 CS) :
    GoalV5 s0 CS C Γ ab lp μ pos stk g l m out (pos + sizeE (.infix el op er)) stk st (evalE (f + 1) (.infix el op er) st) := by
  have hnf := he_not_fused el er op hl hr
  simp only [emitE, hnf] at hcode hext
  obtain ⟨hc12, hc3⟩ := hcode.append
  obtain ⟨hc1, hc2⟩ := hc12.append
  rw [emitE_size] at hc2
  simp only [codeSize_append, emitE_size, ← Nat.add_assoc] at hc3
  have hext1 : Ext (emitE el pos lp cs).2 CS := (emitE_ext er _ _ _).trans hext
  have ihl := ih Γ ab el hl hok μ st pos lp cs stk g l m out hinv hc1 hext1
  simp only [evalE, sizeE, hnf]
  cases hrl : evalE f el st with
  | val a st1 =>
    rw [hrl] at ihl
    obtain ⟨ma, μ1, m1, hma, g1, l1, out1, n1, hn1, hinv1, hg1⟩ := ihl
    have ihr := ih Γ false er hr hok μ1 st1 (pos + sizeE el) lp (emitE el pos lp cs).2 (stk.push ma) g1 l1 m1 out1 hinv1 hc2 hext
    simp only
    cases hrr : evalE f er st1 with
    | val b st2 =>
      rw [hrr] at ihr
      obtain ⟨mb, μ2, m2, hmb, g2, l2, out2, n2, hn2, hinv2, hg2⟩ := ihr
      have hn12 := execN_add C n1 n2 _ _ _ hn1 hn2
      have hma2 := hma.grow hg2
      have hstep := step_exec (s0 := s0) (stk := (stk.push ma).push mb) (g := g2) (l := l2) (m := m2) (out := out2) hc3
      have hva := view_eq hinv2.hr hma2
      have hvb := view_eq hinv2.hr hmb
      simp only
      cases hcore : binopCore op (st2.view a) (st2.view b) with
      | error e =>
        have : ∃ s2, step C (setH s0 (pos + sizeE el + sizeE er) ((stk.push ma).push mb) g2 l2 m2 out2) = .error e s2 ∧ s2.out = out2 := by
          rw [hstep]; simp only [exec, setH_stack, pop1_push, binop, setH_mem, hva, hvb, hcore]; exact ⟨_, rfl, rfl⟩
        obtain ⟨s2, hs2, ho2⟩ := this
        exact ⟨n1 + n2, _, s2, hn12, hs2, by rw [ho2, hinv2.out]⟩
      | ok p =>
        obtain ⟨μ3, hinv3, hg3, hv3⟩ := box_rel hinv2 a ma hma2 p
        simp only
        refine ⟨_, μ3, _, hv3, g2, l2, out2, n1 + n2 + 1, ?_, hinv3, (hg1.trans hg2).trans hg3⟩
        apply execN_step C (n1 + n2) _ _ _ hn12
        rw [hstep]; simp only [exec, setH_stack, pop1_push, binop, setH_mem, hva, hvb, hcore, Instr.size]
        simp only [setH]
        congr 2 <;> omega
    | err e st2 => rw [hrr] at ihr; exact Fails5.after n1 hn1 ihr
    | fuel => trivial
    | unspec _ => trivial
    | brk _ => rw [hrr] at ihr; exact absurd ihr.1 (by simp)
    | cont _ => rw [hrr] at ihr; exact absurd ihr.1 (by simp)
    | ret _ _ => rw [hrr] at ihr; exact ihr
  | err e st1 => rw [hrl] at ihl; exact ihl
  | fuel => trivial
  | unspec _ => trivial
  | brk _ => rw [hrl] at ihl; exact ihl
  | cont _ => rw [hrl] at ihl; exact ihl
  | ret _ _ => rw [hrl] at ihl; exact ihl

end expr
end SimH
end Nl
