/- Stage 6, divergence preservation at the level of source texts (`evalText` / `specText`), with the hypotheses of
   `C01_heap_and_calls_eval_text` (source check `src6Top`) and of its purely syntactic variant (`src6TopNF`); and the
   converse of the forward theorem: what `eval` answers within some budget is what the text denotes. -/
import Nlmodel.Proofs.Lemmas.Div6Top
import Nlmodel.Proofs.Lemmas.SyntacticOnly
namespace Nl
namespace Sim6
open Spec Sim

/-- (T2, source fragment, no validation) the hypotheses of `program6_syntactic` -/
theorem program_div6_syntactic (ast : Block) (r : RBlock) (bc : Bytecode) (hc : compileProgram ast = .ok (r, bc)) (hin : S6Top ast)
    (hdiv : ∀ F, Spec.evalB F r {} = .fuel) (n : Nat) :
    (∃ s', runSteps bc.code n (VM.start {} bc) = .budget s') ∨
    HitsLimit bc := by
  unfold compileProgram at hc
  cases hr : resolveProgram ast with
  | error e => simp [hr] at hc
  | ok r' =>
    simp only [hr] at hc
    cases hcr : compileR r' with
    | error e => simp [hcr] at hc
    | ok bc' =>
      simp only [hcr] at hc
      injection hc with hc; injection hc with h1 h2; subst h1; subst h2
      obtain ⟨Γ', D, hy, hnd⟩ := resolve_ztop ast hin r' hr
      exact top_div6 r' Γ' D hy hnd bc' hcr hdiv n

theorem resolve_of_compile {ast : Block} {r : RBlock} {bc : Bytecode} (hc : compileProgram ast = .ok (r, bc)) : resolveProgram ast = .ok r := by
  unfold compileProgram at hc
  cases hr : resolveProgram ast with
  | error e => simp [hr] at hc
  | ok r' =>
    simp only [hr] at hc
    cases hcr : compileR r' with
    | error e => simp [hcr] at hc
    | ok bc' => simp only [hcr] at hc; injection hc with hc; injection hc with h1 h2; rw [h1]

/-- the text denotes "no end": the resolved program runs out of every fuel -/
theorem specText_budget {cc : CharClass} {src : Text} {ast : Block} {r : RBlock} (hp : parse cc src = .ok ast) (hres : resolveProgram ast = .ok r)
    {F : Nat} (h : specText cc F src = .budget) : Spec.evalB F r {} = .fuel := by
  simp only [specText, hp, hres, Spec.evalProgram] at h
  cases hr : Spec.evalB F r {} with
  | fuel => rfl
  | _ => rw [hr] at h; simp at h

/-- (T3) DIVERGENCE PRESERVATION ON TEXTS, stage 6 — the hypotheses of `C01_heap_and_calls_eval_text`: if the text
    denotes no result with any fuel, then `eval` gives no result within any budget (neither a value, nor an ordinary error,
    nor a fault) — or stops at the machine's stack/frame limit, exactly as the forward theorem allows -/
theorem eval_text6_div (cc : CharClass) (src : Text) (ast : Block) (r : RBlock) (bc : Bytecode) (hp : parse cc src = .ok ast)
    (hs : src6Top ast = true) (hc : compileProgram ast = .ok (r, bc)) (hdiv : ∀ F, specText cc F src = .budget) (b : Nat) :
    evalText cc b src = .budget ∨ TextHitsLimit cc src := by
  have hres := resolve_of_compile hc
  rcases program_div6_syntactic ast r bc hc (src6Top_sound ast hs) (fun F => specText_budget hp hres (hdiv F)) b with ⟨s', hb⟩ | hlim
  · left
    simp only [evalText, hp, hc, VM.run, hb]
  · exact .inr (TextHitsLimit.of hp hc hlim)

/-- (T3, purely syntactic hypotheses) the hypotheses of `C01_heap_and_calls_eval_text_syntactic` -/
theorem eval_text6_div_syntactic (cc : CharClass) (src : Text) (ast : Block) (r : RBlock) (bc : Bytecode) (hp : parse cc src = .ok ast)
    (hs : src6TopNF ast = true) (hc : compileProgram ast = .ok (r, bc)) (hdiv : ∀ F, specText cc F src = .budget) (b : Nat) :
    evalText cc b src = .budget ∨ TextHitsLimit cc src :=
  eval_text6_div cc src ast r bc hp (src6TopNF_up ast hs (ParsedFloats.parse_allLitF cc src ast hp)) hc hdiv b

/-! ## the converse of the forward theorem -/

/-- more budget never changes a finished run (copy of `C01_budget_mono`, kept here so that this file does not import the
    property file) -/
theorem runSteps_mono (c : Code) (n k : Nat) (s : VM) (h : ∀ s', runSteps c n s ≠ .budget s') :
    runSteps c (n + k) s = runSteps c n s := by
  induction n generalizing s with
  | zero => exact absurd rfl (h s)
  | succ n ih =>
    have e : n + 1 + k = (n + k) + 1 := by omega
    rw [e]
    simp only [runSteps] at h ⊢
    cases hs : step c s with
    | next s' =>
      simp only [hs] at h ⊢
      exact ih s' h
    | halt v s' => rfl
    | error e s' => rfl
    | fault site => rfl

/-- more budget never changes a finished evaluation of a text -/
theorem evalText_mono (cc : CharClass) (src : Text) (b k : Nat) (h : evalText cc b src ≠ .budget) :
    evalText cc (b + k) src = evalText cc b src := by
  unfold evalText at h ⊢
  cases hp : parse cc src with
  | error e => rfl
  | ok ast =>
    simp only [hp] at h ⊢
    cases hc : compileProgram ast with
    | error e => rfl
    | ok q =>
      obtain ⟨r, bc⟩ := q
      simp only [hc, VM.run] at h ⊢
      have hne : ∀ s', runSteps bc.code b (VM.start {} bc) ≠ .budget s' := by
        intro s' hs'; rw [hs'] at h; exact h rfl
      rw [runSteps_mono bc.code b k _ hne]

/-- (T4) THE CONVERSE, stage 6: whatever `eval` answers within SOME budget `b` — a value, an error, (a fault) — other than
    by stopping at the machine's stack/frame limit, is what the text denotes: some fuel makes the definitional semantics
    answer the same; the only other possibility is that the semantics leaves the behaviour unspecified (`.unspec`, about
    which the forward theorem says nothing).  Proof: if the semantics ran out of every fuel, `eval` would be over budget
    (divergence preservation); otherwise the forward theorem and the fact that more budget does not change a finished run. -/
theorem eval_text6_converse (cc : CharClass) (src : Text) (ast : Block) (r : RBlock) (bc : Bytecode) (hp : parse cc src = .ok ast)
    (hs : src6Top ast = true) (hc : compileProgram ast = .ok (r, bc)) (b : Nat)
    (hne : evalText cc b src ≠ .budget) (hnl : ¬ TextHitsLimit cc src) :
    ∃ F, specText cc F src = evalText cc b src ∨ specText cc F src = .unspec := by
  by_cases hall : ∀ F, specText cc F src = .budget
  · rcases eval_text6_div cc src ast r bc hp hs hc hall b with h | h
    · exact absurd h hne
    · exact absurd h hnl
  · rcases Classical.not_forall.mp hall with ⟨F, hF⟩
    refine ⟨F, ?_⟩
    rcases eval_text6_checked cc src ast r bc hp hs hc F with h | h
    · exact absurd h hnl
    · cases hsp : specText cc F src with
      | value t out =>
        rw [hsp] at h
        obtain ⟨n, hn⟩ := h
        left
        have h1 := evalText_mono cc src b n hne
        have h2 := hn b
        rw [Nat.add_comm] at h2
        rw [← h1, h2]
      | error e out =>
        rw [hsp] at h
        obtain ⟨n, hn⟩ := h
        left
        have h1 := evalText_mono cc src b n hne
        have h2 := hn b
        rw [Nat.add_comm] at h2
        rw [← h1, h2]
      | fault s => rw [hsp] at h; exact h.elim
      | budget => exact absurd hsp hF
      | unspec => exact .inr rfl

/-- (T4, for a value) `eval` answered a value: the text denotes it (or the semantics leaves the behaviour unspecified) -/
theorem eval_text6_converse_value (cc : CharClass) (src : Text) (ast : Block) (r : RBlock) (bc : Bytecode) (hp : parse cc src = .ok ast)
    (hs : src6Top ast = true) (hc : compileProgram ast = .ok (r, bc)) (b : Nat) (t : Tree) (out : List Text)
    (hv : evalText cc b src = .value t out) :
    ∃ F, specText cc F src = .value t out ∨ specText cc F src = .unspec := by
  have hne : evalText cc b src ≠ .budget := by rw [hv]; intro h; cases h
  have hnl : ¬ TextHitsLimit cc src := by
    intro hl
    obtain ⟨n, out', hn⟩ := hl.observable
    have h1 := evalText_mono cc src b n hne
    have h2 := hn b
    rw [Nat.add_comm] at h2
    rw [h1, hv] at h2; cases h2
  rw [← hv]
  exact eval_text6_converse cc src ast r bc hp hs hc b hne hnl

/-- (T4, for an error that is not the limit's kind) -/
theorem eval_text6_converse_error (cc : CharClass) (src : Text) (ast : Block) (r : RBlock) (bc : Bytecode) (hp : parse cc src = .ok ast)
    (hs : src6Top ast = true) (hc : compileProgram ast = .ok (r, bc)) (b : Nat) (e : Err) (out : List Text)
    (hv : evalText cc b src = .error e out) (he : e ≠ .index) :
    ∃ F, specText cc F src = .error e out ∨ specText cc F src = .unspec := by
  have hne : evalText cc b src ≠ .budget := by rw [hv]; intro h; cases h
  have hnl : ¬ TextHitsLimit cc src := by
    intro hl
    obtain ⟨n, out', hn⟩ := hl.observable
    have h1 := evalText_mono cc src b n hne
    have h2 := hn b
    rw [Nat.add_comm] at h2
    rw [h1, hv] at h2
    injection h2 with h3 _
    exact he h3
  rw [← hv]
  exact eval_text6_converse cc src ast r bc hp hs hc b hne hnl

end Sim6
end Nl
