/- Refuting the machine limit (`AtLimit`, `HitsLimit`) by running the program, second version: `AtLimit` is decided
   at every state of the run (`atLimitB`), so the check `endsNoLimit` also covers programs that DO call functions and
   end otherwise (value, ordinary error).  Example: `functie f() { [1][5] }; f()` ends with an ordinary index
   error inside a called function; it does not hit the limit, and the converse theorem of stage 6 applies to it. -/
import Nlmodel.Proofs.Lemmas.Div6Text
import Nlmodel.Proofs.Lemmas.LimitRun
namespace Nl
open Sim

/-! ## deciding `AtLimit` -/

/-- Boolean version of `AtLimit` -/
def atLimitB (C : Code) (s : VM) : Bool :=
  match decodeAt C s.ip, pop1 s.stack with
  | some (.call argc), some (.fn _ nl, st) =>
    decide (argc ≤ nl) && (decide (st.size + nl > STACK_LIMIT) || decide (s.depth + 1 ≥ STACK_LIMIT))
  | _, _ => false

theorem atLimitB_iff (C : Code) (s : VM) : atLimitB C s = true ↔ AtLimit C s := by
  constructor
  · intro h
    unfold atLimitB at h
    split at h
    · rename_i argc fip nl st hd hp
      simp only [Bool.and_eq_true, Bool.or_eq_true, decide_eq_true_eq] at h
      exact ⟨argc, fip, nl, st, hd, hp, h.1, h.2⟩
    · cases h
  · rintro ⟨argc, fip, nl, st, hd, hp, hle, hlim⟩
    unfold atLimitB
    rw [hd, hp]
    simp only [Bool.and_eq_true, Bool.or_eq_true, decide_eq_true_eq]
    exact ⟨hle, hlim⟩

instance (C : Code) (s : VM) : Decidable (AtLimit C s) := decidable_of_iff _ (atLimitB_iff C s)

/-! ## refuting the limit by running the program -/

/-- the run from `s` is over (halt, error or fault) within `n` steps and none of its states is at the limit (computable) -/
def endsNoLimit (C : Code) : Nat → VM → Bool
  | 0, _ => false
  | n + 1, s => !(atLimitB C s) && (match step C s with
    | .next s' => endsNoLimit C n s'
    | _ => true)

/-- such a run never reaches the limit -/
theorem endsNoLimit_sound {C : Code} : ∀ (n : Nat) (s : VM), endsNoLimit C n s = true →
    ¬ ∃ k s1, execN C k s = some s1 ∧ AtLimit C s1
  | 0, _, h => by simp [endsNoLimit] at h
  | n + 1, s, h => by
    simp only [endsNoLimit, Bool.and_eq_true, Bool.not_eq_true'] at h
    obtain ⟨hc, hrest⟩ := h
    rintro ⟨k, s1, hk, hl⟩
    cases k with
    | zero =>
      simp only [execN] at hk
      injection hk with hk; subst hk
      rw [(atLimitB_iff C s).mpr hl] at hc; cases hc
    | succ k =>
      simp only [execN] at hk
      cases hs : step C s with
      | next s' =>
        rw [hs] at hk hrest
        exact endsNoLimit_sound n s' hrest ⟨k, s1, hk, hl⟩
      | halt v s' => rw [hs] at hk; cases hk
      | error e s' => rw [hs] at hk; cases hk
      | fault site => rw [hs] at hk; cases hk

/-- a program whose run on a fresh machine is over within `n` steps without standing at the limit does not hit the limit -/
theorem not_hitsLimit_of_run2 {bc : Bytecode} (n : Nat) (h : endsNoLimit bc.code n (VM.start {} bc) = true) : ¬ HitsLimit bc :=
  endsNoLimit_sound n _ h

/-- the call-free check is a special case -/
theorem endsNoLimit_of_endsCallFree {C : Code} : ∀ (n : Nat) (s : VM), endsCallFree C n s = true → endsNoLimit C n s = true
  | 0, _, h => by simp [endsCallFree] at h
  | n + 1, s, h => by
    simp only [endsCallFree, Bool.and_eq_true, Bool.not_eq_true'] at h
    simp only [endsNoLimit, Bool.and_eq_true, Bool.not_eq_true']
    refine ⟨?_, ?_⟩
    · cases hb : atLimitB C s with
      | false => rfl
      | true => rw [((atLimitB_iff C s).mp hb).isCallAt] at h; cases h.1
    · cases hs : step C s with
      | next s' => have h2 := h.2; rw [hs] at h2; exact endsNoLimit_of_endsCallFree n s' h2
      | _ => rfl

/-! ## example: a call, then an ordinary index error -/

namespace Sim6
open Spec

/-- `functie f() { [1][5] }; f()` -/
def callIdxSrc : Text := "functie f() { [1][5] }; f()".toList

def callIdxAst : Block :=
  .cons (.expr (.func "f".toList [] (.cons (.expr (.index (.arr (.cons (.int 1) .nil)) (.int 5))) .nil)))
  (.cons (.expr (.call (.ident "f".toList) .nil)) .nil)

theorem callIdx_parse : parse CharClass.ascii callIdxSrc = .ok callIdxAst := by rfl

theorem callIdx_src6Top : src6Top callIdxAst = true := by decide

/-- `eval` answers an ordinary index error (within 20 steps) -/
theorem callIdx_eval : evalText CharClass.ascii 20 callIdxSrc = .error .index [] := by
  have h : (match evalText CharClass.ascii 20 callIdxSrc with | .error .index [] => true | _ => false) = true := by decide +kernel
  revert h
  cases evalText CharClass.ascii 20 callIdxSrc with
  | error e out =>
    cases e <;> cases out <;> simp
  | _ => simp

/-- the program does execute a `Call` (so `endsCallFree` fails on it) -/
theorem callIdx_not_callFree : (match compileProgram callIdxAst with
      | .ok (_, bc) => endsCallFree bc.code 20 (VM.start {} bc)
      | .error _ => true) = false := by decide +kernel

/-- ... which is NOT the machine's limit: the run is over within 20 instructions and no state of it is `AtLimit` -/
theorem callIdx_not_limit : ¬ TextHitsLimit CharClass.ascii callIdxSrc := by
  have d : (match compileProgram callIdxAst with
      | .ok (_, bc) => endsNoLimit bc.code 20 (VM.start {} bc)
      | .error _ => false) = true := by decide +kernel
  intro hl
  cases hc : compileProgram callIdxAst with
  | error e => rw [hc] at d; cases d
  | ok q =>
    obtain ⟨r, bc⟩ := q
    rw [hc] at d
    exact not_hitsLimit_of_run2 20 d (TextHitsLimit.program callIdx_parse hc hl)

/-- `eval_text6_converse` applied to a text that CALLS a function and ends with an ordinary index error inside it: the
    index error is what the text denotes (or the semantics leaves the behaviour unspecified) -/
theorem call_then_index_error_is_definitional :
    ∃ F, specText CharClass.ascii F callIdxSrc = .error .index [] ∨ specText CharClass.ascii F callIdxSrc = .unspec := by
  have d : (match compileProgram callIdxAst with | .ok _ => true | .error _ => false) = true := by decide +kernel
  cases hc : compileProgram callIdxAst with
  | error e => rw [hc] at d; cases d
  | ok q =>
    obtain ⟨r, bc⟩ := q
    have hne : evalText CharClass.ascii 20 callIdxSrc ≠ .budget := by rw [callIdx_eval]; intro h; cases h
    have := eval_text6_converse CharClass.ascii callIdxSrc callIdxAst r bc callIdx_parse callIdx_src6Top hc 20 hne callIdx_not_limit
    rw [callIdx_eval] at this
    exact this

/-- and indeed (kernel-evaluated) the definitional semantics answers the index error -/
example : (match specText CharClass.ascii 20 callIdxSrc with | .error .index [] => true | _ => false) = true := by decide +kernel

end Sim6
end Nl
