/-
  Model of `compiler::OpCode`, its operand widths (`OpCode::operands`) and the byte encoding
  (`emit_opcode/emit_u8/emit_u16`, little endian).  `decodeAt` decodes at a *byte offset*, so
  "a jump lands on an instruction boundary" is expressible (Model/Verifier).
-/
import Nlmodel.Model.Value
namespace Nl

inductive Instr where
  | const (k : Nat)
  | pop | true_ | false_
  | bin (op : BinOp)
  | not | negate
  | jump (t : Nat) | jumpIfFalse (t : Nat)
  | null
  | ret | retv
  | call (argc : Nat)
  | callBuiltin (b : Nat) (argc : Nat)
  | getLocal (k : Nat) | setLocal (k : Nat) | getGlobal (k : Nat) | setGlobal (k : Nat)
  | fused (op : BinOp) (loc : Nat) (k : Nat)     -- `<Op>LocalConst`
  | array (n : Nat)
  | indexGet | indexSet
  | halt
  deriving DecidableEq, Repr, Inhabited

def binOpcode : BinOp → Nat
  | .add => 4 | .sub => 5 | .div => 6 | .mul => 7 | .gt => 8 | .gte => 9 | .lt => 10 | .lte => 11
  | .eq => 12 | .neq => 13 | .and => 14 | .or => 15 | .mod => 17

/-- fused opcodes exist for 11 of the 13 operators -/
def fusedOpcode : BinOp → Option Nat
  | .gt => some 30 | .gte => some 31 | .lt => some 32 | .lte => some 33 | .eq => some 34
  | .neq => some 35 | .add => some 36 | .sub => some 37 | .mul => some 38 | .div => some 39
  | .mod => some 40 | _ => none

/-- the opcode byte (`OpCode as u8`); 255 for the two non-existent fused operators -/
def Instr.opcode : Instr → Nat
  | .const _ => 0 | .pop => 1 | .true_ => 2 | .false_ => 3
  | .bin op => binOpcode op
  | .not => 16 | .negate => 18
  | .jump _ => 19 | .jumpIfFalse _ => 20 | .null => 21 | .ret => 22 | .retv => 23
  | .call _ => 24 | .callBuiltin .. => 25
  | .getLocal _ => 26 | .setLocal _ => 27 | .getGlobal _ => 28 | .setGlobal _ => 29
  | .fused op _ _ => (fusedOpcode op).getD 255
  | .array _ => 41 | .indexGet => 42 | .indexSet => 43 | .halt => 44

/-- size in bytes: 1 + operand widths -/
def Instr.size : Instr → Nat
  | .const _ | .jump _ | .jumpIfFalse _ | .array _ => 3
  | .getLocal _ | .setLocal _ | .getGlobal _ | .setGlobal _ => 3
  | .fused .. => 5
  | .callBuiltin .. => 3
  | .call _ => 2
  | _ => 1

def u16le (v : Nat) : List Nat := [v % 256, (v / 256) % 256]

def Instr.encode (i : Instr) : List Nat :=
  match i with
  | .const k | .jump k | .jumpIfFalse k | .array k
  | .getLocal k | .setLocal k | .getGlobal k | .setGlobal k => i.opcode :: u16le k
  | .fused _ l k => i.opcode :: (u16le l ++ u16le k)
  | .callBuiltin b n => [i.opcode, b % 256, n % 256]
  | .call n => [i.opcode, n % 256]
  | _ => [i.opcode]

def encodeAll (is : List Instr) : List Nat := is.flatMap Instr.encode

def codeSize (is : List Instr) : Nat := (is.map Instr.size).sum

abbrev Code := Array Nat   -- bytes

def rd16 (c : Code) (p : Nat) : Option Nat :=
  match c[p]?, c[p + 1]? with
  | some a, some b => some (a + 256 * b)
  | _, _ => none

def binOfOpcode : Nat → Option BinOp
  | 4 => some .add | 5 => some .sub | 6 => some .div | 7 => some .mul | 8 => some .gt | 9 => some .gte
  | 10 => some .lt | 11 => some .lte | 12 => some .eq | 13 => some .neq | 14 => some .and
  | 15 => some .or | 17 => some .mod | _ => none

def fusedOfOpcode : Nat → Option BinOp
  | 30 => some .gt | 31 => some .gte | 32 => some .lt | 33 => some .lte | 34 => some .eq
  | 35 => some .neq | 36 => some .add | 37 => some .sub | 38 => some .mul | 39 => some .div
  | 40 => some .mod | _ => none

/-- decode the instruction starting at byte offset `p`; `none` = invalid opcode byte or operands
    beyond the end of the code (what `next()/read_u8()/read_u16()` would read out of bounds) -/
def decodeAt (c : Code) (p : Nat) : Option Instr :=
  match c[p]? with
  | none => none
  | some b =>
    match binOfOpcode b with
    | some op => some (.bin op)
    | none =>
      match fusedOfOpcode b with
      | some op =>
        match rd16 c (p + 1), rd16 c (p + 3) with
        | some l, some k => some (.fused op l k)
        | _, _ => none
      | none =>
        match b with
        | 0 => (rd16 c (p + 1)).map .const
        | 1 => some .pop | 2 => some .true_ | 3 => some .false_
        | 16 => some .not | 18 => some .negate
        | 19 => (rd16 c (p + 1)).map .jump
        | 20 => (rd16 c (p + 1)).map .jumpIfFalse
        | 21 => some .null | 22 => some .ret | 23 => some .retv
        | 24 => (c[p + 1]?).map .call
        | 25 => match c[p + 1]?, c[p + 2]? with
                | some x, some y => some (.callBuiltin x y)
                | _, _ => none
        | 26 => (rd16 c (p + 1)).map .getLocal
        | 27 => (rd16 c (p + 1)).map .setLocal
        | 28 => (rd16 c (p + 1)).map .getGlobal
        | 29 => (rd16 c (p + 1)).map .setGlobal
        | 41 => (rd16 c (p + 1)).map .array
        | 42 => some .indexGet | 43 => some .indexSet | 44 => some .halt
        | _ => none

/-- the opcode table as the harness prints it: (byte, name, operand widths) -/
def opcodeTable : List (Nat × String × List Nat) :=
  [(0, "Const", [2]), (1, "Pop", []), (2, "True", []), (3, "False", []), (4, "Add", []),
   (5, "Subtract", []), (6, "Divide", []), (7, "Multiply", []), (8, "Gt", []), (9, "Gte", []),
   (10, "Lt", []), (11, "Lte", []), (12, "Eq", []), (13, "Neq", []), (14, "And", []), (15, "Or", []),
   (16, "Not", []), (17, "Modulo", []), (18, "Negate", []), (19, "Jump", [2]), (20, "JumpIfFalse", [2]),
   (21, "Null", []), (22, "Return", []), (23, "ReturnValue", []), (24, "Call", [1]),
   (25, "CallBuiltin", [1, 1]), (26, "GetLocal", [2]), (27, "SetLocal", [2]), (28, "GetGlobal", [2]),
   (29, "SetGlobal", [2]), (30, "GtLocalConst", [2, 2]), (31, "GteLocalConst", [2, 2]),
   (32, "LtLocalConst", [2, 2]), (33, "LteLocalConst", [2, 2]), (34, "EqLocalConst", [2, 2]),
   (35, "NeqLocalConst", [2, 2]), (36, "AddLocalConst", [2, 2]), (37, "SubtractLocalConst", [2, 2]),
   (38, "MultiplyLocalConst", [2, 2]), (39, "DivideLocalConst", [2, 2]), (40, "ModuloLocalConst", [2, 2]),
   (41, "Array", [2]), (42, "IndexGet", []), (43, "IndexSet", []), (44, "Halt", [])]

end Nl
