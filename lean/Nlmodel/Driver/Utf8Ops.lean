/- Driver side of the byte-level string correspondence (C13, C14, C06, C15): the UTF-8 model `Model/Utf8.lean`
   applied to RAW BYTES (no decoding on the way in), answered in the same canonical form as the harness
   prints the real interpreter's results.  Not part of the verified model. -/
import Nlmodel.Driver.Proto
import Nlmodel.Model.Utf8
namespace Nl

def rawBytes (s : String) : Option (List UInt8) :=
  match s.toList with
  | 'x' :: r => unhexBytes r
  | _ => none

def hexRaw (bs : List UInt8) : String := bs.foldl (fun acc b => acc ++ hexByte b) "x"

def errName (e : Err) : String := "err " ++ e.name

/-- `utf8 len <b>` | `utf8 get <b> <i>` | `utf8 set <b> <i> <b'>` | `utf8 lt <b> <b'>` | `utf8 eq <b> <b'>` | `utf8 enc <text>` -/
def handleUtf8 : List String → String
  | ["len", b] => match rawBytes b with
    | some bs => toString (Utf8.countChars bs)
    | none => "bad-hex"
  | ["get", b, i] => match rawBytes b, i.toInt? with
    | some bs, some k => (match Utf8.byteIndexGet bs k with | .ok r => "ok " ++ hexRaw r | .error e => errName e)
    | _, _ => "bad-request"
  | ["set", b, i, r] => match rawBytes b, i.toInt?, rawBytes r with
    | some bs, some k, some rs => (match Utf8.byteIndexSet bs k rs with | .ok r => "ok " ++ hexRaw r | .error e => errName e)
    | _, _, _ => "bad-request"
  | ["lt", a, b] => match rawBytes a, rawBytes b with
    | some x, some y => toString (Utf8.byteLt x y)
    | _, _ => "bad-hex"
  | ["eq", a, b] => match rawBytes a, rawBytes b with
    | some x, some y => toString (Utf8.byteEq x y)
    | _, _ => "bad-hex"
  | ["enc", t] => match unhexText t with
    | some cs => hexRaw (Utf8.encode cs)
    | none => "bad-hex"
  | _ => "bad-request"

end Nl
