/- Stage 4: function bodies: every completion is a return to the caller. -/
import Nlmodel.Proofs.Lemmas.SimFnBV
namespace Nl
namespace SimF
open Spec Sim

theorem asFnBody_seq (s s2 : RStmt) (r : RBlock) (c1 : List Instr) (pos : Nat) (lp : LoopCtx) (cs : List Const) :
    asFnBody (.cons s (.cons s2 r)) (c1 ++ (emitB (.cons s2 r) pos lp cs).1) =
      c1 ++ asFnBody (.cons s2 r) (emitB (.cons s2 r) pos lp cs).1 := by
  simp only [asFnBody, tailKind_cons_cons]
  cases hk : (RBlock.cons s2 r).tailKind with
  | value =>
    obtain ⟨c', hc'⟩ := emitB_value_tail (.cons s2 r) pos lp cs hk
    simp only [hc', ← List.append_assoc, List.dropLast_concat]
  | returns => simp
  | other => simp

theorem evalS_ret_not_val (f : Nat) (e : RExpr) (st st1 : SState) : evalS f (.ret e) st ≠ .val () st1 := by
  cases f with
  | zero => simp [evalS]
  | succ f =>
    simp only [evalS]
    cases evalE f e st <;> simp

section
variable {W : World}

/-- a value on an otherwise empty operand stack, then `ReturnValue` -/
theorem goalF_of_value {Γx Λ : Gam} {nl : Nat} {below : Array Value} {fr : List Frame} {lp : LoopCtx} {pos : Nat} {locs g : Array Value} {l : Value}
    {e1 : Nat} {st : SState} {r : Res SVal} (hW : WOK W)
    (h : GoalV W Γx Λ nl below fr true false lp pos locs #[] g l e1 #[] st r) (hret : CodeAt W.C e1 [.retv]) :
    GoalF W Γx below fr pos locs #[] g l st r := by
  rcases h with h | h
  · exact .inl h
  refine .inr ?_
  cases r with
  | val v st1 =>
    obtain ⟨mv, hmv, locs1, g1, l1, n, hn, hinv1, ho1⟩ := h
    intro fr0 rest hfr
    subst hfr
    exact ⟨mv, g1, l1, n + 1, hmv, execN_step W.C n _ _ _ hn (step_retv hW.mem hret), hinv1.relG, hinv1.last, ho1⟩
  | ret v st1 => exact h.2
  | brk st1 => exact absurd h.1 (by simp)
  | cont st1 => exact absurd h.1 (by simp)
  | err er st1 => exact h
  | fuel => trivial
  | unspec _ => trivial

/-- a statement on an empty operand stack, then `Return` -/
theorem goalF_of_stmt {Γx Λ Γb1 Λ1 : Gam} {nl : Nat} {below : Array Value} {fr : List Frame} {lp : LoopCtx} {pos : Nat} {locs g : Array Value} {l : Value}
    {e1 : Nat} {st : SState} {r : Res Unit} (hW : WOK W) (d : Gam) (hd : Γb1 = d ++ Γx)
    (h : GoalU W Γx Λ Γb1 Λ1 nl below fr true false lp pos locs #[] g l e1 st r) (hret : CodeAt W.C e1 [.ret]) :
    GoalF W Γx below fr pos locs #[] g l st (liftU r (fun st1 => .val .null st1)) := by
  subst hd
  rcases h with h | h
  · exact .inl h
  refine .inr ?_
  cases r with
  | val u st1 =>
    obtain ⟨locs1, g1, l1, n, hn, hinv1, ho1⟩ := h
    intro fr0 rest hfr
    subst hfr
    exact ⟨.null, g1, l1, n + 1, trivial, execN_step W.C n _ _ _ hn (step_ret hW.mem hret), hinv1.relG.weaken d, hinv1.last, ho1⟩
  | ret v st1 => exact h.2
  | brk st1 => exact absurd h.1 (by simp)
  | cont st1 => exact absurd h.1 (by simp)
  | err er st1 => exact h
  | fuel => trivial
  | unspec _ => trivial

theorem GoalF.prefix {Γx : Gam} {below : Array Value} {fr : List Frame} {ip : Nat} {locs ops g : Array Value} {l : Value}
    {ip1 : Nat} {locs1 ops1 g1 : Array Value} {l1 : Value} {st st1 : SState} {r : Res SVal}
    (n : Nat) (hpre : execN W.C n (mkS W.s0 ip below locs ops g l fr) = some (mkS W.s0 ip1 below locs1 ops1 g1 l1 fr))
    (ho : st1.out = st.out)
    (h : GoalF W Γx below fr ip1 locs1 ops1 g1 l1 st1 r) : GoalF W Γx below fr ip locs ops g l st r := by
  rcases h with h | h
  · exact .inl (Ovf.after n hpre h)
  refine .inr ?_
  cases r with
  | val v st' => exact Returns.prefix n hpre ho h
  | ret v st' => exact Returns.prefix n hpre ho h
  | brk st' => exact h
  | cont st' => exact h
  | err er st' => exact Fails.after n hpre h
  | fuel => trivial
  | unspec _ => trivial

theorem pbf_novalue (hW : WOK W) (f : Nat) (ih : PAll W f) {nl : Nat} {Γ Γx Λ Γ1 Λ1 : Gam} (s : RStmt) (hs : YS nl true Γ Λ false s Γ1 Λ1)
    {st : SState} {pos : Nat} {cs : List Const} {below : Array Value} {fr : List Frame} {locs g : Array Value} {l : Value}
    (hsc : Sc W true Γ Γx Λ) (hinv : Inv W Γx Λ nl st locs g l)
    (heval : evalBV (f + 1) (.cons s .nil) st = liftU (evalS f s st) (fun st1 => .val .null st1))
    (hasf : ∀ c, asFnBody (.cons s .nil) c = c ++ [.ret])
    (hcode : CodeAt W.C pos (asFnBody (.cons s .nil) (emitB (.cons s .nil) pos none cs).1))
    (hpool : PoolOK W.s0.cvals (emitB (.cons s .nil) pos none cs).2) :
    GoalF W Γx below fr pos locs #[] g l st (evalBV (f + 1) (.cons s .nil) st) := by
  rw [hasf] at hcode
  simp only [emitB, List.append_nil] at hcode hpool
  obtain ⟨hc1, hc2⟩ := hcode.append
  rw [emitS_size] at hc2
  have h := ih.s nl true Γ Γx Λ false s Γ1 Λ1 hs st pos none cs below fr locs #[] g l hsc hinv hc1 hpool
  obtain ⟨_, ⟨d, hd⟩, _⟩ := hsc.stepS hs
  rw [heval]
  exact goalF_of_stmt hW d hd h hc2

theorem pbf_succ (hW : WOK W) (f : Nat) (ih : PAll W f) : PBF W (f + 1) := by
  intro nl Γ Γx Λ b Γ2 Λ2 hx st pos cs below fr locs g l hsc hinv hcode hpool
  cases hx with
  | nil _ _ _ =>
    simp only [asFnBody] at hcode
    simp only [evalBV]
    refine .inr ?_
    intro fr0 rest hfr
    subst hfr
    have h1 := execN_one W.C _ _ (step_null (s0 := W.s0) (below := below) (locs := locs) (ops := #[]) (g := g) (l := l) (fr := fr0 :: rest) hcode)
    exact ⟨.null, g, l, 2, trivial, execN_step W.C 1 _ _ _ h1 (step_ret hW.mem (by simpa [Instr.size] using hcode.tail)), hinv.relG, hinv.last, rfl⟩
  | cons _ _ _ Γ1 Λ1 _ _ s rest hs hrest =>
    cases rest with
    | nil =>
      cases hrest
      cases hs with
      | expr _ _ _ e he =>
        have hcode' : CodeAt W.C pos ((emitE e pos none cs).1 ++ [.retv]) := by
          simpa [asFnBody, RBlock.tailKind, emitB, emitS] using hcode
        obtain ⟨hc1, hc2⟩ := hcode'.append
        rw [emitE_size] at hc2
        have hpool' : PoolOK W.s0.cvals (emitE e pos none cs).2 := by simpa [emitB, emitS] using hpool
        have h := ih.e nl true Γ Γx Λ false e he st pos none cs below fr locs #[] g l hsc hinv hc1 hpool'
        simp only [evalBV]
        exact goalF_of_value hW h hc2
      | block _ _ _ b' Γ3 Λ3 hb' =>
        cases b' with
        | nil =>
          exact pbf_novalue hW f ih _ (.block _ _ _ _ _ _ hb') hsc hinv (by simp only [evalBV]; exact liftU_eq _ _)
            (by intro c; simp [asFnBody, RBlock.tailKind]) hcode hpool
        | cons s' b'' =>
          have hcode' : CodeAt W.C pos (asFnBody (.cons s' b'') (emitB (.cons s' b'') pos none cs).1) := by
            have : (emitB (.cons (.block (.cons s' b'')) .nil) pos none cs).1 = (emitB (.cons s' b'') pos none cs).1 := by
              simp [emitB, emitS]
            rw [this] at hcode
            simpa [asFnBody, RBlock.tailKind] using hcode
          have hpool' : PoolOK W.s0.cvals (emitB (.cons s' b'') pos none cs).2 := by
            have : (emitB (.cons (.block (.cons s' b'')) .nil) pos none cs).2 = (emitB (.cons s' b'') pos none cs).2 := by
              simp [emitB, emitS]
            rw [this] at hpool; exact hpool
          have h := ih.bf nl Γ Γx Λ _ Γ3 Λ3 hb' st pos cs below fr locs g l hsc hinv hcode' hpool'
          simp only [evalBV]
          exact h
      | letG _ _ _ bb k e hfn hf he => cases hfn
      | letL _ _ _ bb k e hfn hf hk he =>
        exact pbf_novalue hW f ih _ (.letL _ _ _ bb k e hfn hf hk he) hsc hinv (by simp only [evalBV]; exact liftU_eq _ _)
          (by intro c; simp [asFnBody, RBlock.tailKind]) hcode hpool
      | ret _ _ _ e hfn he =>
        have hcode' : CodeAt W.C pos (emitS (.ret e) pos none cs).1 := by
          simpa [asFnBody, RBlock.tailKind, emitB] using hcode
        have hpool' : PoolOK W.s0.cvals (emitS (.ret e) pos none cs).2 := by simpa [emitB] using hpool
        have h := ih.s nl true Γ Γx Λ false (.ret e) Γ Λ (.ret _ _ _ e hfn he) st pos none cs below fr locs #[] g l hsc hinv hcode' hpool'
        have heval : evalBV (f + 1) (.cons (.ret e) .nil) st = liftU (evalS f (.ret e) st) (fun st1 => .val .null st1) := by
          simp only [evalBV]; exact liftU_eq _ _
        rw [heval]
        rcases h with h | h
        · exact .inl h
        refine .inr ?_
        cases hr : evalS f (.ret e) st with
        | val u st1 => exact absurd hr (evalS_ret_not_val f e st st1)
        | ret v st1 => rw [hr] at h; exact h.2
        | brk st1 => rw [hr] at h; exact absurd h.1 (by simp)
        | cont st1 => rw [hr] at h; exact absurd h.1 (by simp)
        | err er st1 => rw [hr] at h; exact h
        | fuel => trivial
        | unspec _ => trivial
    | cons s2 rest2 =>
      have e1 : (emitB (.cons s (.cons s2 rest2)) pos none cs).1 =
          (emitS s pos none cs).1 ++ (emitB (.cons s2 rest2) (pos + sizeS s) none (emitS s pos none cs).2).1 := by rw [emitB]
      have e2 : (emitB (.cons s (.cons s2 rest2)) pos none cs).2 =
          (emitB (.cons s2 rest2) (pos + sizeS s) none (emitS s pos none cs).2).2 := by rw [emitB]
      have hcode' := hcode
      rw [e1, asFnBody_seq] at hcode'
      rw [e2] at hpool
      obtain ⟨hc1, hc2⟩ := hcode'.append
      rw [emitS_size] at hc2
      have hpool1 : PoolOK W.s0.cvals (emitS s pos none cs).2 := hpool.mono (emitB_ext _ _ _ _)
      have h1 := ih.s nl true Γ Γx Λ false s Γ1 Λ1 hs st pos none cs below fr locs #[] g l hsc hinv hc1 hpool1
      obtain ⟨hsc1, ⟨d, hd⟩, ⟨c, hc⟩⟩ := hsc.stepS hs
      have heval : evalBV (f + 1) (.cons s (.cons s2 rest2)) st = liftU (evalS f s st) (fun st1 => evalBV f (.cons s2 rest2) st1) := by
        cases s <;> (simp only [evalBV]; exact liftU_eq _ _)
      rw [heval]
      rcases h1 with h1 | h1
      · exact .inl h1
      cases hr : evalS f s st with
      | val u st1 =>
        rw [hr] at h1
        obtain ⟨locs1, g1, l1, n, hn, hinv1, ho1⟩ := h1
        simp only [bigScope, ↓reduceIte] at hinv1
        have h2 := ih.bf nl Γ1 Γx Λ1 (.cons s2 rest2) Γ2 Λ2 hrest st1 (pos + sizeS s) _ below fr locs1 g1 l1 hsc1 hinv1 hc2 hpool
        exact h2.prefix n hn ho1
      | err er st1 => rw [hr] at h1; exact .inr h1
      | fuel => exact .inr trivial
      | unspec _ => exact .inr trivial
      | brk _ => rw [hr] at h1; exact absurd h1.1 (by simp)
      | cont _ => rw [hr] at h1; exact absurd h1.1 (by simp)
      | ret _ _ => rw [hr] at h1; exact .inr h1.2

end
end SimF
end Nl
