/-
  Formatting / parsing layer of "number → text → number" (part 1 of `FloatText*`).

  * `render sign q p`      : the text `toDecimal` prints for digits `q` and decimal exponent `p`
  * `toDecimal_finite`     : `toDecimal` on a finite non-zero float is such a `render`
  * `parseDec_render`      : the printed text is read back as exactly `ofDecimal neg q p`
  * `ofDecimal_strip`      : `stripTrailingZeros` keeps the denoted float
  * special values         : `NaN`, `inf`, `-inf`, `0`, `-0`
-/
import Nlmodel.Proofs.Lemmas.FloatRound
namespace Nl.F64T
open Nl.F64 Nl.F64R

/-- the text `toDecimal` prints for a sign prefix, digits `q` and decimal exponent `p` -/
def render (sign : List Char) (q : Nat) (p : Int) : List Char :=
  let ds := natToDigits q
  if p ≥ 0 then sign ++ ds ++ List.replicate p.toNat '0'
  else
    let k := (-p).toNat
    if ds.length > k then sign ++ ds.take (ds.length - k) ++ ['.'] ++ ds.drop (ds.length - k)
    else sign ++ "0.".toList ++ List.replicate (k - ds.length) '0' ++ ds

def signText (neg : Bool) : List Char := if neg then ['-'] else []

/-! ### `parseDec` = sign, then `parseTail` -/

/-- body of parseDec after the sign -/
def parseTail (neg : Bool) (s : List Char) : Option Bits :=
  let low := s.map lowerAscii
  if low = "inf".toList || low = "infinity".toList then some (inf neg)
  else if low = "nan".toList then some canonNaN
  else
    let ip := s.takeWhile Char.isDigit
    let r := s.dropWhile Char.isDigit
    let (fp, r) := match r with
      | '.' :: r' => (r'.takeWhile Char.isDigit, r'.dropWhile Char.isDigit)
      | _ => ([], r)
    if ip.isEmpty && fp.isEmpty then none
    else
      let m := digitsToNat (ip ++ fp)
      let e0 : Int := -(fp.length : Int)
      match r with
      | [] => some (ofDecimal neg m e0)
      | c :: r' =>
        if c = 'e' || c = 'E' then
          let (eneg, r'') := match r' with
            | '-' :: t => (true, t)
            | '+' :: t => (false, t)
            | _ => (false, r')
          if r''.isEmpty || !r''.all Char.isDigit then none
          else
            let ev : Int := digitsToNat r''
            let ev := if ev > 100000 then 100000 else ev
            some (ofDecimal neg m (e0 + (if eneg then -ev else ev)))
        else none

theorem parseDec_minus (s : List Char) : parseDec ('-' :: s) = parseTail true s := by rfl
theorem parseDec_plain (c : Char) (r : List Char) (h1 : c ≠ '-') (h2 : c ≠ '+') :
    parseDec (c :: r) = parseTail false (c :: r) := by
  unfold parseDec
  split
  rename_i x0 eneg r'' heq
  have he : eneg = false ∧ r'' = c :: r := by
    split at heq
    · rename_i e; injection e with e _; exact absurd e h1
    · rename_i e; injection e with e _; exact absurd e h2
    · injection heq with e1 e2; exact ⟨e1.symm, e2.symm⟩
  obtain ⟨e1, e2⟩ := he
  subst e1; subst e2
  rfl

/-! ### takeWhile / dropWhile on a run -/

theorem takeWhile_run {α} (p : α → Bool) (l : List α) (d : α) (r : List α) (hl : ∀ c ∈ l, p c = true)
    (hd : p d = false) : (l ++ d :: r).takeWhile p = l := by
  induction l with
  | nil => simp [hd]
  | cons a t ih =>
    have ha : p a = true := hl a (by simp)
    simp only [List.cons_append, List.takeWhile, ha]
    rw [ih (fun c hc => hl c (by simp [hc]))]

theorem dropWhile_run {α} (p : α → Bool) (l : List α) (d : α) (r : List α) (hl : ∀ c ∈ l, p c = true)
    (hd : p d = false) : (l ++ d :: r).dropWhile p = d :: r := by
  induction l with
  | nil => simp [hd]
  | cons a t ih =>
    have ha : p a = true := hl a (by simp)
    simp only [List.cons_append, List.dropWhile, ha]
    rw [ih (fun c hc => hl c (by simp [hc]))]

theorem takeWhile_all {α} (p : α → Bool) (l : List α) (hl : ∀ c ∈ l, p c = true) : l.takeWhile p = l := by
  induction l with
  | nil => rfl
  | cons a t ih =>
    have ha : p a = true := hl a (by simp)
    simp only [List.takeWhile, ha]
    rw [ih (fun c hc => hl c (by simp [hc]))]

theorem dropWhile_all {α} (p : α → Bool) (l : List α) (hl : ∀ c ∈ l, p c = true) : l.dropWhile p = [] := by
  induction l with
  | nil => rfl
  | cons a t ih =>
    have ha : p a = true := hl a (by simp)
    simp only [List.dropWhile, ha]
    rw [ih (fun c hc => hl c (by simp [hc]))]

theorem digit_val (c : Char) (hc : c.isDigit = true) : 48 ≤ c.val.toNat ∧ c.val.toNat ≤ 57 := by
  simp only [Char.isDigit, Bool.and_eq_true, decide_eq_true_eq] at hc
  exact ⟨UInt32.le_iff_toNat_le.1 hc.1, UInt32.le_iff_toNat_le.1 hc.2⟩

theorem char_ne_of_val (c d : Char) (h : c.val.toNat ≠ d.val.toNat) : c ≠ d := by
  intro e; subst e; exact h rfl

theorem digit_ne_minus (c : Char) (hc : c.isDigit = true) : c ≠ '-' :=
  char_ne_of_val _ _ (by have := digit_val c hc; have : ('-' : Char).val.toNat = 45 := rfl; omega)
theorem digit_ne_plus (c : Char) (hc : c.isDigit = true) : c ≠ '+' :=
  char_ne_of_val _ _ (by have := digit_val c hc; have : ('+' : Char).val.toNat = 43 := rfl; omega)
theorem digit_ne_i (c : Char) (hc : c.isDigit = true) : c ≠ 'i' :=
  char_ne_of_val _ _ (by have := digit_val c hc; have : ('i' : Char).val.toNat = 105 := rfl; omega)
theorem digit_ne_n (c : Char) (hc : c.isDigit = true) : c ≠ 'n' :=
  char_ne_of_val _ _ (by have := digit_val c hc; have : ('n' : Char).val.toNat = 110 := rfl; omega)

theorem lower_digit (c : Char) (hc : c.isDigit = true) : lowerAscii c = c := by
  have hv := digit_val c hc
  unfold lowerAscii
  have : ¬ ('A' ≤ c ∧ c ≤ 'Z') := by
    intro ⟨h1, _⟩
    have h1' : 'A'.val ≤ c.val := h1
    have : 65 ≤ c.val.toNat := UInt32.le_iff_toNat_le.1 h1'
    omega
  simp [this]

theorem dot_not_digit : Char.isDigit '.' = false := by decide

/-- `parseTail` on a digit-led text skips the `inf`/`nan` spellings -/
theorem parseTail_frac (neg : Bool) (ip fp : List Char) (hne : ip ≠ [])
    (hip : ∀ c ∈ ip, c.isDigit = true) (hfp : ∀ c ∈ fp, c.isDigit = true) :
    parseTail neg (ip ++ '.' :: fp) = some (ofDecimal neg (digitsToNat (ip ++ fp)) (-(fp.length : Int))) := by
  have t1 := takeWhile_run Char.isDigit ip '.' fp hip dot_not_digit
  have d1 := dropWhile_run Char.isDigit ip '.' fp hip dot_not_digit
  have t2 := takeWhile_all Char.isDigit fp hfp
  have d2 := dropWhile_all Char.isDigit fp hfp
  unfold parseTail
  simp only [t1, d1, t2, d2]
  cases ip with
  | nil => exact absurd rfl hne
  | cons c t =>
    have hc : c.isDigit = true := hip c (by simp)
    have hlow := lower_digit c hc
    have hi := digit_ne_i c hc
    have hn := digit_ne_n c hc
    simp only [List.cons_append, List.map_cons, hlow]
    have n1 : ¬ (c :: List.map lowerAscii (t ++ '.' :: fp) = "inf".toList) := by simp [hi]
    have n2 : ¬ (c :: List.map lowerAscii (t ++ '.' :: fp) = "infinity".toList) := by simp [hi]
    have n3 : ¬ (c :: List.map lowerAscii (t ++ '.' :: fp) = "nan".toList) := by simp [hn]
    simp only [n1, n2, n3, decide_false, Bool.or_false, Bool.false_eq_true, ↓reduceIte, List.isEmpty_cons,
      Bool.false_and]

theorem parseTail_int (neg : Bool) (ip : List Char) (hne : ip ≠ [])
    (hip : ∀ c ∈ ip, c.isDigit = true) :
    parseTail neg ip = some (ofDecimal neg (digitsToNat ip) 0) := by
  have t1 := takeWhile_all Char.isDigit ip hip
  have d1 := dropWhile_all Char.isDigit ip hip
  unfold parseTail
  simp only [t1, d1]
  cases ip with
  | nil => exact absurd rfl hne
  | cons c t =>
    have hc : c.isDigit = true := hip c (by simp)
    have hlow := lower_digit c hc
    have hi := digit_ne_i c hc
    have hn := digit_ne_n c hc
    simp only [List.map_cons, hlow]
    have n1 : ¬ (c :: List.map lowerAscii t = "inf".toList) := by simp [hi]
    have n2 : ¬ (c :: List.map lowerAscii t = "infinity".toList) := by simp [hi]
    have n3 : ¬ (c :: List.map lowerAscii t = "nan".toList) := by simp [hn]
    simp only [n1, n2, n3, decide_false, Bool.or_false, Bool.false_eq_true, ↓reduceIte, List.isEmpty_cons,
      Bool.false_and, List.append_nil, List.length_nil]
    rfl


/-! ### `parseDec` on sign ++ digits [. digits] -/

theorem parseDec_sign_frac (neg : Bool) (ip fp : List Char) (hne : ip ≠ [])
    (hip : ∀ c ∈ ip, c.isDigit = true) (hfp : ∀ c ∈ fp, c.isDigit = true) :
    parseDec (signText neg ++ ip ++ '.' :: fp) =
      some (ofDecimal neg (digitsToNat (ip ++ fp)) (-(fp.length : Int))) := by
  cases neg with
  | true =>
    show parseDec ('-' :: (ip ++ '.' :: fp)) = _
    rw [parseDec_minus]; exact parseTail_frac true ip fp hne hip hfp
  | false =>
    show parseDec (ip ++ '.' :: fp) = _
    rw [← parseTail_frac false ip fp hne hip hfp]
    cases ip with
    | nil => exact absurd rfl hne
    | cons c t =>
      have hc : c.isDigit = true := hip c (by simp)
      exact parseDec_plain c _ (digit_ne_minus c hc) (digit_ne_plus c hc)

theorem parseDec_sign_int (neg : Bool) (ip : List Char) (hne : ip ≠ [])
    (hip : ∀ c ∈ ip, c.isDigit = true) :
    parseDec (signText neg ++ ip) = some (ofDecimal neg (digitsToNat ip) 0) := by
  cases neg with
  | true =>
    show parseDec ('-' :: ip) = _
    rw [parseDec_minus]; exact parseTail_int true ip hne hip
  | false =>
    show parseDec ip = _
    rw [← parseTail_int false ip hne hip]
    cases ip with
    | nil => exact absurd rfl hne
    | cons c t =>
      have hc : c.isDigit = true := hip c (by simp)
      exact parseDec_plain c _ (digit_ne_minus c hc) (digit_ne_plus c hc)

/-! ### digits -/

theorem digitsToNat_fold (ds : List Char) (init : Nat) :
    ds.foldl (fun acc c => acc * 10 + digitVal c) init = Nat.ofDigitChars 10 ds init := by
  induction ds generalizing init with
  | nil => rfl
  | cons c t ih =>
    rw [List.foldl_cons, ih, Nat.ofDigitChars_cons, Nat.mul_comm]
    rfl

theorem digitsToNat_eq (ds : List Char) : digitsToNat ds = Nat.ofDigitChars 10 ds 0 :=
  digitsToNat_fold ds 0

theorem natToDigits_digit (q : Nat) : ∀ c ∈ natToDigits q, c.isDigit = true :=
  fun _ hc => Nat.isDigit_of_mem_toDigits (by decide) (by decide) hc

theorem natToDigits_ne_nil (q : Nat) : natToDigits q ≠ [] := Nat.toDigits_ne_nil

theorem digitsToNat_natToDigits (q : Nat) : digitsToNat (natToDigits q) = q := by
  rw [digitsToNat_eq]; exact Nat.ofDigitChars_ten_toDigits

theorem zero_isDigit : Char.isDigit '0' = true := by decide

theorem replicate_zero_digit (n : Nat) : ∀ c ∈ List.replicate n '0', c.isDigit = true := by
  intro c hc
  rw [List.eq_of_mem_replicate hc]; exact zero_isDigit


/-! ### the three shapes of `render` -/

theorem ofDecimal_scale (neg : Bool) (q n : Nat) (p : Int) (hp : p ≥ 0) (hn : n = p.toNat) :
    ofDecimal neg (10 ^ n * q) 0 = ofDecimal neg q p := by
  subst hn
  by_cases hq : q = 0
  · subst hq; simp [ofDecimal]
  · have h10 : 0 < 10 ^ p.toNat := Nat.pos_of_ne_zero (by simp)
    have hne : 10 ^ p.toNat * q ≠ 0 := Nat.mul_ne_zero (by omega) hq
    unfold ofDecimal
    simp only [hne, hq, ↓reduceIte, hp, ge_iff_le, Int.le_refl, Int.toNat_zero, Nat.pow_zero, Nat.mul_one]
    rw [Nat.mul_comm]

theorem parseDec_render_nonneg (neg : Bool) (q : Nat) (p : Int) (hp : p ≥ 0) :
    parseDec (signText neg ++ natToDigits q ++ List.replicate p.toNat '0') = some (ofDecimal neg q p) := by
  rw [List.append_assoc, parseDec_sign_int neg _ (by simp [natToDigits_ne_nil])]
  · rw [digitsToNat_eq, Nat.ofDigitChars_append, Nat.ofDigitChars_replicate_zero, ← digitsToNat_eq,
      digitsToNat_natToDigits, ofDecimal_scale neg q _ p hp rfl]
  · intro c hc
    rcases List.mem_append.1 hc with h | h
    · exact natToDigits_digit q c h
    · exact replicate_zero_digit _ c h

theorem parseDec_render_split (neg : Bool) (q : Nat) (p : Int) (hp : ¬ p ≥ 0)
    (hk : (natToDigits q).length > (-p).toNat) :
    parseDec (signText neg ++ (natToDigits q).take ((natToDigits q).length - (-p).toNat) ++ ['.'] ++
      (natToDigits q).drop ((natToDigits q).length - (-p).toNat)) = some (ofDecimal neg q p) := by
  generalize hds : natToDigits q = ds at hk ⊢
  have hd : ∀ c ∈ ds, c.isDigit = true := hds ▸ natToDigits_digit q
  have e : signText neg ++ ds.take (ds.length - (-p).toNat) ++ ['.'] ++ ds.drop (ds.length - (-p).toNat)
      = signText neg ++ ds.take (ds.length - (-p).toNat) ++ '.' :: ds.drop (ds.length - (-p).toNat) := by
    simp
  rw [e, parseDec_sign_frac neg _ _ ?_ (fun c hc => hd c (List.mem_of_mem_take hc))
    (fun c hc => hd c (List.mem_of_mem_drop hc))]
  · rw [List.take_append_drop, ← hds, digitsToNat_natToDigits, List.length_drop]
    have : (-((natToDigits q).length - ((natToDigits q).length - (-p).toNat) : Nat) : Int) = p := by
      rw [hds]; omega
    rw [this]
  · intro h
    have := congrArg List.length h
    rw [List.length_take] at this
    simp only [List.length_nil] at this
    omega

theorem parseDec_render_small (neg : Bool) (q : Nat) (p : Int) (hp : ¬ p ≥ 0)
    (hk : ¬ (natToDigits q).length > (-p).toNat) :
    parseDec (signText neg ++ "0.".toList ++ List.replicate ((-p).toNat - (natToDigits q).length) '0' ++
      natToDigits q) = some (ofDecimal neg q p) := by
  have e : signText neg ++ "0.".toList ++ List.replicate ((-p).toNat - (natToDigits q).length) '0' ++
      natToDigits q = signText neg ++ ['0'] ++
        '.' :: (List.replicate ((-p).toNat - (natToDigits q).length) '0' ++ natToDigits q) := by
    have : "0.".toList = ['0', '.'] := rfl
    rw [this]; simp
  rw [e, parseDec_sign_frac neg ['0'] _ (by simp) (by intro c hc; simp at hc; subst hc; exact zero_isDigit)]
  · have hm : digitsToNat (['0'] ++
        (List.replicate ((-p).toNat - (natToDigits q).length) '0' ++ natToDigits q)) = q := by
      rw [digitsToNat_eq, Nat.ofDigitChars_append, Nat.ofDigitChars_append, Nat.ofDigitChars_replicate_zero]
      have : Nat.ofDigitChars 10 ['0'] 0 = 0 := by decide
      rw [this, Nat.mul_zero, ← digitsToNat_eq, digitsToNat_natToDigits]
    rw [hm, List.length_append, List.length_replicate]
    have : (-(((-p).toNat - (natToDigits q).length + (natToDigits q).length : Nat)) : Int) = p := by omega
    rw [this]
  · intro c hc
    rcases List.mem_append.1 hc with h | h
    · exact replicate_zero_digit _ c h
    · exact natToDigits_digit q c h

set_option linter.unusedVariables false in
/-- MAIN: the printed text is read back as exactly the decimal it denotes
    (`hq` is not needed: for `q = 0` both sides are the signed zero) -/
theorem parseDec_render (neg : Bool) (q : Nat) (p : Int) (hq : 0 < q) :
    parseDec (render (signText neg) q p) = some (ofDecimal neg q p) := by
  unfold render
  by_cases hp : p ≥ 0
  · simp only [hp, ↓reduceIte]; exact parseDec_render_nonneg neg q p hp
  · simp only [hp, ↓reduceIte]
    by_cases hk : (natToDigits q).length > (-p).toNat
    · simp only [hk, ↓reduceIte]; exact parseDec_render_split neg q p hp hk
    · simp only [hk, ↓reduceIte]; exact parseDec_render_small neg q p hp hk


/-! ### `toDecimal` is a `render` -/

/-- toDecimal on a finite non-zero float -/
theorem toDecimal_finite (x : Bits) (h1 : isNaN x = false) (h2 : isInf x = false) (h3 : isZero x = false) :
    toDecimal x = render (signText (isNeg x))
      (stripTrailingZeros (shortest x).1 (shortest x).2 20).1
      (stripTrailingZeros (shortest x).1 (shortest x).2 20).2 := by
  unfold toDecimal render signText
  simp only [h1, h2, h3, Bool.false_eq_true, ↓reduceIte]

/-! ### stripping trailing zeros -/

theorem ofDecimal_div10 (neg : Bool) (q : Nat) (p : Int) (hq : q ≠ 0) (h10 : q % 10 = 0) :
    ofDecimal neg (q / 10) (p + 1) = ofDecimal neg q p := by
  obtain ⟨r, rfl⟩ : ∃ r, q = 10 * r := ⟨q / 10, by omega⟩
  have hr : r ≠ 0 := by intro h; subst h; exact hq rfl
  have e : 10 * r / 10 = r := by omega
  rw [e]
  clear e h10
  have hpos : ∀ k, 0 < 10 ^ k := fun k => Nat.pos_of_ne_zero (by simp)
  unfold ofDecimal
  simp only [hr, hq, ↓reduceIte]
  by_cases hp : p ≥ 0
  · have hp1 : p + 1 ≥ 0 := by omega
    have : (p + 1).toNat = p.toNat + 1 := by omega
    simp only [hp, hp1, ↓reduceIte, this, Nat.pow_succ]
    congr 1
    rw [Nat.mul_comm (10 ^ p.toNat) 10, ← Nat.mul_assoc, Nat.mul_comm r 10]
  · by_cases hp1 : p + 1 ≥ 0
    · have hz' : (-p).toNat = 1 := by omega
      have hz'' : (p + 1).toNat = 0 := by omega
      rw [if_pos hp1, if_neg hp, hz', hz'']
      unfold ofRat
      rw [roundMag_congr (n := r * 10 ^ 0) (d := 1) (n' := 10 * r) (d' := 10 ^ 1) (by omega) (by omega)
        (by omega)]
    · have ht : (-p).toNat = (-(p + 1)).toNat + 1 := by omega
      rw [if_neg hp1, if_neg hp, ht]
      generalize (-(p + 1)).toNat = j
      unfold ofRat
      rw [roundMag_congr (n := r) (d := 10 ^ j) (n' := 10 * r) (d' := 10 ^ (j + 1)) (hpos _) (hpos _)]
      rw [Nat.pow_succ, Nat.mul_comm (10 ^ j) 10, ← Nat.mul_assoc, Nat.mul_comm r 10]

/-- stripping trailing zeros does not change the denoted float -/
theorem ofDecimal_strip (neg : Bool) (q : Nat) (p : Int) (f : Nat) :
    ofDecimal neg (stripTrailingZeros q p f).1 (stripTrailingZeros q p f).2 = ofDecimal neg q p := by
  induction f generalizing q p with
  | zero => rfl
  | succ f ih =>
    unfold stripTrailingZeros
    by_cases h : (q ≠ 0 && q % 10 = 0) = true
    · rw [if_pos h, ih]
      simp only [ne_eq, Bool.and_eq_true, decide_eq_true_eq] at h
      exact ofDecimal_div10 neg q p h.1 h.2
    · rw [if_neg h]

theorem strip_pos (q : Nat) (p : Int) (f : Nat) (hq : 0 < q) : 0 < (stripTrailingZeros q p f).1 := by
  induction f generalizing q p with
  | zero => exact hq
  | succ f ih =>
    unfold stripTrailingZeros
    by_cases h : (q ≠ 0 && q % 10 = 0) = true
    · rw [if_pos h]
      simp only [ne_eq, Bool.and_eq_true, decide_eq_true_eq] at h
      exact ih _ _ (by omega)
    · rw [if_neg h]; exact hq

/-! ### special values -/

theorem toDecimal_nan (x : Bits) (h : isNaN x = true) : toDecimal x = "NaN".toList := by
  unfold toDecimal; simp only [h, ↓reduceIte]

theorem toDecimal_inf (x : Bits) (h1 : isNaN x = false) (h2 : isInf x = true) :
    toDecimal x = if isNeg x then "-inf".toList else "inf".toList := by
  unfold toDecimal; simp only [h1, h2, Bool.false_eq_true, ↓reduceIte]

theorem toDecimal_zero (x : Bits) (h1 : isNaN x = false) (h2 : isInf x = false) (h3 : isZero x = true) :
    toDecimal x = signText (isNeg x) ++ ['0'] := by
  unfold toDecimal signText; simp only [h1, h2, h3, Bool.false_eq_true, ↓reduceIte]

theorem parseDec_NaN : parseDec "NaN".toList = some canonNaN := by decide
theorem parseDec_inf : parseDec "inf".toList = some (inf false) := by decide
theorem parseDec_neg_inf : parseDec "-inf".toList = some (inf true) := by decide
theorem parseDec_zero (neg : Bool) : parseDec (signText neg ++ ['0']) = some (zero neg) := by
  cases neg <;> decide

end Nl.F64T
