"""shared body of the differential checks C09-C12: run generated programs on the implementation,
the definitional semantics and the machine model; report and shrink disagreements."""
from .. import core, diff


def run_cases(res, pid, cases, budget=300000, extra_oracle=None, max_reports=4):
    """cases: list of (label, source).  extra_oracle(label, src, result_dict) -> str|None"""
    rs = diff.eval_all([c[1] for c in cases], budget=budget)
    reported = 0
    for (label, src), r in zip(cases, rs):
        kind, detail = diff.classify(r)
        res.seen(src, nontrivial=(kind == "ok"))
        res.count(label)
        res.count("outcome:" + kind)
        extra = extra_oracle(label, src, r) if extra_oracle else None
        if extra and reported < max_reports:
            reported += 1
            res.violation(extra, dict(kind="oracle", input=src, impl=r["impl"], spec=r["spec"], model=r["model"], generator=label))
            continue
        if kind in ("spec-mismatch", "impl-bad", "model-mismatch") and reported < max_reports:
            reported += 1

            def still(s, kind=kind):
                return diff.classify(diff.one(s, budget, per_request_timeout=20.0))[0] == kind
            small = diff.shrink_lines(src, still, max_rounds=60) if len(src) < 4000 else src
            rr = diff.one(small, budget)
            if diff.classify(rr)[0] != kind:
                small, rr = src, r
            what = {"spec-mismatch": "evaluation differs from the definitional semantics of the source",
                    "impl-bad": "evaluation crashed, faulted or corrupted the heap",
                    "model-mismatch": "the machine model no longer corresponds to vm.rs/compiler.rs"}[kind]
            res.violation(what, dict(kind=kind, input=small, original=src if small != src else None, impl=rr["impl"],
                                     spec=rr.get("spec"), model=rr["model"], detail=diff.classify(rr)[1], generator=label,
                                     unchecked="correspondence of the pipeline model (theorems of Proofs/%s)" % pid),
                          no_input=(kind == "model-mismatch"))
    return rs


def generic_replay(pid):
    def replay(res, rp):
        inp = rp["input"]
        if isinstance(inp, list):
            outs = [diff.obs(diff.one(s)["impl"]) for s in inp]
            print(outs)
            if len(set(outs)) != 1:
                print("VIOLATION property=%s replay=replay" % pid)
                return 1
            return 0
        r = diff.one(inp)
        kind, detail = diff.classify(r)
        print("replay:", kind, detail)
        print(" impl :", r["impl"][:300])
        print(" spec :", (r.get("spec") or "")[:300])
        print(" model:", r["model"][:300])
        if kind in ("spec-mismatch", "impl-bad", "model-mismatch"):
            print("VIOLATION property=%s replay=replay" % pid)
            return 1
        return 0
    return replay
