/- Stage 3 of the forward simulation on a RETAINED machine and a retained symbol table (C17): one line of
   a session in the control-flow fragment simulates the definitional semantics run on the carried state. -/
import Nlmodel.Proofs.Lemmas.SimCtlProg
import Nlmodel.Proofs.Lemmas.ResolveCtl
import Nlmodel.Model.Session
namespace Nl
namespace Sim
open Spec

/-- ONE LINE ON A RETAINED MACHINE: a program of the fragment, well-scoped in the scope `Γ` that earlier
    lines left, compiled on its own and run by `VM.run` on a machine whose globals realise the
    definitional state `st` (`Rel Γ st prev.globals`) -/
theorem ctl_line (Γ Γ' : Gam) (p : RBlock) (hx : XB Γ false p Γ') (hok : GamOK Γ) (prev : VM) (st : SState)
    (hrel : Rel Γ st prev.globals) (hlast : st.last = .null) (bc : Bytecode) (hc : compileR p = .ok bc) (F : Nat) :
    match evalB F p st with
    | .val () st' => ∃ mv n s', toVal st'.last = some mv ∧ st'.out = st.out ∧ Rel Γ' st' s'.globals ∧ s'.out = [] ∧
        ∀ k, runSteps bc.code (n + k) (prev.start bc) = .value mv s'
    | .err er _ => ∃ n, ∀ k, ∃ s', runSteps bc.code (n + k) (prev.start bc) = .error er s'
    | .brk _ => False
    | .cont _ => False
    | .ret _ _ => False
    | _ => True := by
  obtain ⟨hcode, hconsts, hwf⟩ := compile_general p bc hc
  have hall : CodeAt bc.code 0 ((emitB p 0 none []).1 ++ [.halt]) := ⟨hwf, [], [], by simp [hcode], rfl⟩
  obtain ⟨h1, hhalt⟩ := hall.append
  have hpool : PoolOK (prev.start bc).cvals (emitB p 0 none []).2 := by
    rw [← hconsts]; exact start_pool bc prev
  have hstart : setv (prev.start bc) 0 #[] prev.globals .null = prev.start bc := by
    simp [setv, VM.start]
  have hsim := (pall F).b Γ false p Γ' hx hok st 0 none [] bc.code (prev.start bc) #[] prev.globals .null h1 hpool
    hrel (by simp [LastRel, toVal, hlast])
  cases hr : evalB F p st with
  | val u st' =>
    rw [hr] at hsim
    obtain ⟨g', l', n, hn, hrel', hlast', hout, _⟩ := hsim
    rw [hstart] at hn
    simp only
    refine ⟨l', n + 1, setv (prev.start bc) (sizeB p + 1) #[] g' l', hlast', hout, hrel', by simp [setv, VM.start], ?_⟩
    simp only [emitB_size, Nat.zero_add] at hhalt hn
    have hs : step bc.code (setv (prev.start bc) (sizeB p) #[] g' l') = .halt l' (setv (prev.start bc) (sizeB p + 1) #[] g' l') := by
      rw [step_exec hhalt]; rfl
    intro k
    exact run_halt bc.code n _ _ l' _ hn hs k
  | err er st' =>
    rw [hr] at hsim
    obtain ⟨n, s1, s2, hn, hs⟩ := hsim
    rw [hstart] at hn
    simp only
    exact ⟨n + 1, fun k => ⟨s2, run_error bc.code n _ s1 er s2 hn hs k⟩⟩
  | fuel => trivial
  | brk _ => rw [hr] at hsim; exact absurd hsim.1 (by simp)
  | cont _ => rw [hr] at hsim; exact absurd hsim.1 (by simp)
  | ret _ _ => rw [hr] at hsim; exact hsim
  | unspec _ => trivial

/-! ### sessions -/

/-- what the retained compiler and machine share with the definitional state between two lines -/
structure SInv (s : Session) (st : SState) (sc : List (Text × Nat)) : Prop where
  inv : Inv3 s.rs [sc]
  ok : GamOK (G [sc])
  rel : Rel (G [sc]) st s.vm.globals

theorem sinv_start : SInv {} {} [] :=
  ⟨⟨⟨0, rfl⟩, by intro p hp; simp at hp⟩, by simp [G, slotsOf, GamOK], by intro b k hm; simp [G, slotsOf] at hm⟩

theorem tree_scalar (sst : SState) (h : Heap) (v : SVal) (mv : Value) (hv : toVal v = some mv) :
    h.tree treeDepth [] mv = sst.tree treeDepth [] v := by
  cases v <;> simp [toVal] at hv <;> subst hv <;> rfl

/-- ONE LINE OF A SESSION in the control-flow fragment: if the definitional semantics, run on the
    carried state (with the `last` register cleared, as the machine's is at the start of a run), gives a
    value, the session answers with exactly that value for every large enough budget, and the
    invariant linking symbol table, machine globals and definitional state holds again; an error of
    the semantics is the session's error -/
theorem session_line (cc : CharClass) (s : Session) (st : SState) (sc : List (Text × Nat)) (hs : SInv s st sc)
    (src : Text) (ast : Block) (hp : parse cc src = .ok ast) (hsb : SB false ast)
    (r : RBlock) (rs' : RState) (hres : resolveSs ast { s.rs with loopDepth := 0, funcDepth := 0 } = .ok (r, rs'))
    (bc : Bytecode) (hc : compileR r = .ok bc) (F : Nat) :
    match evalB F r { st with last := .null } with
    | .val () st' => ∃ n sc' s', s'.rs = rs' ∧ SInv s' st' sc' ∧ ∀ k, s.line cc (n + k) src = (s', .value (st'.tree treeDepth [] st'.last) [])
    | .err er _ => ∃ n, ∀ k, ∃ s' out, s.line cc (n + k) src = (s', .error er out)
    | .brk _ => False
    | .cont _ => False
    | .ret _ _ => False
    | _ => True := by
  have hinv0 : Inv3 { s.rs with loopDepth := 0, funcDepth := 0 } [sc] := ⟨hs.inv.shape, hs.inv.fresh⟩
  obtain ⟨sc', hxb, hinv'⟩ := rSs ast false sc [] _ r rs' hsb hinv0 hres
  have hok' := (xb_scope r hxb hs.ok).1
  have hrel0 : Rel (G [sc]) { st with last := .null } s.vm.globals := hs.rel
  have hline := ctl_line (G [sc]) (G [sc']) r hxb hs.ok s.vm { st with last := .null } hrel0 rfl bc hc F
  cases hr : evalB F r { st with last := .null } with
  | val u st' =>
    rw [hr] at hline
    obtain ⟨mv, n, sf, hmv, _, hrel', ho, hrun⟩ := hline
    refine ⟨n, sc', { rs := rs', vm := finishValue mv sf }, rfl, ⟨hinv', hok', hrel'⟩, fun k => ?_⟩
    simp only [Session.line, hp, hres, hc, VM.run, hrun k]
    have e1 : (finishValue mv sf).out = [] := ho
    rw [tree_scalar st' _ st'.last mv hmv, e1]
  | err er st' =>
    rw [hr] at hline
    obtain ⟨n, hrun⟩ := hline
    refine ⟨n, fun k => ?_⟩
    obtain ⟨sf, hsf⟩ := hrun k
    exact ⟨{ rs := rs', vm := finishError sf }, (finishError sf).out, by simp only [Session.line, hp, hres, hc, VM.run, hsf]⟩
  | fuel => trivial
  | brk _ => rw [hr] at hline; exact hline
  | cont _ => rw [hr] at hline; exact hline
  | ret _ _ => rw [hr] at hline; exact hline
  | unspec _ => trivial

/-- the DEFINITIONAL session: every line is parsed, resolved on the carried symbol table and evaluated by
    the definitional semantics on the carried definitional state; `asts` the parsed lines, `rbs` their resolved trees, the state after the last line, and `ts` the values of the lines -/
inductive SpecRun (cc : CharClass) (F : Nat) : RState → SState → List Text → List Block → List RBlock → SState → List Tree → Prop where
  | nil (rs : RState) (st : SState) : SpecRun cc F rs st [] [] [] st []
  | cons (rs rs' : RState) (st st' stEnd : SState) (src : Text) (rest : List Text) (ast : Block) (asts : List Block) (r : RBlock)
      (rbs : List RBlock) (bc : Bytecode) (ts : List Tree) :
      parse cc src = .ok ast → SB false ast →
      resolveSs ast { rs with loopDepth := 0, funcDepth := 0 } = .ok (r, rs') → compileR r = .ok bc →
      evalB F r { st with last := .null } = .val () st' →
      SpecRun cc F rs' st' rest asts rbs stEnd ts →
      SpecRun cc F rs st (src :: rest) (ast :: asts) (r :: rbs) stEnd (st'.tree treeDepth [] st'.last :: ts)

/-- A WHOLE SESSION in the control-flow fragment: whatever values the definitional session gives, line by
    line on the carried state, the real session (one retained compiler, one retained machine) gives
    exactly those values, for every large enough instruction budget -/
theorem session_lines (cc : CharClass) (F : Nat) (rs : RState) (st : SState) (srcs : List Text) (asts : List Block) (rbs : List RBlock)
    (stEnd : SState) (ts : List Tree) (h : SpecRun cc F rs st srcs asts rbs stEnd ts) :
    ∀ (s : Session) (sc : List (Text × Nat)), s.rs = rs → SInv s st sc →
      ∃ n, ∀ k, Session.lines cc (n + k) s srcs = ts.map (fun t => Obs.value t []) := by
  induction h with
  | nil rs st => intro s sc _ _; exact ⟨0, fun k => rfl⟩
  | cons rs rs' st st' stEnd src rest ast asts r rbs bc ts hp hsb hres hc hev _ ih =>
    intro s sc hrs hs
    subst hrs
    have h1 := session_line cc s st sc hs src ast hp hsb r rs' hres bc hc F
    rw [hev] at h1
    obtain ⟨n1, sc', s1, hrs1, hs1, h1⟩ := h1
    obtain ⟨n2, h2⟩ := ih s1 sc' hrs1 hs1
    refine ⟨max n1 n2, fun k => ?_⟩
    have e1 : max n1 n2 + k = n1 + (max n1 n2 - n1 + k) := by have := Nat.le_max_left n1 n2; omega
    have e2 : max n1 n2 + k = n2 + (max n1 n2 - n2 + k) := by have := Nat.le_max_right n1 n2; omega
    simp only [Session.lines, List.map_cons]
    rw [e1, h1 (max n1 n2 - n1 + k)]
    simp only
    rw [← e1, e2, h2 (max n1 n2 - n2 + k)]

end Sim
end Nl
