-- DESIGN NOTE, NOT PART OF THE MACHINERY.
-- Feasibility prototype for C02 (DESIGN.md section 2.4 and C02): a bytecode checker with a certificate of
-- (owner function, LOWER BOUND on operand height) per instruction, and the proof that a checked program never
-- reaches a `fault` (pop of an empty stack, fetch outside the code, local slot outside the stack, return without a
-- caller, base-pointer underflow) for any number of steps: `C02_check_sound_mini`.
-- What carries over: `Res` separates `fault` (out-of-contract access) from `err` (language-level error value);
-- `Inv` = certificate entry at pc + height bound + `FramesOK` (each suspended activation can take the pending
-- result) + `ValOK` (every function value in the machine is a checked entry with its locals count);
-- the checker must bound the certificate by the code length; the dynamic check `argc <= nlocals` (repair F15) is
-- what makes `Call` safe for a callee that is only known at run time.
-- Lean 4.33.0 core only; axioms: [propext, Quot.sound]. The closing `example` is a non-vacuity check.

namespace Verif

inductive Instr where
  | push (n : Int) | pop | add | jump (t : Nat) | jif (t : Nat)
  | getl (k : Nat) | setl (k : Nat) | constfn (ip nl : Nat) | call (argc : Nat) | retv | halt
  deriving Repr, DecidableEq

inductive Val where | int (n : Int) | null | fn (ip nl : Nat)
  deriving Repr, DecidableEq

structure St where
  pc : Nat
  stk : List Val            -- bottom first, as in vm.rs
  bp : Nat
  frames : List (Nat × Nat) -- saved (return pc, base pointer)

/-- `fault` = an access vm.rs performs unchecked (or by panicking); `err` = a language-level error value -/
inductive Res where | next (s : St) | halted | err | fault

def pop1 (stk : List Val) : Option (Val × List Val) :=
  match stk.getLast? with
  | some v => some (v, stk.dropLast)
  | none => none

def step (code : List Instr) (s : St) : Res :=
  match code[s.pc]? with
  | none => .fault                                   -- fetch outside the code
  | some i =>
    match i with
    | .push n => .next { s with pc := s.pc + 1, stk := s.stk ++ [.int n] }
    | .constfn ip nl => .next { s with pc := s.pc + 1, stk := s.stk ++ [.fn ip nl] }
    | .pop =>
      match pop1 s.stk with
      | some (_, st1) => .next { s with pc := s.pc + 1, stk := st1 }
      | none => .fault                               -- pop of an empty stack
    | .add =>
      match pop1 s.stk with
      | none => .fault
      | some (b, st1) =>
        match pop1 st1 with
        | none => .fault
        | some (a, st2) =>
          match a, b with
          | .int x, .int y => .next { s with pc := s.pc + 1, stk := st2 ++ [.int (x + y)] }
          | _, _ => .err
    | .jump t => .next { s with pc := t }
    | .jif t =>
      match pop1 s.stk with
      | none => .fault
      | some (.int n, st1) => .next { s with pc := if n != 0 then s.pc + 1 else t, stk := st1 }
      | some (_, _) => .err
    | .getl k =>
      match s.stk[s.bp + k]? with
      | some v => .next { s with pc := s.pc + 1, stk := s.stk ++ [v] }
      | none => .fault                               -- local slot outside the stack
    | .setl k =>
      match pop1 s.stk with
      | none => .fault
      | some (v, st1) =>
        if s.bp + k < st1.length then .next { s with pc := s.pc + 1, stk := st1.set (s.bp + k) v }
        else .fault
    | .call argc =>
      match pop1 s.stk with
      | none => .fault
      | some (.fn ip nl, st1) =>
        if st1.length < argc then .fault             -- base pointer would underflow
        else if nl < argc then .err                  -- repaired vm.rs (F15): too many arguments
        else .next { pc := ip, stk := st1 ++ List.replicate (nl - argc) .null,
                     bp := st1.length - argc, frames := (s.pc + 1, s.bp) :: s.frames }
      | some (_, _) => .err
    | .retv =>
      match pop1 s.stk, s.frames with
      | none, _ => .fault
      | some _, [] => .fault                         -- return with no caller (popframe on frame 0)
      | some (v, _), (rpc, rbp) :: fs =>
        if s.stk.length < s.bp then .fault
        else .next { pc := rpc, stk := s.stk.take s.bp ++ [v], bp := rbp, frames := fs }
    | .halt => .halted

-- ===================== certificate and checker =====================

structure Cert where
  ent : List (Option (Nat × Nat))   -- per pc: (owner = entry pc of the enclosing function, 0 for main; lower bound on operand height)
  fns : List (Nat × Nat)           -- (entry pc, number of local slots)

def Cert.get (c : Cert) (pc : Nat) : Option (Nat × Nat) :=
  match c.ent[pc]? with
  | some (some x) => some x
  | _ => none

def Cert.nl (c : Cert) (o : Nat) : Nat :=
  match c.fns.find? (fun p => p.1 == o) with
  | some p => p.2
  | none => 0

/-- successor `pc'` belongs to the same function and promises no more than we can deliver -/
def succOK (c : Cert) (pc' o h : Nat) : Bool :=
  match c.get pc' with
  | some (o', h') => o' == o && decide (h' ≤ h)
  | none => false

def checkInstr (c : Cert) (pc : Nat) (i : Instr) (o h : Nat) : Bool :=
  match i with
  | .push _ => succOK c (pc + 1) o (h + 1)
  | .constfn ip nl => succOK c (pc + 1) o (h + 1) && c.fns.contains (ip, nl)
  | .pop => decide (1 ≤ h) && succOK c (pc + 1) o (h - 1)
  | .add => decide (2 ≤ h) && succOK c (pc + 1) o (h - 1)
  | .jump t => succOK c t o h
  | .jif t => decide (1 ≤ h) && succOK c (pc + 1) o (h - 1) && succOK c t o (h - 1)
  | .getl k => decide (k < c.nl o) && succOK c (pc + 1) o (h + 1)
  | .setl k => decide (1 ≤ h) && decide (k < c.nl o) && succOK c (pc + 1) o (h - 1)
  | .call argc => decide (argc + 1 ≤ h) && succOK c (pc + 1) o (h - argc)
  | .retv => decide (1 ≤ h) && decide (o ≠ 0)
  | .halt => decide (o = 0)

def check (code : List Instr) (c : Cert) : Bool :=
  decide (c.ent.length ≤ code.length) &&
  (c.get 0 == some (0, 0)) &&
  c.fns.all (fun p => p.1 != 0 && (c.get p.1 == some (p.1, 0)) && (c.nl p.1 == p.2)) &&
  (List.range code.length).all (fun pc =>
    match code[pc]?, c.get pc with
    | some i, some (o, h) => checkInstr c pc i o h
    | _, _ => true)


-- ===================== soundness =====================

def ValOK (c : Cert) : Val → Prop
  | .fn ip nl => ip ≠ 0 ∧ c.get ip = some (ip, 0) ∧ c.nl ip = nl
  | _ => True

/-- every suspended activation can take the pending result: its recorded height at the return address fits under
the callee's base plus one -/
inductive FramesOK (c : Cert) : List (Nat × Nat) → Nat → Nat → Prop where
  | main : FramesOK c [] 0 0
  | frame {rpc rbp fs bp o o' h'} : o ≠ 0 → c.get rpc = some (o', h') → rbp + c.nl o' + h' ≤ bp + 1 →
      FramesOK c fs rbp o' → FramesOK c ((rpc, rbp) :: fs) bp o

def Inv (c : Cert) (s : St) : Prop :=
  ∃ o h, c.get s.pc = some (o, h) ∧ s.bp + c.nl o + h ≤ s.stk.length ∧
    FramesOK c s.frames s.bp o ∧ ∀ v ∈ s.stk, ValOK c v

theorem pop1_of_pos (stk : List Val) (h : 0 < stk.length) :
    ∃ v st1, pop1 stk = some (v, st1) ∧ stk = st1 ++ [v] := by
  have hne : stk ≠ [] := by intro h0; simp [h0] at h
  refine ⟨stk.getLast hne, stk.dropLast, ?_, (List.dropLast_concat_getLast hne).symm⟩
  simp [pop1, List.getLast?_eq_some_getLast hne]

theorem succOK_elim {c : Cert} {pc' o h : Nat} (hs : succOK c pc' o h = true) :
    ∃ h', c.get pc' = some (o, h') ∧ h' ≤ h := by
  unfold succOK at hs
  cases hg : c.get pc' with
  | none => simp [hg] at hs
  | some p =>
    obtain ⟨o', h'⟩ := p
    simp only [hg, Bool.and_eq_true, beq_iff_eq, decide_eq_true_eq] at hs
    exact ⟨h', by rw [hs.1], hs.2⟩

theorem valOK_of_mem {c : Cert} {stk st1 : List Val} {v : Val} (hv : ∀ x ∈ stk, ValOK c x) (he : stk = st1 ++ [v]) :
    (∀ x ∈ st1, ValOK c x) ∧ ValOK c v := by
  subst he
  exact ⟨fun x hx => hv x (by simp [hx]), hv v (by simp)⟩

section
variable {code : List Instr} {c : Cert} (hck : check code c = true)
include hck

theorem check_main : c.get 0 = some (0, 0) := by
  simp only [check, Bool.and_eq_true, beq_iff_eq] at hck
  exact hck.1.1.2

theorem check_in_code {pc : Nat} {x : Nat × Nat} (hg : c.get pc = some x) : pc < code.length := by
  simp only [check, Bool.and_eq_true, decide_eq_true_eq] at hck
  have h1 := hck.1.1.1
  unfold Cert.get at hg
  by_cases hlt : pc < c.ent.length
  · omega
  · simp [List.getElem?_eq_none (by omega : c.ent.length ≤ pc)] at hg

theorem check_fn {ip nl : Nat} (hm : (ip, nl) ∈ c.fns) : ip ≠ 0 ∧ c.get ip = some (ip, 0) ∧ c.nl ip = nl := by
  simp only [check, Bool.and_eq_true, List.all_eq_true] at hck
  have := hck.1.2 (ip, nl) hm
  simp at this; exact ⟨this.1.1, this.1.2, this.2⟩

theorem check_instr {pc : Nat} {i : Instr} {o h : Nat} (hi : code[pc]? = some i) (hg : c.get pc = some (o, h)) :
    checkInstr c pc i o h = true := by
  simp only [check, Bool.and_eq_true, List.all_eq_true] at hck
  have hlt : pc < code.length := by
    by_cases hlt : pc < code.length
    · exact hlt
    · simp [List.getElem?_eq_none (by omega : code.length ≤ pc)] at hi
  have := hck.2 pc (List.mem_range.2 hlt)
  simpa [hi, hg] using this

theorem nl_main : c.nl 0 = 0 := by
  unfold Cert.nl
  cases hf : c.fns.find? (fun p => p.1 == 0) with
  | none => rfl
  | some p =>
    have hm := List.mem_of_find?_eq_some hf
    have hp := List.find?_some hf
    have := (check_fn hck (ip := p.1) (nl := p.2) hm).1
    simp at hp; exact absurd hp this

theorem init_inv : Inv c ⟨0, [], 0, []⟩ :=
  ⟨0, 0, check_main hck, by simp [nl_main hck], .main, by simp⟩


/-- progress and preservation: a checked program never performs an out-of-contract access -/
theorem sound (s : St) (hinv : Inv c s) :
    match step code s with
    | .fault => False
    | .next s' => Inv c s'
    | _ => True := by
  obtain ⟨pc, stk, bp, frames⟩ := s
  obtain ⟨o, h, hg, hlen, hfr, hval⟩ := hinv
  simp only at hg hlen hfr hval
  have hpc := check_in_code hck hg
  have hi : code[pc]? = some code[pc] := List.getElem?_eq_getElem hpc
  have hchk := check_instr hck hi hg
  unfold step
  rw [hi]
  generalize code[pc] = i at hchk ⊢
  cases i <;> dsimp only
  case push n =>
    simp only [checkInstr] at hchk
    obtain ⟨h', hg', hle⟩ := succOK_elim hchk
    refine ⟨o, h', hg', by simp; omega, hfr, ?_⟩
    intro v hv; simp at hv; cases hv with
    | inl hv => exact hval v hv
    | inr hv => subst hv; trivial
  case constfn ip nl =>
    simp only [checkInstr, Bool.and_eq_true, List.contains_iff_mem] at hchk
    obtain ⟨h', hg', hle⟩ := succOK_elim hchk.1
    refine ⟨o, h', hg', by simp; omega, hfr, ?_⟩
    intro v hv; simp at hv; cases hv with
    | inl hv => exact hval v hv
    | inr hv => subst hv; exact check_fn hck hchk.2
  case pop =>
    simp only [checkInstr, Bool.and_eq_true, decide_eq_true_eq] at hchk
    obtain ⟨h', hg', hle⟩ := succOK_elim hchk.2
    obtain ⟨v, st1, hp, he⟩ := pop1_of_pos stk (by omega)
    rw [hp]
    have hl1 : stk.length = st1.length + 1 := by rw [he]; simp
    exact ⟨o, h', hg', by simp; omega, hfr, (valOK_of_mem hval he).1⟩
  case add =>
    simp only [checkInstr, Bool.and_eq_true, decide_eq_true_eq] at hchk
    obtain ⟨h', hg', hle⟩ := succOK_elim hchk.2
    obtain ⟨b, st1, hp, he⟩ := pop1_of_pos stk (by omega)
    have hl1 : stk.length = st1.length + 1 := by rw [he]; simp
    obtain ⟨a, st2, hp2, he2⟩ := pop1_of_pos st1 (by omega)
    have hl2 : st1.length = st2.length + 1 := by rw [he2]; simp
    rw [hp]; simp only; rw [hp2]; simp only
    have hv1 := (valOK_of_mem hval he).1
    have hv2 := (valOK_of_mem hv1 he2).1
    cases a <;> cases b <;> try trivial
    refine ⟨o, h', hg', by simp; omega, hfr, ?_⟩
    intro v hv; simp at hv; cases hv with
    | inl hv => exact hv2 v hv
    | inr hv => subst hv; trivial
  case jump t =>
    simp only [checkInstr] at hchk
    obtain ⟨h', hg', hle⟩ := succOK_elim hchk
    exact ⟨o, h', hg', by simp; omega, hfr, hval⟩
  case jif t =>
    simp only [checkInstr, Bool.and_eq_true, decide_eq_true_eq] at hchk
    obtain ⟨h1, hg1, hle1⟩ := succOK_elim hchk.1.2
    obtain ⟨h2, hg2, hle2⟩ := succOK_elim hchk.2
    obtain ⟨v, st1, hp, he⟩ := pop1_of_pos stk (by omega)
    have hl1 : stk.length = st1.length + 1 := by rw [he]; simp
    rw [hp]
    cases v <;> try trivial
    rename_i n
    simp only
    by_cases hn : (n != 0) = true
    · simp only [hn, if_true]; exact ⟨o, h1, hg1, by simp; omega, hfr, (valOK_of_mem hval he).1⟩
    · simp only [hn]; exact ⟨o, h2, hg2, by simp; omega, hfr, (valOK_of_mem hval he).1⟩
  case getl k =>
    simp only [checkInstr, Bool.and_eq_true, decide_eq_true_eq] at hchk
    obtain ⟨h', hg', hle⟩ := succOK_elim hchk.2
    have hlt : bp + k < stk.length := by omega
    rw [List.getElem?_eq_getElem hlt]
    refine ⟨o, h', hg', by simp; omega, hfr, ?_⟩
    intro v hv; simp at hv; cases hv with
    | inl hv => exact hval v hv
    | inr hv => subst hv; exact hval _ (List.getElem_mem hlt)
  case setl k =>
    simp only [checkInstr, Bool.and_eq_true, decide_eq_true_eq] at hchk
    obtain ⟨h', hg', hle⟩ := succOK_elim hchk.2
    obtain ⟨v, st1, hp, he⟩ := pop1_of_pos stk (by omega)
    have hl1 : stk.length = st1.length + 1 := by rw [he]; simp
    rw [hp]
    have hlt : bp + k < st1.length := by omega
    simp only [hlt, if_true]
    obtain ⟨hv1, hvv⟩ := valOK_of_mem hval he
    refine ⟨o, h', hg', by simp; omega, hfr, ?_⟩
    intro x hx
    cases List.mem_or_eq_of_mem_set hx with
    | inl hx => exact hv1 x hx
    | inr hx => subst hx; exact hvv
  case call argc =>
    simp only [checkInstr, Bool.and_eq_true, decide_eq_true_eq] at hchk
    obtain ⟨h', hg', hle⟩ := succOK_elim hchk.2
    obtain ⟨v, st1, hp, he⟩ := pop1_of_pos stk (by omega)
    have hl1 : stk.length = st1.length + 1 := by rw [he]; simp
    rw [hp]
    obtain ⟨hv1, hvv⟩ := valOK_of_mem hval he
    cases v <;> try trivial
    rename_i ip nl
    obtain ⟨hip0, hgip, hnl⟩ := hvv
    simp only
    have hnf : ¬ st1.length < argc := by omega
    simp only [hnf, if_false]
    by_cases hargs : nl < argc
    · simp only [hargs, if_true]
    · simp only [hargs, if_false]
      refine ⟨ip, 0, hgip, by simp [hnl]; omega, ?_, ?_⟩
      · exact .frame hip0 hg' (by simp only; omega) hfr
      · intro x hx; simp at hx; cases hx with
        | inl hx => exact hv1 x hx
        | inr hx => rw [hx.2]; trivial
  case retv =>
    simp only [checkInstr, Bool.and_eq_true, decide_eq_true_eq] at hchk
    obtain ⟨v, st1, hp, he⟩ := pop1_of_pos stk (by omega)
    rw [hp]
    cases hfr with
    | main => exact absurd rfl hchk.2
    | frame ho hgr hb hrest =>
      rename_i rpc rbp fs o' h'
      simp only
      have hnf : ¬ stk.length < bp := by omega
      simp only [hnf, if_false]
      refine ⟨o', h', hgr, by simp; omega, hrest, ?_⟩
      intro x hx; simp at hx; cases hx with
      | inl hx => exact hval x (List.mem_of_mem_take hx)
      | inr hx => subst hx; exact (valOK_of_mem hval he).2

/-- unbounded statement: from the initial state, no number of steps reaches a fault -/
def run (code : List Instr) : Nat → St → Res
  | 0, s => .next s
  | n+1, s =>
    match step code s with
    | .next s' => run code n s'
    | r => r

theorem run_safe (n : Nat) (s : St) (hinv : Inv c s) : run code n s ≠ .fault := by
  induction n generalizing s with
  | zero => simp [run]
  | succ n ih =>
    have := sound hck s hinv
    simp only [run]
    cases hs : step code s with
    | next s' => rw [hs] at this; exact ih s' this
    | halted => simp
    | err => simp
    | fault => rw [hs] at this; exact this.elim

theorem C02_check_sound_mini (n : Nat) : run code n ⟨0, [], 0, []⟩ ≠ .fault :=
  run_safe hck n _ (init_inv hck)

end

#print axioms C02_check_sound_mini

-- non-vacuity: a program with a function call that the checker accepts
def demo : List Instr :=
  [.jump 5, .getl 0, .push 1, .add, .retv, .push 41, .constfn 1 1, .call 1, .pop, .halt]
def demoCert : Cert :=
  { ent := [some (0,0), some (1,0), some (1,1), some (1,2), some (1,1), some (0,0), some (0,1), some (0,2), some (0,1), some (0,0)],
    fns := [(1,1)] }
example : check demo demoCert = true := by decide

end Verif
