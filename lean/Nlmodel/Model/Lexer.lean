/-
  Model of `src/lexer.rs` (after the repairs F6/F7): `Tokenizer::next` as a total function over
  `List Char`.  Text is `List Char` everywhere in the model (one code point per element, as Rust's
  `chars()` yields them).

  The Unicode classes `char::is_alphabetic` / `char::is_alphanumeric` are a *parameter*
  (`CharClass`): the driver loads the table dumped from the running Rust `std`; theorems assume only
  the facts collected in `CharClass.WF`.
-/
namespace Nl

abbrev Text := List Char

structure CharClass where
  alpha : Char → Bool      -- char::is_alphabetic
  alnum : Char → Bool      -- char::is_alphanumeric

/-- ASCII-only instance (used for in-kernel examples; the driver uses the dumped table). -/
def CharClass.ascii : CharClass where
  alpha c := c.isAlpha
  alnum c := c.isAlphanum

inductive Token where
  | ident (s : Text) | int (s : Text) | float (s : Text) | str (s : Text)
  | kwIf | kwElse | kwReturn | kwFunc | kwWhile | kwDeclare | kwTrue | kwFalse | kwBreak | kwContinue
  | lte | gte | eq | neq | and | or
  | assign | semi | comma | dot | lparen | rparen | lbrace | rbrace | lbracket | rbracket
  | bang | lt | gt | minus | plus | star | slash | caret | percent
  | illegal
  | eof
  deriving DecidableEq, Repr, Inhabited

/-- `lexer::is_whitespace` (Pattern_White_Space). -/
def isWs (c : Char) : Bool :=
  c.val = 0x09 || c.val = 0x0A || c.val = 0x0B || c.val = 0x0C || c.val = 0x0D || c.val = 0x20
  || c.val = 0x85 || c.val = 0x200E || c.val = 0x200F || c.val = 0x2028 || c.val = 0x2029

def isDigit (c : Char) : Bool := c.isDigit

/-- the keyword table: `impl From<&str> for Token` -/
def keywordTable : List (String × Token) :=
  [("als", .kwIf), ("antwoord", .kwReturn), ("zolang", .kwWhile), ("anders", .kwElse),
   ("functie", .kwFunc), ("stel", .kwDeclare), ("ja", .kwTrue), ("nee", .kwFalse),
   ("volgende", .kwContinue), ("stop", .kwBreak)]

def keywordOrIdent (s : Text) : Token :=
  match keywordTable.find? (fun p => p.1.toList = s) with
  | some p => p.2
  | none => .ident s

/-- identifier continuation: `skip_while(|c| c.is_alphanumeric() || c == '_')` -/
def identCont (cc : CharClass) (c : Char) : Bool := cc.alnum c || c = '_'
def identStart (cc : CharClass) (c : Char) : Bool := cc.alpha c || c = '_'

/-- the number scanner: digits, at most one '.', digits.  Returns (consumed, rest, sawDot). -/
def scanNum : Text → Bool → Text × Text × Bool
  | [], d => ([], [], d)
  | c :: cs, d =>
    if isDigit c then
      let (a, r, d') := scanNum cs d
      (c :: a, r, d')
    else if !d && c = '.' then
      let (a, r, d') := scanNum cs true
      (c :: a, r, d')
    else ([], c :: cs, d)

/-- the string scanner (`skip_while(|c, esc| c != '"' || esc)` with the repaired escape flag):
    returns the raw content and the rest *starting at the closing quote* (or `[]`). -/
def scanStr : Text → Bool → Text × Text
  | [], _ => ([], [])
  | c :: cs, esc =>
    if c ≠ '"' || esc then
      let (a, r) := scanStr cs (!esc && c = '\\')
      (c :: a, r)
    else ([], c :: cs)

/-- skip to end of line (the newline itself is left for the whitespace rule) -/
def skipLine : Text → Text
  | [] => []
  | c :: cs => if c ≠ '\n' then skipLine cs else c :: cs

/-- operators and punctuation: the token for `c` given the next character, and whether that next
    character belongs to the token too (two-character operators are matched before their
    one-character prefixes) -/
def punct (c : Char) (nx : Option Char) : Token × Bool :=
  if c = '=' then (if nx = some '=' then (.eq, true) else (.assign, false))
  else if c = '!' then (if nx = some '=' then (.neq, true) else (.bang, false))
  else if c = '<' then (if nx = some '=' then (.lte, true) else (.lt, false))
  else if c = '>' then (if nx = some '=' then (.gte, true) else (.gt, false))
  else if c = '&' then (if nx = some '&' then (.and, true) else (.illegal, false))
  else if c = '|' then (if nx = some '|' then (.or, true) else (.illegal, false))
  else if c = '/' then (.slash, false)
  else if c = ';' then (.semi, false)
  else if c = ',' then (.comma, false)
  else if c = '.' then (.dot, false)
  else if c = '(' then (.lparen, false)
  else if c = ')' then (.rparen, false)
  else if c = '{' then (.lbrace, false)
  else if c = '}' then (.rbrace, false)
  else if c = '[' then (.lbracket, false)
  else if c = ']' then (.rbracket, false)
  else if c = '-' then (.minus, false)
  else if c = '+' then (.plus, false)
  else if c = '*' then (.star, false)
  else if c = '^' then (.caret, false)
  else if c = '%' then (.percent, false)
  else (.illegal, false)

/-- One call of `Tokenizer::next`: `none` = end of input. Whitespace and comments are skipped by
    recursion, exactly as the Rust code does (`return self.next()`), hence the fuel. -/
def nextToken (cc : CharClass) : Nat → Text → Option (Token × Text)
  | 0, _ => none
  | _ + 1, [] => none
  | f + 1, c :: cs =>
    if identStart cc c then
      some (keywordOrIdent (c :: cs.takeWhile (identCont cc)), cs.dropWhile (identCont cc))
    else if isDigit c then
      match scanNum cs false with
      | (a, r, d) => some (if d then .float (c :: a) else .int (c :: a), r)
    else if c = '"' then
      match scanStr cs false with
      | (_, []) => some (.illegal, [])          -- unterminated string (F6)
      | (a, _ :: r') => some (.str a, r')
    else if isWs c then nextToken cc f cs
    else if c = '/' && cs.head? = some '/' then nextToken cc f (skipLine cs)
    else
      match punct c cs.head? with
      | (t, two) => some (t, if two then cs.tail else cs)

/-- all tokens of a text (the parser pulls them one by one; lexing never fails).  The fuel is an
    upper bound of the remaining length + 1, so it also serves as the fuel of `nextToken`. -/
def lexF (cc : CharClass) : Nat → Text → List Token
  | 0, _ => []
  | f + 1, cs =>
    match nextToken cc (f + 1) cs with
    | none => []
    | some (t, rest) => t :: lexF cc f rest

def lex (cc : CharClass) (cs : Text) : List Token := lexF cc (cs.length + 1) cs

end Nl
