/- Every instruction of the emitted code satisfies its checker rule w.r.t. a certificate that agrees
   with the annotations. -/
import Nlmodel.Proofs.Lemmas.AnnHead
import Nlmodel.Proofs.Lemmas.PoolExt
import Nlmodel.Proofs.Lemmas.WfDefs
namespace Nl
namespace CV
open Verifier Sim

/-! ## constant pool -/

theorem addConst_lt (cs : List Const) (x : Const) : (addConst cs x).2 < (addConst cs x).1.length := by
  unfold addConst
  cases hf : cs.findIdx? (Const.same · x) with
  | none => simp
  | some i => exact (List.findIdx?_eq_some_iff_findIdx_eq.mp hf).1

theorem same_fn (a : Const) (ip nl : Nat) (h : Const.same a (.fn ip nl) = true) : a = .fn ip nl := by
  cases a <;> simp [Const.same] at h
  rw [h.1, h.2]

theorem addConst_fn_mem (cs : List Const) (ip nl : Nat) : Const.fn ip nl ∈ (addConst cs (.fn ip nl)).1 := by
  unfold addConst
  cases hf : cs.findIdx? (Const.same · (.fn ip nl)) with
  | none => simp
  | some i =>
    obtain ⟨hlt, hp, _⟩ := List.findIdx?_eq_some_iff_getElem.mp hf
    have := same_fn _ _ _ hp
    simp only
    rw [← this]
    exact List.getElem_mem hlt

theorem Ext_len {a b : List Const} (h : Ext a b) : a.length ≤ b.length := by
  obtain ⟨e, rfl⟩ := h; simp

theorem Ext_mem {a b : List Const} (h : Ext a b) {x : Const} (hx : x ∈ a) : x ∈ b := by
  obtain ⟨e, rfl⟩ := h; exact List.mem_append_left _ hx

theorem addConst_idx (cs F : List Const) (x : Const) (h : Ext (addConst cs x).1 F) : (addConst cs x).2 < F.length :=
  Nat.lt_of_lt_of_le (addConst_lt cs x) (Ext_len h)

/-! ## context of the rule check -/

/-- the function table gives one locals count per entry -/
def FnTab (F : List Const) : Prop := ∀ ip nl, Const.fn ip nl ∈ F → nlocals (fnTable F) ip = nl

structure Own (F : List Const) (fn : Bool) (nl o : Nat) : Prop where
  nz : fn = true → o ≠ 0
  le : nl ≤ nlocals (fnTable F) o

/-- inside a loop both jump targets of `stop`/`volgende` are certified at most one above the current height -/
def LoopOK (c : Cert) (lp : LoopCtx) (lb : Bool) (o h : Nat) : Prop :=
  lb = true → ∃ l0 pend, lp = some (l0, pend) ∧ succOK c l0 o (h + 1) = true ∧ succOK c pend o (h + 1) = true

theorem LoopOK.mono {c : Cert} {lp : LoopCtx} {lb : Bool} {o h h2 : Nat} (hl : LoopOK c lp lb o h) (hle : h ≤ h2) :
    LoopOK c lp lb o h2 := by
  intro hb
  obtain ⟨l0, pend, h1, h2', h3⟩ := hl hb
  exact ⟨l0, pend, h1, succOK_mono h2' (by omega), succOK_mono h3 (by omega)⟩

theorem getVar_chk (c : Cert) (F : List Const) (fn : Bool) (nl o h p : Nat) (s : Slot) (hs : SlotOK nl s)
    (hown : Own F fn nl o) (hk : succOK c (p + 3) o (h + 1) = true) :
    checkInstr c (fnTable F) F.length (p + 3) (getVar s) o h = true := by
  cases s with
  | global k => simpa [getVar, checkInstr, Instr.size] using hk
  | loc k =>
    have : k < nlocals (fnTable F) o := Nat.lt_of_lt_of_le hs hown.le
    simpa [getVar, checkInstr, Instr.size, this] using hk

theorem setVar_chk (c : Cert) (F : List Const) (fn : Bool) (nl o h p : Nat) (s : Slot) (hs : SlotOK nl s)
    (hown : Own F fn nl o) (hk : succOK c (p + 3) o h = true) :
    checkInstr c (fnTable F) F.length (p + 3) (setVar s) o (h + 1) = true := by
  cases s with
  | global k => simpa [setVar, checkInstr, Instr.size] using hk
  | loc k =>
    have : k < nlocals (fnTable F) o := Nat.lt_of_lt_of_le hs hown.le
    simpa [setVar, checkInstr, Instr.size, this] using hk


theorem succOK_cast {c : Cert} {t t' o h h' : Nat} (hs : succOK c t o h = true) (e1 : t = t') (e2 : h = h') :
    succOK c t' o h' = true := by subst e1; subst e2; exact hs

/-- height after a block / statement: value mode keeps the value of a value-tailed one -/
def hOut (v : Bool) (k : TailKind) (h : Nat) : Nat := if v = true ∧ k = .value then h + 1 else h

theorem hOut_false (k : TailKind) (h : Nat) : hOut false k h = h := by simp [hOut]
theorem hOut_other (v : Bool) (h : Nat) : hOut v .other h = h := by simp [hOut]
theorem hOut_returns (v : Bool) (h : Nat) : hOut v .returns h = h := by simp [hOut]
theorem hOut_value (h : Nat) : hOut true .value h = h + 1 := by simp [hOut]

theorem fused_loc (l r : RExpr) (op op' : BinOp) (k : Nat) (v : Int) (fn : Bool) (nl : Nat) (lb : Bool)
    (hf : fusedCandidate l op r = some (op', k, v)) (hl : WfE fn nl lb l) (hr : WfE fn nl lb r) : k < nl := by
  unfold fusedCandidate at hf
  split at hf
  · split at hf
    · simp only [Option.some.injEq, Prod.mk.injEq] at hf
      obtain ⟨_, rfl, _⟩ := hf
      simpa [WfE, SlotOK] using hl
    · cases hf
  · split at hf
    · simp only [Option.some.injEq, Prod.mk.injEq] at hf
      obtain ⟨_, rfl, _⟩ := hf
      simpa [WfE, SlotOK] using hr
    · cases hf
  · cases hf

/-- value position, given the rule check of the block itself -/
theorem valWrap_chk (c : Cert) (F : List Const) (b : RBlock) (pos : Nat) (lp : LoopCtx) (cs : List Const) (o h : Nat)
    (ih : Seg c pos (annB true b pos lp cs o h) →
      (b.tailKind = .returns ∨ succOK c (pos + asize (annB true b pos lp cs o h)) o (hOut true b.tailKind h) = true) →
      Chk c (fnTable F) F.length pos (annB true b pos lp cs o h))
    (hseg : Seg c pos (valWrap b (annB true b pos lp cs o h) o h))
    (hk : succOK c (pos + sizeBV b) o (h + 1) = true) :
    Chk c (fnTable F) F.length pos (valWrap b (annB true b pos lp cs o h) o h) := by
  have hsz := asizeBV b pos lp cs o h
  cases b with
  | nil =>
    simp only [valWrap, Chk, and_true]
    simpa [checkInstr, Instr.size, sizeBV, valSize] using hk
  | cons s b' =>
    simp only [valWrap] at hseg hsz ⊢
    cases hkind : (RBlock.cons s b').tailKind with
    | value =>
      simp only [hkind] at hseg hsz ⊢
      refine ih hseg (.inr ?_)
      rw [hkind, hOut_value, hsz]; exact hk
    | returns =>
      simp only [hkind, Seg_append, Seg, and_true, asize_append, asize_cons, asize_nil, Instr.size] at hseg hsz ⊢
      simp only [Chk_append, Chk, and_true]
      refine ⟨ih hseg.1 (.inl hkind), ?_⟩
      simp only [checkInstr, Instr.size]
      exact succOK_cast hk (by omega) rfl
    | other =>
      simp only [hkind, Seg_append, Seg, and_true, asize_append, asize_cons, asize_nil, Instr.size] at hseg hsz ⊢
      simp only [Chk_append, Chk, and_true]
      refine ⟨ih hseg.1 (.inr ?_), ?_⟩
      · rw [hkind, hOut_other]; exact succOK_of_get hseg.2 (Nat.le_refl _)
      · simp only [checkInstr, Instr.size]
        exact succOK_cast hk (by omega) rfl

/-- function body with epilogue, given the rule check of the body block -/
theorem fnWrap_chk (c : Cert) (F : List Const) (b : RBlock) (e : Nat) (lp : LoopCtx) (cs : List Const) (he : e ≠ 0)
    (ih : Seg c e (annB true b e lp cs e 0) →
      (b.tailKind = .returns ∨ succOK c (e + asize (annB true b e lp cs e 0)) e (hOut true b.tailKind 0) = true) →
      Chk c (fnTable F) F.length e (annB true b e lp cs e 0))
    (hseg : Seg c e (fnWrap b (annB true b e lp cs e 0) e)) :
    Chk c (fnTable F) F.length e (fnWrap b (annB true b e lp cs e 0) e) := by
  cases b with
  | nil =>
    simp only [fnWrap, Seg, Chk, and_true] at hseg ⊢
    simp only [checkInstr, Instr.size, ne_eq, he, not_false_eq_true, decide_true, and_true]
    exact succOK_of_get hseg.2 (Nat.le_refl _)
  | cons s b' =>
    simp only [fnWrap] at hseg ⊢
    cases hkind : (RBlock.cons s b').tailKind with
    | value =>
      simp only [hkind, Seg_append, Seg, and_true] at hseg ⊢
      simp only [Chk_append, Chk, and_true]
      refine ⟨ih hseg.1 (.inr ?_), ?_⟩
      · rw [hkind, hOut_value]; exact succOK_of_get hseg.2 (Nat.le_refl _)
      · simp [checkInstr, he]
    | returns =>
      simp only [hkind] at hseg ⊢
      exact ih hseg (.inl hkind)
    | other =>
      simp only [hkind, Seg_append, Seg, and_true] at hseg ⊢
      simp only [Chk_append, Chk, and_true]
      refine ⟨ih hseg.1 (.inr ?_), ?_⟩
      · rw [hkind, hOut_other]; exact succOK_of_get hseg.2 (Nat.le_refl _)
      · simp [checkInstr, he]

end CV
end Nl
