/- The only language-level errors the machine model raises are type, index and argument errors. -/
import Nlmodel.Model.Pipeline
namespace Nl

theorem intArith_err (op : BinOp) (a b : Int) (e : Err) (h : intArith op a b = .error e) : e = .type := by
  cases op <;> simp only [intArith] at h <;> (repeat' split at h) <;> simp_all

theorem binopCore_err (op : BinOp) (l r : View) (e : Err) (h : binopCore op l r = .error e) : e = .type := by
  cases op <;> cases l <;> cases r <;> simp only [binopCore, View.ty, BinOp.isArith, BinOp.isOrder] at h <;>
    (repeat' split at h) <;> (first | (injection h with h; exact h.symm) | (simp_all; done) |
      (rename_i h2; injection h with h; subst h; exact intArith_err _ _ _ _ h2) | skip)

def docErr (e : Err) : Prop := e = .type ∨ e = .index ∨ e = .argument

theorem binop_err (op : BinOp) (l r : Value) (m : Mem) (e : Err) (h : binop op l r m = .error e) : docErr e := by
  unfold binop at h
  split at h
  · simp_all
  · rename_i h2; injection h with h; subst h; exact Or.inl (binopCore_err _ _ _ _ h2)

theorem builtinCore_err (b : Builtin) (v : View) (e : Err) (h : builtinCore b v = .error e) : docErr e := by
  cases b <;> cases v <;> simp only [builtinCore] at h <;> (repeat' split at h) <;>
    (first | (injection h with h; subst h; first | exact Or.inl rfl | exact Or.inr (Or.inr rfl)) | (simp_all; done) | skip)

theorem callBuiltin_err (b : Builtin) (args : List Value) (m : Mem) (out : List Text) (e : Err)
    (h : callBuiltin b args m out = .error e) : docErr e := by
  unfold callBuiltin at h
  split at h
  · simp_all
  · split at h
    · split at h
      · simp_all
      · rename_i h2; injection h with h; subst h; exact builtinCore_err _ _ _ h2
    · injection h with h; subst h; exact Or.inr (Or.inr rfl)

theorem indexGet_err (l i : Value) (m : Mem) (e : Err) (h : indexGet l i m = .error e) : docErr e := by
  cases i <;> cases l <;> simp only [indexGet] at h <;>
    (first
      | (injection h with h; subst h; exact Or.inl rfl)
      | (split at h <;> first | (simp at h; done) | (injection h with h; subst h; exact Or.inr (Or.inl rfl))))

theorem indexSet_err (l i v : Value) (m : Mem) (e : Err) (h : indexSet l i v m = .error e) : docErr e := by
  cases i <;> cases l <;> simp only [indexSet] at h <;>
    (first
      | (injection h with h; subst h; exact Or.inl rfl)
      | (split at h <;> first
          | (simp at h; done)
          | (injection h with h; subst h; exact Or.inr (Or.inl rfl))
          | (split at h <;> first | (simp at h; done) | (injection h with h; subst h; exact Or.inl rfl))))

theorem doReturn_err (s : VM) (r : Value) (ex : List Value) (e : Err) (s' : VM) : doReturn s r ex ≠ .error e s' := by
  unfold doReturn
  split
  · simp
  · split <;> simp

theorem exec_err (i : Instr) (ip' : Nat) (s : VM) (e : Err) (s' : VM) (h : exec i ip' s = .error e s') : docErr e := by
  cases i <;> simp only [exec] at h <;> (repeat' split at h) <;>
    (first
      | (simp at h; done)
      | (injection h with h _; subst h; first | exact Or.inl rfl | exact Or.inr (Or.inl rfl) | exact Or.inr (Or.inr rfl))
      | (rename_i h2; injection h with h _; subst h; first | exact binop_err _ _ _ _ _ h2 | exact callBuiltin_err _ _ _ _ _ h2 | exact indexGet_err _ _ _ _ h2 | exact indexSet_err _ _ _ _ _ h2)
      | (exact absurd h (doReturn_err _ _ _ _ _))
      | skip)

end Nl
