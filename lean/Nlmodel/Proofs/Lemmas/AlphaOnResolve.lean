/-
  Alpha-equivalence under the weak hypothesis, part 2 (A1): for a renaming that behaves on `S`,
  a tree whose identifiers are in `S` and a symbol table whose names are in `S`, the resolver
  commutes with the renaming AND leaves a symbol table whose names are in `S` (one mutual induction
  for both, the second fact is the invariant the first needs).
-/
import Nlmodel.Proofs.Lemmas.AlphaOn
namespace Nl
namespace Alpha

variable {f : Text → Text} {S : Text → Prop}

mutual
theorem bE (hf : RenamingOn f S) : (x : Expr) → (st : RState) → (∀ n ∈ namesE x, S n) → AllIn S st →
    resolveE (renE f x) (mapSt f st) = liftR f (resolveE x st) ∧ okIn S (resolveE x st)
  | .bool _, st, _, hs => by simp only [renE, resolveE, liftR]; exact ⟨trivial, hs⟩
  | .float _, st, _, hs => by simp only [renE, resolveE, liftR]; exact ⟨trivial, hs⟩
  | .int _, st, _, hs => by simp only [renE, resolveE, liftR]; exact ⟨trivial, hs⟩
  | .str _, st, _, hs => by simp only [renE, resolveE, liftR]; exact ⟨trivial, hs⟩
  | .ident n, st, hn, hs => by
    simp only [namesE] at hn
    simp only [renE, resolveE, mapSt_resolve_on hf st n hs (sub_head hn)]
    cases st.resolve n with
    | none => exact ⟨rfl, True.intro⟩
    | some r => exact ⟨rfl, hs⟩
  | .pre op x, st, hn, hs => by
    simp only [namesE] at hn
    obtain ⟨e1, o1⟩ := bE hf x st hn hs
    simp only [renE, resolveE]; rw [e1]; revert o1
    cases resolveE x st with
    | error e => exact fun _ => ⟨rfl, True.intro⟩
    | ok p =>
      obtain ⟨x', st1⟩ := p
      intro o1
      cases op <;> first | exact ⟨rfl, o1⟩ | exact ⟨rfl, True.intro⟩
  | .assign (.ident n) x, st, hn, hs => by
    simp only [namesE] at hn
    have hS : S n := sub_left hn n List.mem_cons_self
    simp only [renE, resolveE, mapSt_resolve_on hf st n hs hS]
    cases st.resolve n with
    | none => exact ⟨rfl, True.intro⟩
    | some ref =>
      obtain ⟨e1, o1⟩ := bE hf x st (sub_right hn) hs
      simp only; rw [e1]; revert o1
      cases resolveE x st with
      | error e => exact fun _ => ⟨rfl, True.intro⟩
      | ok p => obtain ⟨x', st1⟩ := p; exact fun o1 => ⟨rfl, o1⟩
  | .assign (.index a i) x, st, hn, hs => by
    simp only [namesE] at hn
    obtain ⟨e1, o1⟩ := bE hf a st (sub_left (sub_left hn)) hs
    simp only [renE, resolveE]; rw [e1]; revert o1
    cases resolveE a st with
    | error e => exact fun _ => ⟨rfl, True.intro⟩
    | ok p =>
      obtain ⟨a', st1⟩ := p
      intro o1
      obtain ⟨e2, o2⟩ := bE hf i st1 (sub_right (sub_left hn)) o1
      simp only [liftR]; rw [e2]; revert o2
      cases resolveE i st1 with
      | error e => exact fun _ => ⟨rfl, True.intro⟩
      | ok q =>
        obtain ⟨i', st2⟩ := q
        intro o2
        obtain ⟨e3, o3⟩ := bE hf x st2 (sub_right hn) o2
        simp only [liftR]; rw [e3]; revert o3
        cases resolveE x st2 with
        | error e => exact fun _ => ⟨rfl, True.intro⟩
        | ok r => obtain ⟨x', st3⟩ := r; exact fun o3 => ⟨rfl, o3⟩
  | .assign (.bool _) x, st, _, _ | .assign (.float _) x, st, _, _ | .assign (.int _) x, st, _, _
  | .assign (.str _) x, st, _, _
  | .assign (.pre _ _) x, st, _, _ | .assign (.assign _ _) x, st, _, _ | .assign (.infix _ _ _) x, st, _, _
  | .assign (.ifE _ _ _) x, st, _, _ | .assign (.whileE _ _) x, st, _, _ | .assign (.func _ _ _) x, st, _, _
  | .assign (.call _ _) x, st, _, _ | .assign (.arr _) x, st, _, _ => by
    simp only [renE, resolveE, liftR]; exact ⟨trivial, True.intro⟩
  | .infix l op x, st, hn, hs => by
    simp only [namesE] at hn
    obtain ⟨e1, o1⟩ := bE hf l st (sub_left hn) hs
    simp only [renE, resolveE]; rw [e1]; revert o1
    cases resolveE l st with
    | error e => exact fun _ => ⟨rfl, True.intro⟩
    | ok p =>
      obtain ⟨l', st1⟩ := p
      intro o1
      obtain ⟨e2, o2⟩ := bE hf x st1 (sub_right hn) o1
      simp only [liftR]; rw [e2]; revert o2
      cases resolveE x st1 with
      | error e => exact fun _ => ⟨rfl, True.intro⟩
      | ok q =>
        obtain ⟨x', st2⟩ := q
        intro o2
        cases opToBin op <;> first | exact ⟨rfl, o2⟩ | exact ⟨rfl, True.intro⟩
  | .ifE c t e, st, hn, hs => by
    simp only [namesE] at hn
    obtain ⟨e1, o1⟩ := bE hf c st (sub_left hn) hs
    simp only [renE, resolveE]; rw [e1]; revert o1
    cases resolveE c st with
    | error e => exact fun _ => ⟨rfl, True.intro⟩
    | ok p =>
      obtain ⟨c', st1⟩ := p
      intro o1
      obtain ⟨e2, o2⟩ := bB hf t st1 (sub_left (sub_right hn)) o1
      simp only [liftR]; rw [e2]; revert o2
      cases resolveB t st1 with
      | error e => exact fun _ => ⟨rfl, True.intro⟩
      | ok q =>
        obtain ⟨t', st2⟩ := q
        intro o2
        obtain ⟨e3, o3⟩ := bO hf e st2 (sub_right (sub_right hn)) o2
        simp only [liftR]; rw [e3]; revert o3
        cases resolveO e st2 with
        | error e => exact fun _ => ⟨rfl, True.intro⟩
        | ok r => obtain ⟨e', st3⟩ := r; exact fun o3 => ⟨rfl, o3⟩
  | .whileE c b, st, hn, hs => by
    simp only [namesE] at hn
    obtain ⟨e1, o1⟩ := bE hf c { st with loopDepth := st.loopDepth + 1 } (sub_left hn) (allIn_withLoop hs _)
    simp only [renE, resolveE, mapSt_withLoop, mapSt_loopDepth]; rw [e1]; revert o1
    cases resolveE c { st with loopDepth := st.loopDepth + 1 } with
    | error e => exact fun _ => ⟨rfl, True.intro⟩
    | ok p =>
      obtain ⟨c', st1⟩ := p
      intro o1
      obtain ⟨e2, o2⟩ := bB hf b st1 (sub_right hn) o1
      simp only [liftR]; rw [e2]; revert o2
      cases resolveB b st1 with
      | error e => exact fun _ => ⟨rfl, True.intro⟩
      | ok q => obtain ⟨b', st2⟩ := q; exact fun o2 => ⟨rfl, o2⟩
  | .func name ps body, st, hn, hs => by
    simp only [namesE] at hn
    have hname : S name := sub_head hn
    have h3 : AllIn S (defineParams (fnEnter (fnPre st name).1) ps).1 :=
      allIn_defineParams ps (allIn_fnEnter (allIn_fnPre hs hname)) (sub_left (sub_tail hn))
    obtain ⟨e1, o1⟩ := bB hf body _ (sub_right (sub_tail hn)) h3
    rw [renE, resolveE_func, resolveE_func, mapSt_fnPre_on hf st name hname]
    simp only [mapSt_fnEnter, mapSt_defineParams, mapSt_nextFid]
    rw [e1]; revert o1
    cases resolveB body (defineParams (fnEnter (fnPre st name).1) ps).1 with
    | error e => exact fun _ => ⟨rfl, True.intro⟩
    | ok p =>
      obtain ⟨b', st4⟩ := p
      intro o1
      simp only [liftR, mapSt_nlOf, mapSt_fnExit]
      exact ⟨trivial, allIn_fnExit _ o1⟩
  | .call g as, st, hn, hs => by
    simp only [namesE] at hn
    obtain ⟨e1, o1⟩ := bEs hf as st (sub_right hn) hs
    rw [renE, resolveE_call, resolveE_call, calleeBi_ren_on hf g (sub_left hn), e1]; revert o1
    cases resolveEs as st with
    | error e => exact fun _ => ⟨rfl, True.intro⟩
    | ok p =>
      obtain ⟨as', st1⟩ := p
      intro o1
      simp only [liftR]
      cases calleeBi g with
      | some b => exact ⟨rfl, o1⟩
      | none =>
        obtain ⟨e2, o2⟩ := bE hf g st1 (sub_left hn) o1
        simp only; rw [e2]; revert o2
        cases resolveE g st1 with
        | error e => exact fun _ => ⟨rfl, True.intro⟩
        | ok q => obtain ⟨g', st2⟩ := q; exact fun o2 => ⟨rfl, o2⟩
  | .arr vs, st, hn, hs => by
    simp only [namesE] at hn
    obtain ⟨e1, o1⟩ := bEs hf vs st hn hs
    simp only [renE, resolveE]; rw [e1]; revert o1
    cases resolveEs vs st with
    | error e => exact fun _ => ⟨rfl, True.intro⟩
    | ok p => obtain ⟨vs', st1⟩ := p; exact fun o1 => ⟨rfl, o1⟩
  | .index l i, st, hn, hs => by
    simp only [namesE] at hn
    obtain ⟨e1, o1⟩ := bE hf l st (sub_left hn) hs
    simp only [renE, resolveE]; rw [e1]; revert o1
    cases resolveE l st with
    | error e => exact fun _ => ⟨rfl, True.intro⟩
    | ok p =>
      obtain ⟨l', st1⟩ := p
      intro o1
      obtain ⟨e2, o2⟩ := bE hf i st1 (sub_right hn) o1
      simp only [liftR]; rw [e2]; revert o2
      cases resolveE i st1 with
      | error e => exact fun _ => ⟨rfl, True.intro⟩
      | ok q => obtain ⟨i', st2⟩ := q; exact fun o2 => ⟨rfl, o2⟩

theorem bEs (hf : RenamingOn f S) : (x : Exprs) → (st : RState) → (∀ n ∈ namesEs x, S n) → AllIn S st →
    resolveEs (renEs f x) (mapSt f st) = liftR f (resolveEs x st) ∧ okIn S (resolveEs x st)
  | .nil, st, _, hs => by simp only [renEs, resolveEs, liftR]; exact ⟨trivial, hs⟩
  | .cons x xs, st, hn, hs => by
    simp only [namesEs] at hn
    obtain ⟨e1, o1⟩ := bE hf x st (sub_left hn) hs
    simp only [renEs, resolveEs]; rw [e1]; revert o1
    cases resolveE x st with
    | error e => exact fun _ => ⟨rfl, True.intro⟩
    | ok p =>
      obtain ⟨x', st1⟩ := p
      intro o1
      obtain ⟨e2, o2⟩ := bEs hf xs st1 (sub_right hn) o1
      simp only [liftR]; rw [e2]; revert o2
      cases resolveEs xs st1 with
      | error e => exact fun _ => ⟨rfl, True.intro⟩
      | ok q => obtain ⟨xs', st2⟩ := q; exact fun o2 => ⟨rfl, o2⟩

theorem bS (hf : RenamingOn f S) : (x : Stmt) → (st : RState) → (∀ n ∈ namesS x, S n) → AllIn S st →
    resolveS (renS f x) (mapSt f st) = liftR f (resolveS x st) ∧ okIn S (resolveS x st)
  | .expr x, st, hn, hs => by
    simp only [namesS] at hn
    obtain ⟨e1, o1⟩ := bE hf x st hn hs
    simp only [renS, resolveS]; rw [e1]; revert o1
    cases resolveE x st with
    | error e => exact fun _ => ⟨rfl, True.intro⟩
    | ok p => obtain ⟨x', st1⟩ := p; exact fun o1 => ⟨rfl, o1⟩
  | .block b, st, hn, hs => by
    simp only [namesS] at hn
    obtain ⟨e1, o1⟩ := bB hf b st hn hs
    simp only [renS, resolveS]; rw [e1]; revert o1
    cases resolveB b st with
    | error e => exact fun _ => ⟨rfl, True.intro⟩
    | ok p => obtain ⟨b', st1⟩ := p; exact fun o1 => ⟨rfl, o1⟩
  | .letS n x, st, hn, hs => by
    simp only [namesS] at hn
    obtain ⟨e1, o1⟩ := bE hf x (st.define n).1 (sub_tail hn) (allIn_define hs (sub_head hn))
    simp only [renS, resolveS, mapSt_define]; rw [e1]; revert o1
    cases resolveE x (st.define n).1 with
    | error e => exact fun _ => ⟨rfl, True.intro⟩
    | ok p => obtain ⟨x', st2⟩ := p; exact fun o1 => ⟨rfl, o1⟩
  | .ret x, st, hn, hs => by
    simp only [namesS] at hn
    simp only [renS, resolveS, mapSt_funcDepth]
    by_cases h : st.funcDepth = 0
    · simp only [h, ↓reduceIte, liftR]; exact ⟨trivial, True.intro⟩
    · obtain ⟨e1, o1⟩ := bE hf x st hn hs
      simp only [h, ↓reduceIte]; rw [e1]; revert o1
      cases resolveE x st with
      | error e => exact fun _ => ⟨rfl, True.intro⟩
      | ok p => obtain ⟨x', st1⟩ := p; exact fun o1 => ⟨rfl, o1⟩
  | .brk, st, _, hs => by
    simp only [renS, resolveS, mapSt_loopDepth]
    by_cases h : st.loopDepth = 0 <;> simp only [h, ↓reduceIte, liftR]
    · exact ⟨trivial, True.intro⟩
    · exact ⟨trivial, hs⟩
  | .cont, st, _, hs => by
    simp only [renS, resolveS, mapSt_loopDepth]
    by_cases h : st.loopDepth = 0 <;> simp only [h, ↓reduceIte, liftR]
    · exact ⟨trivial, True.intro⟩
    · exact ⟨trivial, hs⟩

theorem bB (hf : RenamingOn f S) : (x : Block) → (st : RState) → (∀ n ∈ namesB x, S n) → AllIn S st →
    resolveB (renB f x) (mapSt f st) = liftR f (resolveB x st) ∧ okIn S (resolveB x st)
  | .nil, st, _, hs => by simp only [renB, resolveB, liftR]; exact ⟨trivial, hs⟩
  | .cons s b, st, hn, hs => by
    simp only [namesB] at hn
    obtain ⟨e1, o1⟩ := bS hf s st.enterScope (sub_left hn) (allIn_enterScope hs)
    simp only [renB, resolveB, mapSt_enterScope]; rw [e1]; revert o1
    cases resolveS s st.enterScope with
    | error e => exact fun _ => ⟨rfl, True.intro⟩
    | ok p =>
      obtain ⟨s', st1⟩ := p
      intro o1
      obtain ⟨e2, o2⟩ := bSs hf b st1 (sub_right hn) o1
      simp only [liftR]; rw [e2]; revert o2
      cases resolveSs b st1 with
      | error e => exact fun _ => ⟨rfl, True.intro⟩
      | ok q =>
        obtain ⟨b', st2⟩ := q
        intro o2
        simp only [liftR, mapSt_leaveScope]
        exact ⟨trivial, allIn_leaveScope o2⟩

theorem bSs (hf : RenamingOn f S) : (x : Block) → (st : RState) → (∀ n ∈ namesB x, S n) → AllIn S st →
    resolveSs (renB f x) (mapSt f st) = liftR f (resolveSs x st) ∧ okIn S (resolveSs x st)
  | .nil, st, _, hs => by simp only [renB, resolveSs, liftR]; exact ⟨trivial, hs⟩
  | .cons s b, st, hn, hs => by
    simp only [namesB] at hn
    obtain ⟨e1, o1⟩ := bS hf s st (sub_left hn) hs
    simp only [renB, resolveSs]; rw [e1]; revert o1
    cases resolveS s st with
    | error e => exact fun _ => ⟨rfl, True.intro⟩
    | ok p =>
      obtain ⟨s', st1⟩ := p
      intro o1
      obtain ⟨e2, o2⟩ := bSs hf b st1 (sub_right hn) o1
      simp only [liftR]; rw [e2]; revert o2
      cases resolveSs b st1 with
      | error e => exact fun _ => ⟨rfl, True.intro⟩
      | ok q => obtain ⟨b', st2⟩ := q; exact fun o2 => ⟨rfl, o2⟩

theorem bO (hf : RenamingOn f S) : (x : OptBlock) → (st : RState) → (∀ n ∈ namesO x, S n) → AllIn S st →
    resolveO (renO f x) (mapSt f st) = liftR f (resolveO x st) ∧ okIn S (resolveO x st)
  | .none, st, _, hs => by simp only [renO, resolveO, liftR]; exact ⟨trivial, hs⟩
  | .some b, st, hn, hs => by
    simp only [namesO] at hn
    obtain ⟨e1, o1⟩ := bB hf b st hn hs
    simp only [renO, resolveO]; rw [e1]; revert o1
    cases resolveB b st with
    | error e => exact fun _ => ⟨rfl, True.intro⟩
    | ok p => obtain ⟨b', st1⟩ := p; exact fun o1 => ⟨rfl, o1⟩
end

end Alpha
end Nl
