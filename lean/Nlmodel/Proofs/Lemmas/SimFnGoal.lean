/- Stage 4: worlds, invariants and goals of the simulation with functions. -/
import Nlmodel.Proofs.Lemmas.SimFnFrag
import Nlmodel.Proofs.Lemmas.AtLimit
namespace Nl
namespace SimF
open Spec Sim

/-! ## worlds, invariants, goals -/

/-- what is fixed during a run: function table, persistent global scope, code, and the machine
    components the fragment never changes (`mem`, `cvals`, `out`) -/
structure World where
  ft : FT
  Γp : Gam
  C : Code
  s0 : VM

def bigScope (fn : Bool) (Γ Γx : Gam) : Gam := if fn then Γx else Γ

def RelG (W : World) (Γb : Gam) (st : SState) (g : Array Value) : Prop :=
  ∀ b k, (b, k) ∈ Γb → ∀ v, envGet st.genv b = some v → ∃ mv, VR W.ft W.Γp v mv ∧ g.getD k .null = mv

def RelL (W : World) (Λ : Gam) (st : SState) (locs : Array Value) : Prop :=
  ∀ b k, (b, k) ∈ Λ → ∀ v, envGet st.lenv b = some v → ∃ mv, VR W.ft W.Γp v mv ∧ locs[k]? = some mv

structure Inv (W : World) (Γb Λ : Gam) (nl : Nat) (st : SState) (locs g : Array Value) (l : Value) : Prop where
  relG : RelG W Γb st g
  relL : RelL W Λ st locs
  last : VR W.ft W.Γp st.last l
  size : locs.size = nl

/-- the static side conditions on scopes -/
structure Sc (W : World) (fn : Bool) (Γ Γx Λ : Gam) : Prop where
  okb : GamOK (bigScope fn Γ Γx)
  okl : GamOK Λ
  sub : ∀ p ∈ Γ, p ∈ bigScope fn Γ Γx
  psub : ∀ p ∈ W.Γp, p ∈ bigScope fn Γ Γx

def PoolOK2 (cvals : Array Value) (cs : List Const) : Prop :=
  PoolOK cvals cs ∧ ∀ (k ip nl : Nat), cs[k]? = some (Const.fn ip nl) → cvals[k]? = some (Value.fn ip nl)

def FnOK (W : World) (info : FnInfo) : Prop :=
  CodeAt W.C info.ip (asFnBody info.body (emitB info.body info.ip none info.cs).1) ∧
  PoolOK W.s0.cvals (emitB info.body info.ip none info.cs).2 ∧
  (∃ Γ1 Λ1, YB info.nl true info.Γg (paramScope info.ps) false info.body Γ1 Λ1) ∧
  GamOK (paramScope info.ps) ∧ (∀ p ∈ paramScope info.ps, p.2 < info.nl)

structure WOK (W : World) : Prop where
  inj : FTInj W.ft
  mem : W.s0.mem.managed = []
  fns : ∀ fid info, W.ft fid = some info → FnOK W info

def Fails (C : Code) (s : VM) (er : Err) : Prop := ∃ n s1 s2, execN C n s = some s1 ∧ step C s1 = .error er s2
/-- the machine hits one of its limits (stack height / number of frames at a call): after finitely many good
    steps it stands at a `Call` whose limit check fails (`AtLimit`) — no other index error counts -/
def Ovf (C : Code) (s : VM) : Prop := ∃ n s1, execN C n s = some s1 ∧ AtLimit C s1

theorem Ovf.after {C : Code} {s s1 : VM} (n : Nat) (h1 : execN C n s = some s1) (h2 : Ovf C s1) : Ovf C s := by
  obtain ⟨m, a, ha, hb⟩ := h2
  exact ⟨n + m, a, execN_add C n m s s1 a h1 ha, hb⟩

/-- what is observable of it: an index error after finitely many steps -/
theorem Ovf.fails {C : Code} {s : VM} (h : Ovf C s) : Fails C s .index := by
  obtain ⟨n, s1, hn, hl⟩ := h
  obtain ⟨s2, hs⟩ := hl.step
  exact ⟨n, s1, s2, hn, hs⟩

theorem Fails.after {C : Code} {s s1 : VM} {er : Err} (n : Nat) (h1 : execN C n s = some s1) (h2 : Fails C s1 er) :
    Fails C s er := by
  obtain ⟨m, a, b, ha, hb⟩ := h2
  exact ⟨n + m, a, b, execN_add C n m s s1 a h1 ha, hb⟩

section goals
variable (W : World) (Γb Λ : Gam) (nl : Nat) (below : Array Value) (fr : List Frame)

def Reach (ip : Nat) (locs ops g : Array Value) (l : Value) (ip' : Nat) (ops' : Array Value) (st st' : SState) : Prop :=
  ∃ locs' g' l' n, execN W.C n (mkS W.s0 ip below locs ops g l fr) = some (mkS W.s0 ip' below locs' ops' g' l' fr) ∧
    Inv W Γb Λ nl st' locs' g' l' ∧ st'.out = st.out

/-- the current function returns `v` to its caller -/
def Returns (ip : Nat) (locs ops g : Array Value) (l : Value) (v : SVal) (st st' : SState) : Prop :=
  ∀ fr0 rest, fr = fr0 :: rest → ∃ mv g' l' n, VR W.ft W.Γp v mv ∧
    execN W.C n (mkS W.s0 ip below locs ops g l fr) =
      some { W.s0 with ip := fr0.ip, stack := below.push mv, globals := g', last := l', frames := rest, depth := rest.length, bp := fr0.bp } ∧
    RelG W Γb st' g' ∧ VR W.ft W.Γp st'.last l' ∧ st'.out = st.out

def GoalV (fn ab : Bool) (lp : LoopCtx) (pos : Nat) (locs ops g : Array Value) (l : Value) (endIp : Nat) (base : Array Value)
    (st : SState) (r : Res SVal) : Prop :=
  Ovf W.C (mkS W.s0 pos below locs ops g l fr) ∨
  match r with
  | .val v st' => ∃ mv, VR W.ft W.Γp v mv ∧ Reach W Γb Λ nl below fr pos locs ops g l endIp (base.push mv) st st'
  | .brk st' => ab = true ∧ Reach W Γb Λ nl below fr pos locs ops g l (brkT lp) (base.push .null) st st'
  | .cont st' => ab = true ∧ Reach W Γb Λ nl below fr pos locs ops g l (contT lp) (base.push .null) st st'
  | .ret v st' => fn = true ∧ Returns W Γb below fr pos locs ops g l v st st'
  | .err er _ => Fails W.C (mkS W.s0 pos below locs ops g l fr) er
  | .fuel => True
  | .unspec _ => True
end goals

/-- statements: scopes before (`Γb Λ`) and after (`Γb' Λ'`) -/
def GoalU (W : World) (Γb Λ Γb' Λ' : Gam) (nl : Nat) (below : Array Value) (fr : List Frame) (fn ab : Bool) (lp : LoopCtx)
    (pos : Nat) (locs ops g : Array Value) (l : Value) (endIp : Nat) (st : SState) (r : Res Unit) : Prop :=
  Ovf W.C (mkS W.s0 pos below locs ops g l fr) ∨
  match r with
  | .val () st' => Reach W Γb' Λ' nl below fr pos locs ops g l endIp ops st st'
  | .brk st' => ab = true ∧ Reach W Γb Λ nl below fr pos locs ops g l (brkT lp) (ops.push .null) st st'
  | .cont st' => ab = true ∧ Reach W Γb Λ nl below fr pos locs ops g l (contT lp) (ops.push .null) st st'
  | .ret v st' => fn = true ∧ Returns W Γb below fr pos locs ops g l v st st'
  | .err er _ => Fails W.C (mkS W.s0 pos below locs ops g l fr) er
  | .fuel => True
  | .unspec _ => True

/-- value lists -/
def VRs (W : World) : List SVal → List Value → Prop
  | [], [] => True
  | v :: vs, m :: ms => VR W.ft W.Γp v m ∧ VRs W vs ms
  | _, _ => False

def GoalEs (W : World) (Γb Λ : Gam) (nl : Nat) (below : Array Value) (fr : List Frame) (fn : Bool)
    (pos : Nat) (locs ops g : Array Value) (l : Value) (endIp : Nat) (st : SState) (r : Res (List SVal)) : Prop :=
  Ovf W.C (mkS W.s0 pos below locs ops g l fr) ∨
  match r with
  | .val vs st' => ∃ ms, VRs W vs ms ∧ Reach W Γb Λ nl below fr pos locs ops g l endIp (ops ++ ms.toArray) st st'
  | .brk _ => False
  | .cont _ => False
  | .ret v st' => fn = true ∧ Returns W Γb below fr pos locs ops g l v st st'
  | .err er _ => Fails W.C (mkS W.s0 pos below locs ops g l fr) er
  | .fuel => True
  | .unspec _ => True

end SimF
end Nl
