/- Stage 8, divergence preservation at program and text level: the top-level sequence (`TopS`/`ZTop8`), the depth bound of
   the function table, and the end-to-end statements with exactly the hypotheses of `C01_named_literals_eval_text`
   (validated fragment `inFragment8`), plus the converse of the forward theorem. -/
import Nlmodel.Proofs.Lemmas.Div8Stmt
import Nlmodel.Proofs.Lemmas.Sim8Check
namespace Nl
namespace Sim8
open Spec Sim Sim6 Sim7
open SimH (AMap isStrCell isArrCell Grow PoolH MemOK sameKind LitF LitPool)
open SimF (FT FnInfo FTInj paramScope bigScope lookupD)

/-- every function literal of a program is less deep than the program -/
theorem ztop8_depth {Γ Γ' : Gam} {b : RBlock} {pos : Nat} {cs : List Const} {D : List (Nat × FnInfo)} (hy : ZTop8 Γ b pos cs D Γ') :
    ∀ q ∈ D, dB q.2.body < dB b := by
  induction hy with
  | nil => intro q hq; cases hq
  | stmt Γ Δs Γ1 Γ2 s rest pos cs D hs _ ih =>
    intro q hq
    rcases List.mem_append.mp hq with h | h
    · have := lits_dS s _ _ _ _ q h; simp only [dB]; omega
    · have := ih q h; simp only [dB]; omega

/-- one top-level statement that runs out of fuel -/
theorem dtop_step8 {W : World} {K : Nat} (hW : WOK8 W) (hK : KB W K) {Γ Δs Γ1 : Gam} {s : RStmt} (hy : TopS Γ s Δs Γ1) (hok : GamOK Γ)
    {pos : Nat} {cs : List Const} (F : Nat) {μ : AMap} {st : SState} {g : Array Value} {l : Value} {m : Mem} {out : List Text}
    (hinv : Inv6 (W.at Γ) Γ [] 0 ⟨μ, st, pos, #[], #[], g, l, m, out⟩) (hwt : TI.WT (mk6 W.s0 pos #[] #[] #[] g l [] m out))
    (hcode : CodeAt W.C pos (emitS s pos none cs).1) (hext : Ext (emitS s pos none cs).2 W.CS) (hft : FtS W.ft Δs s pos none cs)
    (hfuel : evalS F s st = .fuel) : DivG W.C (mk6 W.s0 pos #[] #[] #[] g l [] m out) (hb K F (dS s)) := by
  have hplain : ∀ {s : RStmt} {Γ1 Λ1 : Gam}, Z8S Γ 0 false Γ [] false s Γ1 Λ1 → CodeAt W.C pos (emitS s pos none cs).1 →
      Ext (emitS s pos none cs).2 W.CS → FtS W.ft Γ s pos none cs → evalS F s st = .fuel →
      DivG W.C (mk6 W.s0 pos #[] #[] #[] g l [] m out) (hb K F (dS s)) := by
    intro s Γ1 Λ1 hs hcode hext hft hfuel
    have hsc : Sc7 (W.at Γ) Γ false Γ [] [] :=
      ⟨by simpa [bigScope] using hok, by simp [GamOK], by simp [bigScope], by intro p hp; simpa [bigScope, World.at] using hp,
       by intro p hp; simpa [World.at] using hp⟩
    exact (dall8 (hW.at Γ) (hK.at Γ) F).s 0 false Γ [] [] false s Γ1 Λ1 hs ⟨μ, st, pos, #[], #[], g, l, m, out⟩ none cs #[] [] hsc
      (by simpa [bigScope] using hinv) hwt hcode hext hft hfuel
  have hfd : ∀ {fid : Nat} {self : Option Ref} {ps : List Nat} {nlf : Nat} {body : RBlock} {st' : SState} {F' : Nat},
      evalE F' (.func fid self ps nlf body) st' = .fuel → F' = 0 := by
    intro fid self ps nlf body st' F' h
    cases F' with
    | zero => rfl
    | succ F' => cases self <;> simp [evalE] at h
  cases hy with
  | exprS _ Λ1 e he => exact hplain (.expr _ _ _ e _ _ he) hcode hext hft hfuel
  | blockS b Γ1 Λ1 hb => exact hplain (.block _ _ _ b Γ1 Λ1 hb) hcode hext hft hfuel
  | letS _ Λ1 b k e hf he =>
    cases F with
    | zero => rw [hb_zero (dS_pos _)]; exact DivG.zero _ _
    | succ F =>
      have hok' := gamOK_cons hok b k hf
      have hsub : ∀ p ∈ (W.at Γ).Γp, p ∈ (b, k) :: Γ := fun p hp => List.mem_cons_of_mem _ hp
      have hinv' : Inv6 (W.at ((b, k) :: Γ)) Γ [] 0 ⟨μ, st, pos, #[], #[], g, l, m, out⟩ := Inv6.grow (W := W.at Γ) hsub hinv
      have hinv0 := inv6_unbindG b k hf hinv' pos #[]
      have hsc : Sc7 (W.at ((b, k) :: Γ)) ((b, k) :: Γ) false ((b, k) :: Γ) [] [] :=
        ⟨by simpa [bigScope] using hok', by simp [GamOK], by simp [bigScope], by intro p hp; simpa [bigScope, World.at] using hp,
         by intro p hp; simpa [World.at] using hp⟩
      simp only [emitS, setVar] at hcode hext
      obtain ⟨hc1, hc2⟩ := hcode.append
      rw [evalS_let] at hfuel
      have hf0 := bindR_fuel_leaf (fun _ _ h => by cases h) hfuel
      have h1 := (dall8 (hW.at ((b, k) :: Γ)) (hK.at ((b, k) :: Γ)) F).e 0 false ((b, k) :: Γ) [] [] false e _ _ he
        ⟨μ, st.unbind ⟨b, .global k⟩, pos, #[], #[], g, l, m, out⟩ none cs #[] [] hsc (by simpa [bigScope] using hinv0) hwt hc1 hext hft.letS hf0
      exact h1.mono (hb_child (by simp only [dS]; omega))
  | fdef fid b k ps nlf body Γb Λb hf hb hpok hpsz =>
    have hF : F < 2 := by
      cases F with
      | zero => omega
      | succ F =>
        rw [evalS_expr] at hfuel
        have := hfd (bindR_fuel_leaf (fun _ _ h => by cases h) hfuel)
        omega
    rw [hb_lt (by simp only [dS, dE]; have := dB_pos body; omega)]; exact DivG.zero _ _
  | letFdef b k fid bf kf ps nlf body Γb Λb hf hf2 hb hpok hpsz =>
    have hF : F < 2 := by
      cases F with
      | zero => omega
      | succ F =>
        rw [evalS_let] at hfuel
        have := hfd (bindR_fuel_leaf (fun _ _ h => by cases h) hfuel)
        omega
    rw [hb_lt (by simp only [dS, dE]; have := dB_pos body; omega)]; exact DivG.zero _ _

theorem dtop8 {W : World} {K : Nat} (hW : WOK8 W) (hK : KB W K) {Γ Γ' : Gam} {b : RBlock} {pos : Nat} {cs : List Const}
    {D : List (Nat × FnInfo)} (hy : ZTop8 Γ b pos cs D Γ') :
    (∀ q ∈ D, W.ft q.1 = some q.2) → GamOK Γ →
    ∀ (F : Nat) (μ : AMap) (st : SState) (g : Array Value) (l : Value) (m : Mem) (out : List Text),
    Inv6 (W.at Γ) Γ [] 0 ⟨μ, st, pos, #[], #[], g, l, m, out⟩ → TI.WT (mk6 W.s0 pos #[] #[] #[] g l [] m out) →
    CodeAt W.C pos (emitB b pos none cs).1 → Ext (emitB b pos none cs).2 W.CS →
    evalB F b st = .fuel → DivG W.C (mk6 W.s0 pos #[] #[] #[] g l [] m out) (hb K F (dB b)) := by
  induction hy with
  | nil Γ pos cs =>
    intro _ _ F μ st g l m out hinv _ _ _ hfuel
    cases F with
    | zero => rw [hb_zero (dB_pos _)]; exact DivG.zero _ _
    | succ F => simp [evalB] at hfuel
  | stmt Γ Δs Γ1 Γ2 s rest pos cs D hs _ ih =>
    intro hD hok F μ st g l m out hinv hwt hcode hext hfuel
    cases F with
    | zero => rw [hb_zero (dB_pos _)]; exact DivG.zero _ _
    | succ F =>
      have hl := lay_b_cons hcode hext
      simp only [List.forall_mem_append] at hD
      obtain ⟨h1, hok1⟩ := top_step8 hW hs hok F hinv hwt hl.1.1 hl.1.2 hD.1
      rw [evalB_cons] at hfuel
      cases hr1 : evalS F s st with
      | val u st1 =>
        rw [hr1] at h1 hfuel
        simp only [bindR] at hfuel
        rcases h1 with h1 | h1
        · exact .inl h1
        obtain ⟨μ1, g1, l1, m1, out1, n, hn, hinv1⟩ := h1
        have hwt1 := wt_execN n _ _ hwt hn
        have h2 := ih hD.2 hok1 F μ1 st1 g1 l1 m1 out1 hinv1 hwt1 hl.2.1 hl.2.2 hfuel
        exact DivG.after hn (h2.mono (hb_child (by simp only [dB]; omega)))
      | fuel =>
        exact (dtop_step8 hW hK hs hok F hinv hwt hl.1.1 hl.1.2 hD.1 hr1).mono (hb_child (by simp only [dB]; omega))
      | err er st1 => rw [hr1] at hfuel; simp [bindR] at hfuel
      | unspec _ => rw [hr1] at hfuel; simp [bindR] at hfuel
      | brk _ => rw [hr1] at hfuel; simp [bindR] at hfuel
      | cont _ => rw [hr1] at hfuel; simp [bindR] at hfuel
      | ret _ _ => rw [hr1] at hfuel; simp [bindR] at hfuel

/-- DIVERGENCE PRESERVATION, stage 8, whole programs (same hypotheses as `top_program8`): with fuel `F` exhausted the
    machine makes at least `F / dB p` steps, or stops at its limit -/
theorem top_div8_steps (p : RBlock) (D : List (Nat × FnInfo)) (Γ' : Gam) (hy : ZTop8 [] p 0 [] D Γ')
    (hnd : D.Pairwise (fun x y => x.1 ≠ y.1)) (bc : Bytecode) (hc : compileR p = .ok bc) (F : Nat)
    (hfuel : evalB F p {} = .fuel) : DivG bc.code (VM.start {} bc) (hb (dB p) F (dB p)) := by
  obtain ⟨hcode, hconsts, hwf⟩ := compile_general p bc hc
  have hall : CodeAt bc.code 0 ((emitB p 0 none []).1 ++ [.halt]) := ⟨hwf, [], [], by simp [hcode], rfl⟩
  obtain ⟨h1, hhalt⟩ := hall.append
  have hlit : LitPool bc.consts := by rw [hconsts]; exact ztop8_litpool hy (by intro k y hk; simp at hk)
  have hips : D.Pairwise (fun x y => x.2.ip ≠ y.2.ip) := (ztop8_ips hy).ne
  let W : World := { ft := lookupD D, Γp := [], C := bc.code, s0 := VM.start {} bc, CS := bc.consts }
  have hext : Ext (emitB p 0 none []).2 W.CS := by show Ext _ bc.consts; rw [hconsts]; exact Ext.refl _
  have hD : ∀ q ∈ D, W.ft q.1 = some q.2 := fun q hq => SimF.lookupD_of_mem D hnd q hq
  have hW : WOK8 W := by
    refine ⟨?_, ?_, (SimF.start_pool2 bc {}).2⟩
    · intro f1 f2 i1 i2 h1' h2' hip
      have m1 := SimF.lookupD_mem D f1 i1 h1'
      have m2 := SimF.lookupD_mem D f2 i2 h2'
      rcases List.mem_iff_getElem.mp m1 with ⟨a, ha, ea⟩
      rcases List.mem_iff_getElem.mp m2 with ⟨b, hb, eb⟩
      by_cases hab : a = b
      · subst hab; rw [ea] at eb; injection eb
      · exfalso
        rcases Nat.lt_or_gt_of_ne hab with hlt | hgt
        · have := (List.pairwise_iff_getElem.mp hips) a b ha hb hlt
          rw [ea, eb] at this; exact this hip
        · have := (List.pairwise_iff_getElem.mp hips) b a hb ha hgt
          rw [ea, eb] at this; exact this hip.symm
    · intro fid info hft
      have hall := ztop8_fnok (W := W) hy h1 hext hD
      exact hall (fid, info) (SimF.lookupD_mem D fid info hft)
  have hK : KB W (dB p) := fun fid info hft => Nat.le_of_lt (ztop8_depth hy (fid, info) (SimF.lookupD_mem D fid info hft))
  have hstart : mk6 W.s0 0 #[] #[] #[] #[] .null [] (VM.start {} bc).mem [] = VM.start {} bc := by
    simp [mk6, W, VM.start]
  have hinv0 : Inv6 (W.at []) [] [] 0 ⟨fun _ => none, {}, 0, #[], #[], #[], .null, (VM.start {} bc).mem, []⟩ :=
    ⟨fun _ _ hm => (by cases hm), fun _ _ hm => (by cases hm), trivial, rfl, rfl,
     ⟨⟨fun _ _ _ e => (by cases e), fun _ _ e => (by cases e), fun _ _ _ e => (by cases e), fun _ _ _ e => (by cases e)⟩,
      SimH.start_poolH bc hlit, SimH.start_mok bc⟩⟩
  have hwt0 : TI.WT (mk6 W.s0 0 #[] #[] #[] #[] .null [] (VM.start {} bc).mem []) := by
    rw [hstart]; exact TI.start_wt {} bc TI.wt_empty
  have hdiv := dtop8 hW hK hy hD (by simp [GamOK]) F (fun _ => none) {} #[] .null (VM.start {} bc).mem [] hinv0 hwt0 h1 hext hfuel
  rw [hstart] at hdiv
  exact hdiv

/-- (T2, stage 8, on resolved programs) -/
theorem top_div8 (p : RBlock) (D : List (Nat × FnInfo)) (Γ' : Gam) (hy : ZTop8 [] p 0 [] D Γ')
    (hnd : D.Pairwise (fun x y => x.1 ≠ y.1)) (bc : Bytecode) (hc : compileR p = .ok bc)
    (hdiv : ∀ F, evalB F p {} = .fuel) (n : Nat) : NoEnd bc n :=
  ((top_div8_steps p D Γ' hy hnd bc hc (n * dB p + dB p) (hdiv _)).mono (hb_ge (Nat.le_refl _) (dB_pos p))).noEnd

/-- (T2, stage 8) DIVERGENCE PRESERVATION END TO END, named function literals in every expression position, by validation
    (`inFragment8`, the hypotheses of `program8`): if the definitional evaluation of the resolved program runs out of every
    fuel, then for every instruction budget `n` the run of the compiled program on a fresh machine is over budget (it neither
    halts with a value, nor fails with an ordinary error, nor faults), or the machine stops at its stack/frame limit -/
theorem program_div8 (ast : Block) (r : RBlock) (bc : Bytecode) (hc : compileProgram ast = .ok (r, bc)) (hin : inFragment8 r = true)
    (hdiv : ∀ F, Spec.evalB F r {} = .fuel) (n : Nat) :
    (∃ s', runSteps bc.code n (VM.start {} bc) = .budget s') ∨
    HitsLimit bc := by
  obtain ⟨Γ', D, hy⟩ := inFragment8_sound r hin
  unfold compileProgram at hc
  cases hr : resolveProgram ast with
  | error e => simp [hr] at hc
  | ok r' =>
    simp only [hr] at hc
    cases hcr : compileR r' with
    | error e => simp [hcr] at hc
    | ok bc' =>
      simp only [hcr] at hc
      injection hc with hc; injection hc with h1 h2; subst h1; subst h2
      exact top_div8 r' D Γ' hy (resolve_fids_distinct8 ast r' hr hy) bc' hcr hdiv n

/-- (T3, stage 8) DIVERGENCE PRESERVATION ON TEXTS — exactly the hypotheses of `C01_named_literals_eval_text`: if the text
    denotes no result with any fuel, then `eval` gives no result within any budget (neither a value, nor an ordinary error,
    nor a fault) — or stops at the machine's stack/frame limit, exactly as the forward theorem allows -/
theorem eval_text8_div (cc : CharClass) (src : Text) (ast : Block) (r : RBlock) (bc : Bytecode) (hp : parse cc src = .ok ast)
    (hc : compileProgram ast = .ok (r, bc)) (hin : inFragment8 r = true) (hdiv : ∀ F, specText cc F src = .budget) (b : Nat) :
    evalText cc b src = .budget ∨ TextHitsLimit cc src :=
  evalText_of_noEnd hp hc (program_div8 ast r bc hc hin (fun F => specText_budget hp (resolve_of_compile hc) (hdiv F)) b)

/-- (T4, stage 8) THE CONVERSE: what `eval` answers within some budget, other than by stopping at the stack/frame limit, is
    what the text denotes (or the semantics leaves the behaviour unspecified) -/
theorem eval_text8_converse (cc : CharClass) (src : Text) (ast : Block) (r : RBlock) (bc : Bytecode) (hp : parse cc src = .ok ast)
    (hc : compileProgram ast = .ok (r, bc)) (hin : inFragment8 r = true) (b : Nat)
    (hne : evalText cc b src ≠ .budget) (hnl : ¬ TextHitsLimit cc src) :
    ∃ F, specText cc F src = evalText cc b src ∨ specText cc F src = .unspec :=
  converse_of cc src (eval_text8 cc src ast r bc hp hc hin) (eval_text8_div cc src ast r bc hp hc hin) b hne hnl

/-- (T4, for a value) -/
theorem eval_text8_converse_value (cc : CharClass) (src : Text) (ast : Block) (r : RBlock) (bc : Bytecode) (hp : parse cc src = .ok ast)
    (hc : compileProgram ast = .ok (r, bc)) (hin : inFragment8 r = true) (b : Nat) (t : Tree) (out : List Text)
    (hv : evalText cc b src = .value t out) :
    ∃ F, specText cc F src = .value t out ∨ specText cc F src = .unspec := by
  obtain ⟨hne, hnl⟩ := not_limit_of_value hv
  rw [← hv]
  exact eval_text8_converse cc src ast r bc hp hc hin b hne hnl

/-- (T4, for an error that is not of the limit's kind) -/
theorem eval_text8_converse_error (cc : CharClass) (src : Text) (ast : Block) (r : RBlock) (bc : Bytecode) (hp : parse cc src = .ok ast)
    (hc : compileProgram ast = .ok (r, bc)) (hin : inFragment8 r = true) (b : Nat) (e : Err) (out : List Text)
    (hv : evalText cc b src = .error e out) (he : e ≠ .index) :
    ∃ F, specText cc F src = .error e out ∨ specText cc F src = .unspec := by
  obtain ⟨hne, hnl⟩ := not_limit_of_error hv he
  rw [← hv]
  exact eval_text8_converse cc src ast r bc hp hc hin b hne hnl

end Sim8
end Nl
