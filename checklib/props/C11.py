"""C11 — structured control flow goes exactly where the source says."""
import itertools

from .. import core, diff, gen
from ..core import hx
from .common_diff import run_cases, generic_replay

PROOF_MODULE = "Nlmodel.Proofs.C11"
PROOF_FILES = ["Nlmodel/Proofs/C11.lean", "Nlmodel/Proofs/Lemmas/EmitSize.lean", "Nlmodel/Model/Compiler.lean", "Nlmodel/Spec/Eval.lean"]
THEOREM_FILE = PROOF_FILES[0]
LEVEL_TEXT = ("Lean theorems: (code generation) the emitted code of every expression, statement and block has its static size for every position, loop context and constant pool, hence the jump targets of `als` are the first instruction of the else-code and the first instruction after the expression, those of `zolang` are the loop head and the loop exit, `stop`/`volgende` jump to exit/head of the INNERMOST loop, function bodies are compiled without an inherited loop and `antwoord` outside a function is rejected; (definitional semantics) exactly one branch of an `als` runs and a non-boolean condition runs none, a loop ends when the condition is `nee`, `stop` completes the innermost loop with null, `volgende` restarts it; (machine, C11_no_residue - instance of the forward simulation of C01 stages 3/4) an `als`/`zolang` expression of the fragment (scalars, global and local variables, calls, `stop`/`volgende` where no operand is pending) started on ANY operand stack ends at the end of its code with exactly its value pushed and nothing else, `stop`/`volgende` arrive at the exit/head of the innermost loop with exactly `null` pushed on the stack the loop body started with, for any number of iterations; K3 is proved as a kernel-checked counterexample (C11_K3_witness). Tied to compiler.rs/vm.rs by real eval vs definitional evaluator on a complete enumeration of a template set (if-chains x loops x blocks x early exits, every placement of stop/volgende/antwoord, if/while as statements and as values), loops run 0, 1, 2 and 70 000 times, and a residue probe on the real VM (operand-stack height at every loop head and at Halt). No residue inside function bodies: C11_no_residue_in_function_bodies (instance of the stage-4 simulation): in any activation with any suspended callers an expression leaves exactly its value on the operand stack, loops left by stop/volgende/antwoord included.")
LEVEL_NOTE = ("Trusted: Lean kernel; the machine-level 'no residue' theorem covers the scalar/function fragment (C11_no_residue, C11_no_residue_in_function_bodies) AND, since stage 6 of the C01 simulation, expressions, loops and bodies that allocate, call allocating functions and collect (C11_no_residue_with_heap_values_and_calls); only K3 shapes (and the few shapes outside stage 7 of C01) are outside, decided there by the residue probe (hook) and the lockstep correspondence. Known finding K3: stop/volgende evaluated under pending operands leave those operands on the stack; when such a loop is itself a later operand (array element, right operand, argument) the enclosing operator consumes the residue instead of the earlier operand, so the VALUE is wrong (`[5, zolang ja { 1 + als ja { stop } }]` gives [1, null] instead of [5, null]).")
TECHNIQUE = "Lean 4 proof (static sizes => jump targets; structural semantics of control flow; machine-level no-residue by forward simulation) + template enumeration with residue probe"
RULE = ("complete enumeration of templates: if-chains (1-3 arms, with/without else) x loop bodies x exits (stop, volgende, antwoord, none) at "
        "every depth <= 3, as statement and as value, inside and outside functions; loops of 0, 1, 2, 5 and 70 000 iterations; random "
        "nesting to depth 5; non-trivial = distinct program compared, and its residue probe evaluated")
EXHAUSTIVE = True

EXITS = ["", "stop;", "volgende;", "antwoord 100 + i;"]


def templates():
    out = []
    conds = ["i == 1", "i > 1", "ja", "nee", "i % 2 == 0"]
    for n_iter in [0, 1, 2, 5]:
        for c1, x1, x2 in itertools.product(conds, EXITS, EXITS):
            body = "i += 1; als %s { %s acc += i; } anders { %s acc += 10; }; acc += 100;" % (c1, x1, x2)
            loop = "zolang i < %d { %s }" % (n_iter, body)
            uses_ret = "antwoord" in body
            prog = "stel i = 0; stel acc = 0; %s; [i, acc]" % loop
            if not uses_ret:
                out.append(prog)
                out.append("stel i = 0; stel acc = 0; stel v = %s; [i, acc, v]" % loop)       # loop as a value
            out.append("functie f() { stel i = 0; stel acc = 0; %s; [i, acc] } f()" % loop)
            out.append("functie f() { stel i = 0; stel acc = 0; stel v = %s; [i, acc, v] } [f(), f()]" % loop)
    # nested loops: stop/volgende act on the innermost loop only
    for x1, x2 in itertools.product(EXITS[:3], EXITS[:3]):
        out.append("stel i = 0; stel t = 0; zolang i < 3 { i += 1; stel j = 0; zolang j < 3 { j += 1; als j == 2 { %s }; t += 1; }; als i == 2 { %s }; t += 10; }; [i, t]" % (x1, x2))
        out.append("functie f() { stel i = 0; stel t = 0; zolang i < 3 { i += 1; stel j = 0; zolang j < 3 { j += 1; als j == 2 { %s }; t += 1; }; als i == 2 { %s }; t += 10; }; [i, t] } f()" % (x1, x2))
    # if-chains as values
    for a, b, c in itertools.product(["ja", "nee"], repeat=3):
        out.append("als %s { 1 } anders als %s { 2 } anders als %s { 3 } anders { 4 }" % (a, b, c))
        out.append("als %s { 1 } anders als %s { 2 } anders als %s { 3 }" % (a, b, c))
        out.append("stel r = als %s { stel q = 1; } anders als %s { 2; {} } anders { {3} }; r" % (a, b))
        out.append("als %s { als %s { als %s { 1 } } anders { 2 } }" % (a, b, c))
    # antwoord from any depth leaves only the current function
    for d in range(1, 6):
        inner = "antwoord 7;"
        for k in range(d):
            inner = rng_wrap(k, inner)
        out.append("functie g() { %s 8 } functie f() { g() + 1 } [f(), g()]" % inner)
    # WHERE THE EXIT STANDS: the only `stop` (or `volgende`/`antwoord`) of a loop written in a statement-level `als`, in the
    # initialiser of a `stel`, on the right of an assignment, in a nested block, in an `anders`/`anders als` branch, as the value of
    # the body — under loop conditions that are literally `ja`, constant-but-computed, or real — always FOLLOWED by code in the same
    # block, at top level, in a function and in an outer loop: control must arrive at that code (a compiler that decides
    # "this loop never ends, what follows is unreachable" from a syntactic search for `stop` is wrong when it overlooks a position)
    holders = ["als i > 2 { %s };", "stel q = als i > 2 { %s } anders { 1 };", "acc = als i > 2 { %s } anders { acc };", "{ { als i > 2 { %s } } };",
               "als i <= 2 { 1 } anders { %s };", "als i < 1 { 1 } anders als i > 2 { %s } anders { 2 };", "stel q = { als i > 2 { %s } };",
               "als i > 2 { %s } anders { 0 }"]
    lconds = ["ja", "1 == 1", "!nee", "i < 100"]
    for h, lc, ex in itertools.product(holders, lconds, ["stop", "antwoord acc"]):
        body = "i += 1; acc += i; " + (h % ex)
        if ex == "stop":
            out.append("stel i = 0; stel acc = 0; zolang %s { %s }; acc += 1000; [i, acc]" % (lc, body))
            out.append("stel r = 0; stel k = 0; zolang k < 2 { k += 1; stel i = 0; stel acc = 0; zolang %s { %s }; r += acc + 1000; }; [k, r]" % (lc, body))
        out.append("functie f() { stel i = 0; stel acc = 0; zolang %s { %s }; acc += 1000; antwoord [i, acc] } [f(), f()]" % (lc, body))
    # blocks and values
    out += ["{}", "{ 1 }", "{ {} }", "1; {}", "als ja { }", "als ja { {} }", "als ja { 1; {} }", "zolang nee { }", "stel i = 0; zolang i < 3 { i += 1 }",
            "stel i = 0; zolang i < 3 { i += 1; {} }", "stel i = 0; zolang i < 3 { i += 1; stel q = i; }", "functie f() { } f()", "functie f() { {} } f()",
            "functie f() { stel a = 1; } f()", "functie f() { 1; {} } f()", "functie f() { { 2 } } f()", "functie f() { als ja { antwoord 1 } } f()",
            "stel x = als nee { 1 }; x", "stel x = zolang nee { 1 }; x", "stel i = 0; stel x = zolang i < 2 { i += 1; i * 10 }; x"]
    return out


K3_PROBES = [
    "stel x = 0; zolang x < 40 { x += 1; 1 + als ja { volgende } anders { 1 } }; x",
    "[5, zolang ja { 1 + als ja { stop } }]",
    "stel x = 0; [7, zolang x < 3 { x += 1; 10 + als x == 2 { stop } anders { 1 } }]",
]


def function_boundary():
    """`stop` and `volgende` act on a loop of the CURRENT function only: inside a function literal written in a loop body
    they are misplaced (SyntaxError before anything runs) unless the function has a loop of its own around them; only
    `antwoord` leaves a function.  Every nesting of loop / block / als / function between the loop and the exit."""
    out = []
    for ex in ("stop", "volgende"):
        wraps = ["%s", "als ja { %s }", "{ %s }", "als nee { 1 } anders als ja { %s }", "functie() { %s }()", "stel q = 1; %s"]
        for w in wraps:
            inner = w % ex
            out.append(("fn-boundary-misplaced", "stel n = 0; zolang n < 3 { n += 1; stel f = functie() { %s }; f() }; n" % inner))
            out.append(("fn-boundary-misplaced", "stel n = 0; zolang n < 3 { n += 1; functie() { %s }() }; n" % inner))
            out.append(("fn-boundary-misplaced", "functie buiten() { stel n = 0; zolang n < 3 { n += 1; functie binnen() { %s }; binnen() }; n }; buiten()" % inner))
            out.append(("fn-boundary-misplaced", "print(\"voor\"); zolang ja { functie g() { %s }; stop }; 1" % inner))
            # an exit of the OUTER loop written BEFORE a function literal that has a loop of its own (pending exits of the outer loop
            # must be patched by the outer loop, not by the literal's loop)
            out.append(("fn-boundary-outer-exit", "stel n = 0; stel t = 0; zolang n < 5 { n += 1; als n == 3 { %s }; stel f = functie() { stel k = 0; zolang k < 4 { k += 1 }; k }; t = t + f() * 100 }; [n, t]" % ex))
            out.append(("fn-boundary-outer-exit", "functie buiten() { stel n = 0; stel t = 0; zolang n < 5 { n += 1; als n == 3 { %s }; functie binnen() { stel k = 0; zolang k < 4 { k += 1; als k == 2 { %s } }; k }; t = t + binnen() * 100 }; [n, t] }; buiten()" % (ex, ex)))
            out.append(("fn-boundary-outer-exit", "stel n = 0; zolang n < 4 { n += 1; zolang ja { %s }; stel f = functie() { zolang nee { } ; 7 }; als n == 2 { stop }; f() }; n" % ("stop" if ex == "volgende" else ex)))
            # with a loop of its own the same exit is fine, and it ends the INNER loop only
            out.append(("fn-boundary-own-loop", "stel n = 0; zolang n < 3 { n += 1; stel f = functie() { stel k = 0; zolang k < 5 { k += 1; %s }; k }; n = n + f() }; n" % inner))
    return out


def rng_wrap(k, inner):
    forms = ["als ja { %s };", "{ %s };", "stel q%d = 0; zolang q%d < 2 { q%d += 1; %s };" % (k, k, k, "%s"), "als nee { 1 } anders { %s };"]
    return forms[k % len(forms)] % inner


def run(res, tier, rng, table_diffs=()):
    cases = [("template", t) for t in templates()]
    # many iterations: nothing depends on how often a loop ran (past 65 536)
    for n in [70000]:
        cases.append(("long-loop", "stel i = 0; stel s = 0; zolang i < %d { i += 1; als i %% 7 == 0 { volgende }; s += 1; }; functie f(a) { a + 1 } [i, s, f(1)]" % n))
        cases.append(("long-loop", "functie g() { stel i = 0; zolang i < %d { i += 1; {}; als i == 0 { stop }; }; i } [g(), g()]" % n))
        cases.append(("long-loop", "stel i = 0; zolang i < %d { i += 1; als ja { 1 } anders { 2 }; zolang nee { }; }; i" % n))
    random_cases = []
    for _ in range(300 if tier == "quick" else 4000):
        src, _ = gen.random_program(rng.fork(), size=rng.range(20, 70))
        random_cases.append(("random", src))
    cases += function_boundary()
    from .. import gen2
    cases += [("tail-shapes", p) for p in gen2.tail_shape_programs()]
    # `antwoord` (from nested loops) and the end of a body return to JUST BEHIND THE CALL wherever the call lies: calls from and
    # functions beyond byte 65535 of the top-level code (round 10)
    cases += gen2.big_code_programs()
    pad = "som = som + 1;" * 4800
    cases.append(("big-code", "stel som = 0; stel n = 0; functie f(k) { n = n + 1; stel i = 0; zolang ja { zolang ja { i += 1; als i > k { antwoord i } } } };\n" + pad + "\nstel r = f(3); [r, n, som]"))
    cases.append(("big-code", "stel som = 0; stel n = 0; functie g() { n = n + 1; als n > 1 { antwoord 0 - 1 }; n + 1 };\n" + pad + "\n[g(), n, som]"))

    def residue(label, src, r):
        st = diff.stats(r["impl"])
        if not st:
            return None
        if st.get("loopdrift", "0") != "0":
            return "the operand stack height at a loop head differs between iterations (residue)"
        if diff.obs(r["impl"]).startswith("ok") and st.get("halt", "0") != "0":
            return "values were left on the operand stack when the program ended (residue)"
        return None
    sweep = gen2.offset_sweep_programs(1500 if tier == "quick" else 3000, full=False)
    want = {src: exp for src, exp in sweep}
    cases += [("offset-sweep", src) for src, _ in sweep]

    def residue_or_value(label, src, r):
        if label == "offset-sweep" and diff.obs(r["impl"]).split(" | ")[0] != want[src]:
            return "control flow depends on where the code lies: the same construct gives another value at this byte offset"
        return residue(label, src, r)
    run_cases(res, "C11", cases, budget=3000000, extra_oracle=residue_or_value)
    # random programs get the ordinary budget: a runaway loop costs the model 3 000 000 steps otherwise, and thousands of them
    # (thorough tier) land in one worker's chunk
    run_cases(res, "C11", random_cases, budget=300000, extra_oracle=residue)
    # K3 probes: stop/volgende under pending operands (known finding).  (a) the residue itself; (b) its
    # consequence for values: a loop left that way which is itself a later operand makes the enclosing
    # operator consume the residue instead of the earlier operand
    res.seen("K3")
    for k3 in K3_PROBES:
        r = diff.one(k3, 3000000)
        st = diff.stats(r["impl"])
        residue_seen = st.get("loopdrift", "0") != "0" or st.get("halt", "0") != "0"
        cls = diff.classify(r)
        if residue_seen or cls[0] != "ok":
            res.violation("stop/volgende evaluated while an enclosing expression holds pending operands leave those operands on the stack"
                          + ("; the value differs from the definitional semantics: " + cls[1] if cls[0] != "ok" else ""),
                          dict(kind="pending-operand-residue", input=k3, impl=r["impl"], spec=r.get("spec")))


_generic = generic_replay("C11")


def replay(res, rp):
    if rp.get("kind") in ("oracle", "pending-operand-residue"):
        r = diff.one(rp["input"], 3000000)
        st = diff.stats(r["impl"])
        print(r["impl"][-120:])
        if st.get("loopdrift", "0") != "0" or st.get("halt", "0") != "0" or diff.classify(r)[0] != "ok":
            print("VIOLATION property=C11 replay=replay")
            return 1
        return 0
    return _generic(res, rp)
