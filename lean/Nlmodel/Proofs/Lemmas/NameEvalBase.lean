/- NameEval vs Spec.eval on the resolver's output (C09): the relation between the stack of named scopes and
   the resolver's scope stack (name ↦ binder id) + the `genv` of binder ids, and its algebra. -/
import Nlmodel.Spec.NameEval
import Nlmodel.Proofs.Lemmas.ResolveCtl
namespace Nl
namespace NameEval
open Sim Spec

/-- the binder id the resolver's flattened scopes give a name: first match, newest first -/
def findBid : List (Text × Nat) → Text → Option Nat
  | [], _ => none
  | (m, b) :: rest, n => if m = n then some b else findBid rest n

theorem lookupFlat_findBid (l : List (Text × Nat)) (n : Text) : (lookupFlat l n).map Prod.snd = findBid l n := by
  induction l with
  | nil => rfl
  | cons p rest ih =>
    obtain ⟨m, b⟩ := p
    simp only [lookupFlat, findBid]
    split
    · rfl
    · exact ih

theorem findBid_append (a b : List (Text × Nat)) (n : Text) :
    findBid (a ++ b) n = match findBid a n with | some x => some x | none => findBid b n := by
  induction a with
  | nil => rfl
  | cons p rest ih =>
    obtain ⟨m, k⟩ := p
    simp only [List.cons_append, findBid]
    split
    · rfl
    · exact ih

theorem findBid_mem (l : List (Text × Nat)) (n : Text) (b : Nat) (h : findBid l n = some b) : b ∈ l.map Prod.snd := by
  induction l with
  | nil => simp [findBid] at h
  | cons p rest ih =>
    obtain ⟨m, k⟩ := p
    simp only [findBid] at h
    split at h
    · simp only [Option.some.injEq] at h; simp [h]
    · simp only [List.map_cons, List.mem_cons]; exact Or.inr (ih h)

/-- what the resolver's `resolve` answers, under the stage-3 shape of its state -/
theorem resolve_findBid (st : RState) (scs) (h : Inv3 st scs) (n : Text) :
    (findBid scs.flatten n = none → st.resolve n = none) ∧
    (∀ b, findBid scs.flatten n = some b → ∃ k, st.resolve n = some ⟨b, .global k⟩) := by
  obtain ⟨ms, hs⟩ := h.shape
  unfold RState.resolve
  rw [hs]
  simp only [Ctx.resolve, Ctx.flat]
  rw [← lookupFlat_findBid]
  cases hl : lookupFlat scs.flatten n with
  | none => simp [List.getLast?]
  | some p => obtain ⟨idx, bid⟩ := p; simp

/-! ### the relation -/

/-- pointwise relation of two lists of the same length -/
inductive All2 {α β : Type} (R : α → β → Prop) : List α → List β → Prop where
  | nil : All2 R [] []
  | cons {a : α} {b : β} {l : List α} {l' : List β} : R a b → All2 R l l' → All2 R (a :: l) (b :: l')


/-- a named binding and the resolver's entry at the same position: same name, and the binder's `genv` value is the
    binding's value (`none` = no value yet) -/
def RB (g : List (Nat × SVal)) (p : Text × Option SVal) (q : Text × Nat) : Prop :=
  p.1 = q.1 ∧ envGet g q.2 = p.2

abbrev RelSc (g : List (Nat × SVal)) (sc : Scope) (sc' : List (Text × Nat)) : Prop := All2 (RB g) sc sc'
abbrev RelS (g : List (Nat × SVal)) (ρs : List Scope) (scs : List (List (Text × Nat))) : Prop :=
  All2 (RelSc g) ρs scs

/-- binder ids of the resolver's live scopes -/
def bids (scs : List (List (Text × Nat))) : List Nat := scs.flatten.map Prod.snd

structure Rel (ρ : NState) (scs : List (List (Text × Nat))) (σ : SState) : Prop where
  env : RelS σ.genv ρ.scopes scs
  store : ρ.store = σ.store
  last : ρ.last = σ.last
  out : ρ.out = σ.out

theorem relSc_congr {g g' : List (Nat × SVal)} {sc : Scope} {sc' : List (Text × Nat)}
    (h : RelSc g sc sc') (hg : ∀ q ∈ sc', envGet g' q.2 = envGet g q.2) : RelSc g' sc sc' := by
  induction h with
  | nil => exact .nil
  | cons hd _ ih =>
    refine .cons ⟨hd.1, ?_⟩ (ih fun q hq => hg q (List.mem_cons_of_mem _ hq))
    rw [hg _ List.mem_cons_self]; exact hd.2

theorem relS_congr {g g' : List (Nat × SVal)} {ρs : List Scope} {scs : List (List (Text × Nat))}
    (h : RelS g ρs scs) (hg : ∀ b ∈ bids scs, envGet g' b = envGet g b) : RelS g' ρs scs := by
  induction h with
  | nil => exact .nil
  | @cons sc sc' _ scs' hd _ ih =>
    refine .cons (relSc_congr hd fun q hq => hg q.2 ?_) (ih fun b hb => hg b ?_)
    · simp only [bids, List.flatten_cons, List.map_append, List.mem_append, List.mem_map]
      exact Or.inl ⟨q, hq, rfl⟩
    · simp only [bids, List.flatten_cons, List.map_append, List.mem_append]
      exact Or.inr hb

theorem lookupScope_rel {g : List (Nat × SVal)} {sc : Scope} {sc' : List (Text × Nat)} (h : RelSc g sc sc') (n : Text) :
    lookupScope sc n = (findBid sc' n).map (envGet g) := by
  induction h with
  | nil => rfl
  | @cons p q _ _ hd _ ih =>
    obtain ⟨m, w⟩ := p
    obtain ⟨m', b⟩ := q
    obtain ⟨h1, h2⟩ := hd
    simp only at h1 h2
    subst h1
    simp only [lookupScope, findBid]
    split
    · simp [h2]
    · exact ih

theorem lookup_rel {g : List (Nat × SVal)} {ρs : List Scope} {scs : List (List (Text × Nat))} (h : RelS g ρs scs) (n : Text) :
    lookup ρs n = (findBid scs.flatten n).map (envGet g) := by
  induction h with
  | nil => rfl
  | @cons sc sc' _ _ hd _ ih =>
    simp only [lookup, List.flatten_cons, findBid_append, lookupScope_rel hd n]
    cases findBid sc' n with
    | none => simpa using ih
    | some b => rfl

theorem updateScope_rel {g : List (Nat × SVal)} {sc : Scope} {sc' : List (Text × Nat)} (h : RelSc g sc sc') (n : Text) (v : SVal)
    (hnd : (sc'.map Prod.snd).Nodup) :
    (findBid sc' n = none → updateScope sc n v = none) ∧
    (∀ b, findBid sc' n = some b → ∃ sc2, updateScope sc n v = some sc2 ∧ RelSc (envSet g b v) sc2 sc') := by
  induction h with
  | nil => exact ⟨fun _ => rfl, fun b hb => by simp [findBid] at hb⟩
  | @cons p q l l' hd htl ih =>
    obtain ⟨m, w⟩ := p
    obtain ⟨m', b'⟩ := q
    obtain ⟨h1, h2⟩ := hd
    simp only at h1 h2
    subst h1
    simp only [List.map_cons, List.nodup_cons] at hnd
    obtain ⟨hni, hnd'⟩ := hnd
    obtain ⟨ih1, ih2⟩ := ih hnd'
    simp only [updateScope, findBid]
    by_cases hm : m = n
    · simp only [hm, ↓reduceIte]
      refine ⟨fun h => (nomatch h), fun b hb => ?_⟩
      simp only [Option.some.injEq] at hb
      subst hb
      refine ⟨_, rfl, .cons ⟨rfl, envGet_envSet_same _ _ _⟩ (relSc_congr htl fun q hq => ?_)⟩
      exact envGet_envSet_other _ _ _ _ (fun he => hni (by rw [← he]; exact List.mem_map_of_mem hq))
    · simp only [hm, ↓reduceIte]
      refine ⟨fun h => by rw [ih1 h], fun b hb => ?_⟩
      obtain ⟨sc2, hsc2, hr⟩ := ih2 b hb
      rw [hsc2]
      refine ⟨_, rfl, .cons ⟨rfl, ?_⟩ hr⟩
      simp only
      rw [envGet_envSet_other _ _ _ _ (fun he => hni (by rw [he]; exact findBid_mem _ _ _ hb))]
      exact h2

theorem update_rel {g : List (Nat × SVal)} {ρs : List Scope} {scs : List (List (Text × Nat))} (h : RelS g ρs scs) (n : Text) (v : SVal)
    (hnd : (bids scs).Nodup) :
    (findBid scs.flatten n = none → update ρs n v = none) ∧
    (∀ b, findBid scs.flatten n = some b → ∃ ρs2, update ρs n v = some ρs2 ∧ RelS (envSet g b v) ρs2 scs) := by
  induction h with
  | nil => exact ⟨fun _ => rfl, fun b hb => by simp [findBid] at hb⟩
  | @cons sc sc' l l' hd htl ih =>
    simp only [bids, List.flatten_cons, List.map_append] at hnd
    obtain ⟨hnd1, hnd2, hdis⟩ := List.nodup_append.mp hnd
    obtain ⟨ih1, ih2⟩ := ih hnd2
    obtain ⟨u1, u2⟩ := updateScope_rel hd n v hnd1
    simp only [update, List.flatten_cons, findBid_append]
    cases hf : findBid sc' n with
    | none =>
      simp only [u1 hf]
      refine ⟨fun h => by rw [ih1 h], fun b hb => ?_⟩
      obtain ⟨ρs2, h2, hr⟩ := ih2 b hb
      rw [h2]
      refine ⟨_, rfl, .cons (relSc_congr hd fun q hq => ?_) hr⟩
      exact envGet_envSet_other _ _ _ _ (fun he =>
        hdis q.2 (List.mem_map_of_mem hq) b (findBid_mem _ _ _ hb) he)
    | some b0 =>
      refine ⟨fun h => (nomatch h), fun b hb => ?_⟩
      simp only [Option.some.injEq] at hb
      subst hb
      obtain ⟨sc2, hsc2, hr⟩ := u2 b0 hf
      simp only [hsc2]
      refine ⟨_, rfl, .cons hr (relS_congr htl fun b hb => ?_)⟩
      exact envGet_envSet_other _ _ _ _ (fun he =>
        hdis b0 (findBid_mem _ _ _ hf) b hb he.symm)

/-! ### state operations -/

theorem Rel.push {ρ : NState} {scs} {σ : SState} (h : Rel ρ scs σ) : Rel ρ.push ([] :: scs) σ :=
  ⟨.cons .nil h.env, h.store, h.last, h.out⟩

theorem Rel.pop {ρ : NState} {sc scs} {σ : SState} (h : Rel ρ (sc :: scs) σ) : Rel ρ.pop scs σ := by
  obtain ⟨he, hs, hl, ho⟩ := h
  obtain ⟨ρs, st, la, ou⟩ := ρ
  cases he with
  | cons _ htl => exact ⟨htl, hs, hl, ho⟩

theorem Rel.setLast {ρ : NState} {scs} {σ : SState} (h : Rel ρ scs σ) (v : SVal) :
    Rel { ρ with last := v } scs { σ with last := v } :=
  ⟨h.env, h.store, rfl, h.out⟩

theorem bind_global (σ : SState) (b k : Nat) (v : SVal) :
    σ.bind ⟨b, .global k⟩ v = { σ with genv := envSet σ.genv b v } := by
  simp [SState.bind, isGlobalSlot]

theorem unbind_global (σ : SState) (b k : Nat) :
    σ.unbind ⟨b, .global k⟩ = { σ with genv := envDel σ.genv b } := by
  simp [SState.unbind, isGlobalSlot]

theorem lookup_global (σ : SState) (b k : Nat) : σ.lookup ⟨b, .global k⟩ = envGet σ.genv b := by
  simp [SState.lookup, isGlobalSlot]

/-- `stel n`: the resolver gives `n` the fresh binder `id`; the semantics forgets any stale value of `id` -/
theorem Rel.declare {ρ : NState} {sc scs} {σ : SState} (h : Rel ρ (sc :: scs) σ) (n : Text) (id : Nat)
    (hfresh : ∀ b ∈ bids (sc :: scs), b ≠ id) :
    Rel (ρ.declare n) (((n, id) :: sc) :: scs) { σ with genv := envDel σ.genv id } := by
  obtain ⟨he, hs, hl, ho⟩ := h
  obtain ⟨ρs, st, la, ou⟩ := ρ
  have he' := relS_congr (g' := envDel σ.genv id) he (fun b hb => envGet_envDel_other _ _ _ (hfresh b hb))
  cases he' with
  | cons hd htl =>
    exact ⟨.cons (.cons ⟨rfl, envGet_envDel_same _ _⟩ hd) htl, hs, hl, ho⟩

/-- assignment through a name = `envSet` of the binder the resolver found for it -/
theorem Rel.assign {ρ : NState} {scs} {σ : SState} (h : Rel ρ scs σ) (hnd : (bids scs).Nodup) (n : Text) (b : Nat) (v : SVal)
    (hb : findBid scs.flatten n = some b) :
    ∃ ρ2, ρ.assign n v = some ρ2 ∧ Rel ρ2 scs { σ with genv := envSet σ.genv b v } := by
  obtain ⟨ρs2, h2, hr⟩ := (update_rel h.env n v hnd).2 b hb
  refine ⟨{ ρ with scopes := ρs2 }, by simp [NState.assign, h2], ⟨hr, h.store, h.last, h.out⟩⟩

/-! ### the shared value operations only look at the store -/

theorem view_mem {ρ : NState} {σ : SState} (h : ρ.store = σ.store) (v : SVal) : ρ.mem.view v = σ.view v := by
  cases v <;> simp [SState.view, SState.strAt, SState.arrAt, NState.mem, h]

theorem box_mem {ρ : NState} {σ : SState} (h : ρ.store = σ.store) (a : SVal) (p : PRes) :
    (ρ.mem.box a p).1 = (σ.box a p).1 ∧ (ρ.mem.box a p).2.store = (σ.box a p).2.store ∧
    (σ.box a p).2.genv = σ.genv ∧ (σ.box a p).2.last = σ.last ∧ (σ.box a p).2.out = σ.out := by
  cases p <;> simp [SState.box, SState.alloc, NState.mem, h]

theorem tree_mem {ρ : NState} {σ : SState} (h : ρ.store = σ.store) :
    ∀ (f : Nat) (path : List Nat) (v : SVal), ρ.mem.tree f path v = σ.tree f path v := by
  intro f
  induction f with
  | zero => intro path v; rfl
  | succ f ih =>
    intro path v
    cases v with
    | arr a =>
      simp only [SState.tree]
      cases path.idxOf? a with
      | some k => rfl
      | none =>
        have : ρ.mem.arrAt a = σ.arrAt a := by simp [SState.arrAt, NState.mem, h]
        simp only [this]
        congr 1
        exact List.map_congr_left fun x _ => ih _ x
    | str a => simp [SState.tree, SState.strAt, NState.mem, h]
    | _ => rfl

theorem binOf_eq (op : Op) : binOf op = opToBin op := by cases op <;> rfl

end NameEval
end Nl
