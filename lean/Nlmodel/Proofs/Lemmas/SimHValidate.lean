/- Stage 5: decidable fragment check (validation of resolved programs) and the theorem from source trees. -/
import Nlmodel.Proofs.Lemmas.SimHProgram
import Nlmodel.Proofs.Lemmas.SimFnValidate
namespace Nl
namespace SimH
open Spec Sim

/-! ## a decidable, sound check for membership in the stage-5 fragment -/

def litFb (x : UInt64) : Bool := !F64.isNeg x && !F64.isNaN x

theorem litFb_sound (x : UInt64) (h : litFb x = true) : LitF x := by
  simp only [litFb, Bool.and_eq_true, Bool.not_eq_true'] at h
  exact h

mutual
def chkHE (Γ : Gam) (ab : Bool) : RExpr → Bool
  | .int _ => true
  | .bool _ => true
  | .float x => litFb x
  | .str _ => true
  | .not e => chkHE Γ ab e
  | .neg e => chkHE Γ ab e
  | .infix l _ r => chkHE Γ ab l && chkHE Γ false r
  | .var ⟨b, .global k⟩ => SimF.memG Γ b k
  | .assignVar ⟨b, .global k⟩ e => SimF.memG Γ b k && chkHE Γ ab e
  | .arr vs => chkHEs Γ vs
  | .index l i => chkHE Γ ab l && chkHE Γ false i
  | .assignIndex l i v => chkHE Γ ab l && chkHE Γ false i && chkHE Γ false v
  | .callBuiltin _ as => chkHEs Γ as
  | .ifE c t e => chkHE Γ ab c && (chkHB Γ ab t).isSome && chkHO Γ ab e
  | .whileE c b => chkHE Γ false c && (chkHB Γ true b).isSome
  | _ => false
def chkHEs (Γ : Gam) : RExprs → Bool
  | .nil => true
  | .cons e es => chkHE Γ false e && chkHEs Γ es
def chkHO (Γ : Gam) (ab : Bool) : ROptBlock → Bool
  | .none => true
  | .some b => (chkHB Γ ab b).isSome
def chkHS (Γ : Gam) (ab : Bool) : RStmt → Option Gam
  | .expr e => if chkHE Γ ab e then some Γ else none
  | .letS ⟨b, .global k⟩ e => if SimF.freshG Γ b k && chkHE ((b, k) :: Γ) ab e then some ((b, k) :: Γ) else none
  | .block b => if (chkHB Γ ab b).isSome then some Γ else none
  | .brk => if ab then some Γ else none
  | .cont => if ab then some Γ else none
  | _ => none
def chkHB (Γ : Gam) (ab : Bool) : RBlock → Option Gam
  | .nil => some Γ
  | .cons s b =>
    match chkHS Γ ab s with
    | some Γ1 => chkHB Γ1 ab b
    | none => none
end

mutual
theorem chkHE_sound : (e : RExpr) → ∀ (Γ : Gam) (ab : Bool), chkHE Γ ab e = true → HE Γ ab e
  | .int v, Γ, ab, _ => .int _ _ v
  | .bool b, Γ, ab, _ => .bool _ _ b
  | .float x, Γ, ab, h => by simp only [chkHE] at h; exact .float _ _ x (litFb_sound x h)
  | .str s, Γ, ab, _ => .str _ _ s
  | .not e, Γ, ab, h => by simp only [chkHE] at h; exact .not _ _ e (chkHE_sound e Γ ab h)
  | .neg e, Γ, ab, h => by simp only [chkHE] at h; exact .neg _ _ e (chkHE_sound e Γ ab h)
  | .infix l op r, Γ, ab, h => by
    simp only [chkHE, Bool.and_eq_true] at h
    exact .bin _ _ l op r (chkHE_sound l Γ ab h.1) (chkHE_sound r Γ false h.2)
  | .var ⟨b, .global k⟩, Γ, ab, h => by simp only [chkHE] at h; exact .var _ _ b k (SimF.memG_sound h)
  | .var ⟨b, .loc k⟩, _, _, h => by simp [chkHE] at h
  | .assignVar ⟨b, .global k⟩ e, Γ, ab, h => by
    simp only [chkHE, Bool.and_eq_true] at h; exact .assign _ _ b k e (SimF.memG_sound h.1) (chkHE_sound e Γ ab h.2)
  | .assignVar ⟨b, .loc k⟩ e, _, _, h => by simp [chkHE] at h
  | .arr vs, Γ, ab, h => by simp only [chkHE] at h; exact .arr _ _ vs (chkHEs_sound vs Γ h)
  | .index l i, Γ, ab, h => by
    simp only [chkHE, Bool.and_eq_true] at h; exact .index _ _ l i (chkHE_sound l Γ ab h.1) (chkHE_sound i Γ false h.2)
  | .assignIndex l i v, Γ, ab, h => by
    simp only [chkHE, Bool.and_eq_true] at h
    exact .assignIndex _ _ l i v (chkHE_sound l Γ ab h.1.1) (chkHE_sound i Γ false h.1.2) (chkHE_sound v Γ false h.2)
  | .callBuiltin b as, Γ, ab, h => by simp only [chkHE] at h; exact .builtin _ _ b as (chkHEs_sound as Γ h)
  | .ifE c t e, Γ, ab, h => by
    simp only [chkHE, Bool.and_eq_true] at h
    obtain ⟨⟨hc, ht⟩, he⟩ := h
    cases hb : chkHB Γ ab t with
    | none => simp [hb] at ht
    | some Γ1 => exact .ifE _ _ c t e Γ1 (chkHE_sound c Γ ab hc) (chkHB_sound t Γ ab Γ1 hb) (chkHO_sound e Γ ab he)
  | .whileE c b, Γ, ab, h => by
    simp only [chkHE, Bool.and_eq_true] at h
    cases hb : chkHB Γ true b with
    | none => simp [hb] at h
    | some Γ1 => exact .whileE _ _ c b Γ1 (chkHE_sound c Γ false h.1) (chkHB_sound b Γ true Γ1 hb)
  | .func _ _ _ _ _, _, _, h => by simp [chkHE] at h
  | .call _ _, _, _, h => by simp [chkHE] at h
theorem chkHEs_sound : (es : RExprs) → ∀ (Γ : Gam), chkHEs Γ es = true → HEs Γ es
  | .nil, Γ, _ => .nil _
  | .cons e es, Γ, h => by
    simp only [chkHEs, Bool.and_eq_true] at h
    exact .cons _ e es (chkHE_sound e Γ false h.1) (chkHEs_sound es Γ h.2)
theorem chkHO_sound : (o : ROptBlock) → ∀ (Γ : Gam) (ab : Bool), chkHO Γ ab o = true → HO Γ ab o
  | .none, Γ, ab, _ => .none _ _
  | .some b, Γ, ab, h => by
    simp only [chkHO] at h
    cases hb : chkHB Γ ab b with
    | none => simp [hb] at h
    | some Γ1 => exact .some _ _ b Γ1 (chkHB_sound b Γ ab Γ1 hb)
theorem chkHS_sound : (s : RStmt) → ∀ (Γ : Gam) (ab : Bool) (Γ1 : Gam), chkHS Γ ab s = some Γ1 → HS Γ ab s Γ1
  | .expr e, Γ, ab, Γ1, h => by
    simp only [chkHS] at h
    split at h
    · rename_i hc; injection h with h; subst h; exact .expr _ _ e (chkHE_sound e Γ ab hc)
    · cases h
  | .letS ⟨b, .global k⟩ e, Γ, ab, Γ1, h => by
    simp only [chkHS] at h
    split at h
    · rename_i hc; injection h with h; subst h
      simp only [Bool.and_eq_true] at hc
      exact .letS _ _ b k e (SimF.freshG_sound hc.1) (chkHE_sound e _ ab hc.2)
    · cases h
  | .letS ⟨b, .loc k⟩ e, _, _, _, h => by simp [chkHS] at h
  | .block b, Γ, ab, Γ1, h => by
    simp only [chkHS] at h
    split at h
    · rename_i hc; injection h with h; subst h
      cases hb : chkHB Γ ab b with
      | none => simp [hb] at hc
      | some Γ2 => exact .block _ _ b Γ2 (chkHB_sound b Γ ab Γ2 hb)
    · cases h
  | .brk, Γ, ab, Γ1, h => by
    simp only [chkHS] at h
    split at h
    · rename_i hc; injection h with h; subst h; subst hc; exact .brk _
    · cases h
  | .cont, Γ, ab, Γ1, h => by
    simp only [chkHS] at h
    split at h
    · rename_i hc; injection h with h; subst h; subst hc; exact .cont _
    · cases h
  | .ret _, _, _, _, h => by simp [chkHS] at h
theorem chkHB_sound : (b : RBlock) → ∀ (Γ : Gam) (ab : Bool) (Γ1 : Gam), chkHB Γ ab b = some Γ1 → HB Γ ab b Γ1
  | .nil, Γ, ab, Γ1, h => by simp only [chkHB] at h; injection h with h; subst h; exact .nil _ _
  | .cons s b, Γ, ab, Γ1, h => by
    simp only [chkHB] at h
    cases hs : chkHS Γ ab s with
    | none => simp [hs] at h
    | some Γ2 =>
      simp only [hs] at h
      exact .cons _ _ Γ2 _ s b (chkHS_sound s Γ ab Γ2 hs) (chkHB_sound b Γ2 ab Γ1 h)
end

/-- validation of a resolved program against the stage-5 fragment -/
def inFragmentH (p : RBlock) : Bool := (chkHB [] false p).isSome

theorem inFragmentH_sound (p : RBlock) (h : inFragmentH p = true) : ∃ Γ', HB [] false p Γ' := by
  unfold inFragmentH at h
  cases hc : chkHB [] false p with
  | none => simp [hc] at h
  | some Γ' => exact ⟨Γ', chkHB_sound p [] false Γ' hc⟩

/-- END TO END FROM SOURCE TREES, stage 5, by validation -/
theorem heap_source_program (ast : Block) (r : RBlock) (bc : Bytecode) (hc : compileProgram ast = .ok (r, bc))
    (hin : inFragmentH r = true) (F : Nat) :
    match evalB F r {} with
    | .val () st' => ∃ mv n s', (∀ k, runSteps bc.code (n + k) (VM.start {} bc) = .value mv s') ∧
        s'.mem.heap.tree treeDepth [] mv = st'.tree treeDepth [] st'.last ∧ s'.out = st'.out ∧
        (finishValue mv s').mem.heap.tree treeDepth [] mv = s'.mem.heap.tree treeDepth [] mv
    | .err er ste => ∃ n s', (∀ k, runSteps bc.code (n + k) (VM.start {} bc) = .error er s') ∧ s'.out = ste.out
    | .brk _ => False
    | .cont _ => False
    | .ret _ _ => False
    | _ => True := by
  obtain ⟨Γ', hx⟩ := inFragmentH_sound r hin
  unfold compileProgram at hc
  cases hr : resolveProgram ast with
  | error e => simp [hr] at hc
  | ok r' =>
    simp only [hr] at hc
    cases hcr : compileR r' with
    | error e => simp [hcr] at hc
    | ok bc' =>
      simp only [hcr] at hc
      injection hc with hc; injection hc with h1 h2; subst h1; subst h2
      exact heap_program r' Γ' hx bc' hcr F

/-- THE OBSERVATION ITSELF, stage 5: for a text whose resolved tree lies in the fragment, whatever the
    definitional semantics answers with some fuel (a value with its printed output, or an error after
    its printed output) is exactly what `eval` answers on the machine for every large enough
    instruction budget — including the hand-over of the result at `Halt` (`untrace`) and the release
    of everything else by the run's collector (`destroy`) -/
theorem heap_eval_text (cc : CharClass) (src : Text) (ast : Block) (r : RBlock) (bc : Bytecode) (hp : parse cc src = .ok ast)
    (hc : compileProgram ast = .ok (r, bc)) (hin : inFragmentH r = true) (F : Nat) :
    match specText cc F src with
    | .value t out => ∃ n, ∀ k, evalText cc (n + k) src = .value t out
    | .error e out => ∃ n, ∀ k, evalText cc (n + k) src = .error e out
    | .fault _ => False
    | _ => True := by
  have hsim := heap_source_program ast r bc hc hin F
  have hres : resolveProgram ast = .ok r := by
    unfold compileProgram at hc
    cases hr : resolveProgram ast with
    | error e => simp [hr] at hc
    | ok r' =>
      simp only [hr] at hc
      cases hcr : compileR r' with
      | error e => simp [hcr] at hc
      | ok bc' => simp only [hcr] at hc; injection hc with hc; injection hc with h1 h2; rw [h1]
  simp only [specText, hp, hres, Spec.evalProgram]
  cases hr : evalB F r {} with
  | val u st' =>
    rw [hr] at hsim
    obtain ⟨mv, n, s', hn, ht, ho, hf⟩ := hsim
    refine ⟨n, fun k => ?_⟩
    simp only [evalText, hp, hc, VM.run, hn k]
    rw [hf, ht]
    have : (finishValue mv s').out = s'.out := rfl
    rw [this, ho]
  | err er ste =>
    rw [hr] at hsim
    obtain ⟨n, s', hn, ho⟩ := hsim
    refine ⟨n, fun k => ?_⟩
    simp only [evalText, hp, hc, VM.run, hn k]
    have : (finishError s').out = s'.out := rfl
    rw [this, ho]
  | fuel => trivial
  | brk _ => rw [hr] at hsim; exact hsim.elim
  | cont _ => rw [hr] at hsim; exact hsim.elim
  | ret _ _ => rw [hr] at hsim; exact hsim.elim
  | unspec _ => trivial

end SimH
end Nl
