/- Property R1 of the resolver for the stage-5 fragment: heap values, builtins, structured control flow,
   nested scopes; validation-free end-to-end theorems of stage 5 (C01). -/
import Nlmodel.Proofs.Lemmas.ResolveCtl
import Nlmodel.Proofs.Lemmas.SimHValidate
namespace Nl
namespace SimH
open Spec Sim

/-! ## the source fragment of stage 5 -/

mutual
/-- source expressions of stage 5; the flag has the meaning it has in `HE` ("`stop`/`volgende` allowed here:
    no operand pending") -/
inductive SHE : Bool → Expr → Prop where
  | int (ab) (v : Int) : SHE ab (.int v)
  | bool (ab) (b : Bool) : SHE ab (.bool b)
  | float (ab) (x : UInt64) : LitF x → SHE ab (.float x)
  | str (ab) (s : Text) : SHE ab (.str s)
  | ident (ab) (n : Text) : SHE ab (.ident n)
  | not (ab) (e : Expr) : SHE ab e → SHE ab (.pre .not e)
  | neg (ab) (e : Expr) : SHE ab e → SHE ab (.pre .sub e)
  | negate (ab) (e : Expr) : SHE ab e → SHE ab (.pre .negate e)
  | bin (ab) (l : Expr) (op : Op) (r : Expr) (bop : BinOp) : opToBin op = some bop → SHE ab l → SHE false r → SHE ab (.infix l op r)
  | assign (ab) (n : Text) (e : Expr) : SHE ab e → SHE ab (.assign (.ident n) e)
  | assignIndex (ab) (a i v : Expr) : SHE ab a → SHE false i → SHE false v → SHE ab (.assign (.index a i) v)
  | arr (ab) (vs : Exprs) : SHEs vs → SHE ab (.arr vs)
  | index (ab) (l i : Expr) : SHE ab l → SHE false i → SHE ab (.index l i)
  /-- calls of builtins only; the resolver looks the NAME up among the builtins first, before any variable -/
  | builtin (ab) (n : Text) (as : Exprs) (b : Builtin) : Builtin.resolve n = some b → SHEs as → SHE ab (.call (.ident n) as)
  | ifE (ab) (c : Expr) (t : Block) (e : OptBlock) : SHE ab c → SHB ab t → SHO ab e → SHE ab (.ifE c t e)
  | whileE (ab) (c : Expr) (b : Block) : SHE false c → SHB true b → SHE ab (.whileE c b)
inductive SHEs : Exprs → Prop where
  | nil : SHEs .nil
  | cons (e : Expr) (es : Exprs) : SHE false e → SHEs es → SHEs (.cons e es)
inductive SHO : Bool → OptBlock → Prop where
  | none (ab) : SHO ab .none
  | some (ab) (b : Block) : SHB ab b → SHO ab (.some b)
inductive SHS : Bool → Stmt → Prop where
  | expr (ab) (e : Expr) : SHE ab e → SHS ab (.expr e)
  | letS (ab) (n : Text) (e : Expr) : SHE ab e → SHS ab (.letS n e)
  | block (ab) (b : Block) : SHB ab b → SHS ab (.block b)
  | brk : SHS true .brk
  | cont : SHS true .cont
inductive SHB : Bool → Block → Prop where
  | nil (ab) : SHB ab .nil
  | cons (ab) (s : Stmt) (b : Block) : SHS ab s → SHB ab b → SHB ab (.cons s b)
end

/-! ## property R1 of the resolver for the stage-5 fragment -/

mutual
theorem rHE : (e : Expr) → ∀ (ab : Bool) (scs : List (List (Text × Nat))) (st : RState) (e' : RExpr) (st' : RState),
    SHE ab e → Inv3 st scs → resolveE e st = .ok (e', st') → HE (G scs) ab e' ∧ Inv3 st' scs
  | .int v, ab, scs, st, e', st', _, hinv, h => by
    simp only [resolveE] at h; injection h with h; injection h with h1 h2; subst h1; subst h2
    exact ⟨.int _ _ v, hinv⟩
  | .bool b, ab, scs, st, e', st', _, hinv, h => by
    simp only [resolveE] at h; injection h with h; injection h with h1 h2; subst h1; subst h2
    exact ⟨.bool _ _ b, hinv⟩
  | .float x, ab, scs, st, e', st', hs, hinv, h => by
    simp only [resolveE] at h; injection h with h; injection h with h1 h2; subst h1; subst h2
    cases hs with
    | float _ _ hl => exact ⟨.float _ _ x hl, hinv⟩
  | .str s, ab, scs, st, e', st', _, hinv, h => by
    simp only [resolveE] at h; injection h with h; injection h with h1 h2; subst h1; subst h2
    exact ⟨.str _ _ s, hinv⟩
  | .ident n, ab, scs, st, e', st', _, hinv, h => by
    simp only [resolveE] at h
    cases hr : st.resolve n with
    | none => simp [hr] at h
    | some r =>
      simp only [hr] at h
      injection h with h; injection h with h1 h2; subst h1; subst h2
      obtain ⟨k, hk, hm⟩ := inv3_resolve st scs hinv n r hr
      rw [hk]
      exact ⟨.var _ _ r.bid k hm, hinv⟩
  | .pre op r, ab, scs, st, e', st', hs, hinv, h => by
    simp only [resolveE] at h
    cases hr : resolveE r st with
    | error er => simp [hr] at h
    | ok p =>
      obtain ⟨r1, st1⟩ := p
      simp only [hr] at h
      cases hs with
      | not _ _ hsr =>
        injection h with h; injection h with h1 h2; subst h1; subst h2
        obtain ⟨hx, hi⟩ := rHE r ab scs st r1 st1 hsr hinv hr
        exact ⟨.not _ _ r1 hx, hi⟩
      | neg _ _ hsr =>
        injection h with h; injection h with h1 h2; subst h1; subst h2
        obtain ⟨hx, hi⟩ := rHE r ab scs st r1 st1 hsr hinv hr
        exact ⟨.neg _ _ r1 hx, hi⟩
      | negate _ _ hsr =>
        injection h with h; injection h with h1 h2; subst h1; subst h2
        obtain ⟨hx, hi⟩ := rHE r ab scs st r1 st1 hsr hinv hr
        exact ⟨.neg _ _ r1 hx, hi⟩
  | .assign (.ident n) r, ab, scs, st, e', st', hs, hinv, h => by
    cases hs with
    | assign _ _ _ hsr =>
      simp only [resolveE] at h
      cases hres : st.resolve n with
      | none => simp [hres] at h
      | some ref =>
        simp only [hres] at h
        cases hr : resolveE r st with
        | error er => simp [hr] at h
        | ok p =>
          obtain ⟨r1, st1⟩ := p
          simp only [hr] at h
          injection h with h; injection h with h1 h2; subst h1; subst h2
          obtain ⟨hx, hi⟩ := rHE r ab scs st r1 st1 hsr hinv hr
          obtain ⟨k, hk, hm⟩ := inv3_resolve st scs hinv n ref hres
          rw [hk]
          exact ⟨.assign _ _ ref.bid k r1 hm hx, hi⟩
  | .assign (.index a i) r, ab, scs, st, e', st', hs, hinv, h => by
    cases hs with
    | assignIndex _ _ _ _ hsa hsi hsr =>
      simp only [resolveE] at h
      cases ha : resolveE a st with
      | error er => simp [ha] at h
      | ok p =>
        obtain ⟨a1, st1⟩ := p
        simp only [ha] at h
        obtain ⟨hxa, hi1⟩ := rHE a ab scs st a1 st1 hsa hinv ha
        cases hi : resolveE i st1 with
        | error er => simp [hi] at h
        | ok q =>
          obtain ⟨i1, st2⟩ := q
          simp only [hi] at h
          obtain ⟨hxi, hi2⟩ := rHE i false scs st1 i1 st2 hsi hi1 hi
          cases hr : resolveE r st2 with
          | error er => simp [hr] at h
          | ok w =>
            obtain ⟨r1, st3⟩ := w
            simp only [hr] at h
            injection h with h; injection h with h1 h2; subst h1; subst h2
            obtain ⟨hxr, hi3⟩ := rHE r false scs st2 r1 st3 hsr hi2 hr
            exact ⟨.assignIndex _ _ a1 i1 r1 hxa hxi hxr, hi3⟩
  | .infix l op r, ab, scs, st, e', st', hs, hinv, h => by
    cases hs with
    | bin _ _ _ _ bop hop hsl hsr =>
      simp only [resolveE] at h
      cases hl : resolveE l st with
      | error er => simp [hl] at h
      | ok p =>
        obtain ⟨l1, st1⟩ := p
        simp only [hl] at h
        obtain ⟨hxl, hi1⟩ := rHE l ab scs st l1 st1 hsl hinv hl
        cases hr : resolveE r st1 with
        | error er => simp [hr] at h
        | ok q =>
          obtain ⟨r1, st2⟩ := q
          simp only [hr, hop] at h
          injection h with h; injection h with h1 h2; subst h1; subst h2
          obtain ⟨hxr, hi2⟩ := rHE r false scs st1 r1 st2 hsr hi1 hr
          exact ⟨.bin _ _ l1 bop r1 hxl hxr, hi2⟩
  | .arr vs, ab, scs, st, e', st', hs, hinv, h => by
    cases hs with
    | arr _ _ hsv =>
      simp only [resolveE] at h
      cases hv : resolveEs vs st with
      | error er => simp [hv] at h
      | ok p =>
        obtain ⟨vs1, st1⟩ := p
        simp only [hv] at h
        injection h with h; injection h with h1 h2; subst h1; subst h2
        obtain ⟨hx, hi⟩ := rHEs vs scs st vs1 st1 hsv hinv hv
        exact ⟨.arr _ _ vs1 hx, hi⟩
  | .index l i, ab, scs, st, e', st', hs, hinv, h => by
    cases hs with
    | index _ _ _ hsl hsi =>
      simp only [resolveE] at h
      cases hl : resolveE l st with
      | error er => simp [hl] at h
      | ok p =>
        obtain ⟨l1, st1⟩ := p
        simp only [hl] at h
        obtain ⟨hxl, hi1⟩ := rHE l ab scs st l1 st1 hsl hinv hl
        cases hr : resolveE i st1 with
        | error er => simp [hr] at h
        | ok q =>
          obtain ⟨i1, st2⟩ := q
          simp only [hr] at h
          injection h with h; injection h with h1 h2; subst h1; subst h2
          obtain ⟨hxi, hi2⟩ := rHE i false scs st1 i1 st2 hsi hi1 hr
          exact ⟨.index _ _ l1 i1 hxl hxi, hi2⟩
  | .call f as, ab, scs, st, e', st', hs, hinv, h => by
    cases hs with
    | builtin _ n _ b hb hsa =>
      simp only [resolveE] at h
      cases ha : resolveEs as st with
      | error er => simp [ha] at h
      | ok p =>
        obtain ⟨as1, st1⟩ := p
        simp only [ha, hb] at h
        injection h with h; injection h with h1 h2; subst h1; subst h2
        obtain ⟨hx, hi⟩ := rHEs as scs st as1 st1 hsa hinv ha
        exact ⟨.builtin _ _ b as1 hx, hi⟩
  | .ifE c t e, ab, scs, st, e', st', hs, hinv, h => by
    cases hs with
    | ifE _ _ _ _ hsc hst hse =>
      simp only [resolveE] at h
      cases hc : resolveE c st with
      | error er => simp [hc] at h
      | ok p =>
        obtain ⟨c1, st1⟩ := p
        simp only [hc] at h
        obtain ⟨hxc, hi1⟩ := rHE c ab scs st c1 st1 hsc hinv hc
        cases ht : resolveB t st1 with
        | error er => simp [ht] at h
        | ok q =>
          obtain ⟨t1, st2⟩ := q
          simp only [ht] at h
          obtain ⟨Γ1, hxt, hi2⟩ := rHB t ab scs st1 t1 st2 hst hi1 ht
          cases he : resolveO e st2 with
          | error er => simp [he] at h
          | ok w =>
            obtain ⟨e1, st3⟩ := w
            simp only [he] at h
            injection h with h; injection h with h1 h2; subst h1; subst h2
            obtain ⟨hxe, hi3⟩ := rHO e ab scs st2 e1 st3 hse hi2 he
            exact ⟨.ifE _ _ c1 t1 e1 Γ1 hxc hxt hxe, hi3⟩
  | .whileE c b, ab, scs, st, e', st', hs, hinv, h => by
    cases hs with
    | whileE _ _ _ hsc hsb =>
      simp only [resolveE] at h
      cases hc : resolveE c { st with loopDepth := st.loopDepth + 1 } with
      | error er => simp [hc] at h
      | ok p =>
        obtain ⟨c1, st1⟩ := p
        simp only [hc] at h
        obtain ⟨hxc, hi1⟩ := rHE c false scs _ c1 st1 hsc (inv3_loop st scs _ hinv) hc
        cases hb : resolveB b st1 with
        | error er => simp [hb] at h
        | ok q =>
          obtain ⟨b1, st2⟩ := q
          simp only [hb] at h
          injection h with h; injection h with h1 h2; subst h1; subst h2
          obtain ⟨Γ1, hxb, hi2⟩ := rHB b true scs st1 b1 st2 hsb hi1 hb
          exact ⟨.whileE _ _ c1 b1 Γ1 hxc hxb, inv3_loop st2 scs _ hi2⟩
  | .func _ _ _, _, _, _, _, _, hs, _, _ => by cases hs
  | .assign (.infix _ _ _) _, _, _, _, _, _, hs, _, _ => by cases hs
  | .assign (.pre _ _) _, _, _, _, _, _, hs, _, _ => by cases hs
  | .assign (.int _) _, _, _, _, _, _, hs, _, _ => by cases hs
  | .assign (.float _) _, _, _, _, _, _, hs, _, _ => by cases hs
  | .assign (.bool _) _, _, _, _, _, _, hs, _, _ => by cases hs
  | .assign (.ifE _ _ _) _, _, _, _, _, _, hs, _, _ => by cases hs
  | .assign (.func _ _ _) _, _, _, _, _, _, hs, _, _ => by cases hs
  | .assign (.call _ _) _, _, _, _, _, _, hs, _, _ => by cases hs
  | .assign (.assign _ _) _, _, _, _, _, _, hs, _, _ => by cases hs
  | .assign (.str _) _, _, _, _, _, _, hs, _, _ => by cases hs
  | .assign (.arr _) _, _, _, _, _, _, hs, _, _ => by cases hs
  | .assign (.whileE _ _) _, _, _, _, _, _, hs, _, _ => by cases hs

theorem rHEs : (es : Exprs) → ∀ (scs : List (List (Text × Nat))) (st : RState) (es' : RExprs) (st' : RState),
    SHEs es → Inv3 st scs → resolveEs es st = .ok (es', st') → HEs (G scs) es' ∧ Inv3 st' scs
  | .nil, scs, st, es', st', _, hinv, h => by
    simp only [resolveEs] at h; injection h with h; injection h with h1 h2; subst h1; subst h2
    exact ⟨.nil _, hinv⟩
  | .cons e es, scs, st, es', st', hs, hinv, h => by
    cases hs with
    | cons _ _ hse hses =>
      simp only [resolveEs] at h
      cases hr : resolveE e st with
      | error er => simp [hr] at h
      | ok p =>
        obtain ⟨e1, st1⟩ := p
        simp only [hr] at h
        obtain ⟨hx1, hi1⟩ := rHE e false scs st e1 st1 hse hinv hr
        cases hr2 : resolveEs es st1 with
        | error er => simp [hr2] at h
        | ok q =>
          obtain ⟨es1, st2⟩ := q
          simp only [hr2] at h
          injection h with h; injection h with h1 h2; subst h1; subst h2
          obtain ⟨hx2, hi2⟩ := rHEs es scs st1 es1 st2 hses hi1 hr2
          exact ⟨.cons _ e1 es1 hx1 hx2, hi2⟩

theorem rHO : (o : OptBlock) → ∀ (ab : Bool) (scs : List (List (Text × Nat))) (st : RState) (o' : ROptBlock) (st' : RState),
    SHO ab o → Inv3 st scs → resolveO o st = .ok (o', st') → HO (G scs) ab o' ∧ Inv3 st' scs
  | .none, ab, scs, st, o', st', _, hinv, h => by
    simp only [resolveO] at h; injection h with h; injection h with h1 h2; subst h1; subst h2
    exact ⟨.none _ _, hinv⟩
  | .some b, ab, scs, st, o', st', hs, hinv, h => by
    cases hs with
    | some _ _ hsb =>
      simp only [resolveO] at h
      cases hb : resolveB b st with
      | error er => simp [hb] at h
      | ok q =>
        obtain ⟨b1, st1⟩ := q
        simp only [hb] at h
        injection h with h; injection h with h1 h2; subst h1; subst h2
        obtain ⟨Γ1, hxb, hi⟩ := rHB b ab scs st b1 st1 hsb hinv hb
        exact ⟨.some _ _ b1 Γ1 hxb, hi⟩

theorem rHS : (s : Stmt) → ∀ (ab : Bool) (sc : List (Text × Nat)) (scs : List (List (Text × Nat))) (st : RState) (s' : RStmt) (st' : RState),
    SHS ab s → Inv3 st (sc :: scs) → resolveS s st = .ok (s', st') →
    ∃ sc', HS (G (sc :: scs)) ab s' (G (sc' :: scs)) ∧ Inv3 st' (sc' :: scs)
  | .expr e, ab, sc, scs, st, s', st', hs, hinv, h => by
    cases hs with
    | expr _ _ hse =>
      simp only [resolveS] at h
      cases hr : resolveE e st with
      | error er => simp [hr] at h
      | ok p =>
        obtain ⟨e1, st1⟩ := p
        simp only [hr] at h
        injection h with h; injection h with h1 h2; subst h1; subst h2
        obtain ⟨hx, hi⟩ := rHE e ab _ st e1 st1 hse hinv hr
        exact ⟨sc, .expr _ _ e1 hx, hi⟩
  | .letS n e, ab, sc, scs, st, s', st', hs, hinv, h => by
    cases hs with
    | letS _ _ _ hse =>
      simp only [resolveS] at h
      obtain ⟨hdef, hinv1⟩ := inv3_define st sc scs hinv n
      cases hr : resolveE e (st.define n).1 with
      | error er => simp [hr] at h
      | ok p =>
        obtain ⟨e1, st1⟩ := p
        simp only [hr] at h
        injection h with h; injection h with h1 h2; subst h1; subst h2
        obtain ⟨hx, hi⟩ := rHE e ab _ _ e1 st1 hse hinv1 hr
        rw [hdef]
        refine ⟨(n, st.nextId) :: sc, ?_, hi⟩
        have hx' : HE ((st.nextId, (sc :: scs).flatten.length) :: G (sc :: scs)) ab e1 := by
          simpa [G, slotsOf] using hx
        have := HS.letS (G (sc :: scs)) ab st.nextId (sc :: scs).flatten.length e1 (fresh_slot st _ hinv) hx'
        simpa [G, slotsOf] using this
  | .block b, ab, sc, scs, st, s', st', hs, hinv, h => by
    cases hs with
    | block _ _ hsb =>
      simp only [resolveS] at h
      cases hb : resolveB b st with
      | error er => simp [hb] at h
      | ok q =>
        obtain ⟨b1, st1⟩ := q
        simp only [hb] at h
        injection h with h; injection h with h1 h2; subst h1; subst h2
        obtain ⟨Γ1, hxb, hi⟩ := rHB b ab _ st b1 st1 hsb hinv hb
        exact ⟨sc, .block _ _ b1 Γ1 hxb, hi⟩
  | .brk, ab, sc, scs, st, s', st', hs, hinv, h => by
    cases hs
    simp only [resolveS] at h
    split at h
    · cases h
    · injection h with h; injection h with h1 h2; subst h1; subst h2
      exact ⟨sc, .brk _, hinv⟩
  | .cont, ab, sc, scs, st, s', st', hs, hinv, h => by
    cases hs
    simp only [resolveS] at h
    split at h
    · cases h
    · injection h with h; injection h with h1 h2; subst h1; subst h2
      exact ⟨sc, .cont _, hinv⟩
  | .ret _, _, _, _, _, _, _, hs, _, _ => by cases hs

theorem rHSs : (b : Block) → ∀ (ab : Bool) (sc : List (Text × Nat)) (scs : List (List (Text × Nat))) (st : RState) (b' : RBlock) (st' : RState),
    SHB ab b → Inv3 st (sc :: scs) → resolveSs b st = .ok (b', st') →
    ∃ sc', HB (G (sc :: scs)) ab b' (G (sc' :: scs)) ∧ Inv3 st' (sc' :: scs)
  | .nil, ab, sc, scs, st, b', st', _, hinv, h => by
    simp only [resolveSs] at h; injection h with h; injection h with h1 h2; subst h1; subst h2
    exact ⟨sc, .nil _ _, hinv⟩
  | .cons s rest, ab, sc, scs, st, b', st', hs, hinv, h => by
    cases hs with
    | cons _ _ _ hss hsrest =>
      simp only [resolveSs] at h
      cases hr : resolveS s st with
      | error er => simp [hr] at h
      | ok p =>
        obtain ⟨s1, st1⟩ := p
        simp only [hr] at h
        obtain ⟨sc1, hx1, hi1⟩ := rHS s ab sc scs st s1 st1 hss hinv hr
        cases hr2 : resolveSs rest st1 with
        | error er => simp [hr2] at h
        | ok q =>
          obtain ⟨b1, st2⟩ := q
          simp only [hr2] at h
          injection h with h; injection h with h1 h2; subst h1; subst h2
          obtain ⟨sc2, hx2, hi2⟩ := rHSs rest ab sc1 scs st1 b1 st2 hsrest hi1 hr2
          exact ⟨sc2, .cons _ _ _ _ _ _ hx1 hx2, hi2⟩

theorem rHB : (b : Block) → ∀ (ab : Bool) (scs : List (List (Text × Nat))) (st : RState) (b' : RBlock) (st' : RState),
    SHB ab b → Inv3 st scs → resolveB b st = .ok (b', st') → ∃ Γ1, HB (G scs) ab b' Γ1 ∧ Inv3 st' scs
  | .nil, ab, scs, st, b', st', _, hinv, h => by
    simp only [resolveB] at h; injection h with h; injection h with h1 h2; subst h1; subst h2
    exact ⟨_, .nil _ _, hinv⟩
  | .cons s rest, ab, scs, st, b', st', hs, hinv, h => by
    cases hs with
    | cons _ _ _ hss hsrest =>
      simp only [resolveB] at h
      cases hr : resolveS s st.enterScope with
      | error er => simp [hr] at h
      | ok p =>
        obtain ⟨s1, st1⟩ := p
        simp only [hr] at h
        obtain ⟨sc1, hx1, hi1⟩ := rHS s ab [] scs st.enterScope s1 st1 hss (inv3_enter st scs hinv) hr
        cases hr2 : resolveSs rest st1 with
        | error er => simp [hr2] at h
        | ok q =>
          obtain ⟨b1, st2⟩ := q
          simp only [hr2] at h
          injection h with h; injection h with h1 h2; subst h1; subst h2
          obtain ⟨sc2, hx2, hi2⟩ := rHSs rest ab sc1 scs st1 b1 st2 hsrest hi1 hr2
          refine ⟨G (sc2 :: scs), ?_, inv3_leave st2 sc2 scs hi2⟩
          have : G ([] :: scs) = G scs := by simp [G]
          rw [this] at hx1
          exact .cons _ _ _ _ _ _ hx1 hx2
end

/-- R1 for stage 5: the resolver turns every stage-5 source program into a tree of the fragment `HB` -/
theorem resolve_hb (ast : Block) (hs : SHB false ast) (p : RBlock) (h : resolveProgram ast = .ok p) :
    ∃ Γ', HB [] false p Γ' := by
  unfold resolveProgram at h
  cases hr : resolveSs ast {} with
  | error er => simp [hr] at h
  | ok q =>
    obtain ⟨b, st'⟩ := q
    simp only [hr] at h
    injection h with h; subst h
    have hinv : Inv3 ({} : RState) [[]] := ⟨⟨0, rfl⟩, by intro p hp; simp at hp⟩
    obtain ⟨sc', hxb, _⟩ := rHSs ast false [] [] {} b st' hs hinv hr
    exact ⟨G (sc' :: []), by simpa [G, slotsOf] using hxb⟩

/-! ## a decidable, sound check for membership in the source fragment -/

mutual
def chkSE (ab : Bool) : Expr → Bool
  | .int _ => true
  | .bool _ => true
  | .float x => litFb x
  | .str _ => true
  | .ident _ => true
  | .pre op e =>
    (match op with
     | .not => true
     | .sub => true
     | .negate => true
     | _ => false) && chkSE ab e
  | .infix l op r => (opToBin op).isSome && chkSE ab l && chkSE false r
  | .assign l r =>
    match l with
    | .ident _ => chkSE ab r
    | .index a i => chkSE ab a && chkSE false i && chkSE false r
    | _ => false
  | .arr vs => chkSEs vs
  | .index l i => chkSE ab l && chkSE false i
  | .call f as =>
    (match f with
     | .ident n => (Builtin.resolve n).isSome
     | _ => false) && chkSEs as
  | .ifE c t e => chkSE ab c && chkSB ab t && chkSO ab e
  | .whileE c b => chkSE false c && chkSB true b
  | .func _ _ _ => false
def chkSEs : Exprs → Bool
  | .nil => true
  | .cons e es => chkSE false e && chkSEs es
def chkSO (ab : Bool) : OptBlock → Bool
  | .none => true
  | .some b => chkSB ab b
def chkSS (ab : Bool) : Stmt → Bool
  | .expr e => chkSE ab e
  | .letS _ e => chkSE ab e
  | .block b => chkSB ab b
  | .brk => ab
  | .cont => ab
  | .ret _ => false
def chkSB (ab : Bool) : Block → Bool
  | .nil => true
  | .cons s b => chkSS ab s && chkSB ab b
end

mutual
theorem chkSE_sound : (e : Expr) → ∀ (ab : Bool), chkSE ab e = true → SHE ab e
  | .int v, ab, _ => .int _ v
  | .bool b, ab, _ => .bool _ b
  | .float x, ab, h => by simp only [chkSE] at h; exact .float _ x (litFb_sound x h)
  | .str s, ab, _ => .str _ s
  | .ident n, ab, _ => .ident _ n
  | .pre op e, ab, h => by
    simp only [chkSE, Bool.and_eq_true] at h
    have he := chkSE_sound e ab h.2
    have ho := h.1
    cases op <;> first
      | exact .not _ e he
      | exact .neg _ e he
      | exact .negate _ e he
      | simp at ho
  | .infix l op r, ab, h => by
    simp only [chkSE, Bool.and_eq_true] at h
    obtain ⟨⟨ho, hl⟩, hr⟩ := h
    cases hb : opToBin op with
    | none => simp [hb] at ho
    | some bop => exact .bin _ l op r bop hb (chkSE_sound l ab hl) (chkSE_sound r false hr)
  | .assign (.ident n) r, ab, h => by
    simp only [chkSE] at h; exact .assign _ n r (chkSE_sound r ab h)
  | .assign (.index a i) r, ab, h => by
    simp only [chkSE, Bool.and_eq_true] at h
    exact .assignIndex _ a i r (chkSE_sound a ab h.1.1) (chkSE_sound i false h.1.2) (chkSE_sound r false h.2)
  | .arr vs, ab, h => by simp only [chkSE] at h; exact .arr _ vs (chkSEs_sound vs h)
  | .index l i, ab, h => by
    simp only [chkSE, Bool.and_eq_true] at h; exact .index _ l i (chkSE_sound l ab h.1) (chkSE_sound i false h.2)
  | .call f as, ab, h => by
    simp only [chkSE, Bool.and_eq_true] at h
    have has := chkSEs_sound as h.2
    have hf := h.1
    cases f with
    | ident n =>
      simp only at hf
      cases hb : Builtin.resolve n with
      | none => simp [hb] at hf
      | some b => exact .builtin _ n as b hb has
    | _ => simp at hf
  | .ifE c t e, ab, h => by
    simp only [chkSE, Bool.and_eq_true] at h
    exact .ifE _ c t e (chkSE_sound c ab h.1.1) (chkSB_sound t ab h.1.2) (chkSO_sound e ab h.2)
  | .whileE c b, ab, h => by
    simp only [chkSE, Bool.and_eq_true] at h
    exact .whileE _ c b (chkSE_sound c false h.1) (chkSB_sound b true h.2)
  | .func _ _ _, _, h => by simp [chkSE] at h
  | .assign (.infix _ _ _) _, _, h => by simp [chkSE] at h
  | .assign (.pre _ _) _, _, h => by simp [chkSE] at h
  | .assign (.int _) _, _, h => by simp [chkSE] at h
  | .assign (.float _) _, _, h => by simp [chkSE] at h
  | .assign (.bool _) _, _, h => by simp [chkSE] at h
  | .assign (.ifE _ _ _) _, _, h => by simp [chkSE] at h
  | .assign (.func _ _ _) _, _, h => by simp [chkSE] at h
  | .assign (.call _ _) _, _, h => by simp [chkSE] at h
  | .assign (.assign _ _) _, _, h => by simp [chkSE] at h
  | .assign (.str _) _, _, h => by simp [chkSE] at h
  | .assign (.arr _) _, _, h => by simp [chkSE] at h
  | .assign (.whileE _ _) _, _, h => by simp [chkSE] at h
theorem chkSEs_sound : (es : Exprs) → chkSEs es = true → SHEs es
  | .nil, _ => .nil
  | .cons e es, h => by
    simp only [chkSEs, Bool.and_eq_true] at h
    exact .cons e es (chkSE_sound e false h.1) (chkSEs_sound es h.2)
theorem chkSO_sound : (o : OptBlock) → ∀ (ab : Bool), chkSO ab o = true → SHO ab o
  | .none, ab, _ => .none _
  | .some b, ab, h => by simp only [chkSO] at h; exact .some _ b (chkSB_sound b ab h)
theorem chkSS_sound : (s : Stmt) → ∀ (ab : Bool), chkSS ab s = true → SHS ab s
  | .expr e, ab, h => by simp only [chkSS] at h; exact .expr _ e (chkSE_sound e ab h)
  | .letS n e, ab, h => by simp only [chkSS] at h; exact .letS _ n e (chkSE_sound e ab h)
  | .block b, ab, h => by simp only [chkSS] at h; exact .block _ b (chkSB_sound b ab h)
  | .brk, ab, h => by simp only [chkSS] at h; subst h; exact .brk
  | .cont, ab, h => by simp only [chkSS] at h; subst h; exact .cont
  | .ret _, _, h => by simp [chkSS] at h
theorem chkSB_sound : (b : Block) → ∀ (ab : Bool), chkSB ab b = true → SHB ab b
  | .nil, ab, _ => .nil _
  | .cons s b, ab, h => by
    simp only [chkSB, Bool.and_eq_true] at h
    exact .cons _ s b (chkSS_sound s ab h.1) (chkSB_sound b ab h.2)
end

/-- validation of a SOURCE program against the stage-5 source fragment (no resolver run needed) -/
def inSourceH (ast : Block) : Bool := chkSB false ast

theorem inSourceH_sound (ast : Block) (h : inSourceH ast = true) : SHB false ast :=
  chkSB_sound ast false h

/-! ## the end-to-end theorems of stage 5 without validation of the resolver's output -/

/-- END TO END FROM SOURCE TREES, stage 5, for every source program of the fragment (R1 in place of validation) -/
theorem heap_source_program_r1 (ast : Block) (hs : SHB false ast) (r : RBlock) (bc : Bytecode)
    (hc : compileProgram ast = .ok (r, bc)) (F : Nat) :
    match evalB F r {} with
    | .val () st' => ∃ mv n s', (∀ k, runSteps bc.code (n + k) (VM.start {} bc) = .value mv s') ∧
        s'.mem.heap.tree treeDepth [] mv = st'.tree treeDepth [] st'.last ∧ s'.out = st'.out ∧
        (finishValue mv s').mem.heap.tree treeDepth [] mv = s'.mem.heap.tree treeDepth [] mv
    | .err er ste => ∃ n s', (∀ k, runSteps bc.code (n + k) (VM.start {} bc) = .error er s') ∧ s'.out = ste.out
    | .brk _ => False
    | .cont _ => False
    | .ret _ _ => False
    | _ => True := by
  unfold compileProgram at hc
  cases hr : resolveProgram ast with
  | error e => simp [hr] at hc
  | ok r' =>
    simp only [hr] at hc
    cases hcr : compileR r' with
    | error e => simp [hcr] at hc
    | ok bc' =>
      simp only [hcr] at hc
      injection hc with hc; injection hc with h1 h2; subst h1; subst h2
      obtain ⟨Γ', hx⟩ := resolve_hb ast hs r' hr
      exact heap_program r' Γ' hx bc' hcr F

/-- THE OBSERVATION ITSELF, stage 5, for every text whose SOURCE tree lies in the fragment: whatever the
    definitional semantics answers with some fuel is exactly what `eval` answers on the machine for every
    large enough instruction budget -/
theorem heap_eval_text_r1 (cc : CharClass) (src : Text) (ast : Block) (r : RBlock) (bc : Bytecode) (hp : parse cc src = .ok ast)
    (hs : SHB false ast) (hc : compileProgram ast = .ok (r, bc)) (F : Nat) :
    match specText cc F src with
    | .value t out => ∃ n, ∀ k, evalText cc (n + k) src = .value t out
    | .error e out => ∃ n, ∀ k, evalText cc (n + k) src = .error e out
    | .fault _ => False
    | _ => True := by
  have hsim := heap_source_program_r1 ast hs r bc hc F
  have hres : resolveProgram ast = .ok r := by
    unfold compileProgram at hc
    cases hr : resolveProgram ast with
    | error e => simp [hr] at hc
    | ok r' =>
      simp only [hr] at hc
      cases hcr : compileR r' with
      | error e => simp [hcr] at hc
      | ok bc' => simp only [hcr] at hc; injection hc with hc; injection hc with h1 h2; rw [h1]
  simp only [specText, hp, hres, Spec.evalProgram]
  cases hr : evalB F r {} with
  | val u st' =>
    rw [hr] at hsim
    obtain ⟨mv, n, s', hn, ht, ho, hf⟩ := hsim
    refine ⟨n, fun k => ?_⟩
    simp only [evalText, hp, hc, VM.run, hn k]
    rw [hf, ht]
    have : (finishValue mv s').out = s'.out := rfl
    rw [this, ho]
  | err er ste =>
    rw [hr] at hsim
    obtain ⟨n, s', hn, ho⟩ := hsim
    refine ⟨n, fun k => ?_⟩
    simp only [evalText, hp, hc, VM.run, hn k]
    have : (finishError s').out = s'.out := rfl
    rw [this, ho]
  | fuel => trivial
  | brk _ => rw [hr] at hsim; exact hsim.elim
  | cont _ => rw [hr] at hsim; exact hsim.elim
  | ret _ _ => rw [hr] at hsim; exact hsim.elim
  | unspec _ => trivial

/-- the validation of the resolver's output is implied by the source check: a source program that passes
    `inSourceH` and compiles needs no further check -/
theorem heap_eval_text_checked (cc : CharClass) (src : Text) (ast : Block) (r : RBlock) (bc : Bytecode) (hp : parse cc src = .ok ast)
    (hs : inSourceH ast = true) (hc : compileProgram ast = .ok (r, bc)) (F : Nat) :
    match specText cc F src with
    | .value t out => ∃ n, ∀ k, evalText cc (n + k) src = .value t out
    | .error e out => ∃ n, ∀ k, evalText cc (n + k) src = .error e out
    | .fault _ => False
    | _ => True :=
  heap_eval_text_r1 cc src ast r bc hp (inSourceH_sound ast hs) hc F

/-! ## non-vacuity -/

/-- `stel a = [1.5, "x"]; stel b = a; b[0] = a; print(a, lengte(a)); stel i = 0;
    zolang i < 10 { i = i + 1; als lengte(a) < i { stop }; als !(i == 3) { volgende } }; -i; a[1][0] + "y"` -/
def heapSrcEx : Block :=
  .cons (.letS "a".toList (.arr (.cons (.float 0x3FF8000000000000) (.cons (.str "x".toList) .nil))))
  (.cons (.letS "b".toList (.ident "a".toList))
  (.cons (.expr (.assign (.index (.ident "b".toList) (.int 0)) (.ident "a".toList)))
  (.cons (.expr (.call (.ident "print".toList) (.cons (.ident "a".toList) (.cons (.call (.ident "lengte".toList) (.cons (.ident "a".toList) .nil)) .nil))))
  (.cons (.letS "i".toList (.int 0))
  (.cons (.expr (.whileE (.infix (.ident "i".toList) .lt (.int 10))
    (.cons (.expr (.assign (.ident "i".toList) (.infix (.ident "i".toList) .add (.int 1))))
    (.cons (.expr (.ifE (.infix (.call (.ident "lengte".toList) (.cons (.ident "a".toList) .nil)) .lt (.ident "i".toList)) (.cons .brk .nil) .none))
    (.cons (.expr (.ifE (.pre .not (.infix (.ident "i".toList) .eq (.int 3))) (.cons .cont .nil) .none)) .nil)))))
  (.cons (.expr (.pre .sub (.ident "i".toList)))
  (.cons (.expr (.infix (.index (.index (.ident "a".toList) (.int 1)) (.int 0)) .add (.str "y".toList))) .nil)))))))

/-- non-vacuity: that source program (an array with a float and a string, aliasing, index assignment, builtin
    calls, a loop with `stop` and `volgende`) passes the source check … -/
example : inSourceH heapSrcEx = true := by decide

/-- … hence lies in the source fragment, -/
example : SHB false heapSrcEx := inSourceH_sound _ (by decide)

/-- … it compiles, and the resolver's output is in the fragment of the simulation theorem (an instance of R1) -/
example : ∃ r, resolveProgram heapSrcEx = .ok r ∧ ∃ Γ', HB [] false r Γ' := by
  have h : (resolveProgram heapSrcEx).toOption.isSome = true := by decide
  cases hr : resolveProgram heapSrcEx with
  | error e => simp [hr, Except.toOption] at h
  | ok r => exact ⟨r, rfl, resolve_hb _ (inSourceH_sound _ (by decide)) r hr⟩

/-- `stop` outside a loop, `stop` under a pending operand, a user function and `antwoord` are outside the fragment -/
example : inSourceH (.cons .brk .nil) = false
    ∧ inSourceH (.cons (.expr (.whileE (.bool true) (.cons (.expr (.infix (.int 1) .add (.ifE (.bool true) (.cons .brk .nil) .none))) .nil))) .nil) = false
    ∧ inSourceH (.cons (.expr (.func [] [] .nil)) .nil) = false
    ∧ inSourceH (.cons (.ret (.int 1)) .nil) = false
    ∧ inSourceH (.cons (.expr (.call (.ident "f".toList) .nil)) .nil) = false := by decide

end SimH
end Nl
