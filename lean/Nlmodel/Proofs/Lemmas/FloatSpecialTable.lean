/-
  Float SPECIAL VALUES, part 3: the complete case table of every operation (one theorem per
  operator, for ALL bit patterns), exactly when a result is NaN, the operator level (`binopCore`),
  and labelled TESTS on concrete bit patterns.
-/
import Nlmodel.Model.Value
import Nlmodel.Proofs.Lemmas.FloatSpecialOps

namespace Nl
namespace FloatSpecial
open F64 F64R

theorem not_nan_pair {x y : Bits} (h : ¬ (isNaN x = true ∨ isNaN y = true)) :
    isNaN x = false ∧ isNaN y = false := by
  cases hx : isNaN x <;> cases hy : isNaN y <;> simp [hx, hy] at h ⊢

theorem nan_or_true {x y : Bits} (h : isNaN x = true ∨ isNaN y = true) :
    (isNaN x || isNaN y) = true := by rcases h with h | h <;> simp [h]

/-! ## case tables -/

/-- `+`, all cases.  Last line: the correctly rounded exact sum (`C06_float_add`, `add_finite_spec`) -/
theorem add_cases (x y : Bits) : add x y =
    if isNaN x || isNaN y then canonNaN
    else if isInf x && isInf y then (if isNeg x = isNeg y then inf (isNeg x) else canonNaN)
    else if isInf x then inf (isNeg x)
    else if isInf y then inf (isNeg y)
    else if sval x + sval y = 0 then zero (isNeg x && isNeg y)
    else ofRat (decide (sval x + sval y < 0)) (sval x + sval y).natAbs (2 ^ 1074) := by
  by_cases hn : isNaN x = true ∨ isNaN y = true
  · rw [if_pos (nan_or_true hn)]; exact (S1_add hn).1
  · obtain ⟨hx, hy⟩ := not_nan_pair hn
    rw [hx, hy]
    simp only [Bool.or_self, Bool.false_eq_true, if_false]
    cases hix : isInf x <;> cases hiy : isInf y <;>
      simp only [Bool.and_self, Bool.and_false, Bool.and_true, Bool.false_eq_true, if_true, if_false]
    · exact add_finite (finite_of_not_nan_inf hx hix) (finite_of_not_nan_inf hy hiy)
    · exact S2_add_finite_inf (finite_of_not_nan_inf hx hix) hiy
    · exact S2_add_inf_finite hix (finite_of_not_nan_inf hy hiy)
    · by_cases hs : isNeg x = isNeg y
      · rw [if_pos hs]; exact S2_add_inf_inf_same hix hiy hs
      · rw [if_neg hs]; exact S2_add_inf_inf_opposite hix hiy hs

/-- `-`, all cases -/
theorem sub_cases (x y : Bits) : sub x y =
    if isNaN x || isNaN y then canonNaN
    else if isInf x && isInf y then (if isNeg x = isNeg y then canonNaN else inf (isNeg x))
    else if isInf x then inf (isNeg x)
    else if isInf y then inf (!isNeg y)
    else if sval x - sval y = 0 then zero (isNeg x && !isNeg y)
    else ofRat (decide (sval x - sval y < 0)) (sval x - sval y).natAbs (2 ^ 1074) := by
  by_cases hn : isNaN x = true ∨ isNaN y = true
  · rw [if_pos (nan_or_true hn)]; exact (S1_sub hn).1
  · obtain ⟨hx, hy⟩ := not_nan_pair hn
    rw [hx, hy]
    simp only [Bool.or_self, Bool.false_eq_true, if_false]
    cases hix : isInf x <;> cases hiy : isInf y <;>
      simp only [Bool.and_self, Bool.and_false, Bool.and_true, Bool.false_eq_true, if_true, if_false]
    · exact sub_finite (finite_of_not_nan_inf hx hix) (finite_of_not_nan_inf hy hiy)
    · exact S2_sub_finite_inf (finite_of_not_nan_inf hx hix) hiy
    · exact S2_sub_inf_finite hix (finite_of_not_nan_inf hy hiy)
    · by_cases hs : isNeg x = isNeg y
      · rw [if_pos hs]; exact S2_sub_inf_inf_same hix hiy hs
      · rw [if_neg hs]; exact S2_sub_inf_inf_opposite hix hiy hs

/-- `*`, all cases.  Last line: the correctly rounded exact product (`ofRat s 0 d = zero s`) -/
theorem mul_cases (x y : Bits) : mul x y =
    if isNaN x || isNaN y then canonNaN
    else if isInf x || isInf y then
      (if isZero x || isZero y then canonNaN else inf (isNeg x != isNeg y))
    else ofRat (isNeg x != isNeg y) (mag x * mag y) (2 ^ 1074 * 2 ^ 1074) := by
  by_cases hn : isNaN x = true ∨ isNaN y = true
  · rw [if_pos (nan_or_true hn)]; exact (S1_mul hn).1
  · obtain ⟨hx, hy⟩ := not_nan_pair hn
    rw [hx, hy]
    simp only [Bool.or_self, Bool.false_eq_true, if_false]
    by_cases hi : isInf x = true ∨ isInf y = true
    · have : (isInf x || isInf y) = true := by rcases hi with h | h <;> simp [h]
      rw [if_pos this]; exact mul_inf hx hy hi
    · have hix : isInf x = false := by cases e : isInf x <;> simp [e] at hi ⊢
      have hiy : isInf y = false := by cases e : isInf y <;> simp [e] at hi ⊢
      rw [hix, hiy]
      simp only [Bool.or_self, Bool.false_eq_true, if_false]
      exact mul_finite (finite_of_not_nan_inf hx hix) (finite_of_not_nan_inf hy hiy)

/-- `/`, all cases (`s` = xor of the signs).  Last line: the correctly rounded exact quotient -/
theorem div_cases (x y : Bits) : div x y =
    if isNaN x || isNaN y then canonNaN
    else if isInf x then (if isInf y then canonNaN else inf (isNeg x != isNeg y))
    else if isInf y then zero (isNeg x != isNeg y)
    else if isZero y then (if isZero x then canonNaN else inf (isNeg x != isNeg y))
    else ofRat (isNeg x != isNeg y) (mag x) (mag y) := by
  by_cases hn : isNaN x = true ∨ isNaN y = true
  · rw [if_pos (nan_or_true hn)]; exact (S1_div hn).1
  · obtain ⟨hx, hy⟩ := not_nan_pair hn
    rw [hx, hy]
    simp only [Bool.or_self, Bool.false_eq_true, if_false]
    cases hix : isInf x
    · simp only [Bool.false_eq_true, if_false]
      have hfx := finite_of_not_nan_inf hx hix
      cases hiy : isInf y
      · simp only [Bool.false_eq_true, if_false]
        have hfy := finite_of_not_nan_inf hy hiy
        cases hz : isZero y
        · simp only [Bool.false_eq_true, if_false]; exact div_finite hfx hfy hz
        · simp only [if_true]; exact div_zero hfx hfy hz
      · simp only [if_true]; exact S2_div_finite_inf hfx hiy
    · simp only [if_true]; exact div_inf_left hx hy hix

/-- `%`, all cases.  Last line is EXACT (`rem_exact`: the remainder of the magnitudes is representable)
    and has the sign of the dividend -/
theorem rem_cases (x y : Bits) : rem x y =
    if isNaN x || isNaN y || isInf x || isZero y then canonNaN
    else if isInf y then x
    else ofRat (isNeg x) (mag x % mag y) (2 ^ 1074) := by
  by_cases h : isNaN x = true ∨ isNaN y = true ∨ isInf x = true ∨ isZero y = true
  · have : (isNaN x || isNaN y || isInf x || isZero y) = true := by
      rcases h with h | h | h | h <;> simp [h]
    rw [if_pos this]; exact rem_nan h
  · have hnx : isNaN x = false := by cases e : isNaN x <;> simp [e] at h ⊢
    have hny : isNaN y = false := by cases e : isNaN y <;> simp [e] at h ⊢
    have hix : isInf x = false := by cases e : isInf x <;> simp [e] at h ⊢
    have hzy : isZero y = false := by cases e : isZero y <;> simp [e] at h ⊢
    rw [hnx, hny, hix, hzy]
    simp only [Bool.or_self, Bool.false_eq_true, if_false]
    have hfx := finite_of_not_nan_inf hnx hix
    cases hiy : isInf y
    · simp only [Bool.false_eq_true, if_false]
      exact rem_finite hfx (finite_of_not_nan_inf hny hiy) hzy
    · simp only [if_true]; exact rem_inf_right hfx hiy

/-! ## exactly when a result is NaN (the invalid operations of IEEE-754 and nothing else) -/

theorem isNaN_ite_canon {c : Prop} [Decidable c] {b : Bits} (hb : isNaN b = false) :
    isNaN (if c then canonNaN else b) = true ↔ c := by
  by_cases h : c
  · rw [if_pos h]; exact ⟨fun _ => h, fun _ => isNaN_canonNaN⟩
  · rw [if_neg h, hb]; exact ⟨fun e => (by cases e), fun e => absurd e h⟩

theorem add_isNaN_iff (x y : Bits) : isNaN (add x y) = true ↔
    (isNaN x = true ∨ isNaN y = true ∨ (isInf x = true ∧ isInf y = true ∧ isNeg x ≠ isNeg y)) := by
  constructor
  · intro h
    by_cases hn : isNaN x = true ∨ isNaN y = true
    · rcases hn with hn | hn
      · exact .inl hn
      · exact .inr (.inl hn)
    · obtain ⟨hx, hy⟩ := not_nan_pair hn
      right; right
      rw [add_cases, hx, hy] at h
      simp only [Bool.or_self, Bool.false_eq_true, if_false] at h
      cases hix : isInf x <;> cases hiy : isInf y <;> rw [hix, hiy] at h <;>
        simp only [Bool.and_self, Bool.and_false, Bool.and_true, Bool.false_eq_true, if_true,
          if_false] at h
      · split at h
        · rw [isNaN_zero] at h; cases h
        · rw [isNaN_ofRat] at h; cases h
      · rw [isNaN_inf] at h; cases h
      · rw [isNaN_inf] at h; cases h
      · refine ⟨rfl, rfl, fun hs => ?_⟩
        rw [if_pos hs, isNaN_inf] at h; cases h
  · rintro (h | h | ⟨h1, h2, h3⟩)
    · exact (S1_add (.inl h)).2
    · exact (S1_add (.inr h)).2
    · rw [S2_add_inf_inf_opposite h1 h2 h3]; exact isNaN_canonNaN

theorem sub_isNaN_iff (x y : Bits) : isNaN (sub x y) = true ↔
    (isNaN x = true ∨ isNaN y = true ∨ (isInf x = true ∧ isInf y = true ∧ isNeg x = isNeg y)) := by
  by_cases hy : isNaN y = true
  · rw [(S1_sub (.inr hy)).2]; simp [hy]
  · have hy' : isNaN y = false := by simpa using hy
    rw [sub_eq_add_neg hy', add_isNaN_iff, isNaN_neg, isInf_neg, isNeg_neg]
    cases isNeg x <;> cases isNeg y <;> simp

theorem mul_isNaN_iff (x y : Bits) : isNaN (mul x y) = true ↔
    (isNaN x = true ∨ isNaN y = true ∨ (isInf x = true ∧ isZero y = true) ∨
      (isZero x = true ∧ isInf y = true)) := by
  constructor
  · intro h
    by_cases hn : isNaN x = true ∨ isNaN y = true
    · rcases hn with hn | hn
      · exact .inl hn
      · exact .inr (.inl hn)
    · obtain ⟨hx, hy⟩ := not_nan_pair hn
      right; right
      rw [mul_cases, hx, hy] at h
      simp only [Bool.or_self, Bool.false_eq_true, if_false] at h
      cases hix : isInf x <;> cases hiy : isInf y <;> rw [hix, hiy] at h <;>
        simp only [Bool.or_self, Bool.or_false, Bool.or_true, Bool.false_eq_true, if_true,
          if_false] at h
      · rw [isNaN_ofRat] at h; cases h
      · have hzy := inf_not_zero hiy
        rw [hzy, Bool.or_false] at h
        cases hzx : isZero x
        · rw [hzx] at h; simp only [Bool.false_eq_true, if_false] at h
          rw [isNaN_inf] at h; cases h
        · exact .inr ⟨rfl, rfl⟩
      · have hzx := inf_not_zero hix
        rw [hzx, Bool.false_or] at h
        cases hzy : isZero y
        · rw [hzy] at h; simp only [Bool.false_eq_true, if_false] at h
          rw [isNaN_inf] at h; cases h
        · exact .inl ⟨rfl, rfl⟩
      · rw [inf_not_zero hix, inf_not_zero hiy] at h
        simp only [Bool.or_self, Bool.false_eq_true, if_false] at h
        rw [isNaN_inf] at h; cases h
  · rintro (h | h | ⟨h1, h2⟩ | ⟨h1, h2⟩)
    · exact (S1_mul (.inl h)).2
    · exact (S1_mul (.inr h)).2
    · rw [S2_mul_inf_zero (.inl ⟨h1, h2⟩)]; exact isNaN_canonNaN
    · rw [S2_mul_inf_zero (.inr ⟨h1, h2⟩)]; exact isNaN_canonNaN

theorem div_isNaN_iff (x y : Bits) : isNaN (div x y) = true ↔
    (isNaN x = true ∨ isNaN y = true ∨ (isInf x = true ∧ isInf y = true) ∨
      (isZero x = true ∧ isZero y = true)) := by
  constructor
  · intro h
    by_cases hn : isNaN x = true ∨ isNaN y = true
    · rcases hn with hn | hn
      · exact .inl hn
      · exact .inr (.inl hn)
    · obtain ⟨hx, hy⟩ := not_nan_pair hn
      right; right
      rw [div_cases, hx, hy] at h
      simp only [Bool.or_self, Bool.false_eq_true, if_false] at h
      cases hix : isInf x <;> rw [hix] at h <;> simp only [Bool.false_eq_true, if_true, if_false] at h
      · cases hiy : isInf y <;> rw [hiy] at h <;>
          simp only [Bool.false_eq_true, if_true, if_false] at h
        · cases hzy : isZero y <;> rw [hzy] at h <;>
            simp only [Bool.false_eq_true, if_true, if_false] at h
          · rw [isNaN_ofRat] at h; cases h
          · cases hzx : isZero x <;> rw [hzx] at h <;>
              simp only [Bool.false_eq_true, if_true, if_false] at h
            · rw [isNaN_inf] at h; cases h
            · exact .inr ⟨rfl, rfl⟩
        · rw [isNaN_zero] at h; cases h
      · cases hiy : isInf y <;> rw [hiy] at h <;>
          simp only [Bool.false_eq_true, if_true, if_false] at h
        · rw [isNaN_inf] at h; cases h
        · exact .inl ⟨rfl, rfl⟩
  · rintro (h | h | ⟨h1, h2⟩ | ⟨h1, h2⟩)
    · exact (S1_div (.inl h)).2
    · exact (S1_div (.inr h)).2
    · rw [S2_div_inf_inf h1 h2]; exact isNaN_canonNaN
    · rw [S3_div_zero_zero h1 h2]; exact isNaN_canonNaN

/-- every NaN RESULT is the canonical one -/
theorem nan_result_canonical (x y : Bits) :
    (isNaN (add x y) = true → add x y = canonNaN) ∧ (isNaN (sub x y) = true → sub x y = canonNaN) ∧
    (isNaN (mul x y) = true → mul x y = canonNaN) ∧ (isNaN (div x y) = true → div x y = canonNaN) ∧
    (isNaN (rem x y) = true → rem x y = canonNaN) := by
  refine ⟨fun h => ?_, fun h => ?_, fun h => ?_, fun h => ?_, fun h => ?_⟩
  · rcases (add_isNaN_iff x y).1 h with h | h | ⟨h1, h2, h3⟩
    · exact (S1_add (.inl h)).1
    · exact (S1_add (.inr h)).1
    · exact S2_add_inf_inf_opposite h1 h2 h3
  · rcases (sub_isNaN_iff x y).1 h with h | h | ⟨h1, h2, h3⟩
    · exact (S1_sub (.inl h)).1
    · exact (S1_sub (.inr h)).1
    · exact S2_sub_inf_inf_same h1 h2 h3
  · rcases (mul_isNaN_iff x y).1 h with h | h | h | h
    · exact (S1_mul (.inl h)).1
    · exact (S1_mul (.inr h)).1
    · exact S2_mul_inf_zero (.inl h)
    · exact S2_mul_inf_zero (.inr h)
  · rcases (div_isNaN_iff x y).1 h with h | h | ⟨h1, h2⟩ | ⟨h1, h2⟩
    · exact (S1_div (.inl h)).1
    · exact (S1_div (.inr h)).1
    · exact S2_div_inf_inf h1 h2
    · exact S3_div_zero_zero h1 h2
  · exact rem_nan ((rem_isNaN_iff x y).1 h)

/-! ## the operator level (`binopCore`, Model/Value.lean) -/

theorem binopCore_float_arith (op : BinOp) (x y : Bits) (h : op.isArith = true) :
    binopCore op (.float x) (.float y) = .ok (.float (floatArith op x y)) := by
  cases op <;> first | rfl | cases h

theorem binopCore_float_cmp (op : BinOp) (x y : Bits) (h : op.isArith = false)
    (h' : op ≠ .and ∧ op ≠ .or) :
    binopCore op (.float x) (.float y) = .ok (.bool (floatCmp op x y)) := by
  cases op <;> first | exact absurd rfl h'.1 | exact absurd rfl h'.2 | rfl | cases h

/-- NaN operand (either side), all five arithmetic operators: the result is the NaN -/
theorem S1_binopCore {x y : Bits} (h : isNaN x = true ∨ isNaN y = true) (op : BinOp)
    (hop : op.isArith = true) :
    binopCore op (.float x) (.float y) = .ok (.float canonNaN) := by
  rw [binopCore_float_arith op x y hop]
  cases op <;> (try (exact absurd hop (by decide)))
  all_goals
    simp only [floatArith, (S1_add h).1, (S1_sub h).1, (S1_mul h).1, (S1_div h).1, (S1_rem h).1]

/-- NaN operand (either side), the six comparison operators: `<  <=  >  >=  ==` answer false,
    `!=` answers true -/
theorem S5_binopCore_nan {x y : Bits} (h : isNaN x = true ∨ isNaN y = true) :
    binopCore .lt (.float x) (.float y) = .ok (.bool false) ∧
    binopCore .lte (.float x) (.float y) = .ok (.bool false) ∧
    binopCore .gt (.float x) (.float y) = .ok (.bool false) ∧
    binopCore .gte (.float x) (.float y) = .ok (.bool false) ∧
    binopCore .eq (.float x) (.float y) = .ok (.bool false) ∧
    binopCore .neq (.float x) (.float y) = .ok (.bool true) := by
  obtain ⟨h1, h2, h3, h4, h5, h6⟩ := S5_floatCmp_nan h
  refine ⟨?_, ?_, ?_, ?_, ?_, ?_⟩ <;>
    rw [binopCore_float_cmp _ x y rfl ⟨by decide, by decide⟩] <;>
    simp only [h1, h2, h3, h4, h5, h6]

/-- `+0` against `-0` (any two zeros): equal, neither smaller -/
theorem S5_binopCore_zeros {x y : Bits} (hx : isZero x = true) (hy : isZero y = true) :
    binopCore .lt (.float x) (.float y) = .ok (.bool false) ∧
    binopCore .lte (.float x) (.float y) = .ok (.bool true) ∧
    binopCore .gt (.float x) (.float y) = .ok (.bool false) ∧
    binopCore .gte (.float x) (.float y) = .ok (.bool true) ∧
    binopCore .eq (.float x) (.float y) = .ok (.bool true) ∧
    binopCore .neq (.float x) (.float y) = .ok (.bool false) := by
  obtain ⟨h1, h2, h3, h4, h5, h6⟩ := S5_zeros_floatCmp hx hy
  refine ⟨?_, ?_, ?_, ?_, ?_, ?_⟩ <;>
    rw [binopCore_float_cmp _ x y rfl ⟨by decide, by decide⟩] <;>
    simp only [h1, h2, h3, h4, h5, h6]

/-! ## TESTS on concrete bit patterns (kernel evaluation; not part of the argument)
  `0x7FF0000000000000` = +inf, `0xFFF0000000000000` = -inf, `0x7FF8000000000000` = NaN,
  `0x7FF0000000000001` = a signalling NaN with another payload, `0xFFFFFFFFFFFFFFFF` = a negative NaN,
  `0x8000000000000000` = -0.0, `0x3FF0000000000000` = 1.0, `0xC000000000000000` = -2.0 -/
section tests
set_option exponentiation.threshold 3000
set_option maxRecDepth 20000

/-- TEST classification -/
example : isNaN 0x7FF8000000000000 = true ∧ isNaN 0x7FF0000000000001 = true ∧ isNaN 0xFFFFFFFFFFFFFFFF = true
    ∧ isNaN 0x7FF0000000000000 = false ∧ isInf 0x7FF0000000000000 = true ∧ isInf 0xFFF0000000000000 = true
    ∧ isNeg 0xFFF0000000000000 = true ∧ isZero 0x8000000000000000 = true ∧ isNeg 0x8000000000000000 = true
    ∧ isFinite 0x7FEFFFFFFFFFFFFF = true ∧ isFinite 0x7FF0000000000000 = false := by decide
/-- TEST S1: a NaN with a foreign payload comes out as the canonical NaN -/
example : add 0x7FF0000000000001 0x3FF0000000000000 = 0x7FF8000000000000 := by decide
example : sub 0x3FF0000000000000 0xFFFFFFFFFFFFFFFF = 0x7FF8000000000000 := by decide
example : mul 0xFFFFFFFFFFFFFFFF 0x7FF0000000000000 = 0x7FF8000000000000 := by decide
example : div 0x0000000000000000 0x7FF0000000000001 = 0x7FF8000000000000 := by decide
example : rem 0x7FF8000000000000 0x7FF8000000000000 = 0x7FF8000000000000 := by decide
/-- TEST S2 -/
example : add 0x7FF0000000000000 0xC000000000000000 = 0x7FF0000000000000 := by decide
example : add 0x7FF0000000000000 0x7FF0000000000000 = 0x7FF0000000000000 := by decide
example : add 0x7FF0000000000000 0xFFF0000000000000 = 0x7FF8000000000000 := by decide
example : sub 0x7FF0000000000000 0x7FF0000000000000 = 0x7FF8000000000000 := by decide
example : sub 0x3FF0000000000000 0x7FF0000000000000 = 0xFFF0000000000000 := by decide
example : mul 0x7FF0000000000000 0xC000000000000000 = 0xFFF0000000000000 := by decide
example : mul 0xFFF0000000000000 0xFFF0000000000000 = 0x7FF0000000000000 := by decide
example : mul 0x7FF0000000000000 0x8000000000000000 = 0x7FF8000000000000 := by decide
example : div 0xFFF0000000000000 0xC000000000000000 = 0x7FF0000000000000 := by decide
example : div 0xC000000000000000 0x7FF0000000000000 = 0x8000000000000000 := by decide
example : div 0x7FF0000000000000 0xFFF0000000000000 = 0x7FF8000000000000 := by decide
/-- TEST S3 -/
example : div 0x3FF0000000000000 0x0000000000000000 = 0x7FF0000000000000 := by decide
example : div 0x3FF0000000000000 0x8000000000000000 = 0xFFF0000000000000 := by decide
example : div 0xC000000000000000 0x8000000000000000 = 0x7FF0000000000000 := by decide
example : div 0x8000000000000000 0x0000000000000000 = 0x7FF8000000000000 := by decide
/-- TEST S4 -/
example : rem 0x3FF0000000000000 0x8000000000000000 = 0x7FF8000000000000 := by decide
example : rem 0xFFF0000000000000 0x3FF0000000000000 = 0x7FF8000000000000 := by decide
example : rem 0xC000000000000000 0x7FF0000000000000 = 0xC000000000000000 := by decide
example : rem 0x8000000000000000 0x3FF0000000000000 = 0x8000000000000000 := by decide
example : rem 0x8000000000000000 0xFFF0000000000000 = 0x8000000000000000 := by decide
/-- TEST S4: `-2.0 % 1.0 = -0.0`, `2.0 % -1.0 = +0.0` (sign of the dividend on a zero result) -/
example : rem 0xC000000000000000 0x3FF0000000000000 = 0x8000000000000000 := by decide
example : rem 0x4000000000000000 0xBFF0000000000000 = 0x0000000000000000 := by decide
/-- TEST S5 -/
example : F64.eq 0x7FF8000000000000 0x7FF8000000000000 = false := by decide
example : floatCmp .neq 0x7FF8000000000000 0x7FF8000000000000 = true := by decide
example : floatCmp .gte 0x7FF8000000000000 0x3FF0000000000000 = false := by decide
example : floatCmp .lte 0x3FF0000000000000 0x7FF0000000000001 = false := by decide
example : F64.eq 0x0000000000000000 0x8000000000000000 = true := by decide
example : lt 0x8000000000000000 0x0000000000000000 = false ∧ lt 0x0000000000000000 0x8000000000000000 = false := by
  decide
example : lt 0xFFF0000000000000 0xFFEFFFFFFFFFFFFF = true ∧ lt 0x7FEFFFFFFFFFFFFF 0x7FF0000000000000 = true := by
  decide
example : binopCore .neq (.float 0x7FF8000000000000) (.float 0x7FF8000000000000) = .ok (.bool true) :=
  (binopCore_float_cmp _ _ _ rfl ⟨by decide, by decide⟩).trans
    (congrArg (fun b => Except.ok (PRes.bool b)) (by decide))
example : binopCore .div (.float 0x3FF0000000000000) (.float 0x8000000000000000) = .ok (.float 0xFFF0000000000000) :=
  (binopCore_float_arith _ _ _ rfl).trans (congrArg (fun b => Except.ok (PRes.float b)) (by decide))
/-- TEST S6 -/
example : add 0x3FF0000000000000 0xBFF0000000000000 = 0x0000000000000000 := by decide
example : add 0xBFF0000000000000 0x3FF0000000000000 = 0x0000000000000000 := by decide
example : add 0x0000000000000000 0x8000000000000000 = 0x0000000000000000 := by decide
example : add 0x8000000000000000 0x8000000000000000 = 0x8000000000000000 := by decide
example : sub 0x8000000000000000 0x0000000000000000 = 0x8000000000000000 := by decide
example : sub 0x8000000000000000 0x8000000000000000 = 0x0000000000000000 := by decide
example : mul 0x8000000000000000 0x3FF0000000000000 = 0x8000000000000000 := by decide
example : mul 0x8000000000000000 0xC000000000000000 = 0x0000000000000000 := by decide
example : div 0x8000000000000000 0xC000000000000000 = 0x0000000000000000 := by decide
example : div 0x0000000000000000 0xC000000000000000 = 0x8000000000000000 := by decide
/-- non-vacuity of the hypotheses used above -/
example : isInf (inf true) = true ∧ isFinite (0x3FF0000000000000 : Bits) = true ∧ isZero (0x3FF0000000000000 : Bits) = false
    ∧ isZero (zero true) = true ∧ isNaN canonNaN = true := by decide
end tests

end FloatSpecial
end Nl
