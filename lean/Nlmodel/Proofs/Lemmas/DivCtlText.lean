/- Divergence preservation, stage 3 (C01), at the level of the OBSERVATION (`evalText` against
   `specText`), and the converse direction: what `eval` answers on the machine IS the definitional
   answer (for the stage-3 source fragment `Sim.SB false`). -/
import Nlmodel.Proofs.Lemmas.DivCtlProg
import Nlmodel.Proofs.Lemmas.ResolveHeap
namespace Nl
namespace Sim
open Spec

/-! ### the two evaluators of texts, unfolded -/

/-- `Spec.evalProgram` answers `.fuel` exactly when the block evaluation does -/
theorem evalProgram_fuel_iff (F : Nat) (r : RBlock) : Spec.evalProgram F r = .fuel ↔ Spec.evalB F r {} = .fuel := by
  unfold Spec.evalProgram
  cases h : Spec.evalB F r {} <;> simp

theorem specText_budget {cc : CharClass} {F : Nat} {src : Text} {ast : Block} (hp : parse cc src = .ok ast)
    (h : specText cc F src = .budget) : ∃ r, resolveProgram ast = .ok r ∧ Spec.evalB F r {} = .fuel := by
  simp only [specText, hp] at h
  cases hr : resolveProgram ast with
  | error e => simp [hr] at h
  | ok r =>
    refine ⟨r, rfl, (evalProgram_fuel_iff F r).1 ?_⟩
    simp only [hr] at h
    cases he : Spec.evalProgram F r with
    | fuel => rfl
    | value _ _ => rw [he] at h; simp at h
    | error _ _ => rw [he] at h; simp at h
    | unspec => rw [he] at h; simp at h

theorem specText_not_fault (cc : CharClass) (F : Nat) (src : Text) (site : String) : specText cc F src ≠ .fault site := by
  simp only [specText]
  cases hp : parse cc src with
  | error e => simp
  | ok ast =>
    simp only
    cases hr : resolveProgram ast with
    | error e => simp
    | ok r =>
      simp only
      cases he : Spec.evalProgram F r <;> simp

theorem evalText_budget {cc : CharClass} {b : Nat} {src : Text} {ast : Block} {r : RBlock} {bc : Bytecode}
    (hp : parse cc src = .ok ast) (hc : compileProgram ast = .ok (r, bc)) {s' : VM}
    (h : runSteps bc.code b (VM.start {} bc) = .budget s') : evalText cc b src = .budget := by
  simp only [evalText, hp, hc, VM.run, h]

theorem evalText_congr {cc : CharClass} {b b' : Nat} {src : Text} {ast : Block} {r : RBlock} {bc : Bytecode}
    (hp : parse cc src = .ok ast) (hc : compileProgram ast = .ok (r, bc))
    (h : runSteps bc.code b' (VM.start {} bc) = runSteps bc.code b (VM.start {} bc)) :
    evalText cc b' src = evalText cc b src := by
  simp only [evalText, hp, hc, VM.run, h]

/-- more budget never changes a finished run (copy of `C01.C01_budget_mono`, which lives in the property file) -/
theorem runSteps_budget_mono (c : Code) (n k : Nat) (s : VM) (h : ∀ s', runSteps c n s ≠ .budget s') :
    runSteps c (n + k) s = runSteps c n s := by
  induction n generalizing s with
  | zero => exact absurd rfl (h s)
  | succ n ih =>
    have e : n + 1 + k = (n + k) + 1 := by omega
    rw [e]
    simp only [runSteps] at h ⊢
    cases hs : step c s with
    | next s' => simp only [hs] at h ⊢; exact ih s' h
    | halt v s' => rfl
    | error e s' => rfl
    | fault site => rfl

/-- the same for the observation: an answer of `eval` other than "budget exhausted" is its answer for every larger budget -/
theorem evalText_budget_mono {cc : CharClass} {b : Nat} {src : Text} {ast : Block} {r : RBlock} {bc : Bytecode}
    (hp : parse cc src = .ok ast) (hc : compileProgram ast = .ok (r, bc)) (h : evalText cc b src ≠ .budget) (k : Nat) :
    evalText cc (b + k) src = evalText cc b src :=
  evalText_congr hp hc (runSteps_budget_mono bc.code b k _ (fun _ hs => h (evalText_budget hp hc hs)))

/-! ### the stage-3 source fragment is part of the stage-5 source fragment -/

mutual
theorem se_she : (e : Expr) → ∀ (ab : Bool), SE ab e → SimH.SHE ab e
  | .int v, ab, _ => .int ab v
  | .bool b, ab, _ => .bool ab b
  | .ident n, ab, _ => .ident ab n
  | .pre op r, ab, h => by
    cases h with
    | not _ _ h1 => exact .not _ _ (se_she r ab h1)
    | neg _ _ h1 => exact .neg _ _ (se_she r ab h1)
  | .assign l r, ab, h => by
    cases h with
    | assign _ n _ h1 => exact .assign _ n _ (se_she r ab h1)
  | .infix l op r, ab, h => by
    cases h with
    | bin _ _ _ _ bop hop hl hr => exact .bin _ _ _ _ bop hop (se_she l ab hl) (se_she r false hr)
  | .ifE c t e, ab, h => by
    cases h with
    | ifE _ _ _ _ hc ht he => exact .ifE _ _ _ _ (se_she c ab hc) (sb_shb t ab ht) (so_sho e ab he)
  | .whileE c b, ab, h => by
    cases h with
    | whileE _ _ _ hc hb => exact .whileE _ _ _ (se_she c false hc) (sb_shb b true hb)
  | .float _, _, h => by cases h
  | .str _, _, h => by cases h
  | .func _ _ _, _, h => by cases h
  | .call _ _, _, h => by cases h
  | .arr _, _, h => by cases h
  | .index _ _, _, h => by cases h
theorem so_sho : (o : OptBlock) → ∀ (ab : Bool), SO ab o → SimH.SHO ab o
  | .none, ab, _ => .none ab
  | .some b, ab, h => by
    cases h with
    | some _ _ hb => exact .some _ _ (sb_shb b ab hb)
theorem ss_shs : (s : Stmt) → ∀ (ab : Bool), SS ab s → SimH.SHS ab s
  | .expr e, ab, h => by
    cases h with
    | expr _ _ he => exact .expr _ _ (se_she e ab he)
  | .letS n e, ab, h => by
    cases h with
    | letS _ _ _ he => exact .letS _ _ _ (se_she e ab he)
  | .block b, ab, h => by
    cases h with
    | block _ _ hb => exact .block _ _ (sb_shb b ab hb)
  | .brk, _, h => by cases h; exact .brk
  | .cont, _, h => by cases h; exact .cont
  | .ret _, _, h => by cases h
theorem sb_shb : (b : Block) → ∀ (ab : Bool), SB ab b → SimH.SHB ab b
  | .nil, ab, _ => .nil ab
  | .cons s rest, ab, h => by
    cases h with
    | cons _ _ _ hs hrest => exact .cons _ _ _ (ss_shs s ab hs) (sb_shb rest ab hrest)
end

/-- the forward theorem at text level for the stage-3 source fragment (`SimH.heap_eval_text_r1` through the embedding) -/
theorem ctl_eval_text (cc : CharClass) (src : Text) (ast : Block) (r : RBlock) (bc : Bytecode)
    (hp : parse cc src = .ok ast) (hs : SB false ast) (hc : compileProgram ast = .ok (r, bc)) (F : Nat) :
    match specText cc F src with
    | .value t out => ∃ n, ∀ k, evalText cc (n + k) src = .value t out
    | .error e out => ∃ n, ∀ k, evalText cc (n + k) src = .error e out
    | .fault _ => False
    | _ => True :=
  SimH.heap_eval_text_r1 cc src ast r bc hp (sb_shb ast false hs) hc F

/-! ### (T4) divergence at text level -/

/-- (T4) for a text that parses to a tree of the stage-3 source fragment and compiles (`compileProgram` fails only
    when an operand does not fit its width, F24): if the definitional evaluation of the text never ends
    (`.budget` for EVERY fuel), `eval` on the machine exhausts EVERY instruction budget -/
theorem ctl_text_diverges (cc : CharClass) (src : Text) (ast : Block) (r : RBlock) (bc : Bytecode)
    (hp : parse cc src = .ok ast) (hs : SB false ast) (hc : compileProgram ast = .ok (r, bc))
    (hdiv : ∀ F, specText cc F src = .budget) : ∀ b, evalText cc b src = .budget := by
  intro b
  obtain ⟨hr, _⟩ := compileProgram_ok hc
  have hd : ∀ F, Spec.evalB F r {} = .fuel := by
    intro F
    obtain ⟨r', hr', he⟩ := specText_budget hp (hdiv F)
    rw [hr] at hr'; injection hr' with hr'; subst hr'; exact he
  obtain ⟨s', hs'⟩ := ctl_source_diverges ast hs r bc hc hd b
  exact evalText_budget hp hc hs'

/-- (T4) without the hypothesis that the program compiles: the only other answer is the compile-time
    `SyntaxError` of an operand that does not fit (the definitional semantics has no such limit) -/
theorem ctl_text_diverges' (cc : CharClass) (src : Text) (ast : Block)
    (hp : parse cc src = .ok ast) (hs : SB false ast)
    (hdiv : ∀ F, specText cc F src = .budget) : ∀ b, evalText cc b src = .budget ∨ evalText cc b src = .error .syntax [] := by
  intro b
  obtain ⟨r, hr, _⟩ := specText_budget hp (hdiv 0)
  cases hcr : compileR r with
  | ok bc =>
    have hc : compileProgram ast = .ok (r, bc) := by simp [compileProgram, hr, hcr]
    exact .inl (ctl_text_diverges cc src ast r bc hp hs hc hdiv b)
  | error e =>
    have he : e = .syntax := by
      unfold compileR at hcr
      simp only at hcr
      split at hcr
      · cases hcr
      · injection hcr with hcr; exact hcr.symm
    subst he
    exact .inr (by simp [evalText, hp, compileProgram, hr, hcr])

/-! ### (T5) the converse: the machine's answer is the definitional one -/

/-- (T5) if `eval` ends within some budget `b` (value, error — or fault), the definitional evaluation ends for
    some fuel, and then either with the SAME observation or in behaviour the documentation does not fix
    (`.unspec`: in this fragment, reading a variable inside its own initialiser, `stel x = x`) -/
theorem ctl_text_converse (cc : CharClass) (src : Text) (ast : Block) (r : RBlock) (bc : Bytecode)
    (hp : parse cc src = .ok ast) (hs : SB false ast) (hc : compileProgram ast = .ok (r, bc))
    (b : Nat) (hne : evalText cc b src ≠ .budget) :
    ∃ F, specText cc F src = evalText cc b src ∨ specText cc F src = .unspec := by
  by_cases hall : ∀ F, specText cc F src = .budget
  · exact absurd (ctl_text_diverges cc src ast r bc hp hs hc hall b) hne
  · obtain ⟨F, hF⟩ := Classical.not_forall.1 hall
    refine ⟨F, ?_⟩
    have hfwd := ctl_eval_text cc src ast r bc hp hs hc F
    cases hsp : specText cc F src with
    | value t out =>
      rw [hsp] at hfwd
      obtain ⟨n, hn⟩ := hfwd
      have h1 := evalText_budget_mono hp hc hne n
      rw [Nat.add_comm, hn b] at h1
      exact .inl h1
    | error e out =>
      rw [hsp] at hfwd
      obtain ⟨n, hn⟩ := hfwd
      have h1 := evalText_budget_mono hp hc hne n
      rw [Nat.add_comm, hn b] at h1
      exact .inl h1
    | fault site => exact absurd hsp (specText_not_fault cc F src site)
    | budget => exact absurd hsp hF
    | unspec => exact .inr rfl

/-- (T5) as asked for, for texts whose definitional evaluation never leaves the documented behaviour:
    the machine's answer within a budget is the definitional answer for some fuel -/
theorem ctl_text_converse_spec (cc : CharClass) (src : Text) (ast : Block) (r : RBlock) (bc : Bytecode)
    (hp : parse cc src = .ok ast) (hs : SB false ast) (hc : compileProgram ast = .ok (r, bc))
    (hnu : ∀ F, specText cc F src ≠ .unspec)
    (b : Nat) (hne : evalText cc b src ≠ .budget) : ∃ F, specText cc F src = evalText cc b src := by
  obtain ⟨F, h | h⟩ := ctl_text_converse cc src ast r bc hp hs hc b hne
  · exact ⟨F, h⟩
  · exact absurd h (hnu F)

/-- consequence: in the fragment, on documented behaviour, `eval` never faults -/
theorem ctl_text_no_fault (cc : CharClass) (src : Text) (ast : Block) (r : RBlock) (bc : Bytecode)
    (hp : parse cc src = .ok ast) (hs : SB false ast) (hc : compileProgram ast = .ok (r, bc))
    (hnu : ∀ F, specText cc F src ≠ .unspec) (b : Nat) (site : String) : evalText cc b src ≠ .fault site := by
  intro h
  obtain ⟨F, hF⟩ := ctl_text_converse_spec cc src ast r bc hp hs hc hnu b (by rw [h]; simp)
  rw [h] at hF
  exact specText_not_fault cc F src site hF

end Sim
end Nl
