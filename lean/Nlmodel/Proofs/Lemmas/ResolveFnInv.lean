/- Stage 4, property R1 of the resolver: the source fragment and the invariant on the resolver state (top level and function bodies). -/
import Nlmodel.Proofs.Lemmas.ResolveFnPerm
import Nlmodel.Proofs.Lemmas.ResolveCtl
namespace Nl
namespace SimF
open Spec Sim

/-! ## the source fragment of stage 4 -/

/-- the callee of `f(args)` is not the name of a builtin (those resolve to `callBuiltin`, outside stage 4) -/
def nonBuiltin : Expr → Bool
  | .ident n => (Builtin.resolve n).isNone
  | _ => true

mutual
/-- source expressions of stage 4. `fn` = inside a function body; the flag `ab` has the meaning it has in `YE`.
    No function literal here: they are whole top-level statements (`SrcTop`). -/
inductive SrcE (fn : Bool) : Bool → Expr → Prop where
  | int (ab) (v : Int) : SrcE fn ab (.int v)
  | bool (ab) (b : Bool) : SrcE fn ab (.bool b)
  | ident (ab) (n : Text) : SrcE fn ab (.ident n)
  | not (ab) (e : Expr) : SrcE fn ab e → SrcE fn ab (.pre .not e)
  | neg (ab) (e : Expr) : SrcE fn ab e → SrcE fn ab (.pre .sub e)
  | negate (ab) (e : Expr) : SrcE fn ab e → SrcE fn ab (.pre .negate e)
  | bin (ab) (l : Expr) (op : Op) (r : Expr) (bop : BinOp) : opToBin op = some bop → SrcE fn ab l → SrcE fn false r → SrcE fn ab (.infix l op r)
  | assign (ab) (n : Text) (e : Expr) : SrcE fn ab e → SrcE fn ab (.assign (.ident n) e)
  | ifE (ab) (c : Expr) (t : Block) (e : OptBlock) : SrcE fn ab c → SrcB fn ab t → SrcO fn ab e → SrcE fn ab (.ifE c t e)
  | whileE (ab) (c : Expr) (b : Block) : SrcE fn false c → SrcB fn true b → SrcE fn ab (.whileE c b)
  | call (ab) (f : Expr) (as : Exprs) : nonBuiltin f = true → SrcEs fn as → SrcE fn false f → SrcE fn ab (.call f as)
inductive SrcEs (fn : Bool) : Exprs → Prop where
  | nil : SrcEs fn .nil
  | cons (e : Expr) (es : Exprs) : SrcE fn false e → SrcEs fn es → SrcEs fn (.cons e es)
inductive SrcO (fn : Bool) : Bool → OptBlock → Prop where
  | none (ab) : SrcO fn ab .none
  | some (ab) (b : Block) : SrcB fn ab b → SrcO fn ab (.some b)
inductive SrcS (fn : Bool) : Bool → Stmt → Prop where
  | expr (ab) (e : Expr) : SrcE fn ab e → SrcS fn ab (.expr e)
  | letS (ab) (n : Text) (e : Expr) : SrcE fn ab e → SrcS fn ab (.letS n e)
  | block (ab) (b : Block) : SrcB fn ab b → SrcS fn ab (.block b)
  | brk : SrcS fn true .brk
  | cont : SrcS fn true .cont
  | ret (ab) (e : Expr) : fn = true → SrcE fn ab e → SrcS fn ab (.ret e)
inductive SrcB (fn : Bool) : Bool → Block → Prop where
  | nil (ab) : SrcB fn ab .nil
  | cons (ab) (s : Stmt) (b : Block) : SrcS fn ab s → SrcB fn ab b → SrcB fn ab (.cons s b)
end

/-- source programs of stage 4: plain statements, `functie name(ps) { body }` and `stel f = functie(ps) { body }` in sequence -/
inductive SrcTop : Block → Prop where
  | nil : SrcTop .nil
  | stmt (s : Stmt) (rest : Block) : SrcS false false s → SrcTop rest → SrcTop (.cons s rest)
  | named (name : Text) (ps : List Text) (body rest : Block) : name.isEmpty = false → SrcB true false body → SrcTop rest →
      SrcTop (.cons (.expr (.func name ps body)) rest)
  | letF (f : Text) (ps : List Text) (body rest : Block) : SrcB true false body → SrcTop rest →
      SrcTop (.cons (.letS f (.func [] ps body)) rest)

/-! ## the invariant on the resolver state -/

abbrev Scs := List (List (Text × Nat))

/-- `max_size` of the current context -/
def msOf (st : RState) : Nat :=
  match st.ctxs with
  | c :: _ => c.maxSize
  | [] => 0

/-- the number of local slots handed out so far (0 at top level) -/
def lim (fn : Bool) (st : RState) : Nat :=
  match fn with
  | true => msOf st
  | false => 0

/-- the global scope of the fragment: the scopes of the current context at top level, the (fixed) global ones in a body -/
def gamOf (fn : Bool) (gscs scs : Scs) : Gam :=
  match fn with
  | true => G gscs
  | false => G scs

def lamOf (fn : Bool) (scs : Scs) : Gam :=
  match fn with
  | true => G scs
  | false => []

/-- the resolver state at top level (`fn = false`: one global context with scopes `scs`) and inside a function body
    (`fn = true`: a local context with scopes `scs` on top of the global context with scopes `gscs`) -/
structure RInv (fn : Bool) (st : RState) (scs gscs : Scs) (F : Nat) : Prop where
  shapeF : fn = false → ∃ ms, st.ctxs = [{ isGlobal := true, maxSize := ms, scopes := scs }]
  shapeT : fn = true → ∃ ms gms, st.ctxs = [{ isGlobal := false, maxSize := ms, scopes := scs }, { isGlobal := true, maxSize := gms, scopes := gscs }] ∧
      scs.flatten.length ≤ ms ∧ ∀ p ∈ gscs.flatten, p.2 < st.nextId
  fresh : ∀ p ∈ scs.flatten, p.2 < st.nextId
  fid : st.nextFid = F

/-- a resolved reference is in scope -/
def RefOK (nl : Nat) (Γ Λ : Gam) (r : Ref) : Prop :=
  match r.slot with
  | .global k => (r.bid, k) ∈ Γ
  | .loc k => (r.bid, k) ∈ Λ ∧ k < nl

theorem ye_var {nl fn Γ Λ ab} (r : Ref) (h : RefOK nl Γ Λ r) : YE nl fn Γ Λ ab (.var r) := by
  obtain ⟨b, s⟩ := r
  cases s with
  | global k => exact .varG _ _ _ b k h
  | loc k => exact .varL _ _ _ b k h.1 h.2

theorem ye_assign {nl fn Γ Λ ab} (r : Ref) (e : RExpr) (h : RefOK nl Γ Λ r) (he : YE nl fn Γ Λ ab e) : YE nl fn Γ Λ ab (.assignVar r e) := by
  obtain ⟨b, s⟩ := r
  cases s with
  | global k => exact .assignG _ _ _ b k e h he
  | loc k => exact .assignL _ _ _ b k e h.1 h.2 he

theorem rinv_resolve (fn : Bool) (st : RState) (scs gscs : Scs) (F : Nat) (h : RInv fn st scs gscs F) (n : Text) (r : Ref)
    (hr : st.resolve n = some r) (nl : Nat) (hnl : lim fn st ≤ nl) : RefOK nl (gamOf fn gscs scs) (lamOf fn scs) r := by
  cases fn with
  | false =>
    obtain ⟨ms, hs⟩ := h.shapeF rfl
    unfold RState.resolve at hr
    rw [hs] at hr
    simp only [Ctx.resolve, Ctx.flat] at hr
    cases hl : lookupFlat scs.flatten n with
    | none => simp [hl, List.getLast?] at hr
    | some p =>
      obtain ⟨idx, bid⟩ := p
      simp only [hl, ↓reduceIte, Option.some.injEq] at hr
      subst hr
      exact lookupFlat_slots _ n idx bid hl
  | true =>
    obtain ⟨ms, gms, hs, hle, _⟩ := h.shapeT rfl
    have hlim : ms ≤ nl := by simpa [lim, msOf, hs] using hnl
    unfold RState.resolve at hr
    rw [hs] at hr
    simp only [Ctx.resolve, Ctx.flat] at hr
    cases hl : lookupFlat scs.flatten n with
    | some p =>
      obtain ⟨idx, bid⟩ := p
      simp only [hl, Bool.false_eq_true, ↓reduceIte, Option.some.injEq] at hr
      subst hr
      have hm := lookupFlat_slots _ n idx bid hl
      have hb := (slotsOf_bounds _ _ hm).1
      exact ⟨hm, by simp only at hb; omega⟩
    | none =>
      simp only [hl, List.getLast?_singleton] at hr
      cases hg : lookupFlat gscs.flatten n with
      | none => simp [hg] at hr
      | some p =>
        obtain ⟨idx, bid⟩ := p
        simp only [hg, Option.some.injEq] at hr
        subst hr
        exact lookupFlat_slots _ n idx bid hg

theorem lim_define_le (fn : Bool) (st : RState) (n : Text) : lim fn st ≤ lim fn (st.define n).1 := by
  cases fn with
  | false => exact Nat.le_refl _
  | true =>
    simp only [lim, msOf, RState.define]
    cases hc : st.ctxs with
    | nil => simp
    | cons c cs =>
      simp only [Ctx.define]
      cases c.scopes <;> simp

theorem rinv_define (fn : Bool) (st : RState) (sc : List (Text × Nat)) (scs gscs : Scs) (F : Nat) (h : RInv fn st (sc :: scs) gscs F) (n : Text) :
    RInv fn (st.define n).1 (((n, st.nextId) :: sc) :: scs) gscs F ∧
    ∀ (nl : Nat) (ab : Bool) (e : RExpr), lim fn (st.define n).1 ≤ nl →
      YE nl fn (gamOf fn gscs (((n, st.nextId) :: sc) :: scs)) (lamOf fn (((n, st.nextId) :: sc) :: scs)) ab e →
      YS nl fn (gamOf fn gscs (sc :: scs)) (lamOf fn (sc :: scs)) ab (.letS (st.define n).2 e)
        (gamOf fn gscs (((n, st.nextId) :: sc) :: scs)) (lamOf fn (((n, st.nextId) :: sc) :: scs)) := by
  have hfresh' : ∀ p ∈ (((n, st.nextId) :: sc) :: scs).flatten, p.2 < st.nextId + 1 := by
    intro p hp
    simp only [List.flatten_cons, List.cons_append, List.mem_cons] at hp
    rcases hp with rfl | hp
    · simp
    · have := h.fresh p (by simpa using hp); omega
  have hfs : ∀ p ∈ G (sc :: scs), p.1 ≠ st.nextId ∧ p.2 ≠ (sc :: scs).flatten.length := by
    intro p hp
    obtain ⟨h1, m, h2⟩ := slotsOf_bounds _ p hp
    have := h.fresh (m, p.1) h2
    simp only at this
    exact ⟨by omega, by omega⟩
  cases fn with
  | false =>
    obtain ⟨ms, hs⟩ := h.shapeF rfl
    have hd : st.define n = ({ st with ctxs := [{ isGlobal := true, maxSize := ms + 1, scopes := ((n, st.nextId) :: sc) :: scs }], nextId := st.nextId + 1 },
        ⟨st.nextId, .global (sc :: scs).flatten.length⟩) := by
      unfold RState.define
      rw [hs]
      simp only [Ctx.define, Ctx.totalLen, Ctx.flat, ↓reduceIte]
    rw [hd]
    refine ⟨⟨fun _ => ⟨ms + 1, rfl⟩, (fun hc => by cases hc), hfresh', h.fid⟩, ?_⟩
    intro nl ab e _ he
    have he' : YE nl false ((st.nextId, (sc :: scs).flatten.length) :: G (sc :: scs)) [] ab e := by
      simpa [gamOf, lamOf, G, slotsOf] using he
    have := YS.letG (G (sc :: scs)) [] ab st.nextId (sc :: scs).flatten.length e rfl hfs he'
    simpa [gamOf, lamOf, G, slotsOf] using this
  | true =>
    obtain ⟨ms, gms, hs, hle, hg⟩ := h.shapeT rfl
    have hd : st.define n = ({ st with ctxs := [{ isGlobal := false, maxSize := ms + 1, scopes := ((n, st.nextId) :: sc) :: scs },
          { isGlobal := true, maxSize := gms, scopes := gscs }], nextId := st.nextId + 1 },
        ⟨st.nextId, .loc (sc :: scs).flatten.length⟩) := by
      unfold RState.define
      rw [hs]
      simp only [Ctx.define, Ctx.totalLen, Ctx.flat, Bool.false_eq_true, ↓reduceIte]
    rw [hd]
    refine ⟨⟨(fun hc => by cases hc), fun _ => ⟨ms + 1, gms, rfl, ?_, ?_⟩, hfresh', h.fid⟩, ?_⟩
    · simp only [List.flatten_cons, List.cons_append, List.length_cons, List.length_append] at hle ⊢; omega
    · intro p hp; have := hg p hp; simp only; omega
    intro nl ab e hnl he
    have hk : (sc :: scs).flatten.length < nl := by
      simp only [lim, msOf] at hnl
      simp only [List.flatten_cons, List.length_append] at hle ⊢; omega
    have he' : YE nl true (G gscs) ((st.nextId, (sc :: scs).flatten.length) :: G (sc :: scs)) ab e := by
      simpa [gamOf, lamOf, G, slotsOf] using he
    have := YS.letL (G gscs) (G (sc :: scs)) ab st.nextId (sc :: scs).flatten.length e rfl hfs hk he'
    simpa [gamOf, lamOf, G, slotsOf] using this

theorem rinv_enter (fn : Bool) (st : RState) (scs gscs : Scs) (F : Nat) (h : RInv fn st scs gscs F) :
    RInv fn st.enterScope ([] :: scs) gscs F ∧ lim fn st.enterScope = lim fn st := by
  cases fn with
  | false =>
    obtain ⟨ms, hs⟩ := h.shapeF rfl
    refine ⟨⟨fun _ => ⟨ms, by simp [RState.enterScope, hs]⟩, (fun hc => by cases hc), ?_, (by simpa [RState.enterScope, hs] using h.fid)⟩, rfl⟩
    intro p hp
    have : st.enterScope.nextId = st.nextId := by simp [RState.enterScope, hs]
    rw [this]
    exact h.fresh p (by simpa using hp)
  | true =>
    obtain ⟨ms, gms, hs, hle, hg⟩ := h.shapeT rfl
    have hn : st.enterScope.nextId = st.nextId := by simp [RState.enterScope, hs]
    refine ⟨⟨(fun hc => by cases hc), fun _ => ⟨ms, gms, (by simp [RState.enterScope, hs]), (by simpa using hle), (by rw [hn]; exact hg)⟩, ?_,
      (by simpa [RState.enterScope, hs] using h.fid)⟩, by simp [lim, msOf, RState.enterScope, hs]⟩
    intro p hp
    rw [hn]
    exact h.fresh p (by simpa using hp)

theorem rinv_leave (fn : Bool) (st : RState) (sc : List (Text × Nat)) (scs gscs : Scs) (F : Nat) (h : RInv fn st (sc :: scs) gscs F) :
    RInv fn st.leaveScope scs gscs F ∧ lim fn st.leaveScope = lim fn st := by
  cases fn with
  | false =>
    obtain ⟨ms, hs⟩ := h.shapeF rfl
    refine ⟨⟨fun _ => ⟨ms, by simp [RState.leaveScope, hs]⟩, (fun hc => by cases hc), ?_, (by simpa [RState.leaveScope, hs] using h.fid)⟩, rfl⟩
    intro p hp
    have : st.leaveScope.nextId = st.nextId := by simp [RState.leaveScope, hs]
    rw [this]
    exact h.fresh p (by simp; exact Or.inr (by simpa using hp))
  | true =>
    obtain ⟨ms, gms, hs, hle, hg⟩ := h.shapeT rfl
    have hn : st.leaveScope.nextId = st.nextId := by simp [RState.leaveScope, hs]
    refine ⟨⟨(fun hc => by cases hc), fun _ => ⟨ms, gms, (by simp [RState.leaveScope, hs]), ?_, (by rw [hn]; exact hg)⟩, ?_,
      (by simpa [RState.leaveScope, hs] using h.fid)⟩, by simp [lim, msOf, RState.leaveScope, hs]⟩
    · simp only [List.flatten_cons, List.length_append] at hle; omega
    · intro p hp
      rw [hn]
      exact h.fresh p (by simp; exact Or.inr (by simpa using hp))

theorem rinv_loop (fn : Bool) (st : RState) (scs gscs : Scs) (F : Nat) (d : Nat) (h : RInv fn st scs gscs F) :
    RInv fn { st with loopDepth := d } scs gscs F :=
  ⟨h.shapeF, h.shapeT, h.fresh, h.fid⟩

theorem gamOf_enter (fn : Bool) (gscs scs : Scs) : gamOf fn gscs ([] :: scs) = gamOf fn gscs scs := by
  cases fn <;> simp [gamOf, G]

theorem lamOf_enter (fn : Bool) (scs : Scs) : lamOf fn ([] :: scs) = lamOf fn scs := by
  cases fn <;> simp [lamOf, G]

end SimF
end Nl
