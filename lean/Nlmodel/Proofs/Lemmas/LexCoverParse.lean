/- C08 (rejection half): the parser never consumes the illegal token.  Whatever a parser function
   returns successfully, the tokens it has consumed contain no `Token.illegal`; the errors it answers
   are syntax/type (or the model-only fuel) errors.  Hence a token list with an illegal token (before
   any end marker) is never accepted. -/
import Nlmodel.Proofs.Lemmas.ParseFuel
namespace Nl
namespace LC

/-- `ts'` is what remains of `ts` after consuming a prefix that contains no illegal token -/
def Cons (ts ts' : List Token) : Prop := ∃ pre, ts = pre ++ ts' ∧ Token.illegal ∉ pre

theorem Cons.refl (ts : List Token) : Cons ts ts := ⟨[], rfl, by simp⟩

theorem Cons.trans {a b c : List Token} (h1 : Cons a b) (h2 : Cons b c) : Cons a c := by
  obtain ⟨p1, e1, n1⟩ := h1
  obtain ⟨p2, e2, n2⟩ := h2
  refine ⟨p1 ++ p2, by rw [e1, e2, List.append_assoc], ?_⟩
  intro hm
  rcases List.mem_append.mp hm with h | h
  · exact n1 h
  · exact n2 h

theorem cons_adv (ts : List Token) (h : cur ts ≠ .illegal) : Cons ts (adv ts) := by
  cases ts with
  | nil => exact Cons.refl _
  | cons t r =>
    refine ⟨[t], rfl, ?_⟩
    intro hm
    simp only [List.mem_cons, List.not_mem_nil, or_false] at hm
    exact h hm.symm

theorem cons_adv_of (ts : List Token) (t : Token) (hc : cur ts = t) (ht : t ≠ .illegal) : Cons ts (adv ts) :=
  cons_adv ts (by rw [hc]; exact ht)

theorem cons_skipOpt (t : Token) (ts : List Token) (ht : t ≠ .illegal) : Cons ts (skipOpt t ts) := by
  unfold skipOpt
  split
  · rename_i hc; exact cons_adv_of ts t hc ht
  · exact Cons.refl _

/-- the error kinds the parser answers -/
def PErr (e : Err) : Prop := e = .syntax ∨ e = .type ∨ e = .fuel

theorem perr_syntax : PErr .syntax := .inl rfl
theorem perr_type : PErr .type := .inr (.inl rfl)
theorem perr_fuel : PErr .fuel := .inr (.inr rfl)

/-- the invariant of every parser function: on success the consumed tokens contain no illegal token;
    an error is a syntax, type or (model-only) fuel error -/
def Res {α : Type} (ts : List Token) : Except Err (α × List Token) → Prop
  | .ok (_, ts') => Cons ts ts'
  | .error e => PErr e

theorem res_ok {α : Type} {ts ts' : List Token} {x : α} (h : Cons ts ts') : Res ts (.ok (x, ts')) := h

theorem res_err {α : Type} {ts : List Token} {e : Err} (h : PErr e) : Res (α := α) ts (.error e) := h

theorem Res.mono {α : Type} {ts ts1 : List Token} {r : Except Err (α × List Token)} (hc : Cons ts ts1) (h : Res ts1 r) : Res ts r := by
  cases r with
  | error e => exact h
  | ok p => obtain ⟨x, ts'⟩ := p; exact hc.trans h

theorem res_cases {α : Type} {ts : List Token} (r : Except Err (α × List Token)) (hr : Res ts r) :
    (∃ e, r = .error e ∧ PErr e) ∨ (∃ x ts', r = .ok (x, ts') ∧ Cons ts ts') := by
  cases r with
  | error e => exact .inl ⟨e, rfl, hr⟩
  | ok p => obtain ⟨x, ts'⟩ := p; exact .inr ⟨x, ts', rfl, hr⟩

theorem skip_cases (t : Token) (ts : List Token) (ht : t ≠ .illegal) :
    (∃ e, skipTok t ts = .error e ∧ PErr e) ∨ (∃ ts', skipTok t ts = .ok ts' ∧ Cons ts ts') := by
  unfold skipTok
  split
  · rename_i hc; exact .inr ⟨_, rfl, cons_adv_of ts t hc ht⟩
  · exact .inl ⟨_, rfl, perr_syntax⟩

theorem binop_not_illegal (ts : List Token) (op : Op) (h : (cur ts).binop = some op) : cur ts ≠ .illegal := by
  intro e; rw [e] at h; cases h

theorem params_res : ∀ (f : Nat) (ts : List Token), Res ts (parseParams f ts) := by
  intro f
  induction f with
  | zero => intro ts; exact res_err perr_fuel
  | succ f ih =>
    intro ts
    simp only [parseParams]
    split
    · exact res_ok (Cons.refl _)
    · rename_i n hc
      have c1 : Cons ts (skipOpt .comma (adv ts)) :=
        (cons_adv_of ts _ hc (by intro h; cases h)).trans (cons_skipOpt _ _ (by decide))
      rcases res_cases _ (ih (skipOpt .comma (adv ts))) with ⟨e, he, hp⟩ | ⟨ps, ts', he, c2⟩ <;> simp only [he]
      · exact res_err hp
      · exact res_ok (c1.trans c2)
    · exact res_err perr_syntax

/-- a successful `parseElems` stops at the closing token -/
theorem elems_close : ∀ (f : Nat) (close : Token) (ts : List Token) (es : Exprs) (ts' : List Token),
    parseElems f close ts = .ok (es, ts') → cur ts' = close := by
  intro f
  induction f with
  | zero => intro close ts es ts' h; simp [parseElems] at h
  | succ f ih =>
    intro close ts es ts' h
    rw [parseElems] at h
    split at h
    · rename_i hc
      injection h with h; injection h with _ h2; subst h2; exact hc
    · cases h1 : parseExpr f 0 ts with
      | error e => rw [h1] at h; cases h
      | ok q =>
        obtain ⟨e, ts1⟩ := q
        rw [h1] at h
        simp only at h
        cases h2 : parseElems f close (skipOpt .comma ts1) with
        | error e => rw [h2] at h; cases h
        | ok q2 =>
          obtain ⟨es2, ts2⟩ := q2
          rw [h2] at h
          simp only at h
          injection h with h; injection h with _ h3; subst h3
          exact ih close _ es2 ts2 h2

/-- a successful top-level statement loop stops at the end marker only -/
theorem stmts_end : ∀ (f : Nat) (ts : List Token) (b : Block) (ts' : List Token),
    parseStmts f false ts = .ok (b, ts') → cur ts' = .eof := by
  intro f
  induction f with
  | zero => intro ts b ts' h; simp [parseStmts] at h
  | succ f ih =>
    intro ts b ts' h
    rw [parseStmts] at h
    split at h
    · rename_i hc
      injection h with h; injection h with _ h2; subst h2
      simpa using hc
    · cases h1 : parseStatement f ts with
      | error e => rw [h1] at h; cases h
      | ok q =>
        obtain ⟨s, ts1⟩ := q
        rw [h1] at h
        simp only at h
        cases h2 : parseStmts f false ts1 with
        | error e => rw [h2] at h; cases h
        | ok q2 =>
          obtain ⟨b2, ts2⟩ := q2
          rw [h2] at h
          simp only at h
          injection h with h; injection h with _ h3; subst h3
          exact ih _ b2 ts2 h2

structure All (f : Nat) : Prop where
  pre : ∀ ts, Res ts (parsePrefix f ts)
  expr : ∀ p ts, Res ts (parseExpr f p ts)
  loop : ∀ p l ts, Res ts (parseLoop f p l ts)
  elems : ∀ close ts, Res ts (parseElems f close ts)
  stmt : ∀ ts, Res ts (parseStatement f ts)
  block : ∀ ts, Res ts (parseBlock f ts)
  stmts : ∀ b ts, Res ts (parseStmts f b ts)

section step
variable {f : Nat} (ih : All f)
include ih

theorem expr_succ (p : Nat) (ts : List Token) : Res ts (parseExpr (f + 1) p ts) := by
  rw [parseExpr]
  rcases res_cases _ (ih.pre ts) with ⟨e, he, hp⟩ | ⟨l, ts', he, c1⟩ <;> simp only [he]
  · exact res_err hp
  · exact (ih.loop p l ts').mono c1

theorem elems_succ (close : Token) (ts : List Token) : Res ts (parseElems (f + 1) close ts) := by
  rw [parseElems]
  split
  · exact res_ok (Cons.refl _)
  · rcases res_cases _ (ih.expr 0 ts) with ⟨e, he, hp⟩ | ⟨x, ts1, he, c1⟩ <;> simp only [he]
    · exact res_err hp
    · have c2 := cons_skipOpt .comma ts1 (by decide)
      rcases res_cases _ (ih.elems close (skipOpt .comma ts1)) with ⟨e, he2, hp⟩ | ⟨es, ts2, he2, c3⟩ <;> simp only [he2]
      · exact res_err hp
      · exact res_ok ((c1.trans c2).trans c3)

theorem block_succ (ts : List Token) : Res ts (parseBlock (f + 1) ts) := by
  rw [parseBlock]
  rcases skip_cases .lbrace ts (by decide) with ⟨e, he, hp⟩ | ⟨ts1, he, c1⟩ <;> simp only [he]
  · exact res_err hp
  · rcases res_cases _ (ih.stmts true ts1) with ⟨e, he2, hp⟩ | ⟨b, ts2, he2, c2⟩ <;> simp only [he2]
    · exact res_err hp
    · rcases skip_cases .rbrace ts2 (by decide) with ⟨e, he3, hp⟩ | ⟨ts3, he3, c3⟩ <;> simp only [he3]
      · exact res_err hp
      · exact res_ok ((c1.trans c2).trans c3)

theorem stmts_succ (b : Bool) (ts : List Token) : Res ts (parseStmts (f + 1) b ts) := by
  rw [parseStmts]
  split
  · exact res_ok (Cons.refl _)
  · rcases res_cases _ (ih.stmt ts) with ⟨e, he, hp⟩ | ⟨x, ts1, he, c1⟩ <;> simp only [he]
    · exact res_err hp
    · rcases res_cases _ (ih.stmts b ts1) with ⟨e, he2, hp⟩ | ⟨bl, ts2, he2, c2⟩ <;> simp only [he2]
      · exact res_err hp
      · exact res_ok (c1.trans c2)

theorem stmt_succ (ts : List Token) : Res ts (parseStatement (f + 1) ts) := by
  rw [parseStatement]
  split
  · -- stel
    rename_i hc
    have c1 : Cons ts (adv ts) := cons_adv_of ts _ hc (by decide)
    simp only
    split
    · rename_i n hc2
      have c2 : Cons (adv ts) (adv (adv ts)) := cons_adv_of _ _ hc2 (by intro h; cases h)
      rcases skip_cases .assign (adv (adv ts)) (by decide) with ⟨e, he, hp⟩ | ⟨ts2, he, c3⟩ <;> simp only [he]
      · exact res_err hp
      · rcases res_cases _ (ih.expr 0 ts2) with ⟨e, he2, hp⟩ | ⟨x, ts3, he2, c4⟩ <;> simp only [he2]
        · exact res_err hp
        · exact res_ok ((((c1.trans c2).trans c3).trans c4).trans (cons_skipOpt .semi ts3 (by decide)))
    · exact res_err perr_syntax
  · rcases res_cases _ (ih.block ts) with ⟨e, he, hp⟩ | ⟨b, ts1, he, c1⟩ <;> simp only [he]
    · exact res_err hp
    · exact res_ok (c1.trans (cons_skipOpt .semi ts1 (by decide)))
  · rename_i hc
    have c1 : Cons ts (adv ts) := cons_adv_of ts _ hc (by decide)
    rcases res_cases _ (ih.expr 0 (adv ts)) with ⟨e, he, hp⟩ | ⟨x, ts1, he, c2⟩ <;> simp only [he]
    · exact res_err hp
    · exact res_ok ((c1.trans c2).trans (cons_skipOpt .semi ts1 (by decide)))
  · rename_i hc
    have c1 : Cons ts (adv ts) := cons_adv_of ts _ hc (by decide)
    exact res_ok (c1.trans (cons_skipOpt .semi _ (by decide)))
  · rename_i hc
    have c1 : Cons ts (adv ts) := cons_adv_of ts _ hc (by decide)
    exact res_ok (c1.trans (cons_skipOpt .semi _ (by decide)))
  · rcases res_cases _ (ih.expr 0 ts) with ⟨e, he, hp⟩ | ⟨x, ts1, he, c1⟩ <;> simp only [he]
    · exact res_err hp
    · exact res_ok (c1.trans (cons_skipOpt .semi ts1 (by decide)))

theorem loop_succ (p : Nat) (l : Expr) (ts : List Token) : Res ts (parseLoop (f + 1) p l ts) := by
  rw [parseLoop]
  simp only
  split
  · exact res_ok (Cons.refl _)
  · split
    · exact res_ok (Cons.refl _)
    · split
      · -- infix / op-assign
        rename_i op hop
        have c1 : Cons ts (adv ts) := cons_adv ts (binop_not_illegal ts op hop)
        split
        · exact res_err perr_type
        · split
          · rename_i hc
            have c2 : Cons (adv ts) (adv (adv ts)) := cons_adv (adv ts) (by
              simp only [Bool.and_eq_true, decide_eq_true_eq] at hc; rw [hc.1]; decide)
            rcases res_cases _ (ih.expr 0 (adv (adv ts))) with ⟨e, he, hp⟩ | ⟨r, ts2, he, c3⟩ <;> simp only [he]
            · exact res_err hp
            · exact (ih.loop p _ ts2).mono ((c1.trans c2).trans c3)
          · rcases res_cases _ (ih.expr (cur ts).prec (adv ts)) with ⟨e, he, hp⟩ | ⟨r, ts2, he, c3⟩ <;> simp only [he]
            · exact res_err hp
            · exact (ih.loop p _ ts2).mono (c1.trans c3)
      · split
        · -- assignment
          rename_i hc
          have c1 : Cons ts (adv ts) := cons_adv_of ts _ hc (by decide)
          split
          · exact res_err perr_type
          · rcases res_cases _ (ih.expr 1 (adv ts)) with ⟨e, he, hp⟩ | ⟨r, ts2, he, c2⟩ <;> simp only [he]
            · exact res_err hp
            · exact (ih.loop p _ ts2).mono (c1.trans c2)
        · -- call
          rename_i hc
          have c1 : Cons ts (adv ts) := cons_adv_of ts _ hc (by decide)
          split
          · exact res_err perr_type
          · rcases res_cases _ (ih.elems .rparen (adv ts)) with ⟨e, he, hp⟩ | ⟨as, ts1, he, c2⟩ <;> simp only [he]
            · exact res_err hp
            · have hcl := elems_close f .rparen (adv ts) as ts1 he
              have c3 : Cons ts1 (adv ts1) := cons_adv_of ts1 _ hcl (by decide)
              exact (ih.loop p _ (adv ts1)).mono ((c1.trans c2).trans c3)
        · -- index
          rename_i hc
          have c1 : Cons ts (adv ts) := cons_adv_of ts _ hc (by decide)
          split
          · exact res_err perr_type
          · rcases res_cases _ (ih.expr 0 (adv ts)) with ⟨e, he, hp⟩ | ⟨i, ts1, he, c2⟩ <;> simp only [he]
            · exact res_err hp
            · rcases skip_cases .rbracket ts1 (by decide) with ⟨e, he2, hp⟩ | ⟨ts2, he2, c3⟩ <;> simp only [he2]
              · exact res_err hp
              · exact (ih.loop p _ ts2).mono ((c1.trans c2).trans c3)
        · exact res_ok (Cons.refl _)

theorem pre_succ (ts : List Token) : Res ts (parsePrefix (f + 1) ts) := by
  rw [parsePrefix]
  have hadv : ∀ t, cur ts = t → t ≠ .illegal → Cons ts (adv ts) := fun t e ht => cons_adv_of ts t e ht
  split
  · -- int
    rename_i sx hc
    have c1 := hadv _ hc (by intro e; cases e)
    split
    · exact res_ok c1
    · rename_i e he
      unfold parseIntLit at he
      simp only at he
      split at he
      · cases he
      · injection he with he; subst he; exact res_err perr_syntax
  · rename_i sx hc
    exact res_ok (hadv _ hc (by intro e; cases e))
  · rename_i hc; exact res_ok (hadv _ hc (by decide))
  · rename_i hc; exact res_ok (hadv _ hc (by decide))
  · rename_i sx hc; exact res_ok (hadv _ hc (by intro e; cases e))
  · -- ( e )
    rename_i hc
    have c1 := hadv _ hc (by decide)
    rcases res_cases _ (ih.expr 0 (adv ts)) with ⟨e, he, hp⟩ | ⟨x, ts1, he, c2⟩ <;> simp only [he]
    · exact res_err hp
    · rcases skip_cases .rparen ts1 (by decide) with ⟨e, he2, hp⟩ | ⟨ts2, he2, c3⟩ <;> simp only [he2]
      · exact res_err hp
      · exact res_ok ((c1.trans c2).trans c3)
  · -- als
    rename_i hc
    have c1 := hadv _ hc (by decide)
    rcases res_cases _ (ih.expr 0 (adv ts)) with ⟨e, he, hp⟩ | ⟨c, ts1, he, c2⟩ <;> simp only [he]
    · exact res_err hp
    · rcases res_cases _ (ih.block ts1) with ⟨e, he2, hp⟩ | ⟨t, ts2, he2, c3⟩ <;> simp only [he2]
      · exact res_err hp
      · split
        · rename_i hce
          have c4 : Cons ts2 (adv ts2) := cons_adv_of ts2 _ hce (by decide)
          split
          · rcases res_cases _ (ih.stmt (adv ts2)) with ⟨e, he3, hp⟩ | ⟨st, ts4, he3, c5⟩ <;> simp only [he3]
            · exact res_err hp
            · exact res_ok ((((c1.trans c2).trans c3).trans c4).trans c5)
          · rcases res_cases _ (ih.block (adv ts2)) with ⟨e, he3, hp⟩ | ⟨eb, ts4, he3, c5⟩ <;> simp only [he3]
            · exact res_err hp
            · exact res_ok ((((c1.trans c2).trans c3).trans c4).trans c5)
        · exact res_ok ((c1.trans c2).trans c3)
  · -- !
    rename_i hc
    have c1 := hadv _ hc (by decide)
    rcases res_cases _ (ih.expr (Token.prec .bang) (adv ts)) with ⟨e, he, hp⟩ | ⟨x, ts1, he, c2⟩ <;> simp only [he]
    · exact res_err hp
    · exact res_ok (c1.trans c2)
  · -- unary minus
    rename_i hc
    have c1 := hadv _ hc (by decide)
    rcases res_cases _ (ih.expr (Token.prec .minus) (adv ts)) with ⟨e, he, hp⟩ | ⟨x, ts1, he, c2⟩ <;> simp only [he]
    · exact res_err hp
    · exact res_ok (c1.trans c2)
  · rename_i n hc; exact res_ok (hadv _ hc (by intro e; cases e))
  · -- functie
    rename_i hc
    have c1 := hadv _ hc (by decide)
    simp only
    have key : ∀ (name : Text) (ts2 : List Token), Cons (adv ts) ts2 →
        Res ts
          (match skipTok Token.lparen ts2 with
          | Except.ok ts3 =>
            match parseParams (ts3.length + 1) ts3 with
            | Except.ok (ps, ts4) =>
              match skipTok Token.rparen ts4 with
              | Except.ok ts5 =>
                match parseBlock f ts5 with
                | Except.ok (b, ts6) => Except.ok (Expr.func name ps b, ts6)
                | Except.error e => Except.error e
              | Except.error e => Except.error e
            | Except.error e => Except.error e
          | Except.error e => Except.error e) := by
      intro name ts2 c2
      rcases skip_cases .lparen ts2 (by decide) with ⟨e, he, hp⟩ | ⟨ts3, he, c3⟩ <;> simp only [he]
      · exact res_err hp
      · rcases res_cases _ (params_res (ts3.length + 1) ts3) with ⟨e, he2, hp⟩ | ⟨ps, ts4, he2, c4⟩ <;> simp only [he2]
        · exact res_err hp
        · rcases skip_cases .rparen ts4 (by decide) with ⟨e, he3, hp⟩ | ⟨ts5, he3, c5⟩ <;> simp only [he3]
          · exact res_err hp
          · rcases res_cases _ (ih.block ts5) with ⟨e, he4, hp⟩ | ⟨b, ts6, he4, c6⟩ <;> simp only [he4]
            · exact res_err hp
            · exact res_ok (((((c1.trans c2).trans c3).trans c4).trans c5).trans c6)
    refine key _ _ ?_
    split
    · rename_i n hc2; simp only; exact cons_adv_of _ _ hc2 (by intro h; cases h)
    · exact Cons.refl _
  · -- zolang
    rename_i hc
    have c1 := hadv _ hc (by decide)
    rcases res_cases _ (ih.expr 0 (adv ts)) with ⟨e, he, hp⟩ | ⟨c, ts1, he, c2⟩ <;> simp only [he]
    · exact res_err hp
    · rcases res_cases _ (ih.block ts1) with ⟨e, he2, hp⟩ | ⟨b, ts2, he2, c3⟩ <;> simp only [he2]
      · exact res_err hp
      · exact res_ok ((c1.trans c2).trans c3)
  · -- [ ... ]
    rename_i hc
    have c1 := hadv _ hc (by decide)
    rcases res_cases _ (ih.elems .rbracket (adv ts)) with ⟨e, he, hp⟩ | ⟨vs, ts1, he, c2⟩ <;> simp only [he]
    · exact res_err hp
    · rcases skip_cases .rbracket ts1 (by decide) with ⟨e, he2, hp⟩ | ⟨ts2, he2, c3⟩ <;> simp only [he2]
      · exact res_err hp
      · exact res_ok ((c1.trans c2).trans c3)
  · exact res_err perr_syntax
end step

/-- every parser function, with any fuel: what it consumes contains no illegal token -/
theorem all : ∀ f, All f := by
  intro f
  induction f with
  | zero => exact ⟨fun _ => res_err perr_fuel, fun _ _ => res_err perr_fuel, fun _ _ _ => res_err perr_fuel,
      fun _ _ => res_err perr_fuel, fun _ => res_err perr_fuel, fun _ => res_err perr_fuel, fun _ _ => res_err perr_fuel⟩
  | succ f ih =>
    exact ⟨pre_succ ih, expr_succ ih, loop_succ ih, elems_succ ih, stmt_succ ih, block_succ ih, stmts_succ ih⟩

/-- the parser's answers are: a tree, a syntax error, or a type error -/
theorem parseTokens_error_kinds (ts : List Token) (e : Err) (h : parseTokens ts = .error e) : e = .syntax ∨ e = .type := by
  have hnf := PF.parseTokens_no_fuel ts
  rw [h] at hnf
  unfold parseTokens at h
  have := (all (parseFuel ts)).stmts false ts
  cases hr : parseStmts (parseFuel ts) false ts with
  | error e' =>
    rw [hr] at this h
    simp only at h
    injection h with h; subst h
    rcases this with h1 | h1 | h1
    · exact .inl h1
    · exact .inr h1
    · subst h1; exact absurd rfl hnf
  | ok q => rw [hr] at h; cases h

/-- an accepted token list splits into a consumed part without any illegal token and a rest that
    starts with the end marker (or is empty) -/
theorem parseTokens_ok_split (ts : List Token) (b : Block) (h : parseTokens ts = .ok b) :
    ∃ pre rest, ts = pre ++ rest ∧ Token.illegal ∉ pre ∧ cur rest = .eof := by
  unfold parseTokens at h
  have := (all (parseFuel ts)).stmts false ts
  cases hr : parseStmts (parseFuel ts) false ts with
  | error e' => rw [hr] at h; cases h
  | ok q =>
    obtain ⟨b', ts'⟩ := q
    rw [hr] at this
    obtain ⟨pre, e1, n1⟩ := this
    exact ⟨pre, ts', e1, n1, stmts_end _ ts b' ts' hr⟩

/-- an accepted token list without end markers contains no illegal token -/
theorem parseTokens_ok_no_illegal (ts : List Token) (b : Block) (h : parseTokens ts = .ok b) (he : Token.eof ∉ ts) :
    Token.illegal ∉ ts := by
  obtain ⟨pre, rest, e1, n1, hc⟩ := parseTokens_ok_split ts b h
  cases rest with
  | nil => rw [e1, List.append_nil]; exact n1
  | cons t r =>
    simp only [cur] at hc
    subst hc
    exact absurd (by rw [e1]; simp) he

/-- WHAT CANNOT BE READ IS REJECTED (token level): a token list that contains the illegal token
    (and no end marker before it) is never accepted: the parser answers a syntax error, or the type
    error it has found before. -/
theorem parseTokens_illegal (pre rest : List Token) (he : Token.eof ∉ pre) :
    parseTokens (pre ++ .illegal :: rest) = .error .syntax ∨ parseTokens (pre ++ .illegal :: rest) = .error .type := by
  cases h : parseTokens (pre ++ .illegal :: rest) with
  | error e =>
    rcases parseTokens_error_kinds _ e h with h1 | h1 <;> subst h1
    · exact .inl rfl
    · exact .inr rfl
  | ok b =>
    exfalso
    obtain ⟨p2, r2, e1, n1, hc⟩ := parseTokens_ok_split _ b h
    -- compare the two splits
    rcases List.append_eq_append_iff.mp e1 with ⟨m, hm1, hm2⟩ | ⟨m, hm1, hm2⟩
    · -- p2 = pre ++ m, illegal :: rest = m ++ r2
      cases m with
      | nil =>
        simp only [List.nil_append] at hm2
        rw [← hm2] at hc
        simp [cur] at hc
      | cons x m' =>
        simp only [List.cons_append, List.cons.injEq] at hm2
        apply n1
        rw [hm1, ← hm2.1]; simp
    · -- pre = p2 ++ m, r2 = m ++ illegal :: rest
      cases m with
      | nil =>
        simp only [List.nil_append] at hm2
        rw [hm2] at hc
        simp [cur] at hc
      | cons x m' =>
        rw [hm2] at hc
        simp only [List.cons_append, cur] at hc
        subst hc
        apply he
        rw [hm1]; simp

end LC
end Nl

