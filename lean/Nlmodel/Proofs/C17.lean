/-
  C17 — a retained session behaves like one growing program.
-/
import Nlmodel.Model.Session
namespace Nl
namespace C17

/-- a line that fails to parse has no influence at all on the session -/
theorem C17_failed_line_parse (cc : CharClass) (b : Nat) (s : Session) (src : Text) (e : Err)
    (h : parse cc src = .error e) : s.line cc b src = (s, .error e []) := by
  simp [Session.line, h]

/-- a line that fails to compile (undeclared name, misplaced stop/volgende/antwoord, program too
    big) has no influence at all on the session: no symbol, no code, no constant survives (F23) -/
theorem C17_failed_line_compile (cc : CharClass) (b : Nat) (s : Session) (src : Text) (ast : Block) (e : Err)
    (hp : parse cc src = .ok ast)
    (hr : resolveSs ast { s.rs with loopDepth := 0, funcDepth := 0 } = .error e) :
    s.line cc b src = (s, .error e []) := by
  simp [Session.line, hp, hr]

/-- every run starts with an empty stack and no suspended frames (F22), and sees exactly the
    globals the previous lines left -/
theorem C17_run_sees_globals (prev : VM) (bc : Bytecode) :
    (prev.start bc).globals = prev.globals ∧ (prev.start bc).stack = #[] ∧ (prev.start bc).frames = [] := by
  simp [VM.start]

/-- a line that fails at run time keeps the session usable: the next line starts from the symbol
    table of the failed line (its declarations stay declared — finding K1) and from the globals as
    the failed run left them (the assignments it completed) -/
theorem C17_failed_line_run (cc : CharClass) (b : Nat) (s : Session) (src : Text) (ast : Block)
    (r : RBlock) (rs' : RState) (bc : Bytecode) (e : Err) (vm' : VM)
    (hp : parse cc src = .ok ast)
    (hr : resolveSs ast { s.rs with loopDepth := 0, funcDepth := 0 } = .ok (r, rs'))
    (hc : compileR r = .ok bc) (hv : VM.run s.vm bc b = .error e vm') :
    (s.line cc b src).1 = { rs := rs', vm := vm' } := by
  simp [Session.line, hp, hr, hc, hv]

/-- a successful line leaves the symbol table of the compiler after that line and the machine
    after that run: exactly what the next line starts from -/
theorem C17_successful_line (cc : CharClass) (b : Nat) (s : Session) (src : Text) (ast : Block)
    (r : RBlock) (rs' : RState) (bc : Bytecode) (v : Value) (vm' : VM)
    (hp : parse cc src = .ok ast)
    (hr : resolveSs ast { s.rs with loopDepth := 0, funcDepth := 0 } = .ok (r, rs'))
    (hc : compileR r = .ok bc) (hv : VM.run s.vm bc b = .value v vm') :
    (s.line cc b src).1 = { rs := rs', vm := vm' } := by
  simp [Session.line, hp, hr, hc, hv]

/-- compiling the lines one after the other on the retained symbol table resolves every name exactly
    as compiling their concatenation as one program does (slots and binders included) -/
theorem C17_resolve_concat : (a : Block) → ∀ (b : Block) (st : RState),
    resolveSs (a.append b) st =
      (match resolveSs a st with
       | .error e => .error e
       | .ok (ra, st1) =>
         match resolveSs b st1 with
         | .error e => .error e
         | .ok (rb, st2) => .ok (RBlock.append ra rb, st2))
  | .nil, b, st => by
    simp only [Block.append, resolveSs]
    cases resolveSs b st with
    | error e => rfl
    | ok p => obtain ⟨rb, st2⟩ := p; rfl
  | .cons s a, b, st => by
    simp only [Block.append, resolveSs]
    cases resolveS s st with
    | error e => rfl
    | ok p =>
      obtain ⟨s', st1⟩ := p
      simp only
      rw [C17_resolve_concat a b st1]
      cases resolveSs a st1 with
      | error e => rfl
      | ok q =>
        obtain ⟨ra, st2⟩ := q
        simp only
        cases resolveSs b st2 with
        | error e => rfl
        | ok r => obtain ⟨rb, st3⟩ := r; rfl

end C17
end Nl
