/- The `last` register is write-only for the definitional evaluator: two states that differ only in
   `last` give results that differ only in `last` (same kind of outcome, same value, same error,
   same output, same bindings, same store). -/
import Nlmodel.Spec.Eval
namespace Nl
namespace SL
open Spec

/-- equal up to the `last` register -/
def Eqv (s s' : SState) : Prop := s.genv = s'.genv ∧ s.lenv = s'.lenv ∧ s.store = s'.store ∧ s.out = s'.out

theorem Eqv.refl (s : SState) : Eqv s s := ⟨rfl, rfl, rfl, rfl⟩
theorem Eqv.symm {s s' : SState} (h : Eqv s s') : Eqv s' s := ⟨h.1.symm, h.2.1.symm, h.2.2.1.symm, h.2.2.2.symm⟩
theorem Eqv.trans {a b c : SState} (h1 : Eqv a b) (h2 : Eqv b c) : Eqv a c :=
  ⟨h1.1.trans h2.1, h1.2.1.trans h2.2.1, h1.2.2.1.trans h2.2.2.1, h1.2.2.2.trans h2.2.2.2⟩

theorem eqv_setLast (s : SState) (l : SVal) : Eqv { s with last := l } s := ⟨rfl, rfl, rfl, rfl⟩

theorem eqv_last {s s' : SState} (h : Eqv s s') (l l' : SVal) : Eqv { s with last := l } { s' with last := l' } := h

/-- results equal up to `last` -/
def EqvR {α : Type} : Res α → Res α → Prop
  | .val a s, .val b s' => a = b ∧ Eqv s s'
  | .brk s, .brk s' => Eqv s s'
  | .cont s, .cont s' => Eqv s s'
  | .ret v s, .ret w s' => v = w ∧ Eqv s s'
  | .err e s, .err e' s' => e = e' ∧ Eqv s s'
  | .unspec s, .unspec s' => Eqv s s'
  | .fuel, .fuel => True
  | _, _ => False

section ops
variable {s s' : SState} (h : Eqv s s')
include h

theorem lookup_eq (r : Ref) : s.lookup r = s'.lookup r := by
  unfold SState.lookup; rw [h.1, h.2.1]

theorem bind_eqv (r : Ref) (v : SVal) : Eqv (s.bind r v) (s'.bind r v) := by
  unfold SState.bind
  split
  · exact ⟨by simp [h.1], h.2.1, h.2.2.1, h.2.2.2⟩
  · exact ⟨h.1, by simp [h.2.1], h.2.2.1, h.2.2.2⟩

theorem unbind_eqv (r : Ref) : Eqv (s.unbind r) (s'.unbind r) := by
  unfold SState.unbind
  split
  · exact ⟨by simp [h.1], h.2.1, h.2.2.1, h.2.2.2⟩
  · exact ⟨h.1, by simp [h.2.1], h.2.2.1, h.2.2.2⟩

theorem alloc_eqv (c : SCell) : Eqv (s.alloc c).1 (s'.alloc c).1 ∧ (s.alloc c).2 = (s'.alloc c).2 := by
  unfold SState.alloc
  exact ⟨⟨h.1, h.2.1, by simp [h.2.2.1], h.2.2.2⟩, by simp [h.2.2.1]⟩

theorem strAt_eq (a : Nat) : s.strAt a = s'.strAt a := by unfold SState.strAt; rw [h.2.2.1]
theorem arrAt_eq (a : Nat) : s.arrAt a = s'.arrAt a := by unfold SState.arrAt; rw [h.2.2.1]

theorem view_eq (v : SVal) : s.view v = s'.view v := by
  cases v <;> simp [SState.view, strAt_eq h, arrAt_eq h]

theorem tree_eq : ∀ (f : Nat) (p : List Nat) (v : SVal), s.tree f p v = s'.tree f p v := by
  intro f
  induction f with
  | zero => intro p v; rfl
  | succ f ih =>
    intro p v
    cases v <;> simp only [SState.tree, strAt_eq h, arrAt_eq h]
    split
    · rfl
    · congr 1; apply List.map_congr_left; intro w _; exact ih _ w

theorem box_eqv (arg : SVal) (p : PRes) : (s.box arg p).1 = (s'.box arg p).1 ∧ Eqv (s.box arg p).2 (s'.box arg p).2 := by
  cases p with
  | null => exact ⟨rfl, h⟩
  | bool b => exact ⟨rfl, h⟩
  | int i => exact ⟨rfl, h⟩
  | float x => exact ⟨rfl, h⟩
  | str t =>
    have := alloc_eqv h (.str t)
    exact ⟨by simp only [SState.box]; rw [this.2], this.1⟩
  | same => exact ⟨rfl, h⟩
end ops

def EqvX : Except Err (SVal × SState) → Except Err (SVal × SState) → Prop
  | .ok (v, t), .ok (v', t') => v = v' ∧ Eqv t t'
  | .error e, .error e' => e = e'
  | _, _ => False

theorem indexGet_eqv {s s' : SState} (h : Eqv s s') (l i : SVal) : EqvX (sIndexGet l i s) (sIndexGet l i s') := by
  unfold sIndexGet
  cases i <;> simp only [] <;> try exact rfl
  rename_i k
  cases l <;> simp only [] <;> try exact rfl
  · rename_i a
    rw [strAt_eq h]
    cases hn : normIndex (s'.strAt a).length k with
    | none => exact rfl
    | some j =>
      have := alloc_eqv h (.str [(s'.strAt a).getD j ' '])
      exact ⟨by rw [this.2], this.1⟩
  · rename_i a
    rw [arrAt_eq h]
    cases hn : normIndex (s'.arrAt a).length k with
    | none => exact rfl
    | some j => exact ⟨rfl, h⟩

theorem indexSet_eqv {s s' : SState} (h : Eqv s s') (l i v : SVal) : EqvX (sIndexSet l i v s) (sIndexSet l i v s') := by
  unfold sIndexSet
  cases i <;> simp only [] <;> try exact rfl
  rename_i k
  cases l <;> simp only [] <;> try exact rfl
  · rename_i a
    rw [strAt_eq h]
    cases hn : normIndex (s'.strAt a).length k with
    | none => exact rfl
    | some j =>
      cases v <;> simp only [] <;> try exact rfl
      rw [strAt_eq h]
      exact ⟨rfl, h.1, h.2.1, by simp [h.2.2.1], h.2.2.2⟩
  · rename_i a
    rw [arrAt_eq h]
    cases hn : normIndex (s'.arrAt a).length k with
    | none => exact rfl
    | some j => exact ⟨rfl, h.1, h.2.1, by simp [h.2.2.1], h.2.2.2⟩

theorem EqvR.refl_of {α : Type} {r r' : Res α} (h : r = r') : EqvR r r' := by
  subst h
  cases r <;> simp [EqvR, Eqv.refl]

structure All (f : Nat) : Prop where
  e : ∀ x s s', Eqv s s' → EqvR (evalE f x s) (evalE f x s')
  es : ∀ x s s', Eqv s s' → EqvR (evalEs f x s) (evalEs f x s')
  loop : ∀ c b acc s s', Eqv s s' → EqvR (evalLoop f c b acc s) (evalLoop f c b acc s')
  s : ∀ x s s', Eqv s s' → EqvR (evalS f x s) (evalS f x s')
  b : ∀ x s s', Eqv s s' → EqvR (evalB f x s) (evalB f x s')
  bv : ∀ x s s', Eqv s s' → EqvR (evalBV f x s) (evalBV f x s')

/-- case analysis of two results related by `EqvR`: only the seven diagonal cases remain, with `h1` the relation -/
local macro "sub2 " h1:ident " : " e1:term " , " e2:term " from " ih:term : tactic =>
  `(tactic| (have $h1 := $ih; cases r1 : $e1 <;> cases r2 : $e2 <;> rw [r1, r2] at $h1:ident <;> simp only [EqvR] at $h1:ident))

section step
variable {f : Nat} (ih : All f)
include ih

theorem es_succ (x : RExprs) (s s' : SState) (h : Eqv s s') : EqvR (evalEs (f + 1) x s) (evalEs (f + 1) x s') := by
  cases x with
  | nil => simp only [evalEs]; exact ⟨rfl, h⟩
  | cons e rest =>
    simp only [evalEs]
    sub2 h1 : evalE f e s , evalE f e s' from ih.e e s s' h
    all_goals try exact h1
    case val.val a s1 _ a' s1' _ =>
      obtain ⟨rfl, hq⟩ := h1
      simp only []
      sub2 h2 : evalEs f rest s1 , evalEs f rest s1' from ih.es rest s1 s1' hq
      all_goals try exact h2
      case val.val vs t1 _ vs' t1' _ => exact ⟨by rw [h2.1], h2.2⟩

theorem s_succ (x : RStmt) (s s' : SState) (h : Eqv s s') : EqvR (evalS (f + 1) x s) (evalS (f + 1) x s') := by
  cases x with
  | expr e =>
    simp only [evalS]
    sub2 h1 : evalE f e s , evalE f e s' from ih.e e s s' h
    all_goals try exact h1
    case val.val a s1 _ a' s1' _ => exact ⟨rfl, h1.2⟩
  | letS r e =>
    simp only [evalS]
    sub2 h1 : evalE f e (s.unbind r) , evalE f e (s'.unbind r) from ih.e e _ _ (unbind_eqv h r)
    all_goals try exact h1
    case val.val a s1 _ a' s1' _ =>
      obtain ⟨rfl, hq⟩ := h1
      exact ⟨rfl, bind_eqv hq r _⟩
  | ret e =>
    simp only [evalS]
    sub2 h1 : evalE f e s , evalE f e s' from ih.e e s s' h
    all_goals try exact h1
  | block b => simp only [evalS]; exact ih.b b s s' h
  | brk => simp only [evalS]; exact h
  | cont => simp only [evalS]; exact h

theorem b_succ (x : RBlock) (s s' : SState) (h : Eqv s s') : EqvR (evalB (f + 1) x s) (evalB (f + 1) x s') := by
  cases x with
  | nil => simp only [evalB]; exact ⟨rfl, h⟩
  | cons st rest =>
    simp only [evalB]
    sub2 h1 : evalS f st s , evalS f st s' from ih.s st s s' h
    all_goals try exact h1
    case val.val a s1 _ a' s1' _ => exact ih.b rest _ _ h1.2

theorem loop_succ (c : RExpr) (b : RBlock) (acc : SVal) (s s' : SState) (h : Eqv s s') :
    EqvR (evalLoop (f + 1) c b acc s) (evalLoop (f + 1) c b acc s') := by
  simp only [evalLoop]
  sub2 h1 : evalE f c s , evalE f c s' from ih.e c s s' h
  all_goals try exact h1
  case val.val a s1 q1 a' s1' q2 =>
    obtain ⟨rfl, hq⟩ := h1
    clear q1 q2
    cases a <;> try exact ⟨rfl, hq⟩
    rename_i bb
    cases bb <;> dsimp only
    · exact ⟨rfl, hq⟩
    · sub2 h2 : evalBV f b { s1 with last := acc } , evalBV f b { s1' with last := acc } from ih.bv b _ _ (eqv_last hq acc acc)
      all_goals try exact h2
      case val.val v t1 _ v' t1' _ => obtain ⟨rfl, hq2⟩ := h2; exact ih.loop c b _ _ _ hq2
      case brk.brk t1 _ t1' _ => exact ⟨rfl, h2⟩
      case cont.cont t1 _ t1' _ => exact ih.loop c b _ _ _ h2
  case brk.brk t1 _ t1' _ => exact ⟨rfl, h1⟩
  case cont.cont t1 _ t1' _ => exact ih.loop c b _ _ _ h1
theorem bv_succ (x : RBlock) (s s' : SState) (h : Eqv s s') : EqvR (evalBV (f + 1) x s) (evalBV (f + 1) x s') := by
  -- the shape of the block decides the branch; both sides take the same one
  have stmtCase : ∀ (st : RStmt) (rest : RBlock) (K K' : SState → Res SVal), (∀ t t', Eqv t t' → EqvR (K t) (K' t')) →
      EqvR (match evalS f st s with
              | .val () st1 => K st1
              | .brk s => .brk s | .cont s => .cont s | .ret v s => .ret v s
              | .err e s => .err e s | .unspec s => .unspec s | .fuel => .fuel)
           (match evalS f st s' with
              | .val () st1 => K' st1
              | .brk s => .brk s | .cont s => .cont s | .ret v s => .ret v s
              | .err e s => .err e s | .unspec s => .unspec s | .fuel => .fuel) := by
    intro st rest K K' hK
    sub2 h1 : evalS f st s , evalS f st s' from ih.s st s s' h
    all_goals try exact h1
    case val.val a s1 _ a' s1' _ => exact hK _ _ h1.2
  unfold evalBV
  split
  · exact ⟨rfl, h⟩
  · exact ih.e _ s s' h
  · exact ih.bv _ s s' h
  · exact stmtCase _ .nil _ _ (fun t t' ht => ⟨rfl, ht⟩)
  · exact stmtCase _ .nil _ _ (fun t t' ht => ih.bv _ t t' ht)

theorem e_succ (x : RExpr) (s s' : SState) (h : Eqv s s') : EqvR (evalE (f + 1) x s) (evalE (f + 1) x s') := by
  cases x with
  | int v => simp only [evalE]; exact ⟨rfl, h⟩
  | float v => simp only [evalE]; exact ⟨rfl, h⟩
  | bool v => simp only [evalE]; exact ⟨rfl, h⟩
  | str t =>
    simp only [evalE]
    have := alloc_eqv h (.str t)
    exact ⟨by rw [this.2], this.1⟩
  | var r =>
    simp only [evalE, lookup_eq h r]
    cases s'.lookup r with
    | none => exact h
    | some v => exact ⟨rfl, h⟩
  | not r =>
    simp only [evalE]
    sub2 h1 : evalE f r s , evalE f r s' from ih.e r s s' h
    all_goals try exact h1
    case val.val a s1 q1 a' s1' q2 =>
      obtain ⟨rfl, hq⟩ := h1
      clear q1 q2
      cases a <;> exact ⟨rfl, hq⟩
  | neg r =>
    simp only [evalE]
    sub2 h1 : evalE f r s , evalE f r s' from ih.e r s s' h
    all_goals try exact h1
    case val.val a s1 q1 a' s1' q2 =>
      obtain ⟨rfl, hq⟩ := h1
      clear q1 q2
      cases a <;> try exact ⟨rfl, hq⟩
      rename_i i
      dsimp only
      split <;> exact ⟨rfl, hq⟩
  | «infix» l op r =>
    simp only [evalE]
    sub2 h1 : evalE f l s , evalE f l s' from ih.e l s s' h
    all_goals try exact h1
    case val.val a s1 q1 a' s1' q2 =>
      obtain ⟨rfl, hq⟩ := h1
      dsimp only
      sub2 h2 : evalE f r s1 , evalE f r s1' from ih.e r s1 s1' hq
      all_goals try exact h2
      case val.val b t1 q3 b' t1' q4 =>
        obtain ⟨rfl, hq2⟩ := h2
        dsimp only
        rw [view_eq hq2 a, view_eq hq2 b]
        cases binopCore op (t1'.view a) (t1'.view b) with
        | error e => exact ⟨rfl, hq2⟩
        | ok p => exact box_eqv hq2 a p
  | assignVar r e =>
    simp only [evalE]
    sub2 h1 : evalE f e s , evalE f e s' from ih.e e s s' h
    all_goals try exact h1
    case val.val a s1 q1 a' s1' q2 =>
      obtain ⟨rfl, hq⟩ := h1
      exact ⟨rfl, bind_eqv hq r a⟩
  | assignIndex l i v =>
    simp only [evalE]
    sub2 h1 : evalE f l s , evalE f l s' from ih.e l s s' h
    all_goals try exact h1
    case val.val a s1 q1 a' s1' q2 =>
      obtain ⟨rfl, hq⟩ := h1
      dsimp only
      sub2 h2 : evalE f i s1 , evalE f i s1' from ih.e i s1 s1' hq
      all_goals try exact h2
      case val.val b t1 q3 b' t1' q4 =>
        obtain ⟨rfl, hq2⟩ := h2
        dsimp only
        sub2 h3 : evalE f v t1 , evalE f v t1' from ih.e v t1 t1' hq2
        all_goals try exact h3
        case val.val c u1 q5 c' u1' q6 =>
          obtain ⟨rfl, hq3⟩ := h3
          dsimp only
          have hx := indexSet_eqv hq3 a b c
          cases x1 : sIndexSet a b c u1 <;> cases x2 : sIndexSet a b c u1' <;> rw [x1, x2] at hx <;> simp only [EqvX] at hx
          · exact ⟨hx, hq3⟩
          · rename_i p1 p2; obtain ⟨w, t⟩ := p1; obtain ⟨w', t'⟩ := p2; exact hx
  | index l i =>
    simp only [evalE]
    sub2 h1 : evalE f l s , evalE f l s' from ih.e l s s' h
    all_goals try exact h1
    case val.val a s1 q1 a' s1' q2 =>
      obtain ⟨rfl, hq⟩ := h1
      dsimp only
      sub2 h2 : evalE f i s1 , evalE f i s1' from ih.e i s1 s1' hq
      all_goals try exact h2
      case val.val b t1 q3 b' t1' q4 =>
        obtain ⟨rfl, hq2⟩ := h2
        dsimp only
        have hx := indexGet_eqv hq2 a b
        cases x1 : sIndexGet a b t1 <;> cases x2 : sIndexGet a b t1' <;> rw [x1, x2] at hx <;> simp only [EqvX] at hx
        · exact ⟨hx, hq2⟩
        · rename_i p1 p2; obtain ⟨w, t⟩ := p1; obtain ⟨w', t'⟩ := p2; exact hx
  | arr vs =>
    simp only [evalE]
    sub2 h1 : evalEs f vs s , evalEs f vs s' from ih.es vs s s' h
    all_goals try exact h1
    case val.val xs s1 q1 xs' s1' q2 =>
      obtain ⟨rfl, hq⟩ := h1
      have := alloc_eqv hq (.arr xs)
      exact ⟨by rw [this.2], this.1⟩
  | ifE c t e =>
    simp only [evalE]
    sub2 h1 : evalE f c s , evalE f c s' from ih.e c s s' h
    all_goals try exact h1
    case val.val a s1 q1 a' s1' q2 =>
      obtain ⟨rfl, hq⟩ := h1
      clear q1 q2
      cases a <;> try exact ⟨rfl, hq⟩
      rename_i bb
      cases bb <;> dsimp only
      · cases e with
        | none => exact ⟨rfl, hq⟩
        | some b => exact ih.bv b _ _ hq
      · exact ih.bv t _ _ hq
  | whileE c b => simp only [evalE]; exact ih.loop c b .null s s' h
  | func fid self ps nl body =>
    simp only [evalE]
    cases self with
    | none => exact ⟨rfl, h⟩
    | some r => exact ⟨rfl, bind_eqv h r _⟩
  | callBuiltin b as =>
    simp only [evalE]
    sub2 h1 : evalEs f as s , evalEs f as s' from ih.es as s s' h
    all_goals try exact h1
    case val.val xs s1 q1 xs' s1' q2 =>
      obtain ⟨rfl, hq⟩ := h1
      dsimp only
      cases b <;> dsimp only
      case print =>
        refine ⟨rfl, hq.1, hq.2.1, hq.2.2.1, ?_⟩
        show s1.out ++ _ = s1'.out ++ _
        rw [hq.2.2.2]
        have : List.map (s1.tree treeDepth []) xs = List.map (s1'.tree treeDepth []) xs :=
          List.map_congr_left (fun w _ => tree_eq hq _ _ w)
        rw [this]
      all_goals
        cases xs with
        | nil => exact ⟨rfl, hq⟩
        | cons x rest =>
          cases rest with
          | cons y more => exact ⟨rfl, hq⟩
          | nil =>
            dsimp only
            rw [view_eq hq x]
            split
            · exact box_eqv hq x _
            · exact ⟨rfl, hq⟩
  | call fe as =>
    simp only [evalE]
    sub2 h1 : evalEs f as s , evalEs f as s' from ih.es as s s' h
    all_goals try exact h1
    case val.val xs s1 q1 xs' s1' q2 =>
      obtain ⟨rfl, hq⟩ := h1
      dsimp only
      sub2 h2 : evalE f fe s1 , evalE f fe s1' from ih.e fe s1 s1' hq
      all_goals try exact h2
      case val.val fv t1 q3 fv' t1' q4 =>
        obtain ⟨rfl, hq2⟩ := h2
        clear q1 q2 q3 q4
        cases fv <;> try exact ⟨rfl, hq2⟩
        rename_i fid ps nl body
        dsimp only
        split
        · exact ⟨rfl, hq2⟩
        · have hq3 : Eqv { t1 with lenv := bindParams ps xs } { t1' with lenv := bindParams ps xs } :=
            ⟨hq2.1, rfl, hq2.2.2.1, hq2.2.2.2⟩
          rw [hq2.2.1]
          sub2 h3 : evalBV f body { t1 with lenv := bindParams ps xs } , evalBV f body { t1' with lenv := bindParams ps xs } from ih.bv body _ _ hq3
          all_goals try exact h3
          case val.val v u1 q5 v' u1' q6 => exact ⟨h3.1, h3.2.1, rfl, h3.2.2.2.1, h3.2.2.2.2⟩
          case ret.ret v u1 q5 v' u1' q6 => exact ⟨h3.1, h3.2.1, rfl, h3.2.2.2.1, h3.2.2.2.2⟩
end step

theorem all : ∀ f, All f := by
  intro f
  induction f with
  | zero =>
    exact ⟨fun _ _ _ _ => by simp [evalE, EqvR], fun _ _ _ _ => by simp [evalEs, EqvR], fun _ _ _ _ _ _ => by simp [evalLoop, EqvR],
      fun _ _ _ _ => by simp [evalS, EqvR], fun _ _ _ _ => by simp [evalB, EqvR], fun _ _ _ _ => by simp [evalBV, EqvR]⟩
  | succ f ih => exact ⟨e_succ ih, es_succ ih, loop_succ ih, s_succ ih, b_succ ih, bv_succ ih⟩

end SL
end Nl
