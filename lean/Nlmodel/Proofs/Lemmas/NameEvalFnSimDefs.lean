/- NameEvalFn (names, scope stacks, activations) = Spec.eval (binder ids, genv/lenv) on the resolver's output, stage-4 fragment:
   the statements proved by induction on the fuel, and the algebra of the result relation. -/
import Nlmodel.Proofs.Lemmas.NameEvalFnOps
import Nlmodel.Proofs.Lemmas.NameEvalSim
namespace Nl
namespace NameEvalFn
open Spec SimF Sim
open NameEval (All2 findBid bids postS)

/-- the top-level scope the value relation refers to -/
def GG (fn : Bool) (scs Tb : Scs) : List (Text × Nat) := topOf (TT fn scs Tb)

theorem GG_cons (fn : Bool) (sc : List (Text × Nat)) (scs Tb : Scs) (hne : fn = false → scs ≠ []) :
    GG fn (sc :: scs) Tb = GG fn scs Tb := by
  cases fn with
  | false => exact topOf_tail sc scs (hne rfl)
  | true => rfl

theorem GG_true (scs Tb : Scs) : GG true scs Tb = topOf Tb := rfl

/-- related, the resolver's current scopes being `scs` -/
abbrev At (fn : Bool) (scs gscs Tb : Scs) (N : Nat) (ρ : FState) (σ : SState) : Prop := R fn ρ scs gscs Tb σ N
/-- related inside a block whose enclosing scopes are `scs` -/
def In (fn : Bool) (scs gscs Tb : Scs) (N : Nat) (ρ : FState) (σ : SState) : Prop := ∃ sc, R fn ρ (sc :: scs) gscs Tb σ N
/-- related after `antwoord`: only the global part matters (the activation is about to be dropped) -/
def Rt (fn : Bool) (Tb : Scs) (N : Nat) (ρ : FState) (σ : SState) : Prop := fn = true ∧ (∃ k, ρ.vis = some k) ∧ RGl Tb ρ σ N

theorem R.toRt {ρ : FState} {scs gscs Tb : Scs} {σ : SState} {N : Nat} (h : R true ρ scs gscs Tb σ N) : Rt true Tb N ρ σ := by
  obtain ⟨gsc, _, hv, _⟩ := h.l
  exact ⟨rfl, ⟨_, hv⟩, h.g⟩

theorem RelG.inv {α β : Type} {V : α → β → Prop} {VR : NVal → SVal → Prop} {P Q Rt' : FState → SState → Prop} {r : FRes α} {r' : Res β}
    (h : RelG V VR P Q Rt' r r') :
    (∃ a b ρ σ, r = .val a ρ ∧ r' = .val b σ ∧ V a b ∧ P ρ σ) ∨ (∃ ρ σ, r = .brk ρ ∧ r' = .brk σ ∧ Q ρ σ) ∨
    (∃ ρ σ, r = .cont ρ ∧ r' = .cont σ ∧ Q ρ σ) ∨ (∃ v w ρ σ, r = .ret v ρ ∧ r' = .ret w σ ∧ VR v w ∧ Rt' ρ σ) ∨
    (∃ e ρ σ, r = .err e ρ ∧ r' = .err e σ ∧ ρ.out = σ.out) ∨
    (∃ ρ σ, r = .unspec ρ ∧ r' = .unspec σ) ∨ (r = .fuel ∧ r' = .fuel) := by
  cases h with
  | val a b ρ σ hv h => exact .inl ⟨a, b, ρ, σ, rfl, rfl, hv, h⟩
  | brk ρ σ h => exact .inr (.inl ⟨ρ, σ, rfl, rfl, h⟩)
  | cont ρ σ h => exact .inr (.inr (.inl ⟨ρ, σ, rfl, rfl, h⟩))
  | ret v w ρ σ hv h => exact .inr (.inr (.inr (.inl ⟨v, w, ρ, σ, rfl, rfl, hv, h⟩)))
  | err e ρ σ h => exact .inr (.inr (.inr (.inr (.inl ⟨e, ρ, σ, rfl, rfl, h⟩))))
  | unspec ρ σ => exact .inr (.inr (.inr (.inr (.inr (.inl ⟨ρ, σ, rfl, rfl⟩)))))
  | fuel => exact .inr (.inr (.inr (.inr (.inr (.inr ⟨rfl, rfl⟩)))))

theorem RelG.mono {α β : Type} {V V' : α → β → Prop} {VR : NVal → SVal → Prop} {P Q P' Q' Rt' : FState → SState → Prop}
    {r : FRes α} {r' : Res β} (hV : ∀ a b, V a b → V' a b)
    (hP : ∀ ρ σ, P ρ σ → P' ρ σ) (hQ : ∀ ρ σ, Q ρ σ → Q' ρ σ) (h : RelG V VR P Q Rt' r r') : RelG V' VR P' Q' Rt' r r' := by
  cases h with
  | val a b ρ σ hv h => exact .val a b ρ σ (hV _ _ hv) (hP _ _ h)
  | brk ρ σ h => exact .brk ρ σ (hQ _ _ h)
  | cont ρ σ h => exact .cont ρ σ (hQ _ _ h)
  | ret v w ρ σ hv h => exact .ret v w ρ σ hv h
  | err e ρ σ h => exact .err e ρ σ h
  | unspec ρ σ => exact .unspec ρ σ
  | fuel => exact .fuel

theorem Rt.pop {fn : Bool} {Tb : Scs} {N : Nat} {ρ : FState} {σ : SState} (h : Rt fn Tb N ρ σ) : Rt fn Tb N ρ.pop σ := by
  obtain ⟨hfn, ⟨k, hk⟩, hg⟩ := h
  have hp : ρ.pop = { ρ with locals := ρ.locals.tail } := by
    simp only [FState.pop, FState.setCur, FState.cur, hk]
  rw [hp]
  exact ⟨hfn, ⟨k, hk⟩, ⟨hg.glob, hg.ndT, hg.neT, hg.last, hg.out, hg.nfun⟩⟩

/-- leaving a block -/
theorem RelG.pop {α β : Type} {V : α → β → Prop} {fn : Bool} {scs gscs Tb : Scs} {N : Nat} {r : FRes α} {r' : Res β}
    (hne : fn = false → scs ≠ [])
    (h : RelG V (VRel (topOf Tb)) (In fn scs gscs Tb N) (In fn scs gscs Tb N) (Rt fn Tb N) r r') :
    RelG V (VRel (topOf Tb)) (At fn scs gscs Tb N) (At fn scs gscs Tb N) (Rt fn Tb N) (popRes r) r' := by
  cases h with
  | val a b ρ σ hv h => obtain ⟨sc, h⟩ := h; exact .val a b _ σ hv (h.pop hne)
  | brk ρ σ h => obtain ⟨sc, h⟩ := h; exact .brk _ σ (h.pop hne)
  | cont ρ σ h => obtain ⟨sc, h⟩ := h; exact .cont _ σ (h.pop hne)
  | ret v w ρ σ hv h => exact .ret v w _ σ hv h.pop
  | err e ρ σ h =>
    refine .err e _ σ ?_
    have : ρ.pop.out = ρ.out := by
      simp only [FState.pop, FState.setCur]; cases ρ.vis <;> rfl
    rw [this]; exact h
  | unspec ρ σ => exact .unspec _ σ
  | fuel => exact .fuel

/-! ### the statements proved by induction on the fuel -/

/-- the result relation of an expression evaluated in the scopes `scs` -/
abbrev RE (fn : Bool) (scs gscs Tb : Scs) (N : Nat) : FRes NVal → Res SVal → Prop :=
  RelG (VRel (GG fn scs Tb)) (VRel (topOf Tb)) (At fn scs gscs Tb N) (At fn scs gscs Tb N) (Rt fn Tb N)

def QE (f : Nat) : Prop := ∀ (e : Expr) (fn ab : Bool) (scs gscs Tb : Scs) (F N : Nat) (st : RState) (e' : RExpr) (st' : RState)
  (ρ : FState) (σ : SState),
  SrcE fn ab e → RInv fn st scs gscs F → resolveE e st = .ok (e', st') → R fn ρ scs gscs Tb σ N →
  RE fn scs gscs Tb N (NameEvalFn.evalE f e ρ) (Spec.evalE f e' σ)

def QEs (f : Nat) : Prop := ∀ (es : Exprs) (fn : Bool) (scs gscs Tb : Scs) (F N : Nat) (st : RState) (es' : RExprs) (st' : RState)
  (ρ : FState) (σ : SState),
  SrcEs fn es → RInv fn st scs gscs F → resolveEs es st = .ok (es', st') → R fn ρ scs gscs Tb σ N →
  RelG (All2 (VRel (GG fn scs Tb))) (VRel (topOf Tb)) (At fn scs gscs Tb N) (At fn scs gscs Tb N) (Rt fn Tb N)
    (NameEvalFn.evalEs f es ρ) (Spec.evalEs f es' σ)

def QL (f : Nat) : Prop := ∀ (c : Expr) (b : Block) (fn : Bool) (scs gscs Tb : Scs) (F N : Nat) (st : RState) (c' : RExpr) (st1 : RState)
  (b' : RBlock) (st2 : RState) (acc : NVal) (acc' : SVal) (ρ : FState) (σ : SState),
  SrcE fn false c → SrcB fn true b → RInv fn st scs gscs F → resolveE c st = .ok (c', st1) → resolveB b st1 = .ok (b', st2) →
  VRel (GG fn scs Tb) acc acc' → R fn ρ scs gscs Tb σ N →
  RE fn scs gscs Tb N (NameEvalFn.evalLoop f c b acc ρ) (Spec.evalLoop f c' b' acc' σ)

def QS (f : Nat) : Prop := ∀ (s : Stmt) (fn ab : Bool) (sc : List (Text × Nat)) (scs gscs Tb : Scs) (F N : Nat) (st : RState) (s' : RStmt)
  (st' : RState) (ρ : FState) (σ : SState),
  SrcS fn ab s → RInv fn st (sc :: scs) gscs F → resolveS s st = .ok (s', st') → R fn ρ (sc :: scs) gscs Tb σ N →
  RelG (fun (_ _ : Unit) => True) (VRel (topOf Tb)) (At fn (postS s st sc :: scs) gscs Tb N) (In fn scs gscs Tb N) (Rt fn Tb N)
    (NameEvalFn.evalS f s ρ) (Spec.evalS f s' σ)

def QSs (f : Nat) : Prop := ∀ (b : Block) (fn ab : Bool) (sc : List (Text × Nat)) (scs gscs Tb : Scs) (F N : Nat) (st : RState) (b' : RBlock)
  (st' : RState) (ρ : FState) (σ : SState),
  SrcB fn ab b → RInv fn st (sc :: scs) gscs F → resolveSs b st = .ok (b', st') → R fn ρ (sc :: scs) gscs Tb σ N →
  RelG (fun (_ _ : Unit) => True) (VRel (topOf Tb)) (In fn scs gscs Tb N) (In fn scs gscs Tb N) (Rt fn Tb N)
    (NameEvalFn.evalSs f b ρ) (Spec.evalB f b' σ)

/-- statements in value position, inside a block (for top-level code the enclosing scopes `scs` are not empty) -/
def QBs (f : Nat) : Prop := ∀ (b : Block) (fn ab : Bool) (sc : List (Text × Nat)) (scs gscs Tb : Scs) (F N : Nat) (st : RState) (b' : RBlock)
  (st' : RState) (ρ : FState) (σ : SState),
  (fn = false → scs ≠ []) →
  SrcB fn ab b → RInv fn st (sc :: scs) gscs F → resolveSs b st = .ok (b', st') → R fn ρ (sc :: scs) gscs Tb σ N →
  RelG (VRel (GG fn scs Tb)) (VRel (topOf Tb)) (In fn scs gscs Tb N) (In fn scs gscs Tb N) (Rt fn Tb N)
    (NameEvalFn.evalBVs f b ρ) (Spec.evalBV f b' σ)

/-- the statement `QE` for call expressions only (proved separately) -/
def QCall (f : Nat) : Prop := ∀ (fe : Expr) (as : Exprs) (fn ab : Bool) (scs gscs Tb : Scs) (F N : Nat) (st : RState) (e' : RExpr) (st' : RState)
  (ρ : FState) (σ : SState),
  SrcE fn ab (.call fe as) → RInv fn st scs gscs F → resolveE (.call fe as) st = .ok (e', st') → R fn ρ scs gscs Tb σ N →
  RE fn scs gscs Tb N (NameEvalFn.evalE f (.call fe as) ρ) (Spec.evalE f e' σ)

structure QAll (f : Nat) : Prop where
  e : QE f
  es : QEs f
  l : QL f
  s : QS f
  ss : QSs f
  bs : QBs f

/-! ### static facts about the resolver -/

theorem resolveB_Ss (b : Block) (st : RState) (b' : RBlock) (st' : RState) (h : resolveB b st = .ok (b', st')) :
    ∃ st'', resolveSs b st.enterScope = .ok (b', st'') := NameEval.resolveB_Ss b st b' st' h

/-- the resolver's invariant after a statement, with the scope it leaves behind made explicit -/
theorem rS_post (fn : Bool) (s : Stmt) (ab : Bool) (sc : List (Text × Nat)) (scs gscs : Scs) (F : Nat) (st : RState) (s' : RStmt) (st' : RState)
    (hs : SrcS fn ab s) (hinv : RInv fn st (sc :: scs) gscs F) (h : resolveS s st = .ok (s', st')) :
    RInv fn st' (postS s st sc :: scs) gscs F := by
  cases hs with
  | expr _ e hse =>
    simp only [resolveS] at h
    cases hr : resolveE e st with
    | error er => simp [hr] at h
    | ok p =>
      obtain ⟨e1, st1⟩ := p
      simp only [hr] at h
      injection h with h; injection h with h1 h2; subst h2
      exact (rE fn e ab _ gscs F st e1 st1 hse hinv hr).1
  | letS _ n e hse =>
    simp only [resolveS] at h
    obtain ⟨hinv1, _⟩ := rinv_define fn st sc scs gscs F hinv n
    cases hr : resolveE e (st.define n).1 with
    | error er => simp [hr] at h
    | ok p =>
      obtain ⟨e1, st1⟩ := p
      simp only [hr] at h
      injection h with h; injection h with h1 h2; subst h2
      exact (rE fn e ab _ gscs F _ e1 st1 hse hinv1 hr).1
  | block _ b hsb =>
    simp only [resolveS] at h
    cases hb : resolveB b st with
    | error er => simp [hb] at h
    | ok q =>
      obtain ⟨b1, st1⟩ := q
      simp only [hb] at h
      injection h with h; injection h with h1 h2; subst h2
      exact (rB fn b ab _ gscs F st b1 st1 hsb hinv hb).1
  | brk =>
    simp only [resolveS] at h
    split at h
    · cases h
    · injection h with h; injection h with h1 h2; subst h2; exact hinv
  | cont =>
    simp only [resolveS] at h
    split at h
    · cases h
    · injection h with h; injection h with h1 h2; subst h2; exact hinv
  | ret _ e hfn hse =>
    simp only [resolveS] at h
    split at h
    · cases h
    · cases hr : resolveE e st with
      | error er => simp [hr] at h
      | ok p =>
        obtain ⟨e1, st1⟩ := p
        simp only [hr] at h
        injection h with h; injection h with h1 h2; subst h2
        exact (rE fn e ab _ gscs F st e1 st1 hse hinv hr).1

/-- a block in value position: push, run, pop -/
theorem QAll.bv {f : Nat} (q : QAll f) (b : Block) (fn ab : Bool) (scs gscs Tb : Scs) (F N : Nat) (st : RState) (b' : RBlock) (st' : RState)
    (ρ : FState) (σ : SState) (hs : SrcB fn ab b) (hinv : RInv fn st scs gscs F) (h : resolveB b st = .ok (b', st'))
    (hrel : R fn ρ scs gscs Tb σ N) :
    RE fn scs gscs Tb N (popRes (NameEvalFn.evalBVs f b ρ.push)) (Spec.evalBV f b' σ) := by
  obtain ⟨st'', h'⟩ := resolveB_Ss b st b' st' h
  have hne : fn = false → scs ≠ [] := fun hf => by subst hf; exact hrel.g.neT
  exact RelG.pop hne (q.bs b fn ab [] scs gscs Tb F N st.enterScope b' st'' ρ.push σ hne hs (rinv_enter fn st scs gscs F hinv).1 h' hrel.push)

/-- a block in statement position -/
theorem QAll.b {f : Nat} (q : QAll f) (b : Block) (fn ab : Bool) (scs gscs Tb : Scs) (F N : Nat) (st : RState) (b' : RBlock) (st' : RState)
    (ρ : FState) (σ : SState) (hs : SrcB fn ab b) (hinv : RInv fn st scs gscs F) (h : resolveB b st = .ok (b', st'))
    (hrel : R fn ρ scs gscs Tb σ N) :
    RelG (fun (_ _ : Unit) => True) (VRel (topOf Tb)) (At fn scs gscs Tb N) (At fn scs gscs Tb N) (Rt fn Tb N)
      (popRes (NameEvalFn.evalSs f b ρ.push)) (Spec.evalB f b' σ) := by
  obtain ⟨st'', h'⟩ := resolveB_Ss b st b' st' h
  have hne : fn = false → scs ≠ [] := fun hf => by subst hf; exact hrel.g.neT
  exact RelG.pop hne (q.ss b fn ab [] scs gscs Tb F N st.enterScope b' st'' ρ.push σ hs (rinv_enter fn st scs gscs F hinv).1 h' hrel.push)

/-- closes the goals where a sub-evaluation did not complete normally: the same result is passed on.
    `pass_on hn hs hr`: `hn`/`hs` rewrite the two sub-results, `hr` is the fact the constructor needs
    (for `.ret` use `pass_ret hn hs hv hr`) -/
macro "pass_on" hn:ident hs:ident hr:ident : tactic =>
  `(tactic| (simp only [$hn:ident, $hs:ident]
             first
               | exact RelG.brk _ _ $hr
               | exact RelG.cont _ _ $hr
               | exact RelG.err _ _ _ $hr
               | exact RelG.unspec _ _
               | exact RelG.fuel))
macro "pass_ret" hn:ident hs:ident hv:ident hr:ident : tactic =>
  `(tactic| (simp only [$hn:ident, $hs:ident]; exact RelG.ret _ _ _ _ $hv $hr))

end NameEvalFn
end Nl
