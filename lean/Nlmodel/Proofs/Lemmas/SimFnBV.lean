/- Stage 4: blocks in value position. -/
import Nlmodel.Proofs.Lemmas.SimFnStmt
namespace Nl
namespace SimF
open Spec Sim

section
variable {W : World}

theorem goalU_then_null {Γb Λ Γb1 Λ1 : Gam} (d c : Gam) (hd : Γb1 = d ++ Γb) (hc : Λ1 = c ++ Λ) {nl : Nat} {below : Array Value} {fr : List Frame}
    {fn ab : Bool} {lp : LoopCtx} {pos : Nat} {locs ops g : Array Value} {l : Value} {e1 : Nat} {st : SState} {r : Res Unit}
    (h : GoalU W Γb Λ Γb1 Λ1 nl below fr fn ab lp pos locs ops g l e1 st r) (hnull : CodeAt W.C e1 [.null]) :
    GoalV W Γb Λ nl below fr fn ab lp pos locs ops g l (e1 + 1) ops st (liftU r (fun st1 => .val .null st1)) := by
  subst hd; subst hc
  rcases h with h | h
  · exact .inl h
  refine .inr ?_
  cases r with
  | val u st1 => exact ⟨.null, trivial, (Reach.then h (fun locs' g' l' => step_null hnull)).weaken d c⟩
  | brk st' => exact h
  | cont st' => exact h
  | err er st' => exact h
  | ret _ _ => exact h
  | fuel => trivial
  | unspec _ => trivial

theorem pbv_novalue (f : Nat) (ih : PAll W f) {nl : Nat} {fn : Bool} {Γ Γx Λ Γ1 Λ1 : Gam} {ab : Bool} (s : RStmt) (hs : YS nl fn Γ Λ ab s Γ1 Λ1)
    {st : SState} {pos : Nat} {lp : LoopCtx} {cs : List Const} {below : Array Value} {fr : List Frame} {locs ops g : Array Value} {l : Value}
    (hsc : Sc W fn Γ Γx Λ) (hinv : Inv W (bigScope fn Γ Γx) Λ nl st locs g l)
    (heval : evalBV (f + 1) (.cons s .nil) st = liftU (evalS f s st) (fun st1 => .val .null st1))
    (hasv : ∀ c, asValue (.cons s .nil) c = c ++ [.null])
    (hsz : sizeBV (.cons s .nil) = sizeS s + 1)
    (hcode : CodeAt W.C pos (asValue (.cons s .nil) (emitB (.cons s .nil) pos lp cs).1))
    (hpool : PoolOK W.s0.cvals (emitB (.cons s .nil) pos lp cs).2) :
    GoalV W (bigScope fn Γ Γx) Λ nl below fr fn ab lp pos locs ops g l (pos + sizeBV (.cons s .nil)) ops st (evalBV (f + 1) (.cons s .nil) st) := by
  rw [hasv] at hcode
  simp only [emitB, List.append_nil] at hcode hpool
  obtain ⟨hc1, hc2⟩ := hcode.append
  rw [emitS_size] at hc2
  have h := ih.s nl fn Γ Γx Λ ab s Γ1 Λ1 hs st pos lp cs below fr locs ops g l hsc hinv hc1 hpool
  obtain ⟨_, ⟨d, hd⟩, ⟨c, hc⟩⟩ := hsc.stepS hs
  rw [heval, hsz, ← Nat.add_assoc]
  exact goalU_then_null d c hd hc h hc2

theorem pbv_succ (f : Nat) (ih : PAll W f) : PBV W (f + 1) := by
  intro nl fn Γ Γx Λ ab b Γ2 Λ2 hx st pos lp cs below fr locs ops g l hsc hinv hcode hpool
  cases hx with
  | nil _ _ _ =>
    simp only [asValue] at hcode
    simp only [evalBV]
    exact .inr ⟨.null, trivial, locs, g, l, 1, execN_one W.C _ _ (step_null hcode), hinv, rfl⟩
  | cons _ _ _ Γ1 Λ1 _ _ s rest hs hrest =>
    cases rest with
    | nil =>
      cases hrest
      cases hs with
      | expr _ _ _ e he =>
        have hcode' : CodeAt W.C pos (emitE e pos lp cs).1 := by
          simpa [asValue, RBlock.tailKind, emitB, emitS] using hcode
        have hpool' : PoolOK W.s0.cvals (emitE e pos lp cs).2 := by simpa [emitB, emitS] using hpool
        have h := ih.e nl fn Γ Γx Λ ab e he st pos lp cs below fr locs ops g l hsc hinv hcode' hpool'
        have hsz : sizeBV (.cons (.expr e) .nil) = sizeE e := by
          simp [sizeBV, valSize, RBlock.tailKind, sizeB, sizeS]
        rw [hsz]
        simp only [evalBV]
        exact h
      | block _ _ _ b' Γ3 Λ3 hb' =>
        cases b' with
        | nil =>
          exact pbv_novalue f ih _ (.block _ _ _ _ _ _ hb') hsc hinv (by simp only [evalBV]; exact liftU_eq _ _)
            (by intro c; simp [asValue, RBlock.tailKind]) (by simp [sizeBV, valSize, RBlock.tailKind, sizeB])
            hcode hpool
        | cons s' b'' =>
          have hcode' : CodeAt W.C pos (asValue (.cons s' b'') (emitB (.cons s' b'') pos lp cs).1) := by
            have : (emitB (.cons (.block (.cons s' b'')) .nil) pos lp cs).1 = (emitB (.cons s' b'') pos lp cs).1 := by
              simp [emitB, emitS]
            rw [this] at hcode
            simpa [asValue, RBlock.tailKind] using hcode
          have hpool' : PoolOK W.s0.cvals (emitB (.cons s' b'') pos lp cs).2 := by
            have : (emitB (.cons (.block (.cons s' b'')) .nil) pos lp cs).2 = (emitB (.cons s' b'') pos lp cs).2 := by
              simp [emitB, emitS]
            rw [this] at hpool; exact hpool
          have h := ih.bv nl fn Γ Γx Λ ab _ Γ3 Λ3 hb' st pos lp cs below fr locs ops g l hsc hinv hcode' hpool'
          have hsz : sizeBV (.cons (.block (.cons s' b'')) .nil) = sizeBV (.cons s' b'') := by
            simp [sizeBV, valSize, RBlock.tailKind, sizeB, sizeS]
          rw [hsz]
          simp only [evalBV]
          exact h
      | letG _ _ _ bb k e hfn hf he =>
        exact pbv_novalue f ih _ (.letG _ _ _ bb k e hfn hf he) hsc hinv (by simp only [evalBV]; exact liftU_eq _ _)
          (by intro c; simp [asValue, RBlock.tailKind]) (by simp [sizeBV, valSize, RBlock.tailKind, sizeB])
          hcode hpool
      | letL _ _ _ bb k e hfn hf hk he =>
        exact pbv_novalue f ih _ (.letL _ _ _ bb k e hfn hf hk he) hsc hinv (by simp only [evalBV]; exact liftU_eq _ _)
          (by intro c; simp [asValue, RBlock.tailKind]) (by simp [sizeBV, valSize, RBlock.tailKind, sizeB])
          hcode hpool
      | brk _ _ =>
        exact pbv_novalue f ih _ (.brk _ _) hsc hinv (by simp only [evalBV]; exact liftU_eq _ _)
          (by intro c; simp [asValue, RBlock.tailKind]) (by simp [sizeBV, valSize, RBlock.tailKind, sizeB])
          hcode hpool
      | cont _ _ =>
        exact pbv_novalue f ih _ (.cont _ _) hsc hinv (by simp only [evalBV]; exact liftU_eq _ _)
          (by intro c; simp [asValue, RBlock.tailKind]) (by simp [sizeBV, valSize, RBlock.tailKind, sizeB])
          hcode hpool
      | ret _ _ _ e hfn he =>
        exact pbv_novalue f ih _ (.ret _ _ _ e hfn he) hsc hinv (by simp only [evalBV]; exact liftU_eq _ _)
          (by intro c; simp [asValue, RBlock.tailKind]) (by simp [sizeBV, valSize, RBlock.tailKind, sizeB])
          hcode hpool
    | cons s2 rest2 =>
      have e1 : (emitB (.cons s (.cons s2 rest2)) pos lp cs).1 =
          (emitS s pos lp cs).1 ++ (emitB (.cons s2 rest2) (pos + sizeS s) lp (emitS s pos lp cs).2).1 := by rw [emitB]
      have e2 : (emitB (.cons s (.cons s2 rest2)) pos lp cs).2 =
          (emitB (.cons s2 rest2) (pos + sizeS s) lp (emitS s pos lp cs).2).2 := by rw [emitB]
      have hcode' := hcode
      rw [e1, asValue_seq] at hcode'
      rw [e2] at hpool
      obtain ⟨hc1, hc2⟩ := hcode'.append
      rw [emitS_size] at hc2
      have hpool1 : PoolOK W.s0.cvals (emitS s pos lp cs).2 := hpool.mono (emitB_ext _ _ _ _)
      have h1 := ih.s nl fn Γ Γx Λ ab s Γ1 Λ1 hs st pos lp cs below fr locs ops g l hsc hinv hc1 hpool1
      obtain ⟨hsc1, ⟨d, hd⟩, ⟨c, hc⟩⟩ := hsc.stepS hs
      have heval : evalBV (f + 1) (.cons s (.cons s2 rest2)) st = liftU (evalS f s st) (fun st1 => evalBV f (.cons s2 rest2) st1) := by
        cases s <;> (simp only [evalBV]; exact liftU_eq _ _)
      rw [heval, sizeBV_seq]
      rcases h1 with h1 | h1
      · exact .inl h1
      cases hr : evalS f s st with
      | val u st1 =>
        rw [hr] at h1
        obtain ⟨locs1, g1, l1, n, hn, hinv1, ho1⟩ := h1
        have h2 := ih.bv nl fn Γ1 Γx Λ1 ab (.cons s2 rest2) Γ2 Λ2 hrest st1 (pos + sizeS s) lp _ below fr locs1 ops g1 l1 hsc1 hinv1 hc2 hpool
        rw [hd, hc] at h2
        rw [← Nat.add_assoc]
        exact (h2.weaken d c).prefix n hn ho1
      | err er st1 => rw [hr] at h1; exact .inr h1
      | fuel => exact .inr trivial
      | unspec _ => exact .inr trivial
      | brk _ => rw [hr] at h1; exact .inr h1
      | cont _ => rw [hr] at h1; exact .inr h1
      | ret _ _ => rw [hr] at h1; exact .inr h1

end
end SimF
end Nl
