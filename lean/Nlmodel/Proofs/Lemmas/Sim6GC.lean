/- Stage 6: the heap-level invariant and its transparency under a collection (the crux of stage 6).
   At every `Return`/`ReturnValue` the machine runs `GC.run m roots`; the semantics never frees.  The address map
   is RESTRICTED to the spec addresses whose image is still live; the invariant holds again for the restricted map,
   and every relation `VR6` of a value among the roots survives. -/
import Nlmodel.Proofs.Lemmas.Sim6Val
namespace Nl
namespace Sim6
open Spec Sim
open SimH (AMap isStrCell isArrCell Grow PoolH MemOK sameKind)
open SimF (FT FnInfo FTInj)

/-- the heap-level part of the invariant: cell-wise heap relation, constants, managed list -/
structure HInv (W : World) (μ : AMap) (st : SState) (m : Mem) : Prop where
  hr : HR6 W μ st m.heap
  pool : PoolH W.s0.cvals W.CS m.heap μ
  mok : MemOK μ m

/-- the address map after a collection: spec addresses whose image is still live -/
def restrict (μ : AMap) (h : Heap) : AMap := fun a =>
  match μ a with
  | some a' => if h.isLive a' then some a' else none
  | none => none

theorem restrict_some {μ : AMap} {h : Heap} {a a' : Nat} : restrict μ h a = some a' ↔ μ a = some a' ∧ h.isLive a' = true := by
  unfold restrict
  cases hm : μ a with
  | none => simp
  | some b =>
    by_cases hl : h.isLive b = true
    · simp only [hl, ↓reduceIte, Option.some.injEq]
      constructor
      · intro e; subst e; exact ⟨rfl, hl⟩
      · intro e; exact e.1
    · simp only [hl, Bool.false_eq_true, ↓reduceIte]
      constructor
      · intro e; cases e
      · intro e; obtain ⟨e1, e2⟩ := e; injection e1 with e1; subst e1; exact absurd e2 hl

theorem isLive_iff (h : Heap) (a : Nat) : h.isLive a = true ↔ h.get a ≠ .freed := by
  unfold Heap.isLive
  cases h.get a <;> simp

/-- what a collection keeps: the managed cells reachable from the roots, and every cell it does not manage -/
def Kept (m : Mem) (roots : List Value) (a : Nat) : Prop := GC.Reach m.heap m.managed roots a ∨ a ∉ m.managed

section gc
variable {m : Mem} {roots : List Value}

theorem kept_get (hk : GC.HeapKindOK m.heap) (hkr : ∀ v ∈ roots, GC.KindOK m.heap v) {a : Nat} (ha : Kept m roots a) :
    (GC.run m roots).heap.get a = m.heap.get a :=
  (C03.C03_collect_preserves m roots hk hkr a ha).1

theorem kept_managed (hk : GC.HeapKindOK m.heap) (hkr : ∀ v ∈ roots, GC.KindOK m.heap v) {a : Nat} (ha : Kept m roots a)
    (hm : a ∈ m.managed) : a ∈ (GC.run m roots).managed :=
  (C03.C03_collect_preserves m roots hk hkr a ha).2 hm

theorem kept_root {v : Value} {a : Nat} (hv : v ∈ roots) (ha : v.addr? = some a) : Kept m roots a := by
  by_cases hm : a ∈ m.managed
  · exact .inl (.root v a hv ha hm)
  · exact .inr hm

/-- the elements of a kept array are kept (every machine array is managed) -/
theorem kept_elem {μ : AMap} (hmok : MemOK μ m) {a b : Nat} {v : Value} (ha : Kept m roots a) (hv : v ∈ m.heap.arrAt a)
    (hb : v.addr? = some b) : Kept m roots b := by
  by_cases hm : b ∈ m.managed
  · have hga : ∃ mvs, m.heap.get a = .arr mvs := by
      cases hg : m.heap.get a with
      | arr mvs => exact ⟨mvs, rfl⟩
      | _ => simp [Heap.arrAt, hg] at hv
    obtain ⟨mvs, hg⟩ := hga
    have ham := (hmok.arrs a mvs hg).1
    rcases ha with ha | ha
    · exact .inl (.step a v b ha hv hb hm)
    · exact absurd ham ha
  · exact .inr hm

theorem run_size (m : Mem) (roots : List Value) : (GC.run m roots).heap.cells.size = m.heap.cells.size := by
  unfold GC.run
  split
  · rfl
  · exact TI.freeAll_size _ _

theorem run_managed_sub {a : Nat} (h : a ∈ (GC.run m roots).managed) : a ∈ m.managed := by
  unfold GC.run at h
  split at h
  · exact h
  · exact (List.mem_filter.1 h).1

/-- whatever is live after the collection was kept by it -/
theorem kept_of_live (hk : GC.HeapKindOK m.heap) (hkr : ∀ v ∈ roots, GC.KindOK m.heap v) (hlt : ∀ a, a ∈ m.managed → a < m.heap.cells.size)
    {a : Nat} (hl : (GC.run m roots).heap.isLive a = true) : Kept m roots a := by
  by_cases hm : a ∈ m.managed
  · by_cases hre : GC.Reach m.heap m.managed roots a
    · exact .inl hre
    · have := GC.garbage_released m roots hk hkr a hm (hlt a hm) hre
      rw [this] at hl; cases hl
  · exact .inr hm

end gc

section transfer
variable {W : World} {μ : AMap} {st : SState} {m : Mem} {roots : List Value}

/-- a relation whose machine value points to a kept cell survives the collection -/
theorem vr6_gc (hi : HInv W μ st m) (hk : GC.HeapKindOK m.heap) (hkr : ∀ v ∈ roots, GC.KindOK m.heap v)
    {v : SVal} {mv : Value} (hkept : ∀ a, mv.addr? = some a → Kept m roots a) (hv : VR6 W μ st m.heap v mv) :
    VR6 W (restrict μ (GC.run m roots).heap) st (GC.run m roots).heap v mv := by
  cases v <;> cases mv <;> simp only [VR6] at hv ⊢ <;> try exact hv
  · rename_i x a'
    rw [kept_get hk hkr (hkept a' rfl)]; exact hv
  · rename_i a a'
    obtain ⟨hm, hc⟩ := hv
    refine ⟨restrict_some.2 ⟨hm, ?_⟩, hc⟩
    rw [isLive_iff, kept_get hk hkr (hkept a' rfl)]
    cases hs : st.store[a]? with
    | none => rw [hs] at hc; cases hc
    | some c =>
      cases c with
      | arr vs => rw [hs] at hc; cases hc
      | str s => rw [hi.hr.str a a' s hm hs]; simp
  · rename_i a a'
    obtain ⟨hm, hc⟩ := hv
    refine ⟨restrict_some.2 ⟨hm, ?_⟩, hc⟩
    rw [isLive_iff, kept_get hk hkr (hkept a' rfl)]
    cases hs : st.store[a]? with
    | none => rw [hs] at hc; cases hc
    | some c =>
      cases c with
      | str s => rw [hs] at hc; cases hc
      | arr vs =>
        obtain ⟨mvs, h1, _⟩ := hi.hr.arr a a' vs hm hs
        rw [h1]; simp

/-- THE GC LEMMA: the heap-level invariant holds again after the collection, for the restricted map -/
theorem hinv_gc (hi : HInv W μ st m) (hk : GC.HeapKindOK m.heap) (hkr : ∀ v ∈ roots, GC.KindOK m.heap v)
    (hcv : ∀ v, v ∈ W.s0.cvals.toList → v ∈ roots) :
    HInv W (restrict μ (GC.run m roots).heap) st (GC.run m roots) := by
  have hlive : ∀ a a', restrict μ (GC.run m roots).heap a = some a' → μ a = some a' ∧ Kept m roots a' := by
    intro a a' h
    obtain ⟨h1, h2⟩ := restrict_some.1 h
    exact ⟨h1, kept_of_live hk hkr hi.mok.lt h2⟩
  refine ⟨⟨?_, ?_, ?_, ?_⟩, ⟨hi.pool.ints, ?_, ?_, hi.pool.lits⟩, ⟨?_, ?_, ?_⟩⟩
  · intro a b a' ha hb
    exact hi.hr.inj a b a' (hlive a a' ha).1 (hlive b a' hb).1
  · intro a a' ha
    rw [run_size]
    exact hi.hr.dom a a' (hlive a a' ha).1
  · intro a a' s ha hc
    obtain ⟨h1, h2⟩ := hlive a a' ha
    rw [kept_get hk hkr h2]
    exact hi.hr.str a a' s h1 hc
  · intro a a' vs ha hc
    obtain ⟨h1, h2⟩ := hlive a a' ha
    obtain ⟨mvs, h3, h4⟩ := hi.hr.arr a a' vs h1 hc
    refine ⟨mvs, by rw [kept_get hk hkr h2]; exact h3, ?_⟩
    refine h4.imp (fun v mv hmv hv => vr6_gc hi hk hkr (fun b hb => ?_) hv)
    exact kept_elem hi.mok h2 (by simp [Heap.arrAt, h3]; exact hmv) hb
  · intro k x hkx
    obtain ⟨a0, h1, h2⟩ := hi.pool.floats k x hkx
    refine ⟨a0, h1, ?_⟩
    have hroot : Value.float a0 ∈ roots := hcv _ (by rw [← Array.getElem?_toList] at h1; exact List.mem_of_getElem? h1)
    rw [kept_get hk hkr (kept_root hroot rfl)]; exact h2
  · intro k s hks
    obtain ⟨a0, h1, h2, h3⟩ := hi.pool.strs k s hks
    refine ⟨a0, h1, ?_, fun a e => h3 a (hlive a a0 e).1⟩
    have hroot : Value.str a0 ∈ roots := hcv _ (by rw [← Array.getElem?_toList] at h1; exact List.mem_of_getElem? h1)
    rw [kept_get hk hkr (kept_root hroot rfl)]; exact h2
  · exact (C03.C03_managed_nodup_run m roots hi.mok.nd).1
  · intro a ha
    rw [run_size]; exact hi.mok.lt a (run_managed_sub ha)
  · intro a mvs hg
    have hl : (GC.run m roots).heap.isLive a = true := by rw [isLive_iff, hg]; simp
    have hkept := kept_of_live hk hkr hi.mok.lt hl
    rw [kept_get hk hkr hkept] at hg
    obtain ⟨h1, a0, h2⟩ := hi.mok.arrs a mvs hg
    exact ⟨kept_managed hk hkr hkept h1, a0, restrict_some.2 ⟨h2, hl⟩⟩

/-- ... and every relation of a ROOT value survives -/
theorem vr6_gc_root (hi : HInv W μ st m) (hk : GC.HeapKindOK m.heap) (hkr : ∀ v ∈ roots, GC.KindOK m.heap v)
    {v : SVal} {mv : Value} (hroot : mv ∈ roots ∨ mv.addr? = none) (hv : VR6 W μ st m.heap v mv) :
    VR6 W (restrict μ (GC.run m roots).heap) st (GC.run m roots).heap v mv := by
  rcases hroot with hroot | hroot
  · exact vr6_gc hi hk hkr (fun a ha => kept_root hroot ha) hv
  · exact hv.scalar hroot

end transfer

end Sim6
end Nl
