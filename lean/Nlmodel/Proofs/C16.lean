/-
  C16 — evaluation is a pure function of the program text.
  The logic part: in the explicit-state model, `eval` is one line on a FRESH session; nothing of a
  previous evaluation is an input of the next one.  Thread schedules and build profiles are not
  expressible in the model: they are decided by the correspondence only (partial).
-/
import Nlmodel.Model.Session
namespace Nl
namespace C16

/-- `eval(text)` is exactly one line evaluated on a fresh compiler and a fresh machine: its outcome
    is a function of the text (and of nothing else — there is no other argument) -/
theorem C16_eval_is_fresh_session (cc : CharClass) (b : Nat) (src : Text) :
    (evalText cc b src).show = ((Session.line cc b {} src).2).show := by
  unfold evalText Session.line compileProgram resolveProgram
  cases parse cc src with
  | error e => rfl
  | ok ast =>
    simp only
    have : ({ ({} : Session).rs with loopDepth := 0, funcDepth := 0 } : RState) = {} := rfl
    rw [this]
    cases resolveSs ast {} with
    | error e => rfl
    | ok p =>
      obtain ⟨r, rs'⟩ := p
      simp only
      cases compileR r with
      | error e => rfl
      | ok bc =>
        simp only
        cases VM.run {} bc b <;> rfl

/-- a run starts from an empty operand stack, no suspended frames, instruction pointer 0 and no
    pending output, WHATEVER the machine did before: of a previous run only the globals (and the
    heap they point into) are inputs of the next one -/
theorem C16_run_start_state (prev : VM) (bc : Bytecode) :
    (prev.start bc).stack = #[] ∧ (prev.start bc).frames = [] ∧ (prev.start bc).ip = 0
    ∧ (prev.start bc).bp = 0 ∧ (prev.start bc).out = [] ∧ (prev.start bc).last = .null
    ∧ (prev.start bc).globals = prev.globals := by
  simp [VM.start]

/-- two machines with the same globals and heap are indistinguishable for the next run -/
theorem C16_run_depends_on_globals_only (p q : VM) (bc : Bytecode) (n : Nat)
    (hg : p.globals = q.globals) (hh : p.mem.heap = q.mem.heap) :
    p.start bc = q.start bc := by
  simp [VM.start, hg, hh]

end C16
end Nl
