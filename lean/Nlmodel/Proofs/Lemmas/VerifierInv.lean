/- Invariant and helper lemmas for the soundness of the bytecode checker (C02). -/
import Nlmodel.Model.Verifier
namespace Nl
namespace Verifier

/-! ## the invariant -/

/-- a function value is a checked entry with its locals count -/
def FnOK (c : Cert) (fns : List (Nat × Nat)) (ip nl : Nat) : Prop :=
  ip ≠ 0 ∧ c.get ip = some (ip, 0) ∧ nlocals fns ip = nl

def ValOK (c : Cert) (fns : List (Nat × Nat)) : Value → Prop
  | .fn ip nl => FnOK c fns ip nl
  | _ => True

def HeapOK (c : Cert) (fns : List (Nat × Nat)) (h : Heap) : Prop :=
  ∀ a v, v ∈ h.arrAt a → ValOK c fns v

/-- the suspended callers: each can take the pending result at its return address -/
inductive FramesOK (c : Cert) (fns : List (Nat × Nat)) : Nat → Nat → List Frame → Prop where
  | main (bp : Nat) : FramesOK c fns 0 bp []
  | frame (o bp : Nat) (fr : Frame) (rest : List Frame) (o' h' : Nat) :
      o ≠ 0 → c.get fr.ip = some (o', h') → fr.bp + nlocals fns o' + h' ≤ bp + 1 →
      FramesOK c fns o' fr.bp rest → FramesOK c fns o bp (fr :: rest)

structure Inv (bc : Bytecode) (c : Cert) (s : VM) (o h : Nat) : Prop where
  cert : c.get s.ip = some (o, h)
  height : s.bp + nlocals (fnTable bc.consts) o + h ≤ s.stack.size
  frames : FramesOK c (fnTable bc.consts) o s.bp s.frames
  stackOK : ∀ v ∈ s.stack, ValOK c (fnTable bc.consts) v
  globalsOK : ∀ v ∈ s.globals, ValOK c (fnTable bc.consts) v
  cvalsOK : ∀ v ∈ s.cvals, ValOK c (fnTable bc.consts) v
  cvalsSize : s.cvals.size = bc.consts.length
  heapOK : HeapOK c (fnTable bc.consts) s.mem.heap
  lastOK : ValOK c (fnTable bc.consts) s.last


/-! ## helper lemmas: stack operations -/

theorem pop1_some (st : Array Value) (hs : 0 < st.size) :
    ∃ v, pop1 st = some (v, st.pop) ∧ v ∈ st := by
  unfold pop1
  have : st.back? = some st[st.size - 1] := by
    simp [Array.back?, Array.getElem?_eq_getElem (show st.size - 1 < st.size by omega)]
  rw [this]
  exact ⟨_, rfl, Array.getElem_mem _⟩

theorem mem_extract {st : Array Value} {v : Value} {i j : Nat} (h : v ∈ st.extract i j) : v ∈ st := by
  have : v ∈ (st.extract i j).toList := Array.mem_toList_iff.mpr h
  rw [Array.toList_extract] at this
  have h2 := List.mem_of_mem_drop (List.mem_of_mem_take this)
  exact Array.mem_toList_iff.mp h2

theorem mem_pop {st : Array Value} {v : Value} (h : v ∈ st.pop) : v ∈ st := by
  have : v ∈ st.pop.toList := Array.mem_toList_iff.mpr h
  rw [Array.toList_pop] at this
  exact Array.mem_toList_iff.mp (List.dropLast_subset _ this)

theorem mem_push {st : Array Value} {v x : Value} (h : v ∈ st.push x) : v ∈ st ∨ v = x := by
  simpa [Array.mem_push] using h

theorem popN_some (st : Array Value) (n : Nat) (hn : n ≤ st.size) :
    ∃ vs rest, popN st n = some (vs, rest) ∧ rest.size = st.size - n ∧ (∀ v ∈ vs, v ∈ st) ∧ (∀ v ∈ rest, v ∈ st) := by
  unfold popN
  simp only [hn, ↓reduceIte]
  refine ⟨_, _, rfl, ?_, ?_, ?_⟩
  · simp
  · intro v hv
    have : v ∈ st.extract (st.size - n) st.size := Array.mem_toList_iff.mp hv
    exact mem_extract this
  · intro v hv
    exact mem_extract hv


/-- the array contents of a cell -/
def Cell.elems : Cell → List Value
  | .arr vs => vs
  | _ => []

theorem arrAt_eq (h : Heap) (a : Nat) : h.arrAt a = Cell.elems (h.get a) := by
  unfold Heap.arrAt Cell.elems; cases h.get a <;> rfl

theorem get_alloc (h : Heap) (c : Cell) (a : Nat) :
    (h.alloc c).1.get a = if a = h.cells.size then c else h.get a := by
  unfold Heap.alloc Heap.get
  simp only [Array.getD_eq_getD_getElem?, Array.getElem?_push]
  by_cases ha : a = h.cells.size
  · simp [ha]
  · simp [ha]

theorem get_set (h : Heap) (a b : Nat) (c : Cell) :
    (h.set a c).get b = if b = a ∧ a < h.cells.size then c else h.get b := by
  unfold Heap.set Heap.get
  simp only [Array.getD_eq_getD_getElem?, Array.getElem?_setIfInBounds]
  by_cases hb : a = b
  · subst hb
    by_cases hs : a < h.cells.size
    · simp [hs]
    · simp [hs]
  · have : ¬ b = a := fun e => hb e.symm
    simp [hb, this]

theorem heapOK_alloc (c : Cert) (fns) (h : Heap) (cell : Cell) (hh : HeapOK c fns h)
    (hc : ∀ v ∈ Cell.elems cell, ValOK c fns v) : HeapOK c fns (h.alloc cell).1 := by
  intro a v hv
  rw [arrAt_eq, get_alloc] at hv
  split at hv
  · exact hc v hv
  · rw [← arrAt_eq] at hv; exact hh a v hv

theorem heapOK_set (c : Cert) (fns) (h : Heap) (a : Nat) (cell : Cell) (hh : HeapOK c fns h)
    (hc : ∀ v ∈ Cell.elems cell, ValOK c fns v) : HeapOK c fns (h.set a cell) := by
  intro b v hv
  rw [arrAt_eq, get_set] at hv
  split at hv
  · exact hc v hv
  · rw [← arrAt_eq] at hv; exact hh b v hv

theorem heapOK_free (c : Cert) (fns) (h : Heap) (a : Nat) (hh : HeapOK c fns h) : HeapOK c fns (h.free a) :=
  heapOK_set c fns h a .freed hh (by intro v hv; cases hv)

theorem heapOK_freeAll (c : Cert) (fns) (h : Heap) (as : List Nat) (hh : HeapOK c fns h) :
    HeapOK c fns (GC.freeAll h as) := by
  induction as generalizing h with
  | nil => exact hh
  | cons a as ih => simp only [GC.freeAll, List.foldl_cons]; exact ih _ (heapOK_free c fns h a hh)

theorem heapOK_gcrun (c : Cert) (fns) (m : Mem) (roots : List Value) (hh : HeapOK c fns m.heap) :
    HeapOK c fns (GC.run m roots).heap := by
  unfold GC.run
  split
  · exact hh
  · exact heapOK_freeAll c fns _ _ hh

/-- boxing a primitive result: the value is the argument itself or not a function -/
theorem box_ok (c : Cert) (fns) (m : Mem) (arg : Value) (p : PRes) (hm : HeapOK c fns m.heap) (ha : ValOK c fns arg) :
    ValOK c fns (m.box arg p).1 ∧ HeapOK c fns (m.box arg p).2.heap := by
  cases p with
  | null => exact ⟨trivial, hm⟩
  | bool b => exact ⟨trivial, hm⟩
  | int i => exact ⟨trivial, hm⟩
  | float x => exact ⟨trivial, heapOK_alloc c fns _ _ hm (by intro v hv; cases hv)⟩
  | str s => exact ⟨trivial, heapOK_alloc c fns _ _ hm (by intro v hv; cases hv)⟩
  | same => exact ⟨ha, hm⟩

theorem binop_ok (c : Cert) (fns) (op : BinOp) (l r : Value) (m m' : Mem) (v : Value)
    (hm : HeapOK c fns m.heap) (hl : ValOK c fns l) (h : binop op l r m = .ok (v, m')) :
    ValOK c fns v ∧ HeapOK c fns m'.heap := by
  unfold binop at h
  split at h
  · rename_i p _
    injection h with h
    have := box_ok c fns m l p hm hl
    rw [h] at this
    exact this
  · simp at h

theorem callBuiltin_ok (c : Cert) (fns) (b : Builtin) (args : List Value) (m m' : Mem) (out out' : List Text) (v : Value)
    (hm : HeapOK c fns m.heap) (ha : ∀ x ∈ args, ValOK c fns x)
    (h : callBuiltin b args m out = .ok (v, m', out')) :
    ValOK c fns v ∧ HeapOK c fns m'.heap := by
  unfold callBuiltin at h
  split at h
  · injection h with h
    simp only [Prod.mk.injEq] at h
    obtain ⟨h1, h2, _⟩ := h
    subst h1; subst h2
    exact ⟨trivial, hm⟩
  · split at h
    · rename_i x
      split at h
      · rename_i p _
        injection h with h
        simp only [Prod.mk.injEq] at h
        obtain ⟨h1, h2, _⟩ := h
        have := box_ok c fns m x p hm (ha x (by simp))
        rw [← h1, ← h2]
        exact this
      · simp at h
    · simp at h


theorem indexGet_ok (c : Cert) (fns) (l i : Value) (m m' : Mem) (v : Value)
    (hm : HeapOK c fns m.heap) (h : indexGet l i m = .ok (v, m')) :
    ValOK c fns v ∧ HeapOK c fns m'.heap := by
  cases i <;> cases l <;> simp only [indexGet] at h <;> (try (simp at h; done))
  · -- string
    rename_i k a
    split at h
    · injection h with h
      simp only [Prod.mk.injEq] at h
      obtain ⟨h1, h2⟩ := h
      subst h1; subst h2
      exact ⟨trivial, heapOK_alloc c fns _ _ hm (by intro v hv; cases hv)⟩
    · simp at h
  · -- array
    rename_i k a
    split at h
    · rename_i j _
      injection h with h
      simp only [Prod.mk.injEq] at h
      obtain ⟨h1, h2⟩ := h
      subst h2
      refine ⟨?_, hm⟩
      rw [← h1]
      cases hg : (m.heap.arrAt a)[j]? with
      | none => simp [List.getD, hg]; trivial
      | some x =>
        simp only [List.getD, hg, Option.getD_some]
        exact hm a x (List.mem_of_getElem? hg)
    · simp at h

theorem indexSet_ok (c : Cert) (fns) (l i x : Value) (m m' : Mem) (v : Value)
    (hm : HeapOK c fns m.heap) (hx : ValOK c fns x) (h : indexSet l i x m = .ok (v, m')) :
    ValOK c fns v ∧ HeapOK c fns m'.heap := by
  cases i <;> cases l <;> simp only [indexSet] at h <;> (try (simp at h; done))
  · rename_i k a
    split at h
    · split at h
      · injection h with h
        simp only [Prod.mk.injEq] at h
        obtain ⟨h1, h2⟩ := h
        subst h1; subst h2
        exact ⟨trivial, heapOK_set c fns _ _ _ hm (by intro v hv; cases hv)⟩
      · simp at h
    · simp at h
  · rename_i k a
    split at h
    · rename_i j _
      injection h with h
      simp only [Prod.mk.injEq] at h
      obtain ⟨h1, h2⟩ := h
      subst h1; subst h2
      refine ⟨hx, heapOK_set c fns _ _ _ hm ?_⟩
      intro w hw
      simp only [Cell.elems] at hw
      rcases List.mem_or_eq_of_mem_set hw with hw | hw
      · exact hm a w hw
      · subst hw; exact hx
    · simp at h


end Verifier
end Nl
