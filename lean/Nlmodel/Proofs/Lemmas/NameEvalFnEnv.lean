import Nlmodel.Proofs.Lemmas.NameEvalFnRel
namespace Nl
namespace NameEvalFn
open Spec SimF Sim
open NameEval (All2 findBid bids)

/-! E1: the algebra of the environment relation (stage-4 fragment) -/

theorem VRel.mono {G G' : List (Text × Nat)} (h : G <:+ G') {v : NVal} {w : SVal} (hv : VRel G v w) : VRel G' v w := by
  cases hv with
  | null => exact .null
  | bool b => exact .bool b
  | int i => exact .int i
  | float x => exact .float x
  | fn st1 sc1 F ps body rb st4 h1 h2 h3 h4 => exact .fn st1 sc1 F ps body rb st4 h1 h2 h3 (List.IsSuffix.trans h4 h)

theorem ORel.mono {G G'} (h : G <:+ G') {a : Option SVal} {b : Option NVal} (hr : ORel G a b) : ORel G' a b := by
  cases a with
  | none =>
    cases b with
    | none => trivial
    | some v => exact hr.elim
  | some w =>
    cases b with
    | none => exact hr.elim
    | some v => exact VRel.mono h (v := v) (w := w) hr

theorem All2.imp {α β : Type} {R S : α → β → Prop} (hi : ∀ a b, R a b → S a b) {l : List α} {l' : List β}
    (h : All2 R l l') : All2 S l l' := by
  induction h with
  | nil => exact .nil
  | cons hd _ ih => exact .cons (hi _ _ hd) ih

theorem relSc_mono {G G'} (h : G <:+ G') {env sc sc'} (hr : RelSc G env sc sc') : RelSc G' env sc sc' :=
  All2.imp (fun _ _ hp => ⟨hp.1, ORel.mono h hp.2⟩) hr

theorem relS_mono {G G' : List (Text × Nat)} (h : G <:+ G') {env : List (Nat × SVal)} {ρs : List Scope} {scs : Scs}
    (hr : RelS G env ρs scs) : RelS G' env ρs scs :=
  All2.imp (fun _ _ hp => relSc_mono h hp) hr

theorem relSc_congr {G} {env env' : List (Nat × SVal)} {sc : Scope} {sc' : List (Text × Nat)}
    (h : RelSc G env sc sc') (hg : ∀ q ∈ sc', envGet env' q.2 = envGet env q.2) : RelSc G env' sc sc' := by
  induction h with
  | nil => exact .nil
  | cons hd _ ih =>
    refine .cons ⟨hd.1, ?_⟩ (ih fun q hq => hg q (List.mem_cons_of_mem _ hq))
    rw [hg _ List.mem_cons_self]; exact hd.2

theorem relS_congr {G} {env env' : List (Nat × SVal)} {ρs : List Scope} {scs : Scs}
    (h : RelS G env ρs scs) (hg : ∀ b ∈ bids scs, envGet env' b = envGet env b) : RelS G env' ρs scs := by
  induction h with
  | nil => exact .nil
  | @cons sc sc' _ scs' hd _ ih =>
    refine .cons (relSc_congr hd fun q hq => hg q.2 ?_) (ih fun b hb => hg b ?_)
    · simp only [bids, List.flatten_cons, List.map_append, List.mem_append, List.mem_map]
      exact Or.inl ⟨q, hq, rfl⟩
    · simp only [bids, List.flatten_cons, List.map_append, List.mem_append]
      exact Or.inr hb

theorem lookupScope_rel {G} {env : List (Nat × SVal)} {sc : Scope} {sc' : List (Text × Nat)} (h : RelSc G env sc sc') (n : Text) :
    match findBid sc' n with
    | none => lookupScope sc n = none
    | some b => ∃ ov, lookupScope sc n = some ov ∧ ORel G (envGet env b) ov := by
  induction h with
  | nil => rfl
  | @cons p q _ _ hd _ ih =>
    obtain ⟨m, w⟩ := p
    obtain ⟨m', b⟩ := q
    obtain ⟨h1, h2⟩ := hd
    simp only at h1 h2
    subst h1
    simp only [lookupScope, findBid]
    by_cases hm : m = n
    · simp only [hm, ↓reduceIte]
      exact ⟨w, rfl, h2⟩
    · simp only [hm, ↓reduceIte]
      exact ih

theorem lookup_rel {G} {env : List (Nat × SVal)} {ρs : List Scope} {scs : Scs} (h : RelS G env ρs scs) (n : Text) :
    match findBid scs.flatten n with
    | none => lookup ρs n = none
    | some b => ∃ ov, lookup ρs n = some ov ∧ ORel G (envGet env b) ov := by
  induction h with
  | nil => rfl
  | @cons sc sc' _ _ hd _ ih =>
    have hl := lookupScope_rel hd n
    simp only [lookup, List.flatten_cons, NameEval.findBid_append]
    cases hf : findBid sc' n with
    | none =>
      rw [hf] at hl
      simp only at hl
      simp only [hl]
      exact ih
    | some b =>
      rw [hf] at hl
      obtain ⟨ov, h1, h2⟩ := hl
      simp only [h1]
      exact ⟨ov, rfl, h2⟩

theorem updateScope_rel {G} {env : List (Nat × SVal)} {sc : Scope} {sc' : List (Text × Nat)} (h : RelSc G env sc sc')
    (n : Text) (v : NVal) (w : SVal) (hv : VRel G v w) (hnd : (sc'.map Prod.snd).Nodup) :
    (findBid sc' n = none → updateScope sc n v = none) ∧
    (∀ b, findBid sc' n = some b → ∃ sc2, updateScope sc n v = some sc2 ∧ RelSc G (envSet env b w) sc2 sc') := by
  induction h with
  | nil => exact ⟨fun _ => rfl, fun b hb => by simp [findBid] at hb⟩
  | @cons p q l l' hd htl ih =>
    obtain ⟨m, w0⟩ := p
    obtain ⟨m', b'⟩ := q
    obtain ⟨h1, h2⟩ := hd
    simp only at h1 h2
    subst h1
    simp only [List.map_cons, List.nodup_cons] at hnd
    obtain ⟨hni, hnd'⟩ := hnd
    obtain ⟨ih1, ih2⟩ := ih hnd'
    simp only [updateScope, findBid]
    by_cases hm : m = n
    · simp only [hm, ↓reduceIte]
      refine ⟨fun h => (nomatch h), fun b hb => ?_⟩
      simp only [Option.some.injEq] at hb
      subst hb
      refine ⟨_, rfl, .cons ⟨rfl, ?_⟩ (relSc_congr htl fun q hq => ?_)⟩
      · simp only
        rw [envGet_envSet_same]
        exact hv
      · exact envGet_envSet_other _ _ _ _ (fun he => hni (by rw [← he]; exact List.mem_map_of_mem hq))
    · simp only [hm, ↓reduceIte]
      refine ⟨fun h => by rw [ih1 h], fun b hb => ?_⟩
      obtain ⟨sc2, hsc2, hr⟩ := ih2 b hb
      rw [hsc2]
      refine ⟨_, rfl, .cons ⟨rfl, ?_⟩ hr⟩
      simp only
      rw [envGet_envSet_other _ _ _ _ (fun he => hni (by rw [he]; exact NameEval.findBid_mem _ _ _ hb))]
      exact h2

theorem update_rel {G} {env : List (Nat × SVal)} {ρs : List Scope} {scs : Scs} (h : RelS G env ρs scs) (n : Text) (v : NVal) (w : SVal)
    (hv : VRel G v w) (hnd : (bids scs).Nodup) :
    (findBid scs.flatten n = none → update ρs n v = none) ∧
    (∀ b, findBid scs.flatten n = some b → ∃ ρs2, update ρs n v = some ρs2 ∧ RelS G (envSet env b w) ρs2 scs) := by
  induction h with
  | nil => exact ⟨fun _ => rfl, fun b hb => by simp [findBid] at hb⟩
  | @cons sc sc' l l' hd htl ih =>
    simp only [bids, List.flatten_cons, List.map_append] at hnd
    obtain ⟨hnd1, hnd2, hdis⟩ := List.nodup_append.mp hnd
    obtain ⟨ih1, ih2⟩ := ih hnd2
    obtain ⟨u1, u2⟩ := updateScope_rel hd n v w hv hnd1
    simp only [update, List.flatten_cons, NameEval.findBid_append]
    cases hf : findBid sc' n with
    | none =>
      simp only [u1 hf]
      refine ⟨fun h => by rw [ih1 h], fun b hb => ?_⟩
      obtain ⟨ρs2, h2, hr⟩ := ih2 b hb
      rw [h2]
      refine ⟨_, rfl, .cons (relSc_congr hd fun q hq => ?_) hr⟩
      exact envGet_envSet_other _ _ _ _ (fun he =>
        hdis q.2 (List.mem_map_of_mem hq) b (NameEval.findBid_mem _ _ _ hb) he)
    | some b0 =>
      refine ⟨fun h => (nomatch h), fun b hb => ?_⟩
      simp only [Option.some.injEq] at hb
      subst hb
      obtain ⟨sc2, hsc2, hr⟩ := u2 b0 hf
      simp only [hsc2]
      refine ⟨_, rfl, .cons hr (relS_congr htl fun b hb => ?_)⟩
      exact envGet_envSet_other _ _ _ _ (fun he =>
        hdis b0 (NameEval.findBid_mem _ _ _ hf) b hb he.symm)

theorem view_rel {G} {v : NVal} {w : SVal} (h : VRel G v w) (σ : SState) : viewN v = σ.view w := by
  cases h <;> rfl

theorem tree_rel {G} {v : NVal} {w : SVal} (h : VRel G v w) (σ : SState) (k : Nat) (path : List Nat) : treeN v = σ.tree (k + 1) path w := by
  cases h <;> rfl

end NameEvalFn
end Nl
