/- Stage 7: the entry points of the literals of a tree lie inside the tree's code, in code order: they are pairwise
   distinct (so the function table built from them is injective on entry points).  Purely about the layout. -/
import Nlmodel.Proofs.Lemmas.Sim7Goal
namespace Nl
namespace Sim7
open Spec Sim Sim6
open SimF (FT FnInfo FTInj)

/-- all entries lie in `[lo + 3, hi - k]`, increasing -/
def IpsK (k : Nat) (L : List (Nat × FnInfo)) (lo hi : Nat) : Prop :=
  (∀ q ∈ L, lo + 3 ≤ q.2.ip ∧ q.2.ip + k ≤ hi) ∧ L.Pairwise (fun x y => x.2.ip < y.2.ip)

theorem IpsK.nil (k lo hi : Nat) : IpsK k [] lo hi := ⟨fun _ h => (by cases h), List.Pairwise.nil⟩

theorem IpsK.mono {k k' : Nat} {L : List (Nat × FnInfo)} {lo hi lo' hi' : Nat} (h : IpsK k L lo hi) (hlo : lo' ≤ lo) (hhi : hi + k' ≤ hi' + k) :
    IpsK k' L lo' hi' :=
  ⟨fun q hq => by have := h.1 q hq; omega, h.2⟩

theorem IpsK.append {k : Nat} {L1 L2 : List (Nat × FnInfo)} {lo mid1 mid2 hi : Nat} (h1 : IpsK k L1 lo mid1) (h2 : IpsK k L2 mid2 hi)
    (hm : mid1 ≤ mid2) (hlo : lo ≤ mid2) (hhi : mid1 ≤ hi) : IpsK k (L1 ++ L2) lo hi := by
  refine ⟨?_, List.pairwise_append.mpr ⟨h1.2, h2.2, ?_⟩⟩
  · intro q hq
    rcases List.mem_append.mp hq with h | h
    · have := h1.1 q h; omega
    · have := h2.1 q h; omega
  · intro a ha b hb
    have := h1.1 a ha; have := h2.1 b hb; omega

theorem sizeB_le_BV7 (b : RBlock) : sizeB b ≤ sizeBV b + 1 := by
  unfold sizeBV valSize
  cases b with
  | nil => simp [sizeB]
  | cons s b' => cases (RBlock.cons s b').tailKind <;> simp only <;> omega

theorem sizeB_le_BF7 (b : RBlock) : sizeB b ≤ sizeBF b := by
  unfold sizeBF fnSize
  cases b with
  | nil => simp [sizeB]
  | cons s b' => cases (RBlock.cons s b').tailKind <;> simp only <;> omega

mutual
theorem ipsE : (e : RExpr) → ∀ (Δ : Gam) (pos : Nat) (lp : LoopCtx) (cs : List Const), IpsK 3 (litsE Δ e pos lp cs) pos (pos + sizeE e)
  | .int _, _, _, _, _ => by simp only [litsE]; exact .nil _ _ _
  | .float _, _, _, _, _ => by simp only [litsE]; exact .nil _ _ _
  | .str _, _, _, _, _ => by simp only [litsE]; exact .nil _ _ _
  | .bool _, _, _, _, _ => by simp only [litsE]; exact .nil _ _ _
  | .var _, _, _, _, _ => by simp only [litsE]; exact .nil _ _ _
  | .not r, Δ, pos, lp, cs => by
    simp only [litsE, sizeE]; exact (ipsE r Δ pos lp cs).mono (Nat.le_refl _) (by omega)
  | .neg r, Δ, pos, lp, cs => by
    simp only [litsE, sizeE]; exact (ipsE r Δ pos lp cs).mono (Nat.le_refl _) (by omega)
  | .assignVar _ e, Δ, pos, lp, cs => by
    simp only [litsE, sizeE]; exact (ipsE e Δ pos lp cs).mono (Nat.le_refl _) (by omega)
  | .infix l op r, Δ, pos, lp, cs => by
    simp only [litsE, sizeE]
    cases hfc : fusedCandidate l op r with
    | some _ => exact .nil _ _ _
    | none =>
      simp only
      exact (ipsE l Δ pos lp cs).append (ipsE r Δ (pos + sizeE l) lp _) (Nat.le_refl _) (by omega) (by omega) |>.mono (Nat.le_refl _) (by omega)
  | .index l i, Δ, pos, lp, cs => by
    simp only [litsE, sizeE]
    exact (ipsE l Δ pos lp cs).append (ipsE i Δ (pos + sizeE l) lp _) (Nat.le_refl _) (by omega) (by omega) |>.mono (Nat.le_refl _) (by omega)
  | .assignIndex l i v, Δ, pos, lp, cs => by
    simp only [litsE, sizeE]
    exact (ipsE l Δ pos lp cs).append ((ipsE i Δ (pos + sizeE l) lp _).append (ipsE v Δ (pos + sizeE l + sizeE i) lp _) (Nat.le_refl _) (by omega) (by omega))
      (Nat.le_refl _) (by omega) (by omega) |>.mono (Nat.le_refl _) (by omega)
  | .arr vs, Δ, pos, lp, cs => by
    simp only [litsE, sizeE]; exact (ipsEs vs Δ pos lp cs).mono (Nat.le_refl _) (by omega)
  | .callBuiltin _ as, Δ, pos, lp, cs => by
    simp only [litsE, sizeE]; exact (ipsEs as Δ pos lp cs).mono (Nat.le_refl _) (by omega)
  | .call f as, Δ, pos, lp, cs => by
    simp only [litsE, sizeE]
    exact (ipsEs as Δ pos lp cs).append (ipsE f Δ (pos + sizeEs as) lp _) (Nat.le_refl _) (by omega) (by omega) |>.mono (Nat.le_refl _) (by omega)
  | .ifE c t e, Δ, pos, lp, cs => by
    simp only [litsE, sizeE]
    have ht := (ipsB t Δ (pos + sizeE c + 3) lp (emitE c pos lp cs).2).mono (k' := 3) (hi' := pos + sizeE c + 3 + sizeBV t) (Nat.le_refl _)
      (by have := sizeB_le_BV7 t; omega)
    have he := ipsO e Δ (pos + sizeE c + 3 + sizeBV t + 3) lp (emitB t (pos + sizeE c + 3) lp (emitE c pos lp cs).2).2
    have := (ipsE c Δ pos lp cs).append (ht.append he (by omega) (by omega) (by omega)) (by omega) (by omega) (by omega)
    exact this.mono (Nat.le_refl _) (by unfold sizeBV; omega)
  | .whileE c b, Δ, pos, lp, cs => by
    simp only [litsE, sizeE]
    have hb := (ipsB b Δ (pos + 1 + sizeE c + 4) (some (pos + 1, pos + 1 + sizeE c + 4 + sizeBV b + 3))
      (emitE c (pos + 1) (some (pos + 1, pos + 1 + sizeE c + 4 + sizeBV b + 3)) cs).2).mono (k' := 3) (hi' := pos + 1 + sizeE c + 4 + sizeBV b)
      (Nat.le_refl _) (by have := sizeB_le_BV7 b; omega)
    have := (ipsE c Δ (pos + 1) (some (pos + 1, pos + 1 + sizeE c + 4 + sizeBV b + 3)) cs).append hb (by omega) (by omega) (by omega)
    exact this.mono (by omega) (by unfold sizeBV; omega)
  | .func fid self ps nl body, Δ, pos, lp, cs => by
    simp only [litsE, sizeE]
    have hb := ipsB body Δ (pos + 3) none cs
    have hbf := sizeB_le_BF7 body
    refine ⟨?_, List.pairwise_cons.mpr ⟨?_, hb.2⟩⟩
    · intro q hq
      rcases List.mem_cons.mp hq with rfl | hq
      · simp only; unfold sizeBF at hbf; constructor <;> omega
      · have := hb.1 q hq; unfold sizeBF at hbf; omega
    · intro q hq
      have := hb.1 q hq; simp only; omega
theorem ipsEs : (es : RExprs) → ∀ (Δ : Gam) (pos : Nat) (lp : LoopCtx) (cs : List Const), IpsK 3 (litsEs Δ es pos lp cs) pos (pos + sizeEs es)
  | .nil, _, _, _, _ => by simp only [litsEs]; exact .nil _ _ _
  | .cons e es, Δ, pos, lp, cs => by
    simp only [litsEs, sizeEs]
    exact (ipsE e Δ pos lp cs).append (ipsEs es Δ (pos + sizeE e) lp _) (Nat.le_refl _) (by omega) (by omega) |>.mono (Nat.le_refl _) (by omega)
theorem ipsO : (o : ROptBlock) → ∀ (Δ : Gam) (pos : Nat) (lp : LoopCtx) (cs : List Const), IpsK 3 (litsO Δ o pos lp cs) pos (pos + sizeO o)
  | .none, _, _, _, _ => by simp only [litsO]; exact .nil _ _ _
  | .some b, Δ, pos, lp, cs => by
    simp only [litsO, sizeO]
    exact (ipsB b Δ pos lp cs).mono (Nat.le_refl _) (by have := sizeB_le_BV7 b; unfold sizeBV at this; omega)
theorem ipsS : (s : RStmt) → ∀ (Δ : Gam) (pos : Nat) (lp : LoopCtx) (cs : List Const), IpsK 4 (litsS Δ s pos lp cs) pos (pos + sizeS s)
  | .expr e, Δ, pos, lp, cs => by simp only [litsS, sizeS]; exact (ipsE e Δ pos lp cs).mono (Nat.le_refl _) (by omega)
  | .letS _ e, Δ, pos, lp, cs => by simp only [litsS, sizeS]; exact (ipsE e Δ pos lp cs).mono (Nat.le_refl _) (by omega)
  | .ret e, Δ, pos, lp, cs => by simp only [litsS, sizeS]; exact (ipsE e Δ pos lp cs).mono (Nat.le_refl _) (by omega)
  | .block b, Δ, pos, lp, cs => by simp only [litsS, sizeS]; exact ipsB b Δ pos lp cs
  | .brk, _, _, _, _ => by simp only [litsS]; exact .nil _ _ _
  | .cont, _, _, _, _ => by simp only [litsS]; exact .nil _ _ _
theorem ipsB : (b : RBlock) → ∀ (Δ : Gam) (pos : Nat) (lp : LoopCtx) (cs : List Const), IpsK 4 (litsB Δ b pos lp cs) pos (pos + sizeB b)
  | .nil, _, _, _, _ => by simp only [litsB]; exact .nil _ _ _
  | .cons s b, Δ, pos, lp, cs => by
    simp only [litsB, sizeB]
    exact (ipsS s Δ pos lp cs).append (ipsB b Δ (pos + sizeS s) lp _) (Nat.le_refl _) (by omega) (by omega) |>.mono (Nat.le_refl _) (by omega)
end

theorem IpsK.ne {k : Nat} {L : List (Nat × FnInfo)} {lo hi : Nat} (h : IpsK k L lo hi) : L.Pairwise (fun x y => x.2.ip ≠ y.2.ip) :=
  h.2.imp (fun h => Nat.ne_of_lt h)

end Sim7
end Nl
