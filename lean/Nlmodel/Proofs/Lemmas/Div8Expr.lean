/- Stage 8 (named function literals in every expression position), DIVERGENCE PRESERVATION: the statements of the
   parallel induction (`DE8 … DBF8`, mirroring `PE8 … PBF8`: expression judgments with scope outputs; budget, depth and
   `DivG` are those of stage 6, `Div6Base`) and the expressions without control flow. -/
import Nlmodel.Proofs.Lemmas.Div7Text
import Nlmodel.Proofs.Lemmas.Sim8Program
namespace Nl
namespace Sim8
open Spec Sim Sim6 Sim7
open SimH (AMap isStrCell isArrCell Grow PoolH MemOK sameKind LitF)
open SimF (FT FnInfo FTInj paramScope bigScope)

section statements
variable (W : World) (K : Nat)

def DE8 (f : Nat) : Prop := ∀ {Δ : Gam} (nl : Nat) (fn : Bool) (Γ Γx Λ : Gam) (ab : Bool) (e : RExpr) (Γ1 Λ1 : Gam), Z8E Δ nl fn Γ Λ ab e Γ1 Λ1 →
  ∀ (c : Cfg) (lp : LoopCtx) (cs : List Const) (below : Array Value) (fr : List Frame),
  Sc7 W Δ fn Γ Γx Λ → Inv6 W (bigScope fn Γ Γx) Λ nl c → TI.WT (c.vm W below fr) →
  CodeAt W.C c.ip (emitE e c.ip lp cs).1 → Ext (emitE e c.ip lp cs).2 W.CS → FtE W.ft Δ e c.ip lp cs →
  evalE f e c.st = .fuel → DivG W.C (c.vm W below fr) (hb K f (dE e))

def DEs8 (f : Nat) : Prop := ∀ {Δ : Gam} (nl : Nat) (fn : Bool) (Γ Γx Λ : Gam) (es : RExprs) (Γ1 Λ1 : Gam), Z8Es Δ nl fn Γ Λ es Γ1 Λ1 →
  ∀ (c : Cfg) (lp : LoopCtx) (cs : List Const) (below : Array Value) (fr : List Frame),
  Sc7 W Δ fn Γ Γx Λ → Inv6 W (bigScope fn Γ Γx) Λ nl c → TI.WT (c.vm W below fr) →
  CodeAt W.C c.ip (emitEs es c.ip lp cs).1 → Ext (emitEs es c.ip lp cs).2 W.CS → FtEs W.ft Δ es c.ip lp cs →
  evalEs f es c.st = .fuel → DivG W.C (c.vm W below fr) (hb K f (dEs es))

def DBV8 (f : Nat) : Prop := ∀ {Δ : Gam} (nl : Nat) (fn : Bool) (Γ Γx Λ : Gam) (ab : Bool) (b : RBlock) (Γ1 Λ1 : Gam), Z8B Δ nl fn Γ Λ ab b Γ1 Λ1 →
  ∀ (c : Cfg) (lp : LoopCtx) (cs : List Const) (below : Array Value) (fr : List Frame),
  Sc7 W Δ fn Γ Γx Λ → Inv6 W (bigScope fn Γ Γx) Λ nl c → TI.WT (c.vm W below fr) →
  CodeAt W.C c.ip (asValue b (emitB b c.ip lp cs).1) → Ext (emitB b c.ip lp cs).2 W.CS → FtB W.ft Δ b c.ip lp cs →
  evalBV f b c.st = .fuel → DivG W.C (c.vm W below fr) (hb K f (dB b))

def DS8 (f : Nat) : Prop := ∀ {Δ : Gam} (nl : Nat) (fn : Bool) (Γ Γx Λ : Gam) (ab : Bool) (s : RStmt) (Γ1 Λ1 : Gam), Z8S Δ nl fn Γ Λ ab s Γ1 Λ1 →
  ∀ (c : Cfg) (lp : LoopCtx) (cs : List Const) (below : Array Value) (fr : List Frame),
  Sc7 W Δ fn Γ Γx Λ → Inv6 W (bigScope fn Γ Γx) Λ nl c → TI.WT (c.vm W below fr) →
  CodeAt W.C c.ip (emitS s c.ip lp cs).1 → Ext (emitS s c.ip lp cs).2 W.CS → FtS W.ft Δ s c.ip lp cs →
  evalS f s c.st = .fuel → DivG W.C (c.vm W below fr) (hb K f (dS s))

def DB8 (f : Nat) : Prop := ∀ {Δ : Gam} (nl : Nat) (fn : Bool) (Γ Γx Λ : Gam) (ab : Bool) (b : RBlock) (Γ1 Λ1 : Gam), Z8B Δ nl fn Γ Λ ab b Γ1 Λ1 →
  ∀ (c : Cfg) (lp : LoopCtx) (cs : List Const) (below : Array Value) (fr : List Frame),
  Sc7 W Δ fn Γ Γx Λ → Inv6 W (bigScope fn Γ Γx) Λ nl c → TI.WT (c.vm W below fr) →
  CodeAt W.C c.ip (emitB b c.ip lp cs).1 → Ext (emitB b c.ip lp cs).2 W.CS → FtB W.ft Δ b c.ip lp cs →
  evalB f b c.st = .fuel → DivG W.C (c.vm W below fr) (hb K f (dB b))

/-- the loop: the configuration stands at the condition, in the scopes BEFORE the loop (as in `PL8`) -/
def DL8 (f : Nat) : Prop := ∀ {Δ : Gam} (nl : Nat) (fn : Bool) (Γ Γx Λ : Gam) (cnd : RExpr) (b : RBlock) (Γ1 Λ1 Γt Λt : Gam),
  Z8E Δ nl fn Γ Λ false cnd Γ1 Λ1 → Z8B Δ nl fn Γ1 Λ1 true b Γt Λt →
  ∀ (c : Cfg) (pos : Nat) (lp : LoopCtx) (cs : List Const) (below : Array Value) (fr : List Frame) (base : Array Value)
    (acc : SVal) (accv : Value), c.ip = pos + 1 → c.ops = base.push accv → VR6 W c.μ c.st c.m.heap acc accv →
  Sc7 W Δ fn Γ Γx Λ → Inv6 W (bigScope fn Γ Γx) Λ nl c → TI.WT (c.vm W below fr) →
  CodeAt W.C pos (emitE (.whileE cnd b) pos lp cs).1 → Ext (emitE (.whileE cnd b) pos lp cs).2 W.CS → FtE W.ft Δ (.whileE cnd b) pos lp cs →
  evalLoop f cnd b acc c.st = .fuel → DivG W.C (c.vm W below fr) (hb K f (max (dE cnd) (dB b) + 1))

def DBF8 (f : Nat) : Prop := ∀ {Δ : Gam} (nl : Nat) (Γ Γx Λ : Gam) (b : RBlock) (Γ1 Λ1 : Gam), Z8B Δ nl true Γ Λ false b Γ1 Λ1 →
  ∀ (c : Cfg) (cs : List Const) (below : Array Value) (fr : List Frame), c.ops = #[] →
  Sc7 W Δ true Γ Γx Λ → Inv6 W Γx Λ nl c → TI.WT (c.vm W below fr) →
  CodeAt W.C c.ip (asFnBody b (emitB b c.ip none cs).1) → Ext (emitB b c.ip none cs).2 W.CS → FtB W.ft Δ b c.ip none cs →
  evalBV f b c.st = .fuel → DivG W.C (c.vm W below fr) (hb K f (dB b))

structure DAll8 (f : Nat) : Prop where
  e : DE8 W K f
  es : DEs8 W K f
  bv : DBV8 W K f
  s : DS8 W K f
  b : DB8 W K f
  l : DL8 W K f
  bf : DBF8 W K f
end statements

section expr
variable {W : World} {K : Nat} {Δ : Gam} {nl : Nat} {fn : Bool} {Γ Γx Λ Γ1 Λ1 Γ2 Λ2 Γ3 Λ3 : Gam} {ab : Bool} {lp : LoopCtx} {cs : List Const}
  {below : Array Value} {fr : List Frame} {c : Cfg}

/-- one sub-expression, then an operation that never runs out of fuel -/
theorem de8_unary (f : Nat) (ihd : DE8 W K f) (e1 : RExpr) (h1 : Z8E Δ nl fn Γ Λ ab e1 Γ1 Λ1) (hsc : Sc7 W Δ fn Γ Γx Λ)
    (hinv : Inv6 W (bigScope fn Γ Γx) Λ nl c) (hwt : TI.WT (c.vm W below fr))
    {d : Nat} (hd : dE e1 + 1 ≤ d) {β : Type} {k : SVal → SState → Res β} (hk : ∀ v st, k v st ≠ .fuel)
    (hc1 : CodeAt W.C c.ip (emitE e1 c.ip lp cs).1) (hext : Ext (emitE e1 c.ip lp cs).2 W.CS) (hft : FtE W.ft Δ e1 c.ip lp cs)
    (hfuel : bindR (evalE f e1 c.st) k = .fuel) : DivG W.C (c.vm W below fr) (hb K (f + 1) d) :=
  (ihd nl fn Γ Γx Λ ab e1 Γ1 Λ1 h1 c lp cs below fr hsc hinv hwt hc1 hext hft (bindR_fuel_leaf hk hfuel)).mono (hb_child hd)

/-- an expression list, then an operation that never runs out of fuel -/
theorem de8_list (f : Nat) (ihd : DEs8 W K f) (es : RExprs) (h1 : Z8Es Δ nl fn Γ Λ es Γ1 Λ1) (hsc : Sc7 W Δ fn Γ Γx Λ)
    (hinv : Inv6 W (bigScope fn Γ Γx) Λ nl c) (hwt : TI.WT (c.vm W below fr))
    {d : Nat} (hd : dEs es + 1 ≤ d) {k : List SVal → SState → Res SVal} (hk : ∀ v st, k v st ≠ .fuel)
    (hc1 : CodeAt W.C c.ip (emitEs es c.ip lp cs).1) (hext : Ext (emitEs es c.ip lp cs).2 W.CS) (hft : FtEs W.ft Δ es c.ip lp cs)
    (hfuel : bindR (evalEs f es c.st) k = .fuel) : DivG W.C (c.vm W below fr) (hb K (f + 1) d) :=
  (ihd nl fn Γ Γx Λ es Γ1 Λ1 h1 c lp cs below fr hsc hinv hwt hc1 hext hft (bindR_fuel_leaf hk hfuel)).mono (hb_child hd)

/-- two sub-expressions in sequence (the second in the scopes the first leaves), then an operation that never runs out
    of fuel -/
theorem de8_binary (f : Nat) (ih : PE8 W f) (ihd : DE8 W K f) (el er : RExpr) (hl : Z8E Δ nl fn Γ Λ ab el Γ1 Λ1)
    (hr : Z8E Δ nl fn Γ1 Λ1 false er Γ2 Λ2)
    (hsc : Sc7 W Δ fn Γ Γx Λ) (hinv : Inv6 W (bigScope fn Γ Γx) Λ nl c) (hwt : TI.WT (c.vm W below fr))
    {d : Nat} (hd : max (dE el) (dE er) + 1 ≤ d) {k : SVal → SVal → SState → Res SVal} (hk : ∀ a b st, k a b st ≠ .fuel)
    (hc1 : CodeAt W.C c.ip (emitE el c.ip lp cs).1) (hext1 : Ext (emitE el c.ip lp cs).2 W.CS) (hft1 : FtE W.ft Δ el c.ip lp cs)
    (hc2 : CodeAt W.C (c.ip + sizeE el) (emitE er (c.ip + sizeE el) lp (emitE el c.ip lp cs).2).1)
    (hext : Ext (emitE er (c.ip + sizeE el) lp (emitE el c.ip lp cs).2).2 W.CS)
    (hft2 : FtE W.ft Δ er (c.ip + sizeE el) lp (emitE el c.ip lp cs).2)
    (hfuel : bindR (evalE f el c.st) (fun a st1 => bindR (evalE f er st1) (fun b st2 => k a b st2)) = .fuel) :
    DivG W.C (c.vm W below fr) (hb K (f + 1) d) := by
  refine DivG.bind hfuel (ih nl fn Γ Γx Λ ab el Γ1 Λ1 hl c lp cs below fr hsc hinv hwt hc1 hext1 hft1) ?_ ?_
  · intro hf
    exact (ihd nl fn Γ Γx Λ ab el Γ1 Λ1 hl c lp cs below fr hsc hinv hwt hc1 hext1 hft1 hf).mono (hb_child (by omega))
  rintro a st1 - ⟨ma, μ1, m1, hma, locs1, g1, l1, out1, n1, hn1, hinv1, hk1⟩ hfuel2
  have hwt1 := wt_execN n1 _ _ hwt hn1
  have hsc1 := (sc7_ext hsc (z8e_ext el hl)).1
  refine DivG.after hn1 ?_
  have hf2 := bindR_fuel_leaf (fun b st2 => hk a b st2) hfuel2
  exact (ihd nl fn Γ1 Γx Λ1 false er Γ2 Λ2 hr ⟨μ1, st1, c.ip + sizeE el, locs1, c.ops.push ma, g1, l1, m1, out1⟩ lp (emitE el c.ip lp cs).2 below fr
    hsc1 hinv1 hwt1 hc2 hext hft2 hf2).mono (hb_child (by omega))

theorem de8_assignIndex (f : Nat) (ih : PE8 W f) (ihd : DE8 W K f) (el ei ev : RExpr) (hl : Z8E Δ nl fn Γ Λ ab el Γ1 Λ1)
    (hi : Z8E Δ nl fn Γ1 Λ1 false ei Γ2 Λ2) (hv : Z8E Δ nl fn Γ2 Λ2 false ev Γ3 Λ3) (hsc : Sc7 W Δ fn Γ Γx Λ)
    (hinv : Inv6 W (bigScope fn Γ Γx) Λ nl c) (hwt : TI.WT (c.vm W below fr))
    (hcode : CodeAt W.C c.ip (emitE (.assignIndex el ei ev) c.ip lp cs).1) (hext : Ext (emitE (.assignIndex el ei ev) c.ip lp cs).2 W.CS)
    (hft : FtE W.ft Δ (.assignIndex el ei ev) c.ip lp cs)
    (hfuel : evalE (f + 1) (.assignIndex el ei ev) c.st = .fuel) :
    DivG W.C (c.vm W below fr) (hb K (f + 1) (dE (.assignIndex el ei ev))) := by
  simp only [emitE] at hcode hext
  obtain ⟨hc123, hc4⟩ := hcode.append
  obtain ⟨hc12, hc3⟩ := hc123.append
  obtain ⟨hc1, hc2⟩ := hc12.append
  rw [emitE_size] at hc2
  simp only [codeSize_append, emitE_size, ← Nat.add_assoc] at hc3 hc4
  have hext2 : Ext (emitE ei (c.ip + sizeE el) lp (emitE el c.ip lp cs).2).2 W.CS := (emitE_ext ev _ _ _).trans hext
  have hext1 : Ext (emitE el c.ip lp cs).2 W.CS := (emitE_ext ei _ _ _).trans hext2
  rw [evalE_assignIndex] at hfuel
  have hdl : dE el + 1 ≤ dE (.assignIndex el ei ev) := by simp only [dE]; omega
  have hdi : dE ei + 1 ≤ dE (.assignIndex el ei ev) := by simp only [dE]; omega
  have hdv : dE ev + 1 ≤ dE (.assignIndex el ei ev) := by simp only [dE]; omega
  have hsc1 := (sc7_ext hsc (z8e_ext el hl)).1
  have hsc2 := (sc7_ext hsc1 (z8e_ext ei hi)).1
  refine DivG.bind hfuel (ih nl fn Γ Γx Λ ab el Γ1 Λ1 hl c lp cs below fr hsc hinv hwt hc1 hext1 hft.assignIndex.1) ?_ ?_
  · intro hf
    exact (ihd nl fn Γ Γx Λ ab el Γ1 Λ1 hl c lp cs below fr hsc hinv hwt hc1 hext1 hft.assignIndex.1 hf).mono (hb_child hdl)
  rintro a st1 - ⟨ma, μ1, m1, hma, locs1, g1, l1, out1, n1, hn1, hinv1, hk1⟩ hfuel2
  have hwt1 := wt_execN n1 _ _ hwt hn1
  refine DivG.after hn1 ?_
  refine DivG.bind (c := ⟨μ1, st1, c.ip + sizeE el, locs1, c.ops.push ma, g1, l1, m1, out1⟩) hfuel2
    (ih nl fn Γ1 Γx Λ1 false ei Γ2 Λ2 hi ⟨μ1, st1, c.ip + sizeE el, locs1, c.ops.push ma, g1, l1, m1, out1⟩ lp (emitE el c.ip lp cs).2 below fr
      hsc1 hinv1 hwt1 hc2 hext2 hft.assignIndex.2.1) ?_ ?_
  · intro hf
    exact (ihd nl fn Γ1 Γx Λ1 false ei Γ2 Λ2 hi ⟨μ1, st1, c.ip + sizeE el, locs1, c.ops.push ma, g1, l1, m1, out1⟩ lp (emitE el c.ip lp cs).2 below fr
      hsc1 hinv1 hwt1 hc2 hext2 hft.assignIndex.2.1 hf).mono (hb_child hdi)
  rintro b st2 - ⟨mb, μ2, m2, hmb, locs2, g2, l2, out2, n2, hn2, hinv2, hk2⟩ hfuel3
  have hwt2 := wt_execN n2 _ _ hwt1 hn2
  refine DivG.after hn2 ?_
  have hf3 := bindR_fuel_leaf (fun x st3 => specIndexSet_not_fuel a b x st3) hfuel3
  exact (ihd nl fn Γ2 Γx Λ2 false ev Γ3 Λ3 hv ⟨μ2, st2, c.ip + sizeE el + sizeE ei, locs2, (c.ops.push ma).push mb, g2, l2, m2, out2⟩ lp _ below fr
    hsc2 hinv2 hwt2 hc3 hext hft.assignIndex.2.2 hf3).mono (hb_child hdv)

theorem des8_succ (f : Nat) (ih : PAll8 W f) (ihd : DAll8 W K f) : DEs8 W K (f + 1) := by
  intro Δ nl fn Γ Γx Λ es Γ2 Λ2 hx c lp cs below fr hsc hinv hwt hcode hext hft hfuel
  cases hx with
  | nil => simp [evalEs] at hfuel
  | cons _ _ e rest Γ1 Λ1 _ _ he hrest =>
    simp only [emitEs] at hcode hext
    obtain ⟨hc1, hc2⟩ := hcode.append
    rw [emitE_size] at hc2
    have hext1 : Ext (emitE e c.ip lp cs).2 W.CS := (emitEs_ext rest _ _ _).trans hext
    rw [evalEs_cons] at hfuel
    refine DivG.bind hfuel (ih.e nl fn Γ Γx Λ false e Γ1 Λ1 he c lp cs below fr hsc hinv hwt hc1 hext1 hft.cons.1) ?_ ?_
    · intro hf
      exact (ihd.e nl fn Γ Γx Λ false e Γ1 Λ1 he c lp cs below fr hsc hinv hwt hc1 hext1 hft.cons.1 hf).mono (hb_child (by simp only [dEs]; omega))
    rintro v st1 - ⟨mv, μ1, m1, hmv, locs1, g1, l1, out1, n1, hn1, hinv1, hk1⟩ hfuel2
    have hwt1 := wt_execN n1 _ _ hwt hn1
    have hsc1 := (sc7_ext hsc (z8e_ext e he)).1
    refine DivG.after hn1 ?_
    have hf2 := bindR_fuel_leaf (fun vs st2 h => by cases h) hfuel2
    exact (ihd.es nl fn Γ1 Γx Λ1 rest Γ2 Λ2 hrest ⟨μ1, st1, c.ip + sizeE e, locs1, c.ops.push mv, g1, l1, m1, out1⟩ lp _ below fr
      hsc1 hinv1 hwt1 hc2 hext hft.cons.2 hf2).mono (hb_child (by simp only [dEs]; omega))

end expr
end Sim8
end Nl
