/-
  Name resolution, shared by the definitional semantics and the compiler model.

  `resolveBoth` is ONE traversal of the syntax tree, in the order of `compiler.rs`'s single pass,
  that annotates every variable occurrence with
    * the *binder id* of the declaration it denotes (unique per `stel` / parameter / function name)
      — used only by the definitional evaluator `Spec.eval`, and
    * the *slot* the symbol table of `symbols.rs` assigns (global k / local k)
      — used only by the code generator `Model.Compiler.emit`.
  All compile-time errors arise here, in traversal order, as in the Rust compiler:
  undeclared names (Reference), misplaced `stop`/`volgende` (Syntax), `antwoord` outside a
  function (Syntax, F11).
-/
import Nlmodel.Model.Value
namespace Nl

inductive Slot where
  | global (k : Nat)
  | loc (k : Nat)
  deriving DecidableEq, Repr, Inhabited

structure Ref where
  bid : Nat
  slot : Slot
  deriving DecidableEq, Repr, Inhabited

mutual
inductive RExpr where
  | infix (l : RExpr) (op : BinOp) (r : RExpr)
  | not (r : RExpr)
  | neg (r : RExpr)
  | int (v : Int)
  | float (bits : UInt64)
  | bool (b : Bool)
  | str (s : Text)
  | ifE (c : RExpr) (t : RBlock) (e : ROptBlock)
  | var (r : Ref)
  /-- `fid` identifies the function literal; `self` is the binder of a named function;
      `params` are binder ids (slots 0..n-1); `nlocals` = `max_size` of the function's context -/
  | func (fid : Nat) (self : Option Ref) (params : List Nat) (nlocals : Nat) (body : RBlock)
  | call (f : RExpr) (args : RExprs)
  | callBuiltin (b : Builtin) (args : RExprs)
  | assignVar (r : Ref) (e : RExpr)
  | assignIndex (l : RExpr) (i : RExpr) (v : RExpr)
  | arr (vs : RExprs)
  | index (l : RExpr) (i : RExpr)
  | whileE (c : RExpr) (body : RBlock)
inductive RStmt where
  | letS (r : Ref) (e : RExpr)
  | ret (e : RExpr)
  | expr (e : RExpr)
  | block (b : RBlock)
  | brk
  | cont
inductive RBlock where
  | nil
  | cons (s : RStmt) (b : RBlock)
inductive RExprs where
  | nil
  | cons (e : RExpr) (es : RExprs)
inductive ROptBlock where
  | none
  | some (b : RBlock)
end

instance : Inhabited RExpr := ⟨.bool false⟩
instance : Inhabited RBlock := ⟨.nil⟩
instance : Inhabited RExprs := ⟨.nil⟩

def RBlock.append : RBlock → RBlock → RBlock
  | .nil, c => c
  | .cons s b, c => .cons s (RBlock.append b c)

def RExprs.length : RExprs → Nat
  | .nil => 0
  | .cons _ es => es.length + 1

def RBlock.isEmpty : RBlock → Bool
  | .nil => true
  | _ => false

/-! ### the symbol table of `symbols.rs` -/

/-- one context (`symbols::Context`): scopes innermost first, names newest first, each with the
    binder id it was given -/
structure Ctx where
  isGlobal : Bool
  maxSize : Nat := 0
  scopes : List (List (Text × Nat)) := [[]]
  deriving Repr, Inhabited

def Ctx.flat (c : Ctx) : List (Text × Nat) := c.scopes.flatten

/-- `total_len` -/
def Ctx.totalLen (c : Ctx) : Nat := c.flat.length

/-- `Context::define`: the new symbol's index is `total_len() - 1` after the push -/
def Ctx.define (c : Ctx) (n : Text) (bid : Nat) : Ctx × Nat :=
  let idx := c.totalLen
  match c.scopes with
  | [] => ({ c with maxSize := c.maxSize + 1, scopes := [[(n, bid)]] }, idx)
  | s :: ss => ({ c with maxSize := c.maxSize + 1, scopes := ((n, bid) :: s) :: ss }, idx)

/-- position lookup in the flattened newest-first list: the first hit is the innermost scope's
    LAST declaration (`rposition`, F13); its index is the number of symbols declared before it -/
def lookupFlat : List (Text × Nat) → Text → Option (Nat × Nat)
  | [], _ => none
  | (m, bid) :: rest, n => if m = n then some (rest.length, bid) else lookupFlat rest n

def Ctx.resolve (c : Ctx) (n : Text) : Option (Nat × Nat) := lookupFlat c.flat n

structure RState where
  /-- contexts, current first; the last one is the global context -/
  ctxs : List Ctx := [{ isGlobal := true }]
  nextId : Nat := 0
  nextFid : Nat := 0
  loopDepth : Nat := 0
  funcDepth : Nat := 0
  deriving Repr, Inhabited

def RState.define (st : RState) (n : Text) : RState × Ref :=
  match st.ctxs with
  | [] => (st, ⟨0, .global 0⟩)
  | c :: cs =>
    let (c', idx) := c.define n st.nextId
    ({ st with ctxs := c' :: cs, nextId := st.nextId + 1 },
     ⟨st.nextId, if c.isGlobal then .global idx else .loc idx⟩)

/-- `SymbolTable::resolve`: current context, then the global context -/
def RState.resolve (st : RState) (n : Text) : Option Ref :=
  match st.ctxs with
  | [] => none
  | c :: cs =>
    match c.resolve n with
    | some (idx, bid) => some ⟨bid, if c.isGlobal then .global idx else .loc idx⟩
    | none =>
      match cs.getLast? with
      | some g =>
        match g.resolve n with
        | some (idx, bid) => some ⟨bid, .global idx⟩
        | none => none
      | none => none

def RState.enterScope (st : RState) : RState :=
  match st.ctxs with
  | [] => st
  | c :: cs => { st with ctxs := { c with scopes := [] :: c.scopes } :: cs }

def RState.leaveScope (st : RState) : RState :=
  match st.ctxs with
  | [] => st
  | c :: cs => { st with ctxs := { c with scopes := c.scopes.tail } :: cs }

def defineParams (st : RState) : List Text → RState × List Nat
  | [] => (st, [])
  | p :: ps =>
    let (st1, r) := st.define p
    let (st2, ids) := defineParams st1 ps
    (st2, r.bid :: ids)

def opToBin : Op → Option BinOp
  | .add => some .add | .sub => some .sub | .mul => some .mul | .div => some .div
  | .mod => some .mod | .gt => some .gt | .gte => some .gte | .lt => some .lt | .lte => some .lte
  | .eq => some .eq | .neq => some .neq | .and => some .and | .or => some .or
  | _ => none

mutual
def resolveE : Expr → RState → Except Err (RExpr × RState)
  | .bool b, st => .ok (.bool b, st)
  | .float x, st => .ok (.float x, st)
  | .int v, st => .ok (.int v, st)
  | .str s, st => .ok (.str s, st)
  | .ident n, st =>
    match st.resolve n with
    | some r => .ok (.var r, st)
    | none => .error .reference
  | .pre op r, st =>
    match resolveE r st with
    | .ok (r', st1) =>
      match op with
      | .negate | .sub => .ok (.neg r', st1)
      | .not => .ok (.not r', st1)
      | _ => .error .type
    | .error e => .error e
  | .assign l r, st =>
    match l with
    | .ident n =>
      match st.resolve n with
      | some ref =>
        match resolveE r st with
        | .ok (r', st1) => .ok (.assignVar ref r', st1)
        | .error e => .error e
      | none => .error .reference
    | .index a i =>
      match resolveE a st with
      | .ok (a', st1) =>
        match resolveE i st1 with
        | .ok (i', st2) =>
          match resolveE r st2 with
          | .ok (r', st3) => .ok (.assignIndex a' i' r', st3)
          | .error e => .error e
        | .error e => .error e
      | .error e => .error e
    | _ => .error .type
  | .infix l op r, st =>
    match resolveE l st with
    | .ok (l', st1) =>
      match resolveE r st1 with
      | .ok (r', st2) =>
        match opToBin op with
        | some b => .ok (.infix l' b r', st2)
        | none => .error .type     -- `compile_operator` panics on Not/Negate/Assign; unreachable from the parser
      | .error e => .error e
    | .error e => .error e
  | .ifE c t e, st =>
    match resolveE c st with
    | .ok (c', st1) =>
      match resolveB t st1 with
      | .ok (t', st2) =>
        match resolveO e st2 with
        | .ok (e', st3) => .ok (.ifE c' t' e', st3)
        | .error e => .error e
      | .error e => .error e
    | .error e => .error e
  | .whileE c b, st =>
    match resolveE c { st with loopDepth := st.loopDepth + 1 } with
    | .ok (c', st1) =>
      match resolveB b st1 with
      | .ok (b', st2) => .ok (.whileE c' b', { st2 with loopDepth := st.loopDepth })
      | .error e => .error e
    | .error e => .error e
  | .func name ps body, st =>
    -- the function's own name is defined in the ENCLOSING context, before the body is compiled
    let (st1, self) := if name.isEmpty then (st, none) else
      let (s, r) := st.define name
      (s, some r)
    -- new context with the parameters in slots 0..n-1; loop contexts do not cross (F10)
    let st2 : RState := { st1 with ctxs := { isGlobal := false } :: st1.ctxs, loopDepth := 0,
                                     funcDepth := st1.funcDepth + 1, nextFid := st1.nextFid + 1 }
    let (st3, pids) := defineParams st2 ps
    match resolveB body st3 with
    | .ok (b', st4) =>
      let nl := match st4.ctxs with | c :: _ => c.maxSize | [] => 0
      .ok (.func st1.nextFid self pids nl b',
           { st4 with ctxs := st4.ctxs.tail, loopDepth := st1.loopDepth, funcDepth := st1.funcDepth })
    | .error e => .error e
  | .call f as, st =>
    match resolveEs as st with
    | .ok (as', st1) =>
      let bi := match f with
        | .ident n => Builtin.resolve n
        | _ => none
      match bi with
      | some b => .ok (.callBuiltin b as', st1)
      | none =>
        match resolveE f st1 with
        | .ok (f', st2) => .ok (.call f' as', st2)
        | .error e => .error e
    | .error e => .error e
  | .arr vs, st =>
    match resolveEs vs st with
    | .ok (vs', st1) => .ok (.arr vs', st1)
    | .error e => .error e
  | .index l i, st =>
    match resolveE l st with
    | .ok (l', st1) =>
      match resolveE i st1 with
      | .ok (i', st2) => .ok (.index l' i', st2)
      | .error e => .error e
    | .error e => .error e

def resolveEs : Exprs → RState → Except Err (RExprs × RState)
  | .nil, st => .ok (.nil, st)
  | .cons e es, st =>
    match resolveE e st with
    | .ok (e', st1) =>
      match resolveEs es st1 with
      | .ok (es', st2) => .ok (.cons e' es', st2)
      | .error e => .error e
    | .error e => .error e

def resolveS : Stmt → RState → Except Err (RStmt × RState)
  | .expr e, st =>
    match resolveE e st with
    | .ok (e', st1) => .ok (.expr e', st1)
    | .error e => .error e
  | .block b, st =>
    match resolveB b st with
    | .ok (b', st1) => .ok (.block b', st1)
    | .error e => .error e
  | .letS n e, st =>
    let (st1, r) := st.define n
    match resolveE e st1 with
    | .ok (e', st2) => .ok (.letS r e', st2)
    | .error e => .error e
  | .ret e, st =>
    if st.funcDepth = 0 then .error .syntax
    else
      match resolveE e st with
      | .ok (e', st1) => .ok (.ret e', st1)
      | .error e => .error e
  | .brk, st => if st.loopDepth = 0 then .error .syntax else .ok (.brk, st)
  | .cont, st => if st.loopDepth = 0 then .error .syntax else .ok (.cont, st)

/-- `compile_block_statement`: a non-empty block opens a scope -/
def resolveB : Block → RState → Except Err (RBlock × RState)
  | .nil, st => .ok (.nil, st)
  | .cons s b, st =>
    match resolveS s st.enterScope with
    | .ok (s', st1) =>
      match resolveSs b st1 with
      | .ok (b', st2) => .ok (.cons s' b', st2.leaveScope)
      | .error e => .error e
    | .error e => .error e

/-- statements in sequence, no scope of their own (`compile_ast` at top level) -/
def resolveSs : Block → RState → Except Err (RBlock × RState)
  | .nil, st => .ok (.nil, st)
  | .cons s b, st =>
    match resolveS s st with
    | .ok (s', st1) =>
      match resolveSs b st1 with
      | .ok (b', st2) => .ok (.cons s' b', st2)
      | .error e => .error e
    | .error e => .error e

def resolveO : OptBlock → RState → Except Err (ROptBlock × RState)
  | .none, st => .ok (.none, st)
  | .some b, st =>
    match resolveB b st with
    | .ok (b', st1) => .ok (.some b', st1)
    | .error e => .error e
end

/-- a whole program on a fresh symbol table -/
def resolveProgram (p : Block) : Except Err RBlock :=
  match resolveSs p {} with
  | .ok (b, _) => .ok b
  | .error e => .error e

end Nl
