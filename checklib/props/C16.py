"""C16 — evaluation is a pure function of the program text.
(a) one fresh process per program, (b) random orders, repeated, in one process, (c) 16 threads with
seeded assignment, (d) dev (overflow checks, no optimisation) and release builds: all must equal,
item by item, the single outcome computed by the Lean model."""
import subprocess

from .. import core, diff, gen, lattice
from ..core import hx

PROOF_MODULE = "Nlmodel.Proofs.C16"
PROOF_FILES = ["Nlmodel/Proofs/C16.lean", "Nlmodel/Model/Session.lean", "Nlmodel/Model/Pipeline.lean", "Nlmodel/Model/VM.lean"]
THEOREM_FILE = PROOF_FILES[0]
LEVEL_TEXT = ("Partial. Lean theorems on the explicit-state model: eval(text) is exactly one line on a fresh compiler and a fresh machine, so its outcome has no input but the text; a run starts from an empty stack, no frames, no output, whatever ran before, and depends on the previous machine only through its globals and heap. What a model cannot express - thread interleavings, process-wide statics, build profiles - is decided by the correspondence: the same batch is evaluated one program per fresh process, in random orders and repeatedly in one process, concurrently from 16 threads with seeded assignment, and by a dev-profile build (overflow checks on, no optimisation) and a release build; all answers must equal, item by item, the single outcome computed by the Lean model. SESSION 7: the error TEXT (not only its kind) is compared between all runs of the implementation (harness evalm/threadsm).")
LEVEL_NOTE = ("Trusted: Lean kernel for the logic part only. Schedules are sampled (seeded), not enumerated; a data race that does not change an outcome in the sampled runs is invisible (Miri/TSan over the corpus are too slow to register as a check).")
TECHNIQUE = "Lean 4 proof (eval = fresh session in the explicit-state model) + four-way differential (process, order, threads, build profile)"
RULE = ("a batch of generated programs (incl. overflow boundaries, zero divisors, heap values, printing) evaluated 4 ways; non-trivial = "
        "distinct program whose five answers (model, fresh process, shuffled in-process, threads, dev build) were compared")


def batch(rng, tier):
    progs = []
    for _ in range(150 if tier == "quick" else 3000):
        progs.append(gen.random_program(rng.fork(), size=rng.range(5, 40))[0])
    m = lattice.MAXI
    progs += ["%d + 1" % m, "%d * 2" % m, "0 - %d - 2" % m, "1 / 0", "7 % 0", "-(0 - %d - 1)" % m, "(0 - %d - 1) / (0 - 1)" % m,
              "functie f(n) { %d - n } f(0 - 5)" % m, "functie f(n) { n * %d } f(3)" % m, "int(9223372036854775807.0)",
              "stel a = [1.5, \"x\"]; functie g() { a } g(); a[1]", "stel s = \"abc\"; s[0] = s; s", "print(0.1 + 0.2); 1.0 / 3.0",
              "stel i = 0; stel t = 0.0; zolang i < 1000 { i += 1; t = t + 0.1; }; t", "functie f(n) { als n < 1 { antwoord 0 }; n + f(n - 1) } f(300)",
              "4611686018427387904 / 4", "1152921504606846975 + 1152921504606846975", "(0 - 1152921504606846975) * 1152921504606846975"]
    # nothing survives from one evaluation to the next: a name defined by one program of the batch (variable, function,
    # function-valued variable, inside a block or a function) must be undefined in every other one, whatever ran before
    for i in range(8):
        progs += ["stel lek_%d = %d; lek_%d" % (i, i + 1, i), "lek_%d" % i, "als nee { lek_%d }; 5" % i, "functie lekf_%d() { %d }; lekf_%d()" % (i, i, i),
                  "lekf_%d()" % i, "stel lekv_%d = functie(a) { a + %d }; lekv_%d(1)" % (i, i, i), "lekv_%d(2)" % i,
                  "functie gebruikt_%d() { lek_%d }; 1" % (i, i), "stel lek_%d = \"tekst\"; [lek_%d]" % (i, i)]
    # the ERROR is part of the outcome, its text included (round 9): failing programs of every error kind with many names and
    # values in scope (a message assembled from a hash set, a pointer, a counter or a thread-local differs between evaluations)
    for k in range(6):
        names = ["teller%d" % j for j in range(1, 3 + k)] + ["tellen", "teler", "waarde%d" % k]
        decl = " ".join("stel %s = %d;" % (n, j) for j, n in enumerate(names))
        progs += [decl + " teller", decl + " functie f(teller9, teller8) { telle }; f(1, 2)", decl + " { stel teller0 = 0; tellerr }",
                  decl + " teller1 + \"x\"", decl + " [teller1, teller2][tellen + 9]", decl + " functie g(a) { a }; g(1, 2, 3)",
                  decl + " int(\"%dx\")" % k, decl + " lengte(teller1)", decl + " teller1(%d)" % k, decl + " stop",
                  decl + " [1.5, \"s\", [teller1]] < %d" % k, decl + " functie h() { h() + 1 }; h()"]
    # arithmetic that is unsigned or narrowed in the implementation (argument counts, slots, indices, lengths): the dev profile
    # has overflow checks, the release profile wraps - the outcome must not depend on it
    for np_ in range(0, 4):
        ps = ", ".join("p%d" % j for j in range(np_))
        for extra_locals in (0, 2):
            body = " ".join("stel l%d = %d;" % (j, j) for j in range(extra_locals)) + " %s" % ("p0" if np_ else "7")
            for na in range(0, np_ + extra_locals + 4):
                progs.append("functie f(%s) { %s }; f(%s)" % (ps, body, ", ".join(str(j) for j in range(na))))
    for ln in range(0, 4):
        arr = "[%s]" % ", ".join(str(j) for j in range(ln))
        st = "\"%s\"" % "abc"[:ln]
        for ix in (-9, -ln - 1, -ln, -1, 0, ln - 1, ln, ln + 1, 9, 4611686018427387903, -4611686018427387904):
            progs += ["%s[%d]" % (arr, ix), "%s[%d]" % (st, ix), "stel a = %s; a[%d] = 1; a" % (arr, ix), "stel s = %s; s[%d] = \"z\"; s" % (st, ix)]
    # nesting depths: the answer must not depend on the build profile (nor on a limit that differs between profiles)
    for d in (64, 127, 128, 129, 130, 200, 255, 256, 257, 400, 512, 600):
        progs.append("(" * d + "1" + ")" * d)
        progs.append("[" * d + "]" * d)
        progs.append("-" * d + "1")
        progs.append("!" * d + "ja")
        progs.append("als ja { " * min(d, 400) + "1" + " }" * min(d, 400))
    # values DERIVED by the interpreter (a character read out of a text, an element, the result of a builtin, a concatenation, a
    # literal) are fresh objects of the evaluation that produced them: changing one IN PLACE must not change what any later
    # evaluation — in this process, on this thread — gets when it derives "the same" value (an interned / cached object would)
    producers = ['"hallo"[0]', '"hallo"[-1]', '"kaas"[1]', 'type(1)', 'type("t")', 'string(12)', 'string(1.5)', '"a" + "b"', '"lit"', 'string(ja)',
                 '"x"[0]', 'string([1])', 'type([])', '"hallo"[0] + ""']
    for k in range(3):
        for pr in producers:
            progs.append('stel c = %s; c[0] = "Z"; c' % pr)
            progs.append('stel c = %s; c[0] = "ZZ"; [c, lengte(c)]' % pr)
            progs.append(pr)
            progs.append('[lengte(%s), %s == %s, %s]' % (pr, pr, pr, pr))
            progs.append('stel w = "hallo kaas lit"; stel i = 0; stel n = 0; zolang i < lengte(w) { als w[i] == "a" { n += 1 }; i += 1 }; [n, w[0], w[7]]')
    # WHERE THE CODE LIES must not matter: the same construct after n padding statements, for every n, so that its jump targets,
    # function entries and return addresses sweep every byte offset (both parities) of the first two KiB — a sanity check,
    # placeholder or table keyed on an absolute offset that exists in one build profile only (debug assertions, overflow checks)
    # makes one of these differ between profiles or from the model
    top = 1100 if tier == "quick" else 9000
    for n in range(0, top):
        pad = "ja;" * n
        progs.append(pad + "als ja { 7 } anders { 8 }")
        if n % 3 == 0:
            progs.append(pad + "stel i = 0; zolang i < 2 { i += 1; als i == 1 { volgende }; stop }; i")
        if n % 3 == 1:
            progs.append(pad + "functie f(a) { als a { antwoord 1 }; 2 }; f(ja) + f(nee)")
        if n % 3 == 2:
            progs.append("-1;" + pad + "als nee { 7 } anders als ja { 9 }")
    # values are rendered (print, string) while other threads render theirs: nested, shared and cyclic arrays, many times per
    # evaluation so that evaluations on different threads overlap
    shapes = ["[[1, 2], [3, 4], [5, [6, 7]]]", "[[[[1]]], [[2]], [3]]", "[\"a\", [1.5, [ja, [nee]]]]", "[[], [[]], [[], [[]]]]"]
    for k, sh in enumerate(shapes):
        progs.append("stel a = %s; stel i = 0; zolang i < 150 { i += 1; print(a); }; string(a)" % sh)
        progs.append("stel d = %s; stel a = [d, d, [d]]; stel i = 0; zolang i < 100 { i += 1; print(a, d); }; [string(a), string(d)]" % sh)
        progs.append("stel a = [%d, 0]; a[1] = a; stel i = 0; zolang i < 150 { i += 1; print(a); }; string(a)" % k)
        progs.append("stel a = [0]; stel b = [a, %s]; a[0] = b; stel i = 0; zolang i < 100 { i += 1; print(b); print(a); }; string(b)" % sh)
    return progs


def run(res, tier, rng, table_diffs=()):
    progs = batch(rng, tier)
    budget = 200000
    # the implementation answers with the error TEXT hashed in (`evalm`, `threadsm`): the same text must give the same error,
    # message included, in every setting; the model knows kinds only, so the hash is stripped for the comparison with it
    mreqs = ["eval %d %s" % (budget, hx(p)) for p in progs]
    reqs = ["evalm %d %s" % (budget, hx(p)) for p in progs]
    expected = core.model(mreqs)
    exe_rel = core.build_harness("release")
    exe_dev = core.build_harness("debug")
    ways = {}
    # (a) one fresh process per program
    fresh = []
    for q in reqs:
        p = subprocess.run([exe_rel], input=q + "\n", stdout=subprocess.PIPE, stderr=subprocess.DEVNULL, text=True, timeout=120)
        fresh.append(p.stdout.split("\n")[0] if p.stdout else "CRASH rc=%s" % p.returncode)
    ways["fresh-process"] = fresh
    # (b) random orders, repeated, in one process
    order = list(range(len(reqs))) * 3
    for i in range(len(order) - 1, 0, -1):
        j = rng.below(i + 1)
        order[i], order[j] = order[j], order[i]
    out = core.impl([reqs[k] for k in order])
    shuffled = [None] * len(reqs)
    for k, a in zip(order, out):
        if shuffled[k] is None:
            shuffled[k] = a
        elif shuffled[k] != a:
            shuffled[k] = "DIVERGED %s <> %s" % (shuffled[k], a)
    ways["shuffled-in-process"] = shuffled
    # (c) 16 threads, seeded assignment
    t = core.impl(["threadsm 16 %d %d %s" % (rng.below(2 ** 31), budget, " ".join(hx(p) for p in progs))], per_request_timeout=300)[0]
    ways["threads-16"] = t.split(" ;; ") if " ;; " in t else [t] * len(reqs)
    # (d) dev profile (no optimisation, overflow checks)
    ways["dev-build"] = core.impl(reqs, profile="debug", per_request_timeout=120)
    ways["dev-build-threads"] = (lambda s: s.split(" ;; ") if " ;; " in s else [s] * len(reqs))(
        core.impl(["threadsm 16 %d %d %s" % (rng.below(2 ** 31), budget, " ".join(hx(p) for p in progs))], profile="debug", per_request_timeout=600)[0])
    reported = 0
    for k, p in enumerate(progs):
        res.seen(p)
        answers = {w: v[k] if k < len(v) else "MISSING" for w, v in ways.items()}
        exp = expected[k]
        if exp == "BUDGET" or any(a == "BUDGET" for a in answers.values()):
            res.count("budget")
            continue
        vals = set(answers.values())
        res.count("compared")
        if any(" @m=" in a for a in vals):
            res.count("compared-error-text")
        if (len(vals) != 1 or exp not in {a.split(" @m=")[0] for a in vals}) and reported < 4:
            reported += 1
            same_impl = len(vals) == 1
            res.violation("the same text did not evaluate to the same outcome in every setting" if not same_impl
                          else "the implementation is self-consistent but differs from the model",
                          dict(kind="impure" if not same_impl else "model", input=p, expected_model=exp, answers=answers,
                               unchecked="correspondence of eval with the fresh-session model (Proofs/C16)"),
                          no_input=same_impl)
    res.coverage["ways"] = list(ways)
    # RESOURCE-HEAVY evaluations side by side (round 10): each holds 100 000+ live objects while it calls and loops; 16 threads run
    # nothing but these, so several are always alive at once - a process-wide quota, pool or counter makes one of them fail or differ
    def big(n, elem):
        return "[" + ", ".join([elem] * n) + "]"
    heavy = ["stel a = [%s, %s]; functie f(x) { lengte(x) }; stel i = 0; zolang i < 3 { i += 1; f(a) }; [f(a[0]), f(a[1]), i]" % (big(65000, '"s"'), big(65000, '"t"')),
             "stel a = [%s, [%s, 1.5]]; functie g() { 7 }; [g(), lengte(a), g()]" % (big(65000, '"x"'), big(60000, '"y"')),
             "functie h(n) { stel l = %s; als n > 0 { antwoord h(n - 1) + lengte(l) }; lengte(l) }; h(4)" % big(30000, '"z"'),
             "stel keep = []; stel k = 0; zolang k < 40000 { k += 1; keep = [keep, \"v\"] }; k"]
    hb = 3000000
    # ... and evaluations that declare MANY DISTINCT NAMES (round 11: a process-wide table of names with a capacity): 17 000 / 34 000 /
    # 60 000 declarations, then uses of the first, the middle and the last ones; the expected value is known by construction
    # (the model's resolver is quadratic in the number of names, so it is not asked)
    known = {}
    for n in (17000, 34000, 60000):
        pn = " ".join("stel naam%d_%d = %d;" % (n, i, i) for i in range(n)) + " [naam%d_0, naam%d_1, naam%d_%d, naam%d_%d]" % (n, n, n, n // 2, n, n - 1)
        known[len(heavy)] = "ok a:[i:0 i:1 i:%d i:%d] | x" % (n // 2, n - 1)
        heavy.append(pn)
    hreq = ["evalm %d %s" % (hb, hx(p)) for p in heavy]
    hexp = core.model(["eval %d %s" % (hb, hx(p)) for k, p in enumerate(heavy) if k not in known], per_request_timeout=300)
    hexp = hexp + [known[k] for k in sorted(known)]
    hfresh = []
    for q in hreq:
        pr = subprocess.run([exe_rel], input=q + "\n", stdout=subprocess.PIPE, stderr=subprocess.DEVNULL, text=True, timeout=300)
        hfresh.append(pr.stdout.split("\n")[0] if pr.stdout else "CRASH rc=%s" % pr.returncode)
    ht = core.impl(["threadsm 16 %d %d %s" % (rng.below(2 ** 31), hb, " ".join(hx(p) for p in heavy * 4))], per_request_timeout=600)[0]
    ht = ht.split(" ;; ") if " ;; " in ht else [ht] * (len(heavy) * 4)
    for k, p in enumerate(heavy):
        res.seen(p[:200] + str(len(p)))
        res.count("heavy-compared")
        got = {hfresh[k]} | {ht[j] for j in range(k, len(ht), len(heavy))}
        if (len(got) != 1 or hexp[k] not in {g.split(" @m=")[0] for g in got}) and hexp[k] != "BUDGET" and not hexp[k].startswith(("TIMEOUT", "CRASH")):
            res.violation("a resource-heavy program evaluates differently when other evaluations are alive in the same process",
                          dict(kind="impure", input=p, budget=hb, heavy=True, expected_model=hexp[k][:300],
                               answers={"fresh-process": hfresh[k][:300], "threads-16": sorted(x[:300] for x in got)}))


def replay(res, rp):
    p = rp["input"]
    bud = rp.get("budget", 200000)
    q = "evalm %d %s" % (bud, hx(p))
    a = core.impl([q], per_request_timeout=300)[0]
    b = core.impl([q], profile="debug", per_request_timeout=600)[0]
    c = core.impl(["threadsm 16 7 %d %s" % (bud, " ".join([hx(p)] * (16 if rp.get("heavy") else 4)))], per_request_timeout=600)[0].split(" ;; ")[0]
    m = rp["expected_model"].split(" @m=")[0] if rp.get("heavy") and len(p) > 500000 else core.model(["eval %d %s" % (bud, hx(p))], per_request_timeout=600)[0]
    print(a, "|", b, "|", c, "|", m)
    if len({a, b, c}) != 1 or a.split(" @m=")[0] != m:
        print("VIOLATION property=C16 replay=replay")
        return 1
    return 0
