/- NameEvalFn vs Spec.eval: the state relation `R` is kept by the environment operations (lookup, assignment, `stel`,
   entering/leaving a block, entering/leaving a call). -/
import Nlmodel.Proofs.Lemmas.NameEvalFnEnv
import Nlmodel.Proofs.Lemmas.NameEvalFnTopEnv
import Nlmodel.Proofs.Lemmas.NameEvalFnParams
namespace Nl
namespace NameEvalFn
open Spec SimF Sim
open NameEval (All2 findBid bids)

theorem topOf_push (scs : Scs) (h : scs ≠ []) : topOf ([] :: scs) = topOf scs := by
  cases scs with
  | nil => exact absurd rfl h
  | cons a b => rfl

theorem topOf_tail (sc : List (Text × Nat)) (scs : Scs) (h : scs ≠ []) : topOf (sc :: scs) = topOf scs := by
  cases scs with
  | nil => exact absurd rfl h
  | cons a b => rfl

theorem topOf_define (n : Text) (id : Nat) (sc : List (Text × Nat)) (scs : Scs) :
    topOf (sc :: scs) <:+ topOf (((n, id) :: sc) :: scs) := by
  cases scs with
  | nil => exact ⟨[(n, id)], rfl⟩
  | cons a b => exact List.suffix_refl _

/-- what `resolve` answers at top level -/
theorem resolve_top (st : RState) (scs : Scs) (F : Nat) (h : RInv false st scs [] F) (n : Text) :
    (findBid scs.flatten n = none → st.resolve n = none) ∧
    (∀ b, findBid scs.flatten n = some b → ∃ k, st.resolve n = some ⟨b, .global k⟩) := by
  obtain ⟨ms, hs⟩ := h.shapeF rfl
  unfold RState.resolve
  rw [hs]
  simp only [Ctx.resolve, Ctx.flat]
  rw [← NameEval.lookupFlat_findBid]
  cases hl : lookupFlat scs.flatten n with
  | none => simp [List.getLast?]
  | some p => obtain ⟨idx, bid⟩ := p; simp

/-- what `resolve` answers in a body: the function's context first, then the global context -/
theorem resolve_body (st : RState) (scs : Scs) (gsc : List (Text × Nat)) (F : Nat) (h : RInv true st scs [gsc] F) (n : Text) :
    (∀ b, findBid scs.flatten n = some b → ∃ k, st.resolve n = some ⟨b, .loc k⟩) ∧
    (findBid scs.flatten n = none →
      (findBid gsc n = none → st.resolve n = none) ∧
      (∀ b, findBid gsc n = some b → ∃ k, st.resolve n = some ⟨b, .global k⟩)) := by
  obtain ⟨ms, gms, hs, _, _⟩ := h.shapeT rfl
  unfold RState.resolve
  rw [hs]
  simp only [Ctx.resolve, Ctx.flat, List.flatten_cons, List.flatten_nil, List.append_nil]
  rw [← NameEval.lookupFlat_findBid, ← NameEval.lookupFlat_findBid]
  cases hl : lookupFlat scs.flatten n with
  | some p => obtain ⟨idx, bid⟩ := p; simp
  | none =>
    cases hg : lookupFlat gsc n with
    | none => simp [List.getLast?, hg]
    | some p => obtain ⟨idx, bid⟩ := p; simp [List.getLast?, hg]

theorem lookup_global (σ : SState) (b k : Nat) : σ.lookup ⟨b, .global k⟩ = envGet σ.genv b := by
  simp [SState.lookup, isGlobalSlot]
theorem lookup_loc (σ : SState) (b k : Nat) : σ.lookup ⟨b, .loc k⟩ = envGet σ.lenv b := by
  simp [SState.lookup, isGlobalSlot]
theorem bind_global (σ : SState) (b k : Nat) (v : SVal) : σ.bind ⟨b, .global k⟩ v = { σ with genv := envSet σ.genv b v } := by
  simp [SState.bind, isGlobalSlot]
theorem bind_loc (σ : SState) (b k : Nat) (v : SVal) : σ.bind ⟨b, .loc k⟩ v = { σ with lenv := envSet σ.lenv b v } := by
  simp [SState.bind, isGlobalSlot]
theorem unbind_global (σ : SState) (b k : Nat) : σ.unbind ⟨b, .global k⟩ = { σ with genv := envDel σ.genv b } := by
  simp [SState.unbind, isGlobalSlot]
theorem unbind_loc (σ : SState) (b k : Nat) : σ.unbind ⟨b, .loc k⟩ = { σ with lenv := envDel σ.lenv b } := by
  simp [SState.unbind, isGlobalSlot]

/-- (o1) an identifier the resolver accepts means corresponding things on both sides -/
theorem R.lookup {fn : Bool} {ρ : FState} {scs gscs Tb : Scs} {σ : SState} {N F : Nat} {st : RState}
    (hinv : RInv fn st scs gscs F) (hr : R fn ρ scs gscs Tb σ N) (n : Text) (r : Ref) (hres : st.resolve n = some r) :
    ∃ ov, ρ.lookup n = some ov ∧ ORel (topOf (TT fn scs Tb)) (σ.lookup r) ov := by
  obtain ⟨hg, hl⟩ := hr
  cases fn with
  | false =>
    obtain ⟨hv, _⟩ := hl
    have hgs : gscs = [] ∨ True := .inr trivial
    have hinv' : RInv false st scs [] F := ⟨hinv.shapeF, (fun hc => by cases hc), hinv.fresh, hinv.fid⟩
    obtain ⟨r1, r2⟩ := resolve_top st scs F hinv' n
    have hlk := lookup_rel hg.glob n
    simp only [TT] at hlk hg ⊢
    cases hf : findBid scs.flatten n with
    | none => rw [r1 hf] at hres; cases hres
    | some b =>
      obtain ⟨k, hk⟩ := r2 b hf
      rw [hk] at hres; injection hres with hres; subst hres
      rw [hf] at hlk
      obtain ⟨ov, h1, h2⟩ := hlk
      exact ⟨ov, by simp only [FState.lookup, hv, h1], by rw [lookup_global]; exact h2⟩
  | true =>
    obtain ⟨gsc, rfl, hv, hloc, hsuf, _⟩ := hl
    obtain ⟨r1, r2⟩ := resolve_body st scs gsc F hinv n
    have hlk := lookup_rel hloc n
    simp only [TT] at hlk hg hsuf hloc ⊢
    cases hf : findBid scs.flatten n with
    | some b =>
      obtain ⟨k, hk⟩ := r1 b hf
      rw [hk] at hres; injection hres with hres; subst hres
      rw [hf] at hlk
      obtain ⟨ov, h1, h2⟩ := hlk
      exact ⟨ov, by simp only [FState.lookup, hv, h1], by rw [lookup_loc]; exact h2⟩
    | none =>
      rw [hf] at hlk
      obtain ⟨r3, r4⟩ := r2 hf
      have htop := lookupTop_rel hg.glob gsc hsuf n
      cases hfg : findBid gsc n with
      | none => rw [r3 hfg] at hres; cases hres
      | some b =>
        obtain ⟨k, hk⟩ := r4 b hfg
        rw [hk] at hres; injection hres with hres; subst hres
        rw [hfg] at htop
        obtain ⟨ov, h1, h2⟩ := htop
        exact ⟨ov, by simp only [FState.lookup, hv, hlk, h1], by rw [lookup_global]; exact h2⟩

/-- (o2) assignment through a name = `bind` of the reference the resolver found for it -/
theorem R.assign {fn : Bool} {ρ : FState} {scs gscs Tb : Scs} {σ : SState} {N F : Nat} {st : RState}
    (hinv : RInv fn st scs gscs F) (hr : R fn ρ scs gscs Tb σ N) (n : Text) (r : Ref) (hres : st.resolve n = some r)
    (v : NVal) (w : SVal) (hvw : VRel (topOf (TT fn scs Tb)) v w) :
    ∃ ρ2, ρ.assign n v = some ρ2 ∧ R fn ρ2 scs gscs Tb (σ.bind r w) N := by
  obtain ⟨hg, hl⟩ := hr
  cases fn with
  | false =>
    obtain ⟨hv, hlo⟩ := hl
    have hinv' : RInv false st scs [] F := ⟨hinv.shapeF, (fun hc => by cases hc), hinv.fresh, hinv.fid⟩
    obtain ⟨r1, r2⟩ := resolve_top st scs F hinv' n
    simp only [TT] at hg hvw ⊢
    obtain ⟨u1, u2⟩ := update_rel hg.glob n v w hvw hg.ndT
    cases hf : findBid scs.flatten n with
    | none => rw [r1 hf] at hres; cases hres
    | some b =>
      obtain ⟨k, hk⟩ := r2 b hf
      rw [hk] at hres; injection hres with hres; subst hres
      obtain ⟨gs2, h1, h2⟩ := u2 b hf
      refine ⟨{ ρ with globals := gs2 }, by simp only [FState.assign, hv, h1], ?_⟩
      rw [bind_global]
      exact ⟨⟨h2, hg.ndT, hg.neT, hg.last, hg.out, hg.nfun⟩, ⟨hv, hlo⟩⟩
  | true =>
    obtain ⟨gsc, rfl, hv, hloc, hsuf, hndl⟩ := hl
    obtain ⟨r1, r2⟩ := resolve_body st scs gsc F hinv n
    simp only [TT] at hg hvw hsuf hloc ⊢
    obtain ⟨u1, u2⟩ := update_rel hloc n v w hvw hndl
    cases hf : findBid scs.flatten n with
    | some b =>
      obtain ⟨k, hk⟩ := r1 b hf
      rw [hk] at hres; injection hres with hres; subst hres
      obtain ⟨ls2, h1, h2⟩ := u2 b hf
      refine ⟨{ ρ with locals := ls2 }, by simp only [FState.assign, hv, h1], ?_⟩
      rw [bind_loc]
      exact ⟨⟨hg.glob, hg.ndT, hg.neT, hg.last, hg.out, hg.nfun⟩, ⟨gsc, rfl, hv, h2, hsuf, hndl⟩⟩
    | none =>
      obtain ⟨r3, r4⟩ := r2 hf
      obtain ⟨t1, t2⟩ := updateTop_rel hg.glob hg.ndT gsc hsuf n v w hvw
      cases hfg : findBid gsc n with
      | none => rw [r3 hfg] at hres; cases hres
      | some b =>
        obtain ⟨k, hk⟩ := r4 b hfg
        rw [hk] at hres; injection hres with hres; subst hres
        obtain ⟨gs2, h1, h2⟩ := t2 b hfg
        refine ⟨{ ρ with globals := gs2 }, by simp only [FState.assign, hv, u1 hf, h1], ?_⟩
        rw [bind_global]
        exact ⟨⟨h2, hg.ndT, hg.neT, hg.last, hg.out, hg.nfun⟩, ⟨gsc, rfl, hv, hloc, hsuf, hndl⟩⟩

theorem R.setLast {fn : Bool} {ρ : FState} {scs gscs Tb : Scs} {σ : SState} {N : Nat} (hr : R fn ρ scs gscs Tb σ N)
    (v : NVal) (w : SVal) (hvw : VRel (topOf (TT fn scs Tb)) v w) :
    R fn { ρ with last := v } scs gscs Tb { σ with last := w } N := by
  obtain ⟨hg, hl⟩ := hr
  refine ⟨⟨hg.glob, hg.ndT, hg.neT, hvw, hg.out, hg.nfun⟩, ?_⟩
  cases fn with
  | false => exact hl
  | true => exact hl

/-- (o4) entering a block -/
theorem R.push {fn : Bool} {ρ : FState} {scs gscs Tb : Scs} {σ : SState} {N : Nat} (hr : R fn ρ scs gscs Tb σ N) :
    R fn ρ.push ([] :: scs) gscs Tb σ N := by
  obtain ⟨hg, hl⟩ := hr
  cases fn with
  | false =>
    obtain ⟨hv, hlo⟩ := hl
    have hp : ρ.push = { ρ with globals := [] :: ρ.globals } := by
      simp only [FState.push, FState.setCur, FState.cur, hv]
    rw [hp]
    have hg' : RGl scs ρ σ N := hg
    have ht := topOf_push scs hg'.neT
    refine ⟨?_, ⟨hv, hlo⟩⟩
    show RGl ([] :: scs) _ σ N
    refine ⟨?_, ?_, (by simp), ?_, hg'.out, hg'.nfun⟩
    · rw [ht]; exact .cons .nil hg'.glob
    · simpa [bids] using hg'.ndT
    · rw [ht]; exact hg'.last
  | true =>
    obtain ⟨gsc, rfl, hv, hloc, hsuf, hndl⟩ := hl
    have hp : ρ.push = { ρ with locals := [] :: ρ.locals } := by
      simp only [FState.push, FState.setCur, FState.cur, hv]
    rw [hp]
    have hg' : RGl Tb ρ σ N := hg
    refine ⟨?_, ⟨gsc, rfl, hv, .cons .nil hloc, hsuf, ?_⟩⟩
    · show RGl Tb _ σ N
      exact ⟨hg'.glob, hg'.ndT, hg'.neT, hg'.last, hg'.out, hg'.nfun⟩
    · simpa [bids] using hndl

/-- (o4) leaving a block -/
theorem R.pop {fn : Bool} {ρ : FState} {sc : List (Text × Nat)} {scs gscs Tb : Scs} {σ : SState} {N : Nat}
    (hr : R fn ρ (sc :: scs) gscs Tb σ N) (hne : fn = false → scs ≠ []) : R fn ρ.pop scs gscs Tb σ N := by
  obtain ⟨hg, hl⟩ := hr
  cases fn with
  | false =>
    obtain ⟨hv, hlo⟩ := hl
    simp only [TT] at hg ⊢
    have ht := topOf_tail sc scs (hne rfl)
    obtain ⟨hglob, hnd, _, hlast, hout, hnf⟩ := hg
    obtain ⟨gl, lo, vi, la, ou, nf⟩ := ρ
    simp only at hv hlo hglob hlast hout hnf
    subst hv
    cases hglob with
    | cons hd htl =>
      rw [ht] at htl hlast
      refine ⟨⟨htl, ?_, hne rfl, hlast, hout, hnf⟩, ⟨rfl, hlo⟩⟩
      simp only [bids, List.flatten_cons, List.map_append] at hnd ⊢
      exact (List.nodup_append.mp hnd).2.1
  | true =>
    obtain ⟨gsc, rfl, hv, hloc, hsuf, hndl⟩ := hl
    simp only [TT] at hg hloc hsuf ⊢
    obtain ⟨gl, lo, vi, la, ou, nf⟩ := ρ
    simp only at hv hloc
    subst hv
    cases hloc with
    | cons hd htl =>
      refine ⟨⟨hg.glob, hg.ndT, hg.neT, hg.last, hg.out, hg.nfun⟩, ⟨gsc, rfl, rfl, htl, hsuf, ?_⟩⟩
      simp only [bids, List.flatten_cons, List.map_append] at hndl ⊢
      exact (List.nodup_append.mp hndl).2.1

theorem relS_declare {G : List (Text × Nat)} {env : List (Nat × SVal)} {g : Scope} {gs : List Scope} {sc : List (Text × Nat)} {scs : Scs}
    (h : RelS G env (g :: gs) (sc :: scs)) (id : Nat) (hfresh : ∀ b ∈ bids (sc :: scs), b ≠ id) (n : Text) :
    RelS G (envDel env id) (((n, none) :: g) :: gs) (((n, id) :: sc) :: scs) := by
  have h' := relS_congr (env' := envDel env id) h (fun b hb => envGet_envDel_other _ _ _ (hfresh b hb))
  cases h' with
  | cons hd htl =>
    refine .cons (.cons ⟨rfl, ?_⟩ hd) htl
    show ORel G (envGet (envDel env id) id) none
    rw [envGet_envDel_same]; exact True.intro

theorem fresh_bids {fn : Bool} {st : RState} {scs gscs : Scs} {F : Nat} (h : RInv fn st scs gscs F) : ∀ b ∈ bids scs, b ≠ st.nextId := by
  intro b hb
  simp only [bids, List.mem_map] at hb
  obtain ⟨p, hp, rfl⟩ := hb
  have := h.fresh p hp
  omega

theorem nodup_define {fn : Bool} {st : RState} {sc : List (Text × Nat)} {scs gscs : Scs} {F : Nat} (h : RInv fn st (sc :: scs) gscs F)
    (hnd : (bids (sc :: scs)).Nodup) (n : Text) : (bids (((n, st.nextId) :: sc) :: scs)).Nodup := by
  have : bids (((n, st.nextId) :: sc) :: scs) = st.nextId :: bids (sc :: scs) := by simp [bids]
  rw [this]
  exact List.nodup_cons.mpr ⟨fun hm => fresh_bids h _ hm rfl, hnd⟩

/-- (o3) `stel n`: the resolver gives `n` the fresh binder; the semantics forgets any stale value of that binder -/
theorem R.declare {fn : Bool} {ρ : FState} {sc : List (Text × Nat)} {scs gscs Tb : Scs} {σ : SState} {N F : Nat} {st : RState}
    (hinv : RInv fn st (sc :: scs) gscs F) (hr : R fn ρ (sc :: scs) gscs Tb σ N) (n : Text) :
    R fn (ρ.declare n) (((n, st.nextId) :: sc) :: scs) gscs Tb (σ.unbind (st.define n).2) N := by
  obtain ⟨hg, hl⟩ := hr
  have hfr := fresh_bids hinv
  cases fn with
  | false =>
    obtain ⟨hv, hlo⟩ := hl
    have hg' : RGl (sc :: scs) ρ σ N := hg
    rw [rinv_define_refF st sc scs gscs F hinv n, unbind_global]
    obtain ⟨hglob, hnd, _, hlast, hout, hnf⟩ := hg'
    obtain ⟨gl, lo, vi, la, ou, nf⟩ := ρ
    simp only at hv hlo hglob hlast hout hnf
    subst hv
    have hsuf := topOf_define n st.nextId sc scs
    have hglob' := relS_mono hsuf hglob
    cases gl with
    | nil => cases hglob'
    | cons g gs =>
      refine ⟨?_, ⟨rfl, hlo⟩⟩
      show RGl (((n, st.nextId) :: sc) :: scs) _ _ N
      exact ⟨relS_declare hglob' st.nextId hfr n, nodup_define hinv hnd n, by simp, hlast.mono hsuf, hout, hnf⟩
  | true =>
    obtain ⟨gsc, rfl, hv, hloc, hsuf, hndl⟩ := hl
    have hg' : RGl Tb ρ σ N := hg
    have hloc' : RelS (topOf Tb) σ.lenv ρ.locals (sc :: scs) := hloc
    rw [(rinv_define_refT st sc scs [gsc] F hinv n).1, unbind_loc]
    obtain ⟨gl, lo, vi, la, ou, nf⟩ := ρ
    simp only at hv hloc'
    subst hv
    cases lo with
    | nil => cases hloc'
    | cons l ls =>
      refine ⟨?_, ⟨gsc, rfl, rfl, relS_declare hloc' st.nextId hfr n, hsuf, nodup_define hinv hndl n⟩⟩
      show RGl Tb _ _ N
      exact ⟨hg'.glob, hg'.ndT, hg'.neT, hg'.last, hg'.out, hg'.nfun⟩

/-- the resolver state on entry to a function literal read at top level -/
theorem rinv_fnEnter (st1 : RState) (sc1 : List (Text × Nat)) (F : Nat) (hinv : RInv false st1 [sc1] [] F) :
    RInv true (fnEnter st1) [[]] [sc1] (F + 1) := by
  obtain ⟨gms, hs⟩ := hinv.shapeF rfl
  refine ⟨(fun hc => by cases hc), fun _ => ⟨0, gms, (by simp [fnEnter, hs]), (by simp), ?_⟩, (by simp), (by simp [fnEnter, hinv.fid])⟩
  intro p hp
  exact hinv.fresh p hp

/-- (o6) entering a call: a fresh activation with the parameters; the callee sees the part `sc1` of the top-level scope -/
theorem R.enterCall {fn : Bool} {ρ : FState} {scs gscs Tb : Scs} {σ : SState} {N : Nat} (hr : R fn ρ scs gscs Tb σ N)
    (st1 : RState) (sc1 : List (Text × Nat)) (F : Nat) (ps : List Text) (hinv1 : RInv false st1 [sc1] [] F)
    (hsuf : sc1 <:+ topOf (TT fn scs Tb)) (xs : List NVal) (ws : List SVal) (hxs : All2 (VRel (topOf (TT fn scs Tb))) xs ws) :
    RInv true (defineParams (fnEnter st1) ps).1 [pscFrom [] (fnEnter st1).nextId ps] [sc1] (F + 1) ∧
    R true (enterCall ρ sc1.length ps xs) [pscFrom [] (fnEnter st1).nextId ps] [sc1] (TT fn scs Tb)
      { σ with lenv := bindParams (defineParams (fnEnter st1) ps).2 ws } N := by
  obtain ⟨h3, hpids⟩ := defineParams_shape ps (fnEnter st1) [] [sc1] (F + 1) (rinv_fnEnter st1 sc1 F hinv1)
  obtain ⟨hp1, hp2⟩ := params_rel (topOf (TT fn scs Tb)) ps (fnEnter st1).nextId xs ws hxs
  refine ⟨h3, ?_, ⟨sc1, rfl, rfl, ?_, hsuf, ?_⟩⟩
  · show RGl (TT fn scs Tb) _ _ N
    exact ⟨hr.g.glob, hr.g.ndT, hr.g.neT, hr.g.last, hr.g.out, hr.g.nfun⟩
  · rw [hpids]; exact .cons hp1 .nil
  · simpa [bids] using hp2

/-- (o6) leaving a call: the caller's activation is put back -/
theorem R.restore {fn : Bool} {ρ : FState} {scs gscs Tb : Scs} {σ : SState} {N : Nat} (hr : R fn ρ scs gscs Tb σ N)
    (ρ3 : FState) (σ3 : SState) (hg3 : RGl (TT fn scs Tb) ρ3 σ3 N) :
    R fn { ρ3 with locals := ρ.locals, vis := ρ.vis } scs gscs Tb { σ3 with lenv := σ.lenv } N := by
  refine ⟨⟨hg3.glob, hg3.ndT, hg3.neT, hg3.last, hg3.out, hg3.nfun⟩, ?_⟩
  have hl := hr.l
  cases fn with
  | false => exact hl
  | true => exact hl

end NameEvalFn
end Nl
