/- C10 "whether a variable lives at top level or inside a function is unobservable", definitional side:
   wrapping a closed stage-3 program `s1; ..; sn; e` into `functie hoofd() { s1; ..; sn; e }  hoofd()` does
   not change its definitional meaning (`wrap_same_meaning`). -/
import Nlmodel.Proofs.Lemmas.WrapEval
import Nlmodel.Proofs.Lemmas.WrapResolve
import Nlmodel.Proofs.Lemmas.SpecMono
import Nlmodel.Proofs.Lemmas.SpecLast
namespace Nl
namespace Wrap
open Spec Sim

/-! ### the transformation -/

def hoofd : Text := "hoofd".toList

/-- `functie nm() { p }  nm()` as the parser builds it -/
def wrapAs (nm : Text) (p : Block) : Block :=
  .cons (.expr (.func nm [] p)) (.cons (.expr (.call (.ident nm) .nil)) .nil)

def wrap (p : Block) : Block := wrapAs hoofd p

/-- the last statement of the block is an expression statement -/
inductive LastExpr : Block → Prop where
  | one (e : Expr) : LastExpr (.cons (.expr e) .nil)
  | cons (s : Stmt) (b : Block) : LastExpr b → LastExpr (.cons s b)

inductive RLastExpr : RBlock → Prop where
  | one (e : RExpr) : RLastExpr (.cons (.expr e) .nil)
  | cons (s : RStmt) (b : RBlock) : RLastExpr b → RLastExpr (.cons s b)

/-- the resolved tree of `functie nm() { p }  nm()` -/
def wrapped (nl : Nat) (body : RBlock) : RBlock :=
  .cons (.expr (.func 0 (some ⟨0, .global 0⟩) [] nl body))
    (.cons (.expr (.call (.var ⟨0, .global 0⟩) .nil)) .nil)

/-! ### the resolver on the wrapped program -/

theorem lastExpr_resolve {p : Block} (hl : LastExpr p) : ∀ (a : RState) (r : RBlock) (a' : RState),
    resolveSs p a = .ok (r, a') → RLastExpr r := by
  induction hl with
  | one e =>
    intro a r a' h
    simp only [resolveSs, resolveS] at h
    cases hr : resolveE e a with
    | error er => simp [hr] at h
    | ok q =>
      obtain ⟨e1, a1⟩ := q
      simp only [hr] at h
      injection h with h; injection h with h1 h2; subst h1
      exact .one e1
  | cons s b _ ih =>
    intro a r a' h
    simp only [resolveSs] at h
    cases hr : resolveS s a with
    | error er => simp [hr] at h
    | ok q =>
      obtain ⟨s1, a1⟩ := q
      simp only [hr] at h
      cases hr2 : resolveSs b a1 with
      | error er => simp [hr2] at h
      | ok q2 =>
        obtain ⟨b1, a2⟩ := q2
        simp only [hr2] at h
        injection h with h; injection h with h1 h2; subst h1
        exact .cons s1 b1 (ih a1 b1 a2 hr2)

/-- a non-empty block = its statements in a scope of their own -/
theorem resolveB_cons_eq (s : Stmt) (rest : Block) (st : RState) :
    resolveB (.cons s rest) st =
      (match resolveSs (.cons s rest) st.enterScope with
       | .ok (b', st2) => .ok (b', st2.leaveScope)
       | .error e => .error e) := by
  simp only [resolveB, resolveSs]
  cases resolveS s st.enterScope with
  | error e => rfl
  | ok q =>
    obtain ⟨s1, st1⟩ := q
    simp only
    cases resolveSs rest st1 with
    | error e => rfl
    | ok q2 => rfl

/-- the resolver state in which the body of `functie nm() {..}` (first statement of a program) is resolved -/
def bodyState (nm : Text) : RState :=
  { ctxs := [{ isGlobal := false }, { isGlobal := true, maxSize := 1, scopes := [[(nm, 0)]] }],
    nextId := 1, nextFid := 1, loopDepth := 0, funcDepth := 1 }

theorem resolve_func (nm : Text) (hne : nm.isEmpty = false) (p : Block) :
    resolveE (.func nm [] p) {} =
      (match resolveB p (bodyState nm) with
       | .ok (b', st4) =>
         .ok (.func 0 (some ⟨0, .global 0⟩) [] (match st4.ctxs with | c :: _ => c.maxSize | [] => 0) b',
              { st4 with ctxs := st4.ctxs.tail, loopDepth := 0, funcDepth := 0 })
       | .error e => .error e) := by
  simp only [resolveE, hne, Bool.false_eq_true, ↓reduceIte, defineParams]
  rfl

theorem resolve_wrap (nm : Text) (hne : nm.isEmpty = false) (hbi : Builtin.resolve nm = none) (p : Block)
    (hs : SB false p) (hl : LastExpr p) (r : RBlock) (h : resolveProgram p = .ok r) :
    ∃ nl body, resolveProgram (wrapAs nm p) = .ok (wrapped nl body) ∧ TB 1 r body ∧ RLastExpr r := by
  unfold resolveProgram at h
  cases hr : resolveSs p {} with
  | error er => simp [hr] at h
  | ok q =>
    obtain ⟨r0, a'⟩ := q
    simp only [hr] at h
    injection h with h; subst h
    have hrr : RR 1 [{ isGlobal := true, maxSize := 1, scopes := [[(nm, 0)]] }] {} (bodyState nm).enterScope [[]] :=
      ⟨⟨0, rfl⟩, ⟨0, rfl⟩, rfl, rfl⟩
    obtain ⟨body, b', sc', hb, htb, hrr'⟩ := wSs 1 _ p false [] [] {} _ r0 a' hs hrr hr
    obtain ⟨ms, hctx⟩ := hrr'.hb
    have hB : resolveB p (bodyState nm) = .ok (body, b'.leaveScope) := by
      cases hl with
      | one e => rw [resolveB_cons_eq, hb]
      | cons s b _ => rw [resolveB_cons_eq, hb]
    have hctx' : b'.leaveScope.ctxs =
        [{ isGlobal := false, maxSize := ms, scopes := (fscopes 1 [sc']).tail },
         { isGlobal := true, maxSize := 1, scopes := [[(nm, 0)]] }] := by
      simp [RState.leaveScope, hctx]
    refine ⟨ms, body, ?_, htb, lastExpr_resolve hl _ _ _ hr⟩
    unfold resolveProgram
    simp only [wrapAs, resolveSs, resolveS]
    rw [resolve_func nm hne, hB]
    simp only [hctx', List.tail_cons, resolveE, resolveEs, hbi]
    simp [RState.resolve, Ctx.resolve, Ctx.flat, lookupFlat, wrapped]

/-! ### the evaluator on the wrapped program -/

theorem tail_sim (δ : Nat) (G : List (Nat × SVal)) {r : RBlock} (hl : RLastExpr r) :
    ∀ (body : RBlock) (n : Nat) (s : SState), TB δ r body →
    match evalB n r s with
    | .val () s' => ∃ s1, evalBV n body (Phi δ G s) = .val s'.last s1 ∧ s1.out = s'.out ∧ s1.store = s'.store
    | .err e s' => ∃ s1, evalBV n body (Phi δ G s) = .err e s1 ∧ s1.out = s'.out
    | _ => True := by
  induction hl with
  | one e =>
    intro body n s ht
    cases ht with
    | cons _ x' _ r' hx hr =>
      cases hr
      cases hx with
      | expr _ e' he =>
        cases n with
        | zero => simp only [evalB]
        | succ n =>
          cases n with
          | zero => simp only [evalB, evalS]
          | succ m =>
            simp only [evalB, evalS, evalBV, (evAll δ G (m + 1)).e _ _ s he]
            rcases (mono m).e e s with hm | hm
            · simp only [hm]
            · rw [← hm]
              cases evalE m e s with
              | val v s1 => exact ⟨_, rfl, rfl, rfl⟩
              | err er s1 => exact ⟨_, rfl, rfl⟩
              | _ => trivial
  | cons x b hb ih =>
    intro body n s ht
    cases ht with
    | cons _ x' _ b' hx hr =>
      cases n with
      | zero => simp only [evalB]
      | succ n =>
        have hbv : evalBV (n + 1) (.cons x' b') (Phi δ G s) = liftU (evalS n x' (Phi δ G s)) (fun st1 => evalBV n b' st1) := by
          cases hr with
          | nil => cases hb
          | cons _ _ _ _ _ _ => exact evalBV_seq _ _ _ _ _
        rw [hbv, (evAll δ G n).s _ _ s hx]
        simp only [evalB]
        cases evalS n x s with
        | val u s1 => exact ih b' n s1 hr
        | err er s1 => exact ⟨_, rfl, rfl⟩
        | _ => trivial

/-- the function value `hoofd` is bound to -/
def fnv (nl : Nat) (body : RBlock) : SVal := .fn 0 [] nl body

/-- the state in which the body of the called function starts -/
def callState (nl : Nat) (body : RBlock) : SState :=
  { genv := [(0, fnv nl body)], lenv := [], store := #[], last := fnv nl body, out := [] }

theorem eval_wrapped (F nl : Nat) (body : RBlock) :
    evalB (F + 5) (wrapped nl body) {} =
      (match evalBV (F + 1) body (callState nl body) with
       | .val v st3 => .val () { st3 with lenv := [], last := v }
       | .ret v st3 => .val () { st3 with lenv := [], last := v }
       | .brk st3 => .unspec st3
       | .cont st3 => .unspec st3
       | .err e st3 => .err e st3
       | .unspec st3 => .unspec st3
       | .fuel => .fuel) := by
  have hlk : ({ genv := envSet [] 0 (fnv nl body), last := fnv nl body } : SState).lookup ⟨0, .global 0⟩ = some (fnv nl body) := rfl
  simp only [wrapped, evalB, evalS, evalE, evalEs, SState.bind, isGlobalSlot, ↓reduceIte]
  rw [show (SVal.fn 0 [] nl body) = fnv nl body from rfl, hlk]
  simp only [fnv, List.length_nil, gt_iff_lt, Nat.not_lt_zero, ↓reduceIte, bindParams]
  have hst : ({ genv := envSet [] 0 (SVal.fn 0 [] nl body), lenv := [], last := SVal.fn 0 [] nl body } : SState) = callState nl body := rfl
  rw [hst]
  cases evalBV (F + 1) body (callState nl body) <;> rfl

theorem eqvR_val {α : Type} {r : Res α} {v : α} {s1 : SState} (h : SL.EqvR r (.val v s1)) :
    ∃ s1', r = .val v s1' ∧ s1'.out = s1.out ∧ s1'.store = s1.store := by
  cases r <;> simp only [SL.EqvR] at h
  obtain ⟨rfl, hq⟩ := h
  exact ⟨_, rfl, hq.2.2.2, hq.2.2.1⟩

theorem eqvR_err {α : Type} {r : Res α} {e : Err} {s1 : SState} (h : SL.EqvR r (.err e s1)) :
    ∃ s1', r = .err e s1' ∧ s1'.out = s1.out := by
  cases r <;> simp only [SL.EqvR] at h
  obtain ⟨rfl, hq⟩ := h
  exact ⟨_, rfl, hq.2.2.2⟩

theorem wrap_eval (nl : Nat) (r body : RBlock) (hl : RLastExpr r) (ht : TB 1 r body) (F : Nat) :
    match evalProgram F r with
    | .value t out => evalProgram (F + 5) (wrapped nl body) = .value t out
    | .error e out => evalProgram (F + 5) (wrapped nl body) = .error e out
    | _ => True := by
  have hts := tail_sim 1 [(0, fnv nl body)] hl body (F + 1) {} ht
  have hsl := (SL.all (F + 1)).bv body (callState nl body) (Phi 1 [(0, fnv nl body)] {}) ⟨rfl, rfl, rfl, rfl⟩
  unfold evalProgram
  rw [eval_wrapped]
  cases hA : evalB F r {} with
  | val u s' =>
    rw [evalB_fuel_mono F 1 r {} (by rw [hA]; simp), hA] at hts
    obtain ⟨s1, h1, ho, hst⟩ := hts
    rw [h1] at hsl
    obtain ⟨s1', h2, ho', hst'⟩ := eqvR_val hsl
    simp only [h2]
    rw [tree_store _ s' (by simp only [hst', hst])]
    simp only [ho', ho]
  | err er s' =>
    rw [evalB_fuel_mono F 1 r {} (by rw [hA]; simp), hA] at hts
    obtain ⟨s1, h1, ho⟩ := hts
    rw [h1] at hsl
    obtain ⟨s1', h2, ho'⟩ := eqvR_err hsl
    simp only [h2, ho', ho]
  | _ => trivial

/-! ### the theorem -/

/-- the same with an arbitrary function name `nm` (non-empty, not the name of a builtin); no condition
    "`nm` does not occur in `p`" is needed: inside the function every name of `p` that the resolver accepts at
    top level is found in the function's own context, before the global one is consulted -/
theorem wrap_same_meaning_as (nm : Text) (hne : nm.isEmpty = false) (hbi : Builtin.resolve nm = none)
    (p : Block) (hs : SB false p) (hl : LastExpr p) (r : RBlock) (hr : resolveProgram p = .ok r) :
    ∃ r', resolveProgram (wrapAs nm p) = .ok r' ∧ ∀ F,
      match evalProgram F r with
      | .value t out => evalProgram (F + 5) r' = .value t out
      | .error e out => evalProgram (F + 5) r' = .error e out
      | _ => True := by
  obtain ⟨nl, body, hw, htb, hrl⟩ := resolve_wrap nm hne hbi p hs hl r hr
  exact ⟨_, hw, fun F => wrap_eval nl r body hrl htb F⟩

/-- WRAPPING A CLOSED PROGRAM INTO A FUNCTION AND CALLING IT DOES NOT CHANGE ITS MEANING: for every program `p`
    of the stage-3 source fragment whose last statement is an expression statement, if the resolver accepts
    `p` it accepts `functie hoofd() { p }  hoofd()`, and whatever value (tree and output) or error (kind and
    output) the definitional semantics gives `p` with fuel `F`, it gives the wrapped program with fuel `F + 5` -/
theorem wrap_same_meaning (p : Block) (hs : SB false p) (hl : LastExpr p) (r : RBlock) (hr : resolveProgram p = .ok r) :
    ∃ r', resolveProgram (wrap p) = .ok r' ∧ ∀ F, ∃ F',
      match evalProgram F r with
      | .value t out => evalProgram F' r' = .value t out
      | .error e out => evalProgram F' r' = .error e out
      | _ => True := by
  obtain ⟨r', h1, h2⟩ := wrap_same_meaning_as hoofd (by decide) (by decide) p hs hl r hr
  exact ⟨r', h1, fun F => ⟨F + 5, h2 F⟩⟩

end Wrap
end Nl
