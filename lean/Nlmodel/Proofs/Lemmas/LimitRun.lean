/- Refuting the machine limit (`AtLimit`, `HitsLimit`) by running the program: a run that is over within `n` steps and
   never stands at a `Call` instruction does not hit the limit (computable check `endsCallFree`, proved sound). -/
import Nlmodel.Proofs.Lemmas.AtLimit
namespace Nl
open Sim

/-! ## refuting the limit by running the program -/

/-- is the instruction at `s.ip` a `Call`? -/
def isCallAt (C : Code) (s : VM) : Bool :=
  match decodeAt C s.ip with
  | some (.call _) => true
  | _ => false

theorem AtLimit.isCallAt {C : Code} {s : VM} (h : AtLimit C s) : isCallAt C s = true := by
  obtain ⟨argc, fip, nl, st, hd, _⟩ := h
  simp [Nl.isCallAt, hd]

/-- the run from `s` is over (halt, error or fault) within `n` steps and never stands at a `Call` (computable) -/
def endsCallFree (C : Code) : Nat → VM → Bool
  | 0, _ => false
  | n + 1, s => !(isCallAt C s) && (match step C s with
    | .next s' => endsCallFree C n s'
    | _ => true)

/-- such a run never reaches the limit -/
theorem endsCallFree_sound {C : Code} : ∀ (n : Nat) (s : VM), endsCallFree C n s = true →
    ¬ ∃ k s1, execN C k s = some s1 ∧ AtLimit C s1
  | 0, _, h => by simp [endsCallFree] at h
  | n + 1, s, h => by
    simp only [endsCallFree, Bool.and_eq_true, Bool.not_eq_true'] at h
    obtain ⟨hc, hrest⟩ := h
    rintro ⟨k, s1, hk, hl⟩
    cases k with
    | zero =>
      simp only [execN] at hk
      injection hk with hk; subst hk
      rw [hl.isCallAt] at hc; cases hc
    | succ k =>
      simp only [execN] at hk
      cases hs : step C s with
      | next s' =>
        rw [hs] at hk hrest
        exact endsCallFree_sound n s' hrest ⟨k, s1, hk, hl⟩
      | halt v s' => rw [hs] at hk; cases hk
      | error e s' => rw [hs] at hk; cases hk
      | fault site => rw [hs] at hk; cases hk

/-- a program whose run on a fresh machine is over within `n` steps without a `Call` does not hit the limit -/
theorem not_hitsLimit_of_run {bc : Bytecode} (n : Nat) (h : endsCallFree bc.code n (VM.start {} bc) = true) : ¬ HitsLimit bc :=
  endsCallFree_sound n _ h

end Nl
