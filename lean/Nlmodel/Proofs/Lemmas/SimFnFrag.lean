/- Stage 4: the fragment (functions, calls, locals, `antwoord`, control flow) as predicates on resolved trees. -/
import Nlmodel.Proofs.Lemmas.SimFnVal
namespace Nl
namespace SimF
open Spec Sim

/-! ## the fragment of stage 4 -/

/-- parameters occupy the first local slots, in order -/
def paramScopeFrom : Nat → List Nat → Gam
  | _, [] => []
  | k, p :: ps => (p, k) :: paramScopeFrom (k + 1) ps
def paramScope (ps : List Nat) : Gam := paramScopeFrom 0 ps

mutual
/-- expressions. `nl` = number of local slots of the enclosing function (0 at top level), `fn` = inside a
    function body, `Γ` = global scope visible here, `Λ` = local scope, `ab` as in stage 3 -/
inductive YE (nl : Nat) (fn : Bool) : Gam → Gam → Bool → RExpr → Prop where
  | int (Γ Λ ab) (v : Int) : YE nl fn Γ Λ ab (.int v)
  | bool (Γ Λ ab) (b : Bool) : YE nl fn Γ Λ ab (.bool b)
  | not (Γ Λ ab) (e : RExpr) : YE nl fn Γ Λ ab e → YE nl fn Γ Λ ab (.not e)
  | neg (Γ Λ ab) (e : RExpr) : YE nl fn Γ Λ ab e → YE nl fn Γ Λ ab (.neg e)
  | bin (Γ Λ ab) (l : RExpr) (op : BinOp) (r : RExpr) : fusedCandidate l op r = none →
      YE nl fn Γ Λ ab l → YE nl fn Γ Λ false r → YE nl fn Γ Λ ab (.infix l op r)
  | fusedL (Γ Λ ab) (b k : Nat) (op : BinOp) (v : Int) : (b, k) ∈ Λ → k < nl →
      fusedCandidate (.var ⟨b, .loc k⟩) op (.int v) = some (op, k, v) → YE nl fn Γ Λ ab (.infix (.var ⟨b, .loc k⟩) op (.int v))
  | fusedR (Γ Λ ab) (b k : Nat) (op op' : BinOp) (v : Int) : (b, k) ∈ Λ → k < nl → mirrorOp op = some op' →
      YE nl fn Γ Λ ab (.infix (.int v) op (.var ⟨b, .loc k⟩))
  | varG (Γ Λ ab) (b k : Nat) : (b, k) ∈ Γ → YE nl fn Γ Λ ab (.var ⟨b, .global k⟩)
  | varL (Γ Λ ab) (b k : Nat) : (b, k) ∈ Λ → k < nl → YE nl fn Γ Λ ab (.var ⟨b, .loc k⟩)
  | assignG (Γ Λ ab) (b k : Nat) (e : RExpr) : (b, k) ∈ Γ → YE nl fn Γ Λ ab e → YE nl fn Γ Λ ab (.assignVar ⟨b, .global k⟩ e)
  | assignL (Γ Λ ab) (b k : Nat) (e : RExpr) : (b, k) ∈ Λ → k < nl → YE nl fn Γ Λ ab e → YE nl fn Γ Λ ab (.assignVar ⟨b, .loc k⟩ e)
  | ifE (Γ Λ ab) (c : RExpr) (t : RBlock) (e : ROptBlock) (Γ1 Λ1 : Gam) : YE nl fn Γ Λ ab c → YB nl fn Γ Λ ab t Γ1 Λ1 → YO nl fn Γ Λ ab e →
      YE nl fn Γ Λ ab (.ifE c t e)
  | whileE (Γ Λ ab) (c : RExpr) (b : RBlock) (Γ1 Λ1 : Gam) : YE nl fn Γ Λ false c → YB nl fn Γ Λ true b Γ1 Λ1 → YE nl fn Γ Λ ab (.whileE c b)
  | call (Γ Λ ab) (f : RExpr) (as : RExprs) : YEs nl fn Γ Λ as → YE nl fn Γ Λ false f → YE nl fn Γ Λ ab (.call f as)
inductive YEs (nl : Nat) (fn : Bool) : Gam → Gam → RExprs → Prop where
  | nil (Γ Λ) : YEs nl fn Γ Λ .nil
  | cons (Γ Λ) (e : RExpr) (es : RExprs) : YE nl fn Γ Λ false e → YEs nl fn Γ Λ es → YEs nl fn Γ Λ (.cons e es)
inductive YO (nl : Nat) (fn : Bool) : Gam → Gam → Bool → ROptBlock → Prop where
  | none (Γ Λ ab) : YO nl fn Γ Λ ab .none
  | some (Γ Λ ab) (b : RBlock) (Γ1 Λ1 : Gam) : YB nl fn Γ Λ ab b Γ1 Λ1 → YO nl fn Γ Λ ab (.some b)
inductive YS (nl : Nat) (fn : Bool) : Gam → Gam → Bool → RStmt → Gam → Gam → Prop where
  | expr (Γ Λ ab) (e : RExpr) : YE nl fn Γ Λ ab e → YS nl fn Γ Λ ab (.expr e) Γ Λ
  | letG (Γ Λ ab) (b k : Nat) (e : RExpr) : fn = false → (∀ p ∈ Γ, p.1 ≠ b ∧ p.2 ≠ k) → YE nl fn ((b, k) :: Γ) Λ ab e →
      YS nl fn Γ Λ ab (.letS ⟨b, .global k⟩ e) ((b, k) :: Γ) Λ
  | letL (Γ Λ ab) (b k : Nat) (e : RExpr) : fn = true → (∀ p ∈ Λ, p.1 ≠ b ∧ p.2 ≠ k) → k < nl → YE nl fn Γ ((b, k) :: Λ) ab e →
      YS nl fn Γ Λ ab (.letS ⟨b, .loc k⟩ e) Γ ((b, k) :: Λ)
  | block (Γ Λ ab) (b : RBlock) (Γ1 Λ1 : Gam) : YB nl fn Γ Λ ab b Γ1 Λ1 → YS nl fn Γ Λ ab (.block b) Γ Λ
  | brk (Γ Λ) : YS nl fn Γ Λ true .brk Γ Λ
  | cont (Γ Λ) : YS nl fn Γ Λ true .cont Γ Λ
  | ret (Γ Λ ab) (e : RExpr) : fn = true → YE nl fn Γ Λ ab e → YS nl fn Γ Λ ab (.ret e) Γ Λ
inductive YB (nl : Nat) (fn : Bool) : Gam → Gam → Bool → RBlock → Gam → Gam → Prop where
  | nil (Γ Λ ab) : YB nl fn Γ Λ ab .nil Γ Λ
  | cons (Γ Λ ab) (Γ1 Λ1 Γ2 Λ2 : Gam) (s : RStmt) (b : RBlock) : YS nl fn Γ Λ ab s Γ1 Λ1 → YB nl fn Γ1 Λ1 ab b Γ2 Λ2 →
      YB nl fn Γ Λ ab (.cons s b) Γ2 Λ2
end

theorem ys_scope {nl fn} {Γ Λ Γ1 Λ1 : Gam} {ab : Bool} {s : RStmt} (h : YS nl fn Γ Λ ab s Γ1 Λ1) (hok : GamOK Γ) (hokl : GamOK Λ) :
    GamOK Γ1 ∧ GamOK Λ1 ∧ (∃ d, Γ1 = d ++ Γ) ∧ (∃ d, Λ1 = d ++ Λ) ∧ (fn = true → Γ1 = Γ) ∧ (fn = false → Λ1 = Λ) := by
  cases h with
  | expr => exact ⟨hok, hokl, ⟨[], rfl⟩, ⟨[], rfl⟩, fun _ => rfl, fun _ => rfl⟩
  | letG _ _ _ b k e hfn hf _ => exact ⟨gamOK_cons hok b k hf, hokl, ⟨[(b, k)], rfl⟩, ⟨[], rfl⟩, fun h => (by rw [hfn] at h; cases h), fun _ => rfl⟩
  | letL _ _ _ b k e hfn hf _ _ => exact ⟨hok, gamOK_cons hokl b k hf, ⟨[], rfl⟩, ⟨[(b, k)], rfl⟩, fun _ => rfl, fun h => (by rw [hfn] at h; cases h)⟩
  | block => exact ⟨hok, hokl, ⟨[], rfl⟩, ⟨[], rfl⟩, fun _ => rfl, fun _ => rfl⟩
  | brk => exact ⟨hok, hokl, ⟨[], rfl⟩, ⟨[], rfl⟩, fun _ => rfl, fun _ => rfl⟩
  | cont => exact ⟨hok, hokl, ⟨[], rfl⟩, ⟨[], rfl⟩, fun _ => rfl, fun _ => rfl⟩
  | ret => exact ⟨hok, hokl, ⟨[], rfl⟩, ⟨[], rfl⟩, fun _ => rfl, fun _ => rfl⟩

theorem yb_scope {nl fn} : ∀ (b : RBlock) {Γ Λ Γ1 Λ1 : Gam} {ab : Bool}, YB nl fn Γ Λ ab b Γ1 Λ1 → GamOK Γ → GamOK Λ →
    GamOK Γ1 ∧ GamOK Λ1 ∧ (∃ d, Γ1 = d ++ Γ) ∧ (∃ d, Λ1 = d ++ Λ) ∧ (fn = true → Γ1 = Γ) ∧ (fn = false → Λ1 = Λ)
  | .nil, _, _, _, _, _, h, hok, hokl => by cases h; exact ⟨hok, hokl, ⟨[], rfl⟩, ⟨[], rfl⟩, fun _ => rfl, fun _ => rfl⟩
  | .cons s rest, _, _, _, _, _, h, hok, hokl => by
    cases h with
    | cons _ _ _ Γ1 Λ1 _ _ _ _ hs hb =>
      obtain ⟨hok1, hokl1, ⟨d1, e1⟩, ⟨c1, f1⟩, g1, k1⟩ := ys_scope hs hok hokl
      obtain ⟨hok2, hokl2, ⟨d2, e2⟩, ⟨c2, f2⟩, g2, k2⟩ := yb_scope rest hb hok1 hokl1
      exact ⟨hok2, hokl2, ⟨d2 ++ d1, by rw [e2, e1, List.append_assoc]⟩, ⟨c2 ++ c1, by rw [f2, f1, List.append_assoc]⟩,
        fun h => by rw [g2 h, g1 h], fun h => by rw [k2 h, k1 h]⟩

end SimF
end Nl
