/- Stage 4: composition and scope-weakening lemmas for the goals. -/
import Nlmodel.Proofs.Lemmas.SimFnGoal
namespace Nl
namespace SimF
open Spec Sim

section comp
variable {W : World} {Γb Λ : Gam} {nl : Nat} {below : Array Value} {fr : List Frame}

theorem Reach.prefix {ip : Nat} {locs ops g : Array Value} {l : Value} {ip1 : Nat} {locs1 ops1 g1 : Array Value} {l1 : Value}
    {ip2 : Nat} {ops2 : Array Value} {st st1 st2 : SState} (n : Nat)
    (hpre : execN W.C n (mkS W.s0 ip below locs ops g l fr) = some (mkS W.s0 ip1 below locs1 ops1 g1 l1 fr))
    (ho : st1.out = st.out)
    (h : Reach W Γb Λ nl below fr ip1 locs1 ops1 g1 l1 ip2 ops2 st1 st2) :
    Reach W Γb Λ nl below fr ip locs ops g l ip2 ops2 st st2 := by
  obtain ⟨locs', g', l', m, hm, hinv, ho2⟩ := h
  exact ⟨locs', g', l', n + m, execN_add W.C n m _ _ _ hpre hm, hinv, by rw [ho2, ho]⟩

theorem Returns.prefix {ip : Nat} {locs ops g : Array Value} {l : Value} {ip1 : Nat} {locs1 ops1 g1 : Array Value} {l1 : Value}
    {v : SVal} {st st1 st2 : SState} (n : Nat)
    (hpre : execN W.C n (mkS W.s0 ip below locs ops g l fr) = some (mkS W.s0 ip1 below locs1 ops1 g1 l1 fr))
    (ho : st1.out = st.out)
    (h : Returns W Γb below fr ip1 locs1 ops1 g1 l1 v st1 st2) :
    Returns W Γb below fr ip locs ops g l v st st2 := by
  intro fr0 rest hfr
  obtain ⟨mv, g', l', m, hv, hm, hr, hl, ho2⟩ := h fr0 rest hfr
  exact ⟨mv, g', l', n + m, hv, execN_add W.C n m _ _ _ hpre hm, hr, hl, by rw [ho2, ho]⟩

theorem GoalV.prefix {fn ab : Bool} {lp : LoopCtx} {ip : Nat} {locs ops g : Array Value} {l : Value}
    {ip1 : Nat} {locs1 ops1 g1 : Array Value} {l1 : Value} {endIp : Nat} {base : Array Value} {st st1 : SState} {r : Res SVal}
    (n : Nat) (hpre : execN W.C n (mkS W.s0 ip below locs ops g l fr) = some (mkS W.s0 ip1 below locs1 ops1 g1 l1 fr))
    (ho : st1.out = st.out)
    (h : GoalV W Γb Λ nl below fr fn ab lp ip1 locs1 ops1 g1 l1 endIp base st1 r) :
    GoalV W Γb Λ nl below fr fn ab lp ip locs ops g l endIp base st r := by
  rcases h with h | h
  · exact .inl (Ovf.after n hpre h)
  · refine .inr ?_
    cases r with
    | val v st' => obtain ⟨mv, hmv, hre⟩ := h; exact ⟨mv, hmv, hre.prefix n hpre ho⟩
    | brk st' => exact ⟨h.1, h.2.prefix n hpre ho⟩
    | cont st' => exact ⟨h.1, h.2.prefix n hpre ho⟩
    | err er st' => exact Fails.after n hpre h
    | ret _ _ => exact ⟨h.1, h.2.prefix n hpre ho⟩
    | fuel => trivial
    | unspec _ => trivial

theorem GoalEs.prefix {fn : Bool} {ip : Nat} {locs ops g : Array Value} {l : Value}
    {ip1 : Nat} {locs1 g1 : Array Value} {l1 : Value} {endIp : Nat} {st st1 : SState} {r : Res (List SVal)}
    (n : Nat) (hpre : execN W.C n (mkS W.s0 ip below locs ops g l fr) = some (mkS W.s0 ip1 below locs1 ops g1 l1 fr))
    (ho : st1.out = st.out)
    (h : GoalEs W Γb Λ nl below fr fn ip1 locs1 ops g1 l1 endIp st1 r) :
    GoalEs W Γb Λ nl below fr fn ip locs ops g l endIp st r := by
  rcases h with h | h
  · exact .inl (Ovf.after n hpre h)
  · refine .inr ?_
    cases r with
    | val v st' => obtain ⟨mv, hmv, hre⟩ := h; exact ⟨mv, hmv, hre.prefix n hpre ho⟩
    | brk st' => exact h
    | cont st' => exact h
    | err er st' => exact Fails.after n hpre h
    | ret _ _ => exact ⟨h.1, h.2.prefix n hpre ho⟩
    | fuel => trivial
    | unspec _ => trivial

theorem Reach.then {ip : Nat} {locs ops g : Array Value} {l : Value} {ip1 : Nat} {ops1 : Array Value} {ip2 : Nat} {ops2 : Array Value}
    {st st' : SState} (h : Reach W Γb Λ nl below fr ip locs ops g l ip1 ops1 st st')
    (hs : ∀ locs' g' l', step W.C (mkS W.s0 ip1 below locs' ops1 g' l' fr) = .next (mkS W.s0 ip2 below locs' ops2 g' l' fr)) :
    Reach W Γb Λ nl below fr ip locs ops g l ip2 ops2 st st' := by
  obtain ⟨locs', g', l', n, hn, hinv, ho⟩ := h
  exact ⟨locs', g', l', n + 1, execN_step W.C n _ _ _ hn (hs locs' g' l'), hinv, ho⟩

theorem GoalV.then_val {fn ab : Bool} {lp : LoopCtx} {ip : Nat} {locs ops g : Array Value} {l : Value}
    {e1 e2 : Nat} {base : Array Value} {st : SState} {r : Res SVal}
    (h : GoalV W Γb Λ nl below fr fn ab lp ip locs ops g l e1 base st r)
    (hs : ∀ mv locs' g' l', step W.C (mkS W.s0 e1 below locs' (base.push mv) g' l' fr) = .next (mkS W.s0 e2 below locs' (base.push mv) g' l' fr)) :
    GoalV W Γb Λ nl below fr fn ab lp ip locs ops g l e2 base st r := by
  rcases h with h | h
  · exact .inl h
  · refine .inr ?_
    cases r with
    | val v st' => obtain ⟨mv, hmv, hre⟩ := h; exact ⟨mv, hmv, hre.then (hs mv)⟩
    | brk st' => exact h
    | cont st' => exact h
    | err er st' => exact h
    | ret _ _ => exact h
    | fuel => trivial
    | unspec _ => trivial
end comp

/-! ### scope weakening -/

theorem RelG.weaken {W : World} {Γb : Gam} (d : Gam) {st : SState} {g : Array Value} (h : RelG W (d ++ Γb) st g) : RelG W Γb st g :=
  fun b k hm v hv => h b k (List.mem_append_right _ hm) v hv
theorem RelL.weaken {W : World} {Λ : Gam} (d : Gam) {st : SState} {locs : Array Value} (h : RelL W (d ++ Λ) st locs) : RelL W Λ st locs :=
  fun b k hm v hv => h b k (List.mem_append_right _ hm) v hv

theorem Inv.weaken {W : World} {Γb Λ : Gam} (d c : Gam) {nl : Nat} {st : SState} {locs g : Array Value} {l : Value}
    (h : Inv W (d ++ Γb) (c ++ Λ) nl st locs g l) : Inv W Γb Λ nl st locs g l :=
  ⟨h.relG.weaken d, h.relL.weaken c, h.last, h.size⟩

theorem Reach.weaken {W : World} {Γb Λ : Gam} (d c : Gam) {nl : Nat} {below : Array Value} {fr : List Frame}
    {ip : Nat} {locs ops g : Array Value} {l : Value} {ip' : Nat} {ops' : Array Value} {st st' : SState}
    (h : Reach W (d ++ Γb) (c ++ Λ) nl below fr ip locs ops g l ip' ops' st st') :
    Reach W Γb Λ nl below fr ip locs ops g l ip' ops' st st' := by
  obtain ⟨locs', g', l', n, hn, hinv, ho⟩ := h
  exact ⟨locs', g', l', n, hn, hinv.weaken d c, ho⟩

theorem Returns.weaken {W : World} {Γb : Gam} (d : Gam) {below : Array Value} {fr : List Frame}
    {ip : Nat} {locs ops g : Array Value} {l : Value} {v : SVal} {st st' : SState}
    (h : Returns W (d ++ Γb) below fr ip locs ops g l v st st') : Returns W Γb below fr ip locs ops g l v st st' := by
  intro fr0 rest hfr
  obtain ⟨mv, g', l', m, hv, hm, hr, hl, ho2⟩ := h fr0 rest hfr
  exact ⟨mv, g', l', m, hv, hm, hr.weaken d, hl, ho2⟩

theorem GoalV.weaken {W : World} {Γb Λ : Gam} (d c : Gam) {nl : Nat} {below : Array Value} {fr : List Frame} {fn ab : Bool} {lp : LoopCtx}
    {ip : Nat} {locs ops g : Array Value} {l : Value} {endIp : Nat} {base : Array Value} {st : SState} {r : Res SVal}
    (h : GoalV W (d ++ Γb) (c ++ Λ) nl below fr fn ab lp ip locs ops g l endIp base st r) :
    GoalV W Γb Λ nl below fr fn ab lp ip locs ops g l endIp base st r := by
  rcases h with h | h
  · exact .inl h
  · refine .inr ?_
    cases r with
    | val v st' => obtain ⟨mv, hmv, hre⟩ := h; exact ⟨mv, hmv, hre.weaken d c⟩
    | brk st' => exact ⟨h.1, h.2.weaken d c⟩
    | cont st' => exact ⟨h.1, h.2.weaken d c⟩
    | err er st' => exact h
    | ret _ _ => exact ⟨h.1, h.2.weaken d⟩
    | fuel => trivial
    | unspec _ => trivial

/-- a statement run first; its post-scopes `d ++ Γb`, `c ++ Λ` are the scopes the rest starts in -/
theorem GoalU.seq {W : World} {Γb Λ Γb2 Λ2 : Gam} (d c : Gam) {nl : Nat} {below : Array Value} {fr : List Frame} {fn ab : Bool} {lp : LoopCtx}
    {ip : Nat} {locs ops g : Array Value} {l : Value} {ip1 : Nat} {locs1 g1 : Array Value} {l1 : Value} {endIp : Nat}
    {st st1 : SState} {r : Res Unit}
    (n : Nat) (hpre : execN W.C n (mkS W.s0 ip below locs ops g l fr) = some (mkS W.s0 ip1 below locs1 ops g1 l1 fr))
    (ho : st1.out = st.out)
    (h : GoalU W (d ++ Γb) (c ++ Λ) Γb2 Λ2 nl below fr fn ab lp ip1 locs1 ops g1 l1 endIp st1 r) :
    GoalU W Γb Λ Γb2 Λ2 nl below fr fn ab lp ip locs ops g l endIp st r := by
  rcases h with h | h
  · exact .inl (Ovf.after n hpre h)
  · refine .inr ?_
    cases r with
    | val v st' => exact Reach.prefix n hpre ho h
    | brk st' => exact ⟨h.1, (h.2.prefix n hpre ho).weaken d c⟩
    | cont st' => exact ⟨h.1, (h.2.prefix n hpre ho).weaken d c⟩
    | err er st' => exact Fails.after n hpre h
    | ret _ _ => exact ⟨h.1, (h.2.prefix n hpre ho).weaken d⟩
    | fuel => trivial
    | unspec _ => trivial

end SimF
end Nl
