#!/usr/bin/env python3
"""Evaluate seeded changes (mutations) produced by independent sub-agents.

For each candidate directory (patch.diff + demonstration + notes.md):
  1. confirm in the scratch worktree: the patch applies to a clean HEAD, the project builds with and
     without the hooks, the unedited test suite passes, the demonstration FAILS with the change and
     PASSES without it;
  2. apply the patch to /repo, run the registered quick checks, record which of them report a
     violation, and undo the patch (`git -C /repo checkout -- .`).
Confirmed candidates are stored under /verif/seeded/<id>/ (patch.diff, demonstration, meta.json).
Usage: seed_eval.py <property id> <candidate dir> <worktree> [--checks C01,C05,...]
"""
import json
import os
import re
import shutil
import subprocess
import sys
import time

VERIF = os.path.dirname(os.path.dirname(os.path.abspath(__file__)))
ALL = ["C%02d" % i for i in range(1, 18)]


def sh(cmd, cwd=None, timeout=1800, env=None):
    e = dict(os.environ)
    e["CARGO_NET_OFFLINE"] = "true"
    if cwd and str(cwd).startswith("/tmp/seed/"):
        # a PRIVATE target directory per worktree: cargo's artifact hashes are path-independent, so a shared
        # directory can hand one worktree the library built from another one's sources
        e["CARGO_TARGET_DIR"] = os.path.join("/tmp/seed/targets", str(cwd).split("/")[3])
    if env:
        e.update(env)
    p = subprocess.run(cmd, cwd=cwd, shell=isinstance(cmd, str), stdout=subprocess.PIPE, stderr=subprocess.STDOUT, text=True,
                       timeout=timeout, env=e)
    return p.returncode, p.stdout


def run_demo(cand, wt):
    """returns (ok: bool, detail). ok = demonstration passes"""
    if os.path.exists(os.path.join(cand, "demo_test.rs")):
        shutil.copy(os.path.join(cand, "demo_test.rs"), os.path.join(wt, "tests", "demo_test.rs"))
        try:
            rc, out = sh("cargo test --offline --test demo_test 2>&1 | tail -25", cwd=wt)
            ok = "test result: ok" in out and "FAILED" not in out and "panicked" not in out.split("test result")[0][-2000:] or ("test result: ok" in out and "failed" not in out)
            ok = bool(re.search(r"test result: ok\. \d+ passed; 0 failed", out))
            return ok, out[-1500:]
        finally:
            os.remove(os.path.join(wt, "tests", "demo_test.rs"))
    if os.path.exists(os.path.join(cand, "demo.nl")):
        rc, out = sh("cargo run --offline --release --quiet -- %s 2>/dev/null" % os.path.join(cand, "demo.nl"), cwd=wt)
        exp = open(os.path.join(cand, "expected.txt")).read() if os.path.exists(os.path.join(cand, "expected.txt")) else None
        if exp is None:
            return rc == 0, out[-800:]
        return out.strip() == exp.strip(), "got:\n%s\nexpected:\n%s" % (out[-600:], exp[-600:])
    return None, "no demonstration found"


def confirm(cand, wt):
    info = {}
    rc, out = sh("git status --porcelain", cwd=wt)
    if out.strip():
        sh("git checkout -- . && git clean -fdq tests", cwd=wt)
    patch = os.path.join(cand, "patch.diff")
    rc, out = sh(["git", "apply", "--check", patch], cwd=wt)
    if rc != 0:
        return False, {"error": "patch does not apply: " + out[-300:]}
    ok0, d0 = run_demo(cand, wt)
    info["demo_passes_without_change"] = ok0
    sh(["git", "apply", patch], cwd=wt)
    try:
        rc1, o1 = sh("cargo build --offline 2>&1 | tail -3", cwd=wt)
        rc2, o2 = sh("cargo build --offline --features verif 2>&1 | tail -3", cwd=wt)
        info["builds"] = ("error" not in o1) and ("error" not in o2)
        rc3, o3 = sh("cargo test --offline 2>&1 | grep -E '^test result|FAILED|failed' | head", cwd=wt)
        passed = sum(int(m) for m in re.findall(r"test result: ok\. (\d+) passed", o3))
        info["tests_passed_with_change"] = passed
        info["tests_ok"] = passed >= 99 and "FAILED" not in o3
        ok1, d1 = run_demo(cand, wt)
        info["demo_passes_with_change"] = ok1
        info["demo_detail_with_change"] = d1[-600:]
    finally:
        sh("git checkout -- . && git clean -fdq tests", cwd=wt)
    good = info.get("builds") and info.get("tests_ok") and ok0 is True and ok1 is False
    return bool(good), info


def run_checks(patch, checks):
    results = {}
    rc, out = sh(["git", "-C", "/repo", "status", "--porcelain"])
    assert not out.strip(), "/repo is not clean: " + out
    rc, out = sh(["git", "-C", "/repo", "apply", patch])
    assert rc == 0, out
    try:
        for pid in checks:
            t0 = time.time()
            try:
                rc, out = sh(["./check", pid, "--tier", "quick"], cwd=VERIF, timeout=1500)
            except subprocess.TimeoutExpired:
                rc, out = 124, "TIMEOUT"
            viol = [l for l in out.split("\n") if l.startswith("VIOLATION")]
            results[pid] = dict(rc=rc, violations=viol[:4], wall_s=round(time.time() - t0, 1))
            # keep the replay of the first violation for the record
            if viol:
                m = re.search(r"replay=(\S+)", viol[0])
                if m and os.path.exists(os.path.join(VERIF, m.group(1))):
                    try:
                        rp = json.load(open(os.path.join(VERIF, m.group(1))))
                        results[pid]["first_replay"] = {k: (str(v)[:400]) for k, v in rp.items() if k in ("what", "input", "impl", "kind", "expected")}
                    except Exception:
                        pass
    finally:
        sh(["git", "-C", "/repo", "checkout", "--", "."])
        shutil.rmtree(os.path.join(VERIF, "replays"), ignore_errors=True)
        sh("git checkout -- evidence", cwd=VERIF)
    return results


def main():
    pid, cand, wt = sys.argv[1], sys.argv[2].rstrip("/"), sys.argv[3]
    checks = ALL
    if "--checks" in sys.argv:
        checks = sys.argv[sys.argv.index("--checks") + 1].split(",")
    name = "%s-%s" % (pid, os.path.basename(cand))
    good, info = confirm(cand, wt)
    print(name, "confirmed" if good else "NOT confirmed", json.dumps(info)[:600])
    if not good:
        os.makedirs(os.path.join(VERIF, "seeded", "_rejected"), exist_ok=True)
        json.dump(dict(candidate=cand, info=info), open(os.path.join(VERIF, "seeded", "_rejected", name + ".json"), "w"), indent=1)
        return 1
    dest = os.path.join(VERIF, "seeded", name)
    os.makedirs(dest, exist_ok=True)
    for f in os.listdir(cand):
        if os.path.isfile(os.path.join(cand, f)):
            shutil.copy(os.path.join(cand, f), os.path.join(dest, f))
    results = run_checks(os.path.join(dest, "patch.diff"), checks)
    caught = [p for p, r in results.items() if r["violations"]]
    notes = open(os.path.join(cand, "notes.md")).read() if os.path.exists(os.path.join(cand, "notes.md")) else ""
    history = []
    old = os.path.join(dest, "meta.json")
    if os.path.exists(old):
        try:
            om = json.load(open(old))
            history = om.get("history", [])
            if om.get("caught_by") != caught:
                note = sys.argv[sys.argv.index("--strengthened") + 1] if "--strengthened" in sys.argv else ""
                history.append(dict(caught_by=om.get("caught_by", []), checks_run=sorted(om.get("checks", {})), strengthened=note))
        except Exception:
            pass
    meta = dict(id=name, breaks_property=pid, produced_by="independent sub-agent given only the property text and a scratch worktree",
                needs_to_manifest=notes[:1500], confirmed=info,
                what_was_run="tools/seed_eval.py: confirmed in the scratch worktree (build with/without hooks, 99 tests, demonstration fails with / passes without the change); then `git -C /repo apply patch.diff`, every registered quick check, `git -C /repo checkout -- .`",
                checks=results, caught_by=caught, caught_by_target=pid in caught, history=history)
    json.dump(meta, open(os.path.join(dest, "meta.json"), "w"), indent=1, ensure_ascii=False)
    print(name, "caught by:", caught)
    return 0


if __name__ == "__main__":
    sys.exit(main())
