/-
  UTF-8 refinement, part 4: (U6) the bytewise lexicographic order of the encodings is the
  lexicographic order by code point (`textLt`, the model's string order).
-/
import Nlmodel.Proofs.Lemmas.Utf8Decode
namespace Nl
namespace Utf8

theorem byteLt_cons_lt (a b : UInt8) (s t : List UInt8) (h : a.toNat < b.toNat) :
    byteLt (a :: s) (b :: t) = true := by
  simp only [byteLt]
  rw [if_pos (UInt8.lt_iff_toNat_lt.2 h)]

theorem byteLt_cons_eq (a b : UInt8) (s t : List UInt8) (h : a.toNat = b.toNat) :
    byteLt (a :: s) (b :: t) = byteLt s t := by
  have e : a = b := UInt8.toNat_inj.1 h
  subst e
  simp only [byteLt]
  rw [if_neg (by rw [UInt8.lt_iff_toNat_lt]; omega), if_neg (by rw [UInt8.lt_iff_toNat_lt]; omega)]

theorem byteLt_append_left (l s t : List UInt8) : byteLt (l ++ s) (l ++ t) = byteLt s t := by
  induction l with
  | nil => rfl
  | cons x xs ih => rw [List.cons_append, List.cons_append, byteLt_cons_eq _ _ _ _ rfl, ih]

theorem byteLt_asymm (a b : List UInt8) (h : byteLt a b = true) : byteLt b a = false := by
  induction a generalizing b with
  | nil => cases b <;> simp_all [byteLt]
  | cons x xs ih =>
    cases b with
    | nil => simp [byteLt] at h
    | cons y ys =>
      by_cases h1 : x.toNat < y.toNat
      · simp only [byteLt]
        rw [if_neg (by rw [UInt8.lt_iff_toNat_lt]; omega), if_pos (UInt8.lt_iff_toNat_lt.2 h1)]
      · by_cases h2 : y.toNat < x.toNat
        · simp only [byteLt] at h
          rw [if_neg (by rw [UInt8.lt_iff_toNat_lt]; omega), if_pos (UInt8.lt_iff_toNat_lt.2 h2)] at h
          cases h
        · have e : x.toNat = y.toNat := by omega
          rw [byteLt_cons_eq _ _ _ _ e] at h
          rw [byteLt_cons_eq _ _ _ _ e.symm]
          exact ih ys h

theorem byteLt_irrefl (a : List UInt8) : byteLt a a = false := by
  induction a with
  | nil => rfl
  | cons x xs ih => rw [byteLt_cons_eq _ _ _ _ rfl, ih]

/-- UTF-8 PRESERVES CODE-POINT ORDER: a smaller code point has a bytewise smaller encoding, and
    the difference shows inside the two encodings (whatever follows them) -/
theorem byteLt_encodeChar_append (x y : Char) (h : x.toNat < y.toNat) (s t : List UInt8) :
    byteLt (encodeChar x ++ s) (encodeChar y ++ t) = true := by
  rcases encodeChar_cases x with ⟨hx, a0, ex, xa0⟩ | ⟨hx, hx', a0, a1, ex, xa0, xa1⟩ |
      ⟨hx, hx', a0, a1, a2, ex, xa0, xa1, xa2⟩ | ⟨hx, hx', a0, a1, a2, a3, ex, xa0, xa1, xa2, xa3⟩ <;>
  rcases encodeChar_cases y with ⟨hy, b0, ey, yb0⟩ | ⟨hy, hy', b0, b1, ey, yb0, yb1⟩ |
      ⟨hy, hy', b0, b1, b2, ey, yb0, yb1, yb2⟩ | ⟨hy, hy', b0, b1, b2, b3, ey, yb0, yb1, yb2, yb3⟩ <;>
  rw [ex, ey] <;> simp only [List.cons_append, List.nil_append] <;>
  first
  | (exfalso; omega)
  | exact byteLt_cons_lt _ _ _ _ (by omega)
  | skip
  -- width 2 against width 2
  · by_cases q0 : a0.toNat < b0.toNat
    · exact byteLt_cons_lt _ _ _ _ q0
    · rw [byteLt_cons_eq _ _ _ _ (by omega)]
      exact byteLt_cons_lt _ _ _ _ (by omega)
  -- width 3 against width 3
  · by_cases q0 : a0.toNat < b0.toNat
    · exact byteLt_cons_lt _ _ _ _ q0
    · rw [byteLt_cons_eq _ _ _ _ (by omega)]
      by_cases q1 : a1.toNat < b1.toNat
      · exact byteLt_cons_lt _ _ _ _ q1
      · rw [byteLt_cons_eq _ _ _ _ (by omega)]
        exact byteLt_cons_lt _ _ _ _ (by omega)
  -- width 4 against width 4
  · by_cases q0 : a0.toNat < b0.toNat
    · exact byteLt_cons_lt _ _ _ _ q0
    · rw [byteLt_cons_eq _ _ _ _ (by omega)]
      by_cases q1 : a1.toNat < b1.toNat
      · exact byteLt_cons_lt _ _ _ _ q1
      · rw [byteLt_cons_eq _ _ _ _ (by omega)]
        by_cases q2 : a2.toNat < b2.toNat
        · exact byteLt_cons_lt _ _ _ _ q2
        · rw [byteLt_cons_eq _ _ _ _ (by omega)]
          exact byteLt_cons_lt _ _ _ _ (by omega)

theorem byteLt_nil_encode_cons (y : Char) (ys : List Char) : byteLt [] (encode (y :: ys)) = true := by
  obtain ⟨lead, tl, e, _, _⟩ := scan_step y (encode ys)
  rw [encode_cons, e]; rfl

theorem byteLt_encode_cons_nil (x : Char) (xs : List Char) : byteLt (encode (x :: xs)) [] = false := by
  obtain ⟨lead, tl, e, _, _⟩ := scan_step x (encode xs)
  rw [encode_cons, e]; rfl

/-- (U6) `<` on the UTF-8 bytes is the model's string order `textLt` (lexicographic by code point) -/
theorem byteLt_encode (a b : List Char) : byteLt (encode a) (encode b) = textLt a b := by
  induction a generalizing b with
  | nil =>
    cases b with
    | nil => rfl
    | cons y ys => rw [encode_nil, byteLt_nil_encode_cons]; rfl
  | cons x xs ih =>
    cases b with
    | nil => rw [encode_nil, byteLt_encode_cons_nil]; rfl
    | cons y ys =>
      have hlt : ∀ u v : Char, u.val < v.val ↔ u.toNat < v.toNat := fun u v => UInt32.lt_iff_toNat_lt
      simp only [textLt]
      by_cases h1 : x.toNat < y.toNat
      · rw [if_pos ((hlt x y).2 h1), encode_cons, encode_cons, byteLt_encodeChar_append x y h1]
      · by_cases h2 : y.toNat < x.toNat
        · rw [if_neg (fun q => h1 ((hlt x y).1 q)), if_pos ((hlt y x).2 h2), encode_cons, encode_cons]
          exact byteLt_asymm _ _ (byteLt_encodeChar_append y x h2 _ _)
        · rw [if_neg (fun q => h1 ((hlt x y).1 q)), if_neg (fun q => h2 ((hlt y x).1 q))]
          have e : x = y := Char.toNat_inj.1 (by omega)
          subst e
          rw [encode_cons, encode_cons, byteLt_append_left, ih]

/-- (U6) all six comparison operators of the model on strings are determined by the bytes -/
theorem cmpBy_bytes (op : BinOp) (a b : List Char) :
    cmpBy op (byteLt (encode a) (encode b)) (byteEq (encode a) (encode b)) =
      cmpBy op (textLt a b) (a == b) := by
  rw [byteLt_encode, byteEq_encode]

end Utf8
end Nl
