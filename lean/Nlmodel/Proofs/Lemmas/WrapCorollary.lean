/- C10 "whether a variable lives at top level or inside a function is unobservable": from the definitional
   semantics (`wrap_same_meaning`) to the bytecode machine, through
   `C01_same_meaning_same_behaviour_with_functions` (stage 6: functions and calls; the stage-5 theorem
   `C01_same_meaning_same_behaviour` does not apply, its validation `SimH.inFragmentH` is function-free).
   The syntactic condition of stage 6 (`Sim6.src6Top`) is DISCHARGED here for both programs; what remains as
   hypotheses is that both texts parse and both programs compile (`compileProgram .. = .ok ..`: the compiler
   rejects operands that do not fit 16 bits, and the wrapped program has other code positions and slots). -/
import Nlmodel.Proofs.Lemmas.WrapMain
import Nlmodel.Proofs.C01
namespace Nl
namespace Wrap
open Spec Sim

mutual
theorem se6 (fn : Bool) : (e : Expr) → ∀ (ab : Bool), SE ab e → Sim6.src6E fn ab e = true
  | .int _, _, _ => by simp only [Sim6.src6E]
  | .bool _, _, _ => by simp only [Sim6.src6E]
  | .ident _, _, _ => by simp only [Sim6.src6E]
  | .pre op r, ab, hs => by
    cases hs with
    | not _ _ hsr => simp only [Sim6.src6E, SimF.preOk, se6 fn r ab hsr, Bool.and_self]
    | neg _ _ hsr => simp only [Sim6.src6E, SimF.preOk, se6 fn r ab hsr, Bool.and_self]
  | .assign l r, ab, hs => by
    cases hs with
    | assign _ n _ hsr => simp only [Sim6.src6E]; exact se6 fn r ab hsr
  | .infix l op r, ab, hs => by
    cases hs with
    | bin _ _ _ _ bop hop hsl hsr =>
      simp only [Sim6.src6E, hop, Option.isSome_some, se6 fn l ab hsl, se6 fn r false hsr, Bool.and_self]
  | .ifE c t e, ab, hs => by
    cases hs with
    | ifE _ _ _ _ hsc hst hse =>
      simp only [Sim6.src6E, se6 fn c ab hsc, sb6 fn t ab hst, so6 fn e ab hse, Bool.and_self]
  | .whileE c b, ab, hs => by
    cases hs with
    | whileE _ _ _ hsc hsb =>
      simp only [Sim6.src6E, se6 fn c false hsc, sb6 fn b true hsb, Bool.and_self]
  | .float _, _, hs => by cases hs
  | .str _, _, hs => by cases hs
  | .func _ _ _, _, hs => by cases hs
  | .call _ _, _, hs => by cases hs
  | .arr _, _, hs => by cases hs
  | .index _ _, _, hs => by cases hs
theorem so6 (fn : Bool) : (o : OptBlock) → ∀ (ab : Bool), SO ab o → Sim6.src6O fn ab o = true
  | .none, _, _ => by simp only [Sim6.src6O]
  | .some b, ab, hs => by
    cases hs with
    | some _ _ hsb => simp only [Sim6.src6O]; exact sb6 fn b ab hsb
theorem ss6 (fn : Bool) : (s : Stmt) → ∀ (ab : Bool), SS ab s → Sim6.src6S fn ab s = true
  | .expr e, ab, hs => by
    cases hs with
    | expr _ _ hse => simp only [Sim6.src6S]; exact se6 fn e ab hse
  | .letS n e, ab, hs => by
    cases hs with
    | letS _ _ _ hse => simp only [Sim6.src6S]; exact se6 fn e ab hse
  | .block b, ab, hs => by
    cases hs with
    | block _ _ hsb => simp only [Sim6.src6S]; exact sb6 fn b ab hsb
  | .brk, ab, hs => by cases hs; simp only [Sim6.src6S]
  | .cont, ab, hs => by cases hs; simp only [Sim6.src6S]
  | .ret _, _, hs => by cases hs
theorem sb6 (fn : Bool) : (b : Block) → ∀ (ab : Bool), SB ab b → Sim6.src6B fn ab b = true
  | .nil, _, _ => by simp only [Sim6.src6B]
  | .cons s b, ab, hs => by
    cases hs with
    | cons _ _ _ hss hsb => simp only [Sim6.src6B, ss6 fn s ab hss, sb6 fn b ab hsb, Bool.and_self]
end

theorem ss_not_fdef {ab : Bool} {s : Stmt} (hs : SS ab s) : SimF.srcFDef s = none := by
  cases hs with
  | expr _ e he => cases he <;> rfl
  | letS _ n e he => cases he <;> rfl
  | block _ _ _ => rfl
  | brk => rfl
  | cont => rfl

/-- a stage-3 source program passes the syntactic check of stage 6 -/
theorem src6Top_of_sb : (p : Block) → SB false p → Sim6.src6Top p = true
  | .nil, _ => by simp only [Sim6.src6Top]
  | .cons s b, hs => by
    cases hs with
    | cons _ _ _ hss hsb =>
      simp only [Sim6.src6Top, ss_not_fdef hss, ss6 false s false hss, src6Top_of_sb b hsb, Bool.and_self]

/-- so does the wrapped program -/
theorem src6Top_wrapAs (nm : Text) (hne : nm.isEmpty = false) (p : Block) (hs : SB false p) :
    Sim6.src6Top (wrapAs nm p) = true := by
  simp [wrapAs, Sim6.src6Top, SimF.srcFDef, hne, sb6 true p false hs, Sim6.src6S, Sim6.src6E, Sim6.src6Es]

/-- on texts: if the definitional semantics gives the text of `p` a value, it gives the text of the wrapped
    program the same value (five units of fuel more) -/
theorem wrap_specText (cc : CharClass) (src1 src2 : Text) (p : Block)
    (hp1 : parse cc src1 = .ok p) (hp2 : parse cc src2 = .ok (wrap p)) (hs : SB false p) (hl : LastExpr p)
    (F : Nat) (t : Tree) (out : List Text) (h1 : specText cc F src1 = .value t out) :
    specText cc (F + 5) src2 = .value t out := by
  simp only [specText, hp1] at h1
  cases hr : resolveProgram p with
  | error e => simp [hr] at h1
  | ok r =>
    simp only [hr] at h1
    obtain ⟨r', hw, hev⟩ := wrap_same_meaning_as hoofd (by decide) (by decide) p hs hl r hr
    have h := hev F
    have hw' : resolveProgram (wrap p) = .ok r' := hw
    simp only [specText, hp2, hw']
    cases hA : evalProgram F r with
    | value t' out' =>
      rw [hA] at h h1
      simp only at h h1
      rw [h]
      exact h1
    | error e out' => rw [hA] at h1; simp at h1
    | unspec => rw [hA] at h1; simp at h1
    | fuel => rw [hA] at h1; simp at h1

/-- TOP LEVEL OR INSIDE A FUNCTION IS UNOBSERVABLE ON THE MACHINE: a stage-3 program (text `src1`, tree `p`, last
    statement an expression) and the same program wrapped into `functie hoofd() {..}  hoofd()` (text `src2`),
    both accepted by the compiler: if the definitional semantics gives `src1` a value, `eval` answers the same
    for both texts for every large enough instruction budget - unless one of them stops at the machine's
    stack/frame limit (the disjuncts of `C01_same_meaning_same_behaviour_with_functions`).
    Hypotheses NOT discharged: `hc1`, `hc2` (both programs compile). -/
theorem wrap_same_behaviour (cc : CharClass) (src1 src2 : Text) (p : Block) (r1 r2 : RBlock) (b1 b2 : Bytecode)
    (hp1 : parse cc src1 = .ok p) (hp2 : parse cc src2 = .ok (wrap p)) (hs : SB false p) (hl : LastExpr p)
    (hc1 : compileProgram p = .ok (r1, b1)) (hc2 : compileProgram (wrap p) = .ok (r2, b2))
    (F : Nat) (t : Tree) (out : List Text) (h1 : specText cc F src1 = .value t out) :
    TextHitsLimit cc src1 ∨ TextHitsLimit cc src2 ∨
    ∃ n, ∀ k, evalText cc (n + k) src1 = evalText cc (n + k) src2 :=
  C01.C01_same_meaning_same_behaviour_with_functions cc src1 src2 p (wrap p) r1 r2 b1 b2
    hp1 hc1 (src6Top_of_sb p hs) hp2 hc2 (src6Top_wrapAs hoofd (by decide) p hs)
    F (F + 5) t out h1 (wrap_specText cc src1 src2 p hp1 hp2 hs hl F t out h1)

end Wrap
end Nl
