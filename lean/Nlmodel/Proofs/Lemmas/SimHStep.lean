/- Stage 5: composition of goals; one lemma per instruction on configurations with memory and output. -/
import Nlmodel.Proofs.Lemmas.SimHGoal
namespace Nl
namespace SimH
open Spec Sim

section comp
variable {s0 : VM} {CS : List Const} {C : Code} {Γ : Gam}

theorem Reach5.prefix {μ μ1 μ2 : AMap} {st st1 st2 : SState} {ip ip1 ip2 : Nat} {stk stk1 stk2 g g1 : Array Value} {l l1 : Value}
    {m m1 m2 : Mem} {out out1 : List Text} (n : Nat)
    (hpre : execN C n (setH s0 ip stk g l m out) = some (setH s0 ip1 stk1 g1 l1 m1 out1))
    (hg : Grow μ st m.heap μ1 st1 m1.heap)
    (h : Reach5 s0 CS C Γ μ1 st1 ip1 stk1 g1 l1 m1 out1 ip2 stk2 μ2 st2 m2) :
    Reach5 s0 CS C Γ μ st ip stk g l m out ip2 stk2 μ2 st2 m2 := by
  obtain ⟨g', l', out', k, hk, hinv, hg2⟩ := h
  exact ⟨g', l', out', n + k, execN_add C n k _ _ _ hpre hk, hinv, hg.trans hg2⟩

theorem GoalV5.prefix {ab : Bool} {lp : LoopCtx} {μ μ1 : AMap} {st st1 : SState} {ip ip1 : Nat} {stk stk1 g g1 : Array Value} {l l1 : Value}
    {m m1 : Mem} {out out1 : List Text} {endIp : Nat} {base : Array Value} {r : Res SVal} (n : Nat)
    (hpre : execN C n (setH s0 ip stk g l m out) = some (setH s0 ip1 stk1 g1 l1 m1 out1))
    (hg : Grow μ st m.heap μ1 st1 m1.heap)
    (h : GoalV5 s0 CS C Γ ab lp μ1 ip1 stk1 g1 l1 m1 out1 endIp base st1 r) :
    GoalV5 s0 CS C Γ ab lp μ ip stk g l m out endIp base st r := by
  cases r with
  | val v st' => obtain ⟨mv, μ', m', hv, hre⟩ := h; exact ⟨mv, μ', m', hv, hre.prefix n hpre hg⟩
  | brk st' => obtain ⟨h1, μ', m', hre⟩ := h; exact ⟨h1, μ', m', hre.prefix n hpre hg⟩
  | cont st' => obtain ⟨h1, μ', m', hre⟩ := h; exact ⟨h1, μ', m', hre.prefix n hpre hg⟩
  | err er st' => exact Fails5.after n hpre h
  | ret _ _ => exact h
  | fuel => trivial
  | unspec _ => trivial

theorem GoalEs5.prefix {μ μ1 : AMap} {st st1 : SState} {ip ip1 : Nat} {stk g g1 : Array Value} {l l1 : Value}
    {m m1 : Mem} {out out1 : List Text} {endIp : Nat} {r : Res (List SVal)} (n : Nat)
    (hpre : execN C n (setH s0 ip stk g l m out) = some (setH s0 ip1 stk g1 l1 m1 out1))
    (hg : Grow μ st m.heap μ1 st1 m1.heap)
    (h : GoalEs5 s0 CS C Γ μ1 ip1 stk g1 l1 m1 out1 endIp st1 r) :
    GoalEs5 s0 CS C Γ μ ip stk g l m out endIp st r := by
  cases r with
  | val v st' => obtain ⟨ms, μ', m', hv, hre⟩ := h; exact ⟨ms, μ', m', hv, hre.prefix n hpre hg⟩
  | brk st' => exact h
  | cont st' => exact h
  | err er st' => exact Fails5.after n hpre h
  | ret _ _ => exact h
  | fuel => trivial
  | unspec _ => trivial

theorem Reach5.then {μ μ' : AMap} {st st' : SState} {ip ip1 ip2 : Nat} {stk stk1 stk2 g : Array Value} {l : Value}
    {m m' : Mem} {out : List Text}
    (h : Reach5 s0 CS C Γ μ st ip stk g l m out ip1 stk1 μ' st' m')
    (hs : ∀ g' l' out', step C (setH s0 ip1 stk1 g' l' m' out') = .next (setH s0 ip2 stk2 g' l' m' out')) :
    Reach5 s0 CS C Γ μ st ip stk g l m out ip2 stk2 μ' st' m' := by
  obtain ⟨g', l', out', n, hn, hinv, hg⟩ := h
  exact ⟨g', l', out', n + 1, execN_step C n _ _ _ hn (hs g' l' out'), hinv, hg⟩

theorem GoalV5.then_val {ab : Bool} {lp : LoopCtx} {μ : AMap} {st : SState} {ip : Nat} {stk g : Array Value} {l : Value}
    {m : Mem} {out : List Text} {e1 e2 : Nat} {base : Array Value} {r : Res SVal}
    (h : GoalV5 s0 CS C Γ ab lp μ ip stk g l m out e1 base st r)
    (hs : ∀ mv g' l' m' out', step C (setH s0 e1 (base.push mv) g' l' m' out') = .next (setH s0 e2 (base.push mv) g' l' m' out')) :
    GoalV5 s0 CS C Γ ab lp μ ip stk g l m out e2 base st r := by
  cases r with
  | val v st' => obtain ⟨mv, μ', m', hv, hre⟩ := h; exact ⟨mv, μ', m', hv, hre.then (hs mv · · m' ·)⟩
  | brk st' => exact h
  | cont st' => exact h
  | err er st' => exact h
  | ret _ _ => exact h
  | fuel => trivial
  | unspec _ => trivial

theorem Reach5.weaken (d : Gam) {μ μ' : AMap} {st st' : SState} {ip ip' : Nat} {stk stk' g : Array Value} {l : Value} {m m' : Mem} {out : List Text}
    (h : Reach5 s0 CS C (d ++ Γ) μ st ip stk g l m out ip' stk' μ' st' m') :
    Reach5 s0 CS C Γ μ st ip stk g l m out ip' stk' μ' st' m' := by
  obtain ⟨g', l', out', n, hn, hinv, hg⟩ := h
  exact ⟨g', l', out', n, hn, hinv.weaken d, hg⟩

theorem GoalV5.weaken (d : Gam) {ab : Bool} {lp : LoopCtx} {μ : AMap} {st : SState} {ip : Nat} {stk g : Array Value} {l : Value}
    {m : Mem} {out : List Text} {endIp : Nat} {base : Array Value} {r : Res SVal}
    (h : GoalV5 s0 CS C (d ++ Γ) ab lp μ ip stk g l m out endIp base st r) :
    GoalV5 s0 CS C Γ ab lp μ ip stk g l m out endIp base st r := by
  cases r with
  | val v st' => obtain ⟨mv, μ', m', hv, hre⟩ := h; exact ⟨mv, μ', m', hv, hre.weaken d⟩
  | brk st' => obtain ⟨h1, μ', m', hre⟩ := h; exact ⟨h1, μ', m', hre.weaken d⟩
  | cont st' => obtain ⟨h1, μ', m', hre⟩ := h; exact ⟨h1, μ', m', hre.weaken d⟩
  | err er st' => exact h
  | ret _ _ => exact h
  | fuel => trivial
  | unspec _ => trivial

theorem GoalU5.seq {Γ2 : Gam} (d : Gam) {ab : Bool} {lp : LoopCtx} {μ μ1 : AMap} {st st1 : SState} {ip ip1 : Nat} {stk g g1 : Array Value} {l l1 : Value}
    {m m1 : Mem} {out out1 : List Text} {endIp : Nat} {r : Res Unit} (n : Nat)
    (hpre : execN C n (setH s0 ip stk g l m out) = some (setH s0 ip1 stk g1 l1 m1 out1))
    (hg : Grow μ st m.heap μ1 st1 m1.heap)
    (h : GoalU5 s0 CS C (d ++ Γ) Γ2 ab lp μ1 ip1 stk g1 l1 m1 out1 endIp st1 r) :
    GoalU5 s0 CS C Γ Γ2 ab lp μ ip stk g l m out endIp st r := by
  cases r with
  | val v st' => obtain ⟨μ', m', hre⟩ := h; exact ⟨μ', m', hre.prefix n hpre hg⟩
  | brk st' => obtain ⟨h1, μ', m', hre⟩ := h; exact ⟨h1, μ', m', (hre.prefix n hpre hg).weaken d⟩
  | cont st' => obtain ⟨h1, μ', m', hre⟩ := h; exact ⟨h1, μ', m', (hre.prefix n hpre hg).weaken d⟩
  | err er st' => exact Fails5.after n hpre h
  | ret _ _ => exact h
  | fuel => trivial
  | unspec _ => trivial
end comp

/-! ### one lemma per instruction -/
section steps
variable {C : Code} {s0 : VM} {i : Nat} {stk g : Array Value} {l : Value} {m : Mem} {out : List Text} {rest : List Instr}

theorem step_exec {ins : Instr} (h : CodeAt C i (ins :: rest)) :
    step C (setH s0 i stk g l m out) = exec ins (i + ins.size) (setH s0 i stk g l m out) := by
  rw [step_at (s := setH s0 i stk g l m out) (by simpa using h)]; rfl

theorem step_null (h : CodeAt C i (.null :: rest)) :
    step C (setH s0 i stk g l m out) = .next (setH s0 (i + 1) (stk.push .null) g l m out) := by
  rw [step_exec h]; rfl
theorem step_true (h : CodeAt C i (.true_ :: rest)) :
    step C (setH s0 i stk g l m out) = .next (setH s0 (i + 1) (stk.push (.bool true)) g l m out) := by
  rw [step_exec h]; rfl
theorem step_false (h : CodeAt C i (.false_ :: rest)) :
    step C (setH s0 i stk g l m out) = .next (setH s0 (i + 1) (stk.push (.bool false)) g l m out) := by
  rw [step_exec h]; rfl
theorem step_jump {t : Nat} (h : CodeAt C i (.jump t :: rest)) :
    step C (setH s0 i stk g l m out) = .next (setH s0 t stk g l m out) := by
  rw [step_exec h]; rfl
theorem step_pop {v : Value} (h : CodeAt C i (.pop :: rest)) :
    step C (setH s0 i (stk.push v) g l m out) = .next (setH s0 (i + 1) stk g v m out) := by
  rw [step_exec h]; simp [exec, pop1_push, setH, Instr.size]
theorem step_jif {t : Nat} {b : Bool} (h : CodeAt C i (.jumpIfFalse t :: rest)) :
    step C (setH s0 i (stk.push (.bool b)) g l m out) = .next (setH s0 (if b then i + 3 else t) stk g l m out) := by
  rw [step_exec h]; simp [exec, pop1_push, setH, Instr.size]
theorem step_jif_err {t : Nat} {v : Value} (h : CodeAt C i (.jumpIfFalse t :: rest)) (hv : ∀ b, v ≠ .bool b) :
    ∃ s2, step C (setH s0 i (stk.push v) g l m out) = .error .type s2 ∧ s2.out = out := by
  rw [step_exec h]
  cases v <;> simp only [exec, setH_stack, pop1_push] <;> first | exact ⟨_, rfl, rfl⟩ | exact absurd rfl (hv _)
theorem step_getGlobal {k : Nat} (h : CodeAt C i (.getGlobal k :: rest)) :
    step C (setH s0 i stk g l m out) = .next (setH s0 (i + 3) (stk.push (g.getD k .null)) g l m out) := by
  rw [step_exec h]; rfl
theorem step_setGlobal {k : Nat} {v : Value} (h : CodeAt C i (.setGlobal k :: rest)) :
    step C (setH s0 i (stk.push v) g l m out) = .next (setH s0 (i + 3) stk (setGlobalArr g k v) l m out) := by
  rw [step_exec h]
  simp only [exec, setH_stack, pop1_push, setH_globals, Instr.size]
  rfl
/-- a constant that is not a string is pushed as it is (an integer, or the shared box of a float) -/
theorem step_const {k : Nat} {v : Value} (h : CodeAt C i (.const k :: rest)) (hk : s0.cvals[k]? = some v) (hv : ∀ a, v ≠ .str a) :
    step C (setH s0 i stk g l m out) = .next (setH s0 (i + 3) (stk.push v) g l m out) := by
  rw [step_exec h]
  cases v <;> simp [exec, hk, setH, Instr.size] at hv ⊢
/-- a string constant is copied -/
theorem step_const_str {k a0 : Nat} (h : CodeAt C i (.const k :: rest)) (hk : s0.cvals[k]? = some (.str a0)) :
    step C (setH s0 i stk g l m out) =
      .next (setH s0 (i + 3) (stk.push (m.allocStr (m.heap.strAt a0)).2) g l (m.allocStr (m.heap.strAt a0)).1 out) := by
  rw [step_exec h]
  simp [exec, hk, setH, Instr.size]
end steps

end SimH
end Nl
