/- NameEvalH = Spec.eval on the resolver's output, stage-5 function-free fragment, continued: statements, sequences in statement
   and in value position, the assembly of the induction on the fuel, whole programs (C09). -/
import Nlmodel.Proofs.Lemmas.NameEvalHSimE
import Nlmodel.Proofs.Lemmas.NameEvalSim2
namespace Nl
namespace NameEvalH
open Sim Spec SimH
open NameEval (NState NRes Rel RelG At In bids findBid postS popRes liftN lift_rel)

theorem qs_succ (f : Nat) (q : QAll f) : QS (f + 1) := by
  intro s ab sc scs st s' st' ρ σ hs hinv hnd h hrel
  cases hs with
  | expr _ e hse =>
    simp only [resolveS] at h
    cases hr : resolveE e st with
    | error er => simp [hr] at h
    | ok p =>
      obtain ⟨e1, st1⟩ := p
      simp only [hr] at h
      injection h with h; injection h with h1 h2; subst h1
      have ih := q.e e ab _ st e1 st1 ρ σ hse hinv hnd hr hrel
      simp only [NameEvalH.evalS, Spec.evalS, postS]
      rcases ih.inv with ⟨a, ρ1, σ1, hn, hs, hr1⟩ | ⟨ρ1, σ1, hn, hs, hr1⟩ | ⟨ρ1, σ1, hn, hs, hr1⟩ | ⟨er, ρ1, σ1, hn, hs, hr1⟩ |
        ⟨ρ1, σ1, hn, hs⟩ | ⟨hn, hs⟩
      · simp only [hn, hs]; exact .val _ _ _ (hr1.setLast a)
      · simp only [hn, hs]; exact .brk _ _ ⟨sc, hr1⟩
      · simp only [hn, hs]; exact .cont _ _ ⟨sc, hr1⟩
      · pass_on hn hs hr1
      · pass_on hn hs hn
      · pass_on hn hs hn
  | letS _ n e hse =>
    simp only [resolveS] at h
    obtain ⟨hdef, hinv1⟩ := inv3_define st sc scs hinv n
    cases hr : resolveE e (st.define n).1 with
    | error er => simp [hr] at h
    | ok p =>
      obtain ⟨e1, st1⟩ := p
      simp only [hr] at h
      injection h with h; injection h with h1 h2; subst h1
      have hnd1 := NameEval.nodup_define st sc scs hinv hnd n
      have hrel0 := hrel.declare n st.nextId (NameEval.fresh_bids st _ hinv)
      have ih := q.e e ab _ _ e1 st1 (ρ.declare n) _ hse hinv1 hnd1 hr hrel0
      simp only [NameEvalH.evalS, Spec.evalS, postS, hdef, NameEval.unbind_global]
      rcases ih.inv with ⟨a, ρ1, σ1, hn, hs, hr1⟩ | ⟨ρ1, σ1, hn, hs, hr1⟩ | ⟨ρ1, σ1, hn, hs, hr1⟩ | ⟨er, ρ1, σ1, hn, hs, hr1⟩ |
        ⟨ρ1, σ1, hn, hs⟩ | ⟨hn, hs⟩
      · have hfb : findBid ((((n, st.nextId) :: sc) :: scs).flatten) n = some st.nextId := by simp [findBid]
        obtain ⟨ρ2, ha, hr2⟩ := hr1.assign hnd1 n _ a hfb
        simp only [hn, hs, ha, NameEval.bind_global]
        exact .val _ _ _ hr2
      · simp only [hn, hs]; exact .brk _ _ ⟨_, hr1⟩
      · simp only [hn, hs]; exact .cont _ _ ⟨_, hr1⟩
      · pass_on hn hs hr1
      · pass_on hn hs hn
      · pass_on hn hs hn
  | block _ b hsb =>
    simp only [resolveS] at h
    cases hb : resolveB b st with
    | error er => simp [hb] at h
    | ok p =>
      obtain ⟨b1, st1⟩ := p
      simp only [hb] at h
      injection h with h; injection h with h1 h2; subst h1
      have ih := q.b b ab (sc :: scs) st b1 st1 ρ σ hsb hinv hnd hb hrel
      simp only [NameEvalH.evalS, Spec.evalS, postS]
      exact ih.mono (fun _ _ h => h) (fun _ _ h => ⟨sc, h⟩)
  | brk =>
    simp only [resolveS] at h
    split at h
    · cases h
    · injection h with h; injection h with h1 h2; subst h1
      simp only [NameEvalH.evalS, Spec.evalS]
      exact .brk _ _ ⟨sc, hrel⟩
  | cont =>
    simp only [resolveS] at h
    split at h
    · cases h
    · injection h with h; injection h with h1 h2; subst h1
      simp only [NameEvalH.evalS, Spec.evalS]
      exact .cont _ _ ⟨sc, hrel⟩

theorem qss_succ (f : Nat) (q : QAll f) : QSs (f + 1) := by
  intro b ab sc scs st b' st' ρ σ hs hinv hnd h hrel
  cases hs with
  | nil =>
    simp only [resolveSs] at h; injection h with h; injection h with h1 h2; subst h1
    simp only [NameEvalH.evalSs, Spec.evalB]
    exact .val _ _ _ ⟨sc, hrel⟩
  | cons _ s rest hss hsrest =>
    simp only [resolveSs] at h
    cases hr : resolveS s st with
    | error er => simp [hr] at h
    | ok p =>
      obtain ⟨s1, st1⟩ := p
      simp only [hr] at h
      cases hr2 : resolveSs rest st1 with
      | error er => simp [hr2] at h
      | ok p2 =>
        obtain ⟨b1, st2⟩ := p2
        simp only [hr2] at h
        injection h with h; injection h with h1 h2; subst h1
        obtain ⟨hi1, hnd1⟩ := postS_invH s ab sc scs st s1 st1 hss hinv hnd hr
        have ih := q.s s ab sc scs st s1 st1 ρ σ hss hinv hnd hr hrel
        simp only [NameEvalH.evalSs, Spec.evalB]
        rcases ih.inv with ⟨a, ρ1, σ1, hn, hs, hr1⟩ | ⟨ρ1, σ1, hn, hs, hr1⟩ | ⟨ρ1, σ1, hn, hs, hr1⟩ | ⟨er, ρ1, σ1, hn, hs, hr1⟩ |
          ⟨ρ1, σ1, hn, hs⟩ | ⟨hn, hs⟩
        · cases a
          simp only [hn, hs]
          exact q.ss rest ab _ scs st1 b1 st2 ρ1 σ1 hsrest hi1 hnd1 hr2 hr1
        · pass_on hn hs hr1
        · pass_on hn hs hr1
        · pass_on hn hs hr1
        · pass_on hn hs hn
        · pass_on hn hs hn

theorem qbs_succ (f : Nat) (q : QAll f) : QBs (f + 1) := by
  intro b ab sc scs st b' st' ρ σ hs hinv hnd h hrel
  cases hs with
  | nil =>
    simp only [resolveSs] at h; injection h with h; injection h with h1 h2; subst h1
    simp only [NameEvalH.evalBVs, Spec.evalBV]
    exact .val _ _ _ ⟨sc, hrel⟩
  | cons _ s rest hss hsrest =>
    simp only [resolveSs] at h
    cases hr : resolveS s st with
    | error er => simp [hr] at h
    | ok p =>
      obtain ⟨s1, st1⟩ := p
      simp only [hr] at h
      cases hr2 : resolveSs rest st1 with
      | error er => simp [hr2] at h
      | ok p2 =>
        obtain ⟨b1, st2⟩ := p2
        simp only [hr2] at h
        injection h with h; injection h with h1 h2; subst h1
        obtain ⟨hi1, hnd1⟩ := postS_invH s ab sc scs st s1 st1 hss hinv hnd hr
        have ih := q.s s ab sc scs st s1 st1 ρ σ hss hinv hnd hr hrel
        have knull : ∀ ρ1 σ1, At (postS s st sc :: scs) ρ1 σ1 →
            RelG (In scs) (In scs) ((fun st1 => NRes.val SVal.null st1) ρ1) ((fun st1 => Res.val SVal.null st1) σ1) :=
          fun ρ1 σ1 h1 => .val _ _ _ ⟨_, h1⟩
        cases hsrest with
        | nil =>
          simp only [resolveSs] at hr2; injection hr2 with hr2; injection hr2 with hr21 hr22; subst hr21
          cases hss with
          | expr _ e hse =>
            simp only [resolveS] at hr
            cases hre : resolveE e st with
            | error er => simp [hre] at hr
            | ok p3 =>
              obtain ⟨e1, st3⟩ := p3
              simp only [hre] at hr
              injection hr with hr; injection hr with hr1 hr2; subst hr1
              simp only [NameEvalH.evalBVs, Spec.evalBV]
              exact (q.e e ab _ st e1 st3 ρ σ hse hinv hnd hre hrel).toIn
          | block _ b0 hsb =>
            simp only [resolveS] at hr
            cases hb : resolveB b0 st with
            | error er => simp [hb] at hr
            | ok p3 =>
              obtain ⟨b01, st3⟩ := p3
              simp only [hb] at hr
              injection hr with hr; injection hr with hr1 hr2; subst hr1
              cases hsb with
              | nil =>
                simp only [resolveB] at hb; injection hb with hb; injection hb with hb1 hb2; subst hb1
                have hN : NameEvalH.evalBVs (f + 1) (.cons (.block .nil) .nil) ρ =
                    liftN (NameEvalH.evalS f (.block .nil) ρ) (fun st1 => .val .null st1) := by
                  simp only [NameEvalH.evalBVs]; rfl
                have hS : Spec.evalBV (f + 1) (.cons (.block .nil) .nil) σ =
                    liftU (Spec.evalS f (.block .nil) σ) (fun st1 => .val .null st1) := by
                  simp only [Spec.evalBV]; exact liftU_eq _ _
                rw [hN, hS]
                exact lift_rel ih knull
              | cons _ s0 r0 hs0 hr0 =>
                have hshape : ∃ s01 r01, b01 = .cons s01 r01 := by
                  simp only [resolveB] at hb
                  cases hx : resolveS s0 st.enterScope with
                  | error er => simp [hx] at hb
                  | ok p4 =>
                    obtain ⟨s01, st4⟩ := p4
                    simp only [hx] at hb
                    cases hy : resolveSs r0 st4 with
                    | error er => simp [hy] at hb
                    | ok p5 =>
                      obtain ⟨r01, st5⟩ := p5
                      simp only [hy] at hb
                      injection hb with hb; injection hb with hb1 hb2
                      exact ⟨s01, r01, hb1.symm⟩
                obtain ⟨s01, r01, rfl⟩ := hshape
                simp only [NameEvalH.evalBVs, Spec.evalBV]
                exact (q.bv (.cons s0 r0) ab (sc :: scs) st _ st3 ρ σ (.cons _ _ _ hs0 hr0) hinv hnd hb hrel).toIn
          | letS _ n e hse =>
            simp only [resolveS] at hr
            cases hre : resolveE e (st.define n).1 with
            | error er => simp [hre] at hr
            | ok p3 =>
              obtain ⟨e1, st3⟩ := p3
              simp only [hre] at hr
              injection hr with hr; injection hr with hr1 hr2; subst hr1
              have hN : NameEvalH.evalBVs (f + 1) (.cons (.letS n e) .nil) ρ =
                  liftN (NameEvalH.evalS f (.letS n e) ρ) (fun st1 => .val .null st1) := by
                simp only [NameEvalH.evalBVs]; rfl
              have hS : Spec.evalBV (f + 1) (.cons (.letS (st.define n).2 e1) .nil) σ =
                  liftU (Spec.evalS f (.letS (st.define n).2 e1) σ) (fun st1 => .val .null st1) := by
                simp only [Spec.evalBV]; exact liftU_eq _ _
              rw [hN, hS]
              exact lift_rel ih knull
          | brk =>
            simp only [resolveS] at hr
            split at hr
            · cases hr
            · injection hr with hr; injection hr with hr1 hr2; subst hr1
              have hN : NameEvalH.evalBVs (f + 1) (.cons .brk .nil) ρ =
                  liftN (NameEvalH.evalS f .brk ρ) (fun st1 => .val .null st1) := by
                simp only [NameEvalH.evalBVs]; rfl
              have hS : Spec.evalBV (f + 1) (.cons .brk .nil) σ =
                  liftU (Spec.evalS f .brk σ) (fun st1 => .val .null st1) := by
                simp only [Spec.evalBV]; exact liftU_eq _ _
              rw [hN, hS]
              exact lift_rel ih knull
          | cont =>
            simp only [resolveS] at hr
            split at hr
            · cases hr
            · injection hr with hr; injection hr with hr1 hr2; subst hr1
              have hN : NameEvalH.evalBVs (f + 1) (.cons .cont .nil) ρ =
                  liftN (NameEvalH.evalS f .cont ρ) (fun st1 => .val .null st1) := by
                simp only [NameEvalH.evalBVs]; rfl
              have hS : Spec.evalBV (f + 1) (.cons .cont .nil) σ =
                  liftU (Spec.evalS f .cont σ) (fun st1 => .val .null st1) := by
                simp only [Spec.evalBV]; exact liftU_eq _ _
              rw [hN, hS]
              exact lift_rel ih knull
        | cons _ s2 rest2 hs2 hrest2 =>
          have hshape : ∃ s21 r21, b1 = .cons s21 r21 := by
            simp only [resolveSs] at hr2
            cases hx : resolveS s2 st1 with
            | error er => simp [hx] at hr2
            | ok p4 =>
              obtain ⟨s21, st4⟩ := p4
              simp only [hx] at hr2
              cases hy : resolveSs rest2 st4 with
              | error er => simp [hy] at hr2
              | ok p5 =>
                obtain ⟨r21, st5⟩ := p5
                simp only [hy] at hr2
                injection hr2 with hr2; injection hr2 with hb1 hb2
                exact ⟨s21, r21, hb1.symm⟩
          obtain ⟨s21, r21, rfl⟩ := hshape
          have hN : NameEvalH.evalBVs (f + 1) (.cons s (.cons s2 rest2)) ρ =
              liftN (NameEvalH.evalS f s ρ) (fun st1 => NameEvalH.evalBVs f (.cons s2 rest2) st1) := by
            cases s <;> (simp only [NameEvalH.evalBVs]; rfl)
          have hS : Spec.evalBV (f + 1) (.cons s1 (.cons s21 r21)) σ =
              liftU (Spec.evalS f s1 σ) (fun st1 => Spec.evalBV f (.cons s21 r21) st1) := by
            cases s1 <;> (simp only [Spec.evalBV]; exact liftU_eq _ _)
          rw [hN, hS]
          exact lift_rel ih fun ρ1 σ1 h1 =>
            q.bs (.cons s2 rest2) ab _ scs st1 _ st2 ρ1 σ1 (.cons _ _ _ hs2 hrest2) hi1 hnd1 hr2 h1

theorem qall : ∀ f, QAll f
  | 0 =>
    ⟨by intro _ _ _ _ _ _ _ _ _ _ _ _ _; simp only [NameEvalH.evalE, Spec.evalE]; exact .fuel,
     by intro _ _ _ _ _ _ _ _ _ _ _ _; simp only [NameEvalH.evalEs, Spec.evalEs]; exact .fuel,
     by intro _ _ _ _ _ _ _ _ _ _ _ _ _ _ _ _ _ _; simp only [NameEvalH.evalLoop, Spec.evalLoop]; exact .fuel,
     by intro _ _ _ _ _ _ _ _ _ _ _ _ _ _; simp only [NameEvalH.evalS, Spec.evalS]; exact .fuel,
     by intro _ _ _ _ _ _ _ _ _ _ _ _ _ _; simp only [NameEvalH.evalSs, Spec.evalB]; exact .fuel,
     by intro _ _ _ _ _ _ _ _ _ _ _ _ _ _; simp only [NameEvalH.evalBVs, Spec.evalBV]; exact .fuel⟩
  | f + 1 =>
    have ih := qall f
    ⟨qe_succ f ih, qes_succ f ih, ql_succ f ih, qs_succ f ih, qss_succ f ih, qbs_succ f ih⟩

/-- (H3b) for every program of the function-free stage-5 fragment (heap values) that the resolver accepts, and every fuel: the name-based evaluator on the
    SOURCE tree and the definitional evaluator on the RESOLVED tree give the same outcome (same value tree, same output, same
    error kind; out of fuel iff out of fuel; unspecified iff unspecified) -/
theorem nameEval_eq_spec (ast : Block) (hs : SimH.SHB false ast) (r : RBlock) (h : resolveProgram ast = .ok r) (F : Nat) :
    NameEvalH.evalProgram F ast = Spec.evalProgram F r := by
  unfold resolveProgram at h
  cases hr : resolveSs ast {} with
  | error er => simp [hr] at h
  | ok p =>
    obtain ⟨b, st'⟩ := p
    simp only [hr] at h
    injection h with h; subst h
    have hinv : Inv3 ({} : RState) [[]] := ⟨⟨0, rfl⟩, by intro p hp; simp at hp⟩
    have hrel : Rel ({} : NState) [[]] ({} : SState) := ⟨.cons .nil .nil, rfl, rfl, rfl⟩
    have hq := (qall F).ss ast false [] [] {} b st' {} {} hs hinv (by simp [bids]) hr hrel
    unfold NameEvalH.evalProgram Spec.evalProgram
    rcases hq.inv with ⟨a, ρ1, σ1, hn, hs, hr1⟩ | ⟨ρ1, σ1, hn, hs, hr1⟩ | ⟨ρ1, σ1, hn, hs, hr1⟩ | ⟨er, ρ1, σ1, hn, hs, hr1⟩ |
      ⟨ρ1, σ1, hn, hs⟩ | ⟨hn, hs⟩
    · cases a
      obtain ⟨sc, hr1⟩ := hr1
      simp only [hn, hs, NameEval.tree_mem hr1.store, hr1.last, hr1.out]
    · simp only [hn, hs]
    · simp only [hn, hs]
    · simp only [hn, hs, hr1]
    · simp only [hn, hs]
    · simp only [hn, hs]

end NameEvalH
end Nl
