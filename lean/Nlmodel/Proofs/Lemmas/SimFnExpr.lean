/- Stage 4: the statements of the simulation and the cases for expressions. -/
import Nlmodel.Proofs.Lemmas.SimFnComp
namespace Nl
namespace SimF
open Spec Sim

/-- function bodies: every normal or early completion is a return to the caller -/
def GoalF (W : World) (Γb : Gam) (below : Array Value) (fr : List Frame)
    (pos : Nat) (locs ops g : Array Value) (l : Value) (st : SState) (r : Res SVal) : Prop :=
  Ovf W.C (mkS W.s0 pos below locs ops g l fr) ∨
  match r with
  | .val v st' => Returns W Γb below fr pos locs ops g l v st st'
  | .ret v st' => Returns W Γb below fr pos locs ops g l v st st'
  | .brk _ => False
  | .cont _ => False
  | .err er _ => Fails W.C (mkS W.s0 pos below locs ops g l fr) er
  | .fuel => True
  | .unspec _ => True

section statements
variable (W : World)

def PE (f : Nat) : Prop := ∀ (nl : Nat) (fn : Bool) (Γ Γx Λ : Gam) (ab : Bool) (e : RExpr), YE nl fn Γ Λ ab e →
  ∀ (st : SState) (pos : Nat) (lp : LoopCtx) (cs : List Const) (below : Array Value) (fr : List Frame) (locs ops g : Array Value) (l : Value),
  Sc W fn Γ Γx Λ → Inv W (bigScope fn Γ Γx) Λ nl st locs g l →
  CodeAt W.C pos (emitE e pos lp cs).1 → PoolOK W.s0.cvals (emitE e pos lp cs).2 →
  GoalV W (bigScope fn Γ Γx) Λ nl below fr fn ab lp pos locs ops g l (pos + sizeE e) ops st (evalE f e st)

def PEs (f : Nat) : Prop := ∀ (nl : Nat) (fn : Bool) (Γ Γx Λ : Gam) (es : RExprs), YEs nl fn Γ Λ es →
  ∀ (st : SState) (pos : Nat) (lp : LoopCtx) (cs : List Const) (below : Array Value) (fr : List Frame) (locs ops g : Array Value) (l : Value),
  Sc W fn Γ Γx Λ → Inv W (bigScope fn Γ Γx) Λ nl st locs g l →
  CodeAt W.C pos (emitEs es pos lp cs).1 → PoolOK W.s0.cvals (emitEs es pos lp cs).2 →
  GoalEs W (bigScope fn Γ Γx) Λ nl below fr fn pos locs ops g l (pos + sizeEs es) st (evalEs f es st)

def PBV (f : Nat) : Prop := ∀ (nl : Nat) (fn : Bool) (Γ Γx Λ : Gam) (ab : Bool) (b : RBlock) (Γ1 Λ1 : Gam), YB nl fn Γ Λ ab b Γ1 Λ1 →
  ∀ (st : SState) (pos : Nat) (lp : LoopCtx) (cs : List Const) (below : Array Value) (fr : List Frame) (locs ops g : Array Value) (l : Value),
  Sc W fn Γ Γx Λ → Inv W (bigScope fn Γ Γx) Λ nl st locs g l →
  CodeAt W.C pos (asValue b (emitB b pos lp cs).1) → PoolOK W.s0.cvals (emitB b pos lp cs).2 →
  GoalV W (bigScope fn Γ Γx) Λ nl below fr fn ab lp pos locs ops g l (pos + sizeBV b) ops st (evalBV f b st)

def PS (f : Nat) : Prop := ∀ (nl : Nat) (fn : Bool) (Γ Γx Λ : Gam) (ab : Bool) (s : RStmt) (Γ1 Λ1 : Gam), YS nl fn Γ Λ ab s Γ1 Λ1 →
  ∀ (st : SState) (pos : Nat) (lp : LoopCtx) (cs : List Const) (below : Array Value) (fr : List Frame) (locs ops g : Array Value) (l : Value),
  Sc W fn Γ Γx Λ → Inv W (bigScope fn Γ Γx) Λ nl st locs g l →
  CodeAt W.C pos (emitS s pos lp cs).1 → PoolOK W.s0.cvals (emitS s pos lp cs).2 →
  GoalU W (bigScope fn Γ Γx) Λ (bigScope fn Γ1 Γx) Λ1 nl below fr fn ab lp pos locs ops g l (pos + sizeS s) st (evalS f s st)

def PB (f : Nat) : Prop := ∀ (nl : Nat) (fn : Bool) (Γ Γx Λ : Gam) (ab : Bool) (b : RBlock) (Γ1 Λ1 : Gam), YB nl fn Γ Λ ab b Γ1 Λ1 →
  ∀ (st : SState) (pos : Nat) (lp : LoopCtx) (cs : List Const) (below : Array Value) (fr : List Frame) (locs ops g : Array Value) (l : Value),
  Sc W fn Γ Γx Λ → Inv W (bigScope fn Γ Γx) Λ nl st locs g l →
  CodeAt W.C pos (emitB b pos lp cs).1 → PoolOK W.s0.cvals (emitB b pos lp cs).2 →
  GoalU W (bigScope fn Γ Γx) Λ (bigScope fn Γ1 Γx) Λ1 nl below fr fn ab lp pos locs ops g l (pos + sizeB b) st (evalB f b st)

def PL (f : Nat) : Prop := ∀ (nl : Nat) (fn : Bool) (Γ Γx Λ : Gam) (ab : Bool) (c : RExpr) (b : RBlock) (Γ1 Λ1 : Gam),
  YE nl fn Γ Λ false c → YB nl fn Γ Λ true b Γ1 Λ1 →
  ∀ (st : SState) (pos : Nat) (lp : LoopCtx) (cs : List Const) (below : Array Value) (fr : List Frame) (locs ops g : Array Value) (l : Value)
    (acc : SVal) (accv : Value), VR W.ft W.Γp acc accv →
  Sc W fn Γ Γx Λ → Inv W (bigScope fn Γ Γx) Λ nl st locs g l →
  CodeAt W.C pos (emitE (.whileE c b) pos lp cs).1 → PoolOK W.s0.cvals (emitE (.whileE c b) pos lp cs).2 →
  GoalV W (bigScope fn Γ Γx) Λ nl below fr fn ab lp (pos + 1) locs (ops.push accv) g l (pos + sizeE (.whileE c b)) ops st (evalLoop f c b acc st)

def PBF (f : Nat) : Prop := ∀ (nl : Nat) (Γ Γx Λ : Gam) (b : RBlock) (Γ1 Λ1 : Gam), YB nl true Γ Λ false b Γ1 Λ1 →
  ∀ (st : SState) (pos : Nat) (cs : List Const) (below : Array Value) (fr : List Frame) (locs g : Array Value) (l : Value),
  Sc W true Γ Γx Λ → Inv W Γx Λ nl st locs g l →
  CodeAt W.C pos (asFnBody b (emitB b pos none cs).1) → PoolOK W.s0.cvals (emitB b pos none cs).2 →
  GoalF W Γx below fr pos locs #[] g l st (evalBV f b st)

structure PAll (f : Nat) : Prop where
  e : PE W f
  es : PEs W f
  bv : PBV W f
  s : PS W f
  b : PB W f
  l : PL W f
  bf : PBF W f
end statements

/-! ### expressions -/
section expr
variable {W : World} {nl : Nat} {fn : Bool} {Γ Γx Λ : Gam} {ab : Bool} {st : SState} {pos : Nat} {lp : LoopCtx} {cs : List Const}
  {below : Array Value} {fr : List Frame} {locs ops g : Array Value} {l : Value}

theorem pe_int (f : Nat) (v : Int)
    (hinv : Inv W (bigScope fn Γ Γx) Λ nl st locs g l)
    (hcode : CodeAt W.C pos (emitE (.int v) pos lp cs).1) (hpool : PoolOK W.s0.cvals (emitE (.int v) pos lp cs).2) :
    GoalV W (bigScope fn Γ Γx) Λ nl below fr fn ab lp pos locs ops g l (pos + sizeE (.int v)) ops st (evalE (f + 1) (.int v) st) := by
  simp only [evalE, emitE] at hcode hpool ⊢
  have hk := hpool _ v (addConst_int_index cs v)
  exact .inr ⟨.int v, rfl, locs, g, l, 1, execN_one W.C _ _ (step_const hcode hk (by simp)), hinv, rfl⟩

theorem pe_bool (f : Nat) (b : Bool)
    (hinv : Inv W (bigScope fn Γ Γx) Λ nl st locs g l)
    (hcode : CodeAt W.C pos (emitE (.bool b) pos lp cs).1) :
    GoalV W (bigScope fn Γ Γx) Λ nl below fr fn ab lp pos locs ops g l (pos + sizeE (.bool b)) ops st (evalE (f + 1) (.bool b) st) := by
  simp only [evalE, emitE] at hcode ⊢
  refine .inr ⟨.bool b, rfl, locs, g, l, 1, ?_, hinv, rfl⟩
  cases b
  · exact execN_one W.C _ _ (step_false hcode)
  · exact execN_one W.C _ _ (step_true hcode)

theorem pe_varG (f : Nat) (b k : Nat) (hm : (b, k) ∈ Γ) (hsc : Sc W fn Γ Γx Λ)
    (hinv : Inv W (bigScope fn Γ Γx) Λ nl st locs g l)
    (hcode : CodeAt W.C pos (emitE (.var ⟨b, .global k⟩) pos lp cs).1) :
    GoalV W (bigScope fn Γ Γx) Λ nl below fr fn ab lp pos locs ops g l (pos + sizeE (.var ⟨b, .global k⟩)) ops st
      (evalE (f + 1) (.var ⟨b, .global k⟩) st) := by
  simp only [evalE, emitE, getVar] at hcode ⊢
  simp only [SState.lookup, isGlobalSlot, ↓reduceIte]
  cases hl : envGet st.genv b with
  | none => exact .inr trivial
  | some v =>
    obtain ⟨mv, hmv, hg⟩ := hinv.relG b k (hsc.sub _ hm) v hl
    refine .inr ⟨mv, hmv, locs, g, l, 1, ?_, hinv, rfl⟩
    rw [← hg]
    exact execN_one W.C _ _ (step_getGlobal hcode)

theorem pe_varL (f : Nat) (b k : Nat) (hm : (b, k) ∈ Λ)
    (hinv : Inv W (bigScope fn Γ Γx) Λ nl st locs g l)
    (hcode : CodeAt W.C pos (emitE (.var ⟨b, .loc k⟩) pos lp cs).1) :
    GoalV W (bigScope fn Γ Γx) Λ nl below fr fn ab lp pos locs ops g l (pos + sizeE (.var ⟨b, .loc k⟩)) ops st
      (evalE (f + 1) (.var ⟨b, .loc k⟩) st) := by
  simp only [evalE, emitE, getVar] at hcode ⊢
  simp only [SState.lookup, isGlobalSlot, Bool.false_eq_true, ↓reduceIte]
  cases hl : envGet st.lenv b with
  | none => exact .inr trivial
  | some v =>
    obtain ⟨mv, hmv, hg⟩ := hinv.relL b k hm v hl
    exact .inr ⟨mv, hmv, locs, g, l, 1, execN_one W.C _ _ (step_getLocal hcode hg), hinv, rfl⟩

/-- unary operators: evaluate the operand, then one instruction on the top of the frame -/
theorem goalV_unary {sz : Nat} (ins : Instr) (hsz : ins.size = 1) (r : Res SVal) (post : SVal → SState → Res SVal)
    (hc2 : CodeAt W.C (pos + sz) [ins])
    (h : GoalV W (bigScope fn Γ Γx) Λ nl below fr fn ab lp pos locs ops g l (pos + sz) ops st r)
    (hpost : ∀ v st1 mv, VR W.ft W.Γp v mv →
      (∃ w mw, post v st1 = .val w st1 ∧ VR W.ft W.Γp w mw ∧
        ∀ locs1 g1 l1, exec ins (pos + sz + 1) (mkS W.s0 (pos + sz) below locs1 (ops.push mv) g1 l1 fr) =
          .next (mkS W.s0 (pos + sz + 1) below locs1 (ops.push mw) g1 l1 fr)) ∨
      (∃ er, post v st1 = .err er st1 ∧ ∀ locs1 g1 l1, ∃ s2, exec ins (pos + sz + 1) (mkS W.s0 (pos + sz) below locs1 (ops.push mv) g1 l1 fr) = .error er s2)) :
    GoalV W (bigScope fn Γ Γx) Λ nl below fr fn ab lp pos locs ops g l (pos + (sz + 1)) ops st
      (match (generalizing := false) r with | .val v st1 => post v st1 | o => o) := by
  rcases h with h | h
  · exact .inl h
  cases r with
  | val v st1 =>
    obtain ⟨mv, hmv, locs1, g1, l1, n, hn, hinv1, ho1⟩ := h
    simp only
    rcases hpost v st1 mv hmv with ⟨w, mw, hp, hmw, hex⟩ | ⟨er, hp, hex⟩
    · rw [hp]
      refine .inr ⟨mw, hmw, locs1, g1, l1, n + 1, ?_, hinv1, ho1⟩
      apply execN_step W.C n _ _ _ hn
      rw [step_exec hc2, hsz, hex locs1 g1 l1, Nat.add_assoc]
    · rw [hp]
      obtain ⟨s2, hs2⟩ := hex locs1 g1 l1
      exact .inr ⟨n, _, s2, hn, by rw [step_exec hc2, hsz, hs2]⟩
  | brk st' => exact .inr h
  | cont st' => exact .inr h
  | err er st' => exact .inr h
  | ret _ _ => exact .inr h
  | fuel => exact .inr trivial
  | unspec _ => exact .inr trivial

theorem pe_not (f : Nat) (ih : PE W f) (e1 : RExpr) (h1 : YE nl fn Γ Λ ab e1) (hsc : Sc W fn Γ Γx Λ)
    (hinv : Inv W (bigScope fn Γ Γx) Λ nl st locs g l)
    (hcode : CodeAt W.C pos (emitE (.not e1) pos lp cs).1) (hpool : PoolOK W.s0.cvals (emitE (.not e1) pos lp cs).2) :
    GoalV W (bigScope fn Γ Γx) Λ nl below fr fn ab lp pos locs ops g l (pos + sizeE (.not e1)) ops st (evalE (f + 1) (.not e1) st) := by
  simp only [emitE] at hcode hpool
  obtain ⟨hc1, hc2⟩ := hcode.append
  rw [emitE_size] at hc2
  have h := ih nl fn Γ Γx Λ ab e1 h1 st pos lp cs below fr locs ops g l hsc hinv hc1 hpool
  have e : evalE (f + 1) (.not e1) st = (match evalE f e1 st with
      | .val v st1 => (match v with | .bool b => Res.val (.bool (!b)) st1 | _ => .err .type st1) | o => o) := by
    simp only [evalE]
    cases evalE f e1 st with
    | val v st1 => cases v <;> rfl
    | _ => rfl
  rw [e]
  simp only [sizeE]
  exact goalV_unary (ins := .not) rfl (evalE f e1 st)
    (fun v st1 => match v with | .bool b => .val (.bool (!b)) st1 | _ => .err .type st1) hc2 h
    (by
      intro v st1 mv hmv
      cases v <;> cases mv <;> simp only [VR] at hmv <;> try exact absurd hmv id
      · exact .inr ⟨.type, rfl, fun locs1 g1 l1 => ⟨_, by simp only [exec, mkS_stack, pop_frame]; rfl⟩⟩
      · subst hmv
        rename_i bb
        exact .inl ⟨.bool (!bb), .bool (!bb), rfl, rfl, fun locs1 g1 l1 => by
          simp only [exec, mkS_stack, pop_frame, frame_push]; rfl⟩
      · exact .inr ⟨.type, rfl, fun locs1 g1 l1 => ⟨_, by simp only [exec, mkS_stack, pop_frame]; rfl⟩⟩
      · exact .inr ⟨.type, rfl, fun locs1 g1 l1 => ⟨_, by simp only [exec, mkS_stack, pop_frame]; rfl⟩⟩)

theorem pe_neg (f : Nat) (ih : PE W f) (e1 : RExpr) (h1 : YE nl fn Γ Λ ab e1) (hsc : Sc W fn Γ Γx Λ)
    (hinv : Inv W (bigScope fn Γ Γx) Λ nl st locs g l)
    (hcode : CodeAt W.C pos (emitE (.neg e1) pos lp cs).1) (hpool : PoolOK W.s0.cvals (emitE (.neg e1) pos lp cs).2) :
    GoalV W (bigScope fn Γ Γx) Λ nl below fr fn ab lp pos locs ops g l (pos + sizeE (.neg e1)) ops st (evalE (f + 1) (.neg e1) st) := by
  simp only [emitE] at hcode hpool
  obtain ⟨hc1, hc2⟩ := hcode.append
  rw [emitE_size] at hc2
  have h := ih nl fn Γ Γx Λ ab e1 h1 st pos lp cs below fr locs ops g l hsc hinv hc1 hpool
  have e : evalE (f + 1) (.neg e1) st = (match evalE f e1 st with
      | .val v st1 => (match v with
        | .int i => if inRange (-i) then Res.val (.int (-i)) st1 else .err .type st1
        | .float x => .val (.float (F64.neg x)) st1
        | _ => .err .type st1) | o => o) := by
    simp only [evalE]
    cases evalE f e1 st with
    | val v st1 => cases v <;> rfl
    | _ => rfl
  rw [e]
  simp only [sizeE]
  exact goalV_unary (ins := .negate) rfl (evalE f e1 st)
    (fun v st1 => match v with
        | .int i => if inRange (-i) then Res.val (.int (-i)) st1 else .err .type st1
        | .float x => .val (.float (F64.neg x)) st1
        | _ => .err .type st1) hc2 h
    (by
      intro v st1 mv hmv
      cases v <;> cases mv <;> simp only [VR] at hmv <;> try exact absurd hmv id
      · exact .inr ⟨.type, rfl, fun locs1 g1 l1 => ⟨_, by simp only [exec, mkS_stack, pop_frame]; rfl⟩⟩
      · exact .inr ⟨.type, rfl, fun locs1 g1 l1 => ⟨_, by simp only [exec, mkS_stack, pop_frame]; rfl⟩⟩
      · subst hmv
        rename_i i
        by_cases hin : inRange (-i) = true
        · exact .inl ⟨.int (-i), .int (-i), by simp [hin], rfl, fun locs1 g1 l1 => by
            simp only [exec, mkS_stack, pop_frame, hin, ↓reduceIte, frame_push]; rfl⟩
        · exact .inr ⟨.type, by simp [hin], fun locs1 g1 l1 => ⟨_, by simp only [exec, mkS_stack, pop_frame, hin]; rfl⟩⟩
      · exact .inr ⟨.type, rfl, fun locs1 g1 l1 => ⟨_, by simp only [exec, mkS_stack, pop_frame]; rfl⟩⟩)

end expr
end SimF
end Nl
