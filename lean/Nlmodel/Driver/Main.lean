import Nlmodel.Driver.Proto
import Nlmodel.Model.Pipeline
import Nlmodel.Driver.Instrumented
import Nlmodel.Driver.Tables
import Nlmodel.Driver.ObjOps
open Nl

/-- character classes: loaded from the table dumped by the harness from Rust's std
    (lines `alpha <lo> <hi>` / `alnum <lo> <hi>`, inclusive code-point ranges, sorted) -/
structure Ranges where
  alpha : Array (Nat × Nat) := #[]
  alnum : Array (Nat × Nat) := #[]

def inRanges (rs : Array (Nat × Nat)) (c : Nat) : Bool := Id.run do
  let mut lo := 0
  let mut hi := rs.size
  while lo < hi do
    let mid := (lo + hi) / 2
    let (a, b) := rs[mid]!
    if c < a then hi := mid
    else if c > b then lo := mid + 1
    else return true
  return false

def loadRanges (path : String) : IO Ranges := do
  let txt ← IO.FS.readFile path
  let mut r : Ranges := {}
  for line in txt.splitOn "\n" do
    match line.trimAscii.toString.splitOn " " with
    | ["alpha", a, b] => r := { r with alpha := r.alpha.push (a.toNat!, b.toNat!) }
    | ["alnum", a, b] => r := { r with alnum := r.alnum.push (a.toNat!, b.toNat!) }
    | _ => pure ()
  return r

def mkCC (r : Ranges) : CharClass where
  alpha c := if c.toNat < 128 then c.isAlpha else inRanges r.alpha c.toNat
  alnum c := if c.toNat < 128 then c.isAlphanum else inRanges r.alnum c.toNat

def showCode (c : Code) : String :=
  c.foldl (fun acc b => acc ++ hexByte (UInt8.ofNat b)) "x"

def showConst : Const → String
  | .int i => "i:" ++ toString i
  | .float x => if F64.isNaN x then "f:nan" else "f:" ++ hex64 x
  | .str s => "s:" ++ hexText s
  | .fn ip nl => "fn:" ++ toString ip ++ ":" ++ toString nl

def handle (cc : CharClass) (line : String) : String :=
  match line.trimAscii.toString.splitOn " " with
  | ["lex", h] =>
    match unhexText h with
    | some t => "ok " ++ " ".intercalate ((lex cc t).map Token.show)
    | none => "bad-hex"
  | ["parse", h] =>
    match unhexText h with
    | some t =>
      match parse cc t with
      | .ok b => "ok " ++ b.sexp
      | .error e => "err " ++ e.name
    | none => "bad-hex"
  | ["compile", h] =>
    match unhexText h with
    | some t =>
      match parse cc t with
      | .error e => "err " ++ e.name
      | .ok ast =>
        match compileProgram ast with
        | .error e => "err " ++ e.name
        | .ok (_, bc) => "ok " ++ showCode bc.code ++ " | " ++ " ".intercalate (bc.consts.map showConst)
    | none => "bad-hex"
  | ["eval", b, h] =>
    match unhexText h with
    | some t => (evalText cc b.toNat! t).show
    | none => "bad-hex"
  | ["tables"] => modelTables
  | "obj" :: rest => handleObj rest
  | ["evalx", b, h] =>
    match unhexText h with
    | some t => evalTextX cc b.toNat! t
    | none => "bad-hex"
  | ["spec", b, h] =>
    match unhexText h with
    | some t => (specText cc b.toNat! t).show
    | none => "bad-hex"
  | _ => "bad-request"

partial def loop (cc : CharClass) (h : IO.FS.Stream) (out : IO.FS.Stream) : IO Unit := do
  let line ← h.getLine
  if line.isEmpty then return ()
  out.putStrLn (handle cc line)
  loop cc h out

def main (args : List String) : IO Unit := do
  let r ← match args with
    | [p] => loadRanges p
    | _ => pure {}
  let out ← IO.getStdout
  loop (mkCC r) (← IO.getStdin) out
