/- The resolver produces well-formed trees (`WfDefs`): every local slot is below the owner's `nlocals`
   (`max_size` of its context), `antwoord` only inside a function, `stop`/`volgende` only inside a loop
   of the same function.  Whole language. -/
import Nlmodel.Proofs.Lemmas.WfDefs
namespace Nl
namespace CV

def CInv (l : List Ctx) : Prop := ∃ c cs, l = c :: cs ∧ c.totalLen ≤ c.maxSize

def CStep (l l' : List Ctx) : Prop :=
  ∃ c c' cs, l = c :: cs ∧ l' = c' :: cs ∧ c'.isGlobal = c.isGlobal ∧ c.maxSize ≤ c'.maxSize ∧ c'.totalLen ≤ c'.maxSize

def CBnd (l : List Ctx) (nl : Nat) : Prop := ∃ c cs, l = c :: cs ∧ (c.isGlobal = true ∨ c.maxSize ≤ nl)

def Step (st st' : RState) : Prop :=
  CStep st.ctxs st'.ctxs ∧ st'.loopDepth = st.loopDepth ∧ st'.funcDepth = st.funcDepth

theorem CStep.refl {l : List Ctx} (h : CInv l) : CStep l l := by
  obtain ⟨c, cs, rfl, hle⟩ := h
  exact ⟨c, c, cs, rfl, rfl, rfl, Nat.le_refl _, hle⟩

theorem CStep.trans {a b c : List Ctx} (h1 : CStep a b) (h2 : CStep b c) : CStep a c := by
  obtain ⟨x, x', xs, rfl, rfl, hg, hm, _⟩ := h1
  obtain ⟨y, y', ys, hb, rfl, hg', hm', hl'⟩ := h2
  obtain ⟨rfl, rfl⟩ := List.cons.inj hb
  exact ⟨x, y', xs, rfl, rfl, hg'.trans hg, Nat.le_trans hm hm', hl'⟩

theorem CStep.inv {a b : List Ctx} (h : CStep a b) : CInv b := by
  obtain ⟨x, x', xs, rfl, rfl, _, _, hl⟩ := h
  exact ⟨x', xs, rfl, hl⟩

theorem CStep.bnd {a b : List Ctx} (h : CStep a b) {nl : Nat} (hb : CBnd b nl) : CBnd a nl := by
  obtain ⟨x, x', xs, rfl, rfl, hg, hm, _⟩ := h
  obtain ⟨y, ys, hy, hor⟩ := hb
  obtain ⟨rfl, rfl⟩ := List.cons.inj hy
  refine ⟨x, xs, rfl, ?_⟩
  rcases hor with h | h
  · exact .inl (hg ▸ h)
  · exact .inr (Nat.le_trans hm h)

theorem Step.refl {st : RState} (h : CInv st.ctxs) : Step st st := ⟨.refl h, rfl, rfl⟩
theorem Step.trans {a b c : RState} (h1 : Step a b) (h2 : Step b c) : Step a c :=
  ⟨h1.1.trans h2.1, h2.2.1.trans h1.2.1, h2.2.2.trans h1.2.2⟩
theorem Step.inv {a b : RState} (h : Step a b) : CInv b.ctxs := h.1.inv

/-- a traversal step `st → st'` that produces something satisfying `P` -/
def Good (P : Bool → Nat → Bool → Prop) (st st' : RState) : Prop :=
  Step st st' ∧ ∀ fn nl lb, (st.funcDepth ≠ 0 → fn = true) → (st.loopDepth ≠ 0 → lb = true) →
    CBnd st'.ctxs nl → P fn nl lb

theorem Good.ofStep {a b : RState} (h : Step a b) : Good (fun _ _ _ => True) a b :=
  ⟨h, fun _ _ _ _ _ _ => trivial⟩

theorem Good.seq {P Q R : Bool → Nat → Bool → Prop} {a b c : RState}
    (h1 : Good P a b) (h2 : Good Q b c) (hR : ∀ fn nl lb, P fn nl lb → Q fn nl lb → R fn nl lb) :
    Good R a c := by
  refine ⟨h1.1.trans h2.1, ?_⟩
  intro fn nl lb hf hl hb
  refine hR fn nl lb (h1.2 fn nl lb hf hl (h2.1.1.bnd hb)) (h2.2 fn nl lb ?_ ?_ hb)
  · rw [h1.1.2.2]; exact hf
  · rw [h1.1.2.1]; exact hl

theorem Good.mono {P Q : Bool → Nat → Bool → Prop} {a b : RState}
    (h1 : Good P a b) (hR : ∀ fn nl lb, P fn nl lb → Q fn nl lb) : Good Q a b :=
  ⟨h1.1, fun fn nl lb hf hl hb => hR fn nl lb (h1.2 fn nl lb hf hl hb)⟩

theorem Good.and {P Q : Bool → Nat → Bool → Prop} {a b c : RState}
    (h1 : Good P a b) (h2 : Good Q b c) : Good (fun fn nl lb => P fn nl lb ∧ Q fn nl lb) a c :=
  h1.seq h2 (fun _ _ _ h1 h2 => ⟨h1, h2⟩)

theorem Good.stepL {P : Bool → Nat → Bool → Prop} {a b c : RState}
    (h1 : Step a b) (h2 : Good P b c) : Good P a c :=
  (Good.ofStep h1).seq h2 (fun _ _ _ _ h => h)

theorem Good.stepR {P : Bool → Nat → Bool → Prop} {a b c : RState}
    (h1 : Good P a b) (h2 : Step b c) : Good P a c :=
  h1.seq (Good.ofStep h2) (fun _ _ _ h _ => h)

/-! ### the symbol table operations -/

theorem ctx_define_facts (c : Ctx) (n : Text) (bid : Nat) :
    (c.define n bid).2 = c.totalLen ∧ (c.define n bid).1.isGlobal = c.isGlobal ∧
    (c.define n bid).1.maxSize = c.maxSize + 1 ∧ (c.define n bid).1.totalLen = c.totalLen + 1 := by
  obtain ⟨g, m, scs⟩ := c
  cases scs with
  | nil => simp [Ctx.define, Ctx.totalLen, Ctx.flat]
  | cons s ss => simp [Ctx.define, Ctx.totalLen, Ctx.flat]

theorem lookupFlat_lt : (l : List (Text × Nat)) → (n : Text) → (i b : Nat) → lookupFlat l n = some (i, b) → i < l.length
  | [], n, i, b, h => by simp [lookupFlat] at h
  | (m, bid) :: rest, n, i, b, h => by
    simp only [lookupFlat] at h
    split at h
    · simp only [Option.some.injEq, Prod.mk.injEq] at h
      simp only [List.length_cons]; omega
    · have := lookupFlat_lt rest n i b h
      simp only [List.length_cons]; omega

theorem define_good (st : RState) (n : Text) (hI : CInv st.ctxs) :
    Good (fun _ nl _ => SlotOK nl (st.define n).2.slot) st (st.define n).1 := by
  obtain ⟨c, cs, hc, hle⟩ := hI
  obtain ⟨h1, h2, h3, h4⟩ := ctx_define_facts c n st.nextId
  have hs : (st.define n).1.ctxs = (c.define n st.nextId).1 :: cs := by
    unfold RState.define; rw [hc]
  have hr : (st.define n).2.slot = if c.isGlobal then .global c.totalLen else .loc c.totalLen := by
    unfold RState.define; rw [hc]; simp only [h1]
  have hl : (st.define n).1.loopDepth = st.loopDepth := by unfold RState.define; rw [hc]
  have hf : (st.define n).1.funcDepth = st.funcDepth := by unfold RState.define; rw [hc]
  refine ⟨⟨⟨c, _, cs, hc, hs, h2, by omega, by omega⟩, hl, hf⟩, ?_⟩
  intro fn nl lb _ _ hb
  obtain ⟨y, ys, hy, hor⟩ := hb
  rw [hs] at hy
  obtain ⟨rfl, rfl⟩ := List.cons.inj hy
  rw [hr]
  cases hg : c.isGlobal with
  | true => simp [SlotOK]
  | false =>
    rw [h2, hg] at hor
    simp only [Bool.false_eq_true, false_or, ↓reduceIte, SlotOK] at hor ⊢
    omega

theorem resolve_ok (st : RState) (n : Text) (r : Ref) (hI : CInv st.ctxs) (h : st.resolve n = some r) :
    ∀ nl, CBnd st.ctxs nl → SlotOK nl r.slot := by
  obtain ⟨c, cs, hc, hle⟩ := hI
  intro nl hb
  obtain ⟨y, ys, hy, hor⟩ := hb
  rw [hc] at hy
  obtain ⟨rfl, rfl⟩ := List.cons.inj hy
  unfold RState.resolve at h
  rw [hc] at h
  simp only at h
  cases hl : c.resolve n with
  | some p =>
    obtain ⟨idx, bid⟩ := p
    simp only [hl, Option.some.injEq] at h
    subst h
    have hlt := lookupFlat_lt _ _ _ _ hl
    cases hg : c.isGlobal with
    | true => simp [SlotOK]
    | false =>
      rw [hg] at hor
      simp only [Bool.false_eq_true, false_or, ↓reduceIte, SlotOK] at hor ⊢
      simp only [Ctx.totalLen] at hle
      omega
  | none =>
    simp only [hl] at h
    split at h
    · split at h
      · simp only [Option.some.injEq] at h; subst h; simp [SlotOK]
      · cases h
    · cases h

theorem enter_step (st : RState) (hI : CInv st.ctxs) : Step st st.enterScope := by
  obtain ⟨c, cs, hc, hle⟩ := hI
  unfold RState.enterScope
  rw [hc]
  refine ⟨⟨c, _, cs, hc, rfl, rfl, Nat.le_refl _, ?_⟩, rfl, rfl⟩
  simpa [Ctx.totalLen, Ctx.flat] using hle

theorem leave_step (st : RState) (hI : CInv st.ctxs) : Step st st.leaveScope := by
  obtain ⟨c, cs, hc, hle⟩ := hI
  unfold RState.leaveScope
  rw [hc]
  refine ⟨⟨c, _, cs, hc, rfl, rfl, Nat.le_refl _, ?_⟩, rfl, rfl⟩
  simp only [Ctx.totalLen, Ctx.flat] at hle ⊢
  cases hs : c.scopes with
  | nil => simp
  | cons s ss => rw [hs] at hle; simp at hle ⊢; omega

theorem params_step : (ps : List Text) → (st : RState) → CInv st.ctxs → Step st (defineParams st ps).1
  | [], st, hI => by simp only [defineParams]; exact .refl hI
  | p :: ps, st, hI => by
    simp only [defineParams]
    have h1 := (define_good st p hI).1
    exact h1.trans (params_step ps _ h1.inv)


theorem Good.loop {P : Bool → Nat → Bool → Prop} {a b : RState}
    (h : Good P { a with loopDepth := a.loopDepth + 1 } b) :
    Good (fun fn nl _ => P fn nl true) a { b with loopDepth := a.loopDepth } := by
  refine ⟨⟨h.1.1, rfl, h.1.2.2⟩, ?_⟩
  intro fn nl lb hf _ hb
  exact h.2 fn nl true hf (fun _ => rfl) hb


def funcIn (st1 : RState) : RState :=
  { st1 with ctxs := { isGlobal := false } :: st1.ctxs, loopDepth := 0,
             funcDepth := st1.funcDepth + 1, nextFid := st1.nextFid + 1 }

theorem func_core (st st1 : RState) (self : Option Ref) (ps : List Text) (body : Block) (r : RExpr) (st' : RState)
    (hpre : Good (fun _ nl _ => SelfOK nl self) st st1)
    (h : (match resolveB body (defineParams (funcIn st1) ps).1 with
      | .ok (b', st4) =>
        .ok (RExpr.func st1.nextFid self (defineParams (funcIn st1) ps).2
              (match st4.ctxs with | c :: _ => c.maxSize | [] => 0) b',
            { st4 with ctxs := st4.ctxs.tail, loopDepth := st1.loopDepth, funcDepth := st1.funcDepth })
      | .error e => .error e) = Except.ok (r, st'))
    (ih : ∀ st3 b' st4, resolveB body st3 = .ok (b', st4) → CInv st3.ctxs →
      Good (fun fn nl lb => WfB fn nl lb b') st3 st4) :
    Good (fun fn nl lb => WfE fn nl lb r) st st' := by
  have hI2 : CInv (funcIn st1).ctxs := ⟨{ isGlobal := false }, st1.ctxs, rfl, by simp [Ctx.totalLen, Ctx.flat]⟩
  have hp := params_step ps (funcIn st1) hI2
  cases hb : resolveB body (defineParams (funcIn st1) ps).1 with
  | error e => simp [hb] at h
  | ok p =>
    obtain ⟨b', st4⟩ := p
    simp only [hb, Except.ok.injEq, Prod.mk.injEq] at h
    obtain ⟨rfl, rfl⟩ := h
    have hB := ih _ b' st4 hb hp.inv
    have h24 := hp.trans hB.1
    obtain ⟨⟨c, c', cs, hc, hc', hg, hm, hl⟩, hld, hfd⟩ := h24
    obtain ⟨rfl, rfl⟩ := List.cons.inj (show { isGlobal := false } :: st1.ctxs = c :: cs from hc)
    refine ⟨⟨?_, hpre.1.2.1, hpre.1.2.2⟩, ?_⟩
    · show CStep st.ctxs st4.ctxs.tail
      rw [hc']; exact hpre.1.1
    · intro fn nl lb hf hlb hbnd
      simp only [WfE]
      refine ⟨hpre.2 fn nl lb hf hlb ?_, ?_⟩
      · have : st4.ctxs.tail = st1.ctxs := by rw [hc']; rfl
        simp only [this] at hbnd; exact hbnd
      · rw [hc']
        refine hB.2 true c'.maxSize false (fun _ => rfl) ?_ ⟨c', _, hc', .inr (Nat.le_refl _)⟩
        intro hne
        exact absurd hp.2.1 hne

theorem func_good (name : Text) (ps : List Text) (body : Block) (st : RState) (r : RExpr) (st' : RState)
    (h : resolveE (.func name ps body) st = .ok (r, st')) (hI : CInv st.ctxs)
    (ih : ∀ st3 b' st4, resolveB body st3 = .ok (b', st4) → CInv st3.ctxs →
      Good (fun fn nl lb => WfB fn nl lb b') st3 st4) :
    Good (fun fn nl lb => WfE fn nl lb r) st st' := by
  simp only [resolveE] at h
  by_cases hn : List.isEmpty name = true
  · simp only [hn, ↓reduceIte] at h
    exact func_core st st none ps body r st' ⟨.refl hI, fun _ _ _ _ _ _ => trivial⟩ h ih
  · simp only [hn, Bool.false_eq_true, ↓reduceIte] at h
    exact func_core st (st.define name).1 (some (st.define name).2) ps body r st'
      (define_good st name hI) h ih


mutual
theorem wE : (x : Expr) → (st : RState) → (r : RExpr) → (st' : RState) → resolveE x st = .ok (r, st') →
    CInv st.ctxs → Good (fun fn nl lb => WfE fn nl lb r) st st'
  | .bool _, st, r, st', h, hI | .float _, st, r, st', h, hI | .int _, st, r, st', h, hI | .str _, st, r, st', h, hI => by
    simp only [resolveE] at h; injection h with h; obtain ⟨rfl, rfl⟩ := Prod.mk.inj h
    exact ⟨.refl hI, fun _ _ _ _ _ _ => by simp only [WfE]⟩
  | .ident n, st, r, st', h, hI => by
    simp only [resolveE] at h
    split at h
    · rename_i ref hr
      injection h with h; obtain ⟨rfl, rfl⟩ := Prod.mk.inj h
      exact ⟨.refl hI, fun _ nl _ _ _ hb => by simp only [WfE]; exact resolve_ok st n ref hI hr nl hb⟩
    · cases h
  | .pre op x, st, r, st', h, hI => by
    simp only [resolveE] at h
    split at h
    · rename_i x' st1 hx
      have ih := wE x st x' st1 hx hI
      split at h
      · injection h with h; obtain ⟨rfl, rfl⟩ := Prod.mk.inj h
        exact ih.mono (fun _ _ _ h => by simp only [WfE]; exact h)
      · injection h with h; obtain ⟨rfl, rfl⟩ := Prod.mk.inj h
        exact ih.mono (fun _ _ _ h => by simp only [WfE]; exact h)
      · injection h with h; obtain ⟨rfl, rfl⟩ := Prod.mk.inj h
        exact ih.mono (fun _ _ _ h => by simp only [WfE]; exact h)
      · cases h
    · cases h
  | .assign (.ident n) x, st, r, st', h, hI => by
    simp only [resolveE] at h
    split at h
    · rename_i ref hr
      split at h
      · rename_i x' st1 hx
        injection h with h; obtain ⟨rfl, rfl⟩ := Prod.mk.inj h
        have ih := wE x st x' st1 hx hI
        refine ⟨ih.1, fun fn nl lb hf hl hb => ?_⟩
        simp only [WfE]
        exact ⟨resolve_ok st n ref hI hr nl (ih.1.1.bnd hb), ih.2 fn nl lb hf hl hb⟩
      · cases h
    · cases h
  | .assign (.index a i) x, st, r, st', h, hI => by
    simp only [resolveE] at h
    split at h
    · rename_i a' st1 ha
      split at h
      · rename_i i' st2 hi
        split at h
        · rename_i x' st3 hx
          injection h with h; obtain ⟨rfl, rfl⟩ := Prod.mk.inj h
          have iha := wE a st a' st1 ha hI
          have ihi := wE i st1 i' st2 hi iha.1.inv
          have ihx := wE x st2 x' st3 hx ihi.1.inv
          exact (iha.and (ihi.and ihx)).mono (fun _ _ _ h => by simp only [WfE]; exact h)
        · cases h
      · cases h
    · cases h
  | .assign (.bool _) x, st, r, st', h, hI | .assign (.float _) x, st, r, st', h, hI | .assign (.int _) x, st, r, st', h, hI
  | .assign (.str _) x, st, r, st', h, hI
  | .assign (.pre _ _) x, st, r, st', h, hI | .assign (.assign _ _) x, st, r, st', h, hI | .assign (.infix _ _ _) x, st, r, st', h, hI
  | .assign (.ifE _ _ _) x, st, r, st', h, hI | .assign (.whileE _ _) x, st, r, st', h, hI | .assign (.func _ _ _) x, st, r, st', h, hI
  | .assign (.call _ _) x, st, r, st', h, hI | .assign (.arr _) x, st, r, st', h, hI => by
    simp only [resolveE] at h; cases h
  | .infix l op x, st, r, st', h, hI => by
    simp only [resolveE] at h
    split at h
    · rename_i l' st1 hl
      split at h
      · rename_i x' st2 hx
        split at h
        · injection h with h; obtain ⟨rfl, rfl⟩ := Prod.mk.inj h
          have ihl := wE l st l' st1 hl hI
          have ihx := wE x st1 x' st2 hx ihl.1.inv
          exact (ihl.and ihx).mono (fun _ _ _ h => by simp only [WfE]; exact h)
        · cases h
      · cases h
    · cases h
  | .ifE c t e, st, r, st', h, hI => by
    simp only [resolveE] at h
    split at h
    · rename_i c' st1 hc
      split at h
      · rename_i t' st2 ht
        split at h
        · rename_i e' st3 he
          injection h with h; obtain ⟨rfl, rfl⟩ := Prod.mk.inj h
          have ihc := wE c st c' st1 hc hI
          have iht := wB t st1 t' st2 ht ihc.1.inv
          have ihe := wO e st2 e' st3 he iht.1.inv
          exact (ihc.and (iht.and ihe)).mono (fun _ _ _ h => by simp only [WfE]; exact h)
        · cases h
      · cases h
    · cases h
  | .whileE c b, st, r, st', h, hI => by
    simp only [resolveE] at h
    split at h
    · rename_i c' st1 hc
      split at h
      · rename_i b' st2 hb
        injection h with h; obtain ⟨rfl, rfl⟩ := Prod.mk.inj h
        have ihc := wE c _ c' st1 hc hI
        have ihb := wB b st1 b' st2 hb ihc.1.inv
        exact (Good.loop (a := st) (ihc.and ihb)).mono (fun _ _ _ h => by simp only [WfE]; exact h)
      · cases h
    · cases h
  | .func name ps body, st, r, st', h, hI =>
    func_good name ps body st r st' h hI (fun st3 b' st4 hb hI3 => wB body st3 b' st4 hb hI3)
  | .call f as, st, r, st', h, hI => by
    simp only [resolveE] at h
    split at h
    · rename_i as' st1 has
      have ihas := wEs as st as' st1 has hI
      split at h
      · injection h with h; obtain ⟨rfl, rfl⟩ := Prod.mk.inj h
        exact ihas.mono (fun _ _ _ h => by simp only [WfE]; exact h)
      · split at h
        · rename_i f' st2 hf
          injection h with h; obtain ⟨rfl, rfl⟩ := Prod.mk.inj h
          have ihf := wE f st1 f' st2 hf ihas.1.inv
          exact (ihas.and ihf).mono (fun _ _ _ h => by simp only [WfE]; exact h)
        · cases h
    · cases h
  | .arr vs, st, r, st', h, hI => by
    simp only [resolveE] at h
    split at h
    · rename_i vs' st1 hvs
      injection h with h; obtain ⟨rfl, rfl⟩ := Prod.mk.inj h
      exact (wEs vs st vs' st1 hvs hI).mono (fun _ _ _ h => by simp only [WfE]; exact h)
    · cases h
  | .index l i, st, r, st', h, hI => by
    simp only [resolveE] at h
    split at h
    · rename_i l' st1 hl
      split at h
      · rename_i i' st2 hi
        injection h with h; obtain ⟨rfl, rfl⟩ := Prod.mk.inj h
        have ihl := wE l st l' st1 hl hI
        have ihi := wE i st1 i' st2 hi ihl.1.inv
        exact (ihl.and ihi).mono (fun _ _ _ h => by simp only [WfE]; exact h)
      · cases h
    · cases h

theorem wEs : (x : Exprs) → (st : RState) → (r : RExprs) → (st' : RState) → resolveEs x st = .ok (r, st') →
    CInv st.ctxs → Good (fun fn nl lb => WfEs fn nl lb r) st st'
  | .nil, st, r, st', h, hI => by
    simp only [resolveEs] at h; injection h with h; obtain ⟨rfl, rfl⟩ := Prod.mk.inj h
    exact ⟨.refl hI, fun _ _ _ _ _ _ => by simp only [WfEs]⟩
  | .cons x xs, st, r, st', h, hI => by
    simp only [resolveEs] at h
    split at h
    · rename_i x' st1 hx
      split at h
      · rename_i xs' st2 hxs
        injection h with h; obtain ⟨rfl, rfl⟩ := Prod.mk.inj h
        have ihx := wE x st x' st1 hx hI
        have ihxs := wEs xs st1 xs' st2 hxs ihx.1.inv
        exact (ihx.and ihxs).mono (fun _ _ _ h => by simp only [WfEs]; exact h)
      · cases h
    · cases h

theorem wS : (x : Stmt) → (st : RState) → (r : RStmt) → (st' : RState) → resolveS x st = .ok (r, st') →
    CInv st.ctxs → Good (fun fn nl lb => WfS fn nl lb r) st st'
  | .expr x, st, r, st', h, hI => by
    simp only [resolveS] at h
    split at h
    · rename_i x' st1 hx; injection h with h; obtain ⟨rfl, rfl⟩ := Prod.mk.inj h
      exact (wE x st x' st1 hx hI).mono (fun _ _ _ h => by simp only [WfS]; exact h)
    · cases h
  | .block b, st, r, st', h, hI => by
    simp only [resolveS] at h
    split at h
    · rename_i b' st1 hb; injection h with h; obtain ⟨rfl, rfl⟩ := Prod.mk.inj h
      exact (wB b st b' st1 hb hI).mono (fun _ _ _ h => by simp only [WfS]; exact h)
    · cases h
  | .letS n x, st, r, st', h, hI => by
    simp only [resolveS] at h
    split at h
    · rename_i x' st2 hx
      injection h with h; obtain ⟨rfl, rfl⟩ := Prod.mk.inj h
      have hd := define_good st n hI
      have ih := wE x _ x' st2 hx hd.1.inv
      exact (hd.and ih).mono (fun _ _ _ h => by simp only [WfS]; exact h)
    · cases h
  | .ret x, st, r, st', h, hI => by
    simp only [resolveS] at h
    split at h
    · cases h
    · rename_i hfd
      split at h
      · rename_i x' st1 hx
        injection h with h; obtain ⟨rfl, rfl⟩ := Prod.mk.inj h
        have ih := wE x st x' st1 hx hI
        exact ⟨ih.1, fun fn nl lb hf hl hb => by simp only [WfS]; exact ⟨hf hfd, ih.2 fn nl lb hf hl hb⟩⟩
      · cases h
  | .brk, st, r, st', h, hI => by
    simp only [resolveS] at h
    split at h
    · cases h
    · rename_i hld
      injection h with h; obtain ⟨rfl, rfl⟩ := Prod.mk.inj h
      exact ⟨.refl hI, fun _ _ _ _ hl _ => by simp only [WfS]; exact hl hld⟩
  | .cont, st, r, st', h, hI => by
    simp only [resolveS] at h
    split at h
    · cases h
    · rename_i hld
      injection h with h; obtain ⟨rfl, rfl⟩ := Prod.mk.inj h
      exact ⟨.refl hI, fun _ _ _ _ hl _ => by simp only [WfS]; exact hl hld⟩

theorem wB : (x : Block) → (st : RState) → (r : RBlock) → (st' : RState) → resolveB x st = .ok (r, st') →
    CInv st.ctxs → Good (fun fn nl lb => WfB fn nl lb r) st st'
  | .nil, st, r, st', h, hI => by
    simp only [resolveB] at h; injection h with h; obtain ⟨rfl, rfl⟩ := Prod.mk.inj h
    exact ⟨.refl hI, fun _ _ _ _ _ _ => by simp only [WfB]⟩
  | .cons s b, st, r, st', h, hI => by
    simp only [resolveB] at h
    split at h
    · rename_i s' st1 hs
      split at h
      · rename_i b' st2 hb
        injection h with h; obtain ⟨rfl, rfl⟩ := Prod.mk.inj h
        have he := enter_step st hI
        have ihs := wS s _ s' st1 hs he.inv
        have ihb := wSs b st1 b' st2 hb ihs.1.inv
        exact (((ihs.and ihb).stepL he).stepR (leave_step st2 ihb.1.inv)).mono
          (fun _ _ _ h => by simp only [WfB]; exact h)
      · cases h
    · cases h

theorem wSs : (x : Block) → (st : RState) → (r : RBlock) → (st' : RState) → resolveSs x st = .ok (r, st') →
    CInv st.ctxs → Good (fun fn nl lb => WfB fn nl lb r) st st'
  | .nil, st, r, st', h, hI => by
    simp only [resolveSs] at h; injection h with h; obtain ⟨rfl, rfl⟩ := Prod.mk.inj h
    exact ⟨.refl hI, fun _ _ _ _ _ _ => by simp only [WfB]⟩
  | .cons s b, st, r, st', h, hI => by
    simp only [resolveSs] at h
    split at h
    · rename_i s' st1 hs
      split at h
      · rename_i b' st2 hb
        injection h with h; obtain ⟨rfl, rfl⟩ := Prod.mk.inj h
        have ihs := wS s st s' st1 hs hI
        have ihb := wSs b st1 b' st2 hb ihs.1.inv
        exact (ihs.and ihb).mono (fun _ _ _ h => by simp only [WfB]; exact h)
      · cases h
    · cases h

theorem wO : (x : OptBlock) → (st : RState) → (r : ROptBlock) → (st' : RState) → resolveO x st = .ok (r, st') →
    CInv st.ctxs → Good (fun fn nl lb => WfO fn nl lb r) st st'
  | .none, st, r, st', h, hI => by
    simp only [resolveO] at h; injection h with h; obtain ⟨rfl, rfl⟩ := Prod.mk.inj h
    exact ⟨.refl hI, fun _ _ _ _ _ _ => by simp only [WfO]⟩
  | .some b, st, r, st', h, hI => by
    simp only [resolveO] at h
    split at h
    · rename_i b' st1 hb; injection h with h; obtain ⟨rfl, rfl⟩ := Prod.mk.inj h
      exact (wB b st b' st1 hb hI).mono (fun _ _ _ h => by simp only [WfO]; exact h)
    · cases h
end

/-- the resolved program is well-formed as top-level code: no `antwoord` outside a function, no
    `stop`/`volgende` outside a loop of the same function, every local slot below the owner's
    `nlocals` -/
theorem resolveProgram_wf (ast : Block) (r : RBlock) (h : resolveProgram ast = .ok r) : WfB false 0 false r := by
  unfold resolveProgram at h
  split at h
  · rename_i b st' hb
    injection h with h; subst h
    have hI : CInv ({} : RState).ctxs := ⟨{ isGlobal := true }, [], rfl, by simp [Ctx.totalLen, Ctx.flat]⟩
    have g := wSs ast {} b st' hb hI
    refine g.2 false 0 false (fun h => absurd rfl h) (fun h => absurd rfl h) ?_
    obtain ⟨⟨c, c', cs, hc, hc', hg, _, _⟩, _, _⟩ := g.1
    obtain ⟨rfl, rfl⟩ := List.cons.inj (show ({ isGlobal := true } : Ctx) :: [] = c :: cs from hc)
    exact ⟨c', _, hc', .inl hg⟩
  · cases h

end CV
end Nl
