"""C09 — names resolve lexically; undeclared names are rejected before anything runs."""
import re

from .. import core, diff, gen
from ..core import hx
from .common_diff import run_cases, generic_replay

PROOF_MODULE = "Nlmodel.Proofs.C09"
PROOF_FILES = ["Nlmodel/Proofs/C09.lean", "Nlmodel/Model/Resolve.lean", "Nlmodel/Spec/Eval.lean", "Nlmodel/Model/Pipeline.lean"]
THEOREM_FILE = PROOF_FILES[0]
LEVEL_TEXT = ("Lean theorems about the resolver shared by the definitional semantics and the compiler model (one traversal mirroring symbols.rs + compiler.rs, annotating every occurrence with a unique binder and a slot): the innermost/latest declaration wins; an inner scope's names vanish when it is left and outer names are untouched; a function context sees its own names and the global context only; slots of simultaneously live names of one context are pairwise different and are exactly their positions; a program with an undeclared name evaluates to a reference error with EMPTY output on both the machine model and the definitional semantics; R1 (slots implement binders) by induction over the resolver for three syntactic source fragments (control flow; the whole function-free language; top-level functions with calls and locals). Tied to the code by comparing real eval with the binder-based definitional evaluator (which never looks at slots) on scoping-heavy programs, and by metamorphic checks on the implementation alone: consistent renaming, insertion of an unused shadowing declaration in any inner block, replacement of a name by an undeclared one at any position. SESSION 7: ALPHA-EQUIVALENCE (C09_alpha_equivalence, Lemmas/Alpha*): for every renaming of identifiers that is injective on the identifiers of the program, keeps builtin names builtin and the empty name empty, the renamed program compiles to the identical resolved tree and the identical bytecode (or fails with the identical error) - mutual induction over the whole resolver model; hence the same run for every budget and the same definitional answer for every fuel; a non-injective renaming changes the bytecode (kernel-checked counterexample). A RESOLVER-INDEPENDENT SPECIFICATION (Spec/NameEval.lean: evaluator on SOURCE trees with a stack of scopes of names, no binder ids, no slots; NameEval.declared: the static rule that every identifier has an enclosing declaration): C09_resolver_implements_name_scoping (for the stage-3 fragment and every fuel the definitional semantics on the resolved tree equals the name-based semantics on the source tree), C09_rejected_iff_some_name_undeclared (the resolver fails exactly when some identifier is undeclared, with a reference error), C09_names_* (shadowing, block end, later declaration, use after block as theorems about names). WITH FUNCTIONS (Spec/NameEvalFn.lean): C09_resolver_implements_name_scoping_with_functions - for the whole stage-4 source fragment (function literals at top level, calls, parameters, locals, antwoord, recursion) the resolver rejects the program exactly when the static name rule with functions (declaredFn: a body sees its parameters, its own locals and the top-level names visible at the literal - never a scope of the caller) does, with a reference error, and otherwise the definitional semantics equals the name-based one for every fuel; C09_callers_locals_are_invisible; C09_call_keeps_callers_activation. WITH HEAP VALUES AND BUILTINS (Spec/NameEvalH.lean): C09_resolver_implements_name_scoping_with_heap_values - the whole function-free language (floats, texts, lists, indexing and index assignment with aliasing, all operators, the seven builtins incl. print): rejected exactly when the static name rule says so, otherwise value, OUTPUT, error, out-of-fuel and unspecified agree for every fuel.")
LEVEL_NOTE = ("Trusted: Lean kernel; the resolver model is tied to symbols.rs/compiler.rs by the correspondence (bytecode equality is checked as a diagnostic in C10). The refinement 'slots implement binders' (R1) IS a theorem for three syntactic source fragments, by induction over the resolver: control flow over scalars (C09_slots_implement_binders_control_flow), the whole function-free language incl. heap values and builtins (C09_slots_implement_binders_function_free), and programs with top-level function definitions, calls, locals in nested block scopes of bodies (C09_slots_implement_binders_functions: a body's variable is a local of THAT body in its frame slot or an earlier global, never a caller's local; distinct function ids); composed with the simulation theorems of C01 the slot-based machine and the binder-based semantics agree there. Since stages 6 and 7 also with heap values inside bodies and function literals nested to any depth (C09_slots_implement_binders_nested_functions: a body reads and writes its own frame and persistent globals only; function ids pairwise distinct for EVERY accepted program). Outside (literals in top-level blocks, named literals in expression position) it is decided per program by the correspondence.")
TECHNIQUE = "Lean 4 proof (symbol-table/resolver lemmas) + differential and metamorphic scoping checks"
RULE = ("generated programs with nested blocks, shadowing at every depth <= 5, functions in blocks and in functions, recursion, one "
        "identifier reused across scopes; each also under renaming, shadow insertion and undeclared-name injection; non-trivial = "
        "distinct program compared on all sides")


def scoping_program(rng, depth=0, names=None, in_fn=False):
    """programs whose meaning depends on scoping: few names, many scopes"""
    names = names or ["a", "b", "c"]
    lines = []
    declared = []

    def block(d, visible, ind):
        out = []
        vis = list(visible)
        for _ in range(rng.range(1, 4)):
            c = rng.below(9)
            if c < 3 or not vis:
                n = rng.pick(names)
                others = [v for v in vis if v != n]
                init = str(rng.below(50)) if not others or rng.chance(1, 2) else "%s + %d" % (rng.pick(others), rng.below(9))
                out.append(ind + "stel %s = %s;" % (n, init))
                if n not in vis:
                    vis.append(n)
            elif c == 3 and vis:
                out.append(ind + "%s = %s + 1;" % (rng.pick(vis), rng.pick(vis)))
            elif c == 4 and vis:
                out.append(ind + "print(%s);" % ", ".join(['"{} {}"'] + [rng.pick(vis) for _ in range(2)]))
            elif c == 5 and d < 5:
                out.append(ind + "{")
                out += block(d + 1, vis, ind + "  ")
                out.append(ind + "};")
            elif c == 6 and d < 5 and vis:
                out.append(ind + "als %s < %d {" % (rng.pick(vis), rng.below(60)))
                out += block(d + 1, vis, ind + "  ")
                out.append(ind + "} anders {")
                out += block(d + 1, vis, ind + "  ")
                out.append(ind + "};")
            elif c == 7 and d < 4:
                fn = "f%d" % rng.below(3)
                p = rng.pick(names)
                out.append(ind + "functie %s(%s) {" % (fn, p))
                # a function sees its parameter, its own locals and the OUTERMOST scope's names only
                out += block(d + 1, [p] + (list(top_names) if True else []), ind + "  ")
                out.append(ind + "  %s" % p)
                out.append(ind + "};")
                out.append(ind + "print(%s(%d));" % (fn, rng.below(9)))
            elif vis:
                out.append(ind + "%s;" % rng.pick(vis))
        return out

    top_names = []
    # declare all names at top so that functions may refer to them
    for n in names:
        lines.append("stel %s = %d;" % (n, rng.below(9)))
        top_names.append(n)
    lines += block(0, top_names, "")
    lines.append("[%s]" % ", ".join(names))
    return "\n".join(lines)


def leak_matrix():
    """declarations of every kind (variable, named function, function-valued variable, parameter) in inner scopes of
    every kind (bare block, als/anders arm, loop body, function body; with and without another `stel` in the same
    block) must neither stay visible after the scope ends nor disturb an outer declaration of the same name"""
    decls = [("stel x = 2;", "x"), ("functie x() { 2 };", "x()"), ("stel x = functie() { 2 };", "x()"), ("functie x(x) { x }; x(2);", "x(2)")]
    outer = {"x": "stel x = 1;", "x()": "functie x() { 1 };", "x(2)": "functie x(q) { 1 };"}
    scopes = ["{ %s };", "als ja { %s };", "als nee { 0 } anders { %s };", "stel once = 0; zolang once < 1 { once += 1; %s };",
              "functie holder() { %s 0 }; holder();", "{ { %s }; };", "als ja { als ja { %s } };"]
    out = []
    for d, use in decls:
        for sc in scopes:
            for extra in ["", "stel other = 5; ", "other_f(); " ]:
                pre = "functie other_f() { 0 };\n"
                inner = extra + d
                # (1) the name does not exist after the scope: reference error, before any output
                out.append(("leak", pre + "print(1);\n" + (sc % inner) + "\n" + use))
                # (2) an outer declaration of the same name is undisturbed
                out.append(("shadow-kind", pre + outer[use] + "\n" + (sc % inner) + "\n" + use))
                # (3) ... also when the inner scope uses its own declaration first
                out.append(("shadow-kind", pre + outer[use] + "\n" + (sc % (inner + " " + use + ";")) + "\n[" + use + "]"))
    return out


def dead_code_matrix():
    """names are checked wherever they are written, also in code that can never run: every statement form mentioning an
    undeclared, out-of-scope or not-yet-declared name, placed behind antwoord / stop / volgende in the same block, must
    be rejected before any output; the same forms over declared names must be accepted and change nothing"""
    ctx = [("functie f(p) { stel l = 1; %s; %s }; print(\"uitvoer\"); f(1)", ["antwoord 1", "antwoord"]),
           ("stel i = 0; stel l = 1; stel p = 2; zolang i < 2 { i += 1; %s; %s }; print(\"uitvoer\"); i", ["stop", "volgende"]),
           ("functie f(p) { stel l = 1; stel i = 0; zolang i < 2 { i += 1; %s; %s }; i }; print(\"uitvoer\"); f(1)", ["stop", "volgende", "antwoord 5"]),
           ("{ stel blokvar = 1; }; functie f(p) { stel l = 1; als p > 0 { %s; %s }; 3 }; print(\"uitvoer\"); f(1)", ["antwoord 1"])]
    dead_bad = ["onbekend", "stel z = onbekend", "onbekend = 1", "print(onbekend)", "{ onbekend }", "functie g() { onbekend }", "als ja { onbekend }",
                "zolang nee { onbekend }", "[1, onbekend]", "onbekend()", "l[onbekend]", "later; stel later = 1", "blokvar", "stel z = 1; { z; }; zz"]
    dead_ok = ["l", "p + 1", "stel z = l", "{ stel z = p; z }", "functie g(q) { q }", "l = 5", "print(l)"]
    out = []
    for tmpl, jumps in ctx:
        for j in jumps:
            for d in dead_bad:
                out.append(("dead-code-undeclared", tmpl % (j, d)))
            for d in dead_ok:
                out.append(("dead-code-declared", tmpl % (j, d)))
    # a caller's local is not visible in the callee, dead code or not
    out.append(("dead-code-undeclared", "functie callee() { antwoord 1; van_de_aanroeper }; functie caller() { stel van_de_aanroeper = 2; callee() }; print(\"uitvoer\"); caller()"))
    return out


def rename(src, old, new):
    return re.sub(r"(?<![\w])%s(?![\w])" % re.escape(old), new, src)


def run(res, tier, rng, table_diffs=()):
    session_tier(res)
    cases = []
    n = 600 if tier == "quick" else 10000
    progs = [scoping_program(rng.fork()) for _ in range(n)]
    for p in progs:
        cases.append(("scoping", p))
    directed = [
        "stel a = 1; stel a = 2; a", "stel a = 1; { stel a = 2; a; }; a", "stel a = 1; { stel b = 2; }; b", "stel a = 1; { a = 5; }; a",
        "stel a = 1; functie f() { a }; stel a = 2; f()", "stel a = 1; functie f(a) { a = a + 1; a }; [f(10), a]",
        "functie f() { stel x = 1; functie g() { x }; g() }; f()", "functie f(n) { als n < 1 { antwoord 0 }; stel m = n; f(n - 1) + m }; f(5)",
        "stel x = 1; functie f() { stel x = 2; functie g() { stel x = 3; x }; g() + x }; f() + x", "functie f() { y }; stel y = 1; f()",
        "{ stel p = 1; }; { stel q = 2; q; }", "stel g = 0; { stel y = 5; g = y; }; { stel z = 7; g; }", "print(1); zzz", "print(1); functie f() { zzz }; 2",
        "als nee { qq }; 1", "zolang nee { qq }; 1", "stel a = 1; als ja { stel a = a + 1; a }", "functie f(a, a) { a }; f(1, 2)",
        "stel print = 5; print(print)", "functie f() { f }; f() == f", "stel f = functie() { f }; f() == f", "functie outer() { functie inner() { inner }; inner() }; outer()",
    ]
    for d in directed:
        cases.append(("directed", d))
    cases += leak_matrix()
    from .. import gen2
    cases += [("named-literal-clash", p) for p in gen2.named_literal_clash_programs()]
    cases += [("colliding-names", p) for p in gen2.colliding_name_programs()]
    cases += dead_code_matrix()
    from .. import gen2
    for _ in range(300 if tier == "quick" else 6000):
        cases.append(("nested-fn", gen2.nested_fn_program(rng.fork())))
    rs = run_cases(res, "C09", cases)
    # metamorphic, on the implementation alone
    meta = []
    sample = progs[: (150 if tier == "quick" else 2000)]
    for p in sample:
        base = p
        # (1) consistent renaming of one variable to a fresh name leaves the outcome unchanged
        v = rng.pick(["a", "b", "c"])
        meta.append(("rename", base, rename(base, v, "fresh_%s_9" % v), True))
        # (2) an unused shadowing declaration in an inner block changes nothing
        lines = base.split("\n")
        idxs = [i for i, l in enumerate(lines) if l.strip() == "{" or l.strip().endswith("{")]
        if idxs:
            i = rng.pick(idxs)
            ind = lines[i][: len(lines[i]) - len(lines[i].lstrip())] + "  "
            if not lines[i].lstrip().startswith("functie"):
                mod = lines[:i + 1] + [ind + "stel unused_zz = 99;"] + lines[i + 1:]
                meta.append(("shadow", base, "\n".join(mod), True))
        # (3) replacing one name by an undeclared one anywhere gives a reference error and no output
        occ = [m for m in re.finditer(r"(?<![\w])[abc](?![\w])", base)]
        if occ:
            m = rng.pick(occ)
            # do not replace a declaration site (`stel a`) or a parameter
            before = base[:m.start()]
            if not before.rstrip().endswith("stel") and not re.search(r"functie \w+\($", before):
                meta.append(("undeclared", base, base[:m.start()] + "undeclared_q" + base[m.end():], False))
    reqs = []
    for _, a, b, _ in meta:
        reqs.append("eval 300000 " + hx(a))
        reqs.append("eval 300000 " + hx(b))
    ans = core.impl(reqs)
    bad = 0
    for k, (label, a, b, same) in enumerate(meta):
        ra, rb = ans[2 * k], ans[2 * k + 1]
        res.seen("M" + label + b)
        res.count("meta-" + label)
        if ra == "BUDGET" or rb == "BUDGET":
            continue
        ok = (ra == rb) if same else (rb == "err Reference | x")
        if label == "shadow" and ra != rb and ra.startswith("ok") and rb.startswith("ok"):
            ok = False
        if not ok and bad < 3:
            bad += 1
            res.violation({"rename": "consistent renaming of a variable changed the outcome",
                           "shadow": "an unused shadowing declaration in an inner block changed the outcome",
                           "undeclared": "a program using an undeclared name was not rejected with a reference error before producing output"}[label],
                          dict(kind="metamorphic-" + label, input=[a, b], impl=[ra, rb]))


def session_tier(res):
    """names in RETAINED sessions (round 9): what a line rejected by the compiler declared, in whatever scope, does not exist
    for later lines, and a global it shadowed keeps its value (gen2.failed_scope_leak_sessions); decided against the session
    model and the direct expectation"""
    from .. import gen2
    leak = gen2.failed_scope_leak_sessions()
    reqs = ["session 100000 " + " ".join(hx(l) for l in x[0]) for x in leak]
    ia = core.impl(reqs)
    ma = core.model(reqs)
    bad = 0
    for (s, exp), i, m in zip(leak, ia, ma):
        res.seen("S" + "\n".join(s))
        res.count("session-scope-leak")
        io = i.split(" # ")[0]
        got = [o.split(" | ")[0] for o in io.split(" ;; ")]
        wrong = [k for k, (e, g) in enumerate(zip(exp, got)) if e is not None and e != g]
        if (wrong or io != m) and bad < 3:
            bad += 1
            k = wrong[0] if wrong else 0
            res.violation("a name declared only by a line the compiler rejected is visible on later lines of the session, or a global it shadowed lost its value"
                          if wrong else "session model and the real Compiler+VM pair disagree on name resolution",
                          dict(kind="session-scope-leak", input=s, line=s[k], expected=exp[k], impl=got[k] if k < len(got) else None, all=got, model=m),
                          no_input=not wrong)


_generic = generic_replay("C09")


def replay(res, rp):
    if rp.get("kind") == "session-scope-leak":
        q = "session 100000 " + " ".join(hx(l) for l in rp["input"])
        i = core.impl([q])[0].split(" # ")[0]
        m = core.model([q])[0]
        got = [o.split(" | ")[0] for o in i.split(" ;; ")]
        k = rp["input"].index(rp["line"])
        print(got, "| model:", m[:200])
        if i != m or (rp.get("expected") and got[k] != rp["expected"]):
            print("VIOLATION property=C09 replay=replay")
            return 1
        return 0
    if rp.get("kind") == "metamorphic-undeclared":
        r = core.impl(["eval 300000 " + hx(rp["input"][1])])[0]
        print(r)
        if r != "err Reference | x":
            print("VIOLATION property=C09 replay=replay")
            return 1
        return 0
    return _generic(res, rp)
