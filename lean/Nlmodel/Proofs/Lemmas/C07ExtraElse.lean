/- C07 extras, X2: `anders als` chains nest to the right. -/
import Nlmodel.Proofs.Lemmas.C07ExtraParen2
namespace Nl
namespace C07X
open RT RTF

/-- the `als` case of `parsePrefix`, after the condition and the then-block (printed), as a function of what follows -/
theorem if_head (c : Expr) (t : Block) (hc : WE c) (ht : WB t) (X : List Token) :
    ∃ f0, ∀ f, f0 ≤ f → parsePrefix (f + 1) (.kwIf :: (printE c ++ (braces (printStmts t) ++ X))) =
      (if cur X = .kwElse then
        (if cur (adv X) = .kwIf then
          (match parseStatement f (adv X) with
           | .ok (s, ts4) => .ok (.ifE c t (.some (.cons s .nil)), ts4)
           | .error e => .error e)
        else
          (match parseBlock f (adv X) with
           | .ok (e, ts4) => .ok (.ifE c t (.some e), ts4)
           | .error e => .error e))
      else .ok (.ifE c t .none, X)) := by
  have hb : braces (printStmts t) ++ X = .lbrace :: (printStmts t ++ .rbrace :: X) := by simp [braces, List.append_assoc]
  obtain ⟨f1, h1⟩ := top_brace c hc (gE c hc) (printStmts t ++ .rbrace :: X)
  obtain ⟨f2, h2⟩ := braces_ok t (gB t ht) X
  rw [hb] at h2
  refine ⟨max f1 f2, fun f hf => ?_⟩
  rw [hb, parsePrefix]
  simp only [cur_cons, adv_cons]
  rw [expr_le (Nat.le_trans (Nat.le_max_left f1 f2) hf) h1]
  simp only
  rw [block_le (Nat.le_trans (Nat.le_max_right f1 f2) hf) h2]
  by_cases hE : cur X = .kwElse
  · by_cases hI : cur (adv X) = .kwIf
    · simp only [hE, hI, ↓reduceIte]
      cases parseStatement f (adv X) with
      | error e => rfl
      | ok pr => obtain ⟨s, ts4⟩ := pr; rfl
    · simp only [hE, hI, ↓reduceIte]
      cases parseBlock f (adv X) with
      | error e => rfl
      | ok pr => obtain ⟨s, ts4⟩ := pr; rfl
  · simp only [hE, ↓reduceIte]

/-- an expression that `parsePrefix` returns whole, as a statement without `;`, before a token that neither continues
    an expression nor is `;` -/
theorem stmt_of_prefix {g : Nat} {ts rest : List Token} {x : Expr} (hc : exprStart (cur ts) = true)
    (h : parsePrefix g ts = .ok (x, rest)) (h0 : (cur rest).prec = 0) (hsemi : cur rest ≠ .semi) :
    parseStatement (g + 1 + 1 + 1) ts = .ok (.expr x, rest) := by
  have hs : Stops 0 rest := .inr (by omega)
  have he : parseExpr (g + 1 + 1) 0 ts = .ok (x, rest) :=
    expr_of_prefix (pre_le (Nat.le_succ g) h) (parseLoop_stop g 0 x rest hs)
  rw [stmt_of_expr hc he]
  simp [skipOpt, hsemi]

/-- tokens of `als c {t} anders als c' {t'} ... [anders {e}]`, followed by `rest` -/
def chainR (c : Expr) (t : Block) : List (Expr × Block) → OptBlock → List Token → List Token
  | [], o, rest => .kwIf :: (printE c ++ (braces (printStmts t) ++ (printO o ++ rest)))
  | (c', t') :: m, o, rest => .kwIf :: (printE c ++ (braces (printStmts t) ++ (.kwElse :: chainR c' t' m o rest)))
def chainToks (c : Expr) (t : Block) (m : List (Expr × Block)) (o : OptBlock) : List Token := chainR c t m o []

/-- the tree of the chain: each `anders als` becomes an else-block holding ONE expression statement, the rest of the chain -/
def chainTree (c : Expr) (t : Block) : List (Expr × Block) → OptBlock → Expr
  | [], o => .ifE c t o
  | (c', t') :: m, o => .ifE c t (.some (.cons (.expr (chainTree c' t' m o)) .nil))

theorem chainR_eq (m : List (Expr × Block)) : ∀ (c : Expr) (t : Block) (o : OptBlock) (rest : List Token),
    chainR c t m o rest = chainToks c t m o ++ rest := by
  induction m with
  | nil => intro c t o rest; simp [chainToks, chainR, List.append_assoc]
  | cons x m ih =>
    intro c t o rest
    obtain ⟨c', t'⟩ := x
    simp only [chainToks, chainR]
    rw [ih c' t' o rest, ih c' t' o []]
    simp [List.append_assoc]

theorem chainR_head (c : Expr) (t : Block) (m : List (Expr × Block)) (o : OptBlock) (rest : List Token) :
    cur (chainR c t m o rest) = .kwIf ∧ exprStart (cur (chainR c t m o rest)) = true := by
  cases m with
  | nil => exact ⟨rfl, rfl⟩
  | cons x m => obtain ⟨c', t'⟩ := x; exact ⟨rfl, rfl⟩

/-- (X2) CHAINS OF ANY LENGTH: `als c {t} anders als c1 {t1} anders als ... [anders {e}]` is returned by `parsePrefix` as
    the right-nested tree `chainTree`, before every token that does not continue an expression, is not `;` and not `anders` -/
theorem X2_chain_prefix (o : OptBlock) (ho : WO o) (m : List (Expr × Block)) :
    ∀ (c : Expr) (t : Block), WE c → WB t → (∀ x ∈ m, WE x.1 ∧ WB x.2) →
    ∀ (rest : List Token), (cur rest).prec = 0 → cur rest ≠ .semi → NoElse rest →
      ∃ f, parsePrefix f (chainToks c t m o ++ rest) = .ok (chainTree c t m o, rest) := by
  induction m with
  | nil =>
    intro c t hc ht _ rest h0 hsemi hne
    rw [← chainR_eq]
    cases ho with
    | none =>
      obtain ⟨f0, h⟩ := if_head c t hc ht rest
      refine ⟨f0 + 1, ?_⟩
      have hne' : ¬ (cur rest = Token.kwElse) := hne
      simpa [chainR, printO, chainTree, hne'] using h f0 (Nat.le_refl _)
    | some e he =>
      obtain ⟨f0, h⟩ := if_head c t hc ht (.kwElse :: (braces (printStmts e) ++ rest))
      obtain ⟨f1, h1⟩ := braces_ok e (gB e he) rest
      refine ⟨max f0 f1 + 1, ?_⟩
      have hts : chainR c t [] (.some e) rest =
          .kwIf :: (printE c ++ (braces (printStmts t) ++ (.kwElse :: (braces (printStmts e) ++ rest)))) := by
        simp [chainR, printO]
      rw [hts, h _ (Nat.le_max_left f0 f1)]
      have hk : ¬ (cur (braces (printStmts e) ++ rest) = Token.kwIf) := by simp [braces, cur]
      simp only [cur_cons, adv_cons, ↓reduceIte, hk]
      rw [block_le (Nat.le_max_right f0 f1) h1]
      rfl
  | cons x m ih =>
    intro c t hc ht hm rest h0 hsemi hne
    obtain ⟨c', t'⟩ := x
    have hx := hm (c', t') (List.mem_cons_self ..)
    obtain ⟨g, hg⟩ := ih c' t' hx.1 hx.2 (fun y hy => hm y (List.mem_cons_of_mem _ hy)) rest h0 hsemi hne
    rw [← chainR_eq] at hg
    have hst := stmt_of_prefix (chainR_head c' t' m o rest).2 hg h0 hsemi
    obtain ⟨f0, h⟩ := if_head c t hc ht (.kwElse :: chainR c' t' m o rest)
    refine ⟨max f0 (g + 3) + 1, ?_⟩
    rw [← chainR_eq]
    show parsePrefix _ (.kwIf :: (printE c ++ (braces (printStmts t) ++ (.kwElse :: chainR c' t' m o rest)))) = _
    rw [h _ (Nat.le_max_left f0 (g + 3))]
    simp only [cur_cons, adv_cons, ↓reduceIte, (chainR_head c' t' m o rest).1]
    rw [stmt_le (Nat.le_max_right f0 (g + 3)) hst]
    rfl

/-- (X2, as an expression in any top position) -/
theorem X2_chain_expr (o : OptBlock) (ho : WO o) (m : List (Expr × Block)) (c : Expr) (t : Block) (hc : WE c) (ht : WB t)
    (hm : ∀ x ∈ m, WE x.1 ∧ WB x.2) (rest : List Token) (h0 : (cur rest).prec = 0) (hsemi : cur rest ≠ .semi) (hne : NoElse rest) :
    ∃ f, parseExpr f 0 (chainToks c t m o ++ rest) = .ok (chainTree c t m o, rest) := by
  obtain ⟨f, h⟩ := X2_chain_prefix o ho m c t hc ht hm rest h0 hsemi hne
  exact ⟨f + 1 + 1, expr_of_prefix (pre_le (Nat.le_succ f) h) (parseLoop_stop f 0 _ rest (.inr (by omega)))⟩

/-- (X2, the instance of the property text) `als c1 {b1} anders als c2 {b2} anders {b3}` is
    `ifE c1 b1 (some [expr (ifE c2 b2 (some b3))])` -/
theorem X2_else_if (c1 c2 : Expr) (b1 b2 b3 : Block) (hc1 : WE c1) (hc2 : WE c2) (hb1 : WB b1) (hb2 : WB b2) (hb3 : WB b3)
    (rest : List Token) (h0 : (cur rest).prec = 0) (hsemi : cur rest ≠ .semi) (hne : NoElse rest) :
    ∃ f, parseExpr f 0 ([.kwIf] ++ printE c1 ++ braces (printStmts b1) ++ [.kwElse, .kwIf] ++ printE c2 ++ braces (printStmts b2)
          ++ [.kwElse] ++ braces (printStmts b3) ++ rest)
      = .ok (.ifE c1 b1 (.some (.cons (.expr (.ifE c2 b2 (.some b3))) .nil)), rest) := by
  have := X2_chain_expr (.some b3) (.some _ hb3) [(c2, b2)] c1 b1 hc1 hb1
    (by intro x hx; simp only [List.mem_singleton] at hx; subst hx; exact ⟨hc2, hb2⟩) rest h0 hsemi hne
  simpa [chainToks, chainR, chainTree, printO, List.append_assoc] using this

/-- ... which is also the tree of the explicitly nested spelling `als c1 {b1} anders { als c2 {b2} anders {b3}; }`
    (the printed form of that tree): the two spellings denote the same tree -/
theorem X2_else_if_same (c1 c2 : Expr) (b1 b2 b3 : Block) (hc1 : WE c1) (hc2 : WE c2) (hb1 : WB b1) (hb2 : WB b2) (hb3 : WB b3)
    (rest : List Token) (h0 : (cur rest).prec = 0) (hsemi : cur rest ≠ .semi) (hne : NoElse rest) :
    ∃ f, parseExpr f 0 ([.kwIf] ++ printE c1 ++ braces (printStmts b1) ++ [.kwElse, .kwIf] ++ printE c2 ++ braces (printStmts b2)
          ++ [.kwElse] ++ braces (printStmts b3) ++ rest)
      = parseExpr f 0 (printE (.ifE c1 b1 (.some (.cons (.expr (.ifE c2 b2 (.some b3))) .nil))) ++ rest) := by
  obtain ⟨f1, h1⟩ := X2_else_if c1 c2 b1 b2 b3 hc1 hc2 hb1 hb2 hb3 rest h0 hsemi hne
  have hw : WE (.ifE c1 b1 (.some (.cons (.expr (.ifE c2 b2 (.some b3))) .nil))) :=
    .ifE _ _ _ hc1 hb1 (.some _ (.cons _ _ (.expr _ (.ifE _ _ _ hc2 hb2 (.some _ hb3))) .nil))
  obtain ⟨f2, h2⟩ := top_ok _ hw rest hne (.inr (by omega))
  exact ⟨max f1 f2, (expr_le (Nat.le_max_left _ _) h1).trans (expr_le (Nat.le_max_right _ _) h2).symm⟩

/-- (X2, program level, with the fuel `parse` supplies) a chain as the LAST statement of a program, with or without `;` -/
theorem X2_program (b0 : Block) (h0 : WB b0) (o : OptBlock) (ho : WO o) (m : List (Expr × Block)) (c : Expr) (t : Block)
    (hc : WE c) (ht : WB t) (hm : ∀ x ∈ m, WE x.1 ∧ WB x.2) :
    parseTokens (printStmts b0 ++ chainToks c t m o) = .ok (b0.append (.cons (.expr (chainTree c t m o)) .nil)) := by
  obtain ⟨g, hg⟩ := X2_chain_prefix o ho m c t hc ht hm [] rfl (by simp [cur]) (by simp [NoElse, cur])
  rw [← chainR_eq] at hg
  have hst := stmt_of_prefix (chainR_head c t m o []).2 hg rfl (by simp [cur])
  have hcur := (chainR_head c t m o []).1
  obtain ⟨f, h⟩ := stmts_prefix b0 h0 false _ _ [] ⟨_, stmts_step (by rw [hcur]; decide) (by rw [hcur]; decide) hst (stmts_end false [] (.inl rfl))⟩
  exact parseTokens_of_stmts h

/-- non-vacuity and the quirk the side conditions exclude: in `als a {} anders als b {}; (x);` the `;` is consumed by the
    INNER statement, so the outer expression continues with `(x)` — a call of an `als` expression, a type error — while the
    explicitly nested spelling `als a {} anders { als b {}; }; (x);` is two statements -/
example : parseTokens [.kwIf, .ident ['a'], .lbrace, .rbrace, .kwElse, .kwIf, .ident ['b'], .lbrace, .rbrace, .semi,
      .lparen, .ident ['x'], .rparen, .semi] = .error .type := by rfl
example : parseTokens [.kwIf, .ident ['a'], .lbrace, .rbrace, .kwElse, .lbrace, .kwIf, .ident ['b'], .lbrace, .rbrace, .semi, .rbrace, .semi,
      .lparen, .ident ['x'], .rparen, .semi]
    = .ok (.cons (.expr (.ifE (.ident ['a']) .nil (.some (.cons (.expr (.ifE (.ident ['b']) .nil .none)) .nil))))
        (.cons (.expr (.ident ['x'])) .nil)) := by rfl

end C07X
end Nl
