/-
  C15 — the value encoding is lossless and collision-free.
  Statements about Model/Object (same shifts and masks as object.rs), for ALL words/values.
-/
import Nlmodel.Model.Object
import Std.Tactic.BVDecide
import Nlmodel.Proofs.Lemmas.Utf8All
import Nlmodel.Proofs.Lemmas.Utf8Strict
namespace Nl
namespace C15
open Obj


/-! bit-vector cores, in literal form (each closed by `bv_decide`) -/
theorem core_int_rt (x : BitVec 64) (h1 : BitVec.sle (-(1152921504606846976#64)) x = true)
    (h2 : BitVec.slt x 1152921504606846976#64 = true) : (x <<< 3 ||| 1#64).sshiftRight 3 = x := by bv_decide
theorem core_int_rt_conv (x : BitVec 64) (h : (x <<< 3 ||| 1#64).sshiftRight 3 = x) :
    BitVec.sle (-(1152921504606846976#64)) x = true ∧ BitVec.slt x 1152921504606846976#64 = true := by
  constructor <;> bv_decide
theorem core_int_tag (x : BitVec 64) : (x <<< 3 ||| 1#64) &&& 7#64 = 1#64 := by bv_decide
theorem core_fn_ip (ip : BitVec 32) (nl : BitVec 16) :
    (((((ip.zeroExtend 64 <<< 16) ||| nl.zeroExtend 64) <<< 3 ||| 3#64).sshiftRight 3) >>> 16).truncate 32 = ip := by
  bv_decide
theorem core_fn_nl (ip : BitVec 32) (nl : BitVec 16) :
    ((((ip.zeroExtend 64 <<< 16) ||| nl.zeroExtend 64) <<< 3 ||| 3#64).sshiftRight 3).truncate 16 = nl := by
  bv_decide
theorem core_fn_tag (ip : BitVec 32) (nl : BitVec 16) :
    (((ip.zeroExtend 64 <<< 16) ||| nl.zeroExtend 64) <<< 3 ||| 3#64) &&& 7#64 = 3#64 := by bv_decide

theorem core_ptr (addr k : BitVec 64) (ha : addr &&& 7#64 = 0#64) (hk : k = 4#64 ∨ k = 5#64 ∨ k = 6#64) :
    ((addr ||| k) &&& ~~~7#64 = addr) ∧ ((addr ||| k) &&& 7#64 = k) := by
  rcases hk with rfl | rfl | rfl <;> constructor <;> bv_decide

theorem tag_of_tagNat {w : Word} {n : Nat} {t : Ty} (h : tagNat w = n) (ht : tag (BitVec.ofNat 64 n) = some t)
    (hn : n < 8) : tag w = some t := by
  unfold tag at *
  rw [h]
  have : tagNat (BitVec.ofNat 64 n) = n := by
    unfold tagNat TAG_MASK
    have : n = 0 ∨ n = 1 ∨ n = 2 ∨ n = 3 ∨ n = 4 ∨ n = 5 ∨ n = 6 ∨ n = 7 := by omega
    rcases this with rfl | rfl | rfl | rfl | rfl | rfl | rfl | rfl <;> decide
  rw [this] at ht
  exact ht

/-- the 61-bit signed range as a predicate on words -/
def InRange61 (x : Word) : Prop := BitVec.sle (-(1152921504606846976#64)) x ∧ BitVec.slt x 1152921504606846976#64

/-- bit-level core of the integer round trip: shifting in the tag and shifting it out again is the
    identity exactly on the 61-bit range -/
theorem C15_int_roundtrip_word (x : Word) (h : InRange61 x) :
    (withType (x <<< VALUE_SHIFT_BITS) .int).sshiftRight VALUE_SHIFT_BITS = x := by
  obtain ⟨h1, h2⟩ := h
  exact core_int_rt x h1 h2

/-- ... and outside that range the value is NOT read back (so the range check of the repaired
    arithmetic is necessary, not just sufficient) -/
theorem C15_int_roundtrip_only_in_range (x : Word)
    (h : (withType (x <<< VALUE_SHIFT_BITS) .int).sshiftRight VALUE_SHIFT_BITS = x) : InRange61 x := by
  exact core_int_rt_conv x h

theorem C15_int_tag (x : Word) : tagNat (withType (x <<< VALUE_SHIFT_BITS) .int) = 1 := by
  show ((x <<< 3 ||| 1#64) &&& 7#64).toNat = 1
  rw [core_int_tag]; rfl

/-- every in-range integer is read back exactly, with the right type -/
theorem C15_int_roundtrip (v : Int) (h1 : -(2 ^ 60) ≤ v) (h2 : v < 2 ^ 60) :
    asInt (int v) = v ∧ tag (int v) = some .int := by
  have hr : InRange61 (BitVec.ofInt 64 v) := by
    unfold InRange61
    constructor
    · rw [BitVec.sle_iff_toInt_le, BitVec.toInt_ofInt]
      have : (-(1152921504606846976#64 : BitVec 64)).toInt = -(2 ^ 60) := by decide
      rw [this]
      have : v.bmod (2 ^ 64) = v := by
        apply Int.bmod_eq_of_le <;> omega
      omega
    · rw [BitVec.slt_iff_toInt_lt, BitVec.toInt_ofInt]
      have : (1152921504606846976#64 : BitVec 64).toInt = 2 ^ 60 := by decide
      rw [this]
      have : v.bmod (2 ^ 64) = v := by
        apply Int.bmod_eq_of_le <;> omega
      omega
  constructor
  · unfold asInt int
    rw [C15_int_roundtrip_word _ hr, BitVec.toInt_ofInt]
    apply Int.bmod_eq_of_le <;> omega
  · exact tag_of_tagNat (C15_int_tag _) (by decide) (by omega)

/-- distinct in-range integers have distinct words -/
theorem C15_int_injective (a b : Int) (ha1 : -(2 ^ 60) ≤ a) (ha2 : a < 2 ^ 60)
    (hb1 : -(2 ^ 60) ≤ b) (hb2 : b < 2 ^ 60) (h : int a = int b) : a = b := by
  have := (C15_int_roundtrip a ha1 ha2).1
  rw [h, (C15_int_roundtrip b hb1 hb2).1] at this
  exact this.symm

theorem C15_bool_roundtrip (b : Bool) : asBool (bool b) = b ∧ tag (bool b) = some .bool := by
  cases b <;> decide

theorem C15_null : tag null = some .null ∧ isHeap null = false := by decide

/-- every function descriptor (entry offset < 2^32, local count < 2^16) is read back exactly -/
theorem C15_fn_roundtrip (ip : BitVec 32) (nl : BitVec 16) :
    asFunction (function ip nl) = (ip, nl) := by
  show ((((((ip.zeroExtend 64 <<< 16) ||| nl.zeroExtend 64) <<< 3 ||| 3#64).sshiftRight 3) >>> 16).truncate 32,
        ((((ip.zeroExtend 64 <<< 16) ||| nl.zeroExtend 64) <<< 3 ||| 3#64).sshiftRight 3).truncate 16) = (ip, nl)
  rw [core_fn_ip, core_fn_nl]

theorem C15_fn_tag (ip : BitVec 32) (nl : BitVec 16) : tag (function ip nl) = some .function := by
  have : tagNat (function ip nl) = 3 := by
    show ((((ip.zeroExtend 64 <<< 16) ||| nl.zeroExtend 64) <<< 3 ||| 3#64) &&& 7#64).toNat = 3
    rw [core_fn_tag]; rfl
  exact tag_of_tagNat this (by decide) (by omega)

theorem C15_fn_injective (ip ip' : BitVec 32) (nl nl' : BitVec 16)
    (h : function ip nl = function ip' nl') : ip = ip' ∧ nl = nl' := by
  have := C15_fn_roundtrip ip nl
  rw [h, C15_fn_roundtrip] at this
  exact ⟨(Prod.mk.inj this).1.symm, (Prod.mk.inj this).2.symm⟩

/-- a heap pointer (8-aligned address, as the allocator returns for these layouts) with any of
    the three heap tags is read back exactly, keeps its tag, and is recognised as heap-allocated -/
theorem C15_ptr_roundtrip (addr : Word) (t : Ty) (ha : addr &&& 7#64 = 0#64)
    (ht : t = .float ∨ t = .string ∨ t = .array) :
    asPtr (ptr addr t) = addr ∧ tag (ptr addr t) = some t ∧ isHeap (ptr addr t) = true := by
  have key := fun k hk => core_ptr addr k ha hk
  rcases ht with rfl | rfl | rfl
  · obtain ⟨k1, k2⟩ := key 4#64 (Or.inl rfl)
    have tn : tagNat (ptr addr .float) = 4 := by
      show ((addr ||| 4#64) &&& 7#64).toNat = 4
      rw [k2]; rfl
    exact ⟨k1, tag_of_tagNat tn (by decide) (by omega), by unfold isHeap; rw [tn]; rfl⟩
  · obtain ⟨k1, k2⟩ := key 5#64 (Or.inr (Or.inl rfl))
    have tn : tagNat (ptr addr .string) = 5 := by
      show ((addr ||| 5#64) &&& 7#64).toNat = 5
      rw [k2]; rfl
    exact ⟨k1, tag_of_tagNat tn (by decide) (by omega), by unfold isHeap; rw [tn]; rfl⟩
  · obtain ⟨k1, k2⟩ := key 6#64 (Or.inr (Or.inr rfl))
    have tn : tagNat (ptr addr .array) = 6 := by
      show ((addr ||| 6#64) &&& 7#64).toNat = 6
      rw [k2]; rfl
    exact ⟨k1, tag_of_tagNat tn (by decide) (by omega), by unfold isHeap; rw [tn]; rfl⟩

/-- immediates are never taken for heap pointers -/
theorem C15_immediates_not_heap (x : Word) (ip : BitVec 32) (nl : BitVec 16) (b : Bool) :
    isHeap (withType (x <<< VALUE_SHIFT_BITS) .int) = false ∧ isHeap (bool b) = false
    ∧ isHeap null = false ∧ isHeap (function ip nl) = false := by
  refine ⟨?_, ?_, ?_, ?_⟩
  · unfold isHeap; rw [C15_int_tag]; rfl
  · cases b <;> decide
  · decide
  · have : tagNat (function ip nl) = 3 := by
      show ((((ip.zeroExtend 64 <<< 16) ||| nl.zeroExtend 64) <<< 3 ||| 3#64) &&& 7#64).toNat = 3
      rw [core_fn_tag]; rfl
    unfold isHeap; rw [this]; rfl

/-- values of different type never share a word: the tag is part of the word -/
theorem C15_types_distinct (w1 w2 : Word) (h : tagNat w1 ≠ tagNat w2) : w1 ≠ w2 := by
  intro e; exact h (by rw [e])

/-- non-vacuity: concrete values meet the hypotheses above -/
example : InRange61 (BitVec.ofInt 64 (-1152921504606846976)) ∧ InRange61 (BitVec.ofInt 64 1152921504606846975) := by
  unfold InRange61; decide

/-! ### text: the stored bytes are read back as the text that was written, and equal bytes mean equal text -/

/-- any text is read back exactly: decoding the UTF-8 bytes the implementation stores gives the characters written -/
theorem C15_text_bytes_roundtrip (cs : Text) : Utf8.decode (Utf8.encode cs) = some cs := Utf8.U7 cs

/-- different texts have different bytes (so bytewise `==` never identifies two different texts), equal texts equal bytes -/
theorem C15_text_bytes_injective (a b : Text) : Utf8.byteEq (Utf8.encode a) (Utf8.encode b) = (a == b) := Utf8.byteEq_encode a b

/-- the decoder is STRICT (second audit, item g): it accepts a byte string exactly when it is the encoding of a text — overlong
    forms, surrogates, values above 0x10FFFF, truncated sequences and stray continuation bytes are rejected — so the byte strings the
    text theorems of C13/C14/C06 speak about (`encode cs`) are exactly the well-formed UTF-8 strings, i.e. every Rust `str` -/
theorem C15_text_bytes_decoder_is_strict (bs : List UInt8) (cs : Text) : Utf8.decode bs = some cs ↔ bs = Utf8.encode cs :=
  Utf8.decode_eq_some_iff bs cs

end C15
end Nl
