/-
  The ledger invariant (CompileMemInv) is preserved by `handOver` (success) and by `destroyC`
  (failure / drop of the compiler); what each of them does to the collector's list and to the heap.
-/
import Nlmodel.Proofs.Lemmas.CompileMemInv
namespace Nl
namespace CompileMem
open GC

/-! ### `untrace` of the pool -/

theorem untrace_box (h : Heap) (f : Nat) (man : List Nat) (e : Const × Nat) (he : isHeap e.1 = true) :
    GC.untrace h (f + 1) man (valOf e) = man.erase e.2 := by
  obtain ⟨c, a⟩ := e
  cases c with
  | int _ => simp [isHeap] at he
  | fn _ _ => simp [isHeap] at he
  | float b =>
    simp only [valOf, GC.untrace]
    by_cases hm : a ∈ man
    · simp [hm]
    · simp [hm, List.erase_of_not_mem hm]
  | str s =>
    simp only [valOf, GC.untrace]
    by_cases hm : a ∈ man
    · simp [hm]
    · simp [hm, List.erase_of_not_mem hm]

theorem untracePool_cons (h : Heap) (man : List Nat) (e : Const × Nat) (pool : List (Const × Nat))
    (he : isHeap e.1 = true) : untracePool h man (e :: pool) = untracePool h (man.erase e.2) pool := by
  simp only [untracePool, List.foldl_cons, untrace_box h _ man e he]

/-- untracing the pool removes exactly the pool boxes from the collector's list -/
theorem untracePool_spec (h : Heap) : ∀ (pool : List (Const × Nat)) (man : List Nat), man.Nodup →
    (∀ e, e ∈ pool → isHeap e.1 = true) →
    (untracePool h man pool).Nodup ∧
    ∀ b, b ∈ untracePool h man pool ↔ (b ∈ man ∧ b ∉ pool.map Prod.snd) := by
  intro pool
  induction pool with
  | nil => intro man hnd _; exact ⟨hnd, fun b => by simp [untracePool]⟩
  | cons e pool ih =>
    intro man hnd hp
    rw [untracePool_cons h man e pool (hp e List.mem_cons_self)]
    obtain ⟨h1, h2⟩ := ih (man.erase e.2) (hnd.erase _) (fun x hx => hp x (List.mem_cons_of_mem _ hx))
    refine ⟨h1, fun b => ?_⟩
    rw [h2 b, hnd.mem_erase_iff]
    simp only [List.map_cons, List.mem_cons, not_or]
    constructor
    · rintro ⟨⟨a, b⟩, c⟩; exact ⟨b, a, c⟩
    · rintro ⟨a, b, c⟩; exact ⟨⟨b, a⟩, c⟩

/-! ### `handOver` -/

theorem handOver_managed {h0 : Heap} {w : CM} (h : Inv h0 w) :
    (handOver w).mem.managed.Nodup ∧ ∀ b, b ∈ (handOver w).mem.managed ↔ b ∈ w.dups := by
  obtain ⟨h1, h2⟩ := untracePool_spec w.mem.heap w.pool w.mem.managed h.manND (fun e he => (h.poolCell e he).1)
  refine ⟨h1, fun b => ?_⟩
  show b ∈ untracePool w.mem.heap w.mem.managed w.pool ↔ _
  rw [h2 b, h.manIff b]
  constructor
  · rintro ⟨x | x, y⟩
    · exact x
    · exact absurd x y
  · intro x; exact ⟨Or.inl x, h.dupPool b x⟩

theorem inv_handOver {h0 : Heap} {w : CM} (h : Inv h0 w) : Inv h0 (handOver w) := by
  obtain ⟨h1, h2⟩ := untracePool_spec w.mem.heap w.pool w.mem.managed h.manND (fun e he => (h.poolCell e he).1)
  obtain ⟨_, h3⟩ := handOver_managed h
  constructor
  · exact h.base
  · exact h.old
  · exact h1
  · intro a
    show a ∈ (handOver w).mem.managed ↔ (a ∈ w.dups ∨ a ∈ ([] : List (Const × Nat)).map Prod.snd)
    rw [h3 a]; simp
  · exact List.nodup_nil
  · intro a _; show a ∉ ([] : List (Const × Nat)).map Prod.snd; simp
  · intro a ha
    exact h.manLive a ((h2 a).1 ha).1
  · intro e he; cases he
  · exact h.logND
  · exact h.logFreed
  · show ((w.handed ++ w.pool).map Prod.snd).Nodup
    rw [List.map_append, List.nodup_append]
    refine ⟨h.handND, h.poolND, ?_⟩
    intro a ha b hb e
    subst e
    obtain ⟨x, hx, hxa⟩ := List.mem_map.1 ha
    have := (h.handCell x hx).2.2.2
    rw [hxa] at this
    exact this ((h.manIff a).2 (Or.inr hb))
  · intro e he
    show h0.cells.size ≤ e.2 ∧ isHeap e.1 = true ∧ w.mem.heap.get e.2 = cellOf e.1 ∧
      e.2 ∉ untracePool w.mem.heap w.mem.managed w.pool
    cases List.mem_append.1 he with
    | inl he =>
      obtain ⟨a, b, c, d⟩ := h.handCell e he
      exact ⟨a, b, c, fun x => d ((h2 _).1 x).1⟩
    | inr he =>
      have hm : e.2 ∈ w.mem.managed := (h.manIff _).2 (Or.inr (List.mem_map.2 ⟨e, he, rfl⟩))
      obtain ⟨a, b⟩ := h.poolCell e he
      exact ⟨(h.manLive _ hm).1, a, b, fun x => ((h2 _).1 x).2 (List.mem_map.2 ⟨e, he, rfl⟩)⟩
  · intro a ha hb
    show a ∈ untracePool w.mem.heap w.mem.managed w.pool ∨ a ∈ w.log ∨ a ∈ (w.handed ++ w.pool).map Prod.snd
    rcases h.part a ha hb with x | x | x
    · by_cases hp : a ∈ w.pool.map Prod.snd
      · right; right; rw [List.map_append]; exact List.mem_append_right _ hp
      · left; exact (h2 a).2 ⟨x, hp⟩
    · right; left; exact x
    · right; right; rw [List.map_append]; exact List.mem_append_left _ x

/-! ### `destroyC` -/

theorem inv_destroyC {h0 : Heap} {w : CM} (h : Inv h0 w) : Inv h0 (destroyC w) := by
  constructor
  · show h0.cells.size ≤ (freeAll w.mem.heap w.mem.managed).cells.size
    rw [freeAll_size]; exact h.base
  · intro a ha
    show (freeAll w.mem.heap w.mem.managed).get a = h0.get a
    rw [freeAll_get_other _ _ _ (fun hm => by have := (h.manLive a hm).1; omega)]
    exact h.old a ha
  · exact List.nodup_nil
  · intro a; show a ∈ ([] : List Nat) ↔ (a ∈ ([] : List Nat) ∨ a ∈ ([] : List (Const × Nat)).map Prod.snd); simp
  · exact List.nodup_nil
  · intro a ha; cases ha
  · intro a ha; cases ha
  · intro e he; cases he
  · show (w.log ++ w.mem.managed).Nodup
    rw [List.nodup_append]
    refine ⟨h.logND, h.manND, ?_⟩
    intro a ha b hb e
    subst e
    exact (h.manLive a hb).2 (h.logFreed a ha).2.2
  · intro a ha
    show h0.cells.size ≤ a ∧ a < (freeAll w.mem.heap w.mem.managed).cells.size ∧
      (freeAll w.mem.heap w.mem.managed).get a = .freed
    rw [freeAll_size]
    cases List.mem_append.1 ha with
    | inl ha =>
      obtain ⟨a1, a2, a3⟩ := h.logFreed a ha
      exact ⟨a1, a2, Ledger.freeAll_get_freed _ _ _ a3⟩
    | inr ha =>
      obtain ⟨a1, a2⟩ := h.manLive a ha
      exact ⟨a1, ND.live_lt a2, Ledger.freeAll_dead _ _ _ ha⟩
  · exact h.handND
  · intro e he
    show h0.cells.size ≤ e.2 ∧ isHeap e.1 = true ∧ (freeAll w.mem.heap w.mem.managed).get e.2 = cellOf e.1 ∧
      e.2 ∉ ([] : List Nat)
    obtain ⟨a, b, c, d⟩ := h.handCell e he
    rw [freeAll_get_other _ _ _ d]
    exact ⟨a, b, c, by simp⟩
  · intro a ha hb
    show a ∈ ([] : List Nat) ∨ a ∈ w.log ++ w.mem.managed ∨ a ∈ w.handed.map Prod.snd
    have hb' : a < w.mem.heap.cells.size := by rw [← freeAll_size w.mem.managed]; exact hb
    rcases h.part a ha hb' with x | x | x
    · right; left; exact List.mem_append_right _ x
    · right; left; exact List.mem_append_left _ x
    · right; right; exact x

/-- each cell `destroyC` frees is live when its turn comes: no `free` of a freed cell -/
theorem destroyC_frees_live {h0 : Heap} {w : CM} (h : Inv h0 w) (pre : List Nat) (a : Nat) (post : List Nat)
    (e : w.mem.managed = pre ++ a :: post) : ND.Live (freeAll w.mem.heap pre) a :=
  Ledger.freeAll_once w.mem.heap w.mem.managed h.manND (fun a ha => (h.manLive a ha).2) pre a post e

theorem inv_succeed {h0 : Heap} {w : CM} (h : Inv h0 w) (occ : List Const) : Inv h0 (succeed occ w) :=
  inv_handOver (inv_compileAllocFrom occ h)

theorem inv_failAfter {h0 : Heap} {w : CM} (h : Inv h0 w) (k : Nat) (occ : List Const) : Inv h0 (failAfter k occ w) :=
  inv_destroyC (inv_compileAllocFrom _ h)

theorem inv_comp {h0 : Heap} {w : CM} (h : Inv h0 w) (c : Comp) : Inv h0 (c.run w) := by
  cases c with
  | ok occ => exact inv_succeed h occ
  | fail occ k => exact inv_failAfter h k occ

theorem inv_runSession {h0 : Heap} (cs : List Comp) : ∀ {w : CM}, Inv h0 w → Inv h0 (runSession cs w) := by
  induction cs with
  | nil => intro w h; exact h
  | cons c cs ih =>
    intro w h
    simp only [runSession, List.foldl_cons] at ih ⊢
    exact ih (inv_comp h c)

end CompileMem
end Nl
