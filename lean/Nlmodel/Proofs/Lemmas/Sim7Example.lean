/- Stage 7: non-vacuity — programs with function literals in nested positions pass the validation (kernel-evaluated),
   so the end-to-end theorems `program7` / `eval_text7` apply to them. -/
import Nlmodel.Proofs.Lemmas.Sim7Check
namespace Nl
namespace Sim7

/-- `functie mk(a) { functie inner(x) { x + 1 }; antwoord inner }; stel f = mk(0); f(2)`:
    a (named) function defined inside a function and returned -/
def ex7Ast1 : Block :=
  .cons (.expr (.func "mk".toList ["a".toList]
    (.cons (.expr (.func "inner".toList ["x".toList] (.cons (.expr (.infix (.ident "x".toList) .add (.int 1))) .nil)))
    (.cons (.ret (.ident "inner".toList)) .nil))))
  (.cons (.letS "f".toList (.call (.ident "mk".toList) (.cons (.int 0) .nil)))
  (.cons (.expr (.call (.ident "f".toList) (.cons (.int 2) .nil))) .nil))

example : (match compileProgram ex7Ast1 with | .ok (r, _) => inFragment7 r | .error _ => false) = true := by decide +kernel

/-- `functie mk() { functie(x) { functie(y) { y } } }; mk()(1)(2)`: anonymous literals nested three deep, the value of a body,
    returned and called at once -/
def ex7Ast1b : Block :=
  .cons (.expr (.func "mk".toList []
    (.cons (.expr (.func [] ["x".toList] (.cons (.expr (.func [] ["y".toList] (.cons (.expr (.ident "y".toList)) .nil))) .nil))) .nil)))
  (.cons (.expr (.call (.call (.call (.ident "mk".toList) .nil) (.cons (.int 1) .nil)) (.cons (.int 2) .nil))) .nil)

example : (match compileProgram ex7Ast1b with | .ok (r, _) => inFragment7 r | .error _ => false) = true := by decide +kernel

/-- `functie app(g, v) { g(v) }; app(functie(y) { y * 2 }, 21)`: an anonymous function passed as an argument -/
def ex7Ast2 : Block :=
  .cons (.expr (.func "app".toList ["g".toList, "v".toList]
    (.cons (.expr (.call (.ident "g".toList) (.cons (.ident "v".toList) .nil))) .nil)))
  (.cons (.expr (.call (.ident "app".toList)
    (.cons (.func [] ["y".toList] (.cons (.expr (.infix (.ident "y".toList) .mul (.int 2))) .nil)) (.cons (.int 21) .nil)))) .nil)

example : (match compileProgram ex7Ast2 with | .ok (r, _) => inFragment7 r | .error _ => false) = true := by decide +kernel

/-- `functie(x) { x }(1)`: an immediately called literal; and one as an array element: `[functie() { "s" }, 2][0]()` -/
def ex7Ast3 : Block :=
  .cons (.expr (.call (.func [] ["x".toList] (.cons (.expr (.ident "x".toList)) .nil)) (.cons (.int 1) .nil)))
  (.cons (.expr (.call (.index (.arr (.cons (.func [] [] (.cons (.expr (.str "s".toList)) .nil)) (.cons (.int 2) .nil))) (.int 0)) .nil)) .nil)

example : (match compileProgram ex7Ast3 with | .ok (r, _) => inFragment7 r | .error _ => false) = true := by decide +kernel

/-- `functie h(n) { stel i = 0; zolang i < n { functie k(z) { z }; i = i + k(1) }; i }; h(3)`:
    a named literal inside a loop body inside a function -/
def ex7Ast4 : Block :=
  .cons (.expr (.func "h".toList ["n".toList]
    (.cons (.letS "i".toList (.int 0))
    (.cons (.expr (.whileE (.infix (.ident "i".toList) .lt (.ident "n".toList))
      (.cons (.expr (.func "k".toList ["z".toList] (.cons (.expr (.ident "z".toList)) .nil)))
      (.cons (.expr (.assign (.ident "i".toList) (.infix (.ident "i".toList) .add (.call (.ident "k".toList) (.cons (.int 1) .nil))))) .nil))))
    (.cons (.expr (.ident "i".toList)) .nil)))))
  (.cons (.expr (.call (.ident "h".toList) (.cons (.int 3) .nil))) .nil)

example : (match compileProgram ex7Ast4 with | .ok (r, _) => inFragment7 r | .error _ => false) = true := by decide +kernel

/-- `stel g = 1; { stel t = 2; stel f = functie(a) { a + g }; print(f(t)) }; g`: a literal inside a top-level block that uses
    a persistent global only (it may not use the block-scoped `t` or `f`: U1) -/
def ex7Ast5 : Block :=
  .cons (.letS "g".toList (.int 1))
  (.cons (.block
    (.cons (.letS "t".toList (.int 2))
    (.cons (.letS "f".toList (.func [] ["a".toList] (.cons (.expr (.infix (.ident "a".toList) .add (.ident "g".toList))) .nil)))
    (.cons (.expr (.call (.ident "print".toList) (.cons (.call (.ident "f".toList) (.cons (.ident "t".toList) .nil)) .nil))) .nil))))
  (.cons (.expr (.ident "g".toList)) .nil))

example : (match compileProgram ex7Ast5 with | .ok (r, _) => inFragment7 r | .error _ => false) = true := by decide +kernel

/-- the boundary (U1): `{ stel t = 2; stel f = functie() { t } }` — the literal uses a block-scoped global: rejected -/
def ex7Ast6 : Block :=
  .cons (.block
    (.cons (.letS "t".toList (.int 2))
    (.cons (.letS "f".toList (.func [] [] (.cons (.expr (.ident "t".toList)) .nil))) .nil))) .nil

example : (match compileProgram ex7Ast6 with | .ok (r, _) => inFragment7 r | .error _ => false) = false := by decide +kernel

end Sim7
end Nl
