/- Forward simulation, stage 1: closed scalar expressions (integers, booleans, ! - and the 13 binary
   operators): whatever the definitional evaluator computes, the machine computes by running the
   emitted bytes (C01). -/
import Nlmodel.Proofs.Lemmas.SimBase
import Nlmodel.Proofs.Lemmas.PoolExt
namespace Nl
namespace Sim
open Spec

/-- closed scalar expressions -/
inductive Sc : RExpr → Prop where
  | int (v : Int) : Sc (.int v)
  | bool (b : Bool) : Sc (.bool b)
  | not (e : RExpr) : Sc e → Sc (.not e)
  | neg (e : RExpr) : Sc e → Sc (.neg e)
  | bin (l : RExpr) (op : BinOp) (r : RExpr) : Sc l → Sc r → Sc (.infix l op r)

theorem sc_not_fused (l r : RExpr) (op : BinOp) (hl : Sc l) (hr : Sc r) : fusedCandidate l op r = none := by
  cases hl <;> cases hr <;> rfl

/-- scalar spec values and their machine counterparts -/
def toVal : SVal → Option Value
  | .null => some .null
  | .bool b => some (.bool b)
  | .int i => some (.int i)
  | _ => none

/-- the machine's constants realise the pool (integers only matter here) -/
def PoolOK (cvals : Array Value) (cs : List Const) : Prop :=
  ∀ (k : Nat) (i : Int), cs[k]? = some (Const.int i) → cvals[k]? = some (Value.int i)

theorem PoolOK.mono {cvals : Array Value} {a b : List Const} (h : PoolOK cvals b) (he : Ext a b) : PoolOK cvals a :=
  fun k i hk => h k i (he.get k _ hk)

theorem addConst_int_index (cs : List Const) (v : Int) :
    (addConst cs (.int v)).1[(addConst cs (.int v)).2]? = some (.int v) := by
  unfold addConst
  cases h : cs.findIdx? (Const.same · (.int v)) with
  | none => simp
  | some i =>
    simp only
    rw [List.findIdx?_eq_some_iff_getElem] at h
    obtain ⟨hi, hs, _⟩ := h
    rw [List.getElem?_eq_getElem hi]
    cases hc : cs[i] with
    | int w => simp [hc, Const.same] at hs; rw [hs]
    | float _ => simp [hc, Const.same] at hs
    | str _ => simp [hc, Const.same] at hs
    | fn _ _ => simp [hc, Const.same] at hs

/-- views of scalar machine values do not depend on the heap -/
theorem view_scalar (h : Heap) (v : SVal) (mv : Value) (st : SState) (hv : toVal v = some mv) :
    h.view mv = st.view v := by
  cases v <;> simp [toVal] at hv <;> subst hv <;> rfl

theorem box_scalar (m : Mem) (arg : Value) (st : SState) (sarg : SVal) (p : PRes)
    (hp : p = .null ∨ (∃ b, p = .bool b) ∨ (∃ i, p = .int i)) :
    ∃ mv, (m.box arg p) = (mv, m) ∧ toVal (st.box sarg p).1 = some mv ∧ (st.box sarg p).2 = st := by
  rcases hp with rfl | ⟨b, rfl⟩ | ⟨i, rfl⟩
  · exact ⟨.null, rfl, rfl, rfl⟩
  · exact ⟨.bool b, rfl, rfl, rfl⟩
  · exact ⟨.int i, rfl, rfl, rfl⟩

/-- on scalar views every operator yields a scalar primitive (or an error) -/
theorem binopCore_scalar (op : BinOp) (a b : SVal) (ma mb : Value) (st : SState) (p : PRes)
    (ha : toVal a = some ma) (hb : toVal b = some mb) (h : binopCore op (st.view a) (st.view b) = .ok p) :
    p = .null ∨ (∃ x, p = .bool x) ∨ (∃ i, p = .int i) := by
  cases a <;> simp [toVal] at ha <;> cases b <;> simp [toVal] at hb <;> cases op <;>
    simp only [SState.view, binopCore, View.ty, BinOp.isArith, BinOp.isOrder, intArith] at h <;>
    (repeat' split at h) <;> (first | (simp at h; done) | (injection h with h; subst h; simp) | skip)


/-- what the machine does for an expression whose definitional evaluation gives `r` -/
def Goal (C : Code) (s : VM) (pos sz : Nat) (st : SState) (r : Res SVal) : Prop :=
  match r with
  | .val v st' => st' = st ∧ ∃ mv, toVal v = some mv ∧
      ∃ n, execN C n s = some { s with ip := pos + sz, stack := s.stack.push mv }
  | .err er st' => st' = st ∧ ∃ n s1 s2, execN C n s = some s1 ∧ step C s1 = .error er s2
  | .fuel => True
  | _ => False

theorem pop1_push (st : Array Value) (v : Value) : pop1 (st.push v) = some (v, st) := by simp [pop1]

theorem sim_sc : ∀ (f : Nat) (e : RExpr) (st : SState), Sc e → ∀ (pos : Nat) (lp : LoopCtx) (cs : List Const)
    (C : Code) (s : VM), CodeAt C pos (emitE e pos lp cs).1 → PoolOK s.cvals (emitE e pos lp cs).2 → s.ip = pos →
    Goal C s pos (sizeE e) st (evalE f e st) := by
  intro f
  induction f with
  | zero => intro e st _ pos lp cs C s _ _ _; simp [evalE, Goal]
  | succ f ih =>
    intro e st hsc pos lp cs C s hcode hpool hip
    cases hsc with
    | int v =>
      simp only [evalE, Goal, emitE] at hcode hpool ⊢
      refine ⟨trivial, .int v, rfl, 1, ?_⟩
      have hk := hpool _ v (addConst_int_index cs v)
      simp only [execN, step_at (hip ▸ hcode), exec, hk, sizeE, Instr.size, hip]
    | bool b =>
      simp only [evalE, Goal, emitE] at hcode ⊢
      refine ⟨trivial, .bool b, rfl, 1, ?_⟩
      cases b <;> simp only [execN, step_at (hip ▸ hcode), exec, sizeE, Instr.size, hip] <;> rfl
    | not e1 h1 =>
      simp only [emitE] at hcode hpool
      obtain ⟨hc1, hc2⟩ := hcode.append
      have := ih e1 st h1 pos lp cs C s hc1 hpool hip
      simp only [evalE]
      cases hr : evalE f e1 st with
      | val v st1 =>
        rw [hr] at this
        obtain ⟨rfl, mv, hmv, n, hn⟩ := this
        rw [emitE_size] at hc2
        have hstep : step C { s with ip := pos + sizeE e1, stack := s.stack.push mv } =
            exec .not (pos + sizeE e1 + 1) { s with ip := pos + sizeE e1, stack := s.stack.push mv } := by
          have := step_at (s := { s with ip := pos + sizeE e1, stack := s.stack.push mv }) (i := .not) (rest := []) hc2
          simpa [Instr.size] using this
        cases v <;> simp [toVal] at hmv <;> subst hmv
        · -- null: type error
          have : ∃ s2, step C { s with ip := pos + sizeE e1, stack := s.stack.push .null } = .error .type s2 := by
            rw [hstep]; simp only [exec, pop1_push]; exact ⟨_, rfl⟩
          obtain ⟨s2, hs2⟩ := this
          exact ⟨rfl, n, _, s2, hn, hs2⟩
        · rename_i b
          refine ⟨rfl, .bool (!b), rfl, n + 1, ?_⟩
          apply execN_add C n 1 s _ _ hn
          simp only [execN, hstep, exec, pop1_push, sizeE]
          congr 2 <;> omega
        · rename_i i
          have : ∃ s2, step C { s with ip := pos + sizeE e1, stack := s.stack.push (.int i) } = .error .type s2 := by
            rw [hstep]; simp only [exec, pop1_push]; exact ⟨_, rfl⟩
          obtain ⟨s2, hs2⟩ := this
          exact ⟨rfl, n, _, s2, hn, hs2⟩
      | err er st1 =>
        rw [hr] at this
        obtain ⟨rfl, n, s1, s2, hn, hs⟩ := this
        exact ⟨rfl, n, s1, s2, hn, hs⟩
      | fuel => trivial
      | brk _ => rw [hr] at this; exact this
      | cont _ => rw [hr] at this; exact this
      | ret _ _ => rw [hr] at this; exact this
      | unspec _ => rw [hr] at this; exact this
    | neg e1 h1 =>
      simp only [emitE] at hcode hpool
      obtain ⟨hc1, hc2⟩ := hcode.append
      have := ih e1 st h1 pos lp cs C s hc1 hpool hip
      simp only [evalE]
      cases hr : evalE f e1 st with
      | val v st1 =>
        rw [hr] at this
        obtain ⟨rfl, mv, hmv, n, hn⟩ := this
        rw [emitE_size] at hc2
        have hstep : step C { s with ip := pos + sizeE e1, stack := s.stack.push mv } =
            exec .negate (pos + sizeE e1 + 1) { s with ip := pos + sizeE e1, stack := s.stack.push mv } := by
          have := step_at (s := { s with ip := pos + sizeE e1, stack := s.stack.push mv }) (i := .negate) (rest := []) hc2
          simpa [Instr.size] using this
        cases v <;> simp [toVal] at hmv <;> subst hmv
        · have : ∃ s2, step C { s with ip := pos + sizeE e1, stack := s.stack.push .null } = .error .type s2 := by
            rw [hstep]; simp only [exec, pop1_push]; exact ⟨_, rfl⟩
          obtain ⟨s2, hs2⟩ := this
          exact ⟨rfl, n, _, s2, hn, hs2⟩
        · rename_i b
          have : ∃ s2, step C { s with ip := pos + sizeE e1, stack := s.stack.push (.bool b) } = .error .type s2 := by
            rw [hstep]; simp only [exec, pop1_push]; exact ⟨_, rfl⟩
          obtain ⟨s2, hs2⟩ := this
          exact ⟨rfl, n, _, s2, hn, hs2⟩
        · rename_i i
          by_cases hin : inRange (-i) = true
          · simp only [hin, ↓reduceIte, Goal]
            refine ⟨trivial, .int (-i), rfl, n + 1, ?_⟩
            apply execN_add C n 1 s _ _ hn
            simp only [execN, hstep, exec, pop1_push, hin, ↓reduceIte, sizeE]
            congr 2 <;> omega
          · simp only [hin, Bool.false_eq_true, ↓reduceIte, Goal]
            have : ∃ s2, step C { s with ip := pos + sizeE e1, stack := s.stack.push (.int i) } = .error .type s2 := by
              rw [hstep]; simp only [exec, pop1_push, hin, Bool.false_eq_true, ↓reduceIte]; exact ⟨_, rfl⟩
            obtain ⟨s2, hs2⟩ := this
            exact ⟨trivial, n, _, s2, hn, hs2⟩
      | err er st1 =>
        rw [hr] at this
        obtain ⟨rfl, n, s1, s2, hn, hs⟩ := this
        exact ⟨rfl, n, s1, s2, hn, hs⟩
      | fuel => trivial
      | brk _ => rw [hr] at this; exact this
      | cont _ => rw [hr] at this; exact this
      | ret _ _ => rw [hr] at this; exact this
      | unspec _ => rw [hr] at this; exact this
    | bin l op r hl hr =>
      have hnf := sc_not_fused l r op hl hr
      simp only [emitE, hnf] at hcode hpool
      obtain ⟨hc12, hc3⟩ := hcode.append
      obtain ⟨hc1, hc2⟩ := hc12.append
      rw [emitE_size] at hc2
      have hpool1 : PoolOK s.cvals (emitE l pos lp cs).2 := hpool.mono (emitE_ext r _ _ _)
      have ihl := ih l st hl pos lp cs C s hc1 hpool1 hip
      simp only [evalE]
      cases hrl : evalE f l st with
      | val a st1 =>
        rw [hrl] at ihl
        obtain ⟨rfl, ma, hma, n1, hn1⟩ := ihl
        have ihr := ih r st1 hr (pos + sizeE l) lp (emitE l pos lp cs).2 C
          { s with ip := pos + sizeE l, stack := s.stack.push ma } hc2 hpool rfl
        simp only
        cases hrr : evalE f r st1 with
        | val b st2 =>
          rw [hrr] at ihr
          obtain ⟨rfl, mb, hmb, n2, hn2⟩ := ihr
          simp only at hn2
          have hc3' : CodeAt C (pos + sizeE l + sizeE r) [Instr.bin op] := by
            have := hc3
            simp only [codeSize_append, emitE_size, ← Nat.add_assoc] at this
            exact this
          let S2 : VM := { s with ip := pos + sizeE l + sizeE r, stack := (s.stack.push ma).push mb }
          have hstep : step C S2 = exec (.bin op) (pos + sizeE l + sizeE r + 1) S2 := by
            have := step_at (s := S2) (i := .bin op) (rest := []) hc3'
            simpa [Instr.size] using this
          have hview : binopCore op (s.mem.heap.view ma) (s.mem.heap.view mb) = binopCore op (st2.view a) (st2.view b) := by
            rw [view_scalar _ a ma st2 hma, view_scalar _ b mb st2 hmb]
          simp only
          cases hcore : binopCore op (st2.view a) (st2.view b) with
          | error er =>
            simp only [Goal]
            have : ∃ s2, step C S2 = .error er s2 := by
              rw [hstep]; simp only [exec, S2, pop1_push, binop, hview, hcore]; exact ⟨_, rfl⟩
            obtain ⟨s2, hs2⟩ := this
            exact ⟨trivial, n1 + n2, S2, s2, execN_add C n1 n2 s _ _ hn1 hn2, hs2⟩
          | ok p =>
            have hp := binopCore_scalar op a b ma mb st2 p hma hmb hcore
            obtain ⟨mv, hbox, hmv, hst⟩ := box_scalar s.mem ma st2 a p hp
            simp only [Goal]
            generalize hsb : st2.box a p = sb at hmv hst ⊢
            obtain ⟨v, st3⟩ := sb
            simp only at hmv hst ⊢
            refine ⟨hst, mv, hmv, n1 + n2 + 1, ?_⟩
            apply execN_add C (n1 + n2) 1 s S2 _ (execN_add C n1 n2 s _ _ hn1 hn2)
            simp only [execN, hstep, exec, S2, pop1_push, binop, hview, hcore, hbox, sizeE, hnf]
            congr 2 <;> omega
        | err er st2 =>
          rw [hrr] at ihr
          obtain ⟨rfl, n2, s1, s2, hn2, hs⟩ := ihr
          exact ⟨rfl, n1 + n2, s1, s2, execN_add C n1 n2 s _ _ hn1 hn2, hs⟩
        | fuel => trivial
        | brk _ => rw [hrr] at ihr; exact ihr
        | cont _ => rw [hrr] at ihr; exact ihr
        | ret _ _ => rw [hrr] at ihr; exact ihr
        | unspec _ => rw [hrr] at ihr; exact ihr
      | err er st1 =>
        rw [hrl] at ihl
        obtain ⟨rfl, n, s1, s2, hn, hs⟩ := ihl
        exact ⟨rfl, n, s1, s2, hn, hs⟩
      | fuel => trivial
      | brk _ => rw [hrl] at ihl; exact ihl
      | cont _ => rw [hrl] at ihl; exact ihl
      | ret _ _ => rw [hrl] at ihl; exact ihl
      | unspec _ => rw [hrl] at ihl; exact ihl

end Sim
end Nl
