/-
  Exact float model, part 3 (C06): the arithmetic operations of `Nlmodel/Model/Float.lean` on finite
  operands are "exact result, then `roundMag`", the special-value tables, and sanity examples.

  Together with `FloatRoundCore` (`roundMag_nearest`, `roundMag_tie_even`, `roundMag_inf_iff`,
  `roundMag_exact`, `roundMag_isRN`, `isRN_unique`, `roundMag_congr`) this makes "the IEEE-754 result
  on floats" a theorem about the model instead of a sampled comparison with the host FPU.

  `mag x`  = |x| in units of 2^-1074 (a natural number for every finite x),
  `sval x` = x  in units of 2^-1074 (an integer).
-/
import Nlmodel.Proofs.Lemmas.FloatRoundCore

namespace Nl
namespace F64R
open Nl.F64

-- `2^1074`, `2^1024` etc. are meant to be evaluated (GMP) wherever the elaborator wants a literal
set_option exponentiation.threshold 4096

theorem int_mul_neg_iff {S T : Int} (hT : 0 < T) : S * T < 0 ↔ S < 0 := by
  constructor
  · intro h
    apply Decidable.byContradiction; intro hc
    have := Int.mul_nonneg (show 0 ≤ S by omega) (Int.le_of_lt hT)
    omega
  · intro h; exact Int.mul_neg_of_neg_of_pos h hT

/-- two fractions `S/T = W/B` with positive denominators have the same sign and
    cross-multiplied magnitudes -/
theorem int_frac_eq {S W : Int} {T B : Nat} (hT : 0 < T) (hB : 0 < B) (h : S * T = W * B) :
    (S = 0 ↔ W = 0) ∧ (S < 0 ↔ W < 0) ∧ S.natAbs * T = W.natAbs * B := by
  have hT' : (0 : Int) < T := by omega
  have hB' : (0 : Int) < B := by omega
  refine ⟨?_, ?_, ?_⟩
  · constructor
    · intro h0; subst h0
      rw [Int.zero_mul] at h
      rcases Int.mul_eq_zero.1 h.symm with h1 | h1
      · exact h1
      · omega
    · intro h0; subst h0
      rw [Int.zero_mul] at h
      rcases Int.mul_eq_zero.1 h with h1 | h1
      · exact h1
      · omega
  · rw [← int_mul_neg_iff hT', h, int_mul_neg_iff hB']
  · have := congrArg Int.natAbs h
    rw [Int.natAbs_mul, Int.natAbs_mul, Int.natAbs_natCast, Int.natAbs_natCast] at this
    exact this

/-! ## 8. the operations on finite operands -/

theorem absBits_lt (x : Bits) : absBits x < 2 ^ 63 := by
  unfold absBits signBit; exact Nat.mod_lt _ (by decide)

theorem finite_iff {x : Bits} : isFinite x = true ↔ absBits x < infBits := by
  unfold isFinite; simp

theorem finite_not_nan {x : Bits} (h : isFinite x = true) : isNaN x = false := by
  unfold isFinite at h; unfold isNaN; simp at h ⊢; omega

theorem finite_not_inf {x : Bits} (h : isFinite x = true) : isInf x = false := by
  unfold isFinite at h; unfold isInf; simp at h ⊢; omega

theorem roundMag_lt_63 (n d : Nat) : roundMag n d < 2 ^ 63 := by
  have := roundMag_le_inf n d
  have : infBits < 2 ^ 63 := by decide
  omega

theorem absBits_ofRat (s : Bool) (n d : Nat) : absBits (ofRat s n d) = roundMag n d :=
  absBits_mk s (roundMag_lt_63 n d)

theorem isNeg_ofRat (s : Bool) (n d : Nat) : isNeg (ofRat s n d) = s :=
  isNeg_mk s (roundMag_lt_63 n d)

/-- magnitude of `x` in units of 2^-1074 -/
def mag (x : Bits) : Nat := V (absBits x)

/-- signed value of `x` in units of 2^-1074 -/
def sval (x : Bits) : Int := if isNeg x then -(mag x : Int) else (mag x : Int)

theorem toFrac_val (x : Bits) : (toFrac x).1 * 2 ^ 1074 = mag x * (toFrac x).2 := by
  rw [toFrac_eq_frac]; exact frac_eq_val _

theorem toFrac_den_pos (x : Bits) : 0 < (toFrac x).2 := by
  rw [toFrac_eq_frac]; exact frac_den_pos _

theorem mag_eq_zero {x : Bits} : mag x = 0 ↔ isZero x = true := by
  unfold mag isZero; rw [V_eq_zero]; simp

theorem toFrac_num_pos {x : Bits} (h : isZero x = false) : 0 < (toFrac x).1 := by
  have h1 := toFrac_val x
  have h2 := toFrac_den_pos x
  have h3 : mag x ≠ 0 := fun hc => by rw [mag_eq_zero.1 hc] at h; cases h
  apply Nat.pos_of_ne_zero; intro hc
  rw [hc, Nat.zero_mul] at h1
  rcases Nat.mul_eq_zero.1 h1.symm with h4 | h4 <;> omega

/-- **`mul`** on finite operands: sign `xor`, magnitude = the correctly rounded exact product -/
theorem mul_finite {x y : Bits} (hx : isFinite x = true) (hy : isFinite y = true) :
    mul x y = ofRat (isNeg x != isNeg y) (mag x * mag y) (2 ^ 1074 * 2 ^ 1074) := by
  unfold mul
  simp only [finite_not_nan hx, finite_not_nan hy, finite_not_inf hx, finite_not_inf hy,
    Bool.or_self, Bool.false_eq_true, if_false]
  have h1 := toFrac_val x
  have h2 := toFrac_val y
  have h3 := toFrac_den_pos x
  have h4 := toFrac_den_pos y
  generalize toFrac x = fx at h1 h3
  generalize toFrac y = fy at h2 h4
  obtain ⟨a, b⟩ := fx
  obtain ⟨c, d⟩ := fy
  simp only at h1 h2 h3 h4 ⊢
  unfold ofRat
  apply congrArg (mk _)
  apply roundMag_congr (Nat.mul_pos h3 h4) (Nat.mul_pos (two_pow_pos' _) (two_pow_pos' _))
  generalize 2 ^ 1074 = T at h1 h2
  calc a * c * (T * T) = (a * T) * (c * T) := by ac_rfl
    _ = (mag x * b) * (mag y * d) := by rw [h1, h2]
    _ = mag x * mag y * (b * d) := by ac_rfl

/-- **`div`** on finite operands, divisor not zero: sign `xor`, magnitude = the correctly rounded
    exact quotient -/
theorem div_finite {x y : Bits} (hx : isFinite x = true) (hy : isFinite y = true)
    (hz : isZero y = false) :
    div x y = ofRat (isNeg x != isNeg y) (mag x) (mag y) := by
  unfold div
  simp only [finite_not_nan hx, finite_not_nan hy, finite_not_inf hx, finite_not_inf hy, hz,
    Bool.or_self, Bool.false_eq_true, if_false]
  have h1 := toFrac_val x
  have h2 := toFrac_val y
  have h3 := toFrac_den_pos x
  have h4 := toFrac_den_pos y
  have h5 := toFrac_num_pos hz
  have h6 : 0 < mag y := Nat.pos_of_ne_zero (fun hc => by rw [mag_eq_zero.1 hc] at hz; cases hz)
  generalize toFrac x = fx at h1 h3
  generalize toFrac y = fy at h2 h4 h5
  obtain ⟨a, b⟩ := fx
  obtain ⟨c, d⟩ := fy
  simp only at h1 h2 h3 h4 h5 ⊢
  unfold ofRat
  apply congrArg (mk _)
  apply roundMag_congr (Nat.mul_pos h3 h5) h6
  have hT : 0 < 2 ^ 1074 := two_pow_pos' _
  generalize 2 ^ 1074 = T at h1 h2 hT
  apply Nat.eq_of_mul_eq_mul_right hT
  calc a * d * mag y * T = (a * T) * (mag y * d) := by ac_rfl
    _ = (mag x * b) * (c * T) := by rw [h1, h2]
    _ = mag x * (b * c) * T := by ac_rfl


/-- the signed fraction computed by `toRat` is `sval x / 2^1074` -/
theorem toRat_val (x : Bits) : (toRat x).1 * (2 ^ 1074 : Nat) = sval x * ((toRat x).2 : Nat) ∧
    0 < (toRat x).2 := by
  unfold toRat sval
  have h1 := toFrac_val x
  have h3 := toFrac_den_pos x
  generalize toFrac x = fx at h1 h3
  obtain ⟨a, b⟩ := fx
  simp only at h1 h3 ⊢
  refine ⟨?_, h3⟩
  generalize 2 ^ 1074 = T at h1
  have h1' : (a : Int) * (T : Int) = (mag x : Int) * (b : Int) := by
    rw [← Int.natCast_mul, ← Int.natCast_mul, h1]
  cases isNeg x
  · simpa using h1'
  · simp only [if_true]; rw [Int.neg_mul, Int.neg_mul, h1']

theorem ofIntRat_eq (n : Int) (d : Nat) (z : Bool) :
    ofIntRat n d z = if n = 0 then zero z else ofRat (decide (n < 0)) n.natAbs d := rfl

/-- **`add`** on finite operands: the correctly rounded exact sum; an exact zero sum is `-0` only
    if both operands are negative -/
theorem add_finite {x y : Bits} (hx : isFinite x = true) (hy : isFinite y = true) :
    add x y = if sval x + sval y = 0 then zero (isNeg x && isNeg y)
      else ofRat (decide (sval x + sval y < 0)) (sval x + sval y).natAbs (2 ^ 1074) := by
  unfold add
  simp only [finite_not_nan hx, finite_not_nan hy, finite_not_inf hx, finite_not_inf hy,
    Bool.or_self, Bool.false_eq_true, if_false]
  obtain ⟨h1, h3⟩ := toRat_val x
  obtain ⟨h2, h4⟩ := toRat_val y
  generalize toRat x = rx at h1 h3
  generalize toRat y = ry at h2 h4
  obtain ⟨a, b⟩ := rx
  obtain ⟨c, d⟩ := ry
  simp only at h1 h2 h3 h4 ⊢
  have hT : 0 < 2 ^ 1074 := two_pow_pos' _
  generalize 2 ^ 1074 = T at h1 h2 hT
  have key : (a * d + c * b) * (T : Int) = (sval x + sval y) * ((b * d : Nat) : Int) := by
    calc (a * d + c * b) * (T : Int) = (a * T) * d + (c * T) * b := by
          rw [Int.add_mul]; congr 1 <;> ac_rfl
      _ = (sval x * b) * d + (sval y * d) * b := by rw [h1, h2]
      _ = (sval x + sval y) * ((b * d : Nat) : Int) := by
          rw [Int.add_mul, Int.natCast_mul]; congr 1 <;> ac_rfl
  obtain ⟨k1, k2, k3⟩ := int_frac_eq hT (Nat.mul_pos h3 h4) key
  rw [ofIntRat_eq]
  by_cases h0 : a * (d : Int) + c * (b : Int) = 0
  · rw [if_pos h0, if_pos (k1.1 h0)]
  · rw [if_neg h0, if_neg (fun hc => h0 (k1.2 hc))]
    unfold ofRat
    have hd : decide (a * (d : Int) + c * (b : Int) < 0) = decide (sval x + sval y < 0) := by
      simp only [decide_eq_decide]; exact k2
    rw [hd]
    apply congrArg (mk _)
    exact roundMag_congr (Nat.mul_pos h3 h4) hT k3

theorem toNat_neg (x : Bits) : (neg x).toNat = (x.toNat + 2 ^ 63) % 2 ^ 64 := by
  unfold neg signBit
  rw [UInt64.toNat_ofNat']
  omega

theorem absBits_neg (x : Bits) : absBits (neg x) = absBits x := by
  unfold absBits; rw [toNat_neg]; unfold signBit
  have := x.toNat_lt
  omega

theorem isNeg_neg (x : Bits) : isNeg (neg x) = !isNeg x := by
  unfold isNeg; rw [toNat_neg]; unfold signBit
  have := x.toNat_lt
  by_cases h : x.toNat ≥ 2 ^ 63
  · simp [h]; omega
  · simp [h]; omega

theorem mag_neg (x : Bits) : mag (neg x) = mag x := by unfold mag; rw [absBits_neg]

theorem sval_neg (x : Bits) : sval (neg x) = - sval x := by
  unfold sval; rw [isNeg_neg, mag_neg]
  cases isNeg x <;> simp

theorem isFinite_neg (x : Bits) : isFinite (neg x) = isFinite x := by
  unfold isFinite; rw [absBits_neg]
theorem isNaN_neg (x : Bits) : isNaN (neg x) = isNaN x := by
  unfold isNaN; rw [absBits_neg]
theorem isInf_neg (x : Bits) : isInf (neg x) = isInf x := by
  unfold isInf; rw [absBits_neg]

theorem lt_eq_sval {x y : Bits} (hx : isNaN x = false) (hy : isNaN y = false) :
    lt x y = decide (sval x < sval y) := by
  unfold lt sval mag isZero
  rw [hx, hy]
  simp only [Bool.or_self, Bool.false_eq_true, if_false]
  have hz : ∀ a, V a = 0 ↔ a = 0 := fun a => V_eq_zero
  have hlt : ∀ a b, V a < V b ↔ a < b := fun a b => V_lt_iff
  generalize absBits x = a at *
  generalize absBits y = b at *
  have h1 := hz a
  have h2 := hz b
  have h3 := hlt a b
  have h4 := hlt b a
  generalize V a = va at *
  generalize V b = vb at *
  cases isNeg x <;> cases isNeg y <;> rw [Bool.eq_iff_iff] <;> simp <;> omega

theorem eq_eq_sval {x y : Bits} (hx : isNaN x = false) (hy : isNaN y = false) :
    F64.eq x y = decide (sval x = sval y) := by
  unfold F64.eq sval mag isZero isNeg absBits signBit
  rw [hx, hy]
  simp only [Bool.or_self, Bool.false_eq_true, if_false]
  have hxl := x.toNat_lt
  have hyl := y.toNat_lt
  generalize x.toNat = p at *
  generalize y.toNat = q at *
  have h1 : V (p % 2 ^ 63) = 0 ↔ p % 2 ^ 63 = 0 := V_eq_zero
  have h2 : V (q % 2 ^ 63) = 0 ↔ q % 2 ^ 63 = 0 := V_eq_zero
  have h3 : V (p % 2 ^ 63) = V (q % 2 ^ 63) ↔ p % 2 ^ 63 = q % 2 ^ 63 :=
    ⟨V_inj, fun h => by rw [h]⟩
  generalize V (p % 2 ^ 63) = vp at *
  generalize V (q % 2 ^ 63) = vq at *
  by_cases hp : p ≥ 2 ^ 63 <;> by_cases hq : q ≥ 2 ^ 63 <;> rw [Bool.eq_iff_iff] <;>
    simp [hp, hq] <;> omega

theorem ofInt_eq (i : Int) :
    ofInt i = if i = 0 then zero false else ofRat (decide (i < 0)) i.natAbs 1 := rfl

/-- **`sub`** on finite operands: the correctly rounded exact difference; an exact zero
    difference is `-0` only for `(-a) - (+a)` -/
theorem sub_finite {x y : Bits} (hx : isFinite x = true) (hy : isFinite y = true) :
    sub x y = if sval x - sval y = 0 then zero (isNeg x && !isNeg y)
      else ofRat (decide (sval x - sval y < 0)) (sval x - sval y).natAbs (2 ^ 1074) := by
  unfold sub
  rw [finite_not_nan hy]
  simp only [Bool.false_eq_true, if_false]
  rw [add_finite hx (by rw [isFinite_neg]; exact hy), sval_neg, isNeg_neg, ← Int.sub_eq_add_neg]

theorem sub_nan_right {x y : Bits} (h : isNaN y = true) : sub x y = canonNaN := by
  unfold sub; simp [h]

theorem sub_eq_add_neg {x y : Bits} (h : isNaN y = false) : sub x y = add x (neg y) := by
  unfold sub; simp [h]

/-- **`rem`** (`fmod`) on finite operands, divisor not zero: sign of the dividend, magnitude = the
    rounded exact remainder of the magnitudes -/
theorem rem_finite {x y : Bits} (hx : isFinite x = true) (hy : isFinite y = true)
    (hz : isZero y = false) :
    rem x y = ofRat (isNeg x) (mag x % mag y) (2 ^ 1074) := by
  unfold rem
  simp only [finite_not_nan hx, finite_not_nan hy, finite_not_inf hx, finite_not_inf hy, hz,
    Bool.or_self, Bool.false_eq_true, if_false]
  have h1 := toFrac_val x
  have h2 := toFrac_val y
  have h3 := toFrac_den_pos x
  have h4 := toFrac_den_pos y
  generalize toFrac x = fx at h1 h3
  generalize toFrac y = fy at h2 h4
  obtain ⟨a, b⟩ := fx
  obtain ⟨c, d⟩ := fy
  simp only at h1 h2 h3 h4 ⊢
  unfold ofRat
  apply congrArg (mk _)
  have hT : 0 < 2 ^ 1074 := two_pow_pos' _
  apply roundMag_congr (Nat.mul_pos h3 h4) hT
  generalize 2 ^ 1074 = T at h1 h2 hT
  rw [← Nat.mul_mod_mul_right, ← Nat.mul_mod_mul_right]
  have e1 : a * d * T = mag x * (b * d) := by
    calc a * d * T = (a * T) * d := by ac_rfl
      _ = mag x * (b * d) := by rw [h1]; ac_rfl
  have e2 : c * b * T = mag y * (b * d) := by
    calc c * b * T = (c * T) * b := by ac_rfl
      _ = mag y * (b * d) := by rw [h2]; ac_rfl
  rw [e1, e2]

/-! ### special values (by unfolding) -/

theorem add_nan {x y : Bits} (h : isNaN x = true ∨ isNaN y = true) : add x y = canonNaN := by
  unfold add; rcases h with h | h <;> simp [h]

theorem add_inf_left {x y : Bits} (hx : isNaN x = false) (hy : isNaN y = false)
    (hi : isInf x = true) :
    add x y = if isInf y && (isNeg x != isNeg y) then canonNaN else x := by
  unfold add; simp [hx, hy, hi]

theorem add_inf_right {x y : Bits} (hx : isNaN x = false) (hy : isNaN y = false)
    (hi : isInf x = false) (hj : isInf y = true) : add x y = y := by
  unfold add; simp [hx, hy, hi, hj]

theorem mul_nan {x y : Bits} (h : isNaN x = true ∨ isNaN y = true) : mul x y = canonNaN := by
  unfold mul; rcases h with h | h <;> simp [h]

theorem mul_inf {x y : Bits} (hx : isNaN x = false) (hy : isNaN y = false)
    (hi : isInf x = true ∨ isInf y = true) :
    mul x y = if isZero x || isZero y then canonNaN else inf (isNeg x != isNeg y) := by
  unfold mul; rcases hi with hi | hi <;> simp [hx, hy, hi]

theorem div_nan {x y : Bits} (h : isNaN x = true ∨ isNaN y = true) : div x y = canonNaN := by
  unfold div; rcases h with h | h <;> simp [h]

theorem div_inf_left {x y : Bits} (hx : isNaN x = false) (hy : isNaN y = false)
    (hi : isInf x = true) :
    div x y = if isInf y then canonNaN else inf (isNeg x != isNeg y) := by
  unfold div; simp [hx, hy, hi]

theorem div_inf_right {x y : Bits} (hx : isNaN x = false) (hy : isNaN y = false)
    (hi : isInf x = false) (hj : isInf y = true) : div x y = zero (isNeg x != isNeg y) := by
  unfold div; simp [hx, hy, hi, hj]

theorem div_zero {x y : Bits} (hx : isFinite x = true) (hy : isFinite y = true)
    (hz : isZero y = true) :
    div x y = if isZero x then canonNaN else inf (isNeg x != isNeg y) := by
  unfold div
  simp [finite_not_nan hx, finite_not_nan hy, finite_not_inf hx, finite_not_inf hy, hz]

theorem rem_nan {x y : Bits}
    (h : isNaN x = true ∨ isNaN y = true ∨ isInf x = true ∨ isZero y = true) :
    rem x y = canonNaN := by
  unfold rem; rcases h with h | h | h | h <;> simp [h]

theorem rem_inf_right {x y : Bits} (hx : isFinite x = true) (hy : isInf y = true) :
    rem x y = x := by
  have h1 : isNaN y = false := by unfold isInf at hy; unfold isNaN; simp at hy ⊢; omega
  have h2 : isZero y = false := by
    unfold isInf at hy; unfold isZero; simp at hy ⊢; rw [hy]; decide
  unfold rem
  simp [finite_not_nan hx, finite_not_inf hx, h1, h2, hy]


/-- the result of `ofRat` on a positive rational: sign as given, magnitude correctly rounded -/
theorem ofRat_spec (s : Bool) {n d : Nat} (hn : 0 < n) (hd : 0 < d) :
    isNeg (ofRat s n d) = s ∧
    ((n < d * ovfThreshold ∧ isFinite (ofRat s n d) = true ∧ IsRN n d (absBits (ofRat s n d))) ∨
     (d * ovfThreshold ≤ n ∧ ofRat s n d = inf s)) := by
  refine ⟨isNeg_ofRat s n d, ?_⟩
  rcases roundMag_spec hn hd with ⟨h1, h2, _⟩ | ⟨h1, h2⟩
  · left
    refine ⟨h1, ?_, ?_⟩
    · rw [finite_iff, absBits_ofRat]; exact h2.1
    · rw [absBits_ofRat]; exact h2
  · right
    refine ⟨h1, ?_⟩
    unfold ofRat inf; rw [h2]

theorem ofRat_zero (s : Bool) (d : Nat) : ofRat s 0 d = zero s := by
  unfold ofRat zero; rw [roundMag_zero]

/-- `mul` on finite non-zero operands, spelled out: sign `xor`; below the overflow threshold the
    result is finite and its magnitude is the nearest-even rounding of the exact product, from the
    threshold on it is the infinity of that sign -/
theorem mul_finite_spec {x y : Bits} (hx : isFinite x = true) (hy : isFinite y = true)
    (hxz : isZero x = false) (hyz : isZero y = false) :
    isNeg (mul x y) = (isNeg x != isNeg y) ∧
    ((mag x * mag y < 2 ^ 1074 * 2 ^ 1074 * ovfThreshold ∧ isFinite (mul x y) = true ∧
        IsRN (mag x * mag y) (2 ^ 1074 * 2 ^ 1074) (absBits (mul x y))) ∨
     (2 ^ 1074 * 2 ^ 1074 * ovfThreshold ≤ mag x * mag y ∧
        mul x y = inf (isNeg x != isNeg y))) := by
  rw [mul_finite hx hy]
  have h1 : 0 < mag x := Nat.pos_of_ne_zero (fun hc => by rw [mag_eq_zero.1 hc] at hxz; cases hxz)
  have h2 : 0 < mag y := Nat.pos_of_ne_zero (fun hc => by rw [mag_eq_zero.1 hc] at hyz; cases hyz)
  exact ofRat_spec _ (Nat.mul_pos h1 h2) (Nat.mul_pos (two_pow_pos' _) (two_pow_pos' _))

/-- a zero factor gives the zero of the `xor` sign -/
theorem mul_finite_zero {x y : Bits} (hx : isFinite x = true) (hy : isFinite y = true)
    (hz : isZero x = true ∨ isZero y = true) : mul x y = zero (isNeg x != isNeg y) := by
  rw [mul_finite hx hy]
  have : mag x * mag y = 0 := by
    rcases hz with h | h
    · rw [mag_eq_zero.2 h, Nat.zero_mul]
    · rw [mag_eq_zero.2 h, Nat.mul_zero]
  rw [this, ofRat_zero]

/-- `div` on finite operands, both non-zero, spelled out -/
theorem div_finite_spec {x y : Bits} (hx : isFinite x = true) (hy : isFinite y = true)
    (hxz : isZero x = false) (hyz : isZero y = false) :
    isNeg (div x y) = (isNeg x != isNeg y) ∧
    ((mag x < mag y * ovfThreshold ∧ isFinite (div x y) = true ∧
        IsRN (mag x) (mag y) (absBits (div x y))) ∨
     (mag y * ovfThreshold ≤ mag x ∧ div x y = inf (isNeg x != isNeg y))) := by
  rw [div_finite hx hy hyz]
  have h1 : 0 < mag x := Nat.pos_of_ne_zero (fun hc => by rw [mag_eq_zero.1 hc] at hxz; cases hxz)
  have h2 : 0 < mag y := Nat.pos_of_ne_zero (fun hc => by rw [mag_eq_zero.1 hc] at hyz; cases hyz)
  exact ofRat_spec _ h1 h2

/-- a non-zero exact sum, spelled out: sign of the exact sum, magnitude correctly rounded -/
theorem add_finite_spec {x y : Bits} (hx : isFinite x = true) (hy : isFinite y = true)
    (hnz : sval x + sval y ≠ 0) :
    isNeg (add x y) = decide (sval x + sval y < 0) ∧
    (((sval x + sval y).natAbs < 2 ^ 1074 * ovfThreshold ∧ isFinite (add x y) = true ∧
        IsRN (sval x + sval y).natAbs (2 ^ 1074) (absBits (add x y))) ∨
     (2 ^ 1074 * ovfThreshold ≤ (sval x + sval y).natAbs ∧
        add x y = inf (decide (sval x + sval y < 0)))) := by
  rw [add_finite hx hy, if_neg hnz]
  exact ofRat_spec _ (by omega) (two_pow_pos' _)

/-! ## 9. sanity examples (kernel evaluation of the model) -/

example : roundMag 1 3 = 0x3FD5555555555555 := by decide
example : roundMag 1 10 = 0x3FB999999999999A := by decide
example : roundMag 2 3 = 0x3FE5555555555555 := by decide
/-- 1.0 -/
example : roundMag 1 1 = 0x3FF0000000000000 := by decide
/-- ties: 2^53 + 1 is halfway between 2^53 (even) and 2^53 + 2 (odd); 2^53 + 3 goes up to 2^53 + 4 -/
example : roundMag (2 ^ 53 + 1) 1 = 0x4340000000000000 := by decide
example : roundMag (2 ^ 53 + 3) 1 = 0x4340000000000002 := by decide
example : roundMag (2 ^ 53 + 2) 1 = 0x4340000000000001 := by decide

section big
set_option exponentiation.threshold 3000
set_option maxRecDepth 20000
/-- the largest finite number `(2^53 - 1)·2^971` is a fixed point -/
example : roundMag ((2 ^ 53 - 1) * 2 ^ 971) 1 = 0x7FEFFFFFFFFFFFFF := by decide
/-- the overflow threshold rounds to infinity, anything below it does not -/
example : roundMag (2 ^ 1024 - 2 ^ 970) 1 = infBits := by decide
example : roundMag (2 ^ 1024 - 2 ^ 970 - 1) 1 = 0x7FEFFFFFFFFFFFFF := by decide
/-- the smallest subnormal `2^-1074`; half of it is a tie with 0 (even); three halves tie to 2 -/
example : roundMag 1 (2 ^ 1074) = 1 := by decide
example : roundMag 1 (2 ^ 1075) = 0 := by decide
example : roundMag 3 (2 ^ 1075) = 2 := by decide
/-- the smallest normal number `2^-1022` and its predecessor, the largest subnormal -/
example : roundMag 1 (2 ^ 1022) = 0x0010000000000000 := by decide
example : roundMag (2 ^ 52 - 1) (2 ^ 1074) = 0x000FFFFFFFFFFFFF := by decide

example : V 0x3FF0000000000000 = 2 ^ 1074 := by decide
/-- 0.1 + 0.2 = 0.30000000000000004 -/
example : add 0x3FB999999999999A 0x3FC999999999999A = 0x3FD3333333333334 := by decide
example : mul (ofInt 3) (ofInt (-5)) = ofInt (-15) := by decide
example : div (ofInt 1) (ofInt 3) = 0x3FD5555555555555 := by decide
example : sub (ofInt 1) (ofInt 1) = zero false := by decide
example : add (zero true) (zero true) = zero true := by decide
example : add (zero true) (zero false) = zero false := by decide
example : div (ofInt 1) (zero true) = inf true := by decide
end big

end F64R
end Nl
