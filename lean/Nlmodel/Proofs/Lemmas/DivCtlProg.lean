/- Divergence preservation, stage 3 (C01), continued: statements, blocks in statement and in value
   position, the assembly of the induction, and whole programs: a program of the fragment whose
   definitional evaluation never ends does not end on the machine either. -/
import Nlmodel.Proofs.Lemmas.DivCtl
import Nlmodel.Proofs.Lemmas.ResolveCtl
namespace Nl
namespace Sim
open Spec

theorem ds_succ (f : Nat) (ih : DAll f) : DS (f + 1) := by
  intro Γ ab s Γ1 hx hok st pos lp cs C s0 stk g l hcode hpool hrel hlast hdiv
  cases hx with
  | expr _ _ e he =>
    simp only [emitS] at hcode hpool
    obtain ⟨hc1, _⟩ := hcode.append
    exact (ih.e Γ ab e he hok st pos lp cs C s0 stk g l hc1 hpool hrel hlast (evalS_expr_fuel hdiv)).mono
      (by simp only [dS]; omega)
  | letS _ _ b k e hf he =>
    have hok' := gamOK_cons hok b k hf
    simp only [emitS, setVar] at hcode hpool
    obtain ⟨hc1, _⟩ := hcode.append
    have hrel0 := rel_unbind st g b k hf hrel
    exact (ih.e _ ab e he hok' (st.unbind ⟨b, .global k⟩) pos lp cs C s0 stk g l hc1 hpool hrel0
      (by simpa [LastRel, SState.unbind, isGlobalSlot] using hlast) (evalS_let_fuel hdiv)).mono
      (by simp only [dS]; omega)
  | block _ _ b Γ2 hb =>
    simp only [emitS] at hcode hpool
    exact (ih.b Γ ab b Γ2 hb hok st pos lp cs C s0 stk g l hcode hpool hrel hlast (evalS_block_fuel hdiv)).mono
      (by simp only [dS]; omega)
  | brk _ => simp [evalS] at hdiv
  | cont _ => simp [evalS] at hdiv

theorem db_succ (f : Nat) (ih : DAll f) : DB (f + 1) := by
  intro Γ ab b Γ2 hx hok st pos lp cs C s0 stk g l hcode hpool hrel hlast hdiv
  cases hx with
  | nil _ _ => simp [evalB] at hdiv
  | cons _ _ Γ1 _ s rest hs hrest =>
    simp only [emitB] at hcode hpool
    obtain ⟨hc1, hc2⟩ := hcode.append
    rw [emitS_size] at hc2
    have hpool1 : PoolOK s0.cvals (emitS s pos lp cs).2 := hpool.mono (emitB_ext rest _ _ _)
    obtain ⟨hok1, d, hd⟩ := xs_scope hs hok
    rcases evalB_cons_fuel hdiv with h | ⟨st1, h1, h2⟩
    · exact (ih.s Γ ab s Γ1 hs hok st pos lp cs C s0 stk g l hc1 hpool1 hrel hlast h).mono (by simp only [dB]; omega)
    · have hs1 := (pall f).s Γ ab s Γ1 hs hok st pos lp cs C s0 stk g l hc1 hpool1 hrel hlast
      rw [h1] at hs1
      obtain ⟨g1, l1, n, hn, hrel1, hl1, _, _⟩ := hs1
      have h := ih.b Γ1 ab rest Γ2 hrest hok1 st1 (pos + sizeS s) lp _ C s0 stk g1 l1 hc2 hpool hrel1 hl1 h2
      exact Runs.after hn h (by simp only [dB]; omega)

/-- a block whose single statement leaves no value: only the statement can run out of fuel -/
theorem dbv_novalue (f : Nat) (ih : DAll f) {Γ Γ1 : Gam} {ab : Bool} (s : RStmt) (hs : XS Γ ab s Γ1) (hok : GamOK Γ)
    {st : SState} {pos : Nat} {lp : LoopCtx} {cs : List Const} {C : Code} {s0 : VM} {stk g : Array Value} {l : Value}
    (heval : evalBV (f + 1) (.cons s .nil) st = liftU (evalS f s st) (fun st1 => .val .null st1))
    (hasv : ∀ c, asValue (.cons s .nil) c = c ++ [.null])
    (hcode : CodeAt C pos (asValue (.cons s .nil) (emitB (.cons s .nil) pos lp cs).1))
    (hpool : PoolOK s0.cvals (emitB (.cons s .nil) pos lp cs).2)
    (hrel : Rel Γ st g) (hlast : LastRel st l) (hdiv : evalBV (f + 1) (.cons s .nil) st = .fuel) :
    Runs C (setv s0 pos stk g l) (f + 1 - dB (.cons s .nil)) := by
  rw [hasv] at hcode
  simp only [emitB, List.append_nil] at hcode hpool
  obtain ⟨hc1, _⟩ := hcode.append
  rw [heval] at hdiv
  rcases liftU_fuel hdiv with h | ⟨st1, _, h2⟩
  · exact (ih.s Γ ab s Γ1 hs hok st pos lp cs C s0 stk g l hc1 hpool hrel hlast h).mono (by simp only [dB]; omega)
  · simp at h2

theorem dbv_succ (f : Nat) (ih : DAll f) : DBV (f + 1) := by
  intro Γ ab b Γ2 hx hok st pos lp cs C s0 stk g l hcode hpool hrel hlast hdiv
  cases hx with
  | nil _ _ => simp [evalBV] at hdiv
  | cons _ _ Γ1 _ s rest hs hrest =>
    cases rest with
    | nil =>
      cases hrest
      cases hs with
      | expr _ _ e he =>
        have hcode' : CodeAt C pos (emitE e pos lp cs).1 := by
          simpa [asValue, RBlock.tailKind, emitB, emitS] using hcode
        have hpool' : PoolOK s0.cvals (emitE e pos lp cs).2 := by simpa [emitB, emitS] using hpool
        simp only [evalBV] at hdiv
        exact (ih.e Γ ab e he hok st pos lp cs C s0 stk g l hcode' hpool' hrel hlast hdiv).mono
          (by simp only [dB, dS]; omega)
      | block _ _ b' Γ3 hb' =>
        cases b' with
        | nil =>
          exact dbv_novalue f ih _ (.block _ _ _ _ hb') hok (by simp only [evalBV]; exact liftU_eq _ _)
            (by intro c; simp [asValue, RBlock.tailKind]) hcode hpool hrel hlast hdiv
        | cons s' b'' =>
          have hcode' : CodeAt C pos (asValue (.cons s' b'') (emitB (.cons s' b'') pos lp cs).1) := by
            have : (emitB (.cons (.block (.cons s' b'')) .nil) pos lp cs).1 = (emitB (.cons s' b'') pos lp cs).1 := by
              simp [emitB, emitS]
            rw [this] at hcode
            simpa [asValue, RBlock.tailKind] using hcode
          have hpool' : PoolOK s0.cvals (emitB (.cons s' b'') pos lp cs).2 := by
            have : (emitB (.cons (.block (.cons s' b'')) .nil) pos lp cs).2 = (emitB (.cons s' b'') pos lp cs).2 := by
              simp [emitB, emitS]
            rw [this] at hpool; exact hpool
          simp only [evalBV] at hdiv
          exact (ih.bv Γ ab _ Γ3 hb' hok st pos lp cs C s0 stk g l hcode' hpool' hrel hlast hdiv).mono
            (by simp only [dB, dS]; omega)
      | letS _ _ bb k e hf he =>
        exact dbv_novalue f ih _ (.letS _ _ bb k e hf he) hok (by simp only [evalBV]; exact liftU_eq _ _)
          (by intro c; simp [asValue, RBlock.tailKind]) hcode hpool hrel hlast hdiv
      | brk _ =>
        exact dbv_novalue f ih _ (.brk _) hok (by simp only [evalBV]; exact liftU_eq _ _)
          (by intro c; simp [asValue, RBlock.tailKind]) hcode hpool hrel hlast hdiv
      | cont _ =>
        exact dbv_novalue f ih _ (.cont _) hok (by simp only [evalBV]; exact liftU_eq _ _)
          (by intro c; simp [asValue, RBlock.tailKind]) hcode hpool hrel hlast hdiv
    | cons s2 rest2 =>
      have e1 : (emitB (.cons s (.cons s2 rest2)) pos lp cs).1 =
          (emitS s pos lp cs).1 ++ (emitB (.cons s2 rest2) (pos + sizeS s) lp (emitS s pos lp cs).2).1 := by rw [emitB]
      have e2 : (emitB (.cons s (.cons s2 rest2)) pos lp cs).2 =
          (emitB (.cons s2 rest2) (pos + sizeS s) lp (emitS s pos lp cs).2).2 := by rw [emitB]
      have hcode' := hcode
      rw [e1, asValue_seq] at hcode'
      rw [e2] at hpool
      obtain ⟨hc1, hc2⟩ := hcode'.append
      rw [emitS_size] at hc2
      have hpool1 : PoolOK s0.cvals (emitS s pos lp cs).2 := hpool.mono (emitB_ext _ _ _ _)
      obtain ⟨hok1, d, hd⟩ := xs_scope hs hok
      have heval : evalBV (f + 1) (.cons s (.cons s2 rest2)) st = liftU (evalS f s st) (fun st1 => evalBV f (.cons s2 rest2) st1) := by
        cases s <;> (simp only [evalBV]; exact liftU_eq _ _)
      rw [heval] at hdiv
      rcases liftU_fuel hdiv with h | ⟨st1, h1, h2⟩
      · exact (ih.s Γ ab s Γ1 hs hok st pos lp cs C s0 stk g l hc1 hpool1 hrel hlast h).mono
          (by simp only [dB]; omega)
      · have hs1 := (pall f).s Γ ab s Γ1 hs hok st pos lp cs C s0 stk g l hc1 hpool1 hrel hlast
        rw [h1] at hs1
        obtain ⟨g1, l1, n, hn, hrel1, hl1, _, _⟩ := hs1
        have h := ih.bv Γ1 ab (.cons s2 rest2) Γ2 hrest hok1 st1 (pos + sizeS s) lp _ C s0 stk g1 l1 hc2
          hpool hrel1 hl1 h2
        exact Runs.after hn h (by simp only [dB]; omega)

/-- (T1) DIVERGENCE, all syntactic classes of the stage-3 fragment, for every fuel: a definitional
    evaluation that runs out of fuel `f` is matched by at least `f - depth` machine steps, none of
    which halts, fails or faults -/
theorem dall : ∀ f, DAll f
  | 0 => ⟨fun _ _ _ _ _ _ _ _ _ _ _ _ _ _ _ _ _ _ _ => by rw [Nat.zero_sub]; exact Runs.zero _ _,
          fun _ _ _ _ _ _ _ _ _ _ _ _ _ _ _ _ _ _ _ _ => by rw [Nat.zero_sub]; exact Runs.zero _ _,
          fun _ _ _ _ _ _ _ _ _ _ _ _ _ _ _ _ _ _ _ _ => by rw [Nat.zero_sub]; exact Runs.zero _ _,
          fun _ _ _ _ _ _ _ _ _ _ _ _ _ _ _ _ _ _ _ _ => by rw [Nat.zero_sub]; exact Runs.zero _ _,
          fun _ _ _ _ _ _ _ _ _ _ _ _ _ _ _ _ _ _ _ _ _ _ _ _ => by rw [Nat.zero_sub]; exact Runs.zero _ _⟩
  | f + 1 =>
    have ih := dall f
    ⟨de_succ f ih, dbv_succ f ih, ds_succ f ih, db_succ f ih, dl_succ f ih⟩

/-! ### whole programs -/

/-- a top-level program of the fragment whose evaluation with fuel `F` runs out of fuel takes at
    least `F - dB p` instructions on a fresh machine -/
theorem ctl_program_runs (p : RBlock) (Γ' : Gam) (hx : XB [] false p Γ') (bc : Bytecode) (hc : compileR p = .ok bc)
    (F : Nat) (hdiv : evalB F p {} = .fuel) : Runs bc.code (VM.start {} bc) (F - dB p) := by
  obtain ⟨hcode, hconsts, hwf⟩ := compile_general p bc hc
  have hall : CodeAt bc.code 0 ((emitB p 0 none []).1 ++ [.halt]) := ⟨hwf, [], [], by simp [hcode], rfl⟩
  obtain ⟨h1, _⟩ := hall.append
  have hpool : PoolOK (VM.start {} bc).cvals (emitB p 0 none []).2 := by
    rw [← hconsts]; exact start_pool bc {}
  have hstart : setv (VM.start {} bc) 0 #[] #[] .null = VM.start {} bc := by
    simp [setv, VM.start]
  have h := (dall F).b [] false p Γ' hx (by simp [GamOK]) {} 0 none [] bc.code (VM.start {} bc) #[] #[] .null h1 hpool
    (by intro b k hm; cases hm) (by simp [LastRel, toVal]) hdiv
  rw [hstart] at h
  exact h

/-- (T2) END TO END, divergence: a top-level program of the fragment whose definitional evaluation
    never ends (out of fuel for EVERY fuel) exhausts EVERY instruction budget on a fresh machine -/
theorem ctl_program_diverges (p : RBlock) (Γ' : Gam) (hx : XB [] false p Γ') (bc : Bytecode) (hc : compileR p = .ok bc)
    (hdiv : ∀ F, Spec.evalB F p {} = .fuel) : ∀ n, ∃ s', runSteps bc.code n (VM.start {} bc) = .budget s' := by
  intro n
  have h := (ctl_program_runs p Γ' hx bc hc (n + dB p) (hdiv _)).mono (m := n) (by omega)
  obtain ⟨s', hs'⟩ := h
  exact ⟨s', runSteps_of_execN bc.code n _ s' hs'⟩

theorem compileProgram_ok {ast : Block} {r : RBlock} {bc : Bytecode} (hc : compileProgram ast = .ok (r, bc)) :
    resolveProgram ast = .ok r ∧ compileR r = .ok bc := by
  unfold compileProgram at hc
  cases hr : resolveProgram ast with
  | error e => simp [hr] at hc
  | ok r' =>
    simp only [hr] at hc
    cases hcr : compileR r' with
    | error e => simp [hcr] at hc
    | ok bc' =>
      simp only [hcr] at hc
      injection hc with hc; injection hc with h1 h2; subst h1; subst h2
      exact ⟨rfl, hcr⟩

/-- (T3) END TO END from SOURCE TREES, divergence -/
theorem ctl_source_diverges (ast : Block) (hs : Sim.SB false ast) (r : RBlock) (bc : Bytecode) (hc : compileProgram ast = .ok (r, bc))
    (hdiv : ∀ F, Spec.evalB F r {} = .fuel) : ∀ n, ∃ s', runSteps bc.code n (VM.start {} bc) = .budget s' := by
  obtain ⟨hr, hcr⟩ := compileProgram_ok hc
  obtain ⟨Γ', hxb⟩ := resolve_xb ast hs r hr
  exact ctl_program_diverges r Γ' hxb bc hcr hdiv

end Sim
end Nl
