/-
  UTF-8 refinement, part 2: counting and locating characters by scanning bytes.
    (U1) `countChars (encode cs) = cs.length`
    (U2, span part) `nthSpan (encode cs) i` is the byte span of `cs[i]`
    (U3) replacing that span by `encode rs` is the character-level replacement
-/
import Nlmodel.Proofs.Lemmas.Utf8Enc
namespace Nl
namespace Utf8

theorem encode_nil : encode [] = [] := rfl
theorem encode_cons (c : Char) (cs : List Char) : encode (c :: cs) = encodeChar c ++ encode cs := rfl

theorem encode_append (a b : List Char) : encode (a ++ b) = encode a ++ encode b := by
  induction a with
  | nil => rfl
  | cons c cs ih => simp only [List.cons_append, encode_cons, ih, List.append_assoc]

theorem encode_singleton (c : Char) : encode [c] = encodeChar c := by
  simp [encode_cons, encode_nil]

/-- `encode` is the flattening of the per-character encodings -/
theorem encode_eq_flatMap (cs : List Char) : encode cs = cs.flatMap encodeChar := by
  induction cs with
  | nil => rfl
  | cons c cs ih => simp only [encode_cons, ih, List.flatMap_cons]

/-- `encode cs` is core Lean's UTF-8 encoding of the text: the bytes of the `String` with these
    characters (`String.toUTF8`, which is how the driver hands program text to the model) -/
theorem encode_eq_flatMap_core (cs : List Char) : encode cs = cs.flatMap String.utf8EncodeChar := by
  induction cs with
  | nil => rfl
  | cons c cs ih => rw [encode_cons, ih, encodeChar_eq_core, List.flatMap_cons]

theorem encode_eq_core (cs : List Char) : (encode cs).toByteArray = cs.utf8Encode := by
  rw [encode_eq_flatMap_core, List.utf8Encode]

theorem encode_eq_toUTF8 (cs : List Char) : (encode cs).toByteArray = (String.ofList cs).toUTF8 := by
  rw [encode_eq_core]; exact String.toByteArray_ofList.symm

/-- splitting a text at character `i` splits its bytes -/
theorem encode_take_drop (cs : List Char) (i : Nat) :
    encode cs = encode (cs.take i) ++ encode (cs.drop i) := by
  rw [← encode_append, List.take_append_drop]

/-- the bytes of a text, cut around its `i`-th character -/
theorem encode_split (cs : List Char) (i : Nat) (h : i < cs.length) :
    encode cs = encode (cs.take i) ++ (encodeChar cs[i] ++ encode (cs.drop (i + 1))) := by
  rw [← encode_cons, List.getElem_cons_drop, ← encode_append, List.take_append_drop]

/-! ### (U1) counting -/

theorem countChars_append (a b : List UInt8) : countChars (a ++ b) = countChars a + countChars b := by
  induction a with
  | nil => simp [countChars]
  | cons x xs ih => simp only [List.cons_append, countChars, ih]; omega

theorem countChars_conts (l : List UInt8) (h : ∀ b ∈ l, isCont b = true) : countChars l = 0 := by
  induction l with
  | nil => rfl
  | cons x xs ih =>
    have hx : isCont x = true := h x (by simp)
    simp only [countChars, hx, if_true]
    rw [ih (fun b hb => h b (by simp [hb]))]

/-- one character is one non-continuation byte -/
theorem countChars_encodeChar (c : Char) : countChars (encodeChar c) = 1 := by
  obtain ⟨lead, conts, e, hl, hc, _⟩ := encodeChar_shape c
  rw [e]
  simp only [countChars, hl, countChars_conts conts hc]
  rfl

/-- (U1) `chars().count()` on the bytes is the number of code points -/
theorem countChars_encode (cs : List Char) : countChars (encode cs) = cs.length := by
  induction cs with
  | nil => rfl
  | cons c cs ih =>
    rw [encode_cons, countChars_append, countChars_encodeChar, ih, List.length_cons]; omega

/-- `countChars` is the number of bytes that are not continuation bytes -/
theorem countChars_eq_filter (bs : List UInt8) :
    countChars bs = (bs.filter (fun b => !isCont b)).length := by
  induction bs with
  | nil => rfl
  | cons b bs ih =>
    simp only [countChars, List.filter_cons, ih]
    cases isCont b <;> simp <;> omega

/-! ### (U2) locating the i-th character -/

/-- skipping the width announced by the lead byte skips exactly one encoded character -/
theorem scan_step (c : Char) (rest : List UInt8) :
    ∃ lead tl, encodeChar c ++ rest = lead :: tl ∧ charWidth lead = (encodeChar c).length ∧
      (encodeChar c ++ rest).drop (charWidth lead) = rest := by
  obtain ⟨lead, conts, e, _, _, hw⟩ := encodeChar_shape c
  refine ⟨lead, conts ++ rest, by rw [e]; rfl, by rw [e, hw]; rfl, ?_⟩
  rw [hw, e]
  simp

theorem nthSpanFrom_encode (cs : List Char) (off i : Nat) :
    nthSpanFrom off (encode cs) i =
      (cs[i]?).map (fun c => (off + (encode (cs.take i)).length, (encodeChar c).length)) := by
  induction i generalizing cs off with
  | zero =>
    cases cs with
    | nil => rfl
    | cons c cs =>
      obtain ⟨lead, tl, e, hw, _⟩ := scan_step c (encode cs)
      rw [encode_cons, e]
      simp [nthSpanFrom, hw, encode_nil]
  | succ i ih =>
    cases cs with
    | nil => rfl
    | cons c cs =>
      obtain ⟨lead, tl, e, hw, hd⟩ := scan_step c (encode cs)
      rw [encode_cons]
      rw [e] at hd ⊢
      simp only [nthSpanFrom]
      rw [hd, ih, hw]
      simp only [List.getElem?_cons_succ, List.take_succ_cons, encode_cons, List.length_append,
        Nat.add_assoc]

/-- (U2, functional form) -/
theorem nthSpan_encode (cs : List Char) (i : Nat) :
    nthSpan (encode cs) i =
      (cs[i]?).map (fun c => ((encode (cs.take i)).length, (encodeChar c).length)) := by
  unfold nthSpan
  rw [nthSpanFrom_encode]
  simp

/-- (U2) `char_indices().nth(i)` finds a character exactly when `i < cs.length`, and then its byte
    offset is the length of the encoding of the first `i` characters and its width is the
    length of the encoding of `cs[i]` -/
theorem nthSpan_encode_iff (cs : List Char) (i off w : Nat) :
    nthSpan (encode cs) i = some (off, w) ↔
      ∃ h : i < cs.length, off = (encode (cs.take i)).length ∧ w = (encodeChar cs[i]).length := by
  rw [nthSpan_encode]
  by_cases h : i < cs.length
  · rw [List.getElem?_eq_getElem h]
    simp only [Option.map_some, Option.some.injEq, Prod.mk.injEq]
    constructor
    · rintro ⟨h1, h2⟩; exact ⟨h, h1.symm, h2.symm⟩
    · rintro ⟨_, h1, h2⟩; exact ⟨h1.symm, h2.symm⟩
  · rw [List.getElem?_eq_none (by omega)]
    simp only [Option.map_none]
    constructor
    · intro e; cases e
    · rintro ⟨h', _⟩; exact absurd h' h

theorem nthSpan_encode_of_lt (cs : List Char) (i : Nat) (h : i < cs.length) :
    nthSpan (encode cs) i = some ((encode (cs.take i)).length, (encodeChar cs[i]).length) :=
  (nthSpan_encode_iff cs i _ _).2 ⟨h, rfl, rfl⟩

theorem nthSpan_encode_none (cs : List Char) (i : Nat) (h : cs.length ≤ i) :
    nthSpan (encode cs) i = none := by
  rw [nthSpan_encode, List.getElem?_eq_none h]; rfl

/-- the bytes from the offset of (U2) on are the encoding of the characters from `i` on -/
theorem drop_encode_take (cs : List Char) (i : Nat) :
    (encode cs).drop (encode (cs.take i)).length = encode (cs.drop i) := by
  conv => lhs; rw [encode_take_drop cs i]
  simp

/-! ### (U3) replacing a span -/

theorem byteReplace_mid (A C D R : List UInt8) :
    byteReplace (A ++ (C ++ D)) A.length C.length R = A ++ R ++ D := by
  unfold byteReplace
  have h1 : (A ++ (C ++ D)).take A.length = A := by simp
  have h2 : (A ++ (C ++ D)).drop (A.length + C.length) = D := by
    rw [← List.append_assoc, ← List.length_append]; simp
  rw [h1, h2]

/-- (U3) `replace_range` over the byte span of the `i`-th character with the bytes of `rs` is the
    character-level replacement of `cs[i]` by `rs` (any `rs`: empty, one or many characters) -/
theorem byteReplace_encode (cs rs : List Char) (i : Nat) (h : i < cs.length) :
    byteReplace (encode cs) (encode (cs.take i)).length (encodeChar cs[i]).length (encode rs) =
      encode (cs.take i ++ rs ++ cs.drop (i + 1)) := by
  rw [encode_append, encode_append]
  conv => lhs; rw [encode_split cs i h]
  exact byteReplace_mid _ _ _ _

/-- (U3) stated for whatever span `nthSpan` returns -/
theorem byteReplace_nthSpan (cs rs : List Char) (i off w : Nat)
    (hs : nthSpan (encode cs) i = some (off, w)) :
    byteReplace (encode cs) off w (encode rs) = encode (cs.take i ++ rs ++ cs.drop (i + 1)) := by
  obtain ⟨h, rfl, rfl⟩ := (nthSpan_encode_iff cs i off w).1 hs
  exact byteReplace_encode cs rs i h

end Utf8
end Nl
