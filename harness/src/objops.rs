//! Object-encoding requests (C15): raw words and decoded fields of the real `Object`.
use crate::hex;
use nederlang::object::{FromString, FromVec, Object, Type};
use nederlang::verif::GC;

fn tag_name(o: Object) -> &'static str {
    match o.tag() {
        Type::Null => "null",
        Type::Int => "int",
        Type::Bool => "bool",
        Type::Function => "function",
        Type::Float => "float",
        Type::String => "string",
        Type::Array => "array",
    }
}

fn describe_imm(o: Object) -> String {
    let dec = match o.tag() {
        Type::Null => "null".to_string(),
        Type::Int => format!("{}", o.as_int()),
        Type::Bool => format!("{}", if o.as_bool() { 1 } else { 0 }),
        Type::Function => {
            let [ip, nl] = o.as_function();
            format!("{}:{}", ip, nl)
        }
        _ => "?".to_string(),
    };
    format!(
        "w={:016x} tag={} dec={} heap={}",
        o.verif_raw(),
        tag_name(o),
        dec,
        if o.is_heap_allocated() { 1 } else { 0 }
    )
}

/// build a value from a spec: `n` | `b0` | `b1` | `i<int>` | `fn<ip>:<nl>` | `f<bits hex>` | `s<xhex>`
fn build(spec: &str, gc: &mut GC) -> Option<Object> {
    if spec == "n" {
        return Some(Object::null());
    }
    if spec == "b0" {
        return Some(Object::bool(false));
    }
    if spec == "b1" {
        return Some(Object::bool(true));
    }
    if let Some(r) = spec.strip_prefix("fn") {
        let (a, b) = r.split_once(':')?;
        return Some(Object::function(a.parse().ok()?, b.parse().ok()?));
    }
    if let Some(r) = spec.strip_prefix('i') {
        return Some(Object::int(r.parse().ok()?));
    }
    if let Some(r) = spec.strip_prefix('f') {
        let bits = u64::from_str_radix(r, 16).ok()?;
        return Some(Object::float(f64::from_bits(bits), gc));
    }
    if let Some(r) = spec.strip_prefix('s') {
        let t = crate::unhex(r)?;
        return Some(Object::string(t.as_str(), gc));
    }
    None
}

pub fn handle(parts: &[&str]) -> String {
    let mut gc = GC::new();
    match parts {
        ["enc", spec] => match build(spec, &mut gc) {
            Some(o) => {
                if o.is_heap_allocated() {
                    // heap values: tag bits, alignment of the address, and the content read back
                    let raw = o.verif_raw();
                    let back = match o.tag() {
                        Type::Float => format!("f{:016x}", o.as_f64().to_bits()),
                        Type::String => format!("s{}", hex(o.as_str().as_bytes())),
                        _ => "?".into(),
                    };
                    format!("tagbits={} tag={} heap=1 back={}", raw & 7, tag_name(o), back)
                } else {
                    describe_imm(o)
                }
            }
            None => "bad-spec".into(),
        },
        ["eq", a, b] => match (build(a, &mut gc), build(b, &mut gc)) {
            (Some(x), Some(y)) => format!("eq={}", if x == y { 1 } else { 0 }),
            _ => "bad-spec".into(),
        },
        ["arr", specs @ ..] => {
            // an array of the given values, read back element by element
            let mut vals = Vec::new();
            for s in specs.iter() {
                match build(s, &mut gc) {
                    Some(o) => vals.push(o),
                    None => return "bad-spec".into(),
                }
            }
            let arr = Object::array(vals, &mut gc);
            let mut s = String::new();
            let mut path = Vec::new();
            crate::canon(arr, &mut path, &mut s);
            format!("tagbits={} tag={} heap=1 back={}", arr.verif_raw() & 7, tag_name(arr), s)
        }
        _ => "bad-request".into(),
    }
}
