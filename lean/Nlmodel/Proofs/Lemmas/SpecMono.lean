/- More fuel never changes a finished evaluation of the definitional semantics (C01): the outcome of a program is well defined. -/
import Nlmodel.Spec.Eval
namespace Nl
namespace Spec

/-- `r` is `fuel` or equals `r'` -/
def Le {α : Type} (r r' : Res α) : Prop := r = .fuel ∨ r = r'

theorem Le.refl {α} (r : Res α) : Le r r := Or.inr rfl
theorem Le.fuel {α} (r : Res α) : Le .fuel r := Or.inl rfl

structure Mono (f : Nat) : Prop where
  e : ∀ e st, Le (evalE f e st) (evalE (f + 1) e st)
  es : ∀ es st, Le (evalEs f es st) (evalEs (f + 1) es st)
  l : ∀ c b acc st, Le (evalLoop f c b acc st) (evalLoop (f + 1) c b acc st)
  s : ∀ s st, Le (evalS f s st) (evalS (f + 1) s st)
  b : ∀ b st, Le (evalB f b st) (evalB (f + 1) b st)
  bv : ∀ b st, Le (evalBV f b st) (evalBV (f + 1) b st)

/-- use the induction hypothesis `ih` for the call in scrutinee position -/
macro "mono_call " ih:term : tactic =>
  `(tactic| (have hmono := $ih; rcases hmono with h | h; (· rw [h]; exact Le.fuel _); rw [← h]))

theorem mono_e (f : Nat) (ih : Mono f) (e : RExpr) (st : SState) :
    Le (evalE (f + 1) e st) (evalE (f + 2) e st) := by
  cases e with
  | int v => simp only [evalE]; exact Le.refl _
  | float v => simp only [evalE]; exact Le.refl _
  | bool v => simp only [evalE]; exact Le.refl _
  | str v => simp only [evalE]; exact Le.refl _
  | var v => simp only [evalE]; exact Le.refl _
  | func a b c d e => simp only [evalE]; exact Le.refl _
  | not r => rw [evalE, evalE]; mono_call (ih.e r st); exact Le.refl _
  | neg r => rw [evalE, evalE]; mono_call (ih.e r st); exact Le.refl _
  | assignVar x r => rw [evalE, evalE]; mono_call (ih.e r st); exact Le.refl _
  | «infix» l op r =>
    rw [evalE, evalE]; mono_call (ih.e l st)
    split
    · rename_i a st1 _; mono_call (ih.e r st1); exact Le.refl _
    · exact Le.refl _
  | index l r =>
    rw [evalE, evalE]; mono_call (ih.e l st)
    split
    · rename_i a st1 _; mono_call (ih.e r st1); exact Le.refl _
    · exact Le.refl _
  | assignIndex l i v =>
    rw [evalE, evalE]; mono_call (ih.e l st)
    split
    · rename_i a st1 _; mono_call (ih.e i st1)
      split
      · rename_i b st2 _; mono_call (ih.e v st2); exact Le.refl _
      · exact Le.refl _
    · exact Le.refl _
  | arr vs => rw [evalE, evalE]; mono_call (ih.es vs st); exact Le.refl _
  | callBuiltin b as => rw [evalE, evalE]; mono_call (ih.es as st); exact Le.refl _
  | whileE c b => rw [evalE, evalE]; exact ih.l c b .null st
  | ifE c t e =>
    rw [evalE, evalE]; mono_call (ih.e c st)
    split
    · rename_i st1 _; exact ih.bv t st1
    · rename_i st1 _
      cases e with
      | none => exact Le.refl _
      | some b => exact ih.bv b st1
    · exact Le.refl _
    · exact Le.refl _
  | call fe as =>
    rw [evalE, evalE]; mono_call (ih.es as st)
    split
    · rename_i xs st1 _
      mono_call (ih.e fe st1)
      split
      · rename_i a ps nl body st2 _
        split
        · exact Le.refl _
        · mono_call (ih.bv body { st2 with lenv := bindParams ps xs }); exact Le.refl _
      · exact Le.refl _
      · exact Le.refl _
    all_goals exact Le.refl _

theorem mono_es (f : Nat) (ih : Mono f) (es : RExprs) (st : SState) :
    Le (evalEs (f + 1) es st) (evalEs (f + 2) es st) := by
  cases es with
  | nil => simp only [evalEs]; exact Le.refl _
  | cons e rest =>
    rw [evalEs, evalEs]; mono_call (ih.e e st)
    split
    · rename_i v st1 _; mono_call (ih.es rest st1); exact Le.refl _
    all_goals exact Le.refl _

theorem mono_l (f : Nat) (ih : Mono f) (c : RExpr) (b : RBlock) (acc : SVal) (st : SState) :
    Le (evalLoop (f + 1) c b acc st) (evalLoop (f + 2) c b acc st) := by
  rw [evalLoop, evalLoop]; mono_call (ih.e c st)
  split
  · exact Le.refl _
  · rename_i st1 _
    mono_call (ih.bv b { st1 with last := acc })
    split
    · rename_i v st2 _; exact ih.l c b v st2
    · exact Le.refl _
    · rename_i st2 _; exact ih.l c b .null st2
    · exact Le.refl _
  · exact Le.refl _
  · exact Le.refl _
  · rename_i st1 _; exact ih.l c b .null st1
  · exact Le.refl _

theorem mono_s (f : Nat) (ih : Mono f) (s : RStmt) (st : SState) :
    Le (evalS (f + 1) s st) (evalS (f + 2) s st) := by
  cases s with
  | expr e => rw [evalS, evalS]; mono_call (ih.e e st); exact Le.refl _
  | letS r e => rw [evalS, evalS]; mono_call (ih.e e (st.unbind r)); exact Le.refl _
  | ret e => rw [evalS, evalS]; mono_call (ih.e e st); exact Le.refl _
  | block b => rw [evalS, evalS]; exact ih.b b st
  | brk => simp only [evalS]; exact Le.refl _
  | cont => simp only [evalS]; exact Le.refl _

theorem mono_b (f : Nat) (ih : Mono f) (b : RBlock) (st : SState) :
    Le (evalB (f + 1) b st) (evalB (f + 2) b st) := by
  cases b with
  | nil => simp only [evalB]; exact Le.refl _
  | cons s rest =>
    rw [evalB, evalB]; mono_call (ih.s s st)
    split
    · rename_i st1 _; exact ih.b rest st1
    · exact Le.refl _

theorem mono_bv' (f g : Nat) (hs : ∀ s st, Le (evalS f s st) (evalS g s st)) (he : ∀ e st, Le (evalE f e st) (evalE g e st))
    (hbv : ∀ b st, Le (evalBV f b st) (evalBV g b st)) (b : RBlock) (st : SState) :
    Le (evalBV (f + 1) b st) (evalBV (g + 1) b st) := by
  cases b with
  | nil => simp only [evalBV]; exact Le.refl _
  | cons s rest =>
    cases rest with
    | nil =>
      cases s with
      | expr e => simp only [evalBV]; exact he e st
      | block b' =>
        cases b' with
        | nil => simp only [evalBV]; mono_call (hs (.block .nil) st); exact Le.refl _
        | cons s' b'' => simp only [evalBV]; exact hbv _ st
      | letS r e => simp only [evalBV]; mono_call (hs (.letS r e) st); exact Le.refl _
      | ret e => simp only [evalBV]; mono_call (hs (.ret e) st); exact Le.refl _
      | brk => simp only [evalBV]; mono_call (hs .brk st); exact Le.refl _
      | cont => simp only [evalBV]; mono_call (hs .cont st); exact Le.refl _
    | cons s2 r2 =>
      have e1 : ∀ n, evalBV (n + 1) (.cons s (.cons s2 r2)) st = (match evalS n s st with
          | .val () st1 => evalBV n (.cons s2 r2) st1
          | .brk s => .brk s | .cont s => .cont s | .ret v s => .ret v s
          | .err e s => .err e s | .unspec s => .unspec s | .fuel => .fuel) := by
        intro n; cases s <;> simp only [evalBV] <;> rfl
      rw [e1, e1]
      mono_call (hs s st)
      split
      · rename_i st1 _; exact hbv _ st1
      all_goals exact Le.refl _

theorem mono_bv (f : Nat) (ih : Mono f) (b : RBlock) (st : SState) :
    Le (evalBV (f + 1) b st) (evalBV (f + 2) b st) := mono_bv' f (f + 1) ih.s ih.e ih.bv b st

theorem mono : ∀ f, Mono f
  | 0 => ⟨fun _ _ => by simp [evalE, Le], fun _ _ => by simp [evalEs, Le], fun _ _ _ _ => by simp [evalLoop, Le],
          fun _ _ => by simp [evalS, Le], fun _ _ => by simp [evalB, Le], fun _ _ => by simp [evalBV, Le]⟩
  | f + 1 =>
    have ih := mono f
    ⟨mono_e f ih, mono_es f ih, mono_l f ih, mono_s f ih, mono_b f ih, mono_bv f ih⟩

/-- more fuel never changes a finished evaluation -/
theorem evalB_fuel_mono (f k : Nat) (b : RBlock) (st : SState) (h : evalB f b st ≠ .fuel) :
    evalB (f + k) b st = evalB f b st := by
  induction k with
  | zero => rfl
  | succ k ih =>
    rcases (mono (f + k)).b b st with h2 | h2
    · rw [ih] at h2; exact absurd h2 h
    · rw [← Nat.add_assoc, ← h2, ih]

theorem evalE_fuel_mono (f k : Nat) (e : RExpr) (st : SState) (h : evalE f e st ≠ .fuel) :
    evalE (f + k) e st = evalE f e st := by
  induction k with
  | zero => rfl
  | succ k ih =>
    rcases (mono (f + k)).e e st with h2 | h2
    · rw [ih] at h2; exact absurd h2 h
    · rw [← Nat.add_assoc, ← h2, ih]

end Spec
end Nl
