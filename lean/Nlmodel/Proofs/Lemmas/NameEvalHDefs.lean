/- NameEvalH = Spec.eval on the resolver's output, stage-5 function-free fragment (C09): static facts about the resolver on
   the fragment `SimH.SHE`, and the statements proved by induction on the fuel. -/
import Nlmodel.Proofs.Lemmas.NameEvalHBase
namespace Nl
namespace NameEvalH
open Sim Spec SimH
open NameEval (NState NRes Rel RelG At In bids findBid postS popRes)

theorem relG_cast {α : Type} {P Q : NState → SState → Prop} {r : NRes α} {r' r'' : Res α}
    (h : RelG P Q r r'') (e : r' = r'') : RelG P Q r r' := by rw [e]; exact h

theorem postS_invH (s : Stmt) (ab : Bool) (sc scs) (st : RState) (s' : RStmt) (st' : RState) (hs : SHS ab s)
    (hinv : Inv3 st (sc :: scs)) (hnd : (bids (sc :: scs)).Nodup) (h : resolveS s st = .ok (s', st')) :
    Inv3 st' (postS s st sc :: scs) ∧ (bids (postS s st sc :: scs)).Nodup := by
  cases hs with
  | expr _ e hse =>
    simp only [resolveS] at h
    cases hr : resolveE e st with
    | error er => simp [hr] at h
    | ok p =>
      obtain ⟨e1, st1⟩ := p
      simp only [hr] at h
      injection h with h; injection h with h1 h2; subst h2
      exact ⟨(rHE e ab _ st e1 st1 hse hinv hr).2, hnd⟩
  | letS _ n e hse =>
    simp only [resolveS] at h
    obtain ⟨_, hinv1⟩ := inv3_define st sc scs hinv n
    cases hr : resolveE e (st.define n).1 with
    | error er => simp [hr] at h
    | ok p =>
      obtain ⟨e1, st1⟩ := p
      simp only [hr] at h
      injection h with h; injection h with h1 h2; subst h2
      exact ⟨(rHE e ab _ _ e1 st1 hse hinv1 hr).2, NameEval.nodup_define st sc scs hinv hnd n⟩
  | block _ b hsb =>
    simp only [resolveS] at h
    cases hb : resolveB b st with
    | error er => simp [hb] at h
    | ok q =>
      obtain ⟨b1, st1⟩ := q
      simp only [hb] at h
      injection h with h; injection h with h1 h2; subst h2
      obtain ⟨_, _, hi⟩ := rHB b ab _ st b1 st1 hsb hinv hb
      exact ⟨hi, hnd⟩
  | brk =>
    simp only [resolveS] at h
    split at h
    · cases h
    · injection h with h; injection h with h1 h2; subst h2; exact ⟨hinv, hnd⟩
  | cont =>
    simp only [resolveS] at h
    split at h
    · cases h
    · injection h with h; injection h with h1 h2; subst h2; exact ⟨hinv, hnd⟩

/-! ### the statements proved by induction on the fuel -/

def QE (f : Nat) : Prop := ∀ (e : Expr) (ab : Bool) (scs) (st : RState) (e' : RExpr) (st' : RState) (ρ : NState) (σ : SState),
  SHE ab e → Inv3 st scs → (bids scs).Nodup → resolveE e st = .ok (e', st') → Rel ρ scs σ →
  RelG (At scs) (At scs) (NameEvalH.evalE f e ρ) (Spec.evalE f e' σ)

def QEs (f : Nat) : Prop := ∀ (es : Exprs) (scs) (st : RState) (es' : RExprs) (st' : RState) (ρ : NState) (σ : SState),
  SHEs es → Inv3 st scs → (bids scs).Nodup → resolveEs es st = .ok (es', st') → Rel ρ scs σ →
  RelG (At scs) (At scs) (NameEvalH.evalEs f es ρ) (Spec.evalEs f es' σ)

def QL (f : Nat) : Prop := ∀ (c : Expr) (b : Block) (scs) (st : RState) (c' : RExpr) (st1 : RState) (b' : RBlock) (st2 : RState)
  (acc : SVal) (ρ : NState) (σ : SState),
  SHE false c → SHB true b → Inv3 st scs → (bids scs).Nodup → resolveE c st = .ok (c', st1) → resolveB b st1 = .ok (b', st2) →
  Rel ρ scs σ → RelG (At scs) (At scs) (NameEvalH.evalLoop f c b acc ρ) (Spec.evalLoop f c' b' acc σ)

def QS (f : Nat) : Prop := ∀ (s : Stmt) (ab : Bool) (sc scs) (st : RState) (s' : RStmt) (st' : RState) (ρ : NState) (σ : SState),
  SHS ab s → Inv3 st (sc :: scs) → (bids (sc :: scs)).Nodup → resolveS s st = .ok (s', st') → Rel ρ (sc :: scs) σ →
  RelG (At (postS s st sc :: scs)) (In scs) (NameEvalH.evalS f s ρ) (Spec.evalS f s' σ)

def QSs (f : Nat) : Prop := ∀ (b : Block) (ab : Bool) (sc scs) (st : RState) (b' : RBlock) (st' : RState) (ρ : NState) (σ : SState),
  SHB ab b → Inv3 st (sc :: scs) → (bids (sc :: scs)).Nodup → resolveSs b st = .ok (b', st') → Rel ρ (sc :: scs) σ →
  RelG (In scs) (In scs) (NameEvalH.evalSs f b ρ) (Spec.evalB f b' σ)

def QBs (f : Nat) : Prop := ∀ (b : Block) (ab : Bool) (sc scs) (st : RState) (b' : RBlock) (st' : RState) (ρ : NState) (σ : SState),
  SHB ab b → Inv3 st (sc :: scs) → (bids (sc :: scs)).Nodup → resolveSs b st = .ok (b', st') → Rel ρ (sc :: scs) σ →
  RelG (In scs) (In scs) (NameEvalH.evalBVs f b ρ) (Spec.evalBV f b' σ)

structure QAll (f : Nat) : Prop where
  e : QE f
  es : QEs f
  l : QL f
  s : QS f
  ss : QSs f
  bs : QBs f

/-- a block in value position: push, run, pop -/
theorem QAll.bv {f : Nat} (q : QAll f) (b : Block) (ab : Bool) (scs) (st : RState) (b' : RBlock) (st' : RState) (ρ : NState) (σ : SState)
    (hs : SHB ab b) (hinv : Inv3 st scs) (hnd : (bids scs).Nodup) (h : resolveB b st = .ok (b', st')) (hrel : Rel ρ scs σ) :
    RelG (At scs) (At scs) (popRes (NameEvalH.evalBVs f b ρ.push)) (Spec.evalBV f b' σ) := by
  obtain ⟨st'', h'⟩ := NameEval.resolveB_Ss b st b' st' h
  exact (q.bs b ab [] scs st.enterScope b' st'' ρ.push σ hs (inv3_enter st scs hinv)
    (by rw [NameEval.bids_enter]; exact hnd) h' hrel.push).pop

/-- a block in statement position -/
theorem QAll.b {f : Nat} (q : QAll f) (b : Block) (ab : Bool) (scs) (st : RState) (b' : RBlock) (st' : RState) (ρ : NState) (σ : SState)
    (hs : SHB ab b) (hinv : Inv3 st scs) (hnd : (bids scs).Nodup) (h : resolveB b st = .ok (b', st')) (hrel : Rel ρ scs σ) :
    RelG (At scs) (At scs) (popRes (NameEvalH.evalSs f b ρ.push)) (Spec.evalB f b' σ) := by
  obtain ⟨st'', h'⟩ := NameEval.resolveB_Ss b st b' st' h
  exact (q.ss b ab [] scs st.enterScope b' st'' ρ.push σ hs (inv3_enter st scs hinv)
    (by rw [NameEval.bids_enter]; exact hnd) h' hrel.push).pop

end NameEvalH
end Nl
