/- Sizes of the annotated code and its first certificate entry. -/
import Nlmodel.Proofs.Lemmas.AnnBasic
namespace Nl
namespace CV
open Verifier

/-! ## sizes -/

theorem asizeE (e : RExpr) (pos lp cs o h) : asize (annE e pos lp cs o h) = sizeE e := by
  rw [asize_eq, mapE, emitE_size]
theorem asizeEs (es : RExprs) (pos lp cs o h) : asize (annEs es pos lp cs o h) = sizeEs es := by
  rw [asize_eq, mapEs, emitEs_size]
theorem asizeS (s : RStmt) (pos lp cs o h) : asize (annS false s pos lp cs o h) = sizeS s := by
  rw [asize_eq, mapS, trim_false, emitS_size]
theorem asizeB (b : RBlock) (pos lp cs o h) : asize (annB false b pos lp cs o h) = sizeB b := by
  rw [asize_eq, mapB, trim_false, emitB_size]
theorem asizeO (x : ROptBlock) (pos lp cs o h) : asize (annO x pos lp cs o h) = sizeO x := by
  rw [asize_eq, mapO, emitO_size]
theorem asizeBV (b : RBlock) (pos lp cs o h) :
    asize (valWrap b (annB true b pos lp cs o h) o h) = sizeBV b := by
  rw [asize_eq, map_valWrap b _ o h _ (mapB b true pos lp cs o h), asValue_size b _ pos lp cs rfl, emitB_size]
  rfl
theorem asizeBF (b : RBlock) (pos lp cs o h e) :
    asize (fnWrap b (annB true b pos lp cs o h) e) = sizeBF b := by
  rw [asize_eq, map_fnWrap b _ e _ (mapB b true pos lp cs o h), asFnBody_size b _ pos lp cs rfl, emitB_size]
  rfl

/-! ## first entries -/

/-- the list starts with an instruction certified `(o, h)` -/
def Starts (o h : Nat) (L : List AI) : Prop := ∃ i tl, L = (i, o, h) :: tl

theorem Starts.cons (i : Instr) (o h : Nat) (tl : List AI) : Starts o h ((i, o, h) :: tl) := ⟨i, tl, rfl⟩
theorem Starts.append {o h : Nat} {L : List AI} (hs : Starts o h L) (M : List AI) : Starts o h (L ++ M) := by
  obtain ⟨i, tl, rfl⟩ := hs; exact ⟨i, tl ++ M, rfl⟩

theorem Seg_starts {c : Cert} {p o h : Nat} {L : List AI} (hs : Seg c p L) (h1 : Starts o h L) :
    c.get p = some (o, h) := by
  obtain ⟨i, tl, rfl⟩ := h1; exact hs.1

theorem succOK_of_get {c : Cert} {t o h h' : Nat} (hg : c.get t = some (o, h')) (hle : h' ≤ h) :
    succOK c t o h = true := by
  simp [succOK, hg, hle]

theorem succOK_mono {c : Cert} {t o h h2 : Nat} (hs : succOK c t o h = true) (hle : h ≤ h2) :
    succOK c t o h2 = true := by
  unfold succOK at hs ⊢
  cases hg : c.get t with
  | none => simp [hg] at hs
  | some p =>
    obtain ⟨o', h'⟩ := p
    simp only [hg, Bool.and_eq_true, beq_iff_eq, decide_eq_true_eq] at hs ⊢
    exact ⟨hs.1, by omega⟩

theorem Seg_succ {c : Cert} {p o h h2 : Nat} {L : List AI} (hs : Seg c p L) (h1 : Starts o h L) (hle : h ≤ h2) :
    succOK c p o h2 = true := succOK_of_get (Seg_starts hs h1) hle

mutual
theorem headE : (e : RExpr) → ∀ pos lp cs o h, Starts o h (annE e pos lp cs o h)
  | .int _, _, _, _, _, _ => by simp only [annE]; exact .cons _ _ _ _
  | .float _, _, _, _, _, _ => by simp only [annE]; exact .cons _ _ _ _
  | .str _, _, _, _, _, _ => by simp only [annE]; exact .cons _ _ _ _
  | .bool _, _, _, _, _, _ => by simp only [annE]; exact .cons _ _ _ _
  | .var _, _, _, _, _, _ => by simp only [annE]; exact .cons _ _ _ _
  | .not r, pos, lp, cs, o, h => by simp only [annE]; exact (headE r pos lp cs o h).append _
  | .neg r, pos, lp, cs, o, h => by simp only [annE]; exact (headE r pos lp cs o h).append _
  | .assignVar _ e, pos, lp, cs, o, h => by simp only [annE]; exact (headE e pos lp cs o h).append _
  | .assignIndex l i v, pos, lp, cs, o, h => by
    simp only [annE]; exact (((headE l pos lp cs o h).append _).append _).append _
  | .infix l op r, pos, lp, cs, o, h => by
    simp only [annE]
    cases hf : fusedCandidate l op r with
    | none => exact ((headE l pos lp cs o h).append _).append _
    | some p => obtain ⟨o', k, v⟩ := p; exact .cons _ _ _ _
  | .ifE c t e, pos, lp, cs, o, h => by
    simp only [annE]; exact ((((headE c pos lp cs o h).append _).append _).append _).append _
  | .whileE c b, pos, lp, cs, o, h => by
    simp only [annE, List.cons_append, List.nil_append]; exact .cons _ _ _ _
  | .func _ self _ nl body, pos, lp, cs, o, h => by
    simp only [annE, List.cons_append, List.nil_append]; exact .cons _ _ _ _
  | .call f as, pos, lp, cs, o, h => by
    simp only [annE]
    rcases headEs as pos lp cs o h with hn | hs
    · subst hn
      simp only [annEs, List.nil_append, RExprs.length, Nat.add_zero]
      exact (headE f _ lp _ o h).append _
    · exact (hs.append _).append _
  | .callBuiltin _ as, pos, lp, cs, o, h => by
    simp only [annE]
    rcases headEs as pos lp cs o h with hn | hs
    · subst hn
      simp only [annEs, List.nil_append, RExprs.length, Nat.add_zero]
      exact .cons _ _ _ _
    · exact hs.append _
  | .arr vs, pos, lp, cs, o, h => by
    simp only [annE]
    rcases headEs vs pos lp cs o h with hn | hs
    · subst hn
      simp only [annEs, List.nil_append, RExprs.length, Nat.add_zero]
      exact .cons _ _ _ _
    · exact hs.append _
  | .index l i, pos, lp, cs, o, h => by
    simp only [annE]; exact ((headE l pos lp cs o h).append _).append _
theorem headEs : (es : RExprs) → ∀ pos lp cs o h, es = .nil ∨ Starts o h (annEs es pos lp cs o h)
  | .nil, _, _, _, _, _ => .inl rfl
  | .cons e es, pos, lp, cs, o, h => by
    simp only [annEs]; exact .inr ((headE e pos lp cs o h).append _)
end

mutual
theorem headS : (s : RStmt) → ∀ v pos lp cs o h,
    (annS v s pos lp cs o h = [] ∧ stk s = .other) ∨ Starts o h (annS v s pos lp cs o h)
  | .expr e, v, pos, lp, cs, o, h => by simp only [annS]; exact .inr ((headE e pos lp cs o h).append _)
  | .letS _ e, v, pos, lp, cs, o, h => by simp only [annS]; exact .inr ((headE e pos lp cs o h).append _)
  | .ret e, v, pos, lp, cs, o, h => by simp only [annS]; exact .inr ((headE e pos lp cs o h).append _)
  | .block b, v, pos, lp, cs, o, h => by
    simp only [annS, stk, RBlock.tailKind]; exact headB b v pos lp cs o h
  | .brk, v, pos, lp, cs, o, h => by simp only [annS]; exact .inr (.cons _ _ _ _)
  | .cont, v, pos, lp, cs, o, h => by simp only [annS]; exact .inr (.cons _ _ _ _)
theorem headB : (b : RBlock) → ∀ v pos lp cs o h,
    (annB v b pos lp cs o h = [] ∧ b.tailKind = .other) ∨ Starts o h (annB v b pos lp cs o h)
  | .nil, v, _, _, _, _, _ => by simp [annB, RBlock.tailKind]
  | .cons s .nil, v, pos, lp, cs, o, h => by
    simp only [annB, RBlock.isEmpty, Bool.and_true, List.append_nil]
    exact headS s v pos lp cs o h
  | .cons s (.cons s2 b2), v, pos, lp, cs, o, h => by
    rw [annB, tailKind_cons_cons]
    simp only [RBlock.isEmpty, Bool.and_false]
    rcases headS s false pos lp cs o h with ⟨h1, _⟩ | h1
    · rw [h1, List.nil_append]
      exact headB (.cons s2 b2) v _ lp _ o h
    · exact .inr (h1.append _)
end

theorem head_valWrap (b : RBlock) (pos lp cs o h) : Starts o h (valWrap b (annB true b pos lp cs o h) o h) := by
  cases b with
  | nil => exact .cons _ _ _ _
  | cons s b' =>
    simp only [valWrap]
    rcases headB (.cons s b') true pos lp cs o h with ⟨h1, h2⟩ | h1
    · rw [h1, h2]; exact .cons _ _ _ _
    · cases (RBlock.cons s b').tailKind with
      | value => exact h1
      | returns => exact h1.append _
      | other => exact h1.append _

theorem head_fnWrap (b : RBlock) (lp cs e) : Starts e 0 (fnWrap b (annB true b e lp cs e 0) e) := by
  cases b with
  | nil => exact .cons _ _ _ _
  | cons s b' =>
    simp only [fnWrap]
    rcases headB (.cons s b') true e lp cs e 0 with ⟨h1, h2⟩ | h1
    · rw [h1, h2]; exact .cons _ _ _ _
    · cases (RBlock.cons s b').tailKind with
      | value => exact h1.append _
      | returns => exact h1
      | other => exact h1.append _

theorem headO (x : ROptBlock) (pos lp cs o h) : Starts o h (annO x pos lp cs o h) := by
  cases x with
  | none => exact .cons _ _ _ _
  | some b => simp only [annO]; exact head_valWrap b pos lp cs o h

end CV
end Nl
