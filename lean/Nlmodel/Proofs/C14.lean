/-
  C14 — builtins are total and behave as documented.
  Statements about `builtinCore`, `printLine/formatPrint` and the machine-level `callBuiltin`.
-/
import Nlmodel.Model.Pipeline
import Nlmodel.Proofs.Lemmas.SimHOps
import Nlmodel.Proofs.Lemmas.FloatTextBuiltin
import Nlmodel.Proofs.Lemmas.Utf8All
namespace Nl
namespace C14

/-- a wrong number of arguments to anything but `print` is an argument error -/
theorem C14_arity (b : Builtin) (args : List Value) (m : Mem) (out : List Text)
    (hb : b ≠ .print) (hn : args.length ≠ 1) : callBuiltin b args m out = .error .argument := by
  cases b <;> first | exact absurd rfl hb | skip
  all_goals
    match args, hn with
    | [], _ => rfl
    | [_], h => exact absurd rfl h
    | _ :: _ :: _, _ => rfl

/-- every builtin applied to every value either returns a value or an argument/type error:
    totality is by construction (the functions are total); the error kinds are these two -/
theorem C14_error_kinds (b : Builtin) (v : View) (e : Err) (h : builtinCore b v = .error e) :
    e = .argument ∨ e = .type := by
  cases b <;> cases v <;> simp [builtinCore] at h <;>
    first
      | (subst h; simp)
      | (split at h <;> simp_all)
      | skip
  all_goals (first | (revert h; split <;> (try split) <;> intro h <;> simp_all) | simp_all)

/-- converting a value to its own type is the identity -/
theorem C14_identity :
    (∀ s, builtinCore .string (.str s) = .ok .same) ∧ (∀ i, builtinCore .int (.int i) = .ok .same)
    ∧ (∀ x, builtinCore .float (.float x) = .ok .same) ∧ (∀ b, builtinCore .bool (.bool b) = .ok .same) :=
  ⟨fun _ => rfl, fun _ => rfl, fun _ => rfl, fun _ => rfl⟩

/-- `bool`: a positive number or non-empty text/array is ja -/
theorem C14_bool_table (i : Int) (s : Text) (n : Nat) :
    builtinCore .bool (.int i) = .ok (.bool (decide (i > 0)))
    ∧ builtinCore .bool (.str s) = .ok (.bool (!s.isEmpty))
    ∧ builtinCore .bool (.arr n) = .ok (.bool (n != 0))
    ∧ builtinCore .bool .null = .ok (.bool false) := ⟨rfl, rfl, rfl, rfl⟩

/-! ### number → text → number -/

theorem digitsToNat_snoc (ds : Text) (c : Char) :
    F64.digitsToNat (ds ++ [c]) = F64.digitsToNat ds * 10 + F64.digitVal c := by
  simp [F64.digitsToNat, List.foldl_append]

theorem digitVal_ofNat (d : Nat) (h : d < 10) : F64.digitVal (Char.ofNat (48 + d)) = d := by
  have : d = 0 ∨ d = 1 ∨ d = 2 ∨ d = 3 ∨ d = 4 ∨ d = 5 ∨ d = 6 ∨ d = 7 ∨ d = 8 ∨ d = 9 := by omega
  rcases this with rfl | rfl | rfl | rfl | rfl | rfl | rfl | rfl | rfl | rfl <;> decide

theorem isDigit_ofNat (d : Nat) (h : d < 10) : (Char.ofNat (48 + d)).isDigit = true := by
  have : d = 0 ∨ d = 1 ∨ d = 2 ∨ d = 3 ∨ d = 4 ∨ d = 5 ∨ d = 6 ∨ d = 7 ∨ d = 8 ∨ d = 9 := by omega
  rcases this with rfl | rfl | rfl | rfl | rfl | rfl | rfl | rfl | rfl | rfl <;> decide

theorem natToDec_spec (n : Nat) :
    F64.digitsToNat (natToDec n) = n ∧ (natToDec n).all Char.isDigit = true ∧ natToDec n ≠ [] := by
  induction n using Nat.strongRecOn with
  | _ n ih =>
    rw [natToDec]
    by_cases h : n < 10
    · simp only [h, ↓reduceDIte]
      refine ⟨?_, ?_, by simp⟩
      · simp [F64.digitsToNat, digitVal_ofNat n h]
      · simp [isDigit_ofNat n h]
    · simp only [h, ↓reduceDIte]
      obtain ⟨h1, h2, _⟩ := ih (n / 10) (by omega)
      refine ⟨?_, ?_, by simp⟩
      · rw [digitsToNat_snoc, h1, digitVal_ofNat _ (by omega)]; omega
      · simp [List.all_append, h2, isDigit_ofNat (n % 10) (by omega)]

theorem natToDec_head_not_sign (n : Nat) : ∀ c r, natToDec n = c :: r → c ≠ '-' ∧ c ≠ '+' := by
  intro c r h
  have := (natToDec_spec n).2.1
  rw [h] at this
  simp only [List.all_cons, Bool.and_eq_true] at this
  constructor <;> (intro e; subst e; simp [Char.isDigit] at this)

theorem splitSign_other (c : Char) (r : Text) (h1 : c ≠ '-') (h2 : c ≠ '+') :
    splitSign (c :: r) = (false, c :: r) := by
  rw [splitSign.eq_def]; split <;> simp_all

theorem inRange_bounds (i : Int) (h : inRange i = true) : -(2 ^ 60 : Int) ≤ i ∧ i < 2 ^ 60 := by
  simp only [inRange, MIN_INT, MAX_INT, Bool.and_eq_true] at h
  have h1 := of_decide_eq_true h.1
  have h2 := of_decide_eq_true h.2
  omega

/-- `int(string(i)) = i` for every integer (a fortiori every in-range one): the decimal spelling
    parses back to the same number -/
theorem C14_int_string_roundtrip (i : Int) (h : -(2 ^ 63) ≤ i ∧ i < 2 ^ 63) :
    parseIntText (intToText i) = some i := by
  unfold intToText
  obtain ⟨hd, hall, hne⟩ := natToDec_spec i.natAbs
  have hemp : (natToDec i.natAbs).isEmpty = false := by
    cases hx : natToDec i.natAbs with
    | nil => exact absurd hx hne
    | cons _ _ => rfl
  have hrange : (decide (-(2:Int) ^ 63 ≤ i) && decide (i < 2 ^ 63)) = true := by
    simp only [Bool.and_eq_true, decide_eq_true_eq]; omega
  by_cases hneg : i < 0
  · simp only [hneg, ↓reduceIte, parseIntText]
    have : splitSign ('-' :: natToDec i.natAbs) = (true, natToDec i.natAbs) := rfl
    simp only [this, hemp, hall, Bool.not_true, Bool.or_self, Bool.false_eq_true, ↓reduceIte, hd]
    have e : -((i.natAbs : Nat) : Int) = i := by omega
    rw [e]
    simp only [hrange, ↓reduceIte]
  · simp only [hneg, ↓reduceIte]
    cases hx : natToDec i.natAbs with
    | nil => exact absurd hx hne
    | cons c r =>
      obtain ⟨n1, n2⟩ := natToDec_head_not_sign i.natAbs c r hx
      simp only [parseIntText, splitSign_other c r n1 n2]
      rw [← hx]
      simp only [hemp, hall, Bool.not_true, Bool.or_self, Bool.false_eq_true, ↓reduceIte, hd]
      have e : ((i.natAbs : Nat) : Int) = i := by omega
      rw [e]
      simp only [hrange, ↓reduceIte]

/-- the model's `int(string(i))` on views: for every integer in the 61-bit range -/
theorem C14_int_of_string_of_int (i : Int) (h : inRange i = true) :
    builtinCore .string (.int i) = .ok (.str (intToText i)) ∧
    (trimText (intToText i) = intToText i → builtinCore .int (.str (intToText i)) = .ok (.int i)) := by
  refine ⟨rfl, ?_⟩
  intro ht
  have hb := inRange_bounds i h
  have hr : -(2 ^ 63 : Int) ≤ i ∧ i < 2 ^ 63 := by omega
  simp only [builtinCore, ht, C14_int_string_roundtrip i hr, h, ↓reduceIte]

/-! ### print -/

theorem fp_step (c : Char) (rest : Text) (a : Text) (as : List Text)
    (h : ¬ (c = '{' ∧ ∃ q, rest = '}' :: q)) :
    formatPrint (c :: rest) (a :: as) = c :: formatPrint rest (a :: as) := by
  rw [formatPrint.eq_def]
  split <;> simp_all

/-- without arguments the format text is printed unchanged -/
theorem C14_print_no_args (f : Text) : formatPrint f [] = f := by
  induction f with
  | nil => rfl
  | cons c r ih =>
    rw [formatPrint.eq_def]
    split <;> simp_all

/-- `pre` contains no placeholder that the scan could find before reaching its end -/
def NoPlaceholder : Text → Prop
  | [] => True
  | [c] => c ≠ '{'
  | c :: d :: r => ¬ (c = '{' ∧ d = '}') ∧ NoPlaceholder (d :: r)

/-- the first `{}` of the format text is replaced by the first argument, the text before it is
    kept, and the rest is formatted with the REMAINING arguments (so a `{}` inside an argument is
    never substituted itself) -/
theorem C14_print_first_placeholder (pre post a : Text) (as : List Text) (hpre : NoPlaceholder pre) :
    formatPrint (pre ++ '{' :: '}' :: post) (a :: as) = pre ++ a ++ formatPrint post as := by
  induction pre with
  | nil => simp [formatPrint]
  | cons c r ih =>
    cases r with
    | nil =>
      have hc : c ≠ '{' := hpre
      simp only [List.cons_append, List.nil_append]
      rw [fp_step c _ a as (by intro h; exact hc h.1)]
      simp [formatPrint]
    | cons d r' =>
      obtain ⟨h1, h2⟩ := hpre
      simp only [List.cons_append]
      rw [fp_step c _ a as (by intro h; obtain ⟨hc, q, hq⟩ := h; injection hq with hq _; exact h1 ⟨hc, hq⟩)]
      have := ih h2
      simp only [List.cons_append] at this
      rw [this]

example : formatPrint "{} {}".toList ["{}".toList, "x".toList] = "{} x".toList := by decide
example : formatPrint "a{}b{}c{}".toList ["1".toList] = "a1b{}c{}".toList := by decide

/-- EVERY BUILTIN, ON THE MACHINE AS IN THE SEMANTICS: for related argument lists (any number of
    arguments, any value kinds, nested and cyclic arrays) a builtin call yields related results, the
    same printed line for `print` (deep view equal: `SimH.tree_rel`), the same arity/type/argument
    error otherwise, and leaves the two heaps related (stage 5 of the simulation) -/
theorem C14_builtin_agrees {s0 : VM} {CS : List Const} {Γ : Sim.Gam} {μ : SimH.AMap} {st : Spec.SState} {g : Array Value} {l : Value} {m : Mem} {out : List Text}
    (hinv : SimH.Inv5 s0 CS Γ μ st g l m out) (b : Builtin) (xs : List Spec.SVal) (ms : List Value) (hl : SimH.VRL μ st m.heap xs ms) :
    match SimH.specBuiltin b xs st with
    | .val r st' => ∃ μ' mr m' out', callBuiltin b ms m out = .ok (mr, m', out') ∧ SimH.Inv5 s0 CS Γ μ' st' g l m' out' ∧
        SimH.Grow μ st m.heap μ' st' m'.heap ∧ SimH.VRh μ' st' m'.heap r mr
    | .err e _ => callBuiltin b ms m out = .error e
    | _ => True :=
  SimH.builtin_rel hinv b xs ms hl

/-! ### number → text → number for floats (`Lemmas/FloatText*.lean`) -/

/-- NUMBER → TEXT → NUMBER RETURNS THE SAME FLOAT, for EVERY float: the text `string(x)` prints (Rust's `Display for f64`:
    the shortest digits that read back, no exponent notation, `inf`, `-inf`, `NaN`, `-0`) is read back by `float(..)` (Rust's
    `f64::from_str`) as `x` itself — every finite value, both zeros, both infinities; a NaN reads back as NaN.  Ingredients:
    `roundDigits` returns the correctly rounded k-digit decimal (its exponent estimate is at most 7 decades off, checked for all
    2098 possible binary exponents by kernel evaluation); 17 significant digits always suffice (`F64T.digits17_ok`, from
    2^53 < 10^16 and the nearest-property of the rounding); the printed text denotes the same rational as the digits
    (`F64T.parseDec_render`) and the rounding depends on the rational only (`F64R.roundMag_congr`). -/
theorem C14_float_text_roundtrip (x : F64.Bits) :
    F64.parseDec (F64.toDecimal x) = some (if F64.isNaN x = true then F64.canonNaN else x) :=
  F64T.parse_toDecimal_all x

/-- the same through the builtins: `float(string(x)) = x` for every float that is not NaN -/
theorem C14_float_of_string_of_float (x : F64.Bits) (hx : F64.isNaN x = false) :
    builtinCore .string (.float x) = .ok (.str (F64.toDecimal x)) ∧
    builtinCore .float (.str (F64.toDecimal x)) = .ok (.float x) :=
  F64T.float_string_roundtrip x hx

/-- `lengte` of a text computed ON ITS UTF-8 BYTES the way `builtins.rs` does (`chars().count()`: the bytes that are
    not continuation bytes) is the model's result, the number of characters — for every text -/
theorem C14_lengte_counts_characters_on_bytes (s : Text) :
    builtinCore .length (.str s) = .ok (.int (Utf8.countChars (Utf8.encode s))) := Utf8.length_bytes s

end C14
end Nl
