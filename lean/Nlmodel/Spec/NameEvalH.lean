/-
  The resolver-INDEPENDENT definitional semantics of names (property C09), extended to HEAP VALUES: the
  function-free source fragment of stage 5 (everything of `NameEval` PLUS float, string and list literals,
  indexing `a[i]`, index assignment `a[i] = v`, all operators on all kinds of values, the seven builtins
  including `print`; no function literals, no calls of user functions).

  As in `NameEval` it works DIRECTLY ON THE SOURCE TREE: no resolver, no binder id, no slot.  The state is
  `NameEval.NState`: the STACK OF SCOPES of (name, value) + the store of strings and lists by address +
  the register `last` + the output.  Values (`Spec.SVal`) and ALL operations on values and on the store are
  literally those of `Spec.Eval` (`alloc`, `view`, `box`, `tree`, `sIndexGet`, `sIndexSet`, `binopCore`,
  `builtinCore`, `printLine`), run on the name-free part `NState.mem` of the state: the point is
  independence from the RESOLVER, not from the value operations.
    * a string literal evaluates to a FRESH string, a list literal to a fresh list of the values of its
      elements (left to right); two names bound to one list share it (a binding holds the address);
    * `a[i] = v` evaluates `a`, `i`, `v` in this order, then updates the list/string in place;
    * a call whose callee is written as the NAME OF A BUILTIN is a call of that builtin, whatever variables
      are in scope (the name is not looked up as a variable); arguments left to right;
    * a call of anything else is outside this fragment (`.unspec`, not `declared`).
  Fuel is spent exactly as in `Spec.evalE/evalEs/evalS/evalB/evalBV/evalLoop`.
-/
import Nlmodel.Spec.NameEval
namespace Nl
namespace NameEvalH
open NameEval (NState NRes popRes binOf lookup visible addName scopeAfter)

/-- put back the name-free part after a shared heap operation (`last` is never touched by one) -/
def setMem (s : NState) (m : Spec.SState) : NState := { s with store := m.store, out := m.out }

/-- the result of a shared heap operation that was run on the name-free part of `st` -/
def heapRes (st : NState) : Except Err (Spec.SVal × Spec.SState) → NRes Spec.SVal
  | .ok (r, m) => .val r (setMem st m)
  | .error e => .err e st

/-- a builtin applied to evaluated arguments (the text of `Spec.evalE`, case `callBuiltin`) -/
def callBuiltin (b : Builtin) (xs : List Spec.SVal) (m : Spec.SState) : Except Err (Spec.SVal × Spec.SState) :=
  match b with
  | .print => .ok (.null, { m with out := m.out ++ [printLine (xs.map (m.tree treeDepth []))] })
  | _ =>
    match xs with
    | [x] =>
      match builtinCore b (m.view x) with
      | .ok p => .ok (m.box x p)
      | .error e => .error e
    | _ => .error .argument

/-- an operator applied to evaluated operands -/
def binop (bop : BinOp) (a b : Spec.SVal) (m : Spec.SState) : Except Err (Spec.SVal × Spec.SState) :=
  match binopCore bop (m.view a) (m.view b) with
  | .ok p => .ok (m.box a p)
  | .error e => .error e

mutual
def evalE : Nat → Expr → NState → NRes Spec.SVal
  | 0, _, _ => .fuel
  | f + 1, e, st =>
    match e with
    | .int v => .val (.int v) st
    | .float x => .val (.float x) st
    | .bool b => .val (.bool b) st
    | .str s => .val (.str (st.mem.alloc (.str s)).2) (setMem st (st.mem.alloc (.str s)).1)
    | .ident n =>
      match lookup st.scopes n with
      | some (some v) => .val v st
      | some none => .unspec st        -- U2: read in its own initialiser
      | none => .unspec st             -- excluded by `declared`
    | .pre .not r =>
      match evalE f r st with
      | .val (.bool b) st1 => .val (.bool (!b)) st1
      | .val _ st1 => .err .type st1
      | o => o
    | .pre .sub r =>
      match evalE f r st with
      | .val (.int i) st1 => if inRange (-i) then .val (.int (-i)) st1 else .err .type st1
      | .val (.float x) st1 => .val (.float (F64.neg x)) st1
      | .val _ st1 => .err .type st1
      | o => o
    | .pre .negate r =>
      match evalE f r st with
      | .val (.int i) st1 => if inRange (-i) then .val (.int (-i)) st1 else .err .type st1
      | .val (.float x) st1 => .val (.float (F64.neg x)) st1
      | .val _ st1 => .err .type st1
      | o => o
    | .infix l op r =>
      match binOf op with
      | none => .unspec st
      | some bop =>
        match evalE f l st with
        | .val a st1 =>
          match evalE f r st1 with
          | .val b st2 => heapRes st2 (binop bop a b st2.mem)
          | o => o
        | o => o
    | .assign (.ident n) e =>
      match evalE f e st with
      | .val v st1 =>
        match st1.assign n v with
        | some st2 => .val v st2
        | none => .unspec st1          -- excluded by `declared`
      | o => o
    | .assign (.index l i) v =>
      match evalE f l st with
      | .val a st1 =>
        match evalE f i st1 with
        | .val b st2 =>
          match evalE f v st2 with
          | .val c st3 => heapRes st3 (Spec.sIndexSet a b c st3.mem)
          | o => o
        | o => o
      | o => o
    | .index l i =>
      match evalE f l st with
      | .val a st1 =>
        match evalE f i st1 with
        | .val b st2 => heapRes st2 (Spec.sIndexGet a b st2.mem)
        | o => o
      | o => o
    | .arr vs =>
      match evalEs f vs st with
      | .val xs st1 => .val (.arr (st1.mem.alloc (.arr xs)).2) (setMem st1 (st1.mem.alloc (.arr xs)).1)
      | .brk s => .brk s | .cont s => .cont s
      | .err e s => .err e s | .unspec s => .unspec s | .fuel => .fuel
    | .call (.ident n) as =>
      match Builtin.resolve n with
      | some b =>
        match evalEs f as st with
        | .val xs st1 => heapRes st1 (callBuiltin b xs st1.mem)
        | .brk s => .brk s | .cont s => .cont s
        | .err e s => .err e s | .unspec s => .unspec s | .fuel => .fuel
      | none => .unspec st             -- a user call: outside the fragment
    | .ifE c t e =>
      match evalE f c st with
      | .val (.bool true) st1 => popRes (evalBVs f t st1.push)
      | .val (.bool false) st1 =>
        match e with
        | .none => .val .null st1
        | .some b => popRes (evalBVs f b st1.push)
      | .val _ st1 => .err .type st1
      | o => o
    | .whileE c b => evalLoop f c b .null st
    | _ => .unspec st                  -- outside the fragment

/-- expressions left to right -/
def evalEs : Nat → Exprs → NState → NRes (List Spec.SVal)
  | 0, _, _ => .fuel
  | f + 1, es, st =>
    match es with
    | .nil => .val [] st
    | .cons e rest =>
      match evalE f e st with
      | .val v st1 =>
        match evalEs f rest st1 with
        | .val vs st2 => .val (v :: vs) st2
        | o => o
      | .brk s => .brk s | .cont s => .cont s
      | .err e s => .err e s | .unspec s => .unspec s | .fuel => .fuel

/-- `zolang`, as `Spec.evalLoop`; the body is a block: its scope is pushed and popped every iteration -/
def evalLoop : Nat → Expr → Block → Spec.SVal → NState → NRes Spec.SVal
  | 0, _, _, _, _ => .fuel
  | f + 1, c, b, acc, st =>
    match evalE f c st with
    | .val (.bool false) st1 => .val acc st1
    | .val (.bool true) st1 =>
      match popRes (evalBVs f b ({ st1 with last := acc } : NState).push) with
      | .val v st2 => evalLoop f c b v st2
      | .brk st2 => .val .null st2
      | .cont st2 => evalLoop f c b .null st2
      | o => o
    | .val _ st1 => .err .type st1
    | .brk st1 => .val .null st1
    | .cont st1 => evalLoop f c b .null st1
    | o => o

def evalS : Nat → Stmt → NState → NRes Unit
  | 0, _, _ => .fuel
  | f + 1, s, st =>
    match s with
    | .expr e =>
      match evalE f e st with
      | .val v st1 => .val () { st1 with last := v }
      | .brk s => .brk s | .cont s => .cont s
      | .err e s => .err e s | .unspec s => .unspec s | .fuel => .fuel
    | .letS n e =>
      match evalE f e (st.declare n) with
      | .val v st1 =>
        match st1.assign n v with
        | some st2 => .val () st2
        | none => .unspec st1          -- impossible: `n` was just declared
      | .brk s => .brk s | .cont s => .cont s
      | .err e s => .err e s | .unspec s => .unspec s | .fuel => .fuel
    | .block b => popRes (evalSs f b st.push)
    | .brk => .brk st
    | .cont => .cont st
    | .ret _ => .unspec st             -- outside the fragment

/-- statements in sequence in the current scope (statement position) -/
def evalSs : Nat → Block → NState → NRes Unit
  | 0, _, _ => .fuel
  | f + 1, b, st =>
    match b with
    | .nil => .val () st
    | .cons s rest =>
      match evalS f s st with
      | .val () st1 => evalSs f rest st1
      | o => o

/-- statements in sequence in the current scope, in value position (as `Spec.evalBV`) -/
def evalBVs : Nat → Block → NState → NRes Spec.SVal
  | 0, _, _ => .fuel
  | f + 1, b, st =>
    match b with
    | .nil => .val .null st
    | .cons (.expr e) .nil => evalE f e st
    | .cons (.block (.cons s b')) .nil => popRes (evalBVs f (.cons s b') st.push)
    | .cons s .nil =>
      match evalS f s st with
      | .val () st1 => .val .null st1
      | .brk s => .brk s | .cont s => .cont s
      | .err e s => .err e s | .unspec s => .unspec s | .fuel => .fuel
    | .cons s rest =>
      match evalS f s st with
      | .val () st1 => evalBVs f rest st1
      | .brk s => .brk s | .cont s => .cont s
      | .err e s => .err e s | .unspec s => .unspec s | .fuel => .fuel
end

/-- a whole program: the top level is one scope -/
def evalProgram (fuel : Nat) (p : Block) : Spec.Outcome :=
  match evalSs fuel p {} with
  | .val () st => .value (st.mem.tree treeDepth [] st.last) st.out
  | .err e st => .error e st.out
  | .unspec _ => .unspec
  | .fuel => .fuel
  | .brk _ | .cont _ => .unspec

/-! ### the static rule: every identifier occurrence has an enclosing declaration visible at that point;
    the name of a builtin in callee position is not an identifier occurrence -/

mutual
def declE (sc : List (List Text)) : Expr → Bool
  | .int _ => true
  | .float _ => true
  | .bool _ => true
  | .str _ => true
  | .ident n => visible sc n
  | .pre _ r => declE sc r
  | .infix l _ r => declE sc l && declE sc r
  | .assign (.ident n) e => visible sc n && declE sc e
  | .assign (.index a i) v => declE sc a && declE sc i && declE sc v
  | .arr vs => declEs sc vs
  | .index l i => declE sc l && declE sc i
  | .call (.ident n) as => (Builtin.resolve n).isSome && declEs sc as
  | .ifE c t e => declE sc c && declSs ([] :: sc) t && declO sc e
  | .whileE c b => declE sc c && declSs ([] :: sc) b
  | _ => false                         -- outside the fragment
def declEs (sc : List (List Text)) : Exprs → Bool
  | .nil => true
  | .cons e es => declE sc e && declEs sc es
def declO (sc : List (List Text)) : OptBlock → Bool
  | .none => true
  | .some b => declSs ([] :: sc) b
def declS (sc : List (List Text)) : Stmt → Bool
  | .expr e => declE sc e
  | .letS n e => declE (addName sc n) e
  | .block b => declSs ([] :: sc) b
  | .brk => true
  | .cont => true
  | .ret _ => false                    -- outside the fragment
/-- statements in sequence in the current scope -/
def declSs (sc : List (List Text)) : Block → Bool
  | .nil => true
  | .cons s b => declS sc s && declSs (scopeAfter sc s) b
end

/-- `declared sc p`: in the program text `p`, read in the scopes `sc`, every use of a name as a variable is
    in the scope of a declaration of that name -/
def declared (sc : List (List Text)) (p : Block) : Bool := declSs sc p

end NameEvalH
end Nl
