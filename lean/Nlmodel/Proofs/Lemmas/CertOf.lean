/- The certificate array built from the annotated code, and decoding at certified offsets. -/
import Nlmodel.Proofs.Lemmas.AnnHead
import Nlmodel.Proofs.Lemmas.SimBase
namespace Nl
namespace CV
open Verifier Sim

theorem size_pos (i : Instr) : 1 ≤ i.size := by cases i <;> simp [Instr.size]

theorem cell_length (x : AI) : (cell x).length = x.1.size := by
  have := size_pos x.1
  simp only [cell, List.length_cons, List.length_replicate]; omega

def entL (L : List AI) : List (Option (Nat × Nat)) := L.flatMap cell

theorem entL_cons (x : AI) (L : List AI) : entL (x :: L) = cell x ++ entL L := by simp [entL]
theorem entL_append (A B : List AI) : entL (A ++ B) = entL A ++ entL B := by simp [entL]

theorem entL_length (L : List AI) : (entL L).length = asize L := by
  induction L with
  | nil => rfl
  | cons x r ih => rw [entL_cons, List.length_append, cell_length, ih]; rfl

theorem certOf_size (L : List AI) : (certOf L).ent.size = asize L := by
  simp only [certOf, List.size_toArray]; exact entL_length L

def pick : Option (Option (Nat × Nat)) → Option (Nat × Nat)
  | some (some x) => some x
  | _ => none

theorem certOf_get (L : List AI) (pc : Nat) : (certOf L).get pc = pick (entL L)[pc]? := by
  simp only [Cert.get, certOf, List.getElem?_toArray, entL]
  cases (List.flatMap cell L)[pc]? with
  | none => rfl
  | some y => cases y <;> rfl

theorem certOf_seg : ∀ (L A : List AI), Seg (certOf (A ++ L)) (asize A) L
  | [], _ => trivial
  | x :: r, A => by
    refine ⟨?_, ?_⟩
    · rw [certOf_get, entL_append, entL_cons, ← entL_length A, List.getElem?_append_right (Nat.le_refl _)]
      simp [cell, pick]
    · have := certOf_seg r (A ++ [x])
      simpa [List.append_assoc] using this

theorem certOf_get_some : ∀ (L : List AI) (pc o h : Nat), (certOf L).get pc = some (o, h) →
    ∃ A i B, L = A ++ (i, o, h) :: B ∧ asize A = pc
  | [], pc, o, h, hg => by simp [certOf_get, entL, pick] at hg
  | x :: r, pc, o, h, hg => by
    rw [certOf_get, entL_cons] at hg
    by_cases h0 : pc = 0
    · subst h0
      simp only [cell, List.cons_append, List.getElem?_cons_zero, pick, Option.some.injEq, Prod.mk.injEq] at hg
      refine ⟨[], x.1, r, ?_, rfl⟩
      obtain ⟨i, o', h'⟩ := x
      simp only at hg
      simp [hg.1, hg.2]
    · by_cases h1 : pc < x.1.size
      · rw [List.getElem?_append_left (by rw [cell_length]; exact h1)] at hg
        obtain ⟨k, rfl⟩ : ∃ k, pc = k + 1 := ⟨pc - 1, by omega⟩
        simp only [cell, List.getElem?_cons_succ] at hg
        rw [List.getElem?_replicate] at hg
        by_cases hk : k < x.1.size - 1 <;> simp [hk, pick] at hg
      · rw [List.getElem?_append_right (by rw [cell_length]; omega), cell_length] at hg
        have hg' : (certOf r).get (pc - x.1.size) = some (o, h) := by rw [certOf_get]; exact hg
        obtain ⟨A, i, B, hL, hA⟩ := certOf_get_some r _ o h hg'
        exact ⟨x :: A, i, B, by rw [hL]; rfl, by simp only [asize_cons]; omega⟩

/-- a certified offset of the encoded code decodes to its instruction -/
theorem decode_at (A B : List AI) (i : Instr) (o h : Nat)
    (hw : ∀ j ∈ (A ++ (i, o, h) :: B).map (·.1), j.wf) :
    decodeAt (encodeAll ((A ++ (i, o, h) :: B).map (·.1))).toArray (asize A) = some i := by
  have h0 : CodeAt (encodeAll ((A ++ (i, o, h) :: B).map (·.1))).toArray 0 ((A ++ (i, o, h) :: B).map (·.1)) :=
    ⟨hw, [], [], by simp, rfl⟩
  rw [List.map_append, List.map_cons] at h0
  have h1 := (CodeAt.append h0).2
  rw [Nat.zero_add, ← asize_eq] at h1
  simpa [List.map_append] using h1.head

theorem fits_wf (i : Instr) (h : i.fits = true) : i.wf := by
  cases i with
  | fused op l k =>
    simp only [Instr.fits, Bool.and_eq_true, decide_eq_true_eq] at h
    exact ⟨by omega, by omega, h.2⟩
  | _ => first | trivial | (simp only [Instr.fits, Bool.and_eq_true, decide_eq_true_eq] at h; simp only [Instr.wf]; omega)

end CV
end Nl
