/- Stage 8: a decidable, sound check for membership in the stage-8 fragment (it computes the scopes after every expression),
   the end-to-end theorems from source trees and from text. -/
import Nlmodel.Proofs.Lemmas.Sim8Program
namespace Nl
namespace Sim8
open Spec Sim Sim6 Sim7
open SimH (LitF litFb litFb_sound)
open SimF (FT FnInfo paramScope memG freshG memG_sound freshG_sound gamOKb gamOKb_sound fusedCandidate_varL fusedCandidate_intL)

mutual
/-- the scopes after the expression, if it lies in the fragment -/
def chk8E (Δ : Gam) (nl : Nat) (fn : Bool) (Γ Λ : Gam) (ab : Bool) : RExpr → Option (Gam × Gam)
  | .int _ => some (Γ, Λ)
  | .bool _ => some (Γ, Λ)
  | .float x => if litFb x then some (Γ, Λ) else none
  | .str _ => some (Γ, Λ)
  | .not e => chk8E Δ nl fn Γ Λ ab e
  | .neg e => chk8E Δ nl fn Γ Λ ab e
  | .infix l op r =>
    match fusedCandidate l op r with
    | none =>
      match chk8E Δ nl fn Γ Λ ab l with
      | some (Γ1, Λ1) => chk8E Δ nl fn Γ1 Λ1 false r
      | none => none
    | some _ =>
      match l, r with
      | .var ⟨b, .loc k⟩, .int _ => if memG Λ b k && decide (k < nl) then some (Γ, Λ) else none
      | .int _, .var ⟨b, .loc k⟩ => if memG Λ b k && decide (k < nl) then some (Γ, Λ) else none
      | _, _ => none
  | .var ⟨b, .global k⟩ => if memG Γ b k then some (Γ, Λ) else none
  | .var ⟨b, .loc k⟩ => if memG Λ b k && decide (k < nl) then some (Γ, Λ) else none
  | .assignVar ⟨b, .global k⟩ e => if memG Γ b k then chk8E Δ nl fn Γ Λ ab e else none
  | .assignVar ⟨b, .loc k⟩ e => if memG Λ b k && decide (k < nl) then chk8E Δ nl fn Γ Λ ab e else none
  | .arr vs => chk8Es Δ nl fn Γ Λ vs
  | .index l i =>
    match chk8E Δ nl fn Γ Λ ab l with
    | some (Γ1, Λ1) => chk8E Δ nl fn Γ1 Λ1 false i
    | none => none
  | .assignIndex l i v =>
    match chk8E Δ nl fn Γ Λ ab l with
    | some (Γ1, Λ1) =>
      match chk8E Δ nl fn Γ1 Λ1 false i with
      | some (Γ2, Λ2) => chk8E Δ nl fn Γ2 Λ2 false v
      | none => none
    | none => none
  | .callBuiltin _ as => chk8Es Δ nl fn Γ Λ as
  | .ifE c t e =>
    match chk8E Δ nl fn Γ Λ ab c with
    | some (Γ1, Λ1) => if (chk8B Δ nl fn Γ1 Λ1 ab t).isSome && chk8O Δ nl fn Γ1 Λ1 ab e then some (Γ1, Λ1) else none
    | none => none
  | .whileE c b =>
    match chk8E Δ nl fn Γ Λ false c with
    | some (Γ1, Λ1) => if (chk8B Δ nl fn Γ1 Λ1 true b).isSome then some (Γ1, Λ1) else none
    | none => none
  | .call f as =>
    match chk8Es Δ nl fn Γ Λ as with
    | some (Γ1, Λ1) => chk8E Δ nl fn Γ1 Λ1 false f
    | none => none
  | .func _ self ps nlf body =>
    if (chk8B Δ nlf true Δ (paramScope ps) false body).isSome && gamOKb (paramScope ps) && (paramScope ps).all (fun p => decide (p.2 < nlf)) then
      match self with
      | none => some (Γ, Λ)
      | some ⟨b, .global k⟩ => if !fn && freshG Γ b k then some ((b, k) :: Γ, Λ) else none
      | some ⟨b, .loc k⟩ => if fn && freshG Λ b k && decide (k < nl) then some (Γ, (b, k) :: Λ) else none
    else none
def chk8Es (Δ : Gam) (nl : Nat) (fn : Bool) (Γ Λ : Gam) : RExprs → Option (Gam × Gam)
  | .nil => some (Γ, Λ)
  | .cons e es =>
    match chk8E Δ nl fn Γ Λ false e with
    | some (Γ1, Λ1) => chk8Es Δ nl fn Γ1 Λ1 es
    | none => none
def chk8O (Δ : Gam) (nl : Nat) (fn : Bool) (Γ Λ : Gam) (ab : Bool) : ROptBlock → Bool
  | .none => true
  | .some b => (chk8B Δ nl fn Γ Λ ab b).isSome
def chk8S (Δ : Gam) (nl : Nat) (fn : Bool) (Γ Λ : Gam) (ab : Bool) : RStmt → Option (Gam × Gam)
  | .expr e => chk8E Δ nl fn Γ Λ ab e
  | .letS ⟨b, .global k⟩ e => if !fn && freshG Γ b k then chk8E Δ nl fn ((b, k) :: Γ) Λ ab e else none
  | .letS ⟨b, .loc k⟩ e => if fn && freshG Λ b k && decide (k < nl) then chk8E Δ nl fn Γ ((b, k) :: Λ) ab e else none
  | .block b => if (chk8B Δ nl fn Γ Λ ab b).isSome then some (Γ, Λ) else none
  | .brk => if ab then some (Γ, Λ) else none
  | .cont => if ab then some (Γ, Λ) else none
  | .ret e => if fn then chk8E Δ nl fn Γ Λ ab e else none
def chk8B (Δ : Gam) (nl : Nat) (fn : Bool) (Γ Λ : Gam) (ab : Bool) : RBlock → Option (Gam × Gam)
  | .nil => some (Γ, Λ)
  | .cons s b =>
    match chk8S Δ nl fn Γ Λ ab s with
    | some (Γ1, Λ1) => chk8B Δ nl fn Γ1 Λ1 ab b
    | none => none
end

theorem ifs {α : Type} {c : Bool} {x y : α} (h : (if c = true then some x else none) = some y) : c = true ∧ x = y := by
  cases c
  · simp at h
  · simp at h; exact ⟨rfl, h⟩

theorem ifo {α : Type} {c : Bool} {x : Option α} {y : α} (h : (if c = true then x else none) = some y) : c = true ∧ x = some y := by
  cases c
  · simp at h
  · simp at h; exact ⟨rfl, h⟩

mutual
theorem chk8E_sound (Δ : Gam) : (e : RExpr) → ∀ (nl : Nat) (fn : Bool) (Γ Λ : Gam) (ab : Bool) (Γ' Λ' : Gam),
    chk8E Δ nl fn Γ Λ ab e = some (Γ', Λ') → Z8E Δ nl fn Γ Λ ab e Γ' Λ'
  | .int v, nl, fn, Γ, Λ, ab, Γ', Λ', h => by
    simp only [chk8E] at h; injection h with h; injection h with h1 h2; subst h1; subst h2; exact .int _ _ _ v
  | .bool b, nl, fn, Γ, Λ, ab, Γ', Λ', h => by
    simp only [chk8E] at h; injection h with h; injection h with h1 h2; subst h1; subst h2; exact .bool _ _ _ b
  | .str s, nl, fn, Γ, Λ, ab, Γ', Λ', h => by
    simp only [chk8E] at h; injection h with h; injection h with h1 h2; subst h1; subst h2; exact .str _ _ _ s
  | .float x, nl, fn, Γ, Λ, ab, Γ', Λ', h => by
    simp only [chk8E] at h
    obtain ⟨hc, he⟩ := ifs h
    injection he with h1 h2; subst h1; subst h2
    exact .float _ _ _ x (litFb_sound x hc)
  | .not e, nl, fn, Γ, Λ, ab, Γ', Λ', h => by simp only [chk8E] at h; exact .not _ _ _ e _ _ (chk8E_sound Δ e nl fn Γ Λ ab Γ' Λ' h)
  | .neg e, nl, fn, Γ, Λ, ab, Γ', Λ', h => by simp only [chk8E] at h; exact .neg _ _ _ e _ _ (chk8E_sound Δ e nl fn Γ Λ ab Γ' Λ' h)
  | .infix l op r, nl, fn, Γ, Λ, ab, Γ', Λ', h => by
    simp only [chk8E] at h
    cases hfc : fusedCandidate l op r with
    | none =>
      simp only [hfc] at h
      cases hl : chk8E Δ nl fn Γ Λ ab l with
      | none => simp [hl] at h
      | some q =>
        obtain ⟨Γ1, Λ1⟩ := q
        simp only [hl] at h
        exact .bin _ _ _ l op r Γ1 Λ1 _ _ hfc (chk8E_sound Δ l nl fn Γ Λ ab Γ1 Λ1 hl) (chk8E_sound Δ r nl fn Γ1 Λ1 false Γ' Λ' h)
    | some p =>
      simp only [hfc] at h
      split at h
      · rename_i b k v
        obtain ⟨hc, he⟩ := ifs h
        injection he with h1 h2; subst h1; subst h2
        simp only [Bool.and_eq_true, decide_eq_true_eq] at hc
        have hp := fusedCandidate_varL b k op v p hfc
        subst hp
        exact .fusedL _ _ _ b k op v (memG_sound hc.1) hc.2 hfc
      · rename_i v b k
        obtain ⟨hc, he⟩ := ifs h
        injection he with h1 h2; subst h1; subst h2
        simp only [Bool.and_eq_true, decide_eq_true_eq] at hc
        obtain ⟨op', hm⟩ := fusedCandidate_intL b k op v p hfc
        exact .fusedR _ _ _ b k op op' v (memG_sound hc.1) hc.2 hm
      · cases h
  | .var ⟨b, .global k⟩, nl, fn, Γ, Λ, ab, Γ', Λ', h => by
    simp only [chk8E] at h
    obtain ⟨hc, he⟩ := ifs h
    injection he with h1 h2; subst h1; subst h2
    exact .varG _ _ _ b k (memG_sound hc)
  | .var ⟨b, .loc k⟩, nl, fn, Γ, Λ, ab, Γ', Λ', h => by
    simp only [chk8E] at h
    obtain ⟨hc, he⟩ := ifs h
    injection he with h1 h2; subst h1; subst h2
    simp only [Bool.and_eq_true, decide_eq_true_eq] at hc
    exact .varL _ _ _ b k (memG_sound hc.1) hc.2
  | .assignVar ⟨b, .global k⟩ e, nl, fn, Γ, Λ, ab, Γ', Λ', h => by
    simp only [chk8E] at h
    obtain ⟨hc, he⟩ := ifo h
    exact .assignG _ _ _ b k e _ _ (memG_sound hc) (chk8E_sound Δ e nl fn Γ Λ ab Γ' Λ' he)
  | .assignVar ⟨b, .loc k⟩ e, nl, fn, Γ, Λ, ab, Γ', Λ', h => by
    simp only [chk8E] at h
    obtain ⟨hc, he⟩ := ifo h
    simp only [Bool.and_eq_true, decide_eq_true_eq] at hc
    exact .assignL _ _ _ b k e _ _ (memG_sound hc.1) hc.2 (chk8E_sound Δ e nl fn Γ Λ ab Γ' Λ' he)
  | .arr vs, nl, fn, Γ, Λ, ab, Γ', Λ', h => by simp only [chk8E] at h; exact .arr _ _ _ vs _ _ (chk8Es_sound Δ vs nl fn Γ Λ Γ' Λ' h)
  | .callBuiltin b as, nl, fn, Γ, Λ, ab, Γ', Λ', h => by
    simp only [chk8E] at h; exact .builtin _ _ _ b as _ _ (chk8Es_sound Δ as nl fn Γ Λ Γ' Λ' h)
  | .index l i, nl, fn, Γ, Λ, ab, Γ', Λ', h => by
    simp only [chk8E] at h
    cases hl : chk8E Δ nl fn Γ Λ ab l with
    | none => simp [hl] at h
    | some q =>
      obtain ⟨Γ1, Λ1⟩ := q
      simp only [hl] at h
      exact .index _ _ _ l i Γ1 Λ1 _ _ (chk8E_sound Δ l nl fn Γ Λ ab Γ1 Λ1 hl) (chk8E_sound Δ i nl fn Γ1 Λ1 false Γ' Λ' h)
  | .assignIndex l i v, nl, fn, Γ, Λ, ab, Γ', Λ', h => by
    simp only [chk8E] at h
    cases hl : chk8E Δ nl fn Γ Λ ab l with
    | none => simp [hl] at h
    | some q =>
      obtain ⟨Γ1, Λ1⟩ := q
      simp only [hl] at h
      cases hi : chk8E Δ nl fn Γ1 Λ1 false i with
      | none => simp [hi] at h
      | some q2 =>
        obtain ⟨Γ2, Λ2⟩ := q2
        simp only [hi] at h
        exact .assignIndex _ _ _ l i v Γ1 Λ1 Γ2 Λ2 _ _ (chk8E_sound Δ l nl fn Γ Λ ab Γ1 Λ1 hl) (chk8E_sound Δ i nl fn Γ1 Λ1 false Γ2 Λ2 hi)
          (chk8E_sound Δ v nl fn Γ2 Λ2 false Γ' Λ' h)
  | .ifE c t e, nl, fn, Γ, Λ, ab, Γ', Λ', h => by
    simp only [chk8E] at h
    cases hc : chk8E Δ nl fn Γ Λ ab c with
    | none => simp [hc] at h
    | some q =>
      obtain ⟨Γ1, Λ1⟩ := q
      simp only [hc] at h
      obtain ⟨hcc, he⟩ := ifs h
      injection he with h1 h2; subst h1; subst h2
      simp only [Bool.and_eq_true] at hcc
      cases hb : chk8B Δ nl fn Γ1 Λ1 ab t with
      | none => simp [hb] at hcc
      | some z =>
        exact .ifE _ _ _ c t e Γ1 Λ1 z.1 z.2 (chk8E_sound Δ c nl fn Γ Λ ab Γ1 Λ1 hc) (chk8B_sound Δ t nl fn Γ1 Λ1 ab z.1 z.2 hb)
          (chk8O_sound Δ e nl fn Γ1 Λ1 ab hcc.2)
  | .whileE c b, nl, fn, Γ, Λ, ab, Γ', Λ', h => by
    simp only [chk8E] at h
    cases hc : chk8E Δ nl fn Γ Λ false c with
    | none => simp [hc] at h
    | some q =>
      obtain ⟨Γ1, Λ1⟩ := q
      simp only [hc] at h
      obtain ⟨hcc, he⟩ := ifs h
      injection he with h1 h2; subst h1; subst h2
      cases hb : chk8B Δ nl fn Γ1 Λ1 true b with
      | none => simp [hb] at hcc
      | some z => exact .whileE _ _ _ c b Γ1 Λ1 z.1 z.2 (chk8E_sound Δ c nl fn Γ Λ false Γ1 Λ1 hc) (chk8B_sound Δ b nl fn Γ1 Λ1 true z.1 z.2 hb)
  | .call f as, nl, fn, Γ, Λ, ab, Γ', Λ', h => by
    simp only [chk8E] at h
    cases ha : chk8Es Δ nl fn Γ Λ as with
    | none => simp [ha] at h
    | some q =>
      obtain ⟨Γ1, Λ1⟩ := q
      simp only [ha] at h
      exact .call _ _ _ f as Γ1 Λ1 _ _ (chk8Es_sound Δ as nl fn Γ Λ Γ1 Λ1 ha) (chk8E_sound Δ f nl fn Γ1 Λ1 false Γ' Λ' h)
  | .func fid self ps nlf body, nl, fn, Γ, Λ, ab, Γ', Λ', h => by
    simp only [chk8E] at h
    obtain ⟨hc, he⟩ := ifo h
    simp only [Bool.and_eq_true, List.all_eq_true, decide_eq_true_eq] at hc
    obtain ⟨⟨h1, h2⟩, h3⟩ := hc
    cases hb : chk8B Δ nlf true Δ (paramScope ps) false body with
    | none => simp [hb] at h1
    | some z =>
      have hbody := chk8B_sound Δ body nlf true Δ (paramScope ps) false z.1 z.2 hb
      cases self with
      | none =>
        simp only at he
        injection he with he; injection he with e1 e2; subst e1; subst e2
        exact .func _ _ _ fid ps nlf body z.1 z.2 hbody (gamOKb_sound _ h2) h3
      | some r =>
        obtain ⟨b, slot⟩ := r
        cases slot with
        | global k =>
          simp only at he
          obtain ⟨hcc, hee⟩ := ifs he
          injection hee with e1 e2; subst e1; subst e2
          simp only [Bool.and_eq_true, Bool.not_eq_true'] at hcc
          exact .funcG _ _ _ fid b k ps nlf body z.1 z.2 hcc.1 (freshG_sound hcc.2) hbody (gamOKb_sound _ h2) h3
        | loc k =>
          simp only at he
          obtain ⟨hcc, hee⟩ := ifs he
          injection hee with e1 e2; subst e1; subst e2
          simp only [Bool.and_eq_true, decide_eq_true_eq] at hcc
          exact .funcL _ _ _ fid b k ps nlf body z.1 z.2 hcc.1.1 (freshG_sound hcc.1.2) hcc.2 hbody (gamOKb_sound _ h2) h3
theorem chk8Es_sound (Δ : Gam) : (es : RExprs) → ∀ (nl : Nat) (fn : Bool) (Γ Λ : Gam) (Γ' Λ' : Gam),
    chk8Es Δ nl fn Γ Λ es = some (Γ', Λ') → Z8Es Δ nl fn Γ Λ es Γ' Λ'
  | .nil, nl, fn, Γ, Λ, Γ', Λ', h => by
    simp only [chk8Es] at h; injection h with h; injection h with h1 h2; subst h1; subst h2; exact .nil _ _
  | .cons e es, nl, fn, Γ, Λ, Γ', Λ', h => by
    simp only [chk8Es] at h
    cases he : chk8E Δ nl fn Γ Λ false e with
    | none => simp [he] at h
    | some q =>
      obtain ⟨Γ1, Λ1⟩ := q
      simp only [he] at h
      exact .cons _ _ e es Γ1 Λ1 _ _ (chk8E_sound Δ e nl fn Γ Λ false Γ1 Λ1 he) (chk8Es_sound Δ es nl fn Γ1 Λ1 Γ' Λ' h)
theorem chk8O_sound (Δ : Gam) : (o : ROptBlock) → ∀ (nl : Nat) (fn : Bool) (Γ Λ : Gam) (ab : Bool), chk8O Δ nl fn Γ Λ ab o = true → Z8O Δ nl fn Γ Λ ab o
  | .none, nl, fn, Γ, Λ, ab, _ => .none _ _ _
  | .some b, nl, fn, Γ, Λ, ab, h => by
    simp only [chk8O] at h
    cases hb : chk8B Δ nl fn Γ Λ ab b with
    | none => simp [hb] at h
    | some q => exact .some _ _ _ b q.1 q.2 (chk8B_sound Δ b nl fn Γ Λ ab q.1 q.2 hb)
theorem chk8S_sound (Δ : Gam) : (s : RStmt) → ∀ (nl : Nat) (fn : Bool) (Γ Λ : Gam) (ab : Bool) (Γ1 Λ1 : Gam), chk8S Δ nl fn Γ Λ ab s = some (Γ1, Λ1) →
    Z8S Δ nl fn Γ Λ ab s Γ1 Λ1
  | .expr e, nl, fn, Γ, Λ, ab, Γ1, Λ1, h => by
    simp only [chk8S] at h; exact .expr _ _ _ e _ _ (chk8E_sound Δ e nl fn Γ Λ ab Γ1 Λ1 h)
  | .letS ⟨b, .global k⟩ e, nl, fn, Γ, Λ, ab, Γ1, Λ1, h => by
    simp only [chk8S] at h
    obtain ⟨hc, he⟩ := ifo h
    simp only [Bool.and_eq_true, Bool.not_eq_true'] at hc
    exact .letG _ _ _ b k e _ _ hc.1 (freshG_sound hc.2) (chk8E_sound Δ e nl fn _ Λ ab Γ1 Λ1 he)
  | .letS ⟨b, .loc k⟩ e, nl, fn, Γ, Λ, ab, Γ1, Λ1, h => by
    simp only [chk8S] at h
    obtain ⟨hc, he⟩ := ifo h
    simp only [Bool.and_eq_true, decide_eq_true_eq] at hc
    exact .letL _ _ _ b k e _ _ hc.1.1 (freshG_sound hc.1.2) hc.2 (chk8E_sound Δ e nl fn Γ _ ab Γ1 Λ1 he)
  | .block b, nl, fn, Γ, Λ, ab, Γ1, Λ1, h => by
    simp only [chk8S] at h
    obtain ⟨hc, he⟩ := ifs h
    injection he with h1 h2; subst h1; subst h2
    cases hb : chk8B Δ nl fn Γ Λ ab b with
    | none => simp [hb] at hc
    | some q => exact .block _ _ _ b q.1 q.2 (chk8B_sound Δ b nl fn Γ Λ ab q.1 q.2 hb)
  | .brk, nl, fn, Γ, Λ, ab, Γ1, Λ1, h => by
    simp only [chk8S] at h
    obtain ⟨hc, he⟩ := ifs h
    injection he with h1 h2; subst h1; subst h2; subst hc; exact .brk _ _
  | .cont, nl, fn, Γ, Λ, ab, Γ1, Λ1, h => by
    simp only [chk8S] at h
    obtain ⟨hc, he⟩ := ifs h
    injection he with h1 h2; subst h1; subst h2; subst hc; exact .cont _ _
  | .ret e, nl, fn, Γ, Λ, ab, Γ1, Λ1, h => by
    simp only [chk8S] at h
    obtain ⟨hc, he⟩ := ifo h
    exact .ret _ _ _ e _ _ hc (chk8E_sound Δ e nl fn Γ Λ ab Γ1 Λ1 he)
theorem chk8B_sound (Δ : Gam) : (b : RBlock) → ∀ (nl : Nat) (fn : Bool) (Γ Λ : Gam) (ab : Bool) (Γ1 Λ1 : Gam), chk8B Δ nl fn Γ Λ ab b = some (Γ1, Λ1) →
    Z8B Δ nl fn Γ Λ ab b Γ1 Λ1
  | .nil, nl, fn, Γ, Λ, ab, Γ1, Λ1, h => by
    simp only [chk8B] at h; injection h with h; injection h with h1 h2; subst h1; subst h2; exact .nil _ _ _
  | .cons s b, nl, fn, Γ, Λ, ab, Γ1, Λ1, h => by
    simp only [chk8B] at h
    cases hs : chk8S Δ nl fn Γ Λ ab s with
    | none => simp [hs] at h
    | some q =>
      obtain ⟨Γ2, Λ2⟩ := q
      simp only [hs] at h
      exact .cons _ _ _ Γ2 Λ2 _ _ s b (chk8S_sound Δ s nl fn Γ Λ ab Γ2 Λ2 hs) (chk8B_sound Δ b nl fn Γ2 Λ2 ab Γ1 Λ1 h)
end

/-- a function literal (named or not) whose body is a function body of the fragment over the globals `Δ` -/
def chk8Fn (Δ : Gam) : RExpr → Bool
  | .func _ _ ps nlf body =>
    (chk8B Δ nlf true Δ (paramScope ps) false body).isSome && gamOKb (paramScope ps) && (paramScope ps).all (fun p => decide (p.2 < nlf))
  | _ => false

theorem chk8Fn_sound (Δ : Gam) (e : RExpr) (h : chk8Fn Δ e = true) :
    ∃ fid self ps nlf body Γb Λb, e = .func fid self ps nlf body ∧ Z8B Δ nlf true Δ (paramScope ps) false body Γb Λb ∧
      GamOK (paramScope ps) ∧ (∀ p ∈ paramScope ps, p.2 < nlf) := by
  cases e with
  | func fid self ps nlf body =>
    simp only [chk8Fn, Bool.and_eq_true, List.all_eq_true, decide_eq_true_eq] at h
    obtain ⟨⟨h1, h2⟩, h3⟩ := h
    cases hb : chk8B Δ nlf true Δ (paramScope ps) false body with
    | none => simp [hb] at h1
    | some z => exact ⟨fid, self, ps, nlf, body, z.1, z.2, rfl, chk8B_sound Δ body nlf true Δ (paramScope ps) false z.1 z.2 hb, gamOKb_sound _ h2, h3⟩
  | _ => simp [chk8Fn] at h

/-- top-level sequences: the persistent scope after a statement is the scope after its expression; a function statement and
    a function initialiser of a `stel` see their own names -/
def chkTop8 (Γ : Gam) : RBlock → Option Gam
  | .nil => some Γ
  | .cons s rest =>
    match s with
    | .letS ⟨b, .global k⟩ e =>
      if freshG Γ b k then
        match selfOf e with
        | some ⟨bf, .global kf⟩ =>
          if freshG ((b, k) :: Γ) bf kf && chk8Fn ((bf, kf) :: (b, k) :: Γ) e then chkTop8 ((bf, kf) :: (b, k) :: Γ) rest else none
        | _ =>
          match chk8E ((b, k) :: Γ) 0 false ((b, k) :: Γ) [] false e with
          | some (Γ1, _) => chkTop8 Γ1 rest
          | none => none
      else none
    | .letS ⟨_, .loc _⟩ _ => none
    | .block b => if (chk8B Γ 0 false Γ [] false b).isSome then chkTop8 Γ rest else none
    | .expr e =>
      match selfOf e with
      | some ⟨b, .global k⟩ => if freshG Γ b k && chk8Fn ((b, k) :: Γ) e then chkTop8 ((b, k) :: Γ) rest else none
      | _ =>
        match chk8E Γ 0 false Γ [] false e with
        | some (Γ1, _) => chkTop8 Γ1 rest
        | none => none
    | .ret _ => none
    | .brk => none
    | .cont => none

theorem chkTop8_letS_plain {Γ Γ' : Gam} {b k : Nat} {e : RExpr} {rest : RBlock} (hf : freshG Γ b k = true)
    (ih : ∀ Γ1, chkTop8 Γ1 rest = some Γ' → ∀ (pos : Nat) (cs : List Const), ∃ D, ZTop8 Γ1 rest pos cs D Γ')
    (h : (match chk8E ((b, k) :: Γ) 0 false ((b, k) :: Γ) [] false e with
          | some (Γ1, _) => chkTop8 Γ1 rest
          | none => none) = some Γ') (pos : Nat) (cs : List Const) :
    ∃ D, ZTop8 Γ (.cons (.letS ⟨b, .global k⟩ e) rest) pos cs D Γ' := by
  cases he : chk8E ((b, k) :: Γ) 0 false ((b, k) :: Γ) [] false e with
  | none => simp [he] at h
  | some q =>
    obtain ⟨Γ1, Λ1⟩ := q
    simp only [he] at h
    obtain ⟨D, hD⟩ := ih Γ1 h (pos + sizeS (.letS ⟨b, .global k⟩ e)) (emitS (.letS ⟨b, .global k⟩ e) pos none cs).2
    exact ⟨_, .stmt Γ _ Γ1 Γ' _ rest pos cs D (.letS Γ Γ1 Λ1 b k e (freshG_sound hf) (chk8E_sound _ e _ _ _ _ _ _ _ he)) hD⟩

theorem chkTop8_expr_plain {Γ Γ' : Gam} {e : RExpr} {rest : RBlock}
    (ih : ∀ Γ1, chkTop8 Γ1 rest = some Γ' → ∀ (pos : Nat) (cs : List Const), ∃ D, ZTop8 Γ1 rest pos cs D Γ')
    (h : (match chk8E Γ 0 false Γ [] false e with
          | some (Γ1, _) => chkTop8 Γ1 rest
          | none => none) = some Γ') (pos : Nat) (cs : List Const) :
    ∃ D, ZTop8 Γ (.cons (.expr e) rest) pos cs D Γ' := by
  cases he : chk8E Γ 0 false Γ [] false e with
  | none => simp [he] at h
  | some q =>
    obtain ⟨Γ1, Λ1⟩ := q
    simp only [he] at h
    obtain ⟨D, hD⟩ := ih Γ1 h (pos + sizeS (.expr e)) (emitS (.expr e) pos none cs).2
    exact ⟨_, .stmt Γ _ Γ1 Γ' _ rest pos cs D (.exprS Γ Γ1 Λ1 e (chk8E_sound _ e _ _ _ _ _ _ _ he)) hD⟩

theorem chkTop8_sound : ∀ (b : RBlock) (Γ Γ' : Gam), chkTop8 Γ b = some Γ' → ∀ (pos : Nat) (cs : List Const), ∃ D, ZTop8 Γ b pos cs D Γ'
  | .nil, Γ, Γ', h, pos, cs => by simp only [chkTop8] at h; injection h with h; subst h; exact ⟨[], .nil _ _ _⟩
  | .cons (.letS ⟨b, .global k⟩ e) rest, Γ, Γ', h, pos, cs => by
    simp only [chkTop8] at h
    obtain ⟨hf, h⟩ := ifo h
    have ih := fun Γ1 => chkTop8_sound rest Γ1 Γ'
    cases hself : selfOf e with
    | none => simp only [hself] at h; exact chkTop8_letS_plain hf ih h pos cs
    | some r =>
      obtain ⟨bf, slot⟩ := r
      cases slot with
      | loc kf => simp only [hself] at h; exact chkTop8_letS_plain hf ih h pos cs
      | global kf =>
        simp only [hself] at h
        obtain ⟨hc, h2⟩ := ifo h
        clear h
        simp only [Bool.and_eq_true] at hc
        obtain ⟨fid, self, ps, nlf, body, Γb, Λb, he, hb, hpok, hpsz⟩ := chk8Fn_sound _ e hc.2
        subst he
        simp only [selfOf] at hself
        subst hself
        obtain ⟨D, hD⟩ := ih _ h2 (pos + sizeS (.letS ⟨b, .global k⟩ (.func fid (some ⟨bf, .global kf⟩) ps nlf body)))
          (emitS (.letS ⟨b, .global k⟩ (.func fid (some ⟨bf, .global kf⟩) ps nlf body)) pos none cs).2
        exact ⟨_, .stmt Γ _ _ Γ' _ rest pos cs D (.letFdef Γ b k fid bf kf ps nlf body Γb Λb (freshG_sound hf) (freshG_sound hc.1) hb hpok hpsz) hD⟩
  | .cons (.letS ⟨_, .loc _⟩ _) rest, Γ, Γ', h, pos, cs => by simp [chkTop8] at h
  | .cons (.block b) rest, Γ, Γ', h, pos, cs => by
    simp only [chkTop8] at h
    obtain ⟨hc, h⟩ := ifo h
    cases hb : chk8B Γ 0 false Γ [] false b with
    | none => simp [hb] at hc
    | some z =>
      obtain ⟨D, hD⟩ := chkTop8_sound rest Γ Γ' h (pos + sizeS (.block b)) (emitS (.block b) pos none cs).2
      exact ⟨_, .stmt Γ _ Γ Γ' _ rest pos cs D (.blockS Γ b z.1 z.2 (chk8B_sound Γ b 0 false Γ [] false z.1 z.2 hb)) hD⟩
  | .cons (.expr e) rest, Γ, Γ', h, pos, cs => by
    simp only [chkTop8] at h
    have ih := fun Γ1 => chkTop8_sound rest Γ1 Γ'
    cases hself : selfOf e with
    | none => simp only [hself] at h; exact chkTop8_expr_plain ih h pos cs
    | some r =>
      obtain ⟨b, slot⟩ := r
      cases slot with
      | loc k => simp only [hself] at h; exact chkTop8_expr_plain ih h pos cs
      | global k =>
        simp only [hself] at h
        obtain ⟨hc, h2⟩ := ifo h
        clear h
        simp only [Bool.and_eq_true] at hc
        obtain ⟨fid, self, ps, nlf, body, Γb, Λb, he, hb, hpok, hpsz⟩ := chk8Fn_sound _ e hc.2
        subst he
        simp only [selfOf] at hself
        subst hself
        obtain ⟨D, hD⟩ := ih _ h2 (pos + sizeS (.expr (.func fid (some ⟨b, .global k⟩) ps nlf body)))
          (emitS (.expr (.func fid (some ⟨b, .global k⟩) ps nlf body)) pos none cs).2
        exact ⟨_, .stmt Γ _ _ Γ' _ rest pos cs D (.fdef Γ fid b k ps nlf body Γb Λb (freshG_sound hc.1) hb hpok hpsz) hD⟩
  | .cons (.ret _) rest, Γ, Γ', h, pos, cs => by simp [chkTop8] at h
  | .cons .brk rest, Γ, Γ', h, pos, cs => by simp [chkTop8] at h
  | .cons .cont rest, Γ, Γ', h, pos, cs => by simp [chkTop8] at h

/-- the whole validation of a resolved program: membership in the stage-8 fragment. (That the function ids of all literals
    are pairwise distinct, and their entry points too, is PROVED for every output of the resolver.) -/
def inFragment8 (p : RBlock) : Bool := (chkTop8 [] p).isSome

theorem inFragment8_sound (p : RBlock) (h : inFragment8 p = true) : ∃ Γ' D, ZTop8 [] p 0 [] D Γ' := by
  unfold inFragment8 at h
  cases hc : chkTop8 [] p with
  | none => simp [hc] at h
  | some Γ' =>
    obtain ⟨D, hD⟩ := chkTop8_sound p [] Γ' hc 0 []
    exact ⟨Γ', D, hD⟩

/-- the function ids of all literals of a resolved program are pairwise distinct -/
theorem resolve_fids_distinct8 (ast : Block) (r : RBlock) (h : resolveProgram ast = .ok r) {Γ Γ' : Gam} {pos : Nat} {cs : List Const}
    {D : List (Nat × FnInfo)} (hy : ZTop8 Γ r pos cs D Γ') : D.Pairwise (fun x y => x.1 ≠ y.1) := by
  unfold resolveProgram at h
  cases hr : resolveSs ast {} with
  | error er => simp [hr] at h
  | ok q =>
    obtain ⟨b, st'⟩ := q
    simp only [hr] at h
    injection h with h; subst h
    have hfs := (fSs ast {} b st' hr).2.2
    rw [← ztop8_fids hy] at hfs
    rw [List.pairwise_map] at hfs
    exact hfs.imp (fun h => Nat.ne_of_lt h)

/-- END TO END FROM SOURCE TREES, stage 8, by validation: for any parsed program, if the resolved tree the resolver
    model produces passes the (decidable) fragment check `inFragment8` — function literals, NAMED OR NOT, in every
    expression position — then compiling and running it — with a collection at every return — agrees with the
    definitional semantics: same deep view of the result, same printed output, same error after the same output; or the
    machine stops at its stack/frame limit -/
theorem program8 (ast : Block) (r : RBlock) (bc : Bytecode) (hc : compileProgram ast = .ok (r, bc)) (hin : inFragment8 r = true) (F : Nat) :
    HitsLimit bc ∨
    match evalB F r {} with
    | .val () st' => ∃ mv n s', (∀ k, runSteps bc.code (n + k) (VM.start {} bc) = .value mv s') ∧
        s'.mem.heap.tree treeDepth [] mv = st'.tree treeDepth [] st'.last ∧ s'.out = st'.out ∧
        (finishValue mv s').mem.heap.tree treeDepth [] mv = s'.mem.heap.tree treeDepth [] mv
    | .err er ste => ∃ n s', (∀ k, runSteps bc.code (n + k) (VM.start {} bc) = .error er s') ∧ s'.out = ste.out
    | .brk _ => False
    | .cont _ => False
    | .ret _ _ => False
    | _ => True := by
  obtain ⟨Γ', D, hy⟩ := inFragment8_sound r hin
  unfold compileProgram at hc
  cases hr : resolveProgram ast with
  | error e => simp [hr] at hc
  | ok r' =>
    simp only [hr] at hc
    cases hcr : compileR r' with
    | error e => simp [hcr] at hc
    | ok bc' =>
      simp only [hcr] at hc
      injection hc with hc; injection hc with h1 h2; subst h1; subst h2
      exact top_program8 r' D Γ' hy (resolve_fids_distinct8 ast r' hr hy) bc' hcr F

/-- THE OBSERVATION ITSELF, stage 8: for a text whose resolved tree lies in the fragment, whatever the definitional
    semantics answers with some fuel (a value with its printed output, or an error after its printed output) is
    exactly what `eval` answers on the machine for every large enough instruction budget — collections at every
    return, the hand-over of the result at `Halt` and the release of everything else included — unless the machine
    stops at its stack/frame limit -/
theorem eval_text8 (cc : CharClass) (src : Text) (ast : Block) (r : RBlock) (bc : Bytecode) (hp : parse cc src = .ok ast)
    (hc : compileProgram ast = .ok (r, bc)) (hin : inFragment8 r = true) (F : Nat) :
    TextHitsLimit cc src ∨
    match specText cc F src with
    | .value t out => ∃ n, ∀ k, evalText cc (n + k) src = .value t out
    | .error e out => ∃ n, ∀ k, evalText cc (n + k) src = .error e out
    | .fault _ => False
    | _ => True := by
  have hsim := program8 ast r bc hc hin F
  have hres : resolveProgram ast = .ok r := by
    unfold compileProgram at hc
    cases hr : resolveProgram ast with
    | error e => simp [hr] at hc
    | ok r' =>
      simp only [hr] at hc
      cases hcr : compileR r' with
      | error e => simp [hcr] at hc
      | ok bc' => simp only [hcr] at hc; injection hc with hc; injection hc with h1 h2; rw [h1]
  rcases hsim with hlim | hsim
  · exact .inl (TextHitsLimit.of hp hc hlim)
  right
  simp only [specText, hp, hres, Spec.evalProgram]
  cases hr : evalB F r {} with
  | val u st' =>
    rw [hr] at hsim
    obtain ⟨mv, n, s', hn, ht, ho, hf⟩ := hsim
    refine ⟨n, fun k => ?_⟩
    simp only [evalText, hp, hc, VM.run, hn k]
    rw [hf, ht]
    have : (finishValue mv s').out = s'.out := rfl
    rw [this, ho]
  | err er ste =>
    rw [hr] at hsim
    obtain ⟨n, s', hn, ho⟩ := hsim
    refine ⟨n, fun k => ?_⟩
    simp only [evalText, hp, hc, VM.run, hn k]
    have : (finishError s').out = s'.out := rfl
    rw [this, ho]
  | fuel => trivial
  | brk _ => rw [hr] at hsim; exact hsim.elim
  | cont _ => rw [hr] at hsim; exact hsim.elim
  | ret _ _ => rw [hr] at hsim; exact hsim.elim
  | unspec _ => trivial

end Sim8
end Nl
