/-
  C04 — garbage is reclaimed and a finished run leaves nothing behind.
-/
import Nlmodel.Proofs.Lemmas.GCReach
import Nlmodel.Proofs.Lemmas.GCPrecise
import Nlmodel.Proofs.Lemmas.NoDangle
import Nlmodel.Proofs.Lemmas.ManagedInv
import Nlmodel.Proofs.Lemmas.TypeInv
import Nlmodel.Model.Pipeline
import Nlmodel.Proofs.Lemmas.Ledger
import Nlmodel.Proofs.Lemmas.CompileMemExample
namespace Nl
namespace C04
open GC

/-- after every collection the collector holds exactly the managed objects reachable from its
    roots: everything else it managed has been released -/
theorem C04_collect_precise (m : Mem) (roots : List Value) (hk : HeapKindOK m.heap)
    (hr : ∀ v ∈ roots, KindOK m.heap v) (hne : m.managed.isEmpty = false) (a : Nat) :
    a ∈ (run m roots).managed ↔ (a ∈ m.managed ∧ Reach m.heap m.managed roots a) :=
  collect_precise m roots hk hr hne a

/-- ... and what it released is really gone: an unreachable managed object is freed -/
theorem C04_garbage_released (m : Mem) (roots : List Value) (hk : HeapKindOK m.heap)
    (hr : ∀ v ∈ roots, KindOK m.heap v) (a : Nat) (hm : a ∈ m.managed) (hb : a < m.heap.cells.size)
    (hun : ¬ Reach m.heap m.managed roots a) :
    (run m roots).heap.isLive a = false :=
  garbage_released m roots hk hr a hm hb hun

/-- when the collector is dropped — at the end of a run, normal or not — everything it still
    manages is released and it manages nothing any more; unmanaged objects (the result graph handed
    over with `untrace`) are untouched -/
theorem C04_destroy_releases_all (m : Mem) :
    (destroy m).managed = [] ∧ (∀ a, a ∉ m.managed → (destroy m).heap.get a = m.heap.get a) := by
  refine ⟨rfl, fun a ha => freeAll_get_other _ _ _ ha⟩

theorem C04_destroy_frees (m : Mem) (a : Nat) (hm : a ∈ m.managed) (hb : a < m.heap.cells.size) :
    (destroy m).heap.isLive a = false := by
  have free_mem : ∀ (l : List Nat) (h : Heap), a ∈ l → a < h.cells.size → (freeAll h l).get a = .freed := by
    intro l
    induction l with
    | nil => intro h hmem; cases hmem
    | cons x l ih =>
      intro h hmem hsz
      simp only [freeAll, List.foldl_cons]
      by_cases hx : a ∈ l
      · have := ih (h.free x) hx (by simpa [Heap.free, Heap.set] using hsz)
        simpa [freeAll] using this
      · have hax : a = x := by cases List.mem_cons.1 hmem with | inl e => exact e | inr e => exact absurd e hx
        subst hax
        have := freeAll_get_other (h.free a) l a hx
        simp only [freeAll] at this
        rw [this]; exact free_get_self h a hsz
  unfold destroy Heap.isLive
  rw [free_mem _ _ hm hb]

/-- the exit paths of a run: an error at ANY step releases everything the run allocated
    (`finishError` = drop of the collector); a normal end releases everything but the result graph -/
theorem C04_error_exit_releases_all (s : VM) (a : Nat) (hm : a ∈ s.mem.managed) (hb : a < s.mem.heap.cells.size) :
    (finishError s).mem.heap.isLive a = false ∧ (finishError s).mem.managed = [] :=
  ⟨C04_destroy_frees s.mem a hm hb, rfl⟩

/-- IN EVERY STATE ANY RUN REACHES — any program, fresh machine or session, after any number of
    instructions, however the run ends — the collector's list names no address twice and names only
    allocated addresses: a sweep or the final drop releases each object at most once -/
theorem C04_managed_never_lists_twice (prev : VM) (bc : Bytecode) (n : Nat) :
    (runSteps bc.code n (prev.start bc)).MemP ManOK := run_manOK prev bc n

/-- the normal end of ANY run: handing the result over (`untrace`) and dropping the collector frees
    exactly what a collection with the result as its only root frees, and the collector is left empty -/
theorem C04_handover_is_collection (prev : VM) (bc : Bytecode) (n : Nat) (v : Value) (s : VM)
    (h : runSteps bc.code n (prev.start bc) = .value v s) :
    (finishValue v s).mem.heap = (GC.run s.mem [v]).heap ∧ (finishValue v s).mem.managed = [] := by
  have := run_manOK prev bc n
  rw [h] at this
  exact ⟨finish_is_collection s.mem v this.1, rfl⟩

/-- ... so everything the run allocated that is not part of the result is released -/
theorem C04_handover_releases_the_rest (prev : VM) (bc : Bytecode) (hp : TI.WT prev) (n : Nat) (v : Value) (s : VM)
    (h : runSteps bc.code n (prev.start bc) = .value v s)
    (a : Nat) (hm : a ∈ s.mem.managed) (hun : ¬ Reach s.mem.heap s.mem.managed [v] a) :
    (finishValue v s).mem.heap.isLive a = false := by
  have hwt := TI.run_wt prev bc hp n
  rw [h] at hwt
  obtain ⟨κ, hw, hv⟩ := hwt
  have hk := TI.heapKindOK hw.heap
  have hkv := TI.kindOK_of_valOK hw.heap v hv
  have hok := run_manOK prev bc n
  rw [h] at hok
  rw [(C04_handover_is_collection prev bc n v s h).1]
  exact C04_garbage_released s.mem [v] hk (fun w hw => by simp at hw; subst hw; exact hkv) a hm (hok.2 a hm) hun

/-- ... and the result stays valid after the interpreter is gone: its deep view (every nested array,
    string and float the caller can reach from it) is what it was at `Halt`, provided every live
    array of the heap is managed by this run's collector (true of a fresh machine; the hypotheses on
    value kinds are discharged by type soundness, `TI.run_wt`) -/
theorem C04_handover_keeps_result (prev : VM) (bc : Bytecode) (hp : TI.WT prev) (n : Nat) (v : Value) (s : VM)
    (h : runSteps bc.code n (prev.start bc) = .value v s)
    (harr : ∀ a, s.mem.heap.arrAt a ≠ [] → a ∈ s.mem.managed) (f : Nat) (p : List Nat) :
    (finishValue v s).mem.heap.tree f p v = s.mem.heap.tree f p v := by
  have hwt := TI.run_wt prev bc hp n
  rw [h] at hwt
  obtain ⟨κ, hw, hv⟩ := hwt
  have hk := TI.heapKindOK hw.heap
  have hkv := TI.kindOK_of_valOK hw.heap v hv
  have hok := run_manOK prev bc n
  rw [h] at hok
  exact finish_tree s.mem v hk hkv hok.1 harr f p

/-- C04 AT EVERY COLLECTION POINT OF EVERY RUN, without hypotheses on the heap: in any state a run of
    any program has reached, a collection whose roots are values the machine holds (the collections at
    `Return`/`ReturnValue` pass stack, constants, globals, the last-popped register and the result)
    keeps exactly the managed objects reachable from those roots and releases every other one -/
theorem C04_every_collection_of_every_run_is_precise (prev : VM) (bc : Bytecode) (hp : TI.WT prev) (s : VM)
    (hs : TI.Reachable bc.code (prev.start bc) s) (roots : List Value)
    (hroots : ∀ v, v ∈ roots → v ∈ s.stack.toList ++ s.cvals.toList ++ s.globals.toList ++ [s.last])
    (hne : s.mem.managed.isEmpty = false) (a : Nat) :
    (a ∈ (run s.mem roots).managed ↔ (a ∈ s.mem.managed ∧ Reach s.mem.heap s.mem.managed roots a)) ∧
    (a ∈ s.mem.managed → a < s.mem.heap.cells.size → ¬ Reach s.mem.heap s.mem.managed roots a → (run s.mem roots).heap.isLive a = false) := by
  obtain ⟨hk, hr⟩ := TI.wt_kinds (TI.reachable_wt bc.code _ (TI.start_wt prev bc hp) s hs)
  have hr' : ∀ v ∈ roots, KindOK s.mem.heap v := fun v hv => hr v (hroots v hv)
  exact ⟨C04_collect_precise s.mem roots hk hr' hne a, fun hm hb hun => C04_garbage_released s.mem roots hk hr' a hm hb hun⟩

/-- THE RESULT OUTLIVES THE INTERPRETER, for every program: when a run on a fresh machine ends with
    a value, then after the hand-over and the drop of the collector (a) the value's deep view — every
    nested array, string and float the caller can reach — is exactly what it was at `Halt`, (b) the
    collector manages nothing any more, and (c) every object the run allocated that the result does
    not reach has been released.  No hypothesis on the program or the heap. -/
theorem C04_result_outlives_the_interpreter (bc : Bytecode) (n : Nat) (v : Value) (s : VM)
    (h : runSteps bc.code n (({} : VM).start bc) = .value v s) :
    (∀ f p, (finishValue v s).mem.heap.tree f p v = s.mem.heap.tree f p v) ∧
    (finishValue v s).mem.managed = [] ∧
    (∀ a, a ∈ s.mem.managed → ¬ Reach s.mem.heap s.mem.managed [v] a → (finishValue v s).mem.heap.isLive a = false) := by
  have hsafe := ND.halt_safe bc n v s h
  have harr : ∀ a, s.mem.heap.arrAt a ≠ [] → a ∈ s.mem.managed := by
    intro a ha
    apply hsafe.1.hok.allm
    intro hf
    simp [Heap.arrAt, hf] at ha
  exact ⟨fun f p => C04_handover_keeps_result {} bc TI.wt_empty n v s h harr f p, rfl,
    fun a hm hun => C04_handover_releases_the_rest {} bc TI.wt_empty n v s h a hm hun⟩

/-! ### the whole-run ledger (`Lemmas/Ledger.lean`): every program, fresh machine, however the run ends -/

/-- A FAILED RUN LEAVES NOTHING BEHIND: when a run of ANY bytecode on a fresh machine ends with an error raised
    at any point, then after `run` has returned (the collector is dropped) NO cell of the heap is live —
    every object the run allocated, constants included, has been released — and the collector is empty. -/
theorem C04_failed_run_leaves_nothing (bc : Bytecode) (n : Nat) (e : Err) (s : VM)
    (h : runSteps bc.code n (({} : VM).start bc) = .error e s) :
    (∀ a, (finishError s).mem.heap.isLive a = false) ∧ (finishError s).mem.managed = [] :=
  Ledger.failed_run_leaves_nothing bc n e s h

/-- the same for a run ABANDONED after any number `n` of instructions (how the checks abort a run at every
    instruction k: "an error raised at any point of the run") -/
theorem C04_abandoned_run_leaves_nothing (bc : Bytecode) (n : Nat) (s : VM)
    (h : runSteps bc.code n (({} : VM).start bc) = .budget s) :
    (∀ a, (finishError s).mem.heap.isLive a = false) ∧ (finishError s).mem.managed = [] :=
  Ledger.abandoned_run_leaves_nothing bc n s h

/-- A NORMAL END LEAVES EXACTLY THE RESULT: after the hand-over and the drop a cell is live IF AND ONLY IF the
    result reaches it; what the result reaches is what it reached at `Halt`, cell by cell unchanged (hence the
    same deep view); the collector is empty.  Everything else the run allocated is gone. -/
theorem C04_normal_run_leaves_only_the_result (bc : Bytecode) (n : Nat) (v : Value) (s : VM)
    (h : runSteps bc.code n (({} : VM).start bc) = .value v s) :
    (∀ a, (finishValue v s).mem.heap.isLive a = true ↔ GC.RV (finishValue v s).mem.heap v a) ∧
    (∀ a, GC.RV (finishValue v s).mem.heap v a ↔ GC.RV s.mem.heap v a) ∧
    (∀ a, GC.RV s.mem.heap v a → (finishValue v s).mem.heap.get a = s.mem.heap.get a) ∧
    (∀ f p, (finishValue v s).mem.heap.tree f p v = s.mem.heap.tree f p v) ∧
    (finishValue v s).mem.managed = [] :=
  Ledger.normal_run_leaves_only_the_result bc n v s h

/-- THE CALLER CAN RELEASE THE RESULT WITHOUT ANYTHING REMAINING OR BEING RELEASED TWICE: the cells the result
    reaches, listed once each (`GC.reachable`, duplicate-free, exactly the live cells), can be released one
    after the other — each is live when its turn comes — and afterwards no cell is live at all. -/
theorem C04_caller_releases_result (bc : Bytecode) (n : Nat) (v : Value) (s : VM)
    (h : runSteps bc.code n (({} : VM).start bc) = .value v s)
    (f : Nat) (hfuel : (finishValue v s).mem.heap.cells.size < f) :
    (GC.reachable (finishValue v s).mem.heap f [] v).Nodup ∧
    (∀ a, a ∈ GC.reachable (finishValue v s).mem.heap f [] v ↔ (finishValue v s).mem.heap.isLive a = true) ∧
    (∀ a, (Ledger.releaseAll (finishValue v s).mem.heap (GC.reachable (finishValue v s).mem.heap f [] v)).isLive a = false) ∧
    (∀ pre a post, GC.reachable (finishValue v s).mem.heap f [] v = pre ++ a :: post →
      (Ledger.releaseAll (finishValue v s).mem.heap pre).isLive a = true) := by
  obtain ⟨h1, _, h3, h4, h5⟩ := Ledger.caller_releases_result bc n v s h f hfuel
  exact ⟨h1, h3, h4, h5⟩

/-- EXACTLY ONCE, along any run (fresh machine or session): a cell that has been released is never live again
    and never managed again, so no later sweep or drop can release it a second time -/
theorem C04_released_exactly_once (prev : VM) (bc : Bytecode) (s1 : VM) (hr : TI.Reachable bc.code (prev.start bc) s1) (k : Nat) :
    (runSteps bc.code k s1).MemP (fun m =>
      s1.mem.heap.cells.size ≤ m.heap.cells.size ∧
      ∀ a, a < s1.mem.heap.cells.size → s1.mem.heap.isLive a = false → m.heap.isLive a = false ∧ a ∉ m.managed) :=
  Ledger.released_exactly_once prev bc s1 hr k

/-- the three exits of `VM.run` in one statement -/
theorem C04_run_ledger (bc : Bytecode) (n : Nat) :
    match VM.run {} bc n with
    | .value v s => (∀ a, s.mem.heap.isLive a = true ↔ GC.RV s.mem.heap v a) ∧ s.mem.managed = []
    | .error _ s => (∀ a, s.mem.heap.isLive a = false) ∧ s.mem.managed = []
    | .budget s => (∀ a, s.mem.heap.isLive a = false) ∧ s.mem.managed = []
    | .fault _ => True :=
  Ledger.run_ledger bc n

/-! ### the COMPILE phase (session 7, `Model/CompileMem.lean`, `Lemmas/CompileMem*.lean`)

`VM.start` pretends that the constant boxes (float and string literals) are allocated when the run starts.  The real compiler
allocates a box per literal OCCURRENCE while compiling, with its own collector; `add_constant` re-uses an equal pool entry (the fresh
box then stays with the compiler's collector: a duplicate); on success the pool boxes are untraced and handed to the `Bytecode`, the
run's collector registers them (`maybe_trace`) and releases them when the run ends; on failure `gc.destroy()` releases everything;
duplicates wait for the next failure or for the drop of the compiler.  `Model/CompileMem.lean` models exactly that on the heap/collector
model of `Model/GC.lean`; the occurrence list is proved faithful to the code generator for the WHOLE language. -/

/-- the float/string literal occurrences, in the order the code generator visits them, fed to the compile-phase memory machine,
    produce exactly the float/string part of the constant pool the compiler model emits (same entries, same order) -/
theorem C04_compile_occurrences_faithful (p : RBlock) (bc : Bytecode) (h : compileR p = .ok bc) :
    (CompileMem.compileAlloc (CompileMem.occB p)).pool.map Prod.fst = bc.consts.filter CompileMem.isHeap :=
  CompileMem.occ_faithful_compileR p bc h

/-- SUCCESS: after compiling any occurrence list, handing the pool over and dropping the compiler, every box allocated during
    compilation is either a pool box — live, unmanaged by the compiler, one per pool entry, pairwise distinct — or a duplicate,
    freed exactly once by the drop (each `free` hits a live cell); nothing else is live; the run's collector then manages exactly
    the pool boxes and its destruction frees each exactly once, after which no cell is live (`CompileMem.SuccessLedger`) -/
theorem C04_compile_phase_success (occ : List Const) :
    CompileMem.SuccessLedger occ (CompileMem.compileAlloc occ) (CompileMem.handOver (CompileMem.compileAlloc occ))
      (CompileMem.dropCompiler (CompileMem.handOver (CompileMem.compileAlloc occ)))
      (CompileMem.registerPool (CompileMem.dropCompiler (CompileMem.handOver (CompileMem.compileAlloc occ))).mem.heap (CompileMem.compileAlloc occ).pool) :=
  CompileMem.compile_ledger_success occ

/-- FAILURE after the k-th occurrence, for EVERY k: no cell stays live, every allocated box is freed exactly once, each `free`
    hits a live cell, the compiler keeps nothing -/
theorem C04_compile_phase_failure (occ : List Const) (k : Nat) :
    let w1 := CompileMem.compileAlloc (occ.take k)
    let w := CompileMem.failAfter k occ {}
    w.mem.heap.cells.size = ((occ.take k).filter CompileMem.isHeap).length ∧
    (∀ a, w.mem.heap.get a = .freed) ∧ w.log.Nodup ∧
    (∀ a, a ∈ w.log ↔ a < w.mem.heap.cells.size) ∧
    w.log = w1.mem.managed ∧ CompileMem.FreesLive w1.mem ∧
    w.mem.managed = [] ∧ w.pool = [] ∧ w.dups = [] ∧ w.handed = [] :=
  CompileMem.compile_ledger_failure occ k

/-- a RETAINED compiler: over any sequence of compilations, each succeeding or failing after k occurrences, duplicates are carried
    by a success, released (once) by the next failure or by the final drop; at the end every box is either handed over (live, never
    freed by the compiler) or in the log of frees exactly once (`CompileMem.SessionLedger`) -/
theorem C04_compile_phase_session (h0 : Heap) (cs : List CompileMem.Comp) :
    CompileMem.SessionLedger h0 cs { mem := { heap := h0, managed := [] } }
      (CompileMem.dropCompiler (CompileMem.runSession cs { mem := { heap := h0, managed := [] } })) :=
  CompileMem.compile_ledger_session h0 cs

end C04
end Nl
