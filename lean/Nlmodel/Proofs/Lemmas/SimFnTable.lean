/- Stage 4: the function table of a program: entries lie where the code is, entry points are distinct. -/
import Nlmodel.Proofs.Lemmas.SimFnPool
namespace Nl
namespace SimF
open Spec Sim

theorem fdef_emit_noheap {s : RStmt} {fid b k : Nat} {ps : List Nat} {nlf : Nat} {body : RBlock} (hd : FDef s fid b k ps nlf body)
    {Γb Λb Γ : Gam} (hyb : YB nlf true Γ (paramScope ps) false body Γb Λb) (pos : Nat) (cs : List Const) (h : NoHeap cs) :
    NoHeap (emitS s pos none cs).2 := by
  cases hd with
  | named => simp only [emitS, emitE]; exact addConst_noheap _ _ (nhB body hyb _ _ _ h) (.inr ⟨_, _, rfl⟩)
  | letS => simp only [emitS, emitE]; exact addConst_noheap _ _ (nhB body hyb _ _ _ h) (.inr ⟨_, _, rfl⟩)

theorem ytop_noheap {Γ : Gam} {b : RBlock} {pos : Nat} {cs : List Const} {Γ' : Gam} {D : List (Nat × FnInfo)}
    (hy : YTop Γ b pos cs Γ' D) : NoHeap cs → NoHeap (emitB b pos none cs).2 := by
  induction hy with
  | nil => intro h; simp only [emitB]; exact h
  | stmt Γ Γ1 Γ2 s rest pos cs D hs _ ih => intro h; simp only [emitB]; exact ih (nhS s hs pos none cs h)
  | fdef Γ Γ2 s rest pos cs D fid b k ps nlf body Γb Λb hd hf hyb _ _ _ ih =>
    intro h; simp only [emitB]; exact ih (fdef_emit_noheap hd hyb pos cs h)

theorem fdef_size {s : RStmt} {fid b k : Nat} {ps : List Nat} {nlf : Nat} {body : RBlock} (hd : FDef s fid b k ps nlf body) : 7 ≤ sizeS s := by
  cases hd with
  | named => simp only [sizeS, sizeE]; omega
  | letS => simp only [sizeS, sizeE]; omega

/-- the entry points of the functions a program defines lie inside its code, in increasing order -/
theorem ytop_ips {Γ : Gam} {b : RBlock} {pos : Nat} {cs : List Const} {Γ' : Gam} {D : List (Nat × FnInfo)}
    (hy : YTop Γ b pos cs Γ' D) : (∀ q ∈ D, pos + 3 ≤ q.2.ip) ∧ D.Pairwise (fun x y => x.2.ip ≠ y.2.ip) := by
  induction hy with
  | nil => exact ⟨fun q hq => (by cases hq), List.Pairwise.nil⟩
  | stmt Γ Γ1 Γ2 s rest pos cs D hs _ ih =>
    exact ⟨fun q hq => by have := ih.1 q hq; omega, ih.2⟩
  | fdef Γ Γ2 s rest pos cs D fid b k ps nlf body Γb Λb hd hf hyb _ _ _ ih =>
    have hsz := fdef_size hd
    refine ⟨?_, List.Pairwise.cons ?_ ih.2⟩
    · intro q hq
      rcases List.mem_cons.mp hq with rfl | hq
      · simp
      · have := ih.1 q hq; omega
    · intro q hq
      have := ih.1 q hq
      simp only; omega

/-- every function the program defines has its body where the table says, well formed -/
theorem ytop_fnok {W : World} {Γ : Gam} {b : RBlock} {pos : Nat} {cs : List Const} {Γ' : Gam} {D : List (Nat × FnInfo)}
    (hy : YTop Γ b pos cs Γ' D) : ∀ (fin : List Const), Ext (emitB b pos none cs).2 fin → PoolOK W.s0.cvals fin →
    CodeAt W.C pos (emitB b pos none cs).1 → ∀ q ∈ D, FnOK W q.2 := by
  induction hy with
  | nil => intro _ _ _ _ q hq; cases hq
  | stmt Γ Γ1 Γ2 s rest pos cs D hs _ ih =>
    intro fin hext hpool hcode q hq
    simp only [emitB] at hcode hext
    obtain ⟨_, hc2⟩ := hcode.append
    rw [emitS_size] at hc2
    exact ih fin hext hpool hc2 q hq
  | fdef Γ Γ2 s rest pos cs D fid b k ps nlf body Γb Λb hd hf hyb hpok hpsz _ ih =>
    intro fin hext hpool hcode q hq
    simp only [emitB] at hcode hext
    obtain ⟨hc1, hc2⟩ := hcode.append
    rw [emitS_size] at hc2
    rcases List.mem_cons.mp hq with rfl | hq
    · have hextS : Ext (emitS s pos none cs).2 fin := (emitB_ext rest _ _ _).trans hext
      have hbody : CodeAt W.C (pos + 3) (asFnBody body (emitB body (pos + 3) none cs).1) ∧ Ext (emitB body (pos + 3) none cs).2 (emitS s pos none cs).2 := by
        cases hd with
        | named =>
          simp only [emitS] at hc1 ⊢
          obtain ⟨hce, _⟩ := hc1.append
          obtain ⟨_, h2, _, hpl, _⟩ := func_layout fid (some ⟨b, .global k⟩) ps nlf body hce
          exact ⟨h2, by rw [hpl]; exact addConst_ext _ _⟩
        | letS =>
          simp only [emitS] at hc1 ⊢
          obtain ⟨hce, _⟩ := hc1.append
          obtain ⟨_, h2, _, hpl, _⟩ := func_layout fid none ps nlf body hce
          exact ⟨h2, by rw [hpl]; exact addConst_ext _ _⟩
      exact ⟨hbody.1, hpool.mono (hbody.2.trans hextS), ⟨Γb, Λb, hyb⟩, hpok, hpsz⟩
    · exact ih fin hext hpool hc2 q hq

/-! ### the function table of a program -/

def lookupD (D : List (Nat × FnInfo)) (fid : Nat) : Option FnInfo :=
  match D.find? (fun q => q.1 == fid) with
  | some q => some q.2
  | none => none

theorem lookupD_mem (D : List (Nat × FnInfo)) (fid : Nat) (info : FnInfo) (h : lookupD D fid = some info) : (fid, info) ∈ D := by
  unfold lookupD at h
  cases hf : D.find? (fun q => q.1 == fid) with
  | none => simp [hf] at h
  | some q =>
    simp only [hf, Option.some.injEq] at h
    have hm := List.mem_of_find?_eq_some hf
    have hk := List.find?_some hf
    simp only [beq_iff_eq] at hk
    subst hk; subst h
    exact hm

theorem lookupD_of_mem (D : List (Nat × FnInfo)) (hnd : D.Pairwise (fun x y => x.1 ≠ y.1)) (q : Nat × FnInfo) (hq : q ∈ D) :
    lookupD D q.1 = some q.2 := by
  induction D with
  | nil => cases hq
  | cons x rest ih =>
    rw [List.pairwise_cons] at hnd
    unfold lookupD
    rcases List.mem_cons.mp hq with rfl | hq'
    · simp
    · have hne : x.1 ≠ q.1 := hnd.1 q hq'
      have : (x.1 == q.1) = false := by simpa using hne
      simp only [List.find?_cons, this]
      exact ih hnd.2 hq'

end SimF
end Nl
