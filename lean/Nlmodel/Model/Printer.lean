/-
  The specification side of C07/C08: how a token list is spelled as text (`render`, with every
  separator choice the maximal-munch rule allows) and how a syntax tree is spelled as tokens
  (`printB`, with minimal parentheses for binary operators according to the DOCUMENTED precedence
  table — a constant of this file, not taken from the parser).
-/
import Nlmodel.Model.Parser
import Nlmodel.Model.Value
namespace Nl

/-! ## tokens → text (C08) -/

def Token.text : Token → Text
  | .ident s => s | .int s => s | .float s => s
  | .str s => '"' :: s ++ ['"']
  | .kwIf => ['a', 'l', 's'] | .kwElse => ['a', 'n', 'd', 'e', 'r', 's'] | .kwReturn => ['a', 'n', 't', 'w', 'o', 'o', 'r', 'd']
  | .kwFunc => ['f', 'u', 'n', 'c', 't', 'i', 'e'] | .kwWhile => ['z', 'o', 'l', 'a', 'n', 'g'] | .kwDeclare => ['s', 't', 'e', 'l']
  | .kwTrue => ['j', 'a'] | .kwFalse => ['n', 'e', 'e'] | .kwBreak => ['s', 't', 'o', 'p']
  | .kwContinue => ['v', 'o', 'l', 'g', 'e', 'n', 'd', 'e']
  | .lte => ['<', '='] | .gte => ['>', '='] | .eq => ['=', '='] | .neq => ['!', '=']
  | .and => ['&', '&'] | .or => ['|', '|']
  | .assign => ['='] | .semi => [';'] | .comma => [','] | .dot => ['.']
  | .lparen => ['('] | .rparen => [')'] | .lbrace => ['{'] | .rbrace => ['}']
  | .lbracket => ['['] | .rbracket => [']']
  | .bang => ['!'] | .lt => ['<'] | .gt => ['>'] | .minus => ['-'] | .plus => ['+']
  | .star => ['*'] | .slash => ['/'] | .caret => ['^'] | .percent => ['%']
  | .illegal => ['#'] | .eof => []

/-- word-like tokens: spelled with letters/digits/underscore -/
def Token.isWord : Token → Bool
  | .ident _ | .kwIf | .kwElse | .kwReturn | .kwFunc | .kwWhile | .kwDeclare | .kwTrue | .kwFalse
  | .kwBreak | .kwContinue => true
  | _ => false

def Token.isNum : Token → Bool
  | .int _ | .float _ => true
  | _ => false

/-- the maximal-munch clash relation: `a` directly followed by `b` would NOT lex as `a, b` -/
def needsSep (a b : Token) : Bool :=
  -- word followed by word or number: one longer word
  (a.isWord && (b.isWord || b.isNum))
  -- number followed by number: one longer number (or a different split)
  || (a.isNum && b.isNum)
  -- integer followed by '.': a float
  || (match a, b with | .int _, .dot => true | _, _ => false)
  -- = ! < > followed by a token that starts with '=': a two-character operator
  || ((a = .assign || a = .bang || a = .lt || a = .gt) && (b = .assign || b = .eq))
  -- '/' '/' : a comment
  || (a = .slash && b = .slash)

/-- separators the renderer may put between two tokens (index 0 = none) -/
def sepTable : List Text :=
  [[], [' '], ['\t'], ['\n'], [' ', ' '], ['\r', '\n'], [Char.ofNat 0x0B], [Char.ofNat 0x0C],
   [Char.ofNat 0x85], [Char.ofNat 0x200E], [Char.ofNat 0x200F], [Char.ofNat 0x2028], [Char.ofNat 0x2029],
   "// c\n".toList, "//\n".toList, " // x \"y\" z\n ".toList, "\n\n".toList,
   -- comments with multi-byte characters (byte length and character count differ by 1 and by many)
   "// é\n".toList, "// één → 😀 日本語\n".toList]

def sepAt (k : Nat) : Text := sepTable.getD (k % sepTable.length) [' ']

def startsWithSlash : Text → Bool
  | '/' :: _ => true
  | _ => false

/-- the separator actually written between `prev` and `t` for choice `k`: a blank is forced where
    the maximal-munch rule requires one, and before a comment that would otherwise fuse with `/` -/
def sepFor (prev : Option Token) (t : Token) (k : Nat) : Text :=
  let s := sepAt k
  match prev with
  | none => s
  | some p =>
    if s.isEmpty && needsSep p t then [' ']
    else if p = .slash && startsWithSlash s then ' ' :: s
    else s

/-- render tokens; `ks` chooses the separator before each token and the trailing one -/
def renderFrom : Option Token → List Token → List Nat → Text
  | prev, [], ks =>
    let s := sepAt (ks.headD 0)
    if prev = some .slash && startsWithSlash s then ' ' :: s else s
  | prev, t :: ts, ks => sepFor prev t (ks.headD 0) ++ t.text ++ renderFrom (some t) ts ks.tail

def render (ts : List Token) (ks : List Nat) : Text := renderFrom none ts ks

/-- string literal spelling: the inverse of `unescape` -/
def escape : Text → Text
  | [] => []
  | '"' :: r => '\\' :: '"' :: escape r
  | '\\' :: r => '\\' :: '\\' :: escape r
  | '\n' :: r => '\\' :: 'n' :: escape r
  | '\t' :: r => '\\' :: 't' :: escape r
  | c :: r => c :: escape r

/-! ## trees → tokens (C07) -/

/-- the DOCUMENTED operator table (README / property text): `* / %` above `+ -` above
    `< <= > >=` above `== !=` above `&& ||` above `=` -/
def docLevel : Op → Nat
  | .mul | .div | .mod => 6
  | .add | .sub => 5
  | .lt | .lte | .gt | .gte => 4
  | .eq | .neq => 3
  | .and | .or => 2
  | _ => 0

def opToken : Op → Token
  | .add => .plus | .sub => .minus | .mul => .star | .div => .slash | .mod => .percent
  | .gt => .gt | .gte => .gte | .lt => .lt | .lte => .lte | .eq => .eq | .neq => .neq
  | .and => .and | .or => .or | .not => .bang | .negate => .minus | .assign => .assign

/-- float literal spelling: the shortest round-trip decimal, with ".0" when it has no point -/
def floatLit (x : UInt64) : Text :=
  let d := F64.toDecimal x
  if d.contains '.' then d else d ++ ".0".toList

/-- expressions that may stand as an operand of a binary operator, a prefix operator, or before
    a call/index without parentheses, whatever follows -/
def isAtomic : Expr → Bool
  | .int _ | .float _ | .bool _ | .ident _ | .str _ | .arr _ | .call .. | .index .. => true
  | _ => false

/-- level of an expression as an operand: binary operators have their documented level,
    atomic expressions the maximum, everything else 0 (always parenthesised as an operand) -/
def level : Expr → Nat
  | .infix _ op _ => docLevel op
  | e => if isAtomic e then 100 else 0

def paren (ts : List Token) : List Token := .lparen :: ts ++ [.rparen]

/-- tokens that can begin a statement AND continue the previous expression: a separator (`;` or
    `,`) is mandatory before them -/
def continues : List Token → Bool
  | .lparen :: _ | .lbracket :: _ | .minus :: _ => true
  | _ => false

def braces (ts : List Token) : List Token := .lbrace :: ts ++ [.rbrace]

def printParams : List Text → List Token
  | [] => []
  | p :: ps => .ident p :: .comma :: printParams ps

mutual
/-- an expression in "top" position (statement, argument, parenthesised, block value, condition) -/
def printE : Expr → List Token
  | .int v => [.int (natToDec v.toNat)]
  | .float x => [.float (floatLit x)]
  | .bool b => [if b then .kwTrue else .kwFalse]
  | .str s => [.str (escape s)]
  | .ident n => [.ident n]
  | .infix l op r =>
    (if level l < docLevel op then paren (printE l) else printE l) ++ [opToken op] ++
    (if level r ≤ docLevel op then paren (printE r) else printE r)
  | .pre op r => opToken op :: (if isAtomic r then printE r else paren (printE r))
  | .assign l r =>
    printE l ++ [.assign] ++ (match r with | .assign .. => paren (printE r) | _ => printE r)
  | .ifE c t e => [.kwIf] ++ printE c ++ braces (printStmts t) ++ printO e
  | .whileE c b => [.kwWhile] ++ printE c ++ braces (printStmts b)
  | .func name ps body =>
    [.kwFunc] ++ (if name.isEmpty then [] else [.ident name]) ++ [.lparen] ++ printParams ps ++ [.rparen]
      ++ braces (printStmts body)
  | .call f as => printE f ++ [.lparen] ++ printArgs as ++ [.rparen]
  | .arr vs => [.lbracket] ++ printArgs vs ++ [.rbracket]
  | .index l i => printE l ++ [.lbracket] ++ printE i ++ [.rbracket]

/-- comma-separated list (a comma after every element: always safe) -/
def printArgs : Exprs → List Token
  | .nil => []
  | .cons e es => printE e ++ [.comma] ++ printArgs es

def printS : Stmt → List Token
  | .letS n e => [.kwDeclare, .ident n, .assign] ++ printE e ++ [.semi]
  | .ret e => [.kwReturn] ++ printE e ++ [.semi]
  | .expr e => printE e ++ [.semi]
  | .block b => braces (printStmts b) ++ [.semi]
  | .brk => [.kwBreak, .semi]
  | .cont => [.kwContinue, .semi]

def printStmts : Block → List Token
  | .nil => []
  | .cons s b => printS s ++ printStmts b

def printO : OptBlock → List Token
  | .none => []
  | .some b => [.kwElse] ++ braces (printStmts b)
end

/-- a whole program -/
def printProgram (b : Block) : List Token := printStmts b

end Nl
