/- A session in the control-flow fragment is ONE GROWING PROGRAM (C17): the value of the last line of the
   definitional session is the value of the single program made of all its lines. -/
import Nlmodel.Proofs.Lemmas.SimCtlSession
import Nlmodel.Proofs.Lemmas.SpecLast
import Nlmodel.Proofs.Lemmas.SpecMono
import Nlmodel.Proofs.Lemmas.ResolveDepth
namespace Nl
namespace SC
open Spec Sim

def blen : RBlock → Nat
  | .nil => 0
  | .cons _ b => blen b + 1

/-- a block followed by another: the first runs, then the second on the state it left -/
theorem evalB_append : ∀ (b1 b2 : RBlock) (F : Nat) (st : SState),
    evalB (F + blen b1) (b1.append b2) st =
      (match evalB (F + blen b1) b1 st with
       | .val () st1 => evalB F b2 st1
       | o => o)
  | .nil, b2, F, st => by
    simp only [RBlock.append, blen, Nat.add_zero]
    cases F with
    | zero => simp [evalB]
    | succ F => simp [evalB]
  | .cons s r1, b2, F, st => by
    simp only [RBlock.append, blen]
    rw [← Nat.add_assoc, evalB, evalB]
    cases hs : evalS (F + blen r1) s st with
    | val u st1 => simp only; exact evalB_append r1 b2 F st1
    | _ => rfl

theorem C17_resolve_concat_aux : (a : Block) → ∀ (b : Block) (st : RState),
    resolveSs (a.append b) st =
      (match resolveSs a st with
       | .error e => .error e
       | .ok (ra, st1) =>
         match resolveSs b st1 with
         | .error e => .error e
         | .ok (rb, st2) => .ok (RBlock.append ra rb, st2))
  | .nil, b, st => by
    simp only [Block.append, resolveSs]
    cases resolveSs b st with
    | error e => rfl
    | ok p => obtain ⟨rb, st2⟩ := p; rfl
  | .cons s a, b, st => by
    simp only [Block.append, resolveSs]
    cases resolveS s st with
    | error e => rfl
    | ok p =>
      obtain ⟨s', st1⟩ := p
      simp only
      rw [C17_resolve_concat_aux a b st1]
      cases resolveSs a st1 with
      | error e => rfl
      | ok q =>
        obtain ⟨ra, st2⟩ := q
        simp only
        cases resolveSs b st2 with
        | error e => rfl
        | ok r => obtain ⟨rb, st3⟩ := r; rfl

/-- the last statement of the block is an expression statement -/
def endsInExpr : RBlock → Bool
  | .nil => false
  | .cons (.expr _) .nil => true
  | .cons _ rest => endsInExpr rest

/-- for a block that ends in an expression statement the final `last` register does not depend on the initial one -/
theorem last_agree : ∀ (b : RBlock) (f : Nat) (s s' t t' : SState), endsInExpr b = true → SL.Eqv s s' →
    evalB f b s = .val () t → evalB f b s' = .val () t' → t.last = t'.last
  | .nil, _, _, _, _, _, he, _, _, _ => by simp [endsInExpr] at he
  | .cons x rest, f, s, s', t, t', he, hq, h1, h2 => by
    cases f with
    | zero => simp [evalB] at h1
    | succ f =>
      rw [evalB] at h1 h2
      have hs := (SL.all f).s x s s' hq
      cases r1 : evalS f x s <;> cases r2 : evalS f x s' <;> rw [r1, r2] at hs <;> simp only [SL.EqvR] at hs <;> rw [r1] at h1 <;> rw [r2] at h2
      all_goals try (simp at h1; done)
      rename_i u1 st1 u2 st1'
      simp only at h1 h2
      cases rest with
      | cons y more =>
        have he' : endsInExpr (.cons y more) = true := by
          cases x <;> simpa [endsInExpr] using he
        exact last_agree (.cons y more) f st1 st1' t t' he' hs.2 h1 h2
      | nil =>
        -- `x` is the final expression statement: it sets `last` to its value
        cases x with
        | expr e =>
          cases f with
          | zero => simp [evalS] at r1
          | succ f =>
            rw [evalS] at r1 r2
            have hev := (SL.all f).e e s s' hq
            cases q1 : evalE f e s <;> cases q2 : evalE f e s' <;> rw [q1, q2] at hev <;> simp only [SL.EqvR] at hev <;> rw [q1] at r1 <;> rw [q2] at r2
            all_goals try (simp at r1; done)
            simp only [Res.val.injEq, true_and] at r1 r2
            simp only [evalB, Res.val.injEq, true_and] at h1 h2
            rw [← h1, ← h2, ← r1, ← r2]
            exact hev.1
        | _ => simp [endsInExpr] at he

def joinB : List Block → Block
  | [] => .nil
  | a :: rest => a.append (joinB rest)

def joinR : List RBlock → RBlock
  | [] => .nil
  | a :: rest => a.append (joinR rest)

theorem rstate_eta (rs : RState) (h1 : rs.loopDepth = 0) (h2 : rs.funcDepth = 0) : { rs with loopDepth := 0, funcDepth := 0 } = rs := by
  cases rs; simp_all

/-- the statement proved along the definitional session -/
theorem concat_run (cc : CharClass) (F : Nat) (rs : RState) (st : SState) (srcs : List Text) (asts : List Block) (rbs : List RBlock)
    (stEnd : SState) (ts : List Tree) (h : SpecRun cc F rs st srcs asts rbs stEnd ts) :
    rs.loopDepth = 0 → rs.funcDepth = 0 →
    (∃ rsEnd, resolveSs (joinB asts) rs = .ok (joinR rbs, rsEnd)) ∧
    ∀ stc, SL.Eqv stc st → ∃ G stcEnd, evalB G (joinR rbs) stc = .val () stcEnd ∧ SL.Eqv stcEnd stEnd ∧
      (∀ rb, rbs.getLast? = some rb → endsInExpr rb = true → stcEnd.last = stEnd.last) := by
  induction h with
  | nil rs st =>
    intro _ _
    refine ⟨⟨rs, by simp [joinB, joinR, resolveSs]⟩, fun stc hq => ⟨1, stc, by simp [joinR, evalB], hq, ?_⟩⟩
    intro rb hrb; simp at hrb
  | cons rs rs' st st' stEnd src rest ast asts r rbs bc ts hp hsb hres hc hev hrest ih =>
    intro hl hf
    rw [rstate_eta rs hl hf] at hres
    have hsame := RD.dSs ast rs r rs' hres
    obtain ⟨⟨rsEnd, hresRest⟩, ihev⟩ := ih (hsame.1.trans hl) (hsame.2.trans hf)
    refine ⟨⟨rsEnd, ?_⟩, fun stc hq => ?_⟩
    · simp only [joinB, joinR]
      rw [C17_resolve_concat_aux ast (joinB asts) rs, hres]
      simp only [hresRest]
    · -- the first line on the concatenated program's state
      have hq0 : SL.Eqv stc { st with last := .null } := hq
      have h1 := (SL.all F).b r stc { st with last := .null } hq0
      rw [hev] at h1
      cases r1 : evalB F r stc <;> rw [r1] at h1 <;> simp only [SL.EqvR] at h1
      rename_i u st1c
      obtain ⟨G, stcEnd, hG, hqEnd, hlast⟩ := ihev st1c h1.2
      have hne1 : evalB F r stc ≠ .fuel := by rw [r1]; intro hx; cases hx
      have hne2 : evalB G (joinR rbs) st1c ≠ .fuel := by rw [hG]; intro hx; cases hx
      refine ⟨(G + F) + blen r, stcEnd, ?_, hqEnd, ?_⟩
      · simp only [joinR]
        rw [evalB_append r (joinR rbs) (G + F) stc]
        have e1 : G + F + blen r = F + (G + blen r) := by omega
        rw [e1, evalB_fuel_mono F (G + blen r) r stc hne1, r1]
        simp only
        rw [evalB_fuel_mono G F (joinR rbs) st1c hne2, hG]
      · intro rb hrb he
        cases rbs with
        | cons y more =>
          exact hlast rb (by simpa [List.getLast?_cons_cons] using hrb) he
        | nil =>
          -- the first line is the last one
          simp only [List.getLast?_singleton, Option.some.injEq] at hrb
          subst hrb
          cases hrest
          simp only [joinR, evalB] at hG
          cases G with
          | zero => simp [evalB] at hG
          | succ G =>
            simp only [evalB, Res.val.injEq, true_and] at hG
            subst hG
            exact last_agree r F stc { st with last := .null } st1c st' he hq0 r1 hev

theorem spec_last (cc : CharClass) (F : Nat) (rs : RState) (st : SState) (srcs : List Text) (asts : List Block) (rbs : List RBlock)
    (stEnd : SState) (ts : List Tree) (h : SpecRun cc F rs st srcs asts rbs stEnd ts) (hne : rbs ≠ []) :
    ts.getLast? = some (stEnd.tree treeDepth [] stEnd.last) := by
  induction h with
  | nil rs st => exact absurd rfl hne
  | cons rs rs' st st' stEnd src rest ast asts r rbs bc ts hp hsb hres hc hev hrest ih =>
    cases hrest with
    | nil => simp
    | cons _ _ _ _ _ _ _ _ _ _ _ _ _ _ _ _ _ _ _ =>
      rw [List.getLast?_cons_cons]
      exact ih (by simp)

/-- THE SESSION IS ONE GROWING PROGRAM (definitional side): the value of the last line of the definitional
    session equals the value the definitional semantics gives the single program made of all the lines,
    provided the last line ends in an expression statement (otherwise a session line has the value
    null while the single program keeps the value of an earlier line) -/
theorem session_is_one_program (cc : CharClass) (F : Nat) (srcs : List Text) (asts : List Block) (rbs : List RBlock)
    (stEnd : SState) (ts : List Tree) (h : SpecRun cc F {} {} srcs asts rbs stEnd ts) (hne : rbs ≠ [])
    (hexpr : ∀ rb, rbs.getLast? = some rb → endsInExpr rb = true) :
    ∃ rAll F' t out, resolveProgram (joinB asts) = .ok rAll ∧ Spec.evalProgram F' rAll = .value t out ∧ ts.getLast? = some t := by
  obtain ⟨⟨rsEnd, hres⟩, hev⟩ := concat_run cc F {} {} srcs asts rbs stEnd ts h rfl rfl
  obtain ⟨G, stcEnd, hG, hq, hlast⟩ := hev {} (SL.Eqv.refl _)
  refine ⟨joinR rbs, G, stEnd.tree treeDepth [] stEnd.last, stcEnd.out, ?_, ?_, spec_last cc F {} {} srcs asts rbs stEnd ts h hne⟩
  · unfold resolveProgram; rw [hres]
  · unfold Spec.evalProgram
    rw [hG]
    simp only
    have hl : stcEnd.last = stEnd.last := by
      cases hr : rbs.getLast? with
      | none => simp [List.getLast?_eq_none_iff] at hr; exact absurd hr hne
      | some rb => exact hlast rb hr (hexpr rb hr)
    rw [SL.tree_eq hq, hl]

end SC
end Nl
