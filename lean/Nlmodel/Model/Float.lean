/-
  IEEE-754 binary64 as exact rational arithmetic on `Nat`/`Int` — no hardware `Float` anywhere in
  the model, so every float operation is computable inside Lean's kernel.

  * `F64.ofRat`     : correctly rounded (nearest, ties to even) conversion of ±n/d
  * `add sub mul div rem neg lt le eq` : the IEEE operations through exact rationals
  * `parseDec`      : Rust's `f64::from_str` grammar (decimal, exponent, inf/nan), correctly rounded
  * `toDecimal`     : Rust's `Display for f64` (shortest round-trip digits, no exponent notation)
  All NaNs are one value for the model (`canonNaN`); observations never distinguish NaN payloads.
-/
namespace Nl
namespace F64

abbrev Bits := UInt64

def signBit : Nat := 2 ^ 63
def expMask : Nat := 0x7FF
def infBits : Nat := 0x7FF0000000000000
def canonNaN : Bits := 0x7FF8000000000000

def isNeg (b : Bits) : Bool := b.toNat ≥ signBit
def absBits (b : Bits) : Nat := b.toNat % signBit
def isNaN (b : Bits) : Bool := absBits b > infBits
def isInf (b : Bits) : Bool := absBits b = infBits
def isZero (b : Bits) : Bool := absBits b = 0
def isFinite (b : Bits) : Bool := absBits b < infBits

def mk (neg : Bool) (abs : Nat) : Bits := UInt64.ofNat (if neg then abs + signBit else abs)

def inf (neg : Bool) : Bits := mk neg infBits
def zero (neg : Bool) : Bits := mk neg 0

/-- magnitude of a finite float as numerator and power-of-two exponent: |x| = m * 2^e -/
def decode (b : Bits) : Nat × Int :=
  let a := absBits b
  let ef : Nat := a / 2 ^ 52
  let m : Nat := a % 2 ^ 52
  if ef = 0 then (m, -1074) else (2 ^ 52 + m, (ef : Int) - 1075)

/-- magnitude as a fraction n/d -/
def toFrac (b : Bits) : Nat × Nat :=
  let (m, e) := decode b
  if e ≥ 0 then (m * 2 ^ e.toNat, 1) else (m, 2 ^ (-e).toNat)

/-- floor(log2(n/d)) for n, d > 0 -/
def floorLog2Frac (n d : Nat) : Int :=
  let e0 : Int := (n.log2 : Int) - (d.log2 : Int)
  let ge : Bool := if e0 ≥ 0 then n ≥ d * 2 ^ e0.toNat else n * 2 ^ (-e0).toNat ≥ d
  if ge then e0 else e0 - 1

/-- correctly rounded magnitude bits of n/d (d > 0); result may be `infBits` on overflow -/
def roundMag (n d : Nat) : Nat :=
  if n = 0 then 0 else
  let e := floorLog2Frac n d
  let ee : Int := if e < -1022 then -1022 else e
  let shift : Int := 52 - ee
  let num := if shift ≥ 0 then n * 2 ^ shift.toNat else n
  let den := if shift ≥ 0 then d else d * 2 ^ (-shift).toNat
  let q := num / den
  let r := num % den
  let q' := if 2 * r > den || (2 * r = den && q % 2 = 1) then q + 1 else q
  let bits := (ee + 1022).toNat * 2 ^ 52 + q'
  -- for normal numbers q' ∈ [2^52, 2^53]: ((ee+1022) << 52) + q' = ((ee+1023) << 52) + (q' - 2^52);
  -- for the subnormal range ee = -1022 and q' < 2^52 is the mantissa itself.
  if bits ≥ infBits then infBits else bits

def ofRat (neg : Bool) (n d : Nat) : Bits := mk neg (roundMag n d)

/-- signed rational value of a finite float as (numerator : Int, denominator : Nat) -/
def toRat (b : Bits) : Int × Nat :=
  let (n, d) := toFrac b
  (if isNeg b then -(n : Int) else (n : Int), d)

def ofIntRat (n : Int) (d : Nat) (zeroNeg : Bool) : Bits :=
  if n = 0 then zero zeroNeg
  else ofRat (n < 0) n.natAbs d

def neg (x : Bits) : Bits := UInt64.ofNat ((x.toNat + signBit) % 2 ^ 64)

def add (x y : Bits) : Bits :=
  if isNaN x || isNaN y then canonNaN
  else if isInf x then (if isInf y && isNeg x != isNeg y then canonNaN else x)
  else if isInf y then y
  else
    let (a, b) := toRat x
    let (c, d) := toRat y
    -- exact sum; a zero sum is +0 unless both operands are negative zeros / negatives
    ofIntRat (a * d + c * b) (b * d) (isNeg x && isNeg y)

def sub (x y : Bits) : Bits := if isNaN y then canonNaN else add x (neg y)

def mul (x y : Bits) : Bits :=
  let s := isNeg x != isNeg y
  if isNaN x || isNaN y then canonNaN
  else if isInf x || isInf y then (if isZero x || isZero y then canonNaN else inf s)
  else
    let (a, b) := toFrac x
    let (c, d) := toFrac y
    ofRat s (a * c) (b * d)

def div (x y : Bits) : Bits :=
  let s := isNeg x != isNeg y
  if isNaN x || isNaN y then canonNaN
  else if isInf x then (if isInf y then canonNaN else inf s)
  else if isInf y then zero s
  else if isZero y then (if isZero x then canonNaN else inf s)
  else
    let (a, b) := toFrac x
    let (c, d) := toFrac y
    ofRat s (a * d) (b * c)

/-- `fmod`: exact, sign of the dividend -/
def rem (x y : Bits) : Bits :=
  if isNaN x || isNaN y || isInf x || isZero y then canonNaN
  else if isInf y then x
  else
    let (a, b) := toFrac x
    let (c, d) := toFrac y
    -- a/b mod c/d = ((a*d) mod (c*b)) / (b*d)
    ofRat (isNeg x) ((a * d) % (c * b)) (b * d)

def lt (x y : Bits) : Bool :=
  if isNaN x || isNaN y then false
  else if isZero x && isZero y then false
  else if isNeg x then (if isNeg y then absBits x > absBits y else true)
  else (if isNeg y then false else absBits x < absBits y)

def eq (x y : Bits) : Bool :=
  if isNaN x || isNaN y then false
  else if isZero x && isZero y then true
  else x.toNat = y.toNat

def le (x y : Bits) : Bool := lt x y || eq x y

/-- `i as f64` -/
def ofInt (i : Int) : Bits := ofIntRat i 1 false

/-- truncation toward zero of a finite float -/
def truncToInt (x : Bits) : Int :=
  let (n, d) := toFrac x
  let q : Int := (n / d : Nat)
  if isNeg x then -q else q

/-! ### decimal text → float (Rust `f64::from_str`) -/

def digitVal (c : Char) : Nat := c.toNat - 48

def digitsToNat (ds : List Char) : Nat := ds.foldl (fun acc c => acc * 10 + digitVal c) 0

def lowerAscii (c : Char) : Char := if 'A' ≤ c ∧ c ≤ 'Z' then Char.ofNat (c.toNat + 32) else c

/-- ±m × 10^e, correctly rounded -/
def ofDecimal (neg : Bool) (m : Nat) (e : Int) : Bits :=
  if m = 0 then zero neg
  else if e ≥ 0 then ofRat neg (m * 10 ^ e.toNat) 1
  else ofRat neg m (10 ^ (-e).toNat)

/-- Rust's grammar: [+-] (inf | infinity | nan | digits [. digits] [(e|E) [+-] digits]) with at least
    one digit in the mantissa.  `none` = parse error. -/
def parseDec (s : List Char) : Option Bits :=
  let (neg, s) := match s with
    | '-' :: r => (true, r)
    | '+' :: r => (false, r)
    | _ => (false, s)
  let low := s.map lowerAscii
  if low = "inf".toList || low = "infinity".toList then some (inf neg)
  else if low = "nan".toList then some canonNaN
  else
    let ip := s.takeWhile Char.isDigit
    let r := s.dropWhile Char.isDigit
    let (fp, r) := match r with
      | '.' :: r' => (r'.takeWhile Char.isDigit, r'.dropWhile Char.isDigit)
      | _ => ([], r)
    if ip.isEmpty && fp.isEmpty then none
    else
      let m := digitsToNat (ip ++ fp)
      let e0 : Int := -(fp.length : Int)
      match r with
      | [] => some (ofDecimal neg m e0)
      | c :: r' =>
        if c = 'e' || c = 'E' then
          let (eneg, r'') := match r' with
            | '-' :: t => (true, t)
            | '+' :: t => (false, t)
            | _ => (false, r')
          if r''.isEmpty || !r''.all Char.isDigit then none
          else
            let ev : Int := digitsToNat r''
            -- clamp absurd exponents (result is 0 or inf anyway); keeps the big-number arithmetic bounded
            let ev := if ev > 100000 then 100000 else ev
            some (ofDecimal neg m (e0 + (if eneg then -ev else ev)))
        else none

/-! ### float → shortest decimal text (Rust `Display for f64`) -/

def natToDigits (n : Nat) : List Char := (Nat.toDigits 10 n)

/-- the k-significant-digit correctly rounded decimal of n/d (n > 0): returns (digits as Nat, exponent10)
    meaning value ≈ D × 10^p with 10^(k-1) ≤ D ≤ 10^k. -/
def roundDigits (n d : Nat) (k : Nat) (fuel : Nat) : Nat × Int :=
  -- find p with 10^(k-1) ≤ n/d / 10^p < 10^k, start from an estimate and adjust
  let rec adjust (p : Int) : Nat → Int
    | 0 => p
    | f + 1 =>
      let (num, den) := if p ≥ 0 then (n, d * 10 ^ p.toNat) else (n * 10 ^ (-p).toNat, d)
      if num < den * 10 ^ (k - 1) then adjust (p - 1) f
      else if num ≥ den * 10 ^ k then adjust (p + 1) f
      else p
  let est : Int := (((n.log2 : Int) - (d.log2 : Int)) * 30103) / 100000 - (k : Int) + 1
  let p := adjust est fuel
  let (num, den) := if p ≥ 0 then (n, d * 10 ^ p.toNat) else (n * 10 ^ (-p).toNat, d)
  let q := num / den
  let r := num % den
  let q' := if 2 * r > den || (2 * r = den && q % 2 = 1) then q + 1 else q
  (q', p)

/-- shortest (digits, exponent) that parses back to the same bits -/
def shortest (x : Bits) : Nat × Int :=
  let (n, d) := toFrac x
  let rec go (k : Nat) : Nat → Nat × Int
    | 0 => roundDigits n d 17 8
    | f + 1 =>
      let (q, p) := roundDigits n d k 8
      if ofDecimal false q p = mk false (absBits x) then (q, p) else go (k + 1) f
  go 1 17

def stripTrailingZeros (q : Nat) (p : Int) : Nat → Nat × Int
  | 0 => (q, p)
  | f + 1 => if q ≠ 0 && q % 10 = 0 then stripTrailingZeros (q / 10) (p + 1) f else (q, p)

/-- Rust `f64::to_string()` -/
def toDecimal (x : Bits) : List Char :=
  if isNaN x then "NaN".toList
  else if isInf x then (if isNeg x then "-inf".toList else "inf".toList)
  else
    let sign := if isNeg x then ['-'] else []
    if isZero x then sign ++ ['0']
    else
      let (q0, p0) := shortest x
      let (q, p) := stripTrailingZeros q0 p0 20
      let ds := natToDigits q
      if p ≥ 0 then sign ++ ds ++ List.replicate p.toNat '0'
      else
        let k := (-p).toNat
        if ds.length > k then
          sign ++ ds.take (ds.length - k) ++ ['.'] ++ ds.drop (ds.length - k)
        else
          sign ++ "0.".toList ++ List.replicate (k - ds.length) '0' ++ ds

end F64
end Nl
