/- The model's finite tables in the format of `verif::tables()` (exhaustive table correspondence). -/
import Nlmodel.Driver.Proto
import Nlmodel.Model.Pipeline
namespace Nl

def tokName (t : Token) : String :=
  match t with
  | .ident _ => "Identifier" | .int _ => "Int" | .float _ => "Float" | .str _ => "String"
  | t => Token.show t

def precTokens : List Token :=
  [.assign, .or, .and, .lt, .gt, .lte, .gte, .eq, .neq, .plus, .minus, .slash, .star, .percent, .dot,
   .lparen, .lbracket, .semi, .comma, .rparen, .rbracket, .lbrace, .rbrace, .bang, .caret,
   .ident ['x'], .int ['1'], .float ['1', '.', '5'], .str ['s'], .kwIf]

def kwShow (w : String) : String :=
  match keywordOrIdent w.toList with
  | .ident s => "Identifier(\"" ++ String.ofList s ++ "\")"
  | t => Token.show t

def modelTables : String :=
  let ops := opcodeTable.map fun (b, n, ws) =>
    "opcode " ++ toString b ++ " " ++ n ++ " [" ++ ",".intercalate (ws.map toString) ++ "]"
  let precs := precTokens.map fun t => "prec " ++ tokName t ++ " " ++ toString t.prec
  let kws := ["als", "antwoord", "zolang", "anders", "functie", "stel", "ja", "nee", "volgende", "stop",
    "waar", "onwaar", "if", "else", "while", "return", "break", "continue", "print", "x"].map
    fun w => "keyword " ++ w ++ " " ++ kwShow w
  let bis := ["print", "type", "bool", "float", "int", "string", "lengte", "len", "str", "x"].map fun n =>
    match Builtin.resolve n.toList with
    | some b => "builtin " ++ n ++ " " ++ toString b.id
    | none => "builtin " ++ n ++ " none"
  let tys := [Obj.Ty.null, .int, .bool, .function, .float, .string, .array].map fun t =>
    "type " ++ t.name ++ " " ++ toString t.tag
  let rng := ["intrange " ++ toString MIN_INT ++ " " ++ toString MAX_INT]
  " ;; ".intercalate (ops ++ precs ++ kws ++ bis ++ tys ++ rng)

end Nl
