/- Stage 4: `als` and the loop lemma on frames. -/
import Nlmodel.Proofs.Lemmas.SimFnExpr2
namespace Nl
namespace SimF
open Spec Sim

section ctl
variable {W : World} {nl : Nat} {fn : Bool} {Γ Γx Λ : Gam} {ab : Bool} {st : SState} {pos : Nat} {lp : LoopCtx} {cs : List Const}
  {below : Array Value} {fr : List Frame} {locs ops g : Array Value} {l : Value}

theorem pe_if (f : Nat) (ih : PAll W f) (c : RExpr) (t : RBlock) (e : ROptBlock) (Γ1 Λ1 : Gam)
    (hc : YE nl fn Γ Λ ab c) (ht : YB nl fn Γ Λ ab t Γ1 Λ1) (he : YO nl fn Γ Λ ab e) (hsc : Sc W fn Γ Γx Λ)
    (hinv : Inv W (bigScope fn Γ Γx) Λ nl st locs g l)
    (hcode : CodeAt W.C pos (emitE (.ifE c t e) pos lp cs).1) (hpool : PoolOK W.s0.cvals (emitE (.ifE c t e) pos lp cs).2) :
    GoalV W (bigScope fn Γ Γx) Λ nl below fr fn ab lp pos locs ops g l (pos + sizeE (.ifE c t e)) ops st (evalE (f + 1) (.ifE c t e) st) := by
  simp only [emitE] at hcode hpool
  obtain ⟨hc1234, hce⟩ := hcode.append
  obtain ⟨hc123, hcj⟩ := hc1234.append
  obtain ⟨hc12, hct⟩ := hc123.append
  obtain ⟨hcc, hcjif⟩ := hc12.append
  have hsz : sizeE (.ifE c t e) = sizeE c + 3 + sizeBV t + 3 + sizeO e := by simp only [sizeE]; rfl
  have hcjif := hcjif.cast (b := pos + sizeE c) (by simp [emitE_size])
  have hct := hct.cast (b := pos + sizeE c + 3) (by simp [emitE_size, Instr.size]; omega)
  have hcj := hcj.cast (b := pos + sizeE c + 3 + sizeBV t) (by simp [emitE_size, Instr.size, codeSize_asValue]; omega)
  have hce := hce.cast (b := pos + sizeE c + 3 + sizeBV t + 3) (by simp [emitE_size, Instr.size, codeSize_asValue]; omega)
  have hpoolc : PoolOK W.s0.cvals (emitE c pos lp cs).2 := hpool.mono ((emitB_ext t _ _ _).trans (emitO_ext e _ _ _))
  have hpoolt : PoolOK W.s0.cvals (emitB t (pos + sizeE c + 3) lp (emitE c pos lp cs).2).2 := hpool.mono (emitO_ext e _ _ _)
  have ihc := ih.e nl fn Γ Γx Λ ab c hc st pos lp cs below fr locs ops g l hsc hinv hcc hpoolc
  rw [hsz]
  simp only [evalE]
  rcases ihc with ihc | ihc
  · exact .inl ihc
  cases hrc : evalE f c st with
  | val v st1 =>
    rw [hrc] at ihc
    obtain ⟨mv, hmv, locs1, g1, l1, n, hn, hinv1, ho1⟩ := ihc
    have herr : (∀ b, mv ≠ .bool b) → Fails W.C (mkS W.s0 pos below locs ops g l fr) .type := by
      intro hnb
      obtain ⟨s2, hs2⟩ := step_jif_err (s0 := W.s0) (below := below) (locs := locs1) (ops := ops) (g := g1) (l := l1) (fr := fr) hcjif hnb
      exact ⟨n, _, s2, hn, hs2⟩
    cases v with
    | bool bb =>
      rw [VR.bool_iff] at hmv
      subst hmv
      have hj := execN_step W.C n _ _ _ hn (step_jif hcjif)
      cases bb with
      | true =>
        simp only [↓reduceIte] at hj
        have iht := ih.bv nl fn Γ Γx Λ ab t Γ1 Λ1 ht st1 (pos + sizeE c + 3) lp _ below fr locs1 ops g1 l1 hsc hinv1 hct hpoolt
        have iht2 := iht.then_val (e2 := pos + (sizeE c + 3 + sizeBV t + 3 + sizeO e)) (fun mv locs' g' l' => by
          rw [step_jump hcj]; congr 2 <;> omega)
        exact iht2.prefix (n + 1) hj ho1
      | false =>
        simp only [Bool.false_eq_true, ↓reduceIte] at hj
        cases he with
        | none _ _ _ =>
          simp only [emitO] at hce
          refine .inr ⟨.null, trivial, locs1, g1, l1, n + 1 + 1, ?_, hinv1, ho1⟩
          have := execN_step W.C (n + 1) _ _ _ hj (step_null hce)
          rw [this]; simp only [sizeO]; congr 2; omega
        | some _ _ _ b Γ2 Λ2 hb =>
          simp only [emitO] at hce hpool
          have ihb := ih.bv nl fn Γ Γx Λ ab b Γ2 Λ2 hb st1 (pos + sizeE c + 3 + sizeBV t + 3) lp _ below fr locs1 ops g1 l1 hsc hinv1 hce hpool
          have : pos + sizeE c + 3 + sizeBV t + 3 + sizeBV b = pos + (sizeE c + 3 + sizeBV t + 3 + sizeO (.some b)) := by
            simp only [sizeO]; unfold sizeBV; omega
          rw [this] at ihb
          exact ihb.prefix (n + 1) hj ho1
    | null => rw [VR.null_iff] at hmv; subst hmv; exact .inr (herr (by simp))
    | int i => rw [VR.int_iff] at hmv; subst hmv; exact .inr (herr (by simp))
    | float x => cases mv <;> simp [VR] at hmv
    | str a => cases mv <;> simp [VR] at hmv
    | arr a => cases mv <;> simp [VR] at hmv
    | fn a b c d =>
      cases mv <;> simp only [VR] at hmv <;> try exact absurd hmv id
      exact .inr (herr (by simp))
  | err er st1 => rw [hrc] at ihc; exact .inr ihc
  | fuel => exact .inr trivial
  | unspec _ => exact .inr trivial
  | brk _ => rw [hrc] at ihc; exact .inr ihc
  | cont _ => rw [hrc] at ihc; exact .inr ihc
  | ret _ _ => rw [hrc] at ihc; exact .inr ihc

theorem pl_succ (f : Nat) (ih : PAll W f) : PL W (f + 1) := by
  intro nl fn Γ Γx Λ ab c b Γ1 Λ1 hc hb st pos lp cs below fr locs ops g l acc accv hacc hsc hinv hcode hpool
  obtain ⟨_, hcc, hjif, hcb, hjmp, hsz⟩ := while_layout c b hcode
  simp only [emitE] at hpool
  generalize hlp : (some (pos + 1, pos + 1 + sizeE c + 4 + sizeBV b + 3) : LoopCtx) = lp' at hcc hcb hpool
  have hpoolc : PoolOK W.s0.cvals (emitE c (pos + 1) lp' cs).2 := hpool.mono (emitB_ext b _ _ _)
  have ihc := ih.e nl fn Γ Γx Λ false c hc st (pos + 1) lp' cs below fr locs (ops.push accv) g l hsc hinv hcc hpoolc
  rw [hsz]
  simp only [evalLoop]
  rcases ihc with ihc | ihc
  · exact .inl ihc
  cases hrc : evalE f c st with
  | val v st1 =>
    rw [hrc] at ihc
    obtain ⟨mv, hmv, locs1, g1, l1, n, hn, hinv1, ho1⟩ := ihc
    have herr : (∀ b, mv ≠ .bool b) → Fails W.C (mkS W.s0 (pos + 1) below locs (ops.push accv) g l fr) .type := by
      intro hnb
      obtain ⟨s2, hs2⟩ := step_jif_err (s0 := W.s0) (below := below) (locs := locs1) (ops := ops.push accv) (g := g1) (l := l1) (fr := fr) hjif hnb
      exact ⟨n, _, s2, hn, hs2⟩
    cases v with
    | bool bb =>
      rw [VR.bool_iff] at hmv
      subst hmv
      have hj := execN_step W.C n _ _ _ hn (step_jif hjif)
      cases bb with
      | false =>
        simp only [Bool.false_eq_true, ↓reduceIte] at hj
        refine .inr ⟨accv, hacc, locs1, g1, l1, n + 1, ?_, hinv1, ho1⟩
        rw [hj]; congr 2; omega
      | true =>
        simp only [↓reduceIte] at hj
        have hp := execN_step W.C (n + 1) _ _ _ hj (step_pop (by simpa [Instr.size] using hjif.tail))
        have hp : execN W.C (n + 1 + 1) (mkS W.s0 (pos + 1) below locs (ops.push accv) g l fr) = some (mkS W.s0 (pos + 1 + sizeE c + 4) below locs1 ops g1 accv fr) := by
          rw [hp]
        have hinv1' : Inv W (bigScope fn Γ Γx) Λ nl { st1 with last := acc } locs1 g1 accv :=
          ⟨hinv1.relG, hinv1.relL, hacc, hinv1.size⟩
        have ihb := ih.bv nl fn Γ Γx Λ true b Γ1 Λ1 hb { st1 with last := acc } (pos + 1 + sizeE c + 4) lp' _ below fr locs1 ops g1 accv hsc hinv1' hcb hpool
        simp only
        rcases ihb with ihb | ihb
        · exact .inl (Ovf.after (n + 1 + 1) hp ihb)
        cases hrb : evalBV f b { st1 with last := acc } with
        | val w st2 =>
          rw [hrb] at ihb
          obtain ⟨mw, hmw, locs2, g2, l2, n2, hn2, hinv2, ho2⟩ := ihb
          have hjm := execN_step W.C n2 _ _ _ hn2 (step_jump hjmp)
          have ihl := ih.l nl fn Γ Γx Λ ab c b Γ1 Λ1 hc hb st2 pos lp cs below fr locs2 ops g2 l2 w mw hmw hsc hinv2 hcode
            (by simp only [emitE]; rw [hlp]; exact hpool)
          rw [hsz] at ihl
          exact (ihl.prefix (n2 + 1) hjm ho2).prefix (n + 1 + 1) hp ho1
        | brk st2 =>
          rw [hrb] at ihb
          obtain ⟨_, locs2, g2, l2, n2, hn2, hinv2, ho2⟩ := ihb
          refine .inr ⟨.null, trivial, locs2, g2, l2, n + 1 + 1 + n2, ?_, hinv2, by rw [ho2]; exact ho1⟩
          rw [execN_add W.C _ _ _ _ _ hp hn2, ← hlp]; simp only [brkT]; congr 2; omega
        | cont st2 =>
          rw [hrb] at ihb
          obtain ⟨_, locs2, g2, l2, n2, hn2, hinv2, ho2⟩ := ihb
          have hn2' : execN W.C n2 (mkS W.s0 (pos + 1 + sizeE c + 4) below locs1 ops g1 accv fr) = some (mkS W.s0 (pos + 1) below locs2 (ops.push .null) g2 l2 fr) := by
            rw [hn2, ← hlp]; rfl
          have ihl := ih.l nl fn Γ Γx Λ ab c b Γ1 Λ1 hc hb st2 pos lp cs below fr locs2 ops g2 l2 .null .null trivial hsc hinv2 hcode
            (by simp only [emitE]; rw [hlp]; exact hpool)
          rw [hsz] at ihl
          exact (ihl.prefix n2 hn2' ho2).prefix (n + 1 + 1) hp ho1
        | err er st2 => rw [hrb] at ihb; exact .inr (Fails.after (n + 1 + 1) hp ihb)
        | ret _ _ => rw [hrb] at ihb; exact .inr ⟨ihb.1, ihb.2.prefix (n + 1 + 1) hp ho1⟩
        | fuel => exact .inr trivial
        | unspec _ => exact .inr trivial
    | null => rw [VR.null_iff] at hmv; subst hmv; exact .inr (herr (by simp))
    | int i => rw [VR.int_iff] at hmv; subst hmv; exact .inr (herr (by simp))
    | float x => cases mv <;> simp [VR] at hmv
    | str a => cases mv <;> simp [VR] at hmv
    | arr a => cases mv <;> simp [VR] at hmv
    | fn a b c d =>
      cases mv <;> simp only [VR] at hmv <;> try exact absurd hmv id
      exact .inr (herr (by simp))
  | err er st1 => rw [hrc] at ihc; exact .inr ihc
  | fuel => exact .inr trivial
  | unspec _ => exact .inr trivial
  | brk _ => rw [hrc] at ihc; exact absurd ihc.1 (by simp)
  | cont _ => rw [hrc] at ihc; exact absurd ihc.1 (by simp)
  | ret _ _ => rw [hrc] at ihc; exact .inr ihc
end ctl

end SimF
end Nl
