/-
  Float SPECIAL VALUES, part 2: remainder (S4), comparisons (S5), signed zeros (S6) — for ALL bit
  patterns, by unfolding the model (`Model/Float.lean`).
-/
import Nlmodel.Model.Value
import Nlmodel.Proofs.Lemmas.FloatSpecialBase

namespace Nl
namespace FloatSpecial
open F64 F64R

/-! ## S4. remainder (`fmod`) -/

/-- `x % ±0 = NaN` for EVERY `x` -/
theorem S4_rem_zero_divisor {x y : Bits} (hy : isZero y = true) : rem x y = canonNaN :=
  rem_nan (.inr (.inr (.inr hy)))

/-- `±inf % y = NaN` for EVERY `y` -/
theorem S4_rem_inf_dividend {x y : Bits} (hx : isInf x = true) : rem x y = canonNaN :=
  rem_nan (.inr (.inr (.inl hx)))

/-- `x % ±inf = x` for finite `x` (bit-identical, so a zero keeps its sign) -/
theorem S4_rem_finite_inf {x y : Bits} (hx : isFinite x = true) (hy : isInf y = true) :
    rem x y = x := rem_inf_right hx hy

/-- `±0 % y = ±0` (the dividend itself) for finite non-zero `y` -/
theorem S4_rem_zero_dividend {x y : Bits} (hx : isZero x = true) (hy : isFinite y = true)
    (hyz : isZero y = false) : rem x y = x := by
  rw [rem_finite (zero_is_finite hx) hy hyz, mag_eq_zero.2 hx, Nat.zero_mod, ofRat_zero]
  exact (eq_zero_of_isZero hx).symm

/-- `±0 % y = ±0` for every `y` that is neither NaN nor zero (finite or infinite) -/
theorem S4_rem_zero_dividend' {x y : Bits} (hx : isZero x = true) (hy : isNaN y = false)
    (hyz : isZero y = false) : rem x y = x := by
  by_cases hi : isInf y = true
  · exact S4_rem_finite_inf (zero_is_finite hx) hi
  · exact S4_rem_zero_dividend hx (finite_of_not_nan_inf hy (by simpa using hi)) hyz

/-- whenever the remainder is a number (finite dividend, divisor neither NaN nor zero) it is finite
    and has the SIGN OF THE DIVIDEND — also when it is a zero (`-4.0 % 2.0 = -0.0`) -/
theorem S4_rem_sign {x y : Bits} (hx : isFinite x = true) (hy : isNaN y = false)
    (hyz : isZero y = false) :
    isNeg (rem x y) = isNeg x ∧ isFinite (rem x y) = true := by
  by_cases hi : isInf y = true
  · rw [S4_rem_finite_inf hx hi]; exact ⟨rfl, hx⟩
  · have hf := finite_of_not_nan_inf hy (by simpa using hi)
    exact ⟨rem_isNeg hx hf hyz, rem_isFinite hx hf hyz⟩

/-- exactly when `%` is NaN -/
theorem rem_isNaN_iff (x y : Bits) :
    isNaN (rem x y) = true ↔
      (isNaN x = true ∨ isNaN y = true ∨ isInf x = true ∨ isZero y = true) := by
  constructor
  · intro h
    rcases rem_table x y with ⟨h1, _⟩ | ⟨h1, _, h3⟩ | ⟨h1, h2, h3, _⟩
    · exact h1
    · rw [h3, finite_not_nan h1] at h; cases h
    · rw [finite_not_nan (rem_isFinite h1 h2 h3)] at h; cases h
  · intro h; rw [rem_nan h]; exact isNaN_canonNaN

/-! ## S5. comparisons

  `Model/Value.lean`: `floatCmp .lt a b = F64.lt a b`, `.lte = F64.le a b`, `.gt = F64.lt b a`,
  `.gte = F64.le b a`, `.eq = F64.eq a b`, `.neq = !F64.eq a b`, with `le a b = lt a b || eq a b`. -/

theorem S5_lt_nan {x y : Bits} (h : isNaN x = true ∨ isNaN y = true) : lt x y = false := by
  unfold lt; rcases h with h | h <;> simp [h]

theorem S5_eq_nan {x y : Bits} (h : isNaN x = true ∨ isNaN y = true) : F64.eq x y = false := by
  unfold F64.eq; rcases h with h | h <;> simp [h]

theorem S5_le_nan {x y : Bits} (h : isNaN x = true ∨ isNaN y = true) : le x y = false := by
  unfold le; rw [S5_lt_nan h, S5_eq_nan h]; rfl

/-- with a NaN operand (either side): `<  <=  >  >=  ==` are false and `!=` is true -/
theorem S5_floatCmp_nan {x y : Bits} (h : isNaN x = true ∨ isNaN y = true) :
    floatCmp .lt x y = false ∧ floatCmp .lte x y = false ∧ floatCmp .gt x y = false ∧
    floatCmp .gte x y = false ∧ floatCmp .eq x y = false ∧ floatCmp .neq x y = true := by
  have h' : isNaN y = true ∨ isNaN x = true := h.symm
  simp only [floatCmp, S5_lt_nan h, S5_lt_nan h', S5_le_nan h, S5_le_nan h', S5_eq_nan h,
    Bool.not_false, and_self]

/-- NaN is not even equal to itself; every other value is -/
theorem S5_eq_self (x : Bits) : F64.eq x x = !isNaN x := by
  unfold F64.eq; cases isNaN x <;> simp

/-- `+0 == -0` (all four combinations of zeros), and neither is smaller -/
theorem S5_zeros {x y : Bits} (hx : isZero x = true) (hy : isZero y = true) :
    F64.eq x y = true ∧ lt x y = false ∧ lt y x = false ∧ le x y = true ∧ le y x = true := by
  have nx := nan_not_zero (x := x)
  have ny := nan_not_zero (x := y)
  have hnx : isNaN x = false := by cases h : isNaN x with | false => rfl | true => rw [nx h] at hx; cases hx
  have hny : isNaN y = false := by cases h : isNaN y with | false => rfl | true => rw [ny h] at hy; cases hy
  unfold le lt F64.eq
  simp [hx, hy, hnx, hny]

theorem S5_zeros_floatCmp {x y : Bits} (hx : isZero x = true) (hy : isZero y = true) :
    floatCmp .lt x y = false ∧ floatCmp .lte x y = true ∧ floatCmp .gt x y = false ∧
    floatCmp .gte x y = true ∧ floatCmp .eq x y = true ∧ floatCmp .neq x y = false := by
  obtain ⟨h1, h2, h3, h4, h5⟩ := S5_zeros hx hy
  simp only [floatCmp, h1, h2, h3, h4, h5, Bool.not_true, and_self]

theorem absBits_inf (s : Bool) : absBits (inf s) = infBits := by cases s <;> decide

/-- `-inf <` every finite number `< +inf` -/
theorem S5_inf_bounds {y : Bits} (hy : isFinite y = true) :
    lt (inf true) y = true ∧ lt y (inf false) = true := by
  have hn := finite_not_nan hy
  have ha := finite_iff.1 hy
  constructor
  · unfold lt
    simp only [isNaN_inf, hn, isZero_inf, isNeg_inf, absBits_inf, Bool.or_self, Bool.false_and,
      Bool.false_eq_true, if_false, if_true]
    cases isNeg y <;> simp [ha]
  · unfold lt
    simp only [isNaN_inf, hn, isZero_inf, isNeg_inf, absBits_inf, Bool.or_self, Bool.and_false,
      Bool.false_eq_true, if_false]
    cases isNeg y <;> simp [ha]

/-- `-inf < +inf`; nothing is above `+inf` or below `-inf`; each infinity equals itself -/
theorem S5_inf_inf : lt (inf true) (inf false) = true ∧ lt (inf false) (inf true) = false ∧
    F64.eq (inf true) (inf true) = true ∧ F64.eq (inf false) (inf false) = true ∧
    F64.eq (inf true) (inf false) = false := by decide

theorem S5_nothing_above_inf (y : Bits) : lt (inf false) y = false := by
  unfold lt
  simp only [isNaN_inf, isZero_inf, isNeg_inf, absBits_inf, Bool.false_or, Bool.false_and,
    Bool.false_eq_true, if_false]
  by_cases hn : isNaN y = true
  · simp [hn]
  · have : absBits y ≤ infBits := isNaN_false_iff.1 (by simpa using hn)
    cases isNeg y <;> simp [hn] <;> omega

theorem S5_nothing_below_neg_inf (y : Bits) : lt y (inf true) = false := by
  unfold lt
  simp only [isNaN_inf, isZero_inf, isNeg_inf, absBits_inf, Bool.or_false, Bool.and_false,
    Bool.false_eq_true, if_false, if_true]
  by_cases hn : isNaN y = true
  · simp [hn]
  · have : absBits y ≤ infBits := isNaN_false_iff.1 (by simpa using hn)
    cases isNeg y <;> simp [hn] <;> omega

/-- on operands that are not NaN the six operators are the six relations of ONE strict total order
    (that of the exact values, `lt_eq_sval`): exactly one of `<`, `==`, `>` holds -/
theorem S5_trichotomy {x y : Bits} (hx : isNaN x = false) (hy : isNaN y = false) :
    (lt x y = true ∧ F64.eq x y = false ∧ lt y x = false) ∨
    (lt x y = false ∧ F64.eq x y = true ∧ lt y x = false) ∨
    (lt x y = false ∧ F64.eq x y = false ∧ lt y x = true) := by
  rw [lt_eq_sval hx hy, lt_eq_sval hy hx, eq_eq_sval hx hy]
  rcases Int.lt_trichotomy (sval x) (sval y) with h | h | h
  · left; simp; omega
  · right; left; simp; omega
  · right; right; simp; omega

/-- without NaN the float comparisons are derived from `lt`/`eq` exactly like those of the other
    types (`cmpBy`) -/
theorem S5_floatCmp_ordered (op : BinOp) {x y : Bits} (hx : isNaN x = false) (hy : isNaN y = false) :
    floatCmp op x y = cmpBy op (lt x y) (F64.eq x y) := by
  have hyx : F64.eq y x = F64.eq x y := by
    rw [eq_eq_sval hx hy, eq_eq_sval hy hx]; simp only [decide_eq_decide]; exact eq_comm
  rcases S5_trichotomy hx hy with ⟨a, b, c⟩ | ⟨a, b, c⟩ | ⟨a, b, c⟩ <;>
    cases op <;> simp [floatCmp, cmpBy, le, a, b, c, hyx]

/-! ## S6. signed zeros in arithmetic -/

theorem sval_zero_of_isZero {x : Bits} (h : isZero x = true) : sval x = 0 := by
  unfold sval; rw [mag_eq_zero.2 h]; cases isNeg x <;> rfl

/-- an exact zero sum of finite operands is `+0` unless both operands are negative (then both are
    `-0` and the sum is `-0`) -/
theorem S6_add_exact_zero {x y : Bits} (hx : isFinite x = true) (hy : isFinite y = true)
    (h : sval x + sval y = 0) : add x y = zero (isNeg x && isNeg y) := by
  rw [add_finite hx hy, if_pos h]

/-- `x + (-x) = +0` for every finite `x`, zeros included -/
theorem S6_add_neg_self {x : Bits} (hx : isFinite x = true) : add x (neg x) = zero false := by
  rw [S6_add_exact_zero hx (by rw [isFinite_neg]; exact hx) (by rw [sval_neg]; omega), isNeg_neg]
  cases isNeg x <;> rfl

/-- `x - x = +0` for every finite `x`, zeros included -/
theorem S6_sub_self {x : Bits} (hx : isFinite x = true) : sub x x = zero false := by
  rw [sub_eq_add_neg (finite_not_nan hx)]; exact S6_add_neg_self hx

/-- sum of two zeros: `-0` only for `(-0) + (-0)` -/
theorem S6_add_zeros {x y : Bits} (hx : isZero x = true) (hy : isZero y = true) :
    add x y = zero (isNeg x && isNeg y) :=
  S6_add_exact_zero (zero_is_finite hx) (zero_is_finite hy)
    (by rw [sval_zero_of_isZero hx, sval_zero_of_isZero hy]; rfl)

theorem S6_add_zero_consts (s t : Bool) : add (zero s) (zero t) = zero (s && t) := by
  rw [S6_add_zeros (isZero_zero s) (isZero_zero t), isNeg_zero, isNeg_zero]

/-- difference of two zeros: `-0` only for `(-0) - (+0)` -/
theorem S6_sub_zeros {x y : Bits} (hx : isZero x = true) (hy : isZero y = true) :
    sub x y = zero (isNeg x && !isNeg y) := by
  rw [sub_eq_add_neg (finite_not_nan (zero_is_finite hy)),
    S6_add_zeros hx (by rw [isZero_neg]; exact hy), isNeg_neg]

/-- `x + ±0 = x` for finite non-zero `x` (no rounding, no sign change) -/
theorem S6_add_zero_right {x y : Bits} (hx : isFinite x = true) (hxz : isZero x = false)
    (hy : isZero y = true) : add x y = x := by
  have hm : mag x ≠ 0 := fun hc => by rw [mag_eq_zero.1 hc] at hxz; cases hxz
  rw [add_finite hx (zero_is_finite hy), sval_zero_of_isZero hy, Int.add_zero]
  have hs : sval x ≠ 0 := by unfold sval; cases isNeg x <;> simp <;> omega
  rw [if_neg hs]
  have h1 : decide (sval x < 0) = isNeg x := by
    unfold sval; cases isNeg x <;> simp <;> omega
  have h2 : (sval x).natAbs = mag x := by unfold sval; cases isNeg x <;> simp
  rw [h1, h2]
  unfold ofRat
  have e := roundMag_exact (n := mag x) (a := absBits x) (two_pow_pos' 1074) (finite_iff.1 hx)
    (by unfold mag; exact Eq.refl _)
  exact (congrArg (mk (isNeg x)) e).trans (mk_self x)

/-- `±0 + x = x` for finite non-zero `x` -/
theorem S6_add_zero_left {x y : Bits} (hx : isZero x = true) (hy : isFinite y = true)
    (hyz : isZero y = false) : add x y = y := by
  have hm : mag y ≠ 0 := fun hc => by rw [mag_eq_zero.1 hc] at hyz; cases hyz
  rw [add_finite (zero_is_finite hx) hy, sval_zero_of_isZero hx, Int.zero_add]
  have hs : sval y ≠ 0 := by unfold sval; cases isNeg y <;> simp <;> omega
  rw [if_neg hs]
  have h1 : decide (sval y < 0) = isNeg y := by
    unfold sval; cases isNeg y <;> simp <;> omega
  have h2 : (sval y).natAbs = mag y := by unfold sval; cases isNeg y <;> simp
  rw [h1, h2]
  unfold ofRat
  have e := roundMag_exact (n := mag y) (a := absBits y) (two_pow_pos' 1074) (finite_iff.1 hy)
    (by unfold mag; exact Eq.refl _)
  exact (congrArg (mk (isNeg y)) e).trans (mk_self y)

/-- a zero factor times a finite number: the zero whose sign is the xor of the signs -/
theorem S6_mul_zero {x y : Bits} (hx : isFinite x = true) (hy : isFinite y = true)
    (hz : isZero x = true ∨ isZero y = true) : mul x y = zero (isNeg x != isNeg y) :=
  mul_finite_zero hx hy hz

/-- a zero divided by anything but NaN and zero (finite or infinite): the zero of the xor sign -/
theorem S6_div_zero_numerator {x y : Bits} (hx : isZero x = true) (hy : isNaN y = false)
    (hyz : isZero y = false) : div x y = zero (isNeg x != isNeg y) := by
  by_cases hi : isInf y = true
  · exact S2_div_finite_inf (zero_is_finite hx) hi
  · rw [div_finite (zero_is_finite hx) (finite_of_not_nan_inf hy (by simpa using hi)) hyz,
      mag_eq_zero.2 hx, ofRat_zero]

/-- every zero result of `*` and `/` on numbers carries the xor sign; in fact EVERY non-NaN result
    of `*` and `/` does -/
theorem S6_mul_sign {x y : Bits} (h : isNaN (mul x y) = false) :
    isNeg (mul x y) = (isNeg x != isNeg y) := by
  by_cases hn : isNaN x = true ∨ isNaN y = true
  · rw [(S1_mul hn).2] at h; cases h
  · have hx : isNaN x = false := by cases e : isNaN x <;> simp [e] at hn ⊢
    have hy : isNaN y = false := by cases e : isNaN y <;> simp [e] at hn ⊢
    by_cases hi : isInf x = true ∨ isInf y = true
    · rw [mul_inf hx hy hi] at h ⊢
      cases hz : (isZero x || isZero y)
      · simp only [Bool.false_eq_true, if_false]; exact isNeg_inf _
      · rw [hz] at h; simp only [if_true] at h; rw [isNaN_canonNaN] at h; cases h
    · have hfx : isFinite x = true := finite_of_not_nan_inf hx (by cases e : isInf x <;> simp [e] at hi ⊢)
      have hfy : isFinite y = true := finite_of_not_nan_inf hy (by cases e : isInf y <;> simp [e] at hi ⊢)
      rw [mul_finite hfx hfy]; exact isNeg_ofRat _ _ _

theorem S6_div_sign {x y : Bits} (h : isNaN (div x y) = false) :
    isNeg (div x y) = (isNeg x != isNeg y) := by
  by_cases hn : isNaN x = true ∨ isNaN y = true
  · rw [(S1_div hn).2] at h; cases h
  · have hx : isNaN x = false := by cases e : isNaN x <;> simp [e] at hn ⊢
    have hy : isNaN y = false := by cases e : isNaN y <;> simp [e] at hn ⊢
    by_cases hix : isInf x = true
    · by_cases hiy : isInf y = true
      · rw [S2_div_inf_inf hix hiy, isNaN_canonNaN] at h; cases h
      · rw [S2_div_inf_finite hix (finite_of_not_nan_inf hy (by simpa using hiy))]; exact isNeg_inf _
    · have hfx := finite_of_not_nan_inf hx (by simpa using hix)
      by_cases hiy : isInf y = true
      · rw [S2_div_finite_inf hfx hiy]; exact isNeg_zero _
      · have hfy := finite_of_not_nan_inf hy (by simpa using hiy)
        by_cases hz : isZero y = true
        · by_cases hzx : isZero x = true
          · rw [S3_div_zero_zero hzx hz, isNaN_canonNaN] at h; cases h
          · rw [S3_div_nonzero_zero hfx (by simpa using hzx) hz]; exact isNeg_inf _
        · rw [div_finite hfx hfy (by simpa using hz)]; exact isNeg_ofRat _ _ _

end FloatSpecial
end Nl
