/- Stage 8: the world of the stage-8 fragment, how the static side conditions move along a scope extension, the goals of
   expressions with scope outputs, and the statements of the simulation. (The literals of a tree `lits..`, the
   function-table hypothesis `Ft..` and the side conditions `Sc7` are stage 7's: they speak about trees only.) -/
import Nlmodel.Proofs.Lemmas.Sim8Frag
namespace Nl
namespace Sim8
open Spec Sim Sim6 Sim7
open SimH (AMap isStrCell isArrCell Grow PoolH MemOK sameKind LitF)
open SimF (FT FnInfo FTInj paramScope bigScope selfTail func_layout)

/-- an entry of the function table (stage 7's, over the stage-8 fragment) -/
def FnOK8 (W : World) (info : FnInfo) : Prop :=
  CodeAt W.C info.ip (asFnBody info.body (emitB info.body info.ip none info.cs).1) ∧
  Ext (emitB info.body info.ip none info.cs).2 W.CS ∧
  (∃ Γ1 Λ1, Z8B info.Γg info.nl true info.Γg (paramScope info.ps) false info.body Γ1 Λ1) ∧
  GamOK (paramScope info.ps) ∧ (∀ p ∈ paramScope info.ps, p.2 < info.nl) ∧
  FtB W.ft info.Γg info.body info.ip none info.cs

structure WOK8 (W : World) : Prop where
  inj : FTInj W.ft
  fns : ∀ fid info, W.ft fid = some info → FnOK8 W info
  cfn : ∀ (k ip nl : Nat), W.CS[k]? = some (Const.fn ip nl) → W.s0.cvals[k]? = some (Value.fn ip nl)

theorem WOK8.at {W : World} (h : WOK8 W) (Γ : Gam) : WOK8 (W.at Γ) := ⟨h.inj, h.fns, h.cfn⟩

/-- the side conditions after a scope extension, and how the scopes of the invariant grew -/
theorem sc7_ext {W : World} {Δ : Gam} {fn : Bool} {Γ Γx Λ Γ1 Λ1 : Gam} (hsc : Sc7 W Δ fn Γ Γx Λ) (h : ScExt fn Γ Λ Γ1 Λ1) :
    Sc7 W Δ fn Γ1 Γx Λ1 ∧ (∃ d, bigScope fn Γ1 Γx = d ++ bigScope fn Γ Γx) ∧ (∃ c, Λ1 = c ++ Λ) := by
  obtain ⟨⟨d, hd, hdf⟩, ⟨c, hc, _⟩, hokg, hokl⟩ := h
  cases fn with
  | true =>
    have : d = [] := hdf rfl
    subst this
    simp only [List.nil_append] at hd
    subst hd
    exact ⟨⟨hsc.okb, hokl hsc.okl, hsc.sub, hsc.psub, hsc.pi⟩, ⟨[], rfl⟩, ⟨c, hc⟩⟩
  | false =>
    have hokb : GamOK Γ := by have := hsc.okb; simpa [bigScope] using this
    refine ⟨⟨by simpa [bigScope] using hokg hokb, hokl hsc.okl, by simp [bigScope], ?_, hsc.pi⟩, ⟨d, by simp [bigScope, hd]⟩, ⟨c, hc⟩⟩
    intro p hp
    have := hsc.psub p hp
    simp only [bigScope, Bool.false_eq_true, ↓reduceIte] at this ⊢
    rw [hd]; exact List.mem_append_right _ this

/-! ## goals with scope outputs -/

section abbrevs
variable (W : World) (Γb Λ : Gam) (nl : Nat) (below : Array Value) (fr : List Frame)

/-- an expression: the scopes before (`Γb Λ`, where every abrupt completion lands) and after (`Γb' Λ'`) -/
abbrev GoalV8 (Γb' Λ' : Gam) (fn ab : Bool) (lp : LoopCtx) (c : Cfg) (endIp : Nat) (base : Array Value) (r : Res SVal) : Prop :=
  GoalG W Γb Λ nl below fr fn ab lp base c (VCV W Γb' Λ' nl below fr endIp base c) r

abbrev GoalEs8 (Γb' Λ' : Gam) (fn : Bool) (lp : LoopCtx) (c : Cfg) (endIp : Nat) (base : Array Value) (r : Res (List SVal)) : Prop :=
  GoalG W Γb Λ nl below fr fn false lp base c (VCEs W Γb' Λ' nl below fr endIp base c) r
end abbrevs

section prefixes
variable {W : World} {Γb Λ Γb' Λ' : Gam} {nl : Nat} {below : Array Value} {fr : List Frame}

theorem GoalV8.prefix {fn ab : Bool} {lp : LoopCtx} {c c1 : Cfg} {endIp : Nat} {base : Array Value} {r : Res SVal} (n : Nat)
    (hpre : execN W.C n (c.vm W below fr) = some (c1.vm W below fr))
    (hk : Keep W c.μ c.st c.m.heap c1.μ c1.st c1.m.heap (fixedOf below base))
    (h : GoalV8 W Γb Λ nl below fr Γb' Λ' fn ab lp c1 endIp base r) : GoalV8 W Γb Λ nl below fr Γb' Λ' fn ab lp c endIp base r :=
  GoalG.prefix n hpre hk (fun _ _ ⟨mv, μ', m', hv, hre⟩ => ⟨mv, μ', m', hv, hre.prefix n hpre hk⟩) h

theorem GoalEs8.prefix {fn : Bool} {lp : LoopCtx} {c c1 : Cfg} {endIp : Nat} {base : Array Value} {r : Res (List SVal)} (n : Nat)
    (hpre : execN W.C n (c.vm W below fr) = some (c1.vm W below fr))
    (hk : Keep W c.μ c.st c.m.heap c1.μ c1.st c1.m.heap (fixedOf below base))
    (h : GoalEs8 W Γb Λ nl below fr Γb' Λ' fn lp c1 endIp base r) : GoalEs8 W Γb Λ nl below fr Γb' Λ' fn lp c endIp base r :=
  GoalG.prefix n hpre hk (fun _ _ ⟨ms, μ', m', hv, hre⟩ => ⟨ms, μ', m', hv, hre.prefix n hpre hk⟩) h

/-- the abrupt completions of a goal proved over extended scopes land in the scopes before -/
theorem GoalV8.weaken (d e : Gam) {fn ab : Bool} {lp : LoopCtx} {c : Cfg} {endIp : Nat} {base : Array Value} {r : Res SVal}
    (h : GoalV8 W (d ++ Γb) (e ++ Λ) nl below fr Γb' Λ' fn ab lp c endIp base r) : GoalV8 W Γb Λ nl below fr Γb' Λ' fn ab lp c endIp base r :=
  GoalG.weaken d e (fun _ _ x => x) h

theorem GoalEs8.weaken (d e : Gam) {fn : Bool} {lp : LoopCtx} {c : Cfg} {endIp : Nat} {base : Array Value} {r : Res (List SVal)}
    (h : GoalEs8 W (d ++ Γb) (e ++ Λ) nl below fr Γb' Λ' fn lp c endIp base r) : GoalEs8 W Γb Λ nl below fr Γb' Λ' fn lp c endIp base r :=
  GoalG.weaken d e (fun _ _ x => x) h

/-- forget the names an expression declared (a block closes) -/
theorem GoalV8.close (d e : Gam) {fn ab : Bool} {lp : LoopCtx} {c : Cfg} {endIp : Nat} {base : Array Value} {r : Res SVal}
    (h : GoalV8 W Γb Λ nl below fr (d ++ Γb') (e ++ Λ') fn ab lp c endIp base r) : GoalV8 W Γb Λ nl below fr Γb' Λ' fn ab lp c endIp base r :=
  GoalG.mono_vc (fun _ _ ⟨mv, μ', m', hv, hre⟩ => ⟨mv, μ', m', hv, hre.weaken d e⟩) h

theorem GoalV8.then_val {fn ab : Bool} {lp : LoopCtx} {c : Cfg} {e1 e2 : Nat} {base : Array Value} {r : Res SVal}
    (h : GoalV8 W Γb Λ nl below fr Γb' Λ' fn ab lp c e1 base r)
    (hs : ∀ mv locs' g' l' m' out', step W.C (mk6 W.s0 e1 below locs' (base.push mv) g' l' fr m' out') =
      .next (mk6 W.s0 e2 below locs' (base.push mv) g' l' fr m' out')) :
    GoalV8 W Γb Λ nl below fr Γb' Λ' fn ab lp c e2 base r :=
  GoalG.mono_vc (fun _ _ ⟨mv, μ', m', hv, hre⟩ => ⟨mv, μ', m', hv, hre.then (fun locs' g' l' out' => hs mv locs' g' l' m' out')⟩) h

end prefixes

section ext
variable {W : World} {Δ : Gam} {fn : Bool} {Γ Γx Λ Γ1 Λ1 : Gam} {nl : Nat} {below : Array Value} {fr : List Frame}

/-- a goal proved in extended scopes, seen from the scopes before -/
theorem GoalG.from_ext {α : Type} {ab : Bool} {lp : LoopCtx} {base : Array Value} {c : Cfg} {VC : α → SState → Prop} {r : Res α}
    (hsc : Sc7 W Δ fn Γ Γx Λ) (hx : ScExt fn Γ Λ Γ1 Λ1)
    (h : GoalG W (bigScope fn Γ1 Γx) Λ1 nl below fr fn ab lp base c VC r) : GoalG W (bigScope fn Γ Γx) Λ nl below fr fn ab lp base c VC r := by
  obtain ⟨_, ⟨d, hd⟩, ⟨e, he⟩⟩ := sc7_ext hsc hx
  rw [hd, he] at h
  exact GoalG.weaken d e (fun _ _ x => x) h

/-- the names declared by the last expression of a block are forgotten -/
theorem GoalV8.close_ext {ab : Bool} {lp : LoopCtx} {base : Array Value} {c : Cfg} {endIp : Nat} {Γb0 Λ0 : Gam} {r : Res SVal}
    (hsc : Sc7 W Δ fn Γ Γx Λ) (hx : ScExt fn Γ Λ Γ1 Λ1)
    (h : GoalV8 W Γb0 Λ0 nl below fr (bigScope fn Γ1 Γx) Λ1 fn ab lp c endIp base r) :
    GoalV8 W Γb0 Λ0 nl below fr (bigScope fn Γ Γx) Λ fn ab lp c endIp base r := by
  obtain ⟨_, ⟨d, hd⟩, ⟨e, he⟩⟩ := sc7_ext hsc hx
  rw [hd, he] at h
  exact GoalV8.close d e h
end ext

/-! ## the statements of the simulation -/

section statements
variable (W : World)

def PE8 (f : Nat) : Prop := ∀ {Δ : Gam} (nl : Nat) (fn : Bool) (Γ Γx Λ : Gam) (ab : Bool) (e : RExpr) (Γ1 Λ1 : Gam), Z8E Δ nl fn Γ Λ ab e Γ1 Λ1 →
  ∀ (c : Cfg) (lp : LoopCtx) (cs : List Const) (below : Array Value) (fr : List Frame),
  Sc7 W Δ fn Γ Γx Λ → Inv6 W (bigScope fn Γ Γx) Λ nl c → TI.WT (c.vm W below fr) →
  CodeAt W.C c.ip (emitE e c.ip lp cs).1 → Ext (emitE e c.ip lp cs).2 W.CS → FtE W.ft Δ e c.ip lp cs →
  GoalV8 W (bigScope fn Γ Γx) Λ nl below fr (bigScope fn Γ1 Γx) Λ1 fn ab lp c (c.ip + sizeE e) c.ops (evalE f e c.st)

def PEs8 (f : Nat) : Prop := ∀ {Δ : Gam} (nl : Nat) (fn : Bool) (Γ Γx Λ : Gam) (es : RExprs) (Γ1 Λ1 : Gam), Z8Es Δ nl fn Γ Λ es Γ1 Λ1 →
  ∀ (c : Cfg) (lp : LoopCtx) (cs : List Const) (below : Array Value) (fr : List Frame),
  Sc7 W Δ fn Γ Γx Λ → Inv6 W (bigScope fn Γ Γx) Λ nl c → TI.WT (c.vm W below fr) →
  CodeAt W.C c.ip (emitEs es c.ip lp cs).1 → Ext (emitEs es c.ip lp cs).2 W.CS → FtEs W.ft Δ es c.ip lp cs →
  GoalEs8 W (bigScope fn Γ Γx) Λ nl below fr (bigScope fn Γ1 Γx) Λ1 fn lp c (c.ip + sizeEs es) c.ops (evalEs f es c.st)

def PBV8 (f : Nat) : Prop := ∀ {Δ : Gam} (nl : Nat) (fn : Bool) (Γ Γx Λ : Gam) (ab : Bool) (b : RBlock) (Γ1 Λ1 : Gam), Z8B Δ nl fn Γ Λ ab b Γ1 Λ1 →
  ∀ (c : Cfg) (lp : LoopCtx) (cs : List Const) (below : Array Value) (fr : List Frame),
  Sc7 W Δ fn Γ Γx Λ → Inv6 W (bigScope fn Γ Γx) Λ nl c → TI.WT (c.vm W below fr) →
  CodeAt W.C c.ip (asValue b (emitB b c.ip lp cs).1) → Ext (emitB b c.ip lp cs).2 W.CS → FtB W.ft Δ b c.ip lp cs →
  GoalV6 W (bigScope fn Γ Γx) Λ nl below fr fn ab lp c (c.ip + sizeBV b) c.ops (evalBV f b c.st)

def PS8 (f : Nat) : Prop := ∀ {Δ : Gam} (nl : Nat) (fn : Bool) (Γ Γx Λ : Gam) (ab : Bool) (s : RStmt) (Γ1 Λ1 : Gam), Z8S Δ nl fn Γ Λ ab s Γ1 Λ1 →
  ∀ (c : Cfg) (lp : LoopCtx) (cs : List Const) (below : Array Value) (fr : List Frame),
  Sc7 W Δ fn Γ Γx Λ → Inv6 W (bigScope fn Γ Γx) Λ nl c → TI.WT (c.vm W below fr) →
  CodeAt W.C c.ip (emitS s c.ip lp cs).1 → Ext (emitS s c.ip lp cs).2 W.CS → FtS W.ft Δ s c.ip lp cs →
  GoalU6 W (bigScope fn Γ Γx) Λ nl below fr (bigScope fn Γ1 Γx) Λ1 fn ab lp c (c.ip + sizeS s) c.ops (evalS f s c.st)

def PB8 (f : Nat) : Prop := ∀ {Δ : Gam} (nl : Nat) (fn : Bool) (Γ Γx Λ : Gam) (ab : Bool) (b : RBlock) (Γ1 Λ1 : Gam), Z8B Δ nl fn Γ Λ ab b Γ1 Λ1 →
  ∀ (c : Cfg) (lp : LoopCtx) (cs : List Const) (below : Array Value) (fr : List Frame),
  Sc7 W Δ fn Γ Γx Λ → Inv6 W (bigScope fn Γ Γx) Λ nl c → TI.WT (c.vm W below fr) →
  CodeAt W.C c.ip (emitB b c.ip lp cs).1 → Ext (emitB b c.ip lp cs).2 W.CS → FtB W.ft Δ b c.ip lp cs →
  GoalU6 W (bigScope fn Γ Γx) Λ nl below fr (bigScope fn Γ1 Γx) Λ1 fn ab lp c (c.ip + sizeB b) c.ops (evalB f b c.st)

/-- the loop: the configuration stands at the condition (in the scopes BEFORE the loop), the value of the last completed
    body evaluation on top of `base`; the loop ends in the scopes after its condition -/
def PL8 (f : Nat) : Prop := ∀ {Δ : Gam} (nl : Nat) (fn : Bool) (Γ Γx Λ : Gam) (ab : Bool) (cnd : RExpr) (b : RBlock) (Γ1 Λ1 Γt Λt : Gam),
  Z8E Δ nl fn Γ Λ false cnd Γ1 Λ1 → Z8B Δ nl fn Γ1 Λ1 true b Γt Λt →
  ∀ (c : Cfg) (pos : Nat) (lp : LoopCtx) (cs : List Const) (below : Array Value) (fr : List Frame) (base : Array Value)
    (acc : SVal) (accv : Value), c.ip = pos + 1 → c.ops = base.push accv → VR6 W c.μ c.st c.m.heap acc accv →
  Sc7 W Δ fn Γ Γx Λ → Inv6 W (bigScope fn Γ Γx) Λ nl c → TI.WT (c.vm W below fr) →
  CodeAt W.C pos (emitE (.whileE cnd b) pos lp cs).1 → Ext (emitE (.whileE cnd b) pos lp cs).2 W.CS →
  FtE W.ft Δ (.whileE cnd b) pos lp cs →
  GoalV8 W (bigScope fn Γ Γx) Λ nl below fr (bigScope fn Γ1 Γx) Λ1 fn ab lp c (pos + sizeE (.whileE cnd b)) base (evalLoop f cnd b acc c.st)

def PBF8 (f : Nat) : Prop := ∀ {Δ : Gam} (nl : Nat) (Γ Γx Λ : Gam) (b : RBlock) (Γ1 Λ1 : Gam), Z8B Δ nl true Γ Λ false b Γ1 Λ1 →
  ∀ (c : Cfg) (cs : List Const) (below : Array Value) (fr : List Frame), c.ops = #[] →
  Sc7 W Δ true Γ Γx Λ → Inv6 W Γx Λ nl c → TI.WT (c.vm W below fr) →
  CodeAt W.C c.ip (asFnBody b (emitB b c.ip none cs).1) → Ext (emitB b c.ip none cs).2 W.CS → FtB W.ft Δ b c.ip none cs →
  GoalF6 W Γx Λ nl below fr c (evalBV f b c.st)

structure PAll8 (f : Nat) : Prop where
  e : PE8 W f
  es : PEs8 W f
  bv : PBV8 W f
  s : PS8 W f
  b : PB8 W f
  l : PL8 W f
  bf : PBF8 W f
end statements

end Sim8
end Nl
