/-
  TEST (not a theorem about all inputs): executable self-check of the byte-level model on the text
  "aé€😀b", which has characters of 1, 2, 3, 4 and 1 bytes.  Every `example` is checked by the
  kernel (`decide`); the `#eval`s at the end show the same values computed from the string literal.
-/
import Nlmodel.Proofs.Lemmas.Utf8Index
namespace Nl
namespace Utf8
namespace Test

/-- TEST text: a (U+61), é (U+E9), € (U+20AC), 😀 (U+1F600), b (U+62) -/
def sample : List Char := ['a', 'é', '€', '😀', 'b']
def sampleBytes : List UInt8 :=
  [0x61, 0xC3, 0xA9, 0xE2, 0x82, 0xAC, 0xF0, 0x9F, 0x98, 0x80, 0x62]

set_option maxRecDepth 100000

/-- equality of results is decidable (needed by `decide` below; core has no such instance) -/
instance exceptDecEq {ε α : Type} [DecidableEq ε] [DecidableEq α] : DecidableEq (Except ε α)
  | .ok a, .ok b => if h : a = b then isTrue (by rw [h]) else isFalse (fun e => h (by injection e))
  | .error a, .error b => if h : a = b then isTrue (by rw [h]) else isFalse (fun e => h (by injection e))
  | .ok _, .error _ => isFalse (fun e => by cases e)
  | .error _, .ok _ => isFalse (fun e => by cases e)

-- TEST the encoder gives the well-known bytes
example : encode sample = sampleBytes := by decide
-- TEST (U1) 11 bytes, 5 characters
example : countChars sampleBytes = 5 ∧ sampleBytes.length = 11 := by decide
-- TEST (U2) spans of the five characters, and nothing at index 5
example : (List.range 6).map (nthSpan sampleBytes) =
    [some (0, 1), some (1, 2), some (3, 3), some (6, 4), some (10, 1), none] := by decide
-- TEST (U2) decoding at the offsets
example : [0, 1, 3, 6, 10].map (decodeAt sampleBytes) =
    [some 'a', some 'é', some '€', some '😀', some 'b'] := by decide
-- TEST decoding inside a character fails (stray continuation byte)
example : decodeAt sampleBytes 2 = none ∧ decodeAt sampleBytes 7 = none := by decide
-- TEST (U3) replacing '€' (index 2) by "😀é", by nothing, and by "x"
example : byteReplace sampleBytes 3 3 (encode ['😀', 'é']) = encode ['a', 'é', '😀', 'é', '😀', 'b'] := by
  decide
example : byteReplace sampleBytes 3 3 (encode []) = encode ['a', 'é', '😀', 'b'] := by decide
example : byteReplace sampleBytes 3 3 (encode ['x']) = encode ['a', 'é', 'x', '😀', 'b'] := by decide
-- TEST (U4) reads: from the front, from the back, out of range on both sides
example : byteIndexGet sampleBytes 3 = .ok [0xF0, 0x9F, 0x98, 0x80] := by decide
example : byteIndexGet sampleBytes (-4) = .ok [0xC3, 0xA9] := by decide
example : byteIndexGet sampleBytes 5 = .error .index := by decide
example : byteIndexGet sampleBytes (-6) = .error .index := by decide
example : byteIndexGet [] 0 = .error .index ∧ byteIndexGet [] (-1) = .error .index := by decide
-- TEST (U4) writes
example : byteIndexSet sampleBytes (-2) (encode ['€', '€']) = .ok (encode ['a', 'é', '€', '€', '€', 'b']) := by
  decide
example : byteIndexSet sampleBytes 5 (encode ['x']) = .error .index := by decide
example : byteIndexSetV sampleBytes 0 none = .error .type ∧ byteIndexSetV sampleBytes 9 none = .error .index := by
  decide
-- TEST (U6) byte order = code-point order across widths; prefix is smaller
example : byteLt (encode ['z']) (encode ['é']) = true ∧ byteLt (encode ['é']) (encode ['€']) = true ∧
    byteLt (encode ['￿']) (encode ['😀']) = true ∧ byteLt (encode ['a']) (encode ['a', 'a']) = true ∧
    byteLt (encode ['b']) (encode ['a', 'a']) = false ∧ byteLt sampleBytes sampleBytes = false := by decide
-- TEST (U7) the decoder reads the text back, and rejects malformed input: overlong forms,
-- surrogates, code points above 0x10FFFF, truncated sequences, stray continuation bytes
example : decode sampleBytes = some sample := by decide
example : decode [0xC0, 0x80] = none ∧ decode [0xE0, 0x80, 0x80] = none ∧ decode [0xED, 0xA0, 0x80] = none ∧
    decode [0xF4, 0x90, 0x80, 0x80] = none ∧ decode [0xE2, 0x82] = none ∧ decode [0x80] = none ∧
    decode [0x61, 0xFF] = none ∧ decode [0xF0, 0x80, 0x80, 0x80] = none := by decide
-- TEST the mask form and the arithmetic form of `isCont` on the boundary bytes
example : [0x7F, 0x80, 0xBF, 0xC0, 0xFF].map isCont = [false, true, true, false, false] := by decide

-- TEST the same values from a string literal (evaluated, not kernel-checked)
/-- info: true -/
#guard_msgs in
#eval encode "aé€😀b".toList == sampleBytes && "aé€😀b".toUTF8.toList == sampleBytes
/-- info: (5, [some (0, 1), some (1, 2), some (3, 3), some (6, 4), some (10, 1), none]) -/
#guard_msgs in
#eval (countChars (encode "aé€😀b".toList), (List.range 6).map (nthSpan (encode "aé€😀b".toList)))
/-- info: some "a😀é😀b" -/
#guard_msgs in
#eval (decode (byteReplace (encode "aé€😀b".toList) 1 5 (encode "😀é".toList))).map String.ofList

end Test
end Utf8
end Nl
