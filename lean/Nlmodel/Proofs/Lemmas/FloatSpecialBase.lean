/-
  Float SPECIAL VALUES, part 1: classification of bit patterns, the constants, NaN propagation (S1),
  infinities (S2) and division by zero (S3) — for ALL bit patterns, by unfolding the model
  (`Model/Float.lean`).  The model has ONE NaN result: every operation that produces a NaN produces
  `F64.canonNaN = 0x7FF8000000000000` (a NaN OPERAND may carry any payload; it is never copied).
-/
import Nlmodel.Proofs.Lemmas.FloatRound
import Nlmodel.Proofs.Lemmas.FloatRem

namespace Nl
namespace FloatSpecial
open F64 F64R

/-! ## 0. classification -/

theorem isNaN_iff {x : Bits} : isNaN x = true ↔ infBits < absBits x := by unfold isNaN; simp
theorem isInf_iff {x : Bits} : isInf x = true ↔ absBits x = infBits := by unfold isInf; simp
theorem isZero_iff {x : Bits} : isZero x = true ↔ absBits x = 0 := by unfold isZero; simp
theorem isFinite_iff {x : Bits} : isFinite x = true ↔ absBits x < infBits := finite_iff
theorem isNaN_false_iff {x : Bits} : isNaN x = false ↔ absBits x ≤ infBits := by
  unfold isNaN; simp
theorem isInf_false_iff {x : Bits} : isInf x = false ↔ absBits x ≠ infBits := by unfold isInf; simp
theorem isZero_false_iff {x : Bits} : isZero x = false ↔ absBits x ≠ 0 := by unfold isZero; simp
theorem isFinite_false_iff {x : Bits} : isFinite x = false ↔ infBits ≤ absBits x := by
  unfold isFinite; simp

/-- every bit pattern is exactly one of: NaN, infinite, finite -/
theorem classify (x : Bits) :
    (isNaN x = true ∧ isInf x = false ∧ isFinite x = false) ∨
    (isNaN x = false ∧ isInf x = true ∧ isFinite x = false) ∨
    (isNaN x = false ∧ isInf x = false ∧ isFinite x = true) := by
  rw [isNaN_iff, isInf_iff, isFinite_iff, isNaN_false_iff, isInf_false_iff, isFinite_false_iff]
  omega

theorem isFinite_eq (x : Bits) : isFinite x = (!isNaN x && !isInf x) := by
  rcases classify x with ⟨a, b, c⟩ | ⟨a, b, c⟩ | ⟨a, b, c⟩ <;> rw [a, b, c] <;> rfl

theorem finite_of_not_nan_inf {x : Bits} (h1 : isNaN x = false) (h2 : isInf x = false) :
    isFinite x = true := by rw [isFinite_eq, h1, h2]; rfl

theorem zero_is_finite {x : Bits} (h : isZero x = true) : isFinite x = true := by
  rw [isZero_iff] at h; rw [isFinite_iff, h]; decide

theorem inf_not_nan {x : Bits} (h : isInf x = true) : isNaN x = false := by
  rw [isInf_iff] at h; rw [isNaN_false_iff]; omega

theorem inf_not_finite {x : Bits} (h : isInf x = true) : isFinite x = false := by
  rw [isInf_iff] at h; rw [isFinite_false_iff]; omega

theorem inf_not_zero {x : Bits} (h : isInf x = true) : isZero x = false := by
  rw [isInf_iff] at h; rw [isZero_false_iff, h]; decide

theorem nan_not_inf {x : Bits} (h : isNaN x = true) : isInf x = false := by
  rw [isNaN_iff] at h; rw [isInf_false_iff]; omega

theorem nan_not_finite {x : Bits} (h : isNaN x = true) : isFinite x = false := by
  rw [isNaN_iff] at h; rw [isFinite_false_iff]; omega

theorem nan_not_zero {x : Bits} (h : isNaN x = true) : isZero x = false := by
  rw [isNaN_iff] at h; rw [isZero_false_iff]; unfold infBits at h; omega

/-- a bit pattern is its sign and its magnitude bits -/
theorem mk_self (x : Bits) : mk (isNeg x) (absBits x) = x := by
  apply UInt64.toNat_inj.1
  unfold mk isNeg absBits signBit
  rw [UInt64.toNat_ofNat']
  have := x.toNat_lt
  by_cases h : x.toNat ≥ 2 ^ 63
  · simp only [h, decide_true, if_true]; omega
  · simp only [h, decide_false, Bool.false_eq_true, if_false]; omega

/-- an infinite bit pattern IS `inf` of its sign: there are exactly two infinities -/
theorem eq_inf_of_isInf {x : Bits} (h : isInf x = true) : x = inf (isNeg x) := by
  rw [isInf_iff] at h; unfold inf; rw [← h]; exact (mk_self x).symm

/-- a zero bit pattern IS `zero` of its sign: there are exactly two zeros -/
theorem eq_zero_of_isZero {x : Bits} (h : isZero x = true) : x = zero (isNeg x) := by
  rw [isZero_iff] at h; unfold zero; rw [← h]; exact (mk_self x).symm

/-! ### the constants -/

theorem inf_pos_bits : inf false = 0x7FF0000000000000 := by decide
theorem inf_neg_bits : inf true = 0xFFF0000000000000 := by decide
theorem zero_pos_bits : zero false = 0x0000000000000000 := by decide
theorem zero_neg_bits : zero true = 0x8000000000000000 := by decide

theorem isNaN_canonNaN : isNaN canonNaN = true := by decide
theorem isInf_canonNaN : isInf canonNaN = false := by decide
theorem isFinite_canonNaN : isFinite canonNaN = false := by decide
theorem isNeg_canonNaN : isNeg canonNaN = false := by decide

theorem isInf_inf (s : Bool) : isInf (inf s) = true := by cases s <;> decide
theorem isNeg_inf (s : Bool) : isNeg (inf s) = s := by cases s <;> decide
theorem isNaN_inf (s : Bool) : isNaN (inf s) = false := by cases s <;> decide
theorem isFinite_inf (s : Bool) : isFinite (inf s) = false := by cases s <;> decide
theorem isZero_inf (s : Bool) : isZero (inf s) = false := by cases s <;> decide

theorem isZero_zero (s : Bool) : isZero (zero s) = true := by cases s <;> decide
theorem isNeg_zero (s : Bool) : isNeg (zero s) = s := by cases s <;> decide
theorem isNaN_zero (s : Bool) : isNaN (zero s) = false := by cases s <;> decide
theorem isInf_zero (s : Bool) : isInf (zero s) = false := by cases s <;> decide
theorem isFinite_zero (s : Bool) : isFinite (zero s) = true := by cases s <;> decide

theorem isInf_iff_eq {x : Bits} : isInf x = true ↔ x = inf false ∨ x = inf true := by
  constructor
  · intro h
    have := eq_inf_of_isInf h
    cases hs : isNeg x <;> rw [hs] at this
    · exact .inl this
    · exact .inr this
  · rintro (h | h) <;> rw [h] <;> exact isInf_inf _

theorem isZero_iff_eq {x : Bits} : isZero x = true ↔ x = zero false ∨ x = zero true := by
  constructor
  · intro h
    have := eq_zero_of_isZero h
    cases hs : isNeg x <;> rw [hs] at this
    · exact .inl this
    · exact .inr this
  · rintro (h | h) <;> rw [h] <;> exact isZero_zero _

/-- the result of rounding is never a NaN -/
theorem isNaN_ofRat (s : Bool) (n d : Nat) : isNaN (ofRat s n d) = false := by
  rw [isNaN_false_iff, absBits_ofRat]; exact roundMag_le_inf n d

theorem isNaN_neg' (x : Bits) : isNaN (neg x) = isNaN x := isNaN_neg x
theorem isZero_neg (x : Bits) : isZero (neg x) = isZero x := by unfold isZero; rw [absBits_neg]

theorem neg_inf (s : Bool) : neg (inf s) = inf (!s) := by cases s <;> decide
theorem neg_zero (s : Bool) : neg (zero s) = zero (!s) := by cases s <;> decide

/-! ## S1. NaN propagation: a NaN operand gives THE NaN `canonNaN`, for all five operations -/

theorem S1_add {x y : Bits} (h : isNaN x = true ∨ isNaN y = true) :
    add x y = canonNaN ∧ isNaN (add x y) = true := by
  have := add_nan h; exact ⟨this, by rw [this]; exact isNaN_canonNaN⟩

theorem S1_sub {x y : Bits} (h : isNaN x = true ∨ isNaN y = true) :
    sub x y = canonNaN ∧ isNaN (sub x y) = true := by
  have : sub x y = canonNaN := by
    unfold sub
    by_cases hy : isNaN y = true
    · rw [if_pos hy]
    · rw [if_neg hy]
      rcases h with h | h
      · exact add_nan (.inl h)
      · exact absurd h hy
  exact ⟨this, by rw [this]; exact isNaN_canonNaN⟩

theorem S1_mul {x y : Bits} (h : isNaN x = true ∨ isNaN y = true) :
    mul x y = canonNaN ∧ isNaN (mul x y) = true := by
  have := mul_nan h; exact ⟨this, by rw [this]; exact isNaN_canonNaN⟩

theorem S1_div {x y : Bits} (h : isNaN x = true ∨ isNaN y = true) :
    div x y = canonNaN ∧ isNaN (div x y) = true := by
  have := div_nan h; exact ⟨this, by rw [this]; exact isNaN_canonNaN⟩

theorem S1_rem {x y : Bits} (h : isNaN x = true ∨ isNaN y = true) :
    rem x y = canonNaN ∧ isNaN (rem x y) = true := by
  have : rem x y = canonNaN := rem_nan (by rcases h with h | h; exact .inl h; exact .inr (.inl h))
  exact ⟨this, by rw [this]; exact isNaN_canonNaN⟩

/-! ## S2. infinities -/

/-- `±inf + finite = ±inf` -/
theorem S2_add_inf_finite {x y : Bits} (hx : isInf x = true) (hy : isFinite y = true) :
    add x y = inf (isNeg x) := by
  rw [add_inf_left (inf_not_nan hx) (finite_not_nan hy) hx, finite_not_inf hy]
  exact eq_inf_of_isInf hx

/-- `finite + ±inf = ±inf` -/
theorem S2_add_finite_inf {x y : Bits} (hx : isFinite x = true) (hy : isInf y = true) :
    add x y = inf (isNeg y) := by
  rw [add_inf_right (finite_not_nan hx) (inf_not_nan hy) (finite_not_inf hx) hy]
  exact eq_inf_of_isInf hy

/-- `inf + inf = inf`, `-inf + -inf = -inf` -/
theorem S2_add_inf_inf_same {x y : Bits} (hx : isInf x = true) (hy : isInf y = true)
    (hs : isNeg x = isNeg y) : add x y = inf (isNeg x) := by
  rw [add_inf_left (inf_not_nan hx) (inf_not_nan hy) hx, hy, hs]
  simp only [bne_self_eq_false, Bool.and_false, Bool.false_eq_true, if_false]
  rw [← hs]; exact eq_inf_of_isInf hx

/-- `inf + -inf = -inf + inf = NaN` -/
theorem S2_add_inf_inf_opposite {x y : Bits} (hx : isInf x = true) (hy : isInf y = true)
    (hs : isNeg x ≠ isNeg y) : add x y = canonNaN := by
  rw [add_inf_left (inf_not_nan hx) (inf_not_nan hy) hx, hy]
  have : (isNeg x != isNeg y) = true := by simpa using hs
  rw [this]; rfl

/-- the same on the constants -/
theorem S2_add_inf_const (s t : Bool) : add (inf s) (inf t) = if s = t then inf s else canonNaN := by
  cases s <;> cases t <;> decide

/-- `±inf - finite = ±inf` -/
theorem S2_sub_inf_finite {x y : Bits} (hx : isInf x = true) (hy : isFinite y = true) :
    sub x y = inf (isNeg x) := by
  rw [sub_eq_add_neg (finite_not_nan hy)]
  exact S2_add_inf_finite hx (by rw [isFinite_neg]; exact hy)

/-- `finite - ±inf = ∓inf` -/
theorem S2_sub_finite_inf {x y : Bits} (hx : isFinite x = true) (hy : isInf y = true) :
    sub x y = inf (!isNeg y) := by
  rw [sub_eq_add_neg (inf_not_nan hy), ← isNeg_neg]
  exact S2_add_finite_inf hx (by rw [isInf_neg]; exact hy)

/-- `inf - inf = NaN`, `-inf - -inf = NaN` -/
theorem S2_sub_inf_inf_same {x y : Bits} (hx : isInf x = true) (hy : isInf y = true)
    (hs : isNeg x = isNeg y) : sub x y = canonNaN := by
  rw [sub_eq_add_neg (inf_not_nan hy)]
  apply S2_add_inf_inf_opposite hx (by rw [isInf_neg]; exact hy)
  rw [isNeg_neg, hs]; cases isNeg y <;> decide

/-- `inf - -inf = inf`, `-inf - inf = -inf` -/
theorem S2_sub_inf_inf_opposite {x y : Bits} (hx : isInf x = true) (hy : isInf y = true)
    (hs : isNeg x ≠ isNeg y) : sub x y = inf (isNeg x) := by
  rw [sub_eq_add_neg (inf_not_nan hy)]
  apply S2_add_inf_inf_same hx (by rw [isInf_neg]; exact hy)
  rw [isNeg_neg]; revert hs; cases isNeg x <;> cases isNeg y <;> decide

/-- `inf * nonzero = inf`, sign = xor of the signs (either operand infinite, the other anything
    but NaN and zero — finite or infinite) -/
theorem S2_mul_inf_nonzero {x y : Bits} (hi : isInf x = true ∨ isInf y = true)
    (hx : isNaN x = false) (hy : isNaN y = false) (hxz : isZero x = false) (hyz : isZero y = false) :
    mul x y = inf (isNeg x != isNeg y) := by
  rw [mul_inf hx hy hi, hxz, hyz]; rfl

/-- `inf * ±0 = ±0 * inf = NaN` -/
theorem S2_mul_inf_zero {x y : Bits}
    (h : (isInf x = true ∧ isZero y = true) ∨ (isZero x = true ∧ isInf y = true)) :
    mul x y = canonNaN := by
  rcases h with ⟨h1, h2⟩ | ⟨h1, h2⟩
  · rw [mul_inf (inf_not_nan h1) (finite_not_nan (zero_is_finite h2)) (.inl h1), h2]; simp
  · rw [mul_inf (finite_not_nan (zero_is_finite h1)) (inf_not_nan h2) (.inr h2), h1]; simp

/-- `±inf / finite = inf`, sign = xor (also for a zero divisor: `inf / 0 = inf`) -/
theorem S2_div_inf_finite {x y : Bits} (hx : isInf x = true) (hy : isFinite y = true) :
    div x y = inf (isNeg x != isNeg y) := by
  rw [div_inf_left (inf_not_nan hx) (finite_not_nan hy) hx, finite_not_inf hy]; rfl

/-- `finite / ±inf = ±0`, sign = xor -/
theorem S2_div_finite_inf {x y : Bits} (hx : isFinite x = true) (hy : isInf y = true) :
    div x y = zero (isNeg x != isNeg y) :=
  div_inf_right (finite_not_nan hx) (inf_not_nan hy) (finite_not_inf hx) hy

/-- `±inf / ±inf = NaN` -/
theorem S2_div_inf_inf {x y : Bits} (hx : isInf x = true) (hy : isInf y = true) :
    div x y = canonNaN := by
  rw [div_inf_left (inf_not_nan hx) (inf_not_nan hy) hx, hy]; rfl

/-! ## S3. division by zero -/

/-- `nonzero finite / ±0 = ±inf`, sign = xor -/
theorem S3_div_nonzero_zero {x y : Bits} (hx : isFinite x = true) (hxz : isZero x = false)
    (hy : isZero y = true) : div x y = inf (isNeg x != isNeg y) := by
  rw [div_zero hx (zero_is_finite hy) hy, hxz]; rfl

/-- `±0 / ±0 = NaN` -/
theorem S3_div_zero_zero {x y : Bits} (hx : isZero x = true) (hy : isZero y = true) :
    div x y = canonNaN := by
  rw [div_zero (zero_is_finite hx) (zero_is_finite hy) hy, hx]; rfl

/-- every non-NaN, non-zero numerator over a zero: the infinity of the xor sign (S2 + S3 together) -/
theorem S3_div_by_zero {x y : Bits} (hx : isNaN x = false) (hxz : isZero x = false)
    (hy : isZero y = true) : div x y = inf (isNeg x != isNeg y) := by
  by_cases hi : isInf x = true
  · exact S2_div_inf_finite hi (zero_is_finite hy)
  · exact S3_div_nonzero_zero (finite_of_not_nan_inf hx (by simpa using hi)) hxz hy

end FloatSpecial
end Nl
