/- C07 extras, X4: optional `;` between/after statements and optional `,` between/after elements. -/
import Nlmodel.Proofs.Lemmas.C07ExtraElse
namespace Nl
namespace C07X
open RT RTF

/-- a statement WITHOUT its `;` -/
def printS0 : Stmt → List Token
  | .letS n e => [.kwDeclare, .ident n, .assign] ++ printE e
  | .ret e => [.kwReturn] ++ printE e
  | .expr e => printE e
  | .block b => braces (printStmts b)
  | .brk => [.kwBreak]
  | .cont => [.kwContinue]

theorem printS_eq (s : Stmt) : printS s = printS0 s ++ [.semi] := by
  cases s <;> simp [printS, printS0]

/-- THE CONDITION (decidable, on the next token): a `;` may be left out before `t` iff `t` does not continue an expression
    (its precedence in the parser's table is `Lowest`), is not itself `;` (it would be consumed) and is not `anders` -/
def sepFree (t : Token) : Bool := t.prec == 0 && t != .semi && t != .kwElse

/-- tokens that can begin a statement -/
def stmtStart (t : Token) : Bool :=
  exprStart t || t == .kwDeclare || t == .kwReturn || t == .kwBreak || t == .kwContinue || t == .lbrace

/-- among the tokens that can begin a statement, EXACTLY `(`, `[` and `-` need the `;` before them (`Printer.continues`) -/
theorem sepFree_iff (t : Token) (h : stmtStart t = true) : sepFree t = true ↔ (t ≠ .lparen ∧ t ≠ .lbracket ∧ t ≠ .minus) := by
  cases t <;> simp_all [stmtStart, exprStart, sepFree, Token.prec]

/-- ... and at the end of a program or block nothing is needed -/
theorem sepFree_end : sepFree .eof = true ∧ sepFree .rbrace = true := ⟨rfl, rfl⟩

theorem sepFree_facts {rest : List Token} (h : sepFree (cur rest) = true) :
    (cur rest).prec = 0 ∧ cur rest ≠ .semi ∧ NoElse rest := by
  simp only [sepFree, Bool.and_eq_true, beq_iff_eq, bne_iff_ne] at h
  exact ⟨h.1.1, h.1.2, h.2⟩

/-- (X4b, one statement) a printed statement without its `;` parses to the same statement before every `sepFree` token -/
theorem X4_stmt_nosemi (s : Stmt) (hs : WS s) (rest : List Token) (h : sepFree (cur rest) = true) :
    ∃ f, parseStatement f (printS0 s ++ rest) = .ok (s, rest) := by
  obtain ⟨h0, hsemi, hne⟩ := sepFree_facts h
  have hstop : Stops 0 rest := .inr (by omega)
  have hskip : skipOpt .semi rest = rest := by simp [skipOpt, hsemi]
  cases hs with
  | letS n e he =>
    obtain ⟨f, hf⟩ := top_ok e he rest hne hstop
    refine ⟨f + 1, ?_⟩
    have hts : printS0 (.letS n e) ++ rest = .kwDeclare :: .ident n :: .assign :: (printE e ++ rest) := by simp [printS0]
    rw [hts, parseStatement]
    simp only [cur, adv, skipTok, ↓reduceIte]
    rw [hf]
    simp only [hskip]
  | ret e he =>
    obtain ⟨f, hf⟩ := top_ok e he rest hne hstop
    refine ⟨f + 1, ?_⟩
    have hts : printS0 (.ret e) ++ rest = .kwReturn :: (printE e ++ rest) := by simp [printS0]
    rw [hts, parseStatement]
    simp only [cur, adv]
    rw [hf]
    simp only [hskip]
  | expr e he =>
    obtain ⟨f, hf⟩ := top_ok e he rest hne hstop
    refine ⟨f + 1, ?_⟩
    have hts : printS0 (.expr e) ++ rest = printE e ++ rest := by simp [printS0]
    rw [hts, stmt_of_expr (cur_expr e he rest) hf, hskip]
  | block b hb =>
    obtain ⟨f, hf⟩ := braces_ok b (gB b hb) rest
    refine ⟨f + 1, ?_⟩
    have hcur : cur (braces (printStmts b) ++ rest) = .lbrace := by simp [braces, cur]
    simp only [printS0]
    rw [parseStatement, hcur]
    simp only
    rw [hf]
    simp only [hskip]
  | brk =>
    refine ⟨1, ?_⟩
    simp only [printS0, List.cons_append, List.nil_append]
    rw [parseStatement]
    simp only [cur, adv, hskip]
  | cont =>
    refine ⟨1, ?_⟩
    simp only [printS0, List.cons_append, List.nil_append]
    rw [parseStatement]
    simp only [cur, adv, hskip]

theorem cur_stmt0 (s : Stmt) (hs : WS s) (rest : List Token) : cur (printS0 s ++ rest) ≠ .eof ∧ cur (printS0 s ++ rest) ≠ .rbrace := by
  cases hs with
  | letS n e _ => simp [printS0, cur]
  | ret e _ => simp [printS0, cur]
  | expr e he =>
    have hc := cur_expr e he rest
    simp only [printS0]
    constructor <;> intro hx <;> rw [hx] at hc <;> simp [exprStart] at hc
  | block b _ => simp [printS0, braces, cur]
  | brk => simp [printS0, cur]
  | cont => simp [printS0, cur]

/-- a statement sequence where the k-th `;` is written iff `ks[k]` (default: written), followed by `rest` -/
def printSeq : Block → List Bool → List Token → List Token
  | .nil, _, rest => rest
  | .cons s b, ks, rest => printS0 s ++ (if ks.headD true then .semi :: printSeq b ks.tail rest else printSeq b ks.tail rest)

/-- every omitted `;` stands before a `sepFree` token -/
def SeqOK : Block → List Bool → List Token → Prop
  | .nil, _, _ => True
  | .cons _ b, ks, rest => (ks.headD true = false → sepFree (cur (printSeq b ks.tail rest)) = true) ∧ SeqOK b ks.tail rest

/-- with every `;` written it is the printed form -/
theorem printSeq_all : (b : Block) → (rest : List Token) → printSeq b [] rest = printStmts b ++ rest ∧ SeqOK b [] rest
  | .nil, rest => ⟨rfl, trivial⟩
  | .cons s b, rest => by
    have ih := printSeq_all b rest
    refine ⟨?_, by simp [SeqOK, ih.2]⟩
    simp [printSeq, printStmts, printS_eq, ih.1, List.append_assoc]

/-- (X4a + X4b) OPTIONAL SEMICOLONS: a statement sequence (program: `ib = false`, block body: `ib = true`) in which any
    subset of the `;` — including the last one — is left out, each before a `sepFree` token, parses to the same block -/
theorem X4_seq : (b : Block) → WB b → ∀ (ks : List Bool) (ib : Bool) (rest : List Token),
    (cur rest = .eof ∨ (ib = true ∧ cur rest = .rbrace)) → SeqOK b ks rest →
    ∃ f, parseStmts f ib (printSeq b ks rest) = .ok (b, rest)
  | .nil, _, ks, ib, rest, hend, _ => ⟨1, stmts_end ib rest hend⟩
  | .cons s b, .cons _ _ hs hb, ks, ib, rest, hend, hok => by
    obtain ⟨f2, h2⟩ := X4_seq b hb ks.tail ib rest hend hok.2
    cases hk : ks.headD true with
    | true =>
      obtain ⟨f1, h1⟩ := gS s hs (printSeq b ks.tail rest)
      obtain ⟨c1, c2⟩ := cur_stmt s hs (printSeq b ks.tail rest)
      have hts : printSeq (.cons s b) ks rest = printS s ++ printSeq b ks.tail rest := by
        rw [printSeq, hk]; simp [printS_eq, List.append_assoc]
      rw [hts]
      exact ⟨_, stmts_step c1 c2 h1 h2⟩
    | false =>
      obtain ⟨f1, h1⟩ := X4_stmt_nosemi s hs (printSeq b ks.tail rest) (hok.1 hk)
      obtain ⟨c1, c2⟩ := cur_stmt0 s hs (printSeq b ks.tail rest)
      have hts : printSeq (.cons s b) ks rest = printS0 s ++ printSeq b ks.tail rest := by
        rw [printSeq, hk]; simp
      rw [hts]
      exact ⟨_, stmts_step c1 c2 h1 h2⟩

/-- (X4, program level, with the fuel `parse` supplies) same tree as the fully punctuated printed program -/
theorem X4_program (b : Block) (hb : WB b) (ks : List Bool) (hok : SeqOK b ks []) :
    parseTokens (printSeq b ks []) = .ok b ∧ parseTokens (printSeq b ks []) = parseTokens (printProgram b) := by
  obtain ⟨f, h⟩ := X4_seq b hb ks false [] (.inl rfl) hok
  have A := parseTokens_of_stmts h
  exact ⟨A, A.trans (print_parse_program b hb).symm⟩

/-- (X4, block level) the same inside braces: `{ a; b }`, `{ a; b; }`, `{ stop }`, `{ x = 1 antwoord x }` -/
theorem X4_block (b : Block) (hb : WB b) (ks : List Bool) (rest : List Token) (hok : SeqOK b ks (.rbrace :: rest)) :
    ∃ f, parseBlock f (.lbrace :: printSeq b ks (.rbrace :: rest)) = .ok (b, rest) := by
  obtain ⟨f, h⟩ := X4_seq b hb ks true (.rbrace :: rest) (.inr ⟨rfl, rfl⟩) hok
  refine ⟨f + 1, ?_⟩
  rw [parseBlock]
  simp only [skipTok, cur, adv, ↓reduceIte]
  rw [h]
  simp

/-- (X4a, the special case named in the property) the `;` of the LAST statement of a program is optional -/
theorem X4_last_semi (b : Block) (hb : WB b) (s : Stmt) (hs : WS s) :
    parseTokens (printStmts b ++ printS0 s) = .ok (b.append (.cons s .nil)) ∧
    parseTokens (printStmts b ++ printS s) = .ok (b.append (.cons s .nil)) := by
  obtain ⟨f1, h1⟩ := X4_stmt_nosemi s hs [] rfl
  obtain ⟨f2, h2⟩ := gS s hs []
  obtain ⟨c1, c2⟩ := cur_stmt0 s hs []
  obtain ⟨d1, d2⟩ := cur_stmt s hs []
  obtain ⟨g1, k1⟩ := stmts_prefix b hb false _ _ [] ⟨_, stmts_step c1 c2 h1 (stmts_end false [] (.inl rfl))⟩
  obtain ⟨g2, k2⟩ := stmts_prefix b hb false _ _ [] ⟨_, stmts_step d1 d2 h2 (stmts_end false [] (.inl rfl))⟩
  simp only [List.append_nil] at k1 k2
  exact ⟨parseTokens_of_stmts k1, parseTokens_of_stmts k2⟩

/-! ### (X4c) the condition is needed -/

/-- `a; (b);` is two statements, `a (b);` is a call; `a; [0];` / `a [0];` an index; `a; -b;` / `a -b;` a subtraction -/
theorem X4_condition_needed :
    parseTokens [.ident ['a'], .semi, .lparen, .ident ['b'], .rparen, .semi]
      = .ok (.cons (.expr (.ident ['a'])) (.cons (.expr (.ident ['b'])) .nil)) ∧
    parseTokens [.ident ['a'], .lparen, .ident ['b'], .rparen, .semi]
      = .ok (.cons (.expr (.call (.ident ['a']) (.cons (.ident ['b']) .nil))) .nil) ∧
    parseTokens [.ident ['a'], .semi, .lbracket, .int ['0'], .rbracket, .semi]
      = .ok (.cons (.expr (.ident ['a'])) (.cons (.expr (.arr (.cons (.int 0) .nil))) .nil)) ∧
    parseTokens [.ident ['a'], .lbracket, .int ['0'], .rbracket, .semi]
      = .ok (.cons (.expr (.index (.ident ['a']) (.int 0))) .nil) ∧
    parseTokens [.ident ['a'], .semi, .minus, .ident ['b'], .semi]
      = .ok (.cons (.expr (.ident ['a'])) (.cons (.expr (.pre .sub (.ident ['b']))) .nil)) ∧
    parseTokens [.ident ['a'], .minus, .ident ['b'], .semi]
      = .ok (.cons (.expr (.infix (.ident ['a']) .sub (.ident ['b']))) .nil) :=
  ⟨rfl, rfl, rfl, rfl, rfl, rfl⟩

/-- non-vacuity: `stel x = 1 x = x + 1 als x { stop } antwoord x` — no `;` at all -/
example : parseTokens [.kwDeclare, .ident ['x'], .assign, .int ['1'], .ident ['x'], .assign, .ident ['x'], .plus, .int ['1'],
      .kwIf, .ident ['x'], .lbrace, .kwBreak, .rbrace, .kwReturn, .ident ['x']]
    = .ok (.cons (.letS ['x'] (.int 1)) (.cons (.expr (.assign (.ident ['x']) (.infix (.ident ['x']) .add (.int 1))))
        (.cons (.expr (.ifE (.ident ['x']) (.cons .brk .nil) .none)) (.cons (.ret (.ident ['x'])) .nil)))) := by rfl

end C07X
end Nl
