/- End-to-end statement for one-expression scalar programs: compileR + VM.start + run (C01). -/
import Nlmodel.Proofs.Lemmas.SimScalar
namespace Nl
namespace Sim
open Spec

theorem fits_wf (i : Instr) (h : i.fits = true) : i.wf := by
  cases i <;> simp [Instr.fits, Instr.wf] at h ⊢ <;> first | omega | exact ⟨by omega, by omega, h.2⟩ | exact ⟨by omega, by omega⟩

/-- earlier entries of the accumulator are never changed by `loadConsts` -/
theorem loadConsts_prefix : ∀ (cs : List Const) (m : Mem) (vs : Array Value) (j : Nat), j < vs.size →
    (loadConsts cs (m, vs)).2[j]? = vs[j]? := by
  intro cs
  induction cs with
  | nil => intro m vs j _; rfl
  | cons c cs ih =>
    intro m vs j hj
    cases c with
    | int i => simp only [loadConsts]; rw [ih _ _ j (by simp; omega), Array.getElem?_push_lt hj, Array.getElem?_eq_getElem hj]
    | fn ip nl => simp only [loadConsts]; rw [ih _ _ j (by simp; omega), Array.getElem?_push_lt hj, Array.getElem?_eq_getElem hj]
    | float b => simp only [loadConsts]; rw [ih _ _ j (by simp; omega), Array.getElem?_push_lt hj, Array.getElem?_eq_getElem hj]
    | str t => simp only [loadConsts]; rw [ih _ _ j (by simp; omega), Array.getElem?_push_lt hj, Array.getElem?_eq_getElem hj]

/-- the constants of a run realise the integer entries of the pool -/
theorem loadConsts_ints : ∀ (cs : List Const) (m : Mem) (vs : Array Value) (k : Nat) (i : Int),
    cs[k]? = some (.int i) → (loadConsts cs (m, vs)).2[vs.size + k]? = some (.int i) := by
  intro cs
  induction cs with
  | nil => intro m vs k i h; simp at h
  | cons c cs ih =>
    intro m vs k i h
    cases k with
    | zero =>
      simp only [List.getElem?_cons_zero, Option.some.injEq] at h
      subst h
      simp only [loadConsts, Nat.add_zero]
      rw [loadConsts_prefix _ _ _ vs.size (by simp)]
      simp
    | succ k =>
      simp only [List.getElem?_cons_succ] at h
      have e : vs.size + (k + 1) = (vs.size + 1) + k := by omega
      cases c with
      | int j => simp only [loadConsts]; have := ih m (vs.push (.int j)) k i h; simpa [e] using this
      | fn ip nl => simp only [loadConsts]; have := ih m (vs.push (.fn ip nl)) k i h; simpa [e] using this
      | float b =>
        simp only [loadConsts]
        have := ih (m.allocFloat b).1 (vs.push (m.allocFloat b).2) k i h
        simpa [e] using this
      | str t =>
        simp only [loadConsts]
        have := ih (m.allocStr t).1 (vs.push (m.allocStr t).2) k i h
        simpa [e] using this

theorem start_pool (bc : Bytecode) (prev : VM) : PoolOK (prev.start bc).cvals bc.consts := by
  intro k i h
  have := loadConsts_ints bc.consts { heap := prev.mem.heap, managed := [] } #[] k i h
  simpa [VM.start] using this

theorem run_halt (C : Code) (n : Nat) (s s1 : VM) (v : Value) (s2 : VM) (h1 : execN C n s = some s1)
    (h2 : step C s1 = .halt v s2) : ∀ k, runSteps C (n + 1 + k) s = .value v s2 := by
  intro k
  induction n generalizing s with
  | zero => simp [execN] at h1; subst h1; simp [runSteps, h2, Nat.add_comm]
  | succ n ih =>
    have e' : n + 1 + 1 + k = (n + 1 + k) + 1 := by omega
    rw [e']
    simp only [execN] at h1
    simp only [runSteps]
    cases hs : step C s with
    | next s' => rw [hs] at h1; exact ih s' h1
    | halt v s' => rw [hs] at h1; simp at h1
    | error e s' => rw [hs] at h1; simp at h1
    | fault site => rw [hs] at h1; simp at h1

/-- a one-expression program: what `compileR` produces -/
theorem compile_single (e : RExpr) (bc : Bytecode) (hc : compileR (.cons (.expr e) .nil) = .ok bc) :
    bc.code = (encodeAll ((emitE e 0 none []).1 ++ [.pop] ++ [.halt])).toArray ∧ bc.consts = (emitE e 0 none []).2
    ∧ ∀ i ∈ (emitE e 0 none []).1 ++ [.pop] ++ [.halt], i.wf := by
  unfold compileR at hc
  simp only [emitB, emitS, List.append_nil] at hc
  split at hc
  · rename_i hfit
    injection hc with hc
    subst hc
    refine ⟨by simp, rfl, ?_⟩
    intro i hi
    simp only [Bool.and_eq_true, List.all_eq_true] at hfit
    exact fits_wf i (hfit.1 i (by simpa using hi))
  · simp at hc

/-- END TO END for one-expression scalar programs: if the definitional evaluator gives a value
    (an error), then running the bytes produced by the compiler model on a fresh machine halts with
    that value (fails with that error), for every sufficiently large instruction budget -/
theorem scalar_program (e : RExpr) (hsc : Sc e) (bc : Bytecode) (hc : compileR (.cons (.expr e) .nil) = .ok bc)
    (f : Nat) :
    match evalE f e {} with
    | .val v _ => ∃ mv n, toVal v = some mv ∧ ∀ k, ∃ s', runSteps bc.code (n + k) (VM.start {} bc) = .value mv s'
    | .err er _ => ∃ n, ∀ k, ∃ s', runSteps bc.code (n + k) (VM.start {} bc) = .error er s'
    | _ => True := by
  obtain ⟨hcode, hconsts, hwf⟩ := compile_single e bc hc
  have hall : CodeAt bc.code 0 ((emitE e 0 none []).1 ++ [.pop] ++ [.halt]) :=
    ⟨hwf, [], [], by simp [hcode], rfl⟩
  obtain ⟨h12, hhalt⟩ := hall.append
  obtain ⟨h1, hpop⟩ := h12.append
  have hpool : PoolOK (VM.start {} bc).cvals (emitE e 0 none []).2 := by
    rw [← hconsts]; exact start_pool bc {}
  have hsim := sim_sc f e {} hsc 0 none [] bc.code (VM.start {} bc) h1 hpool (by simp [VM.start])
  cases hr : evalE f e {} with
  | val v st' =>
    rw [hr] at hsim
    obtain ⟨_, mv, hmv, n, hn⟩ := hsim
    simp only
    refine ⟨mv, n + 1 + 1, hmv, ?_⟩
    -- Pop, then Halt
    simp only [codeSize_append, emitE_size, Nat.zero_add, codeSize_cons, codeSize_nil, Instr.size] at hpop hhalt
    let S1 : VM := { (VM.start {} bc) with ip := 0 + sizeE e, stack := (VM.start {} bc).stack.push mv }
    have hs1 : step bc.code S1 = .next { S1 with ip := sizeE e + 1, stack := (VM.start {} bc).stack, last := mv } := by
      have := step_at (s := S1) (i := .pop) (rest := []) (by simpa [S1] using hpop)
      rw [this]; simp [exec, S1, pop1_push, Instr.size]
    have hn2 : execN bc.code (n + 1) (VM.start {} bc) = some { S1 with ip := sizeE e + 1, stack := (VM.start {} bc).stack, last := mv } := by
      apply execN_add bc.code n 1 _ S1 _ hn
      simp [execN, hs1]
    have hs2 : step bc.code { S1 with ip := sizeE e + 1, stack := (VM.start {} bc).stack, last := mv } =
        .halt mv { S1 with ip := sizeE e + 1 + 1, stack := (VM.start {} bc).stack, last := mv } := by
      have := step_at (s := { S1 with ip := sizeE e + 1, stack := (VM.start {} bc).stack, last := mv }) (i := .halt) (rest := [])
        (by simpa using hhalt)
      rw [this]; simp [exec, Instr.size]
    intro k
    exact ⟨_, by have := run_halt bc.code (n + 1) _ _ mv _ hn2 hs2 k; simpa [Nat.add_assoc] using this⟩
  | err er st' =>
    rw [hr] at hsim
    obtain ⟨_, n, s1, s2, hn, hs⟩ := hsim
    simp only
    exact ⟨n + 1, fun k => ⟨s2, run_error bc.code n _ s1 er s2 hn hs k⟩⟩
  | fuel => trivial
  | brk _ => trivial
  | cont _ => trivial
  | ret _ _ => trivial
  | unspec _ => trivial

end Sim
end Nl
