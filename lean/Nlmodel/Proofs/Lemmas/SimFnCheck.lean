/- Stage 4: a decidable, sound check for membership in the fragment (validates the resolver output program by program). -/
import Nlmodel.Proofs.Lemmas.SimFnProgram
namespace Nl
namespace SimF
open Spec Sim

/-! ## a decidable check for membership in the stage-4 fragment (translation validation of the resolver's output) -/

def memG (Γ : Gam) (b k : Nat) : Bool := Γ.any (fun p => p.1 == b && p.2 == k)
def freshG (Γ : Gam) (b k : Nat) : Bool := Γ.all (fun p => p.1 != b && p.2 != k)

theorem memG_sound {Γ : Gam} {b k : Nat} (h : memG Γ b k = true) : (b, k) ∈ Γ := by
  simp only [memG, List.any_eq_true, Bool.and_eq_true, beq_iff_eq] at h
  obtain ⟨p, hp, h1, h2⟩ := h
  cases p; simp only at h1 h2; subst h1; subst h2; exact hp

theorem freshG_sound {Γ : Gam} {b k : Nat} (h : freshG Γ b k = true) : ∀ p ∈ Γ, p.1 ≠ b ∧ p.2 ≠ k := by
  simp only [freshG, List.all_eq_true, Bool.and_eq_true, bne_iff_ne] at h
  exact h

def gamOKb : Gam → Bool
  | [] => true
  | p :: rest => freshG rest p.1 p.2 && gamOKb rest

theorem gamOKb_sound : ∀ (Γ : Gam), gamOKb Γ = true → GamOK Γ
  | [], _ => by simp [GamOK]
  | p :: rest, h => by
    simp only [gamOKb, Bool.and_eq_true] at h
    have := gamOK_cons (gamOKb_sound rest h.2) p.1 p.2 (freshG_sound h.1)
    simpa using this

mutual
def chkE (nl : Nat) (fn : Bool) (Γ Λ : Gam) (ab : Bool) : RExpr → Bool
  | .int _ => true
  | .bool _ => true
  | .not e => chkE nl fn Γ Λ ab e
  | .neg e => chkE nl fn Γ Λ ab e
  | .infix l op r =>
    match fusedCandidate l op r with
    | none => chkE nl fn Γ Λ ab l && chkE nl fn Γ Λ false r
    | some _ =>
      match l, r with
      | .var ⟨b, .loc k⟩, .int _ => memG Λ b k && decide (k < nl)
      | .int _, .var ⟨b, .loc k⟩ => memG Λ b k && decide (k < nl)
      | _, _ => false
  | .var ⟨b, .global k⟩ => memG Γ b k
  | .var ⟨b, .loc k⟩ => memG Λ b k && decide (k < nl)
  | .assignVar ⟨b, .global k⟩ e => memG Γ b k && chkE nl fn Γ Λ ab e
  | .assignVar ⟨b, .loc k⟩ e => memG Λ b k && decide (k < nl) && chkE nl fn Γ Λ ab e
  | .ifE c t e => chkE nl fn Γ Λ ab c && (chkB nl fn Γ Λ ab t).isSome && chkO nl fn Γ Λ ab e
  | .whileE c b => chkE nl fn Γ Λ false c && (chkB nl fn Γ Λ true b).isSome
  | .call f as => chkEs nl fn Γ Λ as && chkE nl fn Γ Λ false f
  | _ => false
def chkEs (nl : Nat) (fn : Bool) (Γ Λ : Gam) : RExprs → Bool
  | .nil => true
  | .cons e es => chkE nl fn Γ Λ false e && chkEs nl fn Γ Λ es
def chkO (nl : Nat) (fn : Bool) (Γ Λ : Gam) (ab : Bool) : ROptBlock → Bool
  | .none => true
  | .some b => (chkB nl fn Γ Λ ab b).isSome
def chkS (nl : Nat) (fn : Bool) (Γ Λ : Gam) (ab : Bool) : RStmt → Option (Gam × Gam)
  | .expr e => if chkE nl fn Γ Λ ab e then some (Γ, Λ) else none
  | .letS ⟨b, .global k⟩ e =>
    if !fn && freshG Γ b k && chkE nl fn ((b, k) :: Γ) Λ ab e then some ((b, k) :: Γ, Λ) else none
  | .letS ⟨b, .loc k⟩ e =>
    if fn && freshG Λ b k && decide (k < nl) && chkE nl fn Γ ((b, k) :: Λ) ab e then some (Γ, (b, k) :: Λ) else none
  | .block b => if (chkB nl fn Γ Λ ab b).isSome then some (Γ, Λ) else none
  | .brk => if ab then some (Γ, Λ) else none
  | .cont => if ab then some (Γ, Λ) else none
  | .ret e => if fn && chkE nl fn Γ Λ ab e then some (Γ, Λ) else none
def chkB (nl : Nat) (fn : Bool) (Γ Λ : Gam) (ab : Bool) : RBlock → Option (Gam × Gam)
  | .nil => some (Γ, Λ)
  | .cons s b =>
    match chkS nl fn Γ Λ ab s with
    | some (Γ1, Λ1) => chkB nl fn Γ1 Λ1 ab b
    | none => none
end

theorem fusedCandidate_varL (b k : Nat) (op : BinOp) (v : Int) (p : BinOp × Nat × Int)
    (h : fusedCandidate (.var ⟨b, .loc k⟩) op (.int v) = some p) : p = (op, k, v) := by
  simp only [fusedCandidate] at h
  split at h
  · injection h with h; exact h.symm
  · cases h

theorem fusedCandidate_intL (b k : Nat) (op : BinOp) (v : Int) (p : BinOp × Nat × Int)
    (h : fusedCandidate (.int v) op (.var ⟨b, .loc k⟩) = some p) : ∃ op', mirrorOp op = some op' := by
  simp only [fusedCandidate] at h
  split at h
  · rename_i op' hm; exact ⟨op', hm⟩
  · cases h

mutual
theorem chkE_sound (nl : Nat) (fn : Bool) : (e : RExpr) → ∀ (Γ Λ : Gam) (ab : Bool), chkE nl fn Γ Λ ab e = true → YE nl fn Γ Λ ab e
  | .int v, Γ, Λ, ab, _ => .int _ _ _ v
  | .bool b, Γ, Λ, ab, _ => .bool _ _ _ b
  | .not e, Γ, Λ, ab, h => by simp only [chkE] at h; exact .not _ _ _ e (chkE_sound nl fn e Γ Λ ab h)
  | .neg e, Γ, Λ, ab, h => by simp only [chkE] at h; exact .neg _ _ _ e (chkE_sound nl fn e Γ Λ ab h)
  | .infix l op r, Γ, Λ, ab, h => by
    simp only [chkE] at h
    cases hfc : fusedCandidate l op r with
    | none =>
      simp only [hfc, Bool.and_eq_true] at h
      exact .bin _ _ _ l op r hfc (chkE_sound nl fn l Γ Λ ab h.1) (chkE_sound nl fn r Γ Λ false h.2)
    | some p =>
      simp only [hfc] at h
      split at h
      · rename_i b k v
        simp only [Bool.and_eq_true, decide_eq_true_eq] at h
        have hp := fusedCandidate_varL b k op v p hfc
        subst hp
        exact .fusedL _ _ _ b k op v (memG_sound h.1) h.2 hfc
      · rename_i v b k
        simp only [Bool.and_eq_true, decide_eq_true_eq] at h
        obtain ⟨op', hm⟩ := fusedCandidate_intL b k op v p hfc
        exact .fusedR _ _ _ b k op op' v (memG_sound h.1) h.2 hm
      · cases h
  | .var ⟨b, .global k⟩, Γ, Λ, ab, h => by simp only [chkE] at h; exact .varG _ _ _ b k (memG_sound h)
  | .var ⟨b, .loc k⟩, Γ, Λ, ab, h => by
    simp only [chkE, Bool.and_eq_true, decide_eq_true_eq] at h; exact .varL _ _ _ b k (memG_sound h.1) h.2
  | .assignVar ⟨b, .global k⟩ e, Γ, Λ, ab, h => by
    simp only [chkE, Bool.and_eq_true] at h; exact .assignG _ _ _ b k e (memG_sound h.1) (chkE_sound nl fn e Γ Λ ab h.2)
  | .assignVar ⟨b, .loc k⟩ e, Γ, Λ, ab, h => by
    simp only [chkE, Bool.and_eq_true, decide_eq_true_eq] at h
    exact .assignL _ _ _ b k e (memG_sound h.1.1) h.1.2 (chkE_sound nl fn e Γ Λ ab h.2)
  | .ifE c t e, Γ, Λ, ab, h => by
    simp only [chkE, Bool.and_eq_true] at h
    obtain ⟨⟨hc, ht⟩, he⟩ := h
    cases hb : chkB nl fn Γ Λ ab t with
    | none => simp [hb] at ht
    | some q => exact .ifE _ _ _ c t e q.1 q.2 (chkE_sound nl fn c Γ Λ ab hc) (chkB_sound nl fn t Γ Λ ab q.1 q.2 hb) (chkO_sound nl fn e Γ Λ ab he)
  | .whileE c b, Γ, Λ, ab, h => by
    simp only [chkE, Bool.and_eq_true] at h
    cases hb : chkB nl fn Γ Λ true b with
    | none => simp [hb] at h
    | some q => exact .whileE _ _ _ c b q.1 q.2 (chkE_sound nl fn c Γ Λ false h.1) (chkB_sound nl fn b Γ Λ true q.1 q.2 hb)
  | .call f as, Γ, Λ, ab, h => by
    simp only [chkE, Bool.and_eq_true] at h
    exact .call _ _ _ f as (chkEs_sound nl fn as Γ Λ h.1) (chkE_sound nl fn f Γ Λ false h.2)
  | .float _, _, _, _, h => by simp [chkE] at h
  | .str _, _, _, _, h => by simp [chkE] at h
  | .assignIndex _ _ _, _, _, _, h => by simp [chkE] at h
  | .func _ _ _ _ _, _, _, _, h => by simp [chkE] at h
  | .callBuiltin _ _, _, _, _, h => by simp [chkE] at h
  | .arr _, _, _, _, h => by simp [chkE] at h
  | .index _ _, _, _, _, h => by simp [chkE] at h
theorem chkEs_sound (nl : Nat) (fn : Bool) : (es : RExprs) → ∀ (Γ Λ : Gam), chkEs nl fn Γ Λ es = true → YEs nl fn Γ Λ es
  | .nil, Γ, Λ, _ => .nil _ _
  | .cons e es, Γ, Λ, h => by
    simp only [chkEs, Bool.and_eq_true] at h
    exact .cons _ _ e es (chkE_sound nl fn e Γ Λ false h.1) (chkEs_sound nl fn es Γ Λ h.2)
theorem chkO_sound (nl : Nat) (fn : Bool) : (o : ROptBlock) → ∀ (Γ Λ : Gam) (ab : Bool), chkO nl fn Γ Λ ab o = true → YO nl fn Γ Λ ab o
  | .none, Γ, Λ, ab, _ => .none _ _ _
  | .some b, Γ, Λ, ab, h => by
    simp only [chkO] at h
    cases hb : chkB nl fn Γ Λ ab b with
    | none => simp [hb] at h
    | some q => exact .some _ _ _ b q.1 q.2 (chkB_sound nl fn b Γ Λ ab q.1 q.2 hb)
theorem chkS_sound (nl : Nat) (fn : Bool) : (s : RStmt) → ∀ (Γ Λ : Gam) (ab : Bool) (Γ1 Λ1 : Gam), chkS nl fn Γ Λ ab s = some (Γ1, Λ1) →
    YS nl fn Γ Λ ab s Γ1 Λ1
  | .expr e, Γ, Λ, ab, Γ1, Λ1, h => by
    simp only [chkS] at h
    split at h
    · rename_i hc; injection h with h; injection h with h1 h2; subst h1; subst h2
      exact .expr _ _ _ e (chkE_sound nl fn e Γ Λ ab hc)
    · cases h
  | .letS ⟨b, .global k⟩ e, Γ, Λ, ab, Γ1, Λ1, h => by
    simp only [chkS] at h
    split at h
    · rename_i hc; injection h with h; injection h with h1 h2; subst h1; subst h2
      simp only [Bool.and_eq_true, Bool.not_eq_true'] at hc
      exact .letG _ _ _ b k e hc.1.1 (freshG_sound hc.1.2) (chkE_sound nl fn e _ Λ ab hc.2)
    · cases h
  | .letS ⟨b, .loc k⟩ e, Γ, Λ, ab, Γ1, Λ1, h => by
    simp only [chkS] at h
    split at h
    · rename_i hc; injection h with h; injection h with h1 h2; subst h1; subst h2
      simp only [Bool.and_eq_true, decide_eq_true_eq] at hc
      exact .letL _ _ _ b k e hc.1.1.1 (freshG_sound hc.1.1.2) hc.1.2 (chkE_sound nl fn e Γ _ ab hc.2)
    · cases h
  | .block b, Γ, Λ, ab, Γ1, Λ1, h => by
    simp only [chkS] at h
    split at h
    · rename_i hc; injection h with h; injection h with h1 h2; subst h1; subst h2
      cases hb : chkB nl fn Γ Λ ab b with
      | none => simp [hb] at hc
      | some q => exact .block _ _ _ b q.1 q.2 (chkB_sound nl fn b Γ Λ ab q.1 q.2 hb)
    · cases h
  | .brk, Γ, Λ, ab, Γ1, Λ1, h => by
    simp only [chkS] at h
    split at h
    · rename_i hc; injection h with h; injection h with h1 h2; subst h1; subst h2; subst hc; exact .brk _ _
    · cases h
  | .cont, Γ, Λ, ab, Γ1, Λ1, h => by
    simp only [chkS] at h
    split at h
    · rename_i hc; injection h with h; injection h with h1 h2; subst h1; subst h2; subst hc; exact .cont _ _
    · cases h
  | .ret e, Γ, Λ, ab, Γ1, Λ1, h => by
    simp only [chkS] at h
    split at h
    · rename_i hc; injection h with h; injection h with h1 h2; subst h1; subst h2
      simp only [Bool.and_eq_true] at hc
      exact .ret _ _ _ e hc.1 (chkE_sound nl fn e Γ Λ ab hc.2)
    · cases h
theorem chkB_sound (nl : Nat) (fn : Bool) : (b : RBlock) → ∀ (Γ Λ : Gam) (ab : Bool) (Γ1 Λ1 : Gam), chkB nl fn Γ Λ ab b = some (Γ1, Λ1) →
    YB nl fn Γ Λ ab b Γ1 Λ1
  | .nil, Γ, Λ, ab, Γ1, Λ1, h => by
    simp only [chkB] at h; injection h with h; injection h with h1 h2; subst h1; subst h2; exact .nil _ _ _
  | .cons s b, Γ, Λ, ab, Γ1, Λ1, h => by
    simp only [chkB] at h
    cases hs : chkS nl fn Γ Λ ab s with
    | none => simp [hs] at h
    | some q =>
      obtain ⟨Γ2, Λ2⟩ := q
      simp only [hs] at h
      exact .cons _ _ _ Γ2 Λ2 _ _ s b (chkS_sound nl fn s Γ Λ ab Γ2 Λ2 hs) (chkB_sound nl fn b Γ2 Λ2 ab Γ1 Λ1 h)
end

end SimF
end Nl
