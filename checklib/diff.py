"""Differential comparison of the implementation with the model / the definitional semantics."""
from . import core
from .core import hx

BUDGET = 300000


def obs(ans):
    """the observation part of an answer (before ' # ')"""
    return ans.split(" # ")[0]


def stats(ans):
    if " # " not in ans:
        return {}
    d = {}
    for kv in ans.split(" # ", 1)[1].split(" "):
        if "=" in kv:
            k, v = kv.split("=", 1)
            d[k] = v
    return d


def eval_all(programs, budget=BUDGET, want_spec=True, profile="release"):
    """returns list of dict(impl=, model=, spec=) answers"""
    reqs = ["evalx %d %s" % (budget, hx(p)) for p in programs]
    impl = core.impl(reqs, profile=profile)
    model = core.model(reqs)
    spec = core.model(["spec %d %s" % (budget, hx(p)) for p in programs]) if want_spec else [None] * len(programs)
    return [dict(src=p, impl=i, model=m, spec=s) for p, i, m, s in zip(programs, impl, model, spec)]


def classify(r):
    """-> (kind, detail). kinds: ok, excluded-*, impl-bad, spec-mismatch, model-mismatch"""
    i = r["impl"]
    io = obs(i)
    if io.startswith(("PANIC", "FAULT", "CRASH", "TIMEOUT")):
        return "impl-bad", io
    st = stats(i)
    if st and (st.get("dfree", "0") != "0" or st.get("uaf", "0") != "0" or st.get("live", "0") != "0"):
        return "impl-bad", "heap ledger: " + i.split(" # ", 1)[1]
    if io == "BUDGET":
        return "excluded-budget", ""
    s = r.get("spec")
    if r.get("model") is not None and obs(r["model"]).startswith(("TIMEOUT", "CRASH")):
        # the MODEL did not answer (too slow / died): nothing can be concluded about the implementation from this case
        return "excluded-model-unavailable", obs(r["model"])
    if s is not None and s.startswith(("TIMEOUT", "CRASH")):
        return "excluded-model-unavailable", s
    if r.get("model") and stats(r["model"]).get("limit") == "1" and obs(r["model"]) == io:
        # the machine hit its stack/frame limit (DESIGN 4.3 U7): the definitional semantics has no limits;
        # implementation and machine model agree on where it happens
        return "excluded-limit", ""
    if s is not None:
        if s == "UNSPEC":
            return "excluded-unspec", ""
        if s == "BUDGET":
            return "excluded-specfuel", ""
        if s != io:
            return "spec-mismatch", "impl: %s spec: %s" % (io, s)
    m = r["model"]
    if m is not None:
        mo = obs(m)
        if mo == "BUDGET":
            return "excluded-budget", ""
        if mo != io:
            return "model-mismatch", "impl: %s model: %s" % (io, mo)
        ms, ist = stats(m), stats(i)
        for k in ("steps", "halt", "gc", "hash"):
            if k in ms and k in ist and ms[k] != ist[k]:
                return "model-mismatch", "stat %s impl=%s model=%s" % (k, ist[k][:80], ms[k][:80])
    return "ok", ""


def shrink_lines(src, still_fails, max_rounds=200):
    """greedy removal of lines / brace-balanced chunks while the failure persists"""
    import time
    deadline = time.time() + 120.0      # shrinking is a convenience: never let it dominate a check
    lines = src.split("\n")
    rounds = 0
    changed = True
    while changed and rounds < max_rounds and time.time() < deadline:
        changed = False
        n = len(lines)
        size = max(1, n // 2)
        while size >= 1:
            i = 0
            while i < len(lines):
                cand = lines[:i] + lines[i + size:]
                rounds += 1
                if cand != lines and still_fails("\n".join(cand)):
                    lines = cand
                    changed = True
                else:
                    i += size
                if rounds >= max_rounds or time.time() > deadline:
                    break
            size //= 2
            if rounds >= max_rounds or time.time() > deadline:
                break
    return "\n".join(lines)


def one(src, budget=BUDGET, want_spec=True, per_request_timeout=None):
    if per_request_timeout:
        reqs = ["evalx %d %s" % (budget, hx(src))]
        impl = core.impl(reqs, per_request_timeout=per_request_timeout, total_timeout=per_request_timeout)
        model = core.model(reqs, per_request_timeout=per_request_timeout, total_timeout=per_request_timeout)
        spec = core.model(["spec %d %s" % (budget, hx(src))], per_request_timeout=per_request_timeout, total_timeout=per_request_timeout) if want_spec else [None]
        return dict(src=src, impl=impl[0], model=model[0], spec=spec[0])
    return eval_all([src], budget, want_spec)[0]
