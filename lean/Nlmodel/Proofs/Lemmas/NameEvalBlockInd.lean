/- C09, clause (c), general inner block: the induction on the fuel over the five evaluator functions of `NameEval`
   for the invariant `Keep` of NameEvalBlockBase.lean; result `pall`. -/
import Nlmodel.Proofs.Lemmas.NameEvalBlockBase
namespace Nl
namespace NameEval
open Spec

/-! ### the induction on the fuel over the five evaluator functions -/

def PE (x : Text) (f : Nat) : Prop := ∀ (e : Expr) (ρ ρ' : NState) (A : Prop), (A → x ∉ assignsE e) →
  stOf (evalE f e ρ) = some ρ' → Keep x A ρ.scopes ρ'.scopes
def PL (x : Text) (f : Nat) : Prop := ∀ (c : Expr) (b : Block) (acc : SVal) (ρ ρ' : NState) (A : Prop),
  (A → x ∉ assignsE c) → (A → x ∉ assignsB b) →
  stOf (evalLoop f c b acc ρ) = some ρ' → Keep x A ρ.scopes ρ'.scopes
def PS (x : Text) (f : Nat) : Prop := ∀ (s : Stmt) (ρ ρ' : NState) (A : Prop), (A → x ∉ assignsS s) →
  stOf (evalS f s ρ) = some ρ' → Keep x A ρ.scopes ρ'.scopes
def PSs (x : Text) (f : Nat) : Prop := ∀ (b : Block) (ρ ρ' : NState) (A : Prop), (A → x ∉ assignsB b) →
  stOf (evalSs f b ρ) = some ρ' → Keep x A ρ.scopes ρ'.scopes
def PBs (x : Text) (f : Nat) : Prop := ∀ (b : Block) (ρ ρ' : NState) (A : Prop), (A → x ∉ assignsB b) →
  stOf (evalBVs f b ρ) = some ρ' → Keep x A ρ.scopes ρ'.scopes
def PAll (x : Text) (f : Nat) : Prop := PE x f ∧ PL x f ∧ PS x f ∧ PSs x f ∧ PBs x f

/-- the sub-evaluation's result `hx` is the whole result: pass its invariant on -/
macro "pass_st" h:ident hx:ident ih:ident : tactic => `(tactic|
  (rw [$hx:ident] at $ih:ident; simp only [$hx:ident] at $h:ident
   first
     | (simp only [stOf, Option.some.injEq] at $h:ident; subst $h:ident; exact $ih:ident _ rfl)
     | (simp [stOf] at $h:ident)))

/-- the result carries the state the evaluation started in -/
macro "same_st" h:ident : tactic => `(tactic|
  (simp only [evalE, evalS, evalSs, evalBVs, stOf, Option.some.injEq] at $h:ident; subst $h:ident; exact Keep.refl _ _ _))

theorem pe_succ (x : Text) (f : Nat) (q : PAll x f) : PE x (f + 1) := by
  obtain ⟨qe, ql, qs, qss, qbs⟩ := q
  intro e ρ ρ' A hA h
  cases e with
  | int v => same_st h
  | bool b => same_st h
  | float b => same_st h
  | str b => same_st h
  | func a b c => same_st h
  | call a b => same_st h
  | arr a => same_st h
  | index a b => same_st h
  | ident n =>
    simp only [evalE] at h
    cases hl : lookup ρ.scopes n with
    | none => simp only [hl] at h; same_st h
    | some o => cases o <;> (simp only [hl] at h; same_st h)
  | pre op r =>
    have ih := fun σ => qe r ρ σ A (by simpa [assignsE] using hA)
    cases op
    case not =>
      simp only [evalE] at h
      cases hx : evalE f r ρ with
      | val a st1 =>
        rw [hx] at ih; simp only [hx] at h
        cases a <;> (simp only [stOf, Option.some.injEq] at h; subst h; exact ih _ rfl)
      | _ => pass_st h hx ih
    case sub =>
      simp only [evalE] at h
      cases hx : evalE f r ρ with
      | val a st1 =>
        rw [hx] at ih; simp only [hx] at h
        cases a
        case int i =>
          cases hr : inRange (-i) <;>
            (simp only [hr, Bool.false_eq_true, ↓reduceIte, stOf, Option.some.injEq] at h; subst h; exact ih _ rfl)
        all_goals (simp only [stOf, Option.some.injEq] at h; subst h; exact ih _ rfl)
      | _ => pass_st h hx ih
    all_goals same_st h
  | «infix» l op r =>
    have hA1 : A → x ∉ assignsE l := fun a => by have := hA a; simp only [assignsE, List.mem_append, not_or] at this; exact this.1
    have hA2 : A → x ∉ assignsE r := fun a => by have := hA a; simp only [assignsE, List.mem_append, not_or] at this; exact this.2
    simp only [evalE] at h
    cases hb : binOf op with
    | none => simp only [hb] at h; same_st h
    | some bop =>
      simp only [hb] at h
      have ih1 := fun σ => qe l ρ σ A hA1
      cases hx : evalE f l ρ with
      | val a st1 =>
        rw [hx] at ih1; simp only [hx] at h
        have k1 := ih1 st1 rfl
        have ih2 := fun σ hσ => k1.trans (qe r st1 σ A hA2 hσ)
        cases hy : evalE f r st1 with
        | val b st2 =>
          rw [hy] at ih2; simp only [hy] at h
          cases hc : binopCore bop (st2.mem.view a) (st2.mem.view b) <;>
            (simp only [hc, stOf, Option.some.injEq] at h; subst h; exact ih2 st2 rfl)
        | _ => pass_st h hy ih2
      | _ => pass_st h hx ih1
  | assign l r =>
    cases l with
    | ident n =>
      have hA1 : A → x ≠ n := fun a => by have := hA a; simp only [assignsE, targetOf, List.mem_append, List.mem_singleton, not_or] at this; exact this.1
      have hA2 : A → x ∉ assignsE r := fun a => by have := hA a; simp only [assignsE, targetOf, List.mem_append, not_or] at this; exact this.2.2
      simp only [evalE] at h
      have ih := fun σ => qe r ρ σ A hA2
      cases hx : evalE f r ρ with
      | val v st1 =>
        rw [hx] at ih; simp only [hx] at h
        cases ha : st1.assign n v with
        | none => simp only [ha, stOf, Option.some.injEq] at h; subst h; exact ih _ rfl
        | some st2 =>
          simp only [ha, stOf, Option.some.injEq] at h; subst h
          exact (ih _ rfl).trans (Keep.of_update (assign_scopes ha) hA1)
      | _ => pass_st h hx ih
    | _ => same_st h
  | ifE c t e =>
    have hA1 : A → x ∉ assignsE c := fun a => by have := hA a; simp only [assignsE, List.mem_append, not_or] at this; exact this.1
    have hA2 : A → x ∉ assignsB t := fun a => by have := hA a; simp only [assignsE, List.mem_append, not_or] at this; exact this.2.1
    have hA3 : A → x ∉ assignsO e := fun a => by have := hA a; simp only [assignsE, List.mem_append, not_or] at this; exact this.2.2
    simp only [evalE] at h
    have ih := fun σ => qe c ρ σ A hA1
    cases hx : evalE f c ρ with
    | val a st1 =>
      rw [hx] at ih; simp only [hx] at h
      have k1 := ih _ rfl
      cases a
      case bool bb =>
        cases bb with
        | true => exact k1.trans (Keep.block _ st1 ρ' (fun σ hσ => qbs t st1.push σ A hA2 hσ) h)
        | false =>
          cases e with
          | none => simp only [stOf, Option.some.injEq] at h; subst h; exact k1
          | some b => exact k1.trans (Keep.block _ st1 ρ' (fun σ hσ => qbs b st1.push σ A (by simpa [assignsO] using hA3) hσ) h)
      all_goals (simp only [stOf, Option.some.injEq] at h; subst h; exact k1)
    | _ => pass_st h hx ih
  | whileE c b =>
    simp only [evalE] at h
    exact ql c b .null ρ ρ' A
      (fun a => by have := hA a; simp only [assignsE, List.mem_append, not_or] at this; exact this.1)
      (fun a => by have := hA a; simp only [assignsE, List.mem_append, not_or] at this; exact this.2) h

theorem pl_succ (x : Text) (f : Nat) (q : PAll x f) : PL x (f + 1) := by
  obtain ⟨qe, ql, qs, qss, qbs⟩ := q
  intro c b acc ρ ρ' A hA1 hA2 h
  simp only [evalLoop] at h
  have ih := fun σ => qe c ρ σ A hA1
  cases hx : evalE f c ρ with
  | val a st1 =>
    rw [hx] at ih; simp only [hx] at h
    have k1 := ih _ rfl
    cases a
    case bool bb =>
      cases bb with
      | false => simp only [stOf, Option.some.injEq] at h; subst h; exact k1
      | true =>
        simp only at h
        have kb : ∀ σ, stOf (popRes (evalBVs f b (NState.push { st1 with last := acc }))) = some σ →
            Keep x A ρ.scopes σ.scopes := fun σ hσ =>
          k1.trans (Keep.block _ { st1 with last := acc } σ (fun σ' hσ' => qbs b _ σ' A hA2 hσ') hσ)
        generalize popRes (evalBVs f b (NState.push { st1 with last := acc })) = r at h kb
        cases r with
        | val v st2 => exact (kb _ rfl).trans (ql c b v st2 ρ' A hA1 hA2 h)
        | cont st2 => exact (kb _ rfl).trans (ql c b .null st2 ρ' A hA1 hA2 h)
        | brk st2 => simp only [stOf, Option.some.injEq] at h; subst h; exact kb _ rfl
        | err e st2 => simp only [stOf, Option.some.injEq] at h; subst h; exact kb _ rfl
        | unspec st2 => simp only [stOf, Option.some.injEq] at h; subst h; exact kb _ rfl
        | fuel => simp [stOf] at h
    all_goals (simp only [stOf, Option.some.injEq] at h; subst h; exact k1)
  | brk st1 => rw [hx] at ih; simp only [hx, stOf, Option.some.injEq] at h; subst h; exact ih _ rfl
  | cont st1 => rw [hx] at ih; simp only [hx] at h; exact (ih _ rfl).trans (ql c b .null st1 ρ' A hA1 hA2 h)
  | _ => pass_st h hx ih

theorem ps_succ (x : Text) (f : Nat) (q : PAll x f) : PS x (f + 1) := by
  obtain ⟨qe, ql, qs, qss, qbs⟩ := q
  intro s ρ ρ' A hA h
  cases s with
  | brk => same_st h
  | cont => same_st h
  | ret e => same_st h
  | expr e =>
    simp only [evalS] at h
    have ih := fun σ => qe e ρ σ A (by simpa [assignsS] using hA)
    cases hx : evalE f e ρ with
    | val v st1 => rw [hx] at ih; simp only [hx, stOf, Option.some.injEq] at h; subst h; exact ih st1 rfl
    | brk s => pass_st h hx ih
    | cont s => pass_st h hx ih
    | err e s => pass_st h hx ih
    | unspec s => pass_st h hx ih
    | fuel => pass_st h hx ih
  | letS n e =>
    simp only [evalS] at h
    have k0 := Keep.of_declare x A ρ n
    have ih := fun σ hσ => k0.trans (qe e (ρ.declare n) σ A (by simpa [assignsS] using hA) hσ)
    cases hx : evalE f e (ρ.declare n) with
    | val v st1 =>
      rw [hx] at ih; simp only [hx] at h
      have k1 := ih st1 rfl
      have hm : n ∈ (st1.scopes.headD []).map Prod.fst :=
        (qe e (ρ.declare n) st1 A (by simpa [assignsS] using hA) (by rw [hx]; rfl)).1.declare_mem
      cases ha : st1.assign n v with
      | none => simp only [ha, stOf, Option.some.injEq] at h; subst h; exact k1
      | some st2 =>
        simp only [ha, stOf, Option.some.injEq] at h; subst h
        exact k1.trans (Keep.of_update_head (assign_scopes ha) hm)
    | brk s => pass_st h hx ih
    | cont s => pass_st h hx ih
    | err e s => pass_st h hx ih
    | unspec s => pass_st h hx ih
    | fuel => pass_st h hx ih
  | block b =>
    simp only [evalS] at h
    exact Keep.block _ ρ ρ' (fun σ hσ => qss b ρ.push σ A (by simpa [assignsS] using hA) hσ) h

theorem pss_succ (x : Text) (f : Nat) (q : PAll x f) : PSs x (f + 1) := by
  obtain ⟨qe, ql, qs, qss, qbs⟩ := q
  intro b ρ ρ' A hA h
  cases b with
  | nil => same_st h
  | cons s rest =>
    have hA1 : A → x ∉ assignsS s := fun a => by have := hA a; simp only [assignsB, List.mem_append, not_or] at this; exact this.1
    have hA2 : A → x ∉ assignsB rest := fun a => by have := hA a; simp only [assignsB, List.mem_append, not_or] at this; exact this.2
    simp only [evalSs] at h
    have ih := fun σ => qs s ρ σ A hA1
    cases hx : evalS f s ρ with
    | val u st1 =>
      cases u
      rw [hx] at ih; simp only [hx] at h
      exact (ih _ rfl).trans (qss rest st1 ρ' A hA2 h)
    | _ => pass_st h hx ih

/-- a single statement in value position whose value is `null` -/
macro "stmt_one" h:ident ih:ident t:term : tactic => `(tactic|
  (cases hx : $t with
   | val u st1 =>
     cases u; rw [hx] at $ih:ident; simp only [hx, stOf, Option.some.injEq] at $h:ident; subst $h:ident; exact $ih:ident _ rfl
   | brk s => pass_st $h hx $ih
   | cont s => pass_st $h hx $ih
   | err e s => pass_st $h hx $ih
   | unspec s => pass_st $h hx $ih
   | fuel => pass_st $h hx $ih))

theorem pbs_succ (x : Text) (f : Nat) (q : PAll x f) : PBs x (f + 1) := by
  obtain ⟨qe, ql, qs, qss, qbs⟩ := q
  intro b ρ ρ' A hA h
  cases b with
  | nil => same_st h
  | cons s rest =>
    have hA1 : A → x ∉ assignsS s := fun a => by have := hA a; simp only [assignsB, List.mem_append, not_or] at this; exact this.1
    have hA2 : A → x ∉ assignsB rest := fun a => by have := hA a; simp only [assignsB, List.mem_append, not_or] at this; exact this.2
    have ih := fun σ => qs s ρ σ A hA1
    cases rest with
    | nil =>
      cases s with
      | expr e => simp only [evalBVs] at h; exact qe e ρ ρ' A (by simpa [assignsS] using hA1) h
      | block b2 =>
        cases b2 with
        | nil => simp only [evalBVs] at h; stmt_one h ih (evalS f (.block .nil) ρ)
        | cons s2 b3 =>
          simp only [evalBVs] at h
          exact Keep.block _ ρ ρ' (fun σ hσ => qbs (.cons s2 b3) ρ.push σ A (by simpa [assignsS] using hA1) hσ) h
      | letS n e => simp only [evalBVs] at h; stmt_one h ih (evalS f (.letS n e) ρ)
      | ret e => simp only [evalBVs] at h; stmt_one h ih (evalS f (.ret e) ρ)
      | brk => simp only [evalBVs] at h; stmt_one h ih (evalS f .brk ρ)
      | cont => simp only [evalBVs] at h; stmt_one h ih (evalS f .cont ρ)
    | cons s2 r2 =>
      simp only [evalBVs] at h
      cases hx : evalS f s ρ with
      | val u st1 =>
        cases u; rw [hx] at ih; simp only [hx] at h
        exact (ih _ rfl).trans (qbs _ st1 ρ' A hA2 h)
      | brk s => pass_st h hx ih
      | cont s => pass_st h hx ih
      | err e s => pass_st h hx ih
      | unspec s => pass_st h hx ih
      | fuel => pass_st h hx ih

/-- the invariant holds for all five evaluator functions, for every fuel -/
theorem pall (x : Text) : ∀ f, PAll x f := by
  intro f
  induction f with
  | zero =>
    refine ⟨?_, ?_, ?_, ?_, ?_⟩
    · intro e ρ ρ' A _ h; simp [evalE, stOf] at h
    · intro c b acc ρ ρ' A _ _ h; simp [evalLoop, stOf] at h
    · intro s ρ ρ' A _ h; simp [evalS, stOf] at h
    · intro b ρ ρ' A _ h; simp [evalSs, stOf] at h
    · intro b ρ ρ' A _ h; simp [evalBVs, stOf] at h
  | succ f ih => exact ⟨pe_succ x f ih, pl_succ x f ih, ps_succ x f ih, pss_succ x f ih, pbs_succ x f ih⟩

end NameEval
end Nl
