/-
  `lib.rs::eval`: parse, compile on a fresh compiler, run on a fresh machine; and the definitional
  counterpart `specEval`: parse, resolve, evaluate the tree.
-/
import Nlmodel.Model.Compiler
import Nlmodel.Spec.Eval
namespace Nl

/-- observable outcome of an evaluation (both sides are mapped to this) -/
inductive Obs where
  | value (t : Tree) (out : List Text)
  | error (e : Err) (out : List Text)
  | fault (site : String)
  | budget
  | unspec
  deriving Inhabited

def joinOut (out : List Text) : Text := (out.map (· ++ ['\n'])).flatten

def Obs.show : Obs → String
  | .value t out => "ok " ++ t.canon ++ " | " ++ hexText (joinOut out)
  | .error e out => "err " ++ e.name ++ " | " ++ hexText (joinOut out)
  | .fault s => "FAULT " ++ s
  | .budget => "BUDGET"
  | .unspec => "UNSPEC"

/-- `nederlang::eval(text)` on the machine model -/
def evalText (cc : CharClass) (budget : Nat) (src : Text) : Obs :=
  match parse cc src with
  | .error e => .error e []
  | .ok ast =>
    match compileProgram ast with
    | .error e => .error e []
    | .ok (_, bc) =>
      match VM.run {} bc budget with
      | .value v s => .value (s.mem.heap.tree treeDepth [] v) s.out
      | .error e s => .error e s.out
      | .fault site => .fault site
      | .budget _ => .budget

/-- the definitional evaluation of the text -/
def specText (cc : CharClass) (fuel : Nat) (src : Text) : Obs :=
  match parse cc src with
  | .error e => .error e []
  | .ok ast =>
    match resolveProgram ast with
    | .error e => .error e []
    | .ok r =>
      match Spec.evalProgram fuel r with
      | .value t out => .value t out
      | .error e out => .error e out
      | .unspec => .unspec
      | .fuel => .budget

end Nl
